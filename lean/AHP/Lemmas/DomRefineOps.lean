/-
  AHP.Lemmas.DomRefineOps — each call of the model refines the documented effect on the reference
  document (`sstep`), in every invariant state.
-/
import AHP.Lemmas.DomRefine
namespace AHP.Dom.Spec
open AHP AHP.Dom

/-! ### local refinements -/

theorem absM_sc_false (m : Meta) : absM { m with sc := false } = { absM m with sc := false } := rfl

theorem refines_appendText (s : Str) :
    LocRefines (fun m bs => (some (locAppendText s m bs), .none)) (fun m bs => (some (sAppend (.text s) m bs), .none)) := by
  intro par own m bs _
  simp [locAppendText, sAppend, absE, absL_append, absM]

theorem refines_appendChild (ct : DN) (c : Nat) :
    LocRefines (fun m bs => (some (locAppendChild ct m bs), .el c)) (fun m bs => (some (sAppend (abs ct) m bs), .el c)) := by
  intro par own m bs _
  simp [locAppendChild, sAppend, absE, absL_append, absM, abs_attach]

theorem absE_insertTextAt (i s m bs) : absE (locInsertTextAt i s m bs) = sInsertAt i (.text s) (absM m) (absL bs) := by
  simp [locInsertTextAt, sInsertAt, absE, absL_insertAt, absM]

theorem absE_insertElAt (i c m bs) : absE (locInsertElAt i c m bs) = sInsertAt i (abs c) (absM m) (absL bs) := by
  simp [locInsertElAt, sInsertAt, absE, absL_insertAt, absM, abs_attach]

theorem refines_insertText (after : Bool) (r : Blk) (s : Str) :
    LocRefines (locInsertText after r s) (sInsert after r (.text s) (.str s)) := by
  intro par own m bs _
  simp only [locInsertText, sInsert, sindexOf_absL]
  cases indexOf r bs with
  | none => simp
  | some i => simp [absE_insertTextAt]

theorem refines_insertEl (after : Bool) (r : Blk) (ct : DN) (c : Nat) :
    Refines (locInsertEl after r ct) (fun m bs => ((sInsert after r (abs ct) (.el c) m bs).1).getD (sAppend (abs ct) m bs)) := by
  intro par own m bs _
  simp only [locInsertEl, sInsert, sindexOf_absL]
  cases indexOf r bs with
  | none =>
    simp only [Option.getD_none, absE_insertElAt]
    simp [sInsertAt, sAppend, insertAt, ← absL_length bs]
  | some i => simp [absE_insertElAt]

theorem refines_removeChild (c : Nat) : LocRefines (locRemoveChild c) (sRemoveChild c) := by
  intro par own m bs hk
  simp only [OK_el] at hk
  simp only [locRemoveChild, sRemoveChild, sremoveFirstEl_absL]
  by_cases hc : c ∈ m.children
  · rw [if_pos hc]
    cases hr : removeFirstEl c bs with
    | none => exact absurd (hk.2.2.1 ▸ hc) (removeFirstEl_none c bs hr)
    | some r => simp [absE, absM, abs_reown, abs_setParent]
  · rw [if_neg hc]
    cases hr : removeFirstEl c bs with
    | none => simp
    | some r =>
      have := (removeFirstEl_spec c bs hr)
      exfalso
      apply hc
      rw [hk.2.2.1]
      -- the removed block is an element with uid c, so c is among the element blocks
      clear hk hc this
      induction bs generalizing r with
      | nil => simp [removeFirstEl] at hr
      | cons b bs ih =>
        cases b with
        | text s =>
          simp only [removeFirstEl, Option.map_eq_some_iff] at hr
          obtain ⟨r', hr', _⟩ := hr
          simpa using ih r' hr'
        | el m' k =>
          simp only [removeFirstEl] at hr
          split at hr
          · rename_i he; simp [he]
          · simp only [Option.map_eq_some_iff] at hr
            obtain ⟨r', hr', _⟩ := hr
            simp [ih r' hr']

theorem refines_removeText (s : Str) :
    LocRefines (fun m bs => (some (locRemoveText s m bs).1, (locRemoveText s m bs).2))
      (fun m bs => (some (sRemoveText s m bs).1, (sRemoveText s m bs).2)) := by
  intro par own m bs _
  simp only [locRemoveText, sRemoveText, sreplaceFirstText_absL]
  cases replaceFirstText s bs with
  | none => simp [absE, absM]
  | some r => simp [absE, absM]

theorem refines_removeTextAll (s : Str) :
    LocRefines (fun m bs => (some (locRemoveTextAll s m bs).1, (locRemoveTextAll s m bs).2))
      (fun m bs => (some (sRemoveTextAll s m bs).1, (sRemoveTextAll s m bs).2)) := by
  intro par own m bs _
  simp [locRemoveTextAll, sRemoveTextAll, sreplaceAllText_absL, absE, absM]

theorem refines_setAttribute (k v : Str) : LocRefines (locSetAttribute k v) (sSetAttribute k v) := by
  intro par own m bs _
  simp only [locSetAttribute, sSetAttribute]
  split <;> simp [absE, absM]

/-! ### calls on worlds -/

variable {w : World}

theorem abs_appendText (hw : Inv w) (t s) : (w.appendText t s).map absR = (absW w).appendText t s :=
  abs_apply w t _ _ (refines_appendText s) hw.roots

theorem rest_roots (hw : Inv w) {c ct rest} (h : takeRoot c w.roots = some (ct, rest)) : ∀ r ∈ rest, RootOK r := by
  intro r hr
  exact hw.roots r ((List.Perm.mem_iff (takeRoot_spec c w.roots h).1).mpr (by simp [hr]))

theorem abs_appendChild (hw : Inv w) (t c) : (w.appendChild t c).map absR = (absW w).appendChild t c := by
  unfold World.appendChild SWorld.appendChild
  have : stakeRoot c (absW w).roots = (takeRoot c w.roots).map (fun r => (abs r.1, absL r.2)) := stakeRoot_absL c w.roots
  rw [this]
  cases h : takeRoot c w.roots with
  | none => simp
  | some r =>
    obtain ⟨ct, rest⟩ := r
    simp only [Option.map_some]
    exact abs_apply { w with roots := rest } t _ _ (refines_appendChild ct c) (rest_roots hw h)

theorem abs_appendBlock (hw : Inv w) (t b) : (w.appendBlock t b).map absR = (absW w).appendBlock t b := by
  cases b with
  | txt s =>
    simp only [World.appendBlock, SWorld.appendBlock, ← abs_appendText hw t s, Option.map_map]
    rfl
  | elm c => exact abs_appendChild hw t c

theorem abs_appendBlocksLoop (hw : Inv w) (t) (bs : List Blk) :
    (w.appendBlocksLoop t bs).map absW = (absW w).appendBlocksLoop t bs := by
  induction bs generalizing w with
  | nil => simp [World.appendBlocksLoop, SWorld.appendBlocksLoop]
  | cons b bs ih =>
    simp only [World.appendBlocksLoop, SWorld.appendBlocksLoop, ← abs_appendBlock hw t b]
    cases h : w.appendBlock t b with
    | none => simp
    | some r =>
      simp only [Option.map_some, absR]
      exact ih (appendBlock_Inv (w' := r.1) (v := r.2) hw (by simpa using h))

theorem abs_appendBlocks (hw : Inv w) (t bs) : (w.appendBlocks t bs).map absR = (absW w).appendBlocks t bs := by
  simp only [World.appendBlocks, SWorld.appendBlocks, ← abs_appendBlocksLoop hw t bs, Option.map_map]
  rfl

/-! fragments -/

mutual
theorem abs_mk (p o) (f : FN) (n : Nat) : abs (mk p o f n).1 = (smk f n).1 ∧ (mk p o f n).2 = (smk f n).2 := by
  match f with
  | .text s => simp [smk]
  | .el name attrs sc kids =>
    have := absL_mkL (some n) o kids (n+1)
    rw [mk_el]
    simp [smk, absM, this.1, this.2]
theorem absL_mkL (p o) (fs : List FN) (n : Nat) : absL (mkL p o fs n).1 = (smkL fs n).1 ∧ (mkL p o fs n).2 = (smkL fs n).2 := by
  match fs with
  | [] => simp [smkL]
  | f :: fs =>
    have h1 := abs_mk p o f n
    have h2 := absL_mkL p o fs (mk p o f n).2
    rw [mkL_cons]
    rw [h1.2] at h2
    simp [smkL, h1.1, h1.2, h2.1, h2.2]
end

theorem abs_detachTop (ch) (b : DN) : abs (detachTop ch b) = abs b := by
  cases b with
  | text s => simp [detachTop]
  | el m k =>
    simp only [detachTop]
    split
    · rw [abs_reown, abs_setParent]
    · rfl

/-- the fragment contains no element with the reserved wrapper name at its root (outside C05/C20's domain) -/
def Parsed.plain : Parsed → Prop
  | .single (.el name _ _ _) => name ≠ wrapperName
  | _ => True

theorem abs_createBlocks (p : Parsed) (hp : Parsed.plain p) (d n : Nat) :
    absL (createBlocks (p.build d n).1) = (sfragment n p).1 ∧ (p.build d n).2 = (sfragment n p).2 := by
  cases p with
  | single r =>
    have := abs_mk none (some d) r n
    cases r with
    | text s => simp [Parsed.build, createBlocks, sfragment, smk]
    | el name attrs sc kids =>
      simp only [Parsed.plain] at hp
      simp only [Parsed.build, sfragment]
      rw [mk_el] at this ⊢
      simp only [createBlocks, if_neg hp, absL_cons, absL_nil]
      exact ⟨by rw [this.1], this.2⟩
  | multi tops =>
    have := absL_mkL (some n) (some d) tops (n+1)
    simp only [Parsed.build, createBlocks, sfragment, wrapperName, if_true, List.map_cons, detachTop, absL_cons, abs_text]
    refine ⟨?_, this.2⟩
    congr 1
    rw [← this.1]
    generalize (mkL (some n) (some d) tops (n+1)).1 = l
    generalize elemIds l = ch
    induction l with
    | nil => simp
    | cons b bs ih => simp [abs_detachTop, ih]

theorem isEl_abs (b : DN) : SN.isEl (abs b) = b.isEl := by cases b <;> rfl
theorem stoBlk_abs (b : DN) : stoBlk (abs b) = toBlk b := by cases b <;> simp [stoBlk, toBlk, absM]

theorem absL_filter_isEl (l : List DN) : absL (l.filter DN.isEl) = (absL l).filter SN.isEl := by
  induction l with
  | nil => simp
  | cons b bs ih =>
    simp only [List.filter, absL_cons, isEl_abs]
    cases b.isEl <;> simp [ih]

theorem map_stoBlk_absL (l : List DN) : (absL l).map stoBlk = l.map toBlk := by
  induction l with
  | nil => simp
  | cons b bs ih => simp [stoBlk_abs, ih]

theorem abs_appendInnerHTML (hw : Inv w) (t) (p : Parsed) (hp : Parsed.plain p) :
    (w.appendInnerHTML t p).map absR = (absW w).appendInnerHTML t p := by
  obtain ⟨h1, h2⟩ := abs_createBlocks p hp w.nextDoc w.next
  simp only [World.appendInnerHTML, SWorld.appendInnerHTML, Option.map_map]
  have hloop := abs_appendBlocksLoop (fragment_world_Inv p hw) t ((createBlocks (p.build w.nextDoc w.next).1).map toBlk)
  have hW : absW { roots := w.roots ++ (createBlocks (p.build w.nextDoc w.next).1).filter DN.isEl,
                   next := (p.build w.nextDoc w.next).2, nextDoc := w.nextDoc + 1 } =
      { roots := (absW w).roots ++ (sfragment (absW w).next p).1.filter SN.isEl, next := (sfragment (absW w).next p).2,
        nextDoc := (absW w).nextDoc + 1 } := by
    simp only [absW, absL_append, absL_filter_isEl, h1, h2]
  have e1 : (sfragment (absW w).next p).1.map stoBlk = (createBlocks (p.build w.nextDoc w.next).1).map toBlk := by
    rw [show (absW w).next = w.next from rfl, ← h1, map_stoBlk_absL]
  rw [← hW, e1, ← hloop, Option.map_map]
  rfl

/-! insertion -/

theorem abs_insert (hw : Inv w) (after t b ref) : (w.insert after t b ref).map absR = (absW w).insert after t b ref := by
  unfold World.insert SWorld.insert
  cases ref with
  | none => exact abs_appendBlock hw t b
  | some r =>
    cases b with
    | txt s => exact abs_apply w t _ _ (refines_insertText after r s) hw.roots
    | elm c =>
      simp only
      have : stakeRoot c (absW w).roots = (takeRoot c w.roots).map (fun r => (abs r.1, absL r.2)) := stakeRoot_absL c w.roots
      rw [this]
      cases h : takeRoot c w.roots with
      | none => simp
      | some x =>
        obtain ⟨ct, rest⟩ := x
        simp only [Option.map_some, sfindL?_absL]
        cases hf : findL? t rest with
        | none => simp
        | some y =>
          obtain ⟨m, bs⟩ := y
          simp only [Option.map_some, absP, sindexOf_absL]
          cases indexOf r bs with
          | none => simp [absR]
          | some i =>
            simp only [Option.map_some, absR]
            congr 2
            exact absW_edit { w with roots := rest } t _ _ (refines_insertEl after r ct c) (rest_roots hw h)

/-! removal -/

theorem abs_removeText (hw : Inv w) (t s) : (w.removeText t s).map absR = (absW w).removeText t s :=
  abs_apply w t _ _ (refines_removeText s) hw.roots

theorem abs_removeTextAll (hw : Inv w) (t s) : (w.removeTextAll t s).map absR = (absW w).removeTextAll t s :=
  abs_apply w t _ _ (refines_removeTextAll s) hw.roots

theorem abs_removeChild (hw : Inv w) (t c) : (w.removeChild t c).map absR = (absW w).removeChild t c :=
  abs_apply w t _ _ (refines_removeChild c) hw.roots

theorem abs_removeBlock (hw : Inv w) (t b) : (w.removeBlock t b).map absR = (absW w).removeBlock t b := by
  cases b with
  | elm c => exact abs_removeChild hw t c
  | txt s => exact abs_removeText hw t s

theorem abs_removeBlocksLoop (hw : Inv w) (t) (bs : List Blk) :
    (w.removeBlocksLoop t bs).map (fun r => (absW r.1, r.2)) = (absW w).removeBlocksLoop t bs := by
  induction bs generalizing w with
  | nil => simp [World.removeBlocksLoop, SWorld.removeBlocksLoop]
  | cons b bs ih =>
    simp only [World.removeBlocksLoop, SWorld.removeBlocksLoop, ← abs_removeBlock hw t b]
    cases h : w.removeBlock t b with
    | none => simp
    | some r =>
      simp only [Option.map_some, absR]
      rw [← ih (removeBlock_Inv (w' := r.1) (v := r.2) hw (by simpa using h))]
      simp [Option.map_map, Function.comp_def]

theorem abs_removeBlocks (hw : Inv w) (t bs) : (w.removeBlocks t bs).map absR = (absW w).removeBlocks t bs := by
  simp only [World.removeBlocks, SWorld.removeBlocks, ← abs_removeBlocksLoop hw t bs, Option.map_map]
  rfl

theorem abs_setAttribute (hw : Inv w) (t k v) : (w.setAttribute t k v).map absR = (absW w).setAttribute t k v := by
  unfold World.setAttribute SWorld.setAttribute
  split
  · rfl
  · exact abs_apply w t _ _ (refines_setAttribute k v) hw.roots

end AHP.Dom.Spec

namespace AHP.Dom.Spec
open AHP AHP.Dom

/-! ### `remove()`: the cached parentNode is the element that holds the block -/

theorem sparent?_text (t s) : sparent? t (.text s) = none := by simp [sparent?]
theorem sparent?_el (t m bs) : sparent? t (.el m bs) = if t ∈ selemIds bs then some m.id else sparentL? t bs := by simp [sparent?]
theorem sparentL?_nil (t) : sparentL? t [] = none := by simp [sparentL?]
theorem sparentL?_cons (t b bs) : sparentL? t (b :: bs) = match sparent? t b with
    | some r => some r
    | none => sparentL? t bs := by
  rw [sparentL?]; cases sparent? t b <;> rfl

mutual
theorem sparent?_none (t) (n : DN) (h : t ∉ ids n) : sparent? t (abs n) = none := by
  match n with
  | .text s => simp [sparent?_text]
  | .el m bs =>
    simp only [ids_el, List.mem_cons, not_or] at h
    rw [abs_el, sparent?_el, selemIds_absL]
    rw [if_neg (fun hm => h.2 (elemIds_subset_idsL bs t hm))]
    exact sparentL?_none t bs h.2
theorem sparentL?_none (t) (l : List DN) (h : t ∉ idsL l) : sparentL? t (absL l) = none := by
  match l with
  | [] => simp [sparentL?_nil]
  | b :: bs =>
    simp only [idsL_cons, List.mem_append, not_or] at h
    rw [absL_cons, sparentL?_cons, sparent?_none t b h.1]
    exact sparentL?_none t bs h.2
end

mutual
theorem find?_not_mem (t) (n : DN) (h : find? t n = none) : t ∉ ids n := by
  match n with
  | .text s => simp
  | .el m bs =>
    rw [find?_el] at h
    split at h
    · simp at h
    · rename_i hne
      simp only [ids_el, List.mem_cons, not_or]
      exact ⟨fun e => hne e.symm, findL?_not_mem t bs h⟩
theorem findL?_not_mem (t) (l : List DN) (h : findL? t l = none) : t ∉ idsL l := by
  match l with
  | [] => simp
  | b :: bs =>
    rw [findL?_cons] at h
    split at h
    · simp at h
    · rename_i hb
      simp only [idsL_cons, List.mem_append, not_or]
      exact ⟨find?_not_mem t b hb, findL?_not_mem t bs h⟩
end

mutual
theorem parent_cached (t) (n : DN) {par own} (hn : OK par own n) (hd : (ids n).Nodup) {m bs} (h : find? t n = some (m, bs)) :
    m.parent = if rootId n = some t then par else sparent? t (abs n) := by
  match n with
  | .text s => simp at h
  | .el m' bs' =>
    rw [find?_el] at h
    simp only [OK_el] at hn
    split at h
    · rename_i he
      simp only [Option.some.injEq, Prod.mk.injEq] at h
      obtain ⟨rfl, rfl⟩ := h
      simp [rootId, he, hn.1]
    · rename_i hne
      simp only [ids_el, List.nodup_cons] at hd
      have := parentL_cached t bs' (fun b hb => ⟨own, OKL_mem hn.2.2.2.2.2 hb⟩) hd.2 h
      rw [this, abs_el, sparent?_el, selemIds_absL]
      have : ¬ (rootId (DN.el m' bs') = some t) := by simp [rootId, hne]
      rw [if_neg this]
      rfl
theorem parentL_cached (t) (l : List DN) {par} (hl : ∀ b ∈ l, ∃ o, OK par o b) (hd : (idsL l).Nodup) {m bs}
    (h : findL? t l = some (m, bs)) :
    m.parent = if t ∈ elemIds l then par else sparentL? t (absL l) := by
  match l with
  | [] => simp at h
  | b :: rest =>
    simp only [idsL_cons] at hd
    have hdd := List.nodup_append.mp hd
    rw [findL?_cons] at h
    obtain ⟨o, hb⟩ := hl b (by simp)
    cases hfb : find? t b with
    | some r =>
      rw [hfb] at h
      simp only [Option.some.injEq] at h
      subst h
      have hp := parent_cached t b hb hdd.1 hfb
      have htb : t ∈ ids b := find?_mem t b hfb
      have hnr : t ∉ idsL rest := fun hr => hdd.2.2 t htb t hr rfl
      by_cases hroot : rootId b = some t
      · rw [hp, if_pos hroot]
        have : t ∈ elemIds (b :: rest) := by
          cases b with
          | text s => simp [rootId] at hroot
          | el mb kb => simp only [rootId, Option.some.injEq] at hroot; simp [hroot]
        rw [if_pos this]
      · rw [hp, if_neg hroot]
        have : t ∉ elemIds (b :: rest) := by
          intro hm
          cases b with
          | text s => exact hnr (elemIds_subset_idsL rest t (by simpa using hm))
          | el mb kb =>
            simp only [elemIds_el, List.mem_cons] at hm
            cases hm with
            | inl e => exact hroot (by simp [rootId, e])
            | inr e => exact hnr (elemIds_subset_idsL rest t e)
        rw [if_neg this, absL_cons, sparentL?_cons]
        cases hs : sparent? t (abs b) with
        | some p => rfl
        | none => simp [sparentL?_none t rest hnr]
    | none =>
      rw [hfb] at h
      have hnb : t ∉ ids b := find?_not_mem t b hfb
      have ih := parentL_cached t rest (fun x hx => hl x (by simp [hx])) hdd.2.1 h
      rw [ih, absL_cons, sparentL?_cons, sparent?_none t b hnb]
      have : t ∈ elemIds (b :: rest) ↔ t ∈ elemIds rest := by
        cases b with
        | text s => simp
        | el mb kb =>
          simp only [elemIds_el, List.mem_cons]
          constructor
          · intro hh
            cases hh with
            | inl e => exact absurd (by simp [e]) hnb
            | inr e => exact e
          · exact Or.inr
      by_cases hm : t ∈ elemIds rest
      · rw [if_pos hm, if_pos (this.mpr hm)]
      · rw [if_neg hm, if_neg (fun x => hm (this.mp x))]
end

theorem abs_remove {w : World} (hw : Inv w) (t) : (w.remove t).map absR = (absW w).remove t := by
  unfold World.remove SWorld.remove
  have hf : sfindL? t (absW w).roots = (w.find? t).map absP := sfindL?_absL t w.roots
  rw [hf]
  cases hfind : w.find? t with
  | none => simp
  | some r =>
    obtain ⟨m, bs⟩ := r
    simp only [Option.map_some]
    have hroots : ∀ b ∈ w.roots, ∃ o, OK none o b := by
      intro b hb
      obtain ⟨m', bs', rfl, hk⟩ := hw.roots b hb
      exact ⟨_, hk⟩
    have hp := parentL_cached t w.roots hroots hw.nodup hfind
    have he : selemIds (absW w).roots = elemIds w.roots := selemIds_absL w.roots
    rw [he]
    have hp' : m.parent = if t ∈ elemIds w.roots then none else sparentL? t (absW w).roots := hp
    rw [← hp']
    cases m.parent with
    | none => simp [absR]
    | some p =>
      simp only [← abs_removeChild hw p t, Option.map_map]
      rfl

end AHP.Dom.Spec
