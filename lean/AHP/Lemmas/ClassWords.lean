/-
  `classWords` — the normalisation `[x.strip() for x in className.strip().split(' ') if x.strip()]` of the three
  `getElementsByClassName` — on query strings made of class names separated by single spaces:
  it returns those names.  (Ties the class-query theorems of C06/C07, stated on name lists, to query strings.)
-/
import AHP.Model.Search
namespace AHP.G3
/-- A class name: non-empty, no white space. -/
def Word (w : Str) : Prop := w ≠ [] ∧ ∀ c ∈ w, isWs c = false

def NoSpace (w : Str) : Prop := ∀ c ∈ w, c ≠ ' '

theorem Word.noSpace {w : Str} (h : Word w) : NoSpace w := by
  intro c hc e
  have := h.2 c hc
  subst e
  simp [isWs] at this

theorem splitChar_noSpace {w : Str} (h : NoSpace w) : splitChar ' ' w = [w] := by
  induction w with
  | nil => rfl
  | cons c cs ih =>
    have hc : c ≠ ' ' := h c (by simp)
    have := ih (fun d hd => h d (List.mem_cons_of_mem _ hd))
    simp [splitChar, hc, this]

theorem splitChar_append {w : Str} (h : NoSpace w) (rest : Str) :
    splitChar ' ' (w ++ ' ' :: rest) = w :: splitChar ' ' rest := by
  induction w with
  | nil => simp [splitChar]
  | cons c cs ih =>
    have hc : c ≠ ' ' := h c (by simp)
    have := ih (fun d hd => h d (List.mem_cons_of_mem _ hd))
    simp [splitChar, hc, this]

theorem joinWith_cons2 (sep w w2 : Str) (ws : List Str) :
    joinWith sep (w :: w2 :: ws) = w ++ sep ++ joinWith sep (w2 :: ws) := by
  conv => lhs; unfold joinWith

theorem splitChar_join : ∀ (names : List Str), names ≠ [] → (∀ n ∈ names, NoSpace n) →
    splitChar ' ' (joinWith [' '] names) = names
  | [], h, _ => absurd rfl h
  | [w], _, h => by
    have : joinWith [' '] [w] = w := by unfold joinWith; rfl
    rw [this, splitChar_noSpace (h w (by simp))]
  | w :: w2 :: ws, _, h => by
    rw [joinWith_cons2, List.append_assoc, List.singleton_append, splitChar_append (h w (by simp)),
      splitChar_join (w2 :: ws) (by simp) (fun n hn => h n (List.mem_cons_of_mem _ hn))]

theorem lstrip_of_head {c : Char} {cs : Str} (h : isWs c = false) : lstrip (c :: cs) = c :: cs := by
  simp [lstrip, List.dropWhile, h]

theorem rstrip_of_last {s : Str} {c : Char} {cs : Str} (hs : s.reverse = c :: cs) (h : isWs c = false) :
    rstrip s = s := by
  simp only [rstrip, hs, List.dropWhile, h]
  rw [← hs, List.reverse_reverse]

theorem strip_of_ends {s : Str} {c d : Char} {cs ds : Str} (h1 : s = c :: cs) (hc : isWs c = false)
    (h2 : s.reverse = d :: ds) (hd : isWs d = false) : strip s = s := by
  simp only [strip]
  rw [h1, lstrip_of_head hc, ← h1]
  exact rstrip_of_last h2 hd

theorem strip_word {w : Str} (h : Word w) : strip w = w := by
  cases hw : w with
  | nil => exact absurd hw h.1
  | cons c cs =>
    have hc : isWs c = false := h.2 c (by rw [hw]; simp)
    cases hr : (c :: cs).reverse with
    | nil => simp at hr
    | cons d ds =>
      have hd : isWs d = false := by
        apply h.2 d
        rw [hw]
        have : d ∈ (c :: cs).reverse := by rw [hr]; simp
        exact List.mem_reverse.mp this
      exact strip_of_ends rfl hc hr hd

/-- the joined string starts with the first name and ends with the last one -/
theorem joinWith_ends (sep : Str) : ∀ (names : List Str) (w : Str), names.getLast? = some w →
    ∃ pre, joinWith sep names = pre ++ w
  | [], _, h => by simp at h
  | [x], w, h => by
    have : x = w := by simpa using h
    subst this
    exact ⟨[], by unfold joinWith; rfl⟩
  | x :: x2 :: xs, w, h => by
    have h' : (x2 :: xs).getLast? = some w := by simpa [List.getLast?_cons_cons] using h
    obtain ⟨pre, hp⟩ := joinWith_ends sep (x2 :: xs) w h'
    exact ⟨x ++ sep ++ pre, by rw [joinWith_cons2, hp]; simp [List.append_assoc]⟩

theorem joinWith_head (sep : Str) (x : Str) (xs : List Str) : ∃ post, joinWith sep (x :: xs) = x ++ post := by
  cases xs with
  | nil => exact ⟨[], by unfold joinWith; simp⟩
  | cons x2 xs => exact ⟨sep ++ joinWith sep (x2 :: xs), by rw [joinWith_cons2]; simp [List.append_assoc]⟩

theorem strip_join (names : List Str) (hne : names ≠ []) (hw : ∀ n ∈ names, Word n) :
    strip (joinWith [' '] names) = joinWith [' '] names := by
  cases names with
  | nil => exact absurd rfl hne
  | cons x xs =>
    obtain ⟨post, hpost⟩ := joinWith_head [' '] x xs
    have hx := hw x (by simp)
    cases hxc : x with
    | nil => exact absurd hxc hx.1
    | cons c cs =>
      subst hxc
      have hc : isWs c = false := hx.2 c (by simp)
      have hlast : ∃ w, ((c :: cs) :: xs).getLast? = some w := by
        cases h : ((c :: cs) :: xs).getLast? with
        | none => simp at h
        | some w => exact ⟨w, rfl⟩
      obtain ⟨w, hwl⟩ := hlast
      have hwmem : w ∈ (c :: cs) :: xs := List.mem_of_getLast? hwl
      have hwW := hw w hwmem
      obtain ⟨pre, hpre⟩ := joinWith_ends [' '] ((c :: cs) :: xs) w hwl
      cases hwr : w.reverse with
      | nil =>
        have : w = [] := by simpa using hwr
        exact absurd this hwW.1
      | cons d ds =>
        have hd : isWs d = false := by
          apply hwW.2 d
          have : d ∈ w.reverse := by rw [hwr]; simp
          exact List.mem_reverse.mp this
        have h1 : joinWith [' '] ((c :: cs) :: xs) = c :: (cs ++ post) := by rw [hpost]; rfl
        have h2 : (joinWith [' '] ((c :: cs) :: xs)).reverse = d :: (ds ++ pre.reverse) := by
          rw [hpre, List.reverse_append, hwr]; rfl
        exact strip_of_ends h1 hc h2 hd

/-- A query made of class names separated by single spaces is read back as those names. -/
theorem classWords_join (names : List Str) (hne : names ≠ []) (hw : ∀ n ∈ names, Word n) :
    classWords (joinWith [' '] names) = names := by
  simp only [classWords]
  rw [strip_join names hne hw, splitChar_join names hne (fun n hn => (hw n hn).noSpace)]
  have hmap : names.map strip = names := by
    conv => rhs; rw [← List.map_id names]
    apply List.map_congr_left
    intro n hn
    exact strip_word (hw n hn)
  rw [hmap]
  apply List.filter_eq_self.mpr
  intro n hn
  have := (hw n hn).1
  cases n with
  | nil => exact absurd rfl this
  | cons _ _ => rfl

/-- A single class name is read back as itself (what the recursive calls of the class search pass on). -/
theorem classWords_word {w : Str} (h : Word w) : classWords w = [w] := by
  have := classWords_join [w] (by simp) (by intro n hn; simp at hn; subst hn; exact h)
  have hj : joinWith [' '] [w] = w := by unfold joinWith; rfl
  rwa [hj] at this

end AHP.G3