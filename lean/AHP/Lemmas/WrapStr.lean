/-
  `addStartTag` at character level against `wrapToks` at token level (C02f): on renderings of well-formed
  token lists, inserting the wrapper into the *text* and inserting it into the *token list* are the same thing.
-/
import AHP.Lemmas.LexRoundTrip
import AHP.Model.Builder
namespace AHP

theorem takeThrough_append (q : Char) (v rest : Str) (h : q ∉ v) :
    takeThrough q (v ++ q :: rest) = some (v ++ [q], rest) := by
  induction v with
  | nil => simp [takeThrough]
  | cons c cs ih =>
    have hc : c ≠ q := fun e => h (by simp [e])
    have hcs : q ∉ cs := fun e => h (by simp [e])
    simp [takeThrough, hc, ih hcs]

theorem takeWhile_append_stop {p : Char → Bool} (a : Str) (c : Char) (r : Str)
    (ha : ∀ x ∈ a, p x = true) (hc : p c = false) :
    (a ++ c :: r).takeWhile p = a ∧ (a ++ c :: r).dropWhile p = c :: r := by
  induction a with
  | nil => simp [List.takeWhile, List.dropWhile, hc]
  | cons x xs ih =>
    have hx := ha x (by simp)
    have := ih (fun y hy => ha y (by simp [hy]))
    simp [List.takeWhile, List.dropWhile, hx, this.1, this.2]

theorem takeWhile_all {p : Char → Bool} (a : Str) (ha : ∀ x ∈ a, p x = true) :
    a.takeWhile p = a ∧ a.dropWhile p = [] := by
  induction a with
  | nil => simp
  | cons x xs ih =>
    have hx := ha x (by simp)
    have := ih (fun y hy => ha y (by simp [hy]))
    simp [List.takeWhile, List.dropWhile, hx, this.1, this.2]

theorem mem_takeWhile_sat {p : Char → Bool} : ∀ (l : Str) (x : Char), x ∈ l.takeWhile p → p x = true := by
  intro l
  induction l with
  | nil => intro x hx; simp at hx
  | cons c cs ih =>
    intro x hx
    by_cases hc : p c = true
    · simp only [List.takeWhile_cons, hc, if_true] at hx
      rcases List.mem_cons.mp hx with e | e
      · rw [e]; exact hc
      · exact ih x e
    · simp [List.takeWhile_cons, hc] at hx

def isNl (c : Char) : Bool := c = '\n'
def isBl (c : Char) : Bool := c = ' ' || c = '\t'

/-- the shape `[\n]*[ \t]*` -/
theorem wsNL_split (ws : Str) (h : wsNL ws = true) :
    ∃ nl bl, ws = nl ++ bl ∧ (∀ x ∈ nl, isNl x = true) ∧ (∀ x ∈ bl, isBl x = true) := by
  refine ⟨ws.takeWhile isNl, ws.dropWhile isNl, (List.takeWhile_append_dropWhile).symm, ?_, ?_⟩
  · intro x hx
    exact mem_takeWhile_sat ws x hx
  · unfold wsNL at h
    have h2 : (List.dropWhile isBl (List.dropWhile isNl ws)) = [] := by
      have : (fun c : Char => decide (c = '\n')) = isNl := rfl
      have hb : (fun c : Char => decide (c = ' ') || decide (c = '\t')) = isBl := rfl
      simpa [this, hb] using h
    generalize List.dropWhile isNl ws = l at h2
    intro x hx
    induction l with
    | nil => simp at hx
    | cons c cs ih =>
      by_cases hc : isBl c = true
      · simp only [List.dropWhile_cons, hc, if_true] at h2
        rcases List.mem_cons.mp hx with e | e
        · rw [e]; exact hc
        · exact ih h2 e
      · simp [List.dropWhile_cons, hc] at h2

/-- after `[\n]*[ \t]*`, the match continues at the first character that is neither -/
theorem doctypePrefix_skip (nl bl : Str) (c : Char) (r : Str)
    (hnl : ∀ x ∈ nl, isNl x = true) (hbl : ∀ x ∈ bl, isBl x = true) (hc1 : isNl c = false) (hc2 : isBl c = false) :
    doctypePrefix (nl ++ bl ++ c :: r) =
      (match c :: r with
       | '<' :: '!' :: r3 =>
         if lower (r3.take 7) = "doctype".toList then
           match takeThrough '>' (r3.drop 7) with
           | some (a, b) => some (nl ++ bl ++ ('<' :: '!' :: r3.take 7) ++ a, b)
           | none => none
         else none
       | _ => none) := by
  have hnlf : (fun c : Char => decide (c = '\n')) = isNl := rfl
  have hblf : (fun c : Char => decide (c = ' ') || decide (c = '\t')) = isBl := rfl
  unfold doctypePrefix
  simp only [hnlf, hblf]
  have e1 : (nl ++ bl ++ c :: r) = nl ++ (bl ++ c :: r) := by simp
  rw [e1]
  -- skip the newlines: the next character is a blank or `c`, not a newline
  have hsplit1 : (nl ++ (bl ++ c :: r)).takeWhile isNl = nl ∧ (nl ++ (bl ++ c :: r)).dropWhile isNl = bl ++ c :: r := by
    cases bl with
    | nil => simpa using takeWhile_append_stop nl c r hnl hc1
    | cons b bs =>
      have hb : isNl b = false := by
        have := hbl b (by simp)
        unfold isBl at this; unfold isNl
        simp at this ⊢
        rcases this with e | e <;> (rw [e]; decide)
      simpa using takeWhile_append_stop nl b (bs ++ c :: r) hnl hb
  have hsplit2 := takeWhile_append_stop bl c r hbl hc2
  rw [hsplit1.1, hsplit1.2, hsplit2.1, hsplit2.2]
  cases c :: r with
  | nil => rfl
  | cons c1 r1 =>
    cases r1 with
    | nil => rfl
    | cons c2 r2 => rfl

theorem doctypePrefix_decl (nl bl d rest : Str)
    (hnl : ∀ x ∈ nl, isNl x = true) (hbl : ∀ x ∈ bl, isBl x = true)
    (hd : lower (d.take 7) = "doctype".toList) (hgt : '>' ∉ d) :
    doctypePrefix (nl ++ bl ++ ('<' :: '!' :: d ++ '>' :: rest)) = some (nl ++ bl ++ ('<' :: '!' :: d ++ ['>']), rest) := by
  have hlen7 : 7 ≤ d.length := by
    have h2 := congrArg List.length hd
    simp [lower] at h2
    omega
  have h := doctypePrefix_skip nl bl '<' ('!' :: d ++ '>' :: rest) hnl hbl (by decide) (by decide)
  simp only [List.cons_append] at h ⊢
  rw [h]
  have ht : List.take 7 (d ++ '>' :: rest) = List.take 7 d := List.take_append_of_le_length hlen7
  have hdr : List.drop 7 (d ++ '>' :: rest) = List.drop 7 d ++ '>' :: rest := List.drop_append_of_le_length hlen7
  have hgt' : '>' ∉ List.drop 7 d := fun hm => hgt (List.mem_of_mem_drop hm)
  simp only [ht, hd, if_true, hdr, takeThrough_append '>' _ rest hgt']
  have : List.take 7 d ++ (List.drop 7 d ++ ['>']) = d ++ ['>'] := by
    rw [← List.append_assoc, List.take_append_drop]
  simp [this]

/-! ### the complementary case: an explicit and a decidable reading of `DOCTYPE_MATCH.match` -/

/-- what is left after `[\n]*[ \t]*` -/
def skipNlBl (s : Str) : Str := (s.dropWhile isNl).dropWhile isBl

/-- **decidable** reading of `DOCTYPE_MATCH.match(s) is not None`: after the newlines and then the blanks comes
    `<!`, seven letters that spell `doctype` in either case, and somewhere later a `>` -/
def startsWithDoctype (s : Str) : Bool :=
  match skipNlBl s with
  | '<' :: '!' :: r3 => lower (r3.take 7) = "doctype".toList && (r3.drop 7).contains '>'
  | _ => false

/-- **explicit** reading: `s = p ++ rest` where `p` is newlines, blanks and one doctype declaration that ends at
    its first `>` -/
def DoctypeSplit (s p rest : Str) : Prop :=
  ∃ nl bl d, (∀ x ∈ nl, isNl x = true) ∧ (∀ x ∈ bl, isBl x = true) ∧
    lower (d.take 7) = "doctype".toList ∧ '>' ∉ d ∧
    p = nl ++ bl ++ ('<' :: '!' :: d ++ ['>']) ∧ s = p ++ rest

def DoctypeStart (s : Str) : Prop := ∃ p rest, DoctypeSplit s p rest

theorem doctypePrefix_eq (s : Str) : doctypePrefix s =
    (match skipNlBl s with
     | '<' :: '!' :: r3 =>
       if lower (r3.take 7) = "doctype".toList then
         match takeThrough '>' (r3.drop 7) with
         | some (a, b) =>
           some (s.takeWhile isNl ++ (s.dropWhile isNl).takeWhile isBl ++ ('<' :: '!' :: r3.take 7) ++ a, b)
         | none => none
       else none
     | _ => none) := rfl

theorem takeThrough_none (q : Char) (l : Str) (h : q ∉ l) : takeThrough q l = none := by
  induction l with
  | nil => rfl
  | cons c cs ih =>
    have hc : c ≠ q := fun e => h (by simp [e])
    have hcs : q ∉ cs := fun e => h (by simp [e])
    simp [takeThrough, hc, ih hcs]

/-- the first occurrence -/
theorem split_first (q : Char) (l : Str) (h : q ∈ l) : ∃ v b, l = v ++ q :: b ∧ q ∉ v := by
  induction l with
  | nil => simp at h
  | cons c cs ih =>
    by_cases hc : c = q
    · exact ⟨[], cs, by simp [hc], by simp⟩
    · have hcs : q ∈ cs := by
        rcases List.mem_cons.mp h with e | e
        · exact absurd e.symm hc
        · exact e
      obtain ⟨v, b, hv, hn⟩ := ih hcs
      refine ⟨c :: v, b, by simp [hv], ?_⟩
      intro hm
      rcases List.mem_cons.mp hm with e | e
      · exact hc e.symm
      · exact hn e

theorem gt_not_mem_of_lower (l : Str) (h : lower l = "doctype".toList) : '>' ∉ l := by
  intro hm
  have : lowerChar '>' ∈ lower l := List.mem_map_of_mem hm
  rw [h] at this
  revert this
  decide

theorem length_of_lower_doctype (l : Str) (h : lower l = "doctype".toList) : l.length = 7 := by
  have h2 := congrArg List.length h
  simpa [lower] using h2

theorem doctypePrefix_of_split (s p rest : Str) (h : DoctypeSplit s p rest) : doctypePrefix s = some (p, rest) := by
  obtain ⟨nl, bl, d, hnl, hbl, hd, hgt, hp, hs⟩ := h
  have := doctypePrefix_decl nl bl d rest hnl hbl hd hgt
  rw [hs, hp]
  simpa using this

theorem skip_decomp (s : Str) :
    s = s.takeWhile isNl ++ ((s.dropWhile isNl).takeWhile isBl ++ skipNlBl s) := by
  unfold skipNlBl
  rw [List.takeWhile_append_dropWhile, List.takeWhile_append_dropWhile]

theorem split_of_doctypePrefix (s p rest : Str) (h : doctypePrefix s = some (p, rest)) : DoctypeSplit s p rest := by
  rw [doctypePrefix_eq] at h
  have hdec := skip_decomp s
  split at h
  · rename_i r3 hr
    split at h
    · rename_i hd
      split at h
      · rename_i a b ht
        simp only [Option.some.injEq, Prod.mk.injEq] at h
        obtain ⟨hp, hb⟩ := h
        -- the first `>` after the seven letters
        have hmem : '>' ∈ r3.drop 7 := by
          apply Classical.byContradiction
          intro hn
          rw [takeThrough_none _ _ hn] at ht
          exact absurd ht (by simp)
        obtain ⟨v, b', hv, hnv⟩ := split_first '>' _ hmem
        rw [hv, takeThrough_append '>' v b' hnv] at ht
        simp only [Option.some.injEq, Prod.mk.injEq] at ht
        obtain ⟨ha, hb'⟩ := ht
        have h7 := length_of_lower_doctype _ hd
        refine ⟨s.takeWhile isNl, (s.dropWhile isNl).takeWhile isBl, r3.take 7 ++ v,
          fun x hx => mem_takeWhile_sat _ x hx, fun x hx => mem_takeWhile_sat _ x hx, ?_, ?_, ?_, ?_⟩
        · rw [List.take_append_of_le_length (by omega), List.take_take]
          simpa using hd
        · intro hm
          rcases List.mem_append.mp hm with e | e
          · exact gt_not_mem_of_lower _ hd e
          · exact hnv e
        · rw [← hp, ← ha]; simp
        · have hr3 : r3 = r3.take 7 ++ (v ++ '>' :: rest) := by
            rw [← hb, ← hb', ← hv, List.take_append_drop]
          rw [← hp, ← ha]
          conv => lhs; rw [hdec, hr, hr3]
          simp
      · simp at h
    · simp at h
  · simp at h

theorem doctypePrefix_some_iff (s p rest : Str) : doctypePrefix s = some (p, rest) ↔ DoctypeSplit s p rest :=
  ⟨split_of_doctypePrefix s p rest, doctypePrefix_of_split s p rest⟩

/-- the matched prefix and the remainder are determined by the text -/
theorem doctypeSplit_unique (s p rest p' rest' : Str) (h : DoctypeSplit s p rest) (h' : DoctypeSplit s p' rest') :
    p' = p ∧ rest' = rest := by
  have e := doctypePrefix_of_split s p rest h
  rw [doctypePrefix_of_split s p' rest' h'] at e
  simp only [Option.some.injEq, Prod.mk.injEq] at e
  exact e

theorem doctypePrefix_none_of_not (s : Str) (h : startsWithDoctype s = false) : doctypePrefix s = none := by
  rw [doctypePrefix_eq]
  unfold startsWithDoctype at h
  split
  · rename_i r3 hr
    rw [hr] at h
    simp only [Bool.and_eq_false_iff, decide_eq_false_iff_not] at h
    split
    · rename_i hd
      rcases h with h | h
      · exact absurd hd h
      · have hn : '>' ∉ r3.drop 7 := by
          intro hm
          have : (r3.drop 7).contains '>' = true := by simpa using hm
          rw [this] at h; simp at h
        rw [takeThrough_none _ _ hn]
    · rfl
  · rfl

theorem startsWithDoctype_of_prefix (s : Str) (p : Str × Str) (h : doctypePrefix s = some p) :
    startsWithDoctype s = true := by
  cases hb : startsWithDoctype s with
  | true => rfl
  | false => rw [doctypePrefix_none_of_not s hb] at h; simp at h

theorem doctypePrefix_none_iff (s : Str) : doctypePrefix s = none ↔ startsWithDoctype s = false := by
  constructor
  · intro h
    cases hb : startsWithDoctype s with
    | false => rfl
    | true =>
      exfalso
      cases hp : doctypePrefix s with
      | some p => rw [hp] at h; simp at h
      | none =>
        -- a text on which the decidable reading says yes has a split
        unfold startsWithDoctype at hb
        rw [doctypePrefix_eq] at hp
        split at hb
        · rename_i r3 hr
          simp only [Bool.and_eq_true, decide_eq_true_eq] at hb
          obtain ⟨hd, hc⟩ := hb
          have hmem : '>' ∈ r3.drop 7 := by simpa using hc
          obtain ⟨v, b', hv, hnv⟩ := split_first '>' _ hmem
          rw [hr] at hp
          simp only [hd, if_true, hv, takeThrough_append '>' v b' hnv] at hp
          simp at hp
        · simp at hb
  · exact doctypePrefix_none_of_not s

/-- the decidable reading and the explicit one agree -/
theorem startsWithDoctype_iff (s : Str) : startsWithDoctype s = true ↔ DoctypeStart s := by
  constructor
  · intro h
    cases hp : doctypePrefix s with
    | none => rw [(doctypePrefix_none_iff s).mp hp] at h; simp at h
    | some p => exact ⟨p.1, p.2, split_of_doctypePrefix s p.1 p.2 hp⟩
  · rintro ⟨p, rest, h⟩
    exact startsWithDoctype_of_prefix s _ (doctypePrefix_of_split s p rest h)

/-- the wrapper's tags as `feed` writes them: `INVISIBLE_ROOT_TAG_START`, `INVISIBLE_ROOT_TAG_END` -/
def wrapOpen : Str := '<' :: wrapperName ++ ['>']
def wrapClose : Str := '<' :: '/' :: wrapperName ++ ['>']

theorem wrapStr_eq (s : Str) : wrapStr s = addStartTagStr s wrapOpen ++ wrapClose := rfl

instance (s : Str) : Decidable (DoctypeStart s) := decidable_of_iff _ (startsWithDoctype_iff s)

end AHP
