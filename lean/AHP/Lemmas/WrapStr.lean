/-
  `addStartTag` at character level against `wrapToks` at token level (C02f): on renderings of well-formed
  token lists, inserting the wrapper into the *text* and inserting it into the *token list* are the same thing.
-/
import AHP.Lemmas.LexRoundTrip
import AHP.Model.Builder
namespace AHP

theorem takeThrough_append (q : Char) (v rest : Str) (h : q ∉ v) :
    takeThrough q (v ++ q :: rest) = some (v ++ [q], rest) := by
  induction v with
  | nil => simp [takeThrough]
  | cons c cs ih =>
    have hc : c ≠ q := fun e => h (by simp [e])
    have hcs : q ∉ cs := fun e => h (by simp [e])
    simp [takeThrough, hc, ih hcs]

theorem takeWhile_append_stop {p : Char → Bool} (a : Str) (c : Char) (r : Str)
    (ha : ∀ x ∈ a, p x = true) (hc : p c = false) :
    (a ++ c :: r).takeWhile p = a ∧ (a ++ c :: r).dropWhile p = c :: r := by
  induction a with
  | nil => simp [List.takeWhile, List.dropWhile, hc]
  | cons x xs ih =>
    have hx := ha x (by simp)
    have := ih (fun y hy => ha y (by simp [hy]))
    simp [List.takeWhile, List.dropWhile, hx, this.1, this.2]

theorem takeWhile_all {p : Char → Bool} (a : Str) (ha : ∀ x ∈ a, p x = true) :
    a.takeWhile p = a ∧ a.dropWhile p = [] := by
  induction a with
  | nil => simp
  | cons x xs ih =>
    have hx := ha x (by simp)
    have := ih (fun y hy => ha y (by simp [hy]))
    simp [List.takeWhile, List.dropWhile, hx, this.1, this.2]

theorem mem_takeWhile_sat {p : Char → Bool} : ∀ (l : Str) (x : Char), x ∈ l.takeWhile p → p x = true := by
  intro l
  induction l with
  | nil => intro x hx; simp at hx
  | cons c cs ih =>
    intro x hx
    by_cases hc : p c = true
    · simp only [List.takeWhile_cons, hc, if_true] at hx
      rcases List.mem_cons.mp hx with e | e
      · rw [e]; exact hc
      · exact ih x e
    · simp [List.takeWhile_cons, hc] at hx

def isNl (c : Char) : Bool := c = '\n'
def isBl (c : Char) : Bool := c = ' ' || c = '\t'

/-- the shape `[\n]*[ \t]*` -/
theorem wsNL_split (ws : Str) (h : wsNL ws = true) :
    ∃ nl bl, ws = nl ++ bl ∧ (∀ x ∈ nl, isNl x = true) ∧ (∀ x ∈ bl, isBl x = true) := by
  refine ⟨ws.takeWhile isNl, ws.dropWhile isNl, (List.takeWhile_append_dropWhile).symm, ?_, ?_⟩
  · intro x hx
    exact mem_takeWhile_sat ws x hx
  · unfold wsNL at h
    have h2 : (List.dropWhile isBl (List.dropWhile isNl ws)) = [] := by
      have : (fun c : Char => decide (c = '\n')) = isNl := rfl
      have hb : (fun c : Char => decide (c = ' ') || decide (c = '\t')) = isBl := rfl
      simpa [this, hb] using h
    generalize List.dropWhile isNl ws = l at h2
    intro x hx
    induction l with
    | nil => simp at hx
    | cons c cs ih =>
      by_cases hc : isBl c = true
      · simp only [List.dropWhile_cons, hc, if_true] at h2
        rcases List.mem_cons.mp hx with e | e
        · rw [e]; exact hc
        · exact ih h2 e
      · simp [List.dropWhile_cons, hc] at h2

/-- after `[\n]*[ \t]*`, the match continues at the first character that is neither -/
theorem doctypePrefix_skip (nl bl : Str) (c : Char) (r : Str)
    (hnl : ∀ x ∈ nl, isNl x = true) (hbl : ∀ x ∈ bl, isBl x = true) (hc1 : isNl c = false) (hc2 : isBl c = false) :
    doctypePrefix (nl ++ bl ++ c :: r) =
      (match c :: r with
       | '<' :: '!' :: r3 =>
         if lower (r3.take 7) = "doctype".toList then
           match takeThrough '>' (r3.drop 7) with
           | some (a, b) => some (nl ++ bl ++ ('<' :: '!' :: r3.take 7) ++ a, b)
           | none => none
         else none
       | _ => none) := by
  have hnlf : (fun c : Char => decide (c = '\n')) = isNl := rfl
  have hblf : (fun c : Char => decide (c = ' ') || decide (c = '\t')) = isBl := rfl
  unfold doctypePrefix
  simp only [hnlf, hblf]
  have e1 : (nl ++ bl ++ c :: r) = nl ++ (bl ++ c :: r) := by simp
  rw [e1]
  -- skip the newlines: the next character is a blank or `c`, not a newline
  have hsplit1 : (nl ++ (bl ++ c :: r)).takeWhile isNl = nl ∧ (nl ++ (bl ++ c :: r)).dropWhile isNl = bl ++ c :: r := by
    cases bl with
    | nil => simpa using takeWhile_append_stop nl c r hnl hc1
    | cons b bs =>
      have hb : isNl b = false := by
        have := hbl b (by simp)
        unfold isBl at this; unfold isNl
        simp at this ⊢
        rcases this with e | e <;> (rw [e]; decide)
      simpa using takeWhile_append_stop nl b (bs ++ c :: r) hnl hb
  have hsplit2 := takeWhile_append_stop bl c r hbl hc2
  rw [hsplit1.1, hsplit1.2, hsplit2.1, hsplit2.2]
  cases c :: r with
  | nil => rfl
  | cons c1 r1 =>
    cases r1 with
    | nil => rfl
    | cons c2 r2 => rfl

theorem doctypePrefix_decl (nl bl d rest : Str)
    (hnl : ∀ x ∈ nl, isNl x = true) (hbl : ∀ x ∈ bl, isBl x = true)
    (hd : lower (d.take 7) = "doctype".toList) (hgt : '>' ∉ d) :
    doctypePrefix (nl ++ bl ++ ('<' :: '!' :: d ++ '>' :: rest)) = some (nl ++ bl ++ ('<' :: '!' :: d ++ ['>']), rest) := by
  have hlen7 : 7 ≤ d.length := by
    have h2 := congrArg List.length hd
    simp [lower] at h2
    omega
  have h := doctypePrefix_skip nl bl '<' ('!' :: d ++ '>' :: rest) hnl hbl (by decide) (by decide)
  simp only [List.cons_append] at h ⊢
  rw [h]
  have ht : List.take 7 (d ++ '>' :: rest) = List.take 7 d := List.take_append_of_le_length hlen7
  have hdr : List.drop 7 (d ++ '>' :: rest) = List.drop 7 d ++ '>' :: rest := List.drop_append_of_le_length hlen7
  have hgt' : '>' ∉ List.drop 7 d := fun hm => hgt (List.mem_of_mem_drop hm)
  simp only [ht, hd, if_true, hdr, takeThrough_append '>' _ rest hgt']
  have : List.take 7 d ++ (List.drop 7 d ++ ['>']) = d ++ ['>'] := by
    rw [← List.append_assoc, List.take_append_drop]
  simp [this]

end AHP
