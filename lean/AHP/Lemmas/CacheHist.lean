/-
  Helper lemmas for C15: histories and schedules over the cache.
  `specStep`/`specRun` is the cache-free specification: what an event shows when every expression
  is compiled from its text on the spot.
-/
import AHP.Lemmas.Cache
namespace AHP.Cache

variable {E K V T R : Type} [DecidableEq K]

/-! ### Specification without a cache -/

/-- One event, no cache: outcomes are functions of the expression text and the tree alone
    (`slots` only remembers which texts the live objects were built from, as their compiled forms). -/
def specStep (compile : E → Option V) (eval : V → T → R) (slots : List V) :
    Event E T → List V × Obs R
  | .new e =>
    match compile e with
    | some v => (slots ++ [v], .compiled)
    | none => (slots, .compileError)
  | .evalSlot i t =>
    match slots[i]? with
    | some v => (slots, .result (eval v t))
    | none => (slots, .noSlot)
  | .query e t =>
    match compile e with
    | some v => (slots, .result (eval v t))
    | none => (slots, .compileError)

def specRun (compile : E → Option V) (eval : V → T → R) : List V → List (Event E T) → List (Obs R)
  | _, [] => []
  | slots, ev :: evs =>
    (specStep compile eval slots ev).2 :: specRun compile eval (specStep compile eval slots ev).1 evs

/-! ### `XPathExpression(text)` against a coherent cache -/

section
variable {compile : E → Option V} {key : E → K} {eval : V → T → R} {MAX CLEAR : Nat}

theorem newExpr_coh (hinj : Function.Injective key) {s : State K V} (hc : Coh compile key s) (e : E) :
    Coh compile key (newExpr compile key MAX CLEAR s e).1 ∧
    (newExpr compile key MAX CLEAR s e).2 = compile e := by
  unfold newExpr
  have hg2 := get_coh hc (key e)
  have hs := get_snd s (key e)
  generalize get s (key e) = p at *
  obtain ⟨s', r⟩ := p
  simp only at hg2 hs ⊢
  cases r with
  | some v => exact ⟨hg2, (hc e v hs.symm).symm⟩
  | none =>
    simp only
    cases hce : compile e with
    | none => exact ⟨hg2, rfl⟩
    | some v => exact ⟨set_coh hinj hg2 e v hce, rfl⟩

theorem newExpr_inv (hb : CLEAR < MAX) {s : State K V} (hi : Inv MAX s) (e : E) :
    Inv MAX (newExpr compile key MAX CLEAR s e).1 := by
  unfold newExpr
  have hg1 := get_inv hi (key e)
  generalize get s (key e) = p at *
  obtain ⟨s', r⟩ := p
  simp only at hg1 ⊢
  cases r with
  | some v => exact hg1
  | none =>
    simp only
    cases compile e with
    | none => exact hg1
    | some v => exact set_inv hb hg1 _ _

/-- One event from a coherent world does what the cache-free specification does. -/
theorem step_spec (hinj : Function.Injective key) {w : World K V} (hc : Coh compile key w.cache)
    (ev : Event E T) :
    Coh compile key (step compile key eval MAX CLEAR w ev).1.cache ∧
    ((step compile key eval MAX CLEAR w ev).1.slots, (step compile key eval MAX CLEAR w ev).2)
      = specStep compile eval w.slots ev := by
  cases ev with
  | new e =>
    have ⟨h1, h2⟩ := @newExpr_coh E K V _ compile key MAX CLEAR hinj _ hc e
    simp only [step, specStep]
    generalize newExpr compile key MAX CLEAR w.cache e = p at *
    obtain ⟨c, r⟩ := p
    simp only at h1 h2
    rw [← h2]
    cases r <;> exact ⟨h1, rfl⟩
  | evalSlot i t =>
    simp only [step, specStep]
    cases w.slots[i]? <;> exact ⟨hc, rfl⟩
  | query e t =>
    have ⟨h1, h2⟩ := @newExpr_coh E K V _ compile key MAX CLEAR hinj _ hc e
    simp only [step, specStep]
    generalize newExpr compile key MAX CLEAR w.cache e = p at *
    obtain ⟨c, r⟩ := p
    simp only at h1 h2
    rw [← h2]
    cases r <;> exact ⟨h1, rfl⟩

theorem step_inv (hb : CLEAR < MAX) {w : World K V} (hi : Inv MAX w.cache) (ev : Event E T) :
    Inv MAX (step compile key eval MAX CLEAR w ev).1.cache := by
  cases ev with
  | new e =>
    have h1 := @newExpr_inv E K V _ compile key MAX CLEAR hb _ hi e
    simp only [step]
    generalize newExpr compile key MAX CLEAR w.cache e = p at *
    obtain ⟨c, r⟩ := p
    cases r <;> exact h1
  | evalSlot i t =>
    simp only [step]
    cases w.slots[i]? <;> exact hi
  | query e t =>
    have h1 := @newExpr_inv E K V _ compile key MAX CLEAR hb _ hi e
    simp only [step]
    generalize newExpr compile key MAX CLEAR w.cache e = p at *
    obtain ⟨c, r⟩ := p
    cases r <;> exact h1

theorem run_obs_eq_spec (hinj : Function.Injective key) (evs : List (Event E T)) :
    ∀ w : World K V, Coh compile key w.cache →
      (run compile key eval MAX CLEAR w evs).map (·.1) = specRun compile eval w.slots evs := by
  induction evs with
  | nil => intro w _; rfl
  | cons ev evs ih =>
    intro w hc
    have ⟨h1, h2⟩ := @step_spec E K V T R _ compile key eval MAX CLEAR hinj w hc ev
    unfold run specRun
    generalize step compile key eval MAX CLEAR w ev = p at *
    obtain ⟨w', o⟩ := p
    simp only at h1 h2 ⊢
    rw [List.map_cons, ih w' h1]
    simp only
    rw [← h2]

theorem run_inv (hb : CLEAR < MAX) (evs : List (Event E T)) :
    ∀ w : World K V, Inv MAX w.cache →
      ∀ p ∈ run compile key eval MAX CLEAR w evs, Inv MAX p.2 := by
  induction evs with
  | nil => intro w _ p hp; cases hp
  | cons ev evs ih =>
    intro w hi p hp
    have h1 := @step_inv E K V T R _ compile key eval MAX CLEAR hb w hi ev
    unfold run at hp
    generalize step compile key eval MAX CLEAR w ev = q at *
    obtain ⟨w', o⟩ := q
    simp only at h1 hp
    rcases List.mem_cons.mp hp with rfl | hp
    · exact h1
    · exact ih w' h1 p hp

theorem run_coh (hinj : Function.Injective key) (evs : List (Event E T)) :
    ∀ w : World K V, Coh compile key w.cache →
      ∀ p ∈ run compile key eval MAX CLEAR w evs, Coh compile key p.2 := by
  induction evs with
  | nil => intro w _ p hp; cases hp
  | cons ev evs ih =>
    intro w hc p hp
    have h1 := (@step_spec E K V T R _ compile key eval MAX CLEAR hinj w hc ev).1
    unfold run at hp
    generalize step compile key eval MAX CLEAR w ev = q at *
    obtain ⟨w', o⟩ := q
    simp only at h1 hp
    rcases List.mem_cons.mp hp with rfl | hp
    · exact h1
    · exact ih w' h1 p hp

theorem exec_coh (hinj : Function.Injective key) (evs : List (Event E T)) :
    ∀ w : World K V, Coh compile key w.cache →
      Coh compile key (exec compile key eval MAX CLEAR w evs).cache := by
  induction evs with
  | nil => intro w h; exact h
  | cons ev evs ih =>
    intro w hc
    exact ih _ (@step_spec E K V T R _ compile key eval MAX CLEAR hinj w hc ev).1

/-! ### Threads -/

/-- What a thread has shown so far, followed by what the specification says it will still show, is
    its solo specification `target`; a pending store belongs to the head event and is its compiled form. -/
structure ThreadOK (compile : E → Option V) (eval : V → T → R) (th : Thread E V T R) (target : List (Obs R)) : Prop where
  obs : th.obs ++ specRun compile eval th.slots th.todo = target
  pend : ∀ v, th.pending = some v → ∃ ev rest e, th.todo = ev :: rest ∧ ev.expr? = some e ∧ compile e = some v

theorem ThreadOK.init (evs : List (Event E T)) :
    ThreadOK compile eval (Thread.init evs : Thread E V T R) (specRun compile eval [] evs) :=
  ⟨by simp [Thread.init], by intro v h; cases h⟩

theorem finish_ok {th : Thread E V T R} {tg : List (Obs R)} {ev : Event E T} {rest : List (Event E T)} {e : E} {v : V}
    (hok : ThreadOK compile eval th tg) (htodo : th.todo = ev :: rest) (he : ev.expr? = some e)
    (hv : compile e = some v) : ThreadOK compile eval (th.finish eval ev rest v) tg := by
  have hobs := hok.obs
  rw [htodo] at hobs
  cases ev with
  | evalSlot i t => cases he
  | new e' =>
    simp only [Event.expr?, Option.some.injEq] at he; subst he
    refine ⟨?_, by intro v' h; cases h⟩
    simp only [Thread.finish]
    rw [← hobs]
    simp only [specRun, specStep, hv, List.append_assoc, List.singleton_append]
  | query e' t =>
    simp only [Event.expr?, Option.some.injEq] at he; subst he
    refine ⟨?_, by intro v' h; cases h⟩
    simp only [Thread.finish]
    rw [← hobs]
    simp only [specRun, specStep, hv, List.append_assoc, List.singleton_append]

theorem tstep_ok (hinj : Function.Injective key) {c : State K V} {th : Thread E V T R} {tg : List (Obs R)}
    (hc : Coh compile key c) (hok : ThreadOK compile eval th tg) :
    Coh compile key (tstep compile key eval MAX CLEAR c th).1 ∧
    ThreadOK compile eval (tstep compile key eval MAX CLEAR c th).2 tg := by
  unfold tstep
  split
  · exact ⟨hc, hok⟩
  · rename_i ev rest htodo
    split
    · rename_i hnone
      split
      · rename_i i t
        refine ⟨hc, ?_, ?_⟩
        · have hobs := hok.obs
          rw [htodo] at hobs
          rw [← hobs]
          simp only [specRun, specStep, List.append_assoc, List.singleton_append]
          cases th.slots[i]? <;> rfl
        · intro v hv
          obtain ⟨ev', rest', e, h1, h2, _⟩ := hok.pend v hv
          rw [htodo] at h1
          injection h1 with h1 _
          subst h1
          rw [hnone] at h2; cases h2
      · exact ⟨hc, hok⟩
    · rename_i e he
      split
      · rename_i v hp
        obtain ⟨ev', rest', e', h1, h2, h3⟩ := hok.pend v hp
        rw [htodo] at h1
        injection h1 with h1 _
        subst h1
        rw [he] at h2
        injection h2 with h2
        subst h2
        exact ⟨set_coh hinj hc e v h3, finish_ok hok htodo he h3⟩
      · rename_i hp
        have hg2 := get_coh hc (key e)
        have hs := get_snd c (key e)
        generalize get c (key e) = p at *
        obtain ⟨c', r⟩ := p
        simp only at hg2 hs
        cases r with
        | some v =>
          simp only
          exact ⟨hg2, finish_ok hok htodo he (hc e v hs.symm)⟩
        | none =>
          simp only
          cases hce : compile e with
          | none =>
            refine ⟨hg2, ?_, ?_⟩
            · have hobs := hok.obs
              rw [htodo] at hobs
              rw [← hobs]
              cases ev with
              | evalSlot i t => cases he
              | new e' =>
                simp only [Event.expr?, Option.some.injEq] at he; subst he
                simp only [specRun, specStep, hce, List.append_assoc, List.singleton_append]
              | query e' t =>
                simp only [Event.expr?, Option.some.injEq] at he; subst he
                simp only [specRun, specStep, hce, List.append_assoc, List.singleton_append]
            · intro v hv; simp only [hp] at hv; cases hv
          | some v =>
            refine ⟨hg2, hok.obs, ?_⟩
            intro v' hv'
            simp only [Option.some.injEq] at hv'
            subst hv'
            exact ⟨ev, rest, e, htodo, he, hce⟩

theorem tstep_inv (hb : CLEAR < MAX) {c : State K V} (th : Thread E V T R) (hi : Inv MAX c) :
    Inv MAX (tstep compile key eval MAX CLEAR c th).1 := by
  unfold tstep
  split
  · exact hi
  · split
    · split <;> exact hi
    · rename_i e he
      split
      · exact set_inv hb hi _ _
      · have hg1 := get_inv hi (key e)
        generalize get c (key e) = p at *
        obtain ⟨c', r⟩ := p
        cases r with
        | some v => exact hg1
        | none =>
          simp only
          cases compile e <;> exact hg1

/-- An unfinished thread is never blocked and every quantum makes progress. -/
theorem tstep_measure {c : State K V} {th : Thread E V T R} (hok : ThreadOK compile eval th tg)
    (hne : th.todo ≠ []) :
    (tstep compile key eval MAX CLEAR c th).2.measure < th.measure := by
  unfold tstep
  split
  · rename_i h; exact absurd h hne
  · rename_i ev rest htodo
    have hpend := hok.pend
    split
    · rename_i hnone
      have hp : th.pending = none := by
        cases hpv : th.pending with
        | none => rfl
        | some v =>
          obtain ⟨ev', rest', e, h1, h2, _⟩ := hpend v hpv
          rw [htodo] at h1
          injection h1 with h1 _
          subst h1
          rw [hnone] at h2; cases h2
      split
      · simp only [Thread.measure, htodo, hp, List.length_cons]
        simp
      · cases ev with
        | evalSlot i t => rename_i hx; exact absurd rfl (hx i t)
        | new e => cases hnone
        | query e t => cases hnone
    · rename_i e he
      have hfin : ∀ v, (th.finish eval ev rest v).measure = 2 * rest.length := by
        intro v
        cases ev with
        | evalSlot i t => cases he
        | new e' => simp [Thread.finish, Thread.measure]
        | query e' t => simp [Thread.finish, Thread.measure]
      have hm : 2 * rest.length < th.measure := by
        simp only [Thread.measure, htodo, List.length_cons]
        split <;> omega
      split
      · rw [hfin]; exact hm
      · rename_i hp
        generalize get c (key e) = p
        obtain ⟨c', r⟩ := p
        cases r with
        | some v =>
          simp only
          rw [hfin]; exact hm
        | none =>
          simp only
          cases compile e with
          | none =>
            simp only [Thread.measure, htodo, hp, List.length_cons]
            simp
          | some v =>
            simp only [Thread.measure, htodo, hp, List.length_cons]
            simp
            omega

end
end AHP.Cache
