/-
  TreeModels, part 5a — the pre-order table of a hub tree, structurally.

  `HN.walk up s h` lists the elements of `h` in document order; an entry carries its row index (`pos`, counted
  from `s`), the row indices of its ancestors nearest first (`ups`, ending in the ancestors `up` the tree hangs
  under) and the element itself.  The facts proved here by structural induction:
    `walk_pos`     the positions are `s, s+1, …`;
    `walk_block`   an element's subtree occupies the rows `[pos, pos + size)`, inside the rows of the tree;
    `walk_ups`     `ups` lists exactly the entries whose block strictly contains the row (then `up`);
    `walk_chain`   `ups` is the parent's position followed by the parent's `ups`, and the row is one of the
                   parent's `kidPos`;
    `walk_kids`    every `kidPos` of an entry is the position of an entry whose `ups` starts with that entry.
-/
import AHP.Lemmas.TreeModelsOrder
namespace AHP.TM
open AHP AHP.AttrStores

structure Ent where
  pos : Nat
  ups : List Nat
  node : HN

mutual
def HN.walk (up : List Nat) (s : Nat) : HN → List Ent
  | .text _ => []
  | .el i n a sc ks => ⟨s, up, .el i n a sc ks⟩ :: walkL (s :: up) (s + 1) ks
def walkL (up : List Nat) (s : Nat) : List HN → List Ent
  | [] => []
  | k :: ks => k.walk up s ++ walkL up (s + k.size) ks
end

/-- the row indices of the element entries of a block list whose first row is `s` -/
def kidPos (s : Nat) : List HN → List Nat
  | [] => []
  | .text _ :: ks => kidPos s ks
  | .el i n a sc ks' :: ks => s :: kidPos (s + (HN.el i n a sc ks').size) ks

@[simp] theorem walkL_nil (up s) : walkL up s [] = [] := by simp [walkL]
@[simp] theorem walkL_cons (up s) (k : HN) (ks : List HN) :
    walkL up s (k :: ks) = k.walk up s ++ walkL up (s + k.size) ks := by simp [walkL]
@[simp] theorem walk_text (up s) (x : Str) : (HN.text x).walk up s = [] := by simp [HN.walk]
@[simp] theorem walk_el (up s i n a sc ks) :
    (HN.el i n a sc ks).walk up s = ⟨s, up, .el i n a sc ks⟩ :: walkL (s :: up) (s + 1) ks := by simp [HN.walk]

/-! ### positions -/

mutual
theorem walk_pos : ∀ (h : HN) (up : List Nat) (s : Nat), (h.walk up s).map (·.pos) = List.range' s h.size
  | .text _, _, _ => by simp
  | .el i n a sc ks, up, s => by
    rw [walk_el, List.map_cons, walkL_pos ks (s :: up) (s + 1), size_el, Nat.add_comm 1, List.range'_succ]
theorem walkL_pos : ∀ (ks : List HN) (up : List Nat) (s : Nat), (walkL up s ks).map (·.pos) = List.range' s (sizeL ks)
  | [], _, _ => by simp
  | k :: ks, up, s => by
    rw [walkL_cons, List.map_append, walk_pos k up s, walkL_pos ks up (s + k.size), sizeL_cons]
    simp
end

theorem walk_length (h : HN) (up : List Nat) (s : Nat) : (h.walk up s).length = h.size := by
  have := congrArg List.length (walk_pos h up s)
  simpa using this

mutual
/-- the entries are the elements of `subs`, in the same order -/
theorem walk_nodes : ∀ (h : HN) (up : List Nat) (s : Nat) (p : Option Nat),
    (h.walk up s).map (·.node) = (h.subs p).map (·.2)
  | .text _, _, _, _ => by simp
  | .el i n a sc ks, up, s, p => by simp [walkL_nodes ks (s :: up) (s + 1) (some i)]
theorem walkL_nodes : ∀ (ks : List HN) (up : List Nat) (s : Nat) (p : Option Nat),
    (walkL up s ks).map (·.node) = (subsL p ks).map (·.2)
  | [], _, _, _ => by simp
  | k :: ks, up, s, p => by simp [walk_nodes k up s p, walkL_nodes ks up (s + k.size) p]
end

/-! ### blocks -/

mutual
theorem walk_block : ∀ (h : HN) (up : List Nat) (s : Nat), ∀ e ∈ h.walk up s,
    s ≤ e.pos ∧ e.pos + e.node.size ≤ s + h.size ∧ 0 < e.node.size
  | .text _, _, _ => by simp
  | .el i n a sc ks, up, s => by
    intro e he
    simp only [walk_el, List.mem_cons] at he
    rcases he with rfl | he
    · simp only [size_el]; omega
    · have := walkL_block ks (s :: up) (s + 1) e he
      simp only [size_el]; omega
theorem walkL_block : ∀ (ks : List HN) (up : List Nat) (s : Nat), ∀ e ∈ walkL up s ks,
    s ≤ e.pos ∧ e.pos + e.node.size ≤ s + sizeL ks ∧ 0 < e.node.size
  | [], _, _ => by simp
  | k :: ks, up, s => by
    intro e he
    simp only [walkL_cons, List.mem_append] at he
    simp only [sizeL_cons]
    rcases he with he | he
    · have := walk_block k up s e he; omega
    · have := walkL_block ks up (s + k.size) e he; omega
end

/-! ### ancestors -/

/-- `q` is the position of an entry of `W` whose block strictly contains the row of `x` -/
def Encl (W : List Ent) (x : Ent) (q : Nat) : Prop :=
  ∃ e ∈ W, e.pos = q ∧ e.pos < x.pos ∧ x.pos < e.pos + e.node.size

mutual
theorem walk_ups : ∀ (h : HN) (up : List Nat) (s : Nat), ∀ x ∈ h.walk up s,
    ∃ loc, x.ups = loc ++ up ∧ ∀ q, q ∈ loc ↔ Encl (h.walk up s) x q
  | .text _, _, _ => by simp
  | .el i n a sc ks, up, s => by
    intro x hx
    simp only [walk_el, List.mem_cons] at hx
    rcases hx with rfl | hx
    · refine ⟨[], rfl, ?_⟩
      intro q
      simp only [List.not_mem_nil, false_iff]
      rintro ⟨e, he, _, h2, _⟩
      have := (walk_block (.el i n a sc ks) up s e he).1
      simp only at h2; omega
    · obtain ⟨loc, h1, h2⟩ := walkL_ups ks (s :: up) (s + 1) x hx
      have hb := walkL_block ks (s :: up) (s + 1) x hx
      refine ⟨loc ++ [s], by simp [h1], ?_⟩
      intro q
      simp only [List.mem_append, List.mem_singleton, h2 q, walk_el]
      constructor
      · rintro (⟨e, he, h3⟩ | rfl)
        · exact ⟨e, List.mem_cons_of_mem _ he, h3⟩
        · refine ⟨⟨q, up, .el i n a sc ks⟩, List.mem_cons_self, rfl, ?_, ?_⟩
          · simp only; omega
          · simp only [size_el]; omega
      · rintro ⟨e, he, h3⟩
        rcases List.mem_cons.mp he with rfl | he
        · exact Or.inr h3.1.symm
        · exact Or.inl ⟨e, he, h3⟩
theorem walkL_ups : ∀ (ks : List HN) (up : List Nat) (s : Nat), ∀ x ∈ walkL up s ks,
    ∃ loc, x.ups = loc ++ up ∧ ∀ q, q ∈ loc ↔ Encl (walkL up s ks) x q
  | [], _, _ => by simp
  | k :: ks, up, s => by
    intro x hx
    simp only [walkL_cons, List.mem_append] at hx
    rcases hx with hx | hx
    · obtain ⟨loc, h1, h2⟩ := walk_ups k up s x hx
      have hb := walk_block k up s x hx
      refine ⟨loc, h1, ?_⟩
      intro q
      rw [h2 q, walkL_cons]
      constructor
      · rintro ⟨e, he, h3⟩
        exact ⟨e, List.mem_append_left _ he, h3⟩
      · rintro ⟨e, he, h3⟩
        rcases List.mem_append.mp he with he | he
        · exact ⟨e, he, h3⟩
        · have := walkL_block ks up (s + k.size) e he
          omega
    · obtain ⟨loc, h1, h2⟩ := walkL_ups ks up (s + k.size) x hx
      have hb := walkL_block ks up (s + k.size) x hx
      refine ⟨loc, h1, ?_⟩
      intro q
      rw [h2 q, walkL_cons]
      constructor
      · rintro ⟨e, he, h3⟩
        exact ⟨e, List.mem_append_right _ he, h3⟩
      · rintro ⟨e, he, h3⟩
        rcases List.mem_append.mp he with he | he
        · have := walk_block k up s e he
          omega
        · exact ⟨e, he, h3⟩
end

/-! ### the parent chain and the children -/

theorem kidPos_ge : ∀ (ks : List HN) (s : Nat), ∀ c ∈ kidPos s ks, s ≤ c
  | [], _ => by simp [kidPos]
  | .text _ :: ks, s => by simpa [kidPos] using kidPos_ge ks s
  | .el i n a sc ks' :: ks, s => by
    intro c hc
    simp only [kidPos, List.mem_cons] at hc
    rcases hc with rfl | hc
    · exact Nat.le_refl _
    · have := kidPos_ge ks _ c hc; omega

theorem kidPos_sorted : ∀ (ks : List HN) (s : Nat), (kidPos s ks).Pairwise (· < ·)
  | [], _ => by simp [kidPos]
  | .text _ :: ks, s => by simpa [kidPos] using kidPos_sorted ks s
  | .el i n a sc ks' :: ks, s => by
    simp only [kidPos, List.pairwise_cons]
    refine ⟨?_, kidPos_sorted ks _⟩
    intro c hc
    have := kidPos_ge ks _ c hc
    simp only [size_el] at this; omega

mutual
theorem walk_chain : ∀ (h : HN) (up : List Nat) (s : Nat), ∀ x ∈ h.walk up s,
    (x.pos = s ∧ x.ups = up) ∨
    ∃ e ∈ h.walk up s, x.ups = e.pos :: e.ups ∧ x.pos ∈ kidPos (e.pos + 1) e.node.kids
  | .text _, _, _ => by simp
  | .el i n a sc ks, up, s => by
    intro x hx
    simp only [walk_el, List.mem_cons] at hx
    rcases hx with rfl | hx
    · exact Or.inl ⟨rfl, rfl⟩
    · right
      rcases walkL_chain ks (s :: up) (s + 1) x hx with ⟨h1, h2⟩ | ⟨e, he, h1, h2⟩
      · exact ⟨⟨s, up, .el i n a sc ks⟩, by simp, h2, by simpa [HN.kids] using h1⟩
      · exact ⟨e, by simp [he], h1, h2⟩
theorem walkL_chain : ∀ (ks : List HN) (up : List Nat) (s : Nat), ∀ x ∈ walkL up s ks,
    (x.pos ∈ kidPos s ks ∧ x.ups = up) ∨
    ∃ e ∈ walkL up s ks, x.ups = e.pos :: e.ups ∧ x.pos ∈ kidPos (e.pos + 1) e.node.kids
  | [], _, _ => by simp
  | k :: ks, up, s => by
    intro x hx
    simp only [walkL_cons, List.mem_append] at hx
    rcases hx with hx | hx
    · rcases walk_chain k up s x hx with ⟨h1, h2⟩ | ⟨e, he, h1, h2⟩
      · left
        refine ⟨?_, h2⟩
        cases k with
        | text _ => simp at hx
        | el i n a sc ks' => simp [kidPos, h1]
      · exact Or.inr ⟨e, by simp [he], h1, h2⟩
    · rcases walkL_chain ks up (s + k.size) x hx with ⟨h1, h2⟩ | ⟨e, he, h1, h2⟩
      · left
        refine ⟨?_, h2⟩
        cases k with
        | text _ => simpa [kidPos] using h1
        | el i n a sc ks' => simp only [kidPos, List.mem_cons]; exact Or.inr h1
      · exact Or.inr ⟨e, by simp [he], h1, h2⟩
end

mutual
theorem walk_kids : ∀ (h : HN) (up : List Nat) (s : Nat), ∀ e ∈ h.walk up s,
    ∀ c ∈ kidPos (e.pos + 1) e.node.kids, ∃ k ∈ h.walk up s, k.pos = c ∧ k.ups = e.pos :: e.ups
  | .text _, _, _ => by simp
  | .el i n a sc ks, up, s => by
    intro e he c hc
    simp only [walk_el, List.mem_cons] at he
    rcases he with rfl | he
    · obtain ⟨k, hk, h1, h2⟩ := (walkL_kids ks (s :: up) (s + 1)).1 c (by simpa [HN.kids] using hc)
      exact ⟨k, by simp [hk], h1, h2⟩
    · obtain ⟨k, hk, h1, h2⟩ := (walkL_kids ks (s :: up) (s + 1)).2 e he c hc
      exact ⟨k, by simp [hk], h1, h2⟩
theorem walkL_kids : ∀ (ks : List HN) (up : List Nat) (s : Nat),
    (∀ c ∈ kidPos s ks, ∃ k ∈ walkL up s ks, k.pos = c ∧ k.ups = up) ∧
    (∀ e ∈ walkL up s ks, ∀ c ∈ kidPos (e.pos + 1) e.node.kids,
      ∃ k ∈ walkL up s ks, k.pos = c ∧ k.ups = e.pos :: e.ups)
  | [], _, _ => by simp [kidPos]
  | k :: ks, up, s => by
    obtain ⟨r1, r2⟩ := walkL_kids ks up (s + k.size)
    constructor
    · intro c hc
      cases k with
      | text _ =>
        simp only [kidPos] at hc
        obtain ⟨k', hk, h1, h2⟩ := r1 c (by simpa using hc)
        exact ⟨k', by simpa using hk, h1, h2⟩
      | el i n a sc ks' =>
        simp only [kidPos, List.mem_cons] at hc
        rcases hc with rfl | hc
        · exact ⟨⟨c, up, .el i n a sc ks'⟩, by simp, rfl, rfl⟩
        · obtain ⟨k', hk, h1, h2⟩ := r1 c hc
          exact ⟨k', List.mem_append_right _ hk, h1, h2⟩
    · intro e he c hc
      simp only [walkL_cons, List.mem_append] at he
      rcases he with he | he
      · obtain ⟨k', hk, h1, h2⟩ := walk_kids k up s e he c hc
        exact ⟨k', by simp [hk], h1, h2⟩
      · obtain ⟨k', hk, h1, h2⟩ := r2 e he c hc
        exact ⟨k', by simp [hk], h1, h2⟩
end

end AHP.TM
