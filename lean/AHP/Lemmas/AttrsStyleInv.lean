/-
  AHP.Lemmas.AttrsStyleInv — C10: what every writer does to the style map, `StyRT` over all operations,
  the style map of an element constructed from an attribute list, camelCase ↔ dash names.
-/
import AHP.Lemmas.AttrsStyle
namespace AHP.Attrs
open AHP

/-! #### the style map after each writer -/

theorem ensureStyle_sty (e : El) : (ensureStyle e).sty = e.sty := by
  unfold ensureStyle; split <;> rfl

theorem assignStyle_sty (v : Option Str) (e : El) : (assignStyle v e).sty = styleToDict (v.getD []) := by
  unfold assignStyle; rw [ensureStyle_sty]

theorem assignStyleFrom_sty (m : AL Str) (e : El) : (assignStyleFrom m e).sty = styleToDict (asStr m) := by
  unfold assignStyleFrom; rw [assignStyle_sty]; rfl

theorem styleDotSet_sty (n : Str) (v : Option Str) (e : El) :
    (styleDotSet n v e).sty = if emptyVal v then adel (camelToDash n) e.sty else aset (camelToDash n) (v.getD []) e.sty := by
  unfold styleDotSet; simp only; rw [ensureStyle_sty]

theorem setProperty_sty (n : Str) (v : Option Str) (e : El) :
    (setProperty n v e).sty = if emptyVal v then adel n e.sty else aset n (v.getD []) e.sty := by
  unfold setProperty; rw [ensureStyle_sty]

theorem setClassName_sty (v : Option Str) (e : El) : (setClassName v e).sty = e.sty := rfl

theorem mapSet_sty_ne (T : Tables) {k : Str} (v : Option Str) (e : El) (h : lower k ≠ styleK) :
    (mapSet T k v e).2.sty = e.sty := by
  unfold mapSet
  simp only
  split
  · rfl
  · split <;> rfl

theorem mapSet_sty_eq (T : Tables) {k : Str} (v : Option Str) (e : El) (h : lower k = styleK) :
    (mapSet T k v e).2.sty = styleToDict (asStr (styleToDict (v.getD []))) := by
  unfold mapSet
  simp only
  rw [h]
  have h1 : (!validName styleK) = false := by decide
  simp only [h1, if_true, Bool.false_eq_true, if_false]
  exact assignStyleFrom_sty _ _

theorem mapDel_sty (k : Str) (e : El) : (mapDel k e).sty = if lower k = styleK then [] else e.sty := by
  unfold mapDel
  simp only
  split
  · rw [assignStyle_sty]; rfl
  · split <;> rfl

theorem getAttribute_sty (T : Tables) (k : Str) (d : PyVal) (e : El) : (getAttribute T k d e).2.sty = e.sty := by
  rcases getAttribute_snd T k d e with h | h <;> rw [h]
  rfl

/-! #### `StyRT` over all operations -/

structure GoodStyName (n : Str) : Prop where
  trim : strip n = n
  low : lower n = n
  colon : ':' ∉ n
  semi : ';' ∉ n

structure GoodStyVal (v : Str) : Prop where
  trim : strip v = v
  semi : ';' ∉ v

def StyInv (e : El) : Prop := StyRT e.sty

theorem styInv_of_eq {e e' : El} (h : e'.sty = e.sty) (hi : StyInv e) : StyInv e' := by
  unfold StyInv; rw [h]; exact hi

theorem styRT_write {m : AL Str} (h : StyRT m) {n : Str} (hn : GoodStyName n) {v : Option Str}
    (hv : ∀ s, v = some s → GoodStyVal s) :
    StyRT (if emptyVal v then adel n m else aset n (v.getD []) m) := by
  split
  · exact styRT_adel h n
  · next hne =>
    cases v with
    | none => simp [emptyVal] at hne
    | some s =>
      have := hv s rfl
      exact styRT_aset h ⟨hn.trim, hn.low, hn.colon, hn.semi, this.trim, this.semi⟩

theorem styInv_mapSet (T : Tables) (k : Str) (v : Option Str) {e : El} (h : StyInv e) : StyInv (mapSet T k v e).2 := by
  by_cases hk : lower k = styleK
  · unfold StyInv; rw [mapSet_sty_eq T v e hk]; exact styRT_styleToDict _
  · exact styInv_of_eq (mapSet_sty_ne T v e hk) h

theorem styInv_mapDel (k : Str) {e : El} (h : StyInv e) : StyInv (mapDel k e) := by
  unfold StyInv
  rw [mapDel_sty]
  split
  · exact styRT_nil
  · exact h

theorem styInv_setAttribute (T : Tables) (n : Str) (v : Option Str) {e : El} (h : StyInv e) :
    StyInv (setAttribute T n v e).2 := by
  unfold setAttribute
  split
  · exact h
  · exact styInv_mapSet T n v h

theorem styInv_setAttributes (T : Tables) : ∀ (l : List (Str × Option Str)) {e : El}, StyInv e →
    StyInv (setAttributes T l e).2
  | [], _, h => h
  | (n, v) :: r, e, h => by
    unfold setAttributes
    have h1 := styInv_setAttribute T n v h
    split
    · next e' heq => rw [heq] at h1; exact styInv_setAttributes T r h1
    · next o e' _ heq => rw [heq] at h1; exact h1

theorem styInv_dotSet (T : Tables) (n : Str) (v : DotVal) {e : El} (h : StyInv e) : StyInv (dotSet T n v e).2 := by
  unfold dotSet
  split
  · exact h
  · split
    · exact h
    · next L _ =>
      split
      · exact h
      · split
        · have h1 := styInv_setAttribute T L.attr (some v.boolString) h
          split
          · next e' heq => rw [heq] at h1; exact styInv_of_eq (getAttribute_sty _ _ _ _) h1
          · next r hne => exact h1
        · split
          · split
            · exact styInv_setAttribute _ _ _ h
            · exact styInv_mapDel _ h
          · exact styInv_setAttribute _ _ _ h

theorem styInv_setStyles : ∀ (l : List (Str × Option Str)) {e : El},
    (∀ p ∈ l, GoodStyName (camelToDash p.1) ∧ ∀ s, p.2 = some s → GoodStyVal s) → StyInv e → StyInv (setStyles l e)
  | [], _, _, h => h
  | p :: l, e, hl, h => by
    unfold setStyles
    simp only [List.foldl_cons]
    have hp := hl p (by simp)
    have h1 : StyInv (setStyle p.1 p.2 e) := by
      unfold StyInv setStyle
      rw [styleDotSet_sty]
      exact styRT_write h hp.1 hp.2
    have := styInv_setStyles l (fun q hq => hl q (List.mem_cons_of_mem _ hq)) h1
    unfold setStyles at this
    exact this

/-- the names and values handed to the property writers are those of the property's domain -/
def GoodStyOp : Op → Prop
  | .styDot n v => GoodStyName (camelToDash n) ∧ ∀ s, v = some s → GoodStyVal s
  | .setStyle n v => GoodStyName (camelToDash n) ∧ ∀ s, v = some s → GoodStyVal s
  | .styProp n v => GoodStyName n ∧ ∀ s, v = some s → GoodStyVal s
  | .setStyles l => ∀ p ∈ l, GoodStyName (camelToDash p.1) ∧ ∀ s, p.2 = some s → GoodStyVal s
  | _ => True

theorem styInv_step (T : Tables) (op : Op) (hop : GoodStyOp op) {e : El} (h : StyInv e) : StyInv (step T e op).2 := by
  cases op <;> dsimp only [step]
  case setAttr n v => exact styInv_setAttribute T n v h
  case setAttrs l => exact styInv_setAttributes T l h
  case rmAttr n => exact styInv_mapDel _ h
  case mapSet n v => exact styInv_mapSet T n v h
  case mapDel n => exact styInv_mapDel n h
  case dot n v => exact styInv_dotSet T n v h
  case addClass s => exact h
  case rmClass s => exact h
  case className v => exact h
  case styDot n v =>
    unfold StyInv; rw [styleDotSet_sty]; exact styRT_write h hop.1 hop.2
  case styProp n v =>
    unfold StyInv; rw [setProperty_sty]; exact styRT_write h hop.1 hop.2
  case setStyle n v =>
    unfold StyInv setStyle; rw [styleDotSet_sty]; exact styRT_write h hop.1 hop.2
  case setStyles l => exact styInv_setStyles l hop h
  case styAssign v => unfold StyInv; rw [assignStyle_sty]; exact styRT_styleToDict _
  case styCopy src => unfold StyInv; rw [assignStyleFrom_sty]; exact styRT_styleToDict _
  case stySelf => exact styInv_of_eq (ensureStyle_sty e) h
  case sync => exact h

theorem styInv_run (T : Tables) : ∀ (ops : List Op) {e : El}, (∀ op ∈ ops, GoodStyOp op) → StyInv e → StyInv (run T e ops)
  | [], _, _, h => h
  | op :: ops, e, hops, h => by
    unfold run
    simp only [List.foldl_cons]
    exact styInv_run T ops (fun o ho => hops o (List.mem_cons_of_mem _ ho)) (styInv_step T op (hops op (by simp)) h)

theorem styInv_initStep (T : Tables) (p : Str × Option Str) {e : El} (h : StyInv e) : StyInv (initStep T e p) := by
  unfold initStep
  simp only
  split
  · exact styInv_mapSet _ _ _ h
  · exact h

theorem styInv_foldl_initStep (T : Tables) : ∀ (l : List (Str × Option Str)) {e : El}, StyInv e →
    StyInv (l.foldl (initStep T) e)
  | [], _, h => h
  | p :: l, e, h => by
    simp only [List.foldl_cons]
    exact styInv_foldl_initStep T l (styInv_initStep T p h)

theorem styInv_mk (T : Tables) (tag : Str) (sc : Bool) (attrs : List (Str × Option Str)) : StyInv (mk T tag sc attrs) :=
  styInv_foldl_initStep T attrs styRT_nil

/-! #### `mk`: the style map of an element constructed from an attribute list -/

theorem foldl_initStep_sty_absent (T : Tables) : ∀ (l : List (Str × Option Str)) (e : El),
    (∀ p ∈ l, validName p.1 = true ∧ lower p.1 = p.1) → styleK ∉ akeys l → (l.foldl (initStep T) e).sty = e.sty
  | [], _, _, _ => rfl
  | p :: l, e, hg, hn => by
    have hp := hg p (by simp)
    have hne : p.1 ≠ styleK := fun h => hn (by simp [akeys, h])
    have hn' : styleK ∉ akeys l := fun h => hn (by simp only [akeys, List.map_cons]; exact List.mem_cons_of_mem _ h)
    simp only [List.foldl_cons]
    rw [foldl_initStep_sty_absent T l _ (fun q hq => hg q (List.mem_cons_of_mem _ hq)) hn',
        initStep_good T e p hp.1 hp.2, mapSet_sty_ne T p.2 e (by rw [hp.2]; exact hne)]

theorem foldl_initStep_sty (T : Tables) : ∀ (l : List (Str × Option Str)) (e : El), GoodKeys l →
    (l.foldl (initStep T) e).sty = match aget styleK l with
      | some v => styleToDict (asStr (styleToDict (v.getD [])))
      | none => e.sty
  | [], _, _ => rfl
  | p :: l, e, hg => by
    have hp := hg.2 p (by simp)
    have hnd : p.1 ∉ akeys l ∧ (akeys l).Nodup := by simpa [akeys] using hg.1
    have hg' : GoodKeys l := ⟨hnd.2, fun q hq => hg.2 q (List.mem_cons_of_mem _ hq)⟩
    simp only [List.foldl_cons]
    rw [initStep_good T e p hp.1 hp.2]
    by_cases hk : p.1 = styleK
    · have hn' : styleK ∉ akeys l := by rw [← hk]; exact hnd.1
      rw [foldl_initStep_sty_absent T l _ hg'.2 hn', mapSet_sty_eq T p.2 e (by rw [hp.2]; exact hk)]
      rcases p with ⟨k, v⟩
      simp only at hk
      simp [aget, hk]
    · rw [foldl_initStep_sty T l _ hg', mapSet_sty_ne T p.2 e (by rw [hp.2]; exact hk)]
      rcases p with ⟨k, v⟩
      simp only at hk
      simp [aget, hk]

theorem mk_sty (T : Tables) (tag : Str) (sc : Bool) (l : List (Str × Option Str)) (hg : GoodKeys l) :
    (mk T tag sc l).sty = match aget styleK l with
      | some v => styleToDict (asStr (styleToDict (v.getD [])))
      | none => [] := by
  unfold mk
  rw [foldl_initStep_sty T l _ hg]
  rfl

theorem asStr_ne_nil {m : AL Str} (h : m ≠ []) : asStr m ≠ [] := by
  unfold asStr
  rcases m with _ | ⟨p, r⟩
  · exact absurd rfl h
  · rcases r with _ | ⟨q, r'⟩
    · simp [joinWith, declStr]
    · simp only [List.map_cons]
      rw [joinWith_cons_cons]
      simp [declStr]

/-! #### camelCase and dash names -/

theorem isUpper_lowerChar (c : Char) : isUpper (lowerChar c) = false := by
  unfold lowerChar
  split
  · next h =>
    have h1 : ∀ n : Nat, n < 91 → 65 ≤ n → isUpper (Char.ofNat (n + 32)) = false := by decide
    have ha : 65 ≤ c.toNat := h.1
    have hz : c.toNat ≤ 90 := h.2
    exact h1 c.toNat (by omega) ha
  · next h =>
    cases hu : isUpper c with
    | false => rfl
    | true =>
      exfalso
      apply h
      unfold isUpper at hu
      simpa using hu

theorem camelToDash_noUpper : ∀ (n : Str), ∀ c ∈ camelToDash n, isUpper c = false
  | [], _, h => by simp [camelToDash] at h
  | a :: r, c, h => by
    unfold camelToDash at h
    split at h
    · rcases List.mem_cons.mp h with h | h
      · subst h; decide
      · rcases List.mem_cons.mp h with h | h
        · subst h; exact isUpper_lowerChar a
        · exact camelToDash_noUpper r c h
    · next hu =>
      rcases List.mem_cons.mp h with h | h
      · subst h; simpa using hu
      · exact camelToDash_noUpper r c h

theorem camelToDash_of_noUpper : ∀ {n : Str}, (∀ c ∈ n, isUpper c = false) → camelToDash n = n
  | [], _ => rfl
  | a :: r, h => by
    unfold camelToDash
    have ha : isUpper a = false := h a (by simp)
    simp only [ha, Bool.false_eq_true, if_false]
    rw [camelToDash_of_noUpper (fun c hc => h c (List.mem_cons_of_mem _ hc))]

theorem lowerChar_of_noUpper {c : Char} (h : isUpper c = false) : lowerChar c = c := by
  unfold lowerChar
  split
  · next hc =>
    have : isUpper c = true := by simp [isUpper, hc.1, hc.2]
    rw [h] at this; cases this
  · rfl

theorem lower_of_noUpper : ∀ {n : Str}, (∀ c ∈ n, isUpper c = false) → lower n = n
  | [], _ => rfl
  | a :: r, h => by
    show lowerChar a :: lower r = a :: r
    rw [lowerChar_of_noUpper (h a (by simp)), lower_of_noUpper (fun c hc => h c (List.mem_cons_of_mem _ hc))]

theorem lower_noUpper (n : Str) : ∀ c ∈ lower n, isUpper c = false := by
  intro c hc
  unfold lower at hc
  obtain ⟨a, _, rfl⟩ := List.mem_map.mp hc
  exact isUpper_lowerChar a

/-- `style.<name>` reads the key `camelCaseToDashName(name)` -/
theorem styleDotGet_eq (n : Str) (e : El) : styleDotGet n e = (aget (camelToDash n) e.sty).getD [] := by
  unfold styleDotGet
  simp only
  split
  · rfl
  · next h =>
    -- no dash was produced, so the name had no upper-case letter and is its own dash name
    have hnu : ∀ c ∈ n, isUpper c = false := by
      intro c hc
      cases hu : isUpper c with
      | false => rfl
      | true =>
        exfalso
        apply h
        apply List.contains_iff_mem.mpr
        clear h
        induction n with
        | nil => cases hc
        | cons a r ih =>
          unfold camelToDash
          rcases List.mem_cons.mp hc with hc | hc
          · subst hc; simp [hu]
          · split
            · simp
            · exact List.mem_cons_of_mem _ (ih hc)
    rw [camelToDash_of_noUpper hnu]

/-- `getStyle(name)` reads the key `name.lower()` -/
theorem getStyle_eq (n : Str) (e : El) : getStyle n e = (aget (lower n) e.sty).getD [] := by
  unfold getStyle
  rw [styleDotGet_eq, camelToDash_of_noUpper (lower_noUpper n)]

end AHP.Attrs
