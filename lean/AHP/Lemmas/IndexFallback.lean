/-
  C07, the `useIndex=False` leg as the code has it (Model/Index.lean `reenter`, `reenterL`, `scanFB`,
  `reenterFirst`, `reenterFirstL`): the base-class loop re-enters the indexed override for every child.

  Generic part: if — whenever the re-entered call uses its index — the index answers `fil pred k.desc` for every
  element `k` of the document, the re-entering recursion computes the plain recursive scan of C06
  (`descScanL` / `descFirstL`), as the same LIST.
-/
import AHP.Lemmas.IndexClass
namespace AHP.G3
open Idx

theorem kids_mem_of_mem {root n : Node} (hn : n ∈ root.preorder) : ∀ k ∈ preorderL n.kids, k ∈ root.preorder := by
  intro k hk
  have hs := preorder_sublist_of_mem root n hn
  rw [Node.preorder_eq n] at hs
  exact ((List.sublist_cons_self _ _).trans hs).subset hk

section scan
variable {root : Node} {useIdx : Bool} {indexed : Node → List Node} {pred : Elem → Bool}

mutual
theorem reenter_items
    (hH : useIdx = true → ∀ k ∈ root.preorder, (TC.ofList (indexed k)).items = fil pred k.desc) :
    ∀ n : Node, n ∈ root.preorder → n.Distinct → (reenter useIdx indexed pred n).items = fil pred n.desc
  | .mk e ks, hn, hd => by
    cases hu : useIdx with
    | true =>
      simp only [reenter, if_true]
      exact hH hu _ hn
    | false =>
      have hk : (uidsOf (preorderL ks)).Nodup := Node.Distinct.desc hd
      simp only [reenter, Bool.false_eq_true, if_false]
      have := reenterL_eq hH ks (kids_mem_of_mem hn) hk
      rw [hu] at this
      rw [this]
      exact TC.ofList_items_of_nodup (uids_nodup_of_sublist (fil_sublist _ _) hk)
theorem reenterL_eq
    (hH : useIdx = true → ∀ k ∈ root.preorder, (TC.ofList (indexed k)).items = fil pred k.desc) :
    ∀ ks : List Node, (∀ k ∈ preorderL ks, k ∈ root.preorder) → (uidsOf (preorderL ks)).Nodup →
      reenterL useIdx indexed pred ks = fil pred (preorderL ks)
  | [], _, _ => rfl
  | k :: ks, hm, h => by
    have h' : (uidsOf k.preorder ++ uidsOf (preorderL ks)).Nodup := by
      simpa [preorderL, uidsOf] using h
    have h2 := List.nodup_append.mp h'
    have hk : k ∈ root.preorder := hm k (by simp [preorderL, Node.preorder_eq k])
    simp only [reenterL, preorderL]
    rw [reenter_items hH k hk h2.1,
        reenterL_eq hH ks (fun x hx => hm x (by simp only [preorderL, List.mem_append]; exact Or.inr hx)) h2.2.1,
        fil_append, Node.preorder_eq, fil_cons]
end

/-- the re-entering loop is the plain loop, as a list -/
theorem reenterL_eq_descScanL
    (hH : useIdx = true → ∀ k ∈ root.preorder, (TC.ofList (indexed k)).items = fil pred k.desc)
    {r : Node} (hr : r ∈ root.preorder) (hd : root.Distinct) :
    reenterL useIdx indexed pred r.kids = descScanL pred r.kids := by
  have hrd : (uidsOf (preorderL r.kids)).Nodup := Node.Distinct.desc (distinct_of_mem hd r hr)
  rw [reenterL_eq hH r.kids (kids_mem_of_mem hr) hrd, descScanL_eq pred r.kids hrd]

/-- the base-class method entered with `useIndex=False` on an indexed parser is the plain parser method -/
theorem scanFB_eq_scanP
    (hH : useIdx = true → ∀ k ∈ root.preorder, (TC.ofList (indexed k)).items = fil pred k.desc)
    (rootPred : Elem → Bool) (isRoot : Bool) {r : Node} (hr : r ∈ root.preorder) (hd : root.Distinct) :
    scanFB useIdx indexed rootPred pred isRoot r = scanP rootPred pred isRoot r := by
  simp only [scanFB, scanP]
  rw [reenterL_eq_descScanL hH hr hd]

end scan

section first
variable {root : Node} {useIdx : Bool} {indexed : Node → Option Node} {pred : Elem → Bool}

mutual
theorem reenterFirst_eq (hH : useIdx = true → ∀ k ∈ root.preorder, indexed k = (fil pred k.desc).head?) :
    ∀ n : Node, n ∈ root.preorder → reenterFirst useIdx indexed pred n = descFirst pred n
  | .mk e ks, hn => by
    cases hu : useIdx with
    | true =>
      simp only [reenterFirst, if_true]
      rw [hH hu _ hn, descFirst_eq]
    | false =>
      simp only [reenterFirst, Bool.false_eq_true, if_false, descFirst]
      have := reenterFirstL_eq hH ks (kids_mem_of_mem hn)
      rw [hu] at this
      exact this
theorem reenterFirstL_eq (hH : useIdx = true → ∀ k ∈ root.preorder, indexed k = (fil pred k.desc).head?) :
    ∀ ks : List Node, (∀ k ∈ preorderL ks, k ∈ root.preorder) →
      reenterFirstL useIdx indexed pred ks = descFirstL pred ks
  | [], _ => rfl
  | k :: ks, hm => by
    have hk : k ∈ root.preorder := hm k (by simp [preorderL, Node.preorder_eq k])
    simp only [reenterFirstL, descFirstL]
    rw [reenterFirst_eq hH k hk,
        reenterFirstL_eq hH ks (fun x hx => hm x (by simp only [preorderL, List.mem_append]; exact Or.inr hx))]
    by_cases hp : pred k.elem = true
    · simp only [hp, if_true]
    · simp only [hp, if_false]
      cases descFirst pred k <;> rfl
end

end first

/-- the index branch of a re-entered list lookup (`root=k`, `k` an element of the document): the matches below `k` -/
theorem indexed_child {doc : Node} (hd : doc.Distinct) (p : Elem → Bool) {k : Node} (hk : k ∈ doc.preorder) :
    (TC.ofList (restrict doc false k (resolve doc (uidsOf (fil p doc.preorder))))).items = fil p k.desc := by
  rw [resolve_uids hd (fun y hy => (fil_sublist p _).subset hy)]
  simp only [restrict, Bool.false_eq_true, if_false]
  rw [restrict_desc hd hk p]
  exact TC.ofList_items_of_nodup
    (uids_nodup_of_sublist (fil_sublist _ _) (Node.Distinct.desc (distinct_of_mem hd k hk)))

end AHP.G3
