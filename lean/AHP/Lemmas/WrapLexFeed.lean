/-
  C02f, composition with the strict lexer (second half): lexing the text of the second pass,

      lexStrict (wrapStr (renderToks ts)) = some (wrapToks ts)

  for every token list in the serialiser's image, and the two-pass `feed` on text (`feedText`).
  Helper lemmas and the text-level `feed`; the property theorems are in Props/C02.lean.
-/
import AHP.Lemmas.WrapLex
namespace AHP

/-! ### what may follow a token depends on the next character only -/

theorem Follows_head (t : Token) (c : Char) (r r' : Str) (h : Follows t (c :: r)) : Follows t (c :: r') := by
  cases t with
  | data s =>
    simp only [Follows] at h ⊢
    by_cases h1 : s = ['<']
    · simp only [h1, if_true] at h ⊢
      obtain ⟨c0, r0, e, hc⟩ := h
      simp at e
      exact ⟨c, r', rfl, by rw [e.1]; exact hc⟩
    · by_cases h2 : s = ['&']
      · simp only [h1, h2, if_false, if_true] at h ⊢
        obtain ⟨c0, r0, e, hc⟩ := h
        simp at e
        exact ⟨c, r', rfl, by rw [e.1]; exact hc⟩
      · simp only [h1, h2, if_false] at h ⊢
        right
        rcases h with e | ⟨r0, e | e⟩
        · simp at e
        · simp at e; exact ⟨r', Or.inl (by rw [e.1])⟩
        · simp at e; exact ⟨r', Or.inr (by rw [e.1])⟩
  | _ => trivial

/-- appending markup keeps every token a token of its own -/
theorem Follows_append (t : Token) (rest xr : Str) (h : Follows t rest) : Follows t (rest ++ '<' :: xr) := by
  cases rest with
  | cons c r => exact Follows_head t c r _ h
  | nil =>
    cases t with
    | data s =>
      simp only [Follows] at h ⊢
      by_cases h1 : s = ['<']
      · simp only [h1, if_true] at h
        obtain ⟨c0, r0, e, _⟩ := h
        simp at e
      · by_cases h2 : s = ['&']
        · simp only [h1, h2, if_false, if_true] at h
          obtain ⟨c0, r0, e, _⟩ := h
          simp at e
        · simp only [h1, h2, if_false]
          exact Or.inr ⟨xr, Or.inl rfl⟩
    | _ => trivial

/-! ### lexing a rendered list in front of a text that lexes -/

/-- `ListOK` relative to the text `X` that follows the rendering (same four constructors; a raw-text element
    asks nothing of what follows its end tag) -/
inductive ListOKThen (X : Str) : List Token → Prop
  | nil : ListOKThen X []
  | cons {t : Token} {ts : List Token} :
      TokOK t → Follows t (renderToks ts ++ X) → ListOKThen X ts → ListOKThen X (t :: ts)
  | raw {n : Str} {a : List Attr} {raw : Str} {ts : List Token} :
      isRawText n = true → (∀ x ∈ a, AttrOK x) → raw ≠ [] → RawOK n raw → ListOKThen X ts →
      ListOKThen X (.start n a :: .data raw :: .end_ n :: ts)
  | rawEmpty {n : Str} {a : List Attr} {ts : List Token} :
      isRawText n = true → (∀ x ∈ a, AttrOK x) → ListOKThen X ts → ListOKThen X (.start n a :: .end_ n :: ts)

theorem listOKThen_of_listOK (xr : Str) (ts : List Token) (h : ListOK ts) : ListOKThen ('<' :: xr) ts := by
  induction h with
  | nil => exact .nil
  | cons ht hf _ ih => exact .cons ht (Follows_append _ _ xr hf) ih
  | raw hr ha hne hok _ ih => exact .raw hr ha hne hok ih
  | rawEmpty hr ha _ ih => exact .rawEmpty hr ha ih

/-- one step of `lexN` over a raw-text element, in front of a text that lexes (`lexN_raw_step` with a tail) -/
theorem lexN_raw_step_then (X : Str) (ys : List Token) (n : Str) (a : List Attr) (raw : Str) (ts : List Token)
    (hr : isRawText n = true) (ha : ∀ x ∈ a, AttrOK x) (hok : RawOK n raw)
    (ih : ∀ k, (renderToks ts ++ X).length < k → lexN k (renderToks ts ++ X) = some (ts ++ ys)) :
    ∀ k, (renderToks (rawBlock n a raw ++ ts) ++ X).length < k →
      lexN k (renderToks (rawBlock n a raw ++ ts) ++ X) = some (rawBlock n a raw ++ ts ++ ys) := by
  intro k hk
  have hassoc : renderToks (rawBlock n a raw ++ ts) ++ X
      = renderTok (.start n a) ++ (raw ++ (renderTok (.end_ n) ++ (renderToks ts ++ X))) := by
    rw [renderToks_raw]; simp
  rw [hassoc] at hk ⊢
  cases k with
  | zero => simp at hk
  | succ k =>
    have hone := lexOne_render_raw n a raw (renderToks ts ++ X) hr ha hok (k + 1) hk
    have hlen : (renderToks ts ++ X).length < k := by
      simp [renderTok] at hk ⊢; omega
    have hlt : (renderToks ts ++ X).length
        < (renderTok (.start n a) ++ (raw ++ (renderTok (.end_ n) ++ (renderToks ts ++ X)))).length := by
      simp [renderTok]; omega
    have hnn : (renderTok (.start n a) ++ (raw ++ (renderTok (.end_ n) ++ (renderToks ts ++ X)))).isEmpty = false := by
      simp [renderTok]
    unfold lexN
    rw [hnn]
    simp only [Bool.false_eq_true, if_false, hone, hlt, if_true, ih k hlen, Option.map, List.append_assoc]

theorem lexN_render_then (X : Str) (ys : List Token) (hX : ∀ k, X.length < k → lexN k X = some ys)
    (ts : List Token) (h : ListOKThen X ts) :
    ∀ k, (renderToks ts ++ X).length < k → lexN k (renderToks ts ++ X) = some (ts ++ ys) := by
  induction h with
  | nil =>
    intro k hk
    simpa [renderToks] using hX k (by simpa [renderToks] using hk)
  | @raw n a raw ts hr ha hne hok _ ih =>
    have hb : rawBlock n a raw = [.start n a, .data raw, .end_ n] := by
      have : raw.isEmpty = false := by cases raw <;> simp_all
      simp [rawBlock, this]
    have := lexN_raw_step_then X ys n a raw ts hr ha hok ih
    rw [hb] at this
    exact this
  | @rawEmpty n a ts hr ha _ ih =>
    exact lexN_raw_step_then X ys n a [] ts hr ha trivial ih
  | @cons t ts ht hf hts ih =>
    intro k hk
    cases k with
    | zero => simp at hk
    | succ k =>
      have hne := renderTok_ne_nil t ht
      have hpos : 0 < (renderTok t).length := List.length_pos_iff.mpr hne
      have hassoc : renderToks (t :: ts) ++ X = renderTok t ++ (renderToks ts ++ X) := by
        simp [renderToks]
      rw [hassoc] at hk ⊢
      have hlen : (renderToks ts ++ X).length < k := by
        simp at hk ⊢; omega
      have hone := lexOne_render t ht (renderToks ts ++ X) hf (k + 1) hk
      have hnn : (renderTok t ++ (renderToks ts ++ X)).isEmpty = false := by
        cases hr : renderTok t with
        | nil => exact absurd hr hne
        | cons c r => rfl
      have hlt : (renderToks ts ++ X).length < (renderTok t ++ (renderToks ts ++ X)).length := by
        simp; omega
      simp only [lexN, hnn, Bool.false_eq_true, if_false, hone, hlt, if_true, ih k hlen]
      rfl

/-! ### the wrapper's tags -/

theorem wrapperName_cons : wrapperName = 'x' :: "xxblank".toList := by decide
theorem wrapperName_tagCh : ∀ c ∈ wrapperName, isTagCh c = true := by decide
theorem wrapper_not_raw : isRawText wrapperName = false := by decide

theorem wrapper_tagNameOK : TagNameOK wrapperName :=
  ⟨⟨'x', "xxblank".toList, wrapperName_cons, by decide⟩, wrapperName_tagCh, by decide⟩

theorem wrapClose_render : wrapClose = renderToks [.end_ wrapperName] := by
  simp [wrapClose, renderToks, renderTok]

theorem lexN_wrapClose : ∀ k, wrapClose.length < k → lexN k wrapClose = some [.end_ wrapperName] := by
  intro k hk
  rw [wrapClose_render] at hk ⊢
  exact lexN_renderToks [.end_ wrapperName] (.cons wrapper_tagNameOK trivial .nil) k hk

/-- `<xxxblank>` (no white space before `>`: not the serialiser's spelling) lexes to the wrapper's start tag -/
theorem lexOne_wrapOpen (X : Str) (k : Nat) : lexOne (k + 1) (wrapOpen ++ X) = some ([.start wrapperName []], X) := by
  have hsp : span isTagCh (wrapperName ++ '>' :: X) = (wrapperName, '>' :: X) :=
    span_append isTagCh wrapperName '>' X wrapperName_tagCh (by decide)
  have hA : lexAttrs (k + 1) ('>' :: X) = some ([], false, X) := by
    simp [lexAttrs, List.dropWhile_cons, isWs]
  have hstr : wrapOpen ++ X = '<' :: 'x' :: ("xxblank".toList ++ '>' :: X) := by
    simp [wrapOpen, wrapperName_cons]
  rw [wrapperName_cons] at hsp
  simp only [List.cons_append] at hsp
  rw [hstr]
  have hx : isAlpha 'x' = true := by decide
  have hlow : lower ('x' :: "xxblank".toList) = wrapperName := by decide
  have hraw : isRawText wrapperName = false := wrapper_not_raw
  simp only [lexOne, hx, if_true, hsp, (tagNameEnds_facts X).2.1, Bool.not_true, hA, hlow, hraw, Bool.false_eq_true, if_false]

theorem lexN_wrapOpen (X : Str) (ys : List Token) (hX : ∀ k, X.length < k → lexN k X = some ys) :
    ∀ k, (wrapOpen ++ X).length < k → lexN k (wrapOpen ++ X) = some (.start wrapperName [] :: ys) := by
  intro k hk
  cases k with
  | zero => simp at hk
  | succ k =>
    have hwl : wrapOpen.length = 10 := by decide
    have hlen : X.length < k := by simp [hwl] at hk; omega
    have hnn : (wrapOpen ++ X).isEmpty = false := by simp [wrapOpen]
    have hlt : X.length < (wrapOpen ++ X).length := by simp [hwl]
    simp only [lexN, hnn, Bool.false_eq_true, if_false, lexOne_wrapOpen X k, hlt, if_true, hX k hlen]
    rfl

/-! ### the text of the second pass -/

theorem leadDoctype_split (ts pre r : List Token) (h : leadDoctype ts = some (pre, r)) :
    ts = pre ++ r ∧ ((∃ d, pre = [.decl d]) ∨ (∃ ws d, pre = [.data ws, .decl d] ∧ wsNL ws = true)) := by
  unfold leadDoctype at h
  split at h
  · rename_i d r'
    simp at h
    obtain ⟨h1, h2⟩ := h
    subst h1; subst h2
    exact ⟨rfl, Or.inl ⟨d, rfl⟩⟩
  · rename_i ws d r'
    split at h
    · rename_i hws
      simp at h
      obtain ⟨h1, h2⟩ := h
      subst h1; subst h2
      exact ⟨rfl, Or.inr ⟨ws, d, rfl, hws⟩⟩
    · simp at h
  · simp at h

/- The earlier general statement

       theorem ListOK.tail {t : Token} {ts : List Token} (h : ListOK (t :: ts)) : ListOK ts

   is FALSE since `ListOK` contains raw-text elements: after the start tag of `script` / `style` comes the
   content as one data token that may contain `<`, `&`, … and is no token list of the outside grammar (the
   two `example`s below).  It holds — and is proved here as `ListOK.tail_partial` — for every first token that is
   not the start tag of a raw-text element (in particular for every `TokOK` token; all uses in this file are
   of that kind: a doctype declaration, a white-space data run). -/
theorem ListOK.tail_partial {t : Token} {ts : List Token} (h : ListOK (t :: ts))
    (hnr : ∀ n a, t = .start n a → isRawText n = false) : ListOK ts := by
  cases h with
  | cons _ _ hts => exact hts
  | raw hr _ _ _ _ => rw [hnr _ _ rfl] at hr; exact absurd hr (by simp)
  | rawEmpty hr _ _ => rw [hnr _ _ rfl] at hr; exact absurd hr (by simp)

example : ListOK [.start "script".toList [], .data "a<b".toList, .end_ "script".toList] :=
  .raw (by decide) (by simp) (by decide) (by decide) .nil
example : ¬ ListOK [.data "a<b".toList, .end_ "script".toList] := by
  intro h
  cases h with
  | cons ht _ _ => exact absurd ht (by decide)

/-- the rendering of a well-formed list, followed by the wrapper's end tag, lexes to the list and that tag -/
theorem lexN_render_close (ts : List Token) (h : ListOK ts) :
    ∀ k, (renderToks ts ++ wrapClose).length < k →
      lexN k (renderToks ts ++ wrapClose) = some (ts ++ [.end_ wrapperName]) :=
  lexN_render_then wrapClose [.end_ wrapperName] lexN_wrapClose ts
    (listOKThen_of_listOK ('/' :: wrapperName ++ ['>']) ts h)

/-- **character-level and token-level wrapper placement agree**: on the rendering of a token list in the
    serialiser's image, lexing `addStartTag(text, '<xxxblank>') + '</xxxblank>'` gives `wrapToks` of the list -/
theorem lexN_wrapStr_renderToks (ts : List Token) (h : ListOK ts) :
    ∀ k, (wrapStr (renderToks ts)).length < k → lexN k (wrapStr (renderToks ts)) = some (wrapToks ts) := by
  intro k hk
  have hpre := doctypePrefix_renderToks ts h
  cases hl : leadDoctype ts with
  | none =>
    rw [hl] at hpre
    have hw : wrapStr (renderToks ts) = wrapOpen ++ (renderToks ts ++ wrapClose) := by
      rw [wrapStr_eq]; unfold addStartTagStr; rw [hpre]; simp
    have ht : wrapToks ts = .start wrapperName [] :: (ts ++ [.end_ wrapperName]) := by
      unfold wrapToks; rw [hl]; rfl
    rw [hw] at hk ⊢
    rw [ht]
    exact lexN_wrapOpen _ _ (lexN_render_close ts h) k hk
  | some p =>
    obtain ⟨pre, r⟩ := p
    rw [hl] at hpre
    obtain ⟨hts, hshape⟩ := leadDoctype_split ts pre r hl
    have hw : wrapStr (renderToks ts) = renderToks pre ++ (wrapOpen ++ (renderToks r ++ wrapClose)) := by
      rw [wrapStr_eq]; unfold addStartTagStr; rw [hpre]; simp
    have ht : wrapToks ts = pre ++ (.start wrapperName [] :: (r ++ [.end_ wrapperName])) := by
      unfold wrapToks; rw [hl]; simp
    rw [hw] at hk ⊢
    rw [ht]
    have hr : ListOK r := by
      rcases hshape with ⟨d, rfl⟩ | ⟨ws, d, rfl, _⟩
      · rw [hts] at h; exact ListOK.tail_partial h (by simp)
      · rw [hts] at h; exact ListOK.tail_partial (ListOK.tail_partial h (by simp)) (by simp)
    have hX := lexN_wrapOpen _ _ (lexN_render_close r hr)
    apply lexN_render_then _ _ hX pre _ k hk
    -- the prefix is well formed in front of the wrapper's start tag
    rcases hshape with ⟨d, rfl⟩ | ⟨ws, d, rfl, _⟩
    · rw [hts] at h
      cases h with
      | cons hd _ _ => exact .cons hd trivial .nil
    · rw [hts] at h
      obtain ⟨hws, hf, hd⟩ : TokOK (.data ws) ∧ Follows (Token.data ws) (renderToks (Token.decl d :: r))
          ∧ TokOK (.decl d) := by
        cases h with
        | cons h1 h2 h3 =>
          cases h3 with
          | cons h4 _ _ => exact ⟨h1, h2, h4⟩
      refine .cons hws ?_ (.cons hd trivial .nil)
      have e1 : renderToks (Token.decl d :: r) = '<' :: ('!' :: d ++ ['>'] ++ renderToks r) := by
        simp [renderToks, renderTok]
      have e2 : renderToks [Token.decl d] ++ (wrapOpen ++ (renderToks r ++ wrapClose))
          = '<' :: ('!' :: d ++ ['>'] ++ (wrapOpen ++ (renderToks r ++ wrapClose))) := by
        simp [renderToks, renderTok]
      rw [e2]
      rw [e1] at hf
      exact Follows_head _ _ _ _ hf

theorem lexStrict_wrapStr_renderToks (ts : List Token) (h : ListOK ts) :
    lexStrict (wrapStr (renderToks ts)) = some (wrapToks ts) :=
  lexN_wrapStr_renderToks ts h _ (Nat.lt_succ_self _)

/-! ### `feed` on text -/

/-- `AdvancedHTMLParser.feed(contents)` on the strict sub-language (`none` = the text is outside it):
    `HTMLParser.feed(contents)`; on MultipleRootNodeException `reset()` and
    `HTMLParser.feed(addStartTag(contents, '<xxxblank>') + '</xxxblank>')`.
    (`stripIEConditionals`, which `parseStr` applies first, is modelled in `Model/StripIE.lean`; `parseText := feedText ∘ stripIE`
    and `parseText_eq_spec` are in `Lemmas/StripIERender.lean` / `Props/C02.lean`.) -/
def feedText (s : Str) : Option FeedResult :=
  match lexStrict s with
  | none => none
  | some toks =>
    match run BState.init toks with
    | .multipleRoot =>
      match lexStrict (wrapStr s) with
      | none => none
      | some toks2 => some (FeedResult.ofPass true (run BState.init toks2))
    | o => some (FeedResult.ofPass false o)

/-- on renderings of token lists in the serialiser's image the text-level `feed` is the token-level one -/
theorem feedText_renderToks (ts : List Token) (h : ListOK ts) :
    feedText (renderToks ts) = some (feedTokens ts) := by
  unfold feedText feedTokens
  rw [lexStrict_renderToks ts h, lexStrict_wrapStr_renderToks ts h]
  dsimp only
  generalize run BState.init ts = o
  cases o <;> rfl

end AHP
