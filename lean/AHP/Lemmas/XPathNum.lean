/-
  AHP.Lemmas.XPathNum — laws for the number structure of the XPath model, and an exact instance.

  `Num N` (AHP.Model.XPath) is "what the engine needs of Python's `float`" with no laws: the C14 theorems that relate
  model and specification hold for every instance.  The value-level clauses of the property ("the n-th among …",
  "numeric comparison is numeric") speak about *particular* numbers — the natural numbers written as decimal
  literals — so they need the instance to treat those as Python does.  `LawfulNum nm` says exactly that much:

    * `float("123")` is the number 123 (`parse` of a decimal integer literal is `ofNat` of its value);
    * `int(float(n)) == n` (`toIndex (ofNat n) = n`);
    * `==`, `<`, `<=` on such numbers are the order of the natural numbers.

  Python's `float` satisfies these for every `n < 2^53` (the tie compares the driver's `Float` instance with the
  library); an exact instance satisfies them outright: `ratNum`, rationals as numerator / positive denominator,
  used in the `example`s of Props/C14.lean.
-/
import AHP.Lemmas.XPathParseBody
namespace AHP.XPath

/-- the number a digit string denotes -/
def digitsVal (ds : List (Fin 10)) : Nat := ds.foldl (fun n d => n * 10 + d.val) 0

/-- a decimal integer literal (`\d+`): the text of the digits -/
def natLit (ds : List (Fin 10)) : Str := ds.map digitChar

/-- What the value-level clauses of C14 need of the number structure (see the header). -/
structure LawfulNum {N : Type} (nm : Num N) : Prop where
  parse_natLit : ∀ ds : List (Fin 10), ds ≠ [] → nm.parse (natLit ds) = some (nm.ofNat (digitsVal ds))
  toIndex_ofNat : ∀ n : Nat, nm.toIndex (nm.ofNat n) = some (some (Int.ofNat n))
  eq_ofNat : ∀ a b : Nat, nm.eq (nm.ofNat a) (nm.ofNat b) = decide (a = b)
  lt_ofNat : ∀ a b : Nat, nm.lt (nm.ofNat a) (nm.ofNat b) = decide (a < b)
  le_ofNat : ∀ a b : Nat, nm.le (nm.ofNat a) (nm.ofNat b) = decide (a ≤ b)

/-! ### Exact rationals -/

/-- `num / (den1 + 1)`; not normalised, compared by cross-multiplication -/
structure Q where
  num : Int
  den1 : Nat
  deriving Repr, DecidableEq, Inhabited

namespace Q
def den (q : Q) : Int := Int.ofNat (q.den1 + 1)
def ofNat (n : Nat) : Q := ⟨Int.ofNat n, 0⟩
/-- numerator over a positive denominator -/
def over (n d : Int) : Q := ⟨n, d.toNat - 1⟩
def add (a b : Q) : Q := over (a.num * b.den + b.num * a.den) (a.den * b.den)
def sub (a b : Q) : Q := over (a.num * b.den - b.num * a.den) (a.den * b.den)
def mul (a b : Q) : Q := over (a.num * b.num) (a.den * b.den)
/-- `none` = ZeroDivisionError -/
def div (a b : Q) : Option Q :=
  if b.num = 0 then none
  else if 0 < b.num then some (over (a.num * b.den) (a.den * b.num))
  else some (over (-(a.num * b.den)) (a.den * (-b.num)))
/-- Python `x % y`: `x - y * floor(x / y)` (sign of the divisor) -/
def mod (a b : Q) : Option Q :=
  if b.num = 0 then none
  else some (sub a (mul b ⟨Int.fdiv (a.num * b.den) (b.num * a.den), 0⟩))
def eq (a b : Q) : Bool := a.num * b.den == b.num * a.den
def lt (a b : Q) : Bool := decide (a.num * b.den < b.num * a.den)
def le (a b : Q) : Bool := decide (a.num * b.den ≤ b.num * a.den)
def toIndex (q : Q) : Option (Option Int) :=
  if q.num % q.den = 0 then some (some (q.num / q.den)) else some none
/-- `str(float)` of an integral value (`3.0`); others are not modelled -/
def toStr (q : Q) : Option Str :=
  if q.num % q.den = 0 then some ((toString (q.num / q.den)).toList ++ ['.', '0']) else none

def digVal (c : Char) : Nat := c.toNat - 48
def natOfDigits (s : Str) : Nat := s.foldl (fun n c => n * 10 + digVal c) 0

/-- `float(str)` on the plain decimal forms `[ws][+-]digits[.digits][ws]`, `.5`, `5.`; everything else (exponents,
    inf, nan, underscores, empty) is a ValueError here -/
def parse (s : Str) : Option Q :=
  let t := strip s
  let neg := match t with
    | '-' :: _ => true
    | _ => false
  let body := match t with
    | '-' :: r => r
    | '+' :: r => r
    | r => r
  let ip := body.takeWhile isDigit
  let sg : Int := if neg then -1 else 1
  match body.dropWhile isDigit with
  | [] => if ip.isEmpty then none else some ⟨sg * Int.ofNat (natOfDigits ip), 0⟩
  | '.' :: f =>
    if f.all isDigit && !(ip.isEmpty && f.isEmpty) then some ⟨sg * Int.ofNat (natOfDigits (ip ++ f)), 10 ^ f.length - 1⟩
    else none
  | _ => none
end Q

/-- the exact instance -/
def ratNum : Num Q where
  parse := Q.parse
  ofNat := Q.ofNat
  add := Q.add
  sub := Q.sub
  mul := Q.mul
  div := Q.div
  mod := Q.mod
  eq := Q.eq
  lt := Q.lt
  le := Q.le
  toIndex := Q.toIndex
  toStr := Q.toStr

/-! ### `ratNum` is lawful -/

theorem digitChar_isDigit (d : Fin 10) : isDigit (digitChar d) = true := by revert d; decide
theorem digitChar_not_ws (d : Fin 10) : isWs (digitChar d) = false := by revert d; decide
theorem digitChar_digVal (d : Fin 10) : Q.digVal (digitChar d) = d.val := by revert d; decide
theorem digitChar_ne_plus (d : Fin 10) : digitChar d ≠ '+' := by revert d; decide

theorem natOfDigits_natLit (ds : List (Fin 10)) : Q.natOfDigits (natLit ds) = digitsVal ds := by
  have key : ∀ (ds : List (Fin 10)) (a : Nat),
      (natLit ds).foldl (fun n c => n * 10 + Q.digVal c) a = ds.foldl (fun n d => n * 10 + d.val) a := by
    intro ds
    induction ds with
    | nil => intro a; rfl
    | cons d ds ih =>
      intro a
      simp only [natLit, List.map_cons, List.foldl_cons, digitChar_digVal]
      exact ih _
  exact key ds 0

theorem natLit_all_digit (ds : List (Fin 10)) : ∀ c ∈ natLit ds, isDigit c = true := by
  intro c hc
  obtain ⟨d, _, rfl⟩ := List.mem_map.1 hc
  exact digitChar_isDigit d

theorem takeWhile_all {α} (p : α → Bool) : ∀ (l : List α), (∀ x ∈ l, p x = true) → l.takeWhile p = l ∧ l.dropWhile p = []
  | [], _ => ⟨rfl, rfl⟩
  | x :: xs, h => by
    have hx := h x (by simp)
    have := takeWhile_all p xs (fun y hy => h y (by simp [hy]))
    simp [List.takeWhile, List.dropWhile, hx, this.1, this.2]

theorem strip_natLit (ds : List (Fin 10)) : strip (natLit ds) = natLit ds := by
  cases ds with
  | nil => simp [natLit, strip, lstrip, rstrip]
  | cons d ds =>
    have : natLit (d :: ds) = digitChar d :: natLit ds := rfl
    rw [this]
    apply strip_tight (digitChar_not_ws d)
    intro c hc
    have hm : c ∈ digitChar d :: natLit ds := List.mem_of_getLast? hc
    have : c ∈ natLit (d :: ds) := hm
    obtain ⟨d', _, rfl⟩ := List.mem_map.1 this
    exact digitChar_not_ws d'

theorem ratNum_parse_natLit (ds : List (Fin 10)) (h : ds ≠ []) :
    Q.parse (natLit ds) = some (Q.ofNat (digitsVal ds)) := by
  cases ds with
  | nil => exact absurd rfl h
  | cons d ds =>
    have hall := takeWhile_all isDigit (natLit (d :: ds)) (natLit_all_digit (d :: ds))
    have hcons : natLit (d :: ds) = digitChar d :: natLit ds := rfl
    unfold Q.parse
    simp only [strip_natLit]
    have hbody : (match natLit (d :: ds) with
        | '-' :: r => r
        | '+' :: r => r
        | r => r) = natLit (d :: ds) := by
      rw [hcons]
      split
      · rename_i r heq; exact absurd (List.cons.inj heq).1 (digitChar_ne_minus d)
      · rename_i r heq; exact absurd (List.cons.inj heq).1 (digitChar_ne_plus d)
      · rfl
    have hneg : (match natLit (d :: ds) with
        | '-' :: _ => true
        | _ => false) = false := by
      rw [hcons]
      split
      · rename_i r heq; exact absurd (List.cons.inj heq).1 (digitChar_ne_minus d)
      · rfl
    simp only [hbody, hneg, hall.1, hall.2]
    rw [natOfDigits_natLit]
    simp [Q.ofNat, natLit]

theorem ratNum_lawful : LawfulNum ratNum where
  parse_natLit := ratNum_parse_natLit
  toIndex_ofNat := by
    intro n
    simp [ratNum, Q.toIndex, Q.ofNat, Q.den]
  eq_ofNat := by
    intro a b
    by_cases h : a = b
    · simp [ratNum, Q.eq, Q.ofNat, Q.den, h]
    · have : ¬ ((a : Int) = (b : Int)) := fun e => h (Int.ofNat.inj e)
      simp [ratNum, Q.eq, Q.ofNat, Q.den, h, this]
  lt_ofNat := by
    intro a b
    simp [ratNum, Q.lt, Q.ofNat, Q.den]
  le_ofNat := by
    intro a b
    simp [ratNum, Q.le, Q.ofNat, Q.den]

/-- the decimal digits of a number below ten, … (for the `example`s): `natLit [1, 0]` is the text `10` -/
example : natLit [1, 0] = ['1', '0'] ∧ digitsVal [1, 0] = 10 := by decide

end AHP.XPath
