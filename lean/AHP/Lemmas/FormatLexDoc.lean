/-
  AHP.Lemmas.FormatLexDoc — document level (single-root documents, all four formatter classes): the formatter's
  output text is the rendering of `outToks`, a token list in the domain of the
  strict lexer (`doc_render`, `doc_listOK`), and the plain parser of the formatter model builds from those tokens
  a tree with the same doctype and the same canonical skeleton (`doc_reparse`).
-/
import AHP.Lemmas.FormatLexBuild
namespace AHP.Fmt
open AHP

/-- a doctype the doctype line lexes back from: none, or a `doctype …` declaration without `>` -/
def DtOK (dt : Option Str) : Prop :=
  match dt with
  | none => True
  | some d => isDoctype d = true ∧ '>' ∉ d

instance (dt : Option Str) : Decidable (DtOK dt) := by
  unfold DtOK
  cases dt <;> infer_instance

def dtToks (dt : Option Str) : List Token :=
  match dt with
  | some d => if d.isEmpty then [] else [.decl d]
  | none => []

/-- the line break `getHTML` writes after the doctype line -/
def dtBlock (dt : Option Str) : List FNode :=
  match dt with
  | some d => if d.isEmpty then [] else [.tok (.data ['\n'])]
  | none => []

/-- the blocks of the output text at top level: the doctype's line break, then what `expand` makes of the root,
    adjacent data blocks glued -/
def outBlocks (cfg : Cfg) (dt : Option Str) (u : FNode) : List FNode :=
  mergeL (dtBlock dt ++ expand cfg ⟨0, 0⟩ [] u)

/-- **the token rendering of the decorated document** -/
def outToks (cfg : Cfg) (dt : Option Str) (u : FNode) : List Token :=
  dtToks dt ++ ftoksL (outBlocks cfg dt u)

theorem doctypeLine_eq (y : TagStyle) (dt : Option Str) :
    doctypeLine dt = renderToksY y (dtToks dt) ++ renderToksY y (ftoksL (dtBlock dt)) := by
  cases dt with
  | none => rfl
  | some d =>
    by_cases hd : d.isEmpty = true
    · simp [doctypeLine, dtToks, dtBlock, hd, renderToksY, ftoksL]
    · simp [doctypeLine, dtToks, dtBlock, hd, renderToksY, renderTokY, ftoksL, FNode.toks, renderTok, str]

/-- **(a), rendering**: `getHTML` of any of the four formatter classes on a single-root document is the
    rendering of `outToks` in the start-tag style of the class -/
theorem doc_render (cfg : Cfg) (dt : Option Str) (n : Str) (st : AStore) (sc : Bool)
    (kids : List FNode) (hw : n ≠ wrapper) (hs : (FNode.elem n st sc kids).Strict) :
    docHTML dt (some (dec0 cfg (FNode.elem n st sc kids).toNode))
      = .ok (renderToksY (styleOf cfg.kind) (outToks cfg dt (.elem n st sc kids))) := by
  have hout := outer_decorate_eq cfg ⟨0, 0⟩ [] (.elem n st sc kids) (strict_textLike _ hs)
  unfold outToks outBlocks
  rw [renderToksY_append, render_mergeL, ftoksL_append, renderToksY_append, ← List.append_assoc,
    ← doctypeLine_eq, ← hout]
  simp only [dec0, FNode.toNode, decorate, docHTML, hw, if_false]

theorem strict_dtBlock (dt : Option Str) : StrictL (dtBlock dt) := by
  cases dt with
  | none => trivial
  | some d =>
    by_cases hd : d.isEmpty = true
    · simp [dtBlock, hd, StrictL]
    · have := plainData_tok ['\n'] ⟨by simp, by decide⟩
      simp [dtBlock, hd, StrictL, FNode.Strict, this.1, this.2, isTextLike]

theorem strict_outBlocks (cfg : Cfg) (hi : IndentWS cfg) (dt : Option Str) (u : FNode) (hs : u.Strict) :
    StrictL (outBlocks cfg dt u) := by
  unfold outBlocks
  apply strict_mergeL
  rw [strictL_append]
  exact ⟨strict_dtBlock dt, strict_expand cfg hi ⟨0, 0⟩ [] u hs⟩

/-- **(a), domain**: the token rendering of the decorated document is in the serialiser's image -/
theorem doc_listOK (cfg : Cfg) (hi : IndentWS cfg) (dt : Option Str) (u : FNode) (hs : u.Strict) (hdt : DtOK dt) :
    ListOK (outToks cfg dt u) := by
  have hblocks : ListOK (ftoksL (outBlocks cfg dt u)) := by
    have hg := glued_mergeL (dtBlock dt ++ expand cfg ⟨0, 0⟩ [] u)
    have := fforest_listOK (outBlocks cfg dt u) (strict_outBlocks cfg hi dt u hs) hg.1 hg.2 [] .nil (Or.inl rfl)
    rw [List.append_nil] at this
    exact this
  unfold outToks dtToks
  cases dt with
  | none => simpa using hblocks
  | some d =>
    by_cases hd : d.isEmpty = true
    · simpa [hd] using hblocks
    · simp only [hd, Bool.false_eq_true, if_false, List.cons_append, List.nil_append]
      simp only [DtOK, isDoctype, decide_eq_true_eq] at hdt
      exact .cons ⟨hdt.1, hdt.2⟩ trivial hblocks

/-- **(a)**: the strict lexer reads the output text back as `outToks` -/
theorem doc_lex (cfg : Cfg) (hi : IndentWS cfg) (dt : Option Str) (u : FNode) (hs : u.Strict) (hdt : DtOK dt) :
    lexStrict (renderToksY (styleOf cfg.kind) (outToks cfg dt u)) = some (outToks cfg dt u) :=
  lexStrict_renderToksY _ (styleOf_ok cfg.kind) _ (doc_listOK cfg hi dt u hs hdt)

/-! ### the plain parser on the output tokens -/

theorem pushTok_elem (t : Token) (n : Str) (st : AStore) (sc : Bool) (kids r : List FNode) :
    pushTok t (.elem n st sc kids :: r) = .tok t :: .elem n st sc kids :: r := by
  unfold pushTok
  split
  · rename_i heq; simp at heq
  · rfl

/-- data blocks in front of an element glue into one -/
theorem mergeL_ws_elem (n : Str) (st : AStore) (sc : Bool) (kids : List FNode) :
    ∀ (ws : List FNode) (w : Str), rawText ws = some w →
      mergeL (ws ++ [.elem n st sc kids]) = dataTok w ++ [.elem n st sc (mergeL kids)]
  | [], w, h => by
    simp only [rawText, Option.some.injEq] at h
    subst h
    simp [mergeL, dataTok]
  | k :: ws, w, h => by
    obtain ⟨s, w', rfl, hs, hw', rfl⟩ := rawText_cons k ws w h
    simp only [List.cons_append, mergeL]
    rw [mergeL_ws_elem n st sc kids ws w' hw']
    have hsw : s ++ w' ≠ [] := by simp [hs]
    rw [dataTok_ne _ hsw]
    by_cases hw0 : w' = []
    · subst hw0
      simp [dataTok, pushTok_elem]
    · rw [dataTok_ne _ hw0]
      simp [pushTok]

theorem rawText_dataTok (s : Str) : rawText (dataTok s) = some s := by
  unfold dataTok
  by_cases h : s.isEmpty = true
  · have : s = [] := by simpa using h
    subst this; rfl
  · simp [h, rawText]

theorem rawText_append (xs ys : List FNode) (a b : Str) (ha : rawText xs = some a) (hb : rawText ys = some b) :
    rawText (xs ++ ys) = some (a ++ b) := by
  induction xs generalizing a with
  | nil =>
    simp only [rawText, Option.some.injEq] at ha
    subst ha; simpa using hb
  | cons k ks ih =>
    obtain ⟨s, r', rfl, hs, hr', rfl⟩ := rawText_cons k ks a ha
    have hse : s.isEmpty = false := by cases s <;> simp_all
    simp only [List.cons_append, rawText, hse, Bool.false_eq_true, if_false, ih r' hr']
    simp

def dtText (dt : Option Str) : Str :=
  match dt with
  | some d => if d.isEmpty then [] else ['\n']
  | none => []

theorem rawText_dtBlock (dt : Option Str) : rawText (dtBlock dt) = some (dtText dt) := by
  cases dt with
  | none => rfl
  | some d =>
    by_cases hd : d.isEmpty = true
    · simp [dtBlock, dtText, hd, rawText]
    · simp [dtBlock, dtText, hd, rawText]

theorem dtText_ws (dt : Option Str) : WsStr (dtText dt) := by
  unfold dtText
  intro c hc
  cases dt with
  | none => simp at hc
  | some d =>
    by_cases hd : d.isEmpty = true
    · simp [hd] at hc
    · simp [hd] at hc; exact Or.inl hc

/-- the root element of the output text as the plain parser will see it -/
def outRoot (cfg : Cfg) (n : Str) (st : AStore) (sc : Bool) (kids : List FNode) : FNode :=
  .elem n st sc (mergeL (if sc then [] else
    expandL cfg ((⟨0, 0⟩ : Ctx).push n) n kids
      ++ dataTok (endInd n (indentAt cfg ⟨0, 0⟩) (decorateL cfg ((⟨0, 0⟩ : Ctx).push n) n (toNodeL kids)))))

theorem outBlocks_eq (cfg : Cfg) (dt : Option Str) (n : Str) (st : AStore) (sc : Bool) (kids : List FNode) :
    outBlocks cfg dt (.elem n st sc kids)
      = dataTok (dtText dt ++ indentAt cfg ⟨0, 0⟩) ++ [outRoot cfg n st sc kids] := by
  unfold outBlocks outRoot
  simp only [expand]
  rw [← List.append_assoc]
  exact mergeL_ws_elem n st sc _ _ _ (rawText_append _ _ _ _ (rawText_dtBlock dt) (rawText_dataTok _))

theorem pyStrip_ws (w : Str) (h : ∀ c ∈ w, pyWs c = true) : pyStrip w = [] := by
  unfold pyStrip pyLstrip
  rw [dropWhile_all pyWs w h]
  rfl

theorem plain_run_blank (w : Str) (hw : WsStr w) (dt : Option Str) (lv ip : Int) (rest : List Tok) :
    Plain.run ((ftoksL (dataTok w)).map Tok.ofToken ++ rest) ⟨[], none, dt, lv, ip⟩
      = Plain.run rest ⟨[], none, dt, lv, ip⟩ := by
  unfold dataTok
  by_cases h : w.isEmpty = true
  · simp [h, ftoksL]
  · simp only [h, Bool.false_eq_true, if_false, ftoksL, FNode.toks, List.append_nil, List.map_cons, List.map_nil,
      List.cons_append, List.nil_append]
    apply plain_run_cons_ok
    simp [Tok.ofToken, Plain.step, Plain.handleData, h, pyStrip_ws w (wsStr_pyWs w hw)]

/-- the doctype the plain parser ends up with after the doctype tokens -/
theorem plain_run_dt (dt : Option Str) (hdt : DtOK dt) (rest : List Tok) :
    Plain.run ((dtToks dt).map Tok.ofToken ++ rest) {} = Plain.run rest ⟨[], none, dt, 0, 0⟩ := by
  cases dt with
  | none => rfl
  | some d =>
    have hd : d.isEmpty = false := by
      cases d with
      | nil => simp [DtOK, isDoctype, lower, str] at hdt
      | cons c cs => rfl
    simp only [dtToks, hd, Bool.false_eq_true, if_false, List.map_cons, List.map_nil, List.cons_append,
      List.nil_append]
    apply plain_run_cons_ok
    simp [Tok.ofToken, Plain.step]

/-- **(b), core**: the plain parser on the output tokens: same doctype, root = the output's root element -/
theorem doc_reparse (cfg : Cfg) (hi : IndentWS cfg) (dt : Option Str) (n : Str) (st : AStore) (sc : Bool)
    (kids : List FNode) (hs : (FNode.elem n st sc kids).Strict) (hdt : DtOK dt) :
    Plain.feed ((outToks cfg dt (.elem n st sc kids)).map Tok.ofToken)
      = .ok ⟨[], some (outRoot cfg n st sc kids).toNode, dt, 0, 0⟩ := by
  have hstrict := strict_outBlocks cfg hi dt _ hs
  rw [outBlocks_eq, strictL_append] at hstrict
  have hroot : (outRoot cfg n st sc kids).Buildable := strict_buildable _ hstrict.2.1
  have hrun : Plain.run ((outToks cfg dt (.elem n st sc kids)).map Tok.ofToken) {}
      = .ok ⟨[], some (outRoot cfg n st sc kids).toNode, dt, 0, 0⟩ := by
    unfold outToks
    rw [outBlocks_eq, List.map_append, plain_run_dt dt hdt, ftoksL_append, List.map_append,
      plain_run_blank _ (wsStr_append _ _ (dtText_ws dt) (indentAt_ws cfg hi _))]
    have h1 : ftoksL [outRoot cfg n st sc kids] = (outRoot cfg n st sc kids).toks := by simp [ftoksL]
    rw [h1]
    unfold outRoot at hroot ⊢
    have := plain_root n st sc _ hroot dt 0 0 []
    simp only [List.append_nil] at this
    rw [this]
    rfl
  unfold Plain.feed
  rw [hrun]

/-- **(b), skeleton**: the output's root element has the canonical skeleton of the document's root -/
theorem cskel_outRoot (cfg : Cfg) (hi : IndentWS cfg) (n : Str) (st : AStore) (sc : Bool) (kids : List FNode)
    (hs : (FNode.elem n st sc kids).Strict) :
    cskel (outRoot cfg n st sc kids).toNode = cskel (FNode.elem n st sc kids).toNode := by
  have hb := strict_buildable _ hs
  have h1 := cskL_expand cfg hi ⟨0, 0⟩ [] (.elem n st sc kids) hb []
  simp only [expand, List.append_assoc] at h1
  rw [cskL_dataTok, eraseWS_ws _ (indentAt_ws cfg hi _), pushText_nil] at h1
  simp only [List.cons_append, List.nil_append] at h1
  rw [cskL_cons, cskL_cons] at h1
  have h2 := cskel_merge (.elem n st sc (if sc then [] else
    expandL cfg ((⟨0, 0⟩ : Ctx).push n) n kids
      ++ dataTok (endInd n (indentAt cfg ⟨0, 0⟩) (decorateL cfg ((⟨0, 0⟩ : Ctx).push n) n (toNodeL kids)))))
  simp only [merge] at h2
  unfold outRoot
  rw [h2]
  simp only [cskel]
  simp only [FNode.toNode, skel, canon, canonCons, cskL, toNodeL, skelL, canonL, List.cons.injEq, and_true] at h1 ⊢
  exact h1

end AHP.Fmt
