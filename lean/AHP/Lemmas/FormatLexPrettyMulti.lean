/-
  AHP.Lemmas.FormatLexPrettyMulti — the text-level stability and layout statements for MULTI-ROOT documents (the
  invisible wrapper; `getHTML` prints its children only, after the doctype line and its line break).

  One pass + re-tokenisation maps the wrapper's blocks `ks` to `outBlocksM cfg dt ks`
  `= pushData (dtText dt) (MX cfg ⟨0,0⟩ wrapper [] ks)` (`outBlocksM_eq`): the merged expansion at level 0 with no end
  text, and the doctype's line break glued in front — which the NEXT pass strips again (`squeeze_dtText`,
  `MX_pushData_dt`: the data rule removes leading line breaks).  Hence three passes are `pd (MX (MX (MX ks)))` and
  `stabL` (with the empty end text) gives pass 3 = pass 2 (`outBlocksM_stable`).  `pass_step_multi` packages one pass
  through the real pipeline; `pretty_layout_core_multi` is the layout law on the output tokens.
-/
import AHP.Lemmas.FormatLexPrettyLayout
import AHP.Lemmas.FormatLexConv
namespace AHP.Fmt
open AHP

theorem c0_push_wrapper : (⟨0, 0⟩ : Ctx).push wrapper = ⟨0, 0⟩ := by decide

theorem dtBlock_eq (dt : Option Str) : dtBlock dt = dataTok (dtText dt) := by
  cases dt with
  | none => rfl
  | some d =>
    by_cases hd : d.isEmpty = true
    · simp [dtBlock, dtText, hd, dataTok]
    · simp [dtBlock, dtText, hd, dataTok]

/-- one multi-root pass on the blocks of the wrapper -/
theorem outBlocksM_eq (cfg : Cfg) (dt : Option Str) (ks : List FNode) :
    outBlocksM cfg dt ks = pushData (dtText dt) (MX cfg ⟨0, 0⟩ wrapper [] ks) := by
  unfold outBlocksM MX
  rw [c0_push_wrapper, dtBlock_eq, mergeL_dataTok_append]
  simp [dataTok]

/-- the data rule strips leading line breaks -/
theorem squeeze_lf_cons (x : Str) : squeeze ('\n' :: x) = squeeze x := by
  have h1 : tabToSpace '\n' = '\n' := by decide
  have h2 : isCRLF '\n' = true := by decide
  simp only [squeeze, List.map_cons, h1, List.dropWhile_cons, h2, if_true]

theorem squeeze_dtText (dt : Option Str) (x : Str) : squeeze (dtText dt ++ x) = squeeze x := by
  cases dt with
  | none => rfl
  | some d =>
    by_cases hd : d.isEmpty = true
    · simp [dtText, hd]
    · simp only [dtText, hd, Bool.false_eq_true, if_false, List.cons_append, List.nil_append]
      exact squeeze_lf_cons x

theorem squeeze_dtText_nil (dt : Option Str) : squeeze (dtText dt) = [] := by
  have := squeeze_dtText dt []
  rw [List.append_nil] at this
  rw [this]
  exact squeeze_nil

/-- the doctype's line break glued in front of a block list is invisible to the next pass -/
theorem MX_pushData_dt (cfg : Cfg) (c : Ctx) (p e : Str) (hc : c.inPre = 0) (hp : isPreserve p = false)
    (dt : Option Str) (z : List FNode) :
    MX cfg c p e (pushData (dtText dt) z) = MX cfg c p e z := by
  cases z with
  | nil =>
    rw [pushData_empty]
    have := MX_dataTok cfg c p e hc hp (dtText dt) []
    rw [List.append_nil] at this
    rw [this, squeeze_dtText_nil, pushData_nil]
  | cons k r =>
    cases k with
    | elem n st sc kids =>
      rw [pushData_elem, MX_dataTok cfg c p e hc hp, squeeze_dtText_nil, pushData_nil]
    | tok t =>
      by_cases hd : isData t = true
      · cases t with
        | data b =>
          rw [pushData_data, MX_data cfg c p e hc hp, MX_data cfg c p e hc hp, squeeze_dtText]
        | _ => simp [isData] at hd
      · rw [pushData_tok _ t (by simpa using hd), MX_dataTok cfg c p e hc hp, squeeze_dtText_nil, pushData_nil]

/-- **pass 3 = pass 2 on the blocks of a multi-root document** (pretty classes) -/
theorem outBlocksM_stable (cfg : Cfg) (hm : cfg.mini = false) (hi : IndentWS cfg) (dt : Option Str) (ks : List FNode)
    (hs : StrictL ks) :
    outBlocksM cfg dt (outBlocksM cfg dt (outBlocksM cfg dt ks)) = outBlocksM cfg dt (outBlocksM cfg dt ks) := by
  have hst := stabL cfg hm hi ks hs ⟨0, 0⟩ wrapper [] rfl preserve_wrapper (Or.inl rfl) []
  simp only [pushData_nil] at hst
  simp only [outBlocksM_eq, MX_pushData_dt cfg ⟨0, 0⟩ wrapper [] rfl preserve_wrapper, hst]

/-! ### one pass through the real pipeline -/

theorem strict_wrapperElem (kids : List FNode) (h : StrictL kids) : (FNode.elem wrapper {} false kids).Strict := by
  have h1 : TagNameOK wrapper := by decide
  have h2 : Fmt.isVoid wrapper = false := by decide
  have h3 : ({} : AStore).items = [] := by decide
  simp only [FNode.Strict, wrapper_facts.2.2, Bool.false_eq_true, if_false, h2, h3]
  exact ⟨h1, fun e => e.elim, fun e => e.elim, fun x hx => by simp at hx, by decide, h⟩

theorem topScan_outBlocksM (cfg : Cfg) (hi : IndentWS cfg) (dt : Option Str) (kids : List FNode)
    (hmulti : topScan false kids = none) : topScan false (outBlocksM cfg dt kids) = none := by
  unfold outBlocksM
  rw [topScan_mergeL, topScan_append, topScan_dtBlock]
  simp only [Option.bind_some]
  rw [topScan_expandL cfg hi]
  exact hmulti

theorem nw_outBlocksM (cfg : Cfg) (dt : Option Str) (kids : List FNode) (h : NoWrapperL kids) :
    NoWrapperL (outBlocksM cfg dt kids) := by
  unfold outBlocksM
  apply nw_mergeL
  rw [nwL_append]
  exact ⟨nw_dtBlock dt, nw_expandL cfg _ wrapper kids h⟩

/-- the token sequence of a strict multi-root document: doctype declaration, then the tokens of the top-level blocks -/
def strictToksM (dt : Option Str) (kids : List FNode) : List Tok := (dtToks dt ++ ftoksL kids).map Tok.ofToken

theorem noWrapperStart_toksM (dt : Option Str) (kids : List FNode) (hs : StrictL kids) (hnw : NoWrapperL kids) :
    NoWrapperStart ((dtToks dt ++ ftoksL kids).map Tok.ofToken) := by
  intro t ht
  simp only [List.map_append, List.mem_append, List.mem_map] at ht
  rcases ht with ⟨t0, ht0, rfl⟩ | ⟨t0, ht0, rfl⟩
  · exact nw_dtToks dt t0 ht0
  · exact noWrapper_toksL _ (strictL_textLike _ hs) hnw t0 ht0

/-- **One pass, text to text, multi-root.**  Any class with a spaces/tabs indent unit; a token sequence that the plain
    parser builds into the strict multi-root document with top-level blocks `kids` (the wrapper element; doctype `dt`).
    The formatter's output is the rendering of `outToksM cfg dt kids`; the strict lexer reads it back as exactly those
    tokens; they do not start the wrapper; the plain parser builds from them the multi-root document with blocks
    `outBlocksM cfg dt kids` — again strict, free of the reserved name and rejected by a first pass. -/
theorem pass_step_multi (cfg : Cfg) (hi : IndentWS cfg) (dt : Option Str) (hdt : DtOK dt) (kids : List FNode)
    (hs : StrictL kids) (hnw : NoWrapperL kids) (hmulti : topScan false kids = none)
    (toks : List Tok) (hnws : NoWrapperStart toks) (ps : St) (hp : Plain.feed toks = .ok ps)
    (hroot : ps.root = some (FNode.elem wrapper {} false kids).toNode) (hd : ps.doctype = dt) :
    format cfg toks = .ok (renderToksY (styleOf cfg.kind) (outToksM cfg dt kids))
    ∧ lexStrict (renderToksY (styleOf cfg.kind) (outToksM cfg dt kids)) = some (outToksM cfg dt kids)
    ∧ NoWrapperStart ((outToksM cfg dt kids).map Tok.ofToken)
    ∧ Plain.feed ((outToksM cfg dt kids).map Tok.ofToken)
        = .ok ⟨[], some (FNode.elem wrapper {} false (outBlocksM cfg dt kids)).toNode, dt, 0, 0⟩
    ∧ StrictL (outBlocksM cfg dt kids) ∧ NoWrapperL (outBlocksM cfg dt kids)
    ∧ topScan false (outBlocksM cfg dt kids) = none := by
  have hsw := strict_wrapperElem kids hs
  have htext := format_text cfg toks hnws ps hp wrapper {} false kids hroot (fun _ => ⟨rfl, rfl, hmulti⟩) hsw
  have hdoc : docToks cfg dt wrapper {} false kids = outToksM cfg dt kids := by
    unfold docToks; simp
  rw [hd, hdoc] at htext
  have hs2 := strict_outBlocksM cfg hi dt kids hs
  have hnw2 := nw_outBlocksM cfg dt kids hnw
  exact ⟨htext, doc_lex_multi cfg hi dt kids hs hdt, noWrapperStart_toksM dt _ hs2 hnw2,
    doc_reparse_multi cfg hi dt kids hs hdt hmulti, hs2, hnw2, topScan_outBlocksM cfg hi dt kids hmulti⟩

theorem outToksM_congr (cfg : Cfg) (dt : Option Str) (k1 k2 : List FNode)
    (h : outBlocksM cfg dt k1 = outBlocksM cfg dt k2) : outToksM cfg dt k1 = outToksM cfg dt k2 := by
  simp only [outToksM, h]

/-- the plain parser builds a strict multi-root document from its token sequence -/
theorem plain_feed_strictToksM (dt : Option Str) (hdt : DtOK dt) (kids : List FNode) (hs : StrictL kids)
    (hmulti : topScan false kids = none) :
    Plain.feed (strictToksM dt kids) = .ok ⟨[], some (FNode.elem wrapper {} false kids).toNode, dt, 0, 0⟩ :=
  reparse_blocks_multi dt hdt kids hs hmulti

/-- **C12d at string level, multi-root (pretty³ = pretty²).** -/
theorem pretty_text_stable_multi_core (cfg : Cfg) (hm : cfg.mini = false) (hi : IndentWS cfg) (dt : Option Str)
    (hdt : DtOK dt) (kids : List FNode) (hs : StrictL kids) (hnw : NoWrapperL kids)
    (hmulti : topScan false kids = none) :
    ∃ out1 toks2 out2 toks3, format cfg (strictToksM dt kids) = .ok out1 ∧ lexStrict out1 = some toks2 ∧
      format cfg (toks2.map Tok.ofToken) = .ok out2 ∧ lexStrict out2 = some toks3 ∧
      format cfg (toks3.map Tok.ofToken) = .ok out2 := by
  obtain ⟨f1, l1, w1, p1, s1, n1, m1⟩ := pass_step_multi cfg hi dt hdt kids hs hnw hmulti _
    (noWrapperStart_toksM dt kids hs hnw) _ (plain_feed_strictToksM dt hdt kids hs hmulti) rfl rfl
  obtain ⟨f2, l2, w2, p2, s2, n2, m2⟩ := pass_step_multi cfg hi dt hdt _ s1 n1 m1 _ w1 _ p1 rfl rfl
  obtain ⟨f3, _, _, _, _, _, _⟩ := pass_step_multi cfg hi dt hdt _ s2 n2 m2 _ w2 _ p2 rfl rfl
  refine ⟨_, _, _, _, f1, l1, f2, l2, ?_⟩
  rw [f3]
  congr 2
  exact outToksM_congr cfg dt _ _ (outBlocksM_stable cfg hm hi dt kids hs)

/-- `pretty_text_stable_multi_core` for ANY token sequence whose plain-parser tree is the strict multi-root document -/
theorem pretty_text_stable_multi_core_open (cfg : Cfg) (hm : cfg.mini = false) (hi : IndentWS cfg)
    (kids : List FNode) (hs : StrictL kids) (hnw : NoWrapperL kids) (hmulti : topScan false kids = none)
    (toks : List Tok) (hnws : NoWrapperStart toks) (ps : St) (hp : Plain.feed toks = .ok ps)
    (hroot : ps.root = some (FNode.elem wrapper {} false kids).toNode) (hdt : DtOK ps.doctype) :
    ∃ out1 toks2 out2 toks3, format cfg toks = .ok out1 ∧ lexStrict out1 = some toks2 ∧
      format cfg (toks2.map Tok.ofToken) = .ok out2 ∧ lexStrict out2 = some toks3 ∧
      format cfg (toks3.map Tok.ofToken) = .ok out2 := by
  obtain ⟨f1, l1, w1, p1, s1, n1, m1⟩ :=
    pass_step_multi cfg hi ps.doctype hdt kids hs hnw hmulti toks hnws ps hp hroot rfl
  obtain ⟨f2, l2, w2, p2, s2, n2, m2⟩ := pass_step_multi cfg hi ps.doctype hdt _ s1 n1 m1 _ w1 _ p1 rfl rfl
  obtain ⟨f3, _, _, _, _, _, _⟩ := pass_step_multi cfg hi ps.doctype hdt _ s2 n2 m2 _ w2 _ p2 rfl rfl
  refine ⟨_, _, _, _, f1, l1, f2, l2, ?_⟩
  rw [f3]
  congr 2
  exact outToksM_congr cfg ps.doctype _ _ (outBlocksM_stable cfg hm hi ps.doctype kids hs)

/-! ### the layout law on the output tokens -/

/-- **C12a on the output text, multi-root, token form.** -/
theorem pretty_layout_core_multi (cfg : Cfg) (hm : cfg.mini = false) (hi : IndentWS cfg) (dt : Option Str) (hdt : DtOK dt)
    (kids : List FNode) (hs : StrictL kids) (hnw : NoWrapperL kids) (hmulti : topScan false kids = none)
    (toks : List Tok) (hnws : NoWrapperStart toks) (ps : St) (hp : Plain.feed toks = .ok ps)
    (hroot : ps.root = some (FNode.elem wrapper {} false kids).toNode) (hd : ps.doctype = dt) :
    ∃ out toks2, format cfg toks = .ok out ∧ lexStrict out = some toks2 ∧
      out = renderToksY (styleOf cfg.kind) toks2 ∧ Scan (styleOf cfg.kind) cfg.indent [] [] toks2 := by
  obtain ⟨f1, l1, _, _, s1, _, _⟩ := pass_step_multi cfg hi dt hdt kids hs hnw hmulti toks hnws ps hp hroot hd
  refine ⟨_, _, f1, l1, rfl, ?_⟩
  have hblocks : Scan (styleOf cfg.kind) cfg.indent [] (renderToksY (styleOf cfg.kind) (dtToks dt))
      (ftoksL (outBlocksM cfg dt kids) ++ []) := by
    have htl := strictL_textLike _ s1
    apply scanL_laid _ _ _ htl 0 [] [] _ [] ?_ rfl rfl List.nil_suffix
    · simp [Scan]
    · rw [outBlocksM_eq]
      exact laid_MX cfg hm kids hs hnw ⟨0, 0⟩ wrapper [] rfl (dtText dt) []
  rw [List.append_nil] at hblocks
  unfold outToksM
  cases dt with
  | none => simpa [dtToks, renderToksY] using hblocks
  | some d =>
    by_cases hd' : d.isEmpty = true
    · simpa [dtToks, hd', renderToksY] using hblocks
    · simp only [dtToks, hd', Bool.false_eq_true, if_false, List.cons_append, List.nil_append, Scan, LayoutAt,
        stAfter, true_and]
      simpa [dtToks, hd', renderToksY] using hblocks

/-! ### mini, multi-root: the fixed point -/

theorem outBlocksM_mini_idem (cfg : Cfg) (hm : cfg.mini = true) (dt : Option Str) (ks : List FNode)
    (hg : GluedL ks) (ha : FNoAdjL ks) :
    outBlocksM cfg dt (outBlocksM cfg dt ks) = outBlocksM cfg dt ks := by
  have h1 := glued_expandL cfg hm ⟨0, 0⟩ wrapper ks hg ha
  have hMX : MX cfg ⟨0, 0⟩ wrapper [] ks = expandL cfg ⟨0, 0⟩ wrapper ks := by
    unfold MX
    simp only [dataTok, List.isEmpty_nil, if_true, List.append_nil]
    exact mergeL_glued _ h1.1 h1.2
  have hMX2 : MX cfg ⟨0, 0⟩ wrapper [] (expandL cfg ⟨0, 0⟩ wrapper ks) = expandL cfg ⟨0, 0⟩ wrapper ks := by
    unfold MX
    simp only [dataTok, List.isEmpty_nil, if_true, List.append_nil]
    rw [expandL_idem cfg hm]
    exact mergeL_glued _ h1.1 h1.2
  rw [outBlocksM_eq, outBlocksM_eq, MX_pushData_dt cfg ⟨0, 0⟩ wrapper [] rfl preserve_wrapper, hMX, hMX2]

/-- **C12c at string level, multi-root (mini² = mini).**  Mini class, a strict multi-root document without adjacent
    data blocks and without the reserved name. -/
theorem mini_text_fixed_point_multi (cfg : Cfg) (hm : cfg.mini = true) (hi : IndentWS cfg) (dt : Option Str)
    (hdt : DtOK dt) (kids : List FNode) (hs : StrictL kids) (hg : GluedL kids) (ha : FNoAdjL kids)
    (hnw : NoWrapperL kids) (hmulti : topScan false kids = none) :
    ∃ out toks2, format cfg (strictToksM dt kids) = .ok out ∧ lexStrict out = some toks2 ∧
      format cfg (toks2.map Tok.ofToken) = .ok out := by
  obtain ⟨f1, l1, w1, p1, s1, n1, m1⟩ := pass_step_multi cfg hi dt hdt kids hs hnw hmulti _
    (noWrapperStart_toksM dt kids hs hnw) _ (plain_feed_strictToksM dt hdt kids hs hmulti) rfl rfl
  obtain ⟨f2, _, _, _, _, _, _⟩ := pass_step_multi cfg hi dt hdt _ s1 n1 m1 _ w1 _ p1 rfl rfl
  refine ⟨_, _, f1, l1, ?_⟩
  rw [f2]
  congr 2
  exact outToksM_congr cfg dt _ _ (outBlocksM_mini_idem cfg hm dt kids hg ha)

end AHP.Fmt
