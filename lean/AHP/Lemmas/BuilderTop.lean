/-
  Top level of a parse: the single-root first pass and the wrapped second pass against the specification.
-/
import AHP.Lemmas.BuilderSpec
namespace AHP
open Spec

theorem finish_nil (r : Option Node) : finish ⟨[], r⟩ = ⟨[], r⟩ := rfl

/-- after the root is complete only outer tokens are accepted -/
theorem runT_epilog (r : Node) : ∀ ts : List Token,
    runT ⟨[], some r⟩ ts = if epilogOk ts then .ok ⟨[], some r⟩ else .multipleRoot := by
  intro ts
  induction ts with
  | nil => simp [runT, epilogOk]
  | cons t ts ih =>
    have hstart : ∀ n a sc, handleStart ⟨[], some r⟩ n a sc = .multipleRoot := by
      intro n a sc; simp [handleStart, TState.hasRoot]
    cases t with
    | decl d => simp only [runT, stepT, ih]; simp [epilogOk, isOuter]
    | unknownDecl d => simp only [runT, stepT, ih]; simp [epilogOk, isOuter]
    | pi d => simp only [runT, stepT, ih]; simp [epilogOk, isOuter]
    | end_ n => simp only [runT, stepT, handleEnd]; simp [ih, epilogOk, isOuter]
    | start n a => simp [runT, stepT, hstart, epilogOk, isOuter]
    | startend n a => simp [runT, stepT, hstart, epilogOk, isOuter]
    | comment c => simp [runT, stepT, addTextStrict, epilogOk, isOuter]
    | entity c => simp [runT, stepT, addTextStrict, epilogOk, isOuter]
    | charref c => simp [runT, stepT, addTextStrict, epilogOk, isOuter]
    | data d =>
      have hcons : epilogOk (.data d :: ts) = ((d.isEmpty || isBlank d) && epilogOk ts) := by
        simp [epilogOk, isOuter]
      by_cases hd : d.isEmpty = true
      · have hs : stepT ⟨[], some r⟩ (.data d) = .ok ⟨[], some r⟩ := by simp [stepT, hd]
        simp only [runT, hs, ih, hcons, hd, Bool.true_or, Bool.true_and]
      · by_cases hb : isBlank d = true
        · have hs : stepT ⟨[], some r⟩ (.data d) = .ok ⟨[], some r⟩ := by simp [stepT, hd, hb]
          simp only [runT, hs, ih, hcons, hb, Bool.or_true, Bool.true_and]
        · have hs : stepT ⟨[], some r⟩ (.data d) = .multipleRoot := by simp [stepT, hd, hb]
          simp only [runT, hs, hcons]
          simp [hd, hb]

/-- the first pass from the initial state: a single-root document, or MultipleRootNodeException -/
theorem runT_prolog (k : Nat) : ∀ ts : List Token, ts.length < k →
    (runT TState.init ts).fin = match single k ts with
      | some r => .ok ⟨[], r⟩
      | none => .multipleRoot := by
  induction k with
  | zero => intro ts h; simp at h
  | succ k ih =>
    intro ts hk
    cases ts with
    | nil => simp [runT, single, Outcome.fin, TState.init, finish_nil]
    | cons t ts =>
      have hk' : ts.length < k := by simp at hk; omega
      have hleafroot : ∀ (e : Node) (l : List Token), (runT ⟨[], some e⟩ l).fin =
          (if epilogOk l then Outcome.ok ⟨[], some e⟩ else Outcome.multipleRoot) := by
        intro e l
        rw [runT_epilog]
        split <;> simp [Outcome.fin, finish_nil]
      cases t with
      | decl d => simp only [runT, stepT, single, isOuter, if_true]; exact ih ts hk'
      | unknownDecl d => simp only [runT, stepT, single, isOuter, if_true]; exact ih ts hk'
      | pi d => simp only [runT, stepT, single, isOuter, if_true]; exact ih ts hk'
      | end_ n =>
        have : stepT TState.init (.end_ n) = .ok TState.init := by simp [stepT, handleEnd, TState.init]
        simp only [runT, this, single, isOuter, if_true]; exact ih ts hk'
      | comment c => simp [runT, stepT, addTextStrict, TState.init, single, isOuter, Outcome.fin]
      | entity c => simp [runT, stepT, addTextStrict, TState.init, single, isOuter, Outcome.fin]
      | charref c => simp [runT, stepT, addTextStrict, TState.init, single, isOuter, Outcome.fin]
      | data d =>
        by_cases hd : d.isEmpty = true
        · have : stepT TState.init (.data d) = .ok TState.init := by simp [stepT, hd]
          simp only [runT, this, single, isOuter, hd, Bool.true_or, if_true]; exact ih ts hk'
        · by_cases hb : isBlank d = true
          · have : stepT TState.init (.data d) = .ok TState.init := by simp [stepT, hd, hb, TState.init]
            simp only [runT, this, single, isOuter, hb, Bool.or_true, if_true]; exact ih ts hk'
          · simp [runT, stepT, hd, hb, TState.init, single, isOuter, Outcome.fin]
      | startend n a =>
        have hs : stepT TState.init (.startend n a) =
            .ok ⟨[], some (.elem (lower n) (intake a AttrState.empty) true [])⟩ := by
          simp [stepT, handleStart, TState.init, TState.hasRoot, addNode]
        simp only [runT, hs, single]
        rw [hleafroot]
        split <;> rfl
      | start n a =>
        by_cases hv : Spec.isVoid (lower n) = true
        · have hs : stepT TState.init (.start n a) =
              .ok ⟨[], some (.elem (lower n) (intake a AttrState.empty) true [])⟩ := by
            simp [stepT, handleStart, TState.init, TState.hasRoot, addNode, isVoid_eq, hv]
          simp only [runT, hs, single, hv, if_true]
          rw [hleafroot]
          split <;> rfl
        · let n' := lower n
          let at' := intake a AttrState.empty
          let s1 : TState := ⟨[⟨n', at', []⟩], none⟩
          have hs : stepT TState.init (.start n a) = .ok s1 := by
            simp [stepT, handleStart, TState.init, TState.hasRoot, isVoid_eq, hv, s1, n', at']
          have hitems := runT_items k s1 ts hk' (by simp [s1])
          have hnames : names s1 = [n'] := rfl
          rw [hnames] at hitems
          have hrest := items_rest k [n'] ts hk'
          simp only [runT, hs, single, hv]
          rw [hitems]
          generalize hkids : (items k [n'] ts).1 = kids at *
          generalize hc2 : (items k [n'] ts).2 = c2 at *
          have hs1 : s1 = { (⟨[], none⟩ : TState) with stack := ⟨n', at', []⟩ :: (⟨[], none⟩ : TState).stack } := rfl
          rcases hrest.1 with hnil | ⟨m, r2, hm, hmem⟩
          · subst hnil
            have hp := pop1_push ⟨[], none⟩ n' at' kids
            have hne2 : (addNodes s1 kids).stack ≠ [] := by
              intro e
              have := len_addNodes s1 kids
              rw [e] at this; simp [s1] at this
            simp only [runT, Outcome.fin]
            rw [finish_pop1 _ hne2, hs1, hp]
            simp [afterContent, epilogOk, addNode, finish_nil, n', at']
          · subst hm
            have hmn : m = n' := by simpa using hmem
            rw [hmn]
            have hclose := stepT_close_own ⟨[], none⟩ n' at' kids
            rw [← hs1] at hclose
            simp only [runT, hclose, addNode]
            rw [hleafroot]
            have hac : afterContent (lower n) (Token.end_ n' :: r2) = r2 := by simp [afterContent, n']
            rw [hac]
            simp only [Bool.false_eq_true, if_false]
            split <;> rfl

/-! ### the wrapped second pass -/

theorem afterContent_append (n w : Str) (hne : w ≠ n) (c : List Token) :
    afterContent n (c ++ [.end_ w]) = afterContent n c ++ [.end_ w] := by
  cases c with
  | nil => simp [afterContent, hne]
  | cons t c =>
    cases t <;> simp only [afterContent, List.cons_append]
    split <;> rfl

/-- appending the end tag of an outermost extra open element `w` that the input never mentions -/
theorem items_append_stop (w : Str) (k : Nat) : ∀ (open_ : List Str) (ts : List Token),
    ts.length + 1 < k →
    (∀ t ∈ ts, (match t with
        | .start n _ => lower n ≠ w | .startend n _ => lower n ≠ w | .end_ n => n ≠ w | _ => True)) →
    items k (open_ ++ [w]) (ts ++ [.end_ w]) = ((items k open_ ts).1, (items k open_ ts).2 ++ [.end_ w]) := by
  induction k with
  | zero => intro _ ts h; simp at h
  | succ k ih =>
    intro open_ ts hk hw
    cases ts with
    | nil =>
      cases k with
      | zero => simp at hk
      | succ k => simp [items]
    | cons t ts =>
      have hk' : ts.length + 1 < k := by simp at hk; omega
      have hw' : ∀ t ∈ ts, (match t with
          | .start n _ => lower n ≠ w | .startend n _ => lower n ≠ w | .end_ n => n ≠ w | _ => True) :=
        fun x hx => hw x (List.mem_cons_of_mem _ hx)
      have e := ih open_ ts hk' hw'
      have ht := hw t List.mem_cons_self
      cases t with
      | end_ n =>
        have hn : n ≠ w := ht
        have hc : (open_ ++ [w]).contains n = open_.contains n := by
          simp [List.contains_eq_mem, hn]
        simp only [List.cons_append, items, hc]
        split
        · rfl
        · exact e
      | startend n a => simp only [List.cons_append, items, e]
      | decl d => simp only [List.cons_append, items, textOf, e]
      | unknownDecl d => simp only [List.cons_append, items, textOf, e]
      | pi d => simp only [List.cons_append, items, textOf, e]
      | comment d => simp only [List.cons_append, items, textOf, e]
      | entity d => simp only [List.cons_append, items, textOf, e]
      | charref d => simp only [List.cons_append, items, textOf, e]
      | data d => simp only [List.cons_append, items, textOf, e]; split <;> rfl
      | start n a =>
        have hn : lower n ≠ w := ht
        simp only [List.cons_append, items]
        split
        · simp only [e]
        · have ec := ih (lower n :: open_) ts hk' hw'
          simp only [List.cons_append] at ec
          rw [ec]
          simp only
          rw [afterContent_append _ _ (fun h => hn h.symm)]
          have hlen : ts.length < k := by omega
          have hl := (items_rest k (lower n :: open_) ts hlen).2
          have hl2 := afterContent_len (lower n) (items k (lower n :: open_) ts).2
          have hw2 : ∀ t ∈ afterContent (lower n) (items k (lower n :: open_) ts).2, (match t with
              | .start n _ => lower n ≠ w | .startend n _ => lower n ≠ w | .end_ n => n ≠ w | _ => True) := by
            intro t ht2
            have hall := items_rest_forall (fun t => (match t with
              | .start n _ => lower n ≠ w | .startend n _ => lower n ≠ w | .end_ n => n ≠ w | _ => True))
              k (lower n :: open_) ts hlen hw'
            apply hall
            unfold afterContent at ht2
            split at ht2
            · split at ht2
              · rename_i heq _
                rw [heq]; exact List.mem_cons_of_mem _ ht2
              · exact ht2
            · exact ht2
          rw [ih open_ _ (by omega) hw2]

end AHP
