/-
  AHP.Lemmas.Attrs — the invariants of the attribute store and their preservation by every operation
  (used by Props/C08, C09, C10):

    * `ClsInv`  — `_classNames` holds non-empty names without a space;
    * `DictInv` — the underlying dict has pairwise distinct, valid, lower-case keys; the `class` key holds a class
                  snapshot, the `style` key the style object, every other key an ordinary value; the `style` key is
                  present exactly when the style map is non-empty.
-/
import AHP.Lemmas.AttrsStr
import AHP.Lemmas.AttrsDict
namespace AHP.Attrs
open AHP

/-! #### definitions -/

def ClsInv (e : El) : Prop := ∀ w ∈ e.cls, w ≠ [] ∧ ' ' ∉ w

def SlotOK (p : Str × Slot) : Prop :=
  validName p.1 = true ∧ lower p.1 = p.1 ∧
  (match p.2 with
   | .val _ => p.1 ≠ classK ∧ p.1 ≠ styleK
   | .cls _ => p.1 = classK
   | .sty => p.1 = styleK)

structure DictInv (e : El) : Prop where
  nodup : (akeys e.dict).Nodup
  slots : ∀ p ∈ e.dict, SlotOK p
  style : ahas styleK e.dict = !e.sty.isEmpty

theorem classK_ne_styleK : classK ≠ styleK := by decide
theorem styleK_ne_classK : styleK ≠ classK := by decide
theorem validName_classK : validName classK = true := by decide
theorem validName_styleK : validName styleK = true := by decide
theorem lower_classK : lower classK = classK := by decide
theorem lower_styleK : lower styleK = styleK := by decide

/-! #### `ClsInv` -/

theorem clsInv_of_eq {e e' : El} (h : e'.cls = e.cls) (hi : ClsInv e) : ClsInv e' := by
  unfold ClsInv; rw [h]; exact hi

theorem clsInv_setClassName (v : Option Str) (e : El) : ClsInv (setClassName v e) := by
  intro w hw
  have := mem_words (s := v.getD []) (w := w) hw
  exact ⟨this.1, this.2.1⟩

theorem stripWordsOnly_no_space {s : Str} (h : (stripWordsOnly s).contains ' ' = false) : ' ' ∉ stripWordsOnly s := by
  intro hm
  have : (stripWordsOnly s).contains ' ' = true := List.contains_iff_mem.mpr hm
  rw [h] at this
  cases this

theorem addOne_inv {cls : List Str} {w : Str} (hc : ∀ x ∈ cls, x ≠ [] ∧ ' ' ∉ x) (hw : w ≠ [] ∧ ' ' ∉ w) :
    ∀ x ∈ addOne cls w, x ≠ [] ∧ ' ' ∉ x := by
  intro x hx
  unfold addOne at hx
  split at hx
  · exact hc x hx
  · rcases List.mem_append.mp hx with h | h
    · exact hc x h
    · simp at h; subst h; exact hw

theorem addWord_inv {cls : List Str} {w : Str} (hc : ∀ x ∈ cls, x ≠ [] ∧ ' ' ∉ x) (hw : ' ' ∉ w) :
    ∀ x ∈ addWord cls w, x ≠ [] ∧ ' ' ∉ x := by
  unfold addWord
  simp only
  split
  · exact hc
  · next hne =>
    apply addOne_inv hc
    refine ⟨by simpa using hne, fun hm => hw (mem_stripWordsOnly hm)⟩

theorem foldl_addWord_inv : ∀ (ws : List Str) {cls : List Str}, (∀ x ∈ cls, x ≠ [] ∧ ' ' ∉ x) →
    (∀ w ∈ ws, ' ' ∉ w) → ∀ x ∈ ws.foldl addWord cls, x ≠ [] ∧ ' ' ∉ x
  | [], _, hc, _ => by simpa using hc
  | w :: ws, cls, hc, hw => by
    simp only [List.foldl_cons]
    exact foldl_addWord_inv ws (addWord_inv hc (hw w (by simp))) (fun w' h' => hw w' (List.mem_cons_of_mem _ h'))

theorem addClassL_inv (s : Str) {cls : List Str} (hc : ∀ x ∈ cls, x ≠ [] ∧ ' ' ∉ x) :
    ∀ x ∈ addClassL s cls, x ≠ [] ∧ ' ' ∉ x := by
  unfold addClassL
  simp only
  split
  · exact hc
  · next hne =>
    split
    · exact foldl_addWord_inv _ hc (fun w hw => (mem_splitChar hw).1)
    · next hsp =>
      apply addOne_inv hc
      exact ⟨by simpa using hne, stripWordsOnly_no_space (by simpa using hsp)⟩

theorem rmOne_subset {cls : List Str} {w x : Str} (h : x ∈ rmOne cls w) : x ∈ cls := by
  unfold rmOne at h
  split at h
  · exact List.mem_of_mem_erase h
  · exact h

theorem rmWord_subset {cls : List Str} {w x : Str} (h : x ∈ rmWord cls w) : x ∈ cls := by
  unfold rmWord at h
  simp only at h
  split at h
  · exact h
  · exact rmOne_subset h

theorem foldl_rmWord_subset : ∀ (ws : List Str) {cls : List Str} {x : Str}, x ∈ ws.foldl rmWord cls → x ∈ cls
  | [], _, _, h => by simpa using h
  | w :: ws, cls, x, h => by
    simp only [List.foldl_cons] at h
    exact rmWord_subset (foldl_rmWord_subset ws h)

theorem rmClassL_subset (s : Str) {cls : List Str} {x : Str} (h : x ∈ rmClassL s cls) : x ∈ cls := by
  unfold rmClassL at h
  simp only at h
  split at h
  · exact h
  · split at h
    · exact foldl_rmWord_subset _ h
    · exact rmOne_subset h

theorem clsInv_addClass (s : Str) {e : El} (h : ClsInv e) : ClsInv (addClass s e) := addClassL_inv s h

theorem clsInv_removeClass (s : Str) {e : El} (h : ClsInv e) : ClsInv (removeClass s e) :=
  fun w hw => h w (rmClassL_subset s hw)

/-! the style and dict writers do not touch `cls` -/

theorem ensureStyle_cls (e : El) : (ensureStyle e).cls = e.cls := by
  unfold ensureStyle; split <;> rfl

theorem assignStyle_cls (v : Option Str) (e : El) : (assignStyle v e).cls = e.cls := by
  unfold assignStyle; rw [ensureStyle_cls]

theorem styleDotSet_cls (n : Str) (v : Option Str) (e : El) : (styleDotSet n v e).cls = e.cls := by
  unfold styleDotSet; simp only; rw [ensureStyle_cls]

theorem setProperty_cls (n : Str) (v : Option Str) (e : El) : (setProperty n v e).cls = e.cls := by
  unfold setProperty; rw [ensureStyle_cls]

theorem setStyles_cls : ∀ (l : List (Str × Option Str)) (e : El), (setStyles l e).cls = e.cls
  | [], _ => rfl
  | p :: l, e => by
    unfold setStyles
    simp only [List.foldl_cons]
    have := setStyles_cls l (setStyle p.1 p.2 e)
    unfold setStyles at this
    rw [this]
    exact styleDotSet_cls _ _ _

theorem handleClassAttr_cls (e : El) : (handleClassAttr e).cls = e.cls := rfl

theorem clsInv_mapSet (T : Tables) (k : Str) (v : Option Str) {e : El} (h : ClsInv e) : ClsInv (mapSet T k v e).2 := by
  unfold mapSet
  simp only
  split
  · exact h
  · split
    · exact clsInv_of_eq (assignStyle_cls _ _) h
    · split
      · exact clsInv_setClassName v e
      · exact h

theorem clsInv_mapDel (k : Str) {e : El} (h : ClsInv e) : ClsInv (mapDel k e) := by
  unfold mapDel
  simp only
  split
  · exact clsInv_of_eq (assignStyle_cls _ _) h
  · split
    · exact clsInv_setClassName _ e
    · exact h

theorem clsInv_setAttribute (T : Tables) (n : Str) (v : Option Str) {e : El} (h : ClsInv e) :
    ClsInv (setAttribute T n v e).2 := by
  unfold setAttribute
  split
  · exact h
  · exact clsInv_mapSet T n v h

theorem clsInv_setAttributes (T : Tables) : ∀ (l : List (Str × Option Str)) {e : El}, ClsInv e →
    ClsInv (setAttributes T l e).2
  | [], _, h => h
  | (n, v) :: r, e, h => by
    unfold setAttributes
    have h1 := clsInv_setAttribute T n v h
    split
    · next e' heq => rw [heq] at h1; exact clsInv_setAttributes T r h1
    · next o e' _ heq => rw [heq] at h1; exact h1

/-- a reader either leaves the state alone or runs `_handleClassAttr` -/
theorem mapGet_snd (T : Tables) (k : Str) (d : PyVal) (e : El) :
    (mapGet T k d e).2 = e ∨ (mapGet T k d e).2 = handleClassAttr e := by
  unfold mapGet
  simp only
  split
  · exact Or.inl rfl
  · split
    · exact Or.inl rfl
    · right
      split <;> rfl

theorem getAttribute_snd (T : Tables) (k : Str) (d : PyVal) (e : El) :
    (getAttribute T k d e).2 = e ∨ (getAttribute T k d e).2 = handleClassAttr e := by
  unfold getAttribute
  split
  · split
    · exact Or.inl rfl
    · exact Or.inl rfl
  · exact mapGet_snd T k d e

theorem getAttribute_cls (T : Tables) (k : Str) (d : PyVal) (e : El) : (getAttribute T k d e).2.cls = e.cls := by
  rcases getAttribute_snd T k d e with h | h <;> rw [h]
  rfl

theorem clsInv_dotSet (T : Tables) (n : Str) (v : DotVal) {e : El} (h : ClsInv e) : ClsInv (dotSet T n v e).2 := by
  unfold dotSet
  split
  · exact clsInv_setClassName _ e
  · split
    · exact h
    · next L _ =>
      split
      · exact h
      · split
        · have h1 := clsInv_setAttribute T L.attr (some v.boolString) h
          split
          · next e' heq => rw [heq] at h1; exact clsInv_of_eq (getAttribute_cls _ _ _ _) h1
          · next r hne => exact h1
        · split
          · split
            · exact clsInv_setAttribute _ _ _ h
            · exact clsInv_mapDel _ h
          · exact clsInv_setAttribute _ _ _ h

theorem clsInv_step (T : Tables) (op : Op) {e : El} (h : ClsInv e) : ClsInv (step T e op).2 := by
  cases op <;> dsimp only [step]
  case setAttr n v => exact clsInv_setAttribute T n v h
  case setAttrs l => exact clsInv_setAttributes T l h
  case rmAttr n => exact clsInv_mapDel _ h
  case mapSet n v => exact clsInv_mapSet T n v h
  case mapDel n => exact clsInv_mapDel n h
  case dot n v => exact clsInv_dotSet T n v h
  case addClass s => exact clsInv_addClass s h
  case rmClass s => exact clsInv_removeClass s h
  case className v => exact clsInv_setClassName v e
  case styDot n v => exact clsInv_of_eq (styleDotSet_cls n v e) h
  case styProp n v => exact clsInv_of_eq (setProperty_cls n v e) h
  case setStyle n v => exact clsInv_of_eq (styleDotSet_cls n v e) h
  case setStyles l => exact clsInv_of_eq (setStyles_cls l e) h
  case styAssign v => exact clsInv_of_eq (assignStyle_cls v e) h
  case styCopy src => exact clsInv_of_eq (assignStyle_cls _ e) h
  case stySelf => exact clsInv_of_eq (ensureStyle_cls e) h
  case sync => exact h

theorem clsInv_run (T : Tables) : ∀ (ops : List Op) {e : El}, ClsInv e → ClsInv (run T e ops)
  | [], _, h => h
  | op :: ops, e, h => by
    unfold run
    simp only [List.foldl_cons]
    exact clsInv_run T ops (clsInv_step T op h)

theorem clsInv_empty (tag : Str) (sc : Bool) : ClsInv (El.empty tag sc) := by
  intro w hw; simp [El.empty] at hw

theorem clsInv_initStep (T : Tables) (p : Str × Option Str) {e : El} (h : ClsInv e) : ClsInv (initStep T e p) := by
  unfold initStep
  simp only
  split
  · exact clsInv_mapSet _ _ _ h
  · exact h

theorem clsInv_foldl_initStep (T : Tables) : ∀ (l : List (Str × Option Str)) {e : El}, ClsInv e →
    ClsInv (l.foldl (initStep T) e)
  | [], _, h => h
  | p :: l, e, h => by
    simp only [List.foldl_cons]
    exact clsInv_foldl_initStep T l (clsInv_initStep T p h)

theorem clsInv_mk (T : Tables) (tag : Str) (sc : Bool) (attrs : List (Str × Option Str)) : ClsInv (mk T tag sc attrs) :=
  clsInv_foldl_initStep T attrs (clsInv_empty tag sc)

end AHP.Attrs
