/-
  AHP.Lemmas.DomHtml — serialisation lemmas: `innerL`/`textContentL` are concatenations; a
  self-closing element without content has empty inner HTML; serialisation only looks at `abs`.
-/
import AHP.Lemmas.DomFrame
namespace AHP.Dom
open AHP.Dom.Spec

theorem innerL_eq_flatten (bs : List DN) : innerL bs = (bs.map outerHTML).flatten := by
  induction bs with
  | nil => simp [innerL]
  | cons b bs ih => simp [innerL, ih]

theorem noContent_innerL (bs : List DN) (h : noContent bs) : innerL bs = [] := by
  induction bs with
  | nil => simp [innerL]
  | cons b bs ih =>
    cases b with
    | el m k => simp [noContent] at h
    | text s =>
      simp only [noContent, elemIds_text, textOf_text, List.append_eq_nil_iff] at h
      simp only [innerL, outerHTML, h.2.1, List.nil_append]
      exact ih ⟨h.1, h.2.2⟩


theorem textContentL_eq_flatten (bs : List DN) : textContentL bs = (bs.map textContent).flatten := by
  induction bs with
  | nil => simp [textContentL]
  | cons b bs ih => simp [textContentL, ih]


mutual
/-- The serialisation of a document is a function of its blocks alone: it equals the serialisation of
    the reference document (no cached field takes part). -/
theorem outerHTML_abs (n : DN) : outerHTML n = shtml (abs n) := by
  match n with
  | .text s => simp [outerHTML, shtml]
  | .el m bs =>
    simp only [outerHTML, abs_el, shtml, innerL_abs bs]
    rfl
theorem innerL_abs (bs : List DN) : innerL bs = shtmlL (absL bs) := by
  match bs with
  | [] => simp [innerL, shtmlL]
  | b :: bs => simp [innerL, shtmlL, outerHTML_abs b, innerL_abs bs]
end

mutual
theorem textContent_abs (n : DN) : textContent n = stext (abs n) := by
  match n with
  | .text s => simp [textContent, stext]
  | .el m bs => simp [textContent, stext, textContentL_abs bs]
theorem textContentL_abs (bs : List DN) : textContentL bs = stextL (absL bs) := by
  match bs with
  | [] => simp [textContentL, stextL]
  | b :: bs => simp [textContentL, stextL, textContent_abs b, textContentL_abs bs]
end


theorem shtmlL_append (a b : List SN) : shtmlL (a ++ b) = shtmlL a ++ shtmlL b := by
  induction a with
  | nil => simp [shtmlL]
  | cons x xs ih => simp [shtmlL, ih]

end AHP.Dom
