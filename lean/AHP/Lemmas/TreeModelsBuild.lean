/-
  TreeModels, part 3 — the two models of the plain parser's `handle_*` callbacks build the same tree.

  `AHP.step`/`run`/`feedTokens` (Model/Builder.lean, C01–C03, C13) and `Fmt.Plain.step`/`run`/`feed`
  (Model/Format.lean, C11/C12) are simulated step by step: the formatter model's state, with the ghost `verb`
  flag of its text blocks erased, is the image (`toFmt`, `frameF`) of the builder model's state.
-/
import AHP.Lemmas.TreeModels
import AHP.Lemmas.Builder
namespace AHP.TM
open AHP AHP.AttrStores

/-! ### tokens, erasure of the ghost flag, images of frames and states -/

def tokF : Token → Fmt.Tok
  | .decl s => .decl s
  | .unknownDecl s => .unknownDecl s
  | .comment s => .comment s
  | .pi s => .pi s
  | .start n a => .start n a
  | .startend n a => .startend n a
  | .end_ n => .end_ n
  | .data s => .data s
  | .entity s => .entity s
  | .charref s => .charref s

mutual
/-- forget which callback wrote a text block (no function of the formatter model reads the flag) -/
def eraseN : Fmt.Node → Fmt.Node
  | .text _ s => .text false s
  | .elem k n st sc ind ks => .elem k n st sc ind (eraseL ks)
def eraseL : List Fmt.Node → List Fmt.Node
  | [] => []
  | k :: ks => eraseN k :: eraseL ks
end

@[simp] theorem eraseL_nil : eraseL [] = [] := by simp [eraseL]
@[simp] theorem eraseL_cons (k : Fmt.Node) (ks : List Fmt.Node) : eraseL (k :: ks) = eraseN k :: eraseL ks := by
  simp [eraseL]
@[simp] theorem eraseN_text (v s) : eraseN (.text v s) = .text false s := by simp [eraseN]
@[simp] theorem eraseN_elem (k n st sc ind ks) : eraseN (.elem k n st sc ind ks) = .elem k n st sc ind (eraseL ks) := by
  simp [eraseN]

theorem eraseL_eq_map (ks : List Fmt.Node) : eraseL ks = ks.map eraseN := by
  induction ks with
  | nil => simp
  | cons k ks ih => simp [ih]

theorem eraseL_reverse (ks : List Fmt.Node) : eraseL ks.reverse = (eraseL ks).reverse := by
  simp [eraseL_eq_map]

mutual
theorem eraseN_toFmt : ∀ t : Node, eraseN (toFmt t) = toFmt t
  | .text s => by simp
  | .elem n a sc ks => by simp [eraseL_toFmtL ks]
theorem eraseL_toFmtL : ∀ ks : List Node, eraseL (toFmtL ks) = toFmtL ks
  | [] => by simp
  | k :: ks => by simp [eraseN_toFmt k, eraseL_toFmtL ks]
end

mutual
/-- serialisation does not read the flag -/
theorem outer_erase : ∀ n : Fmt.Node, Fmt.outer (eraseN n) = Fmt.outer n
  | .text _ s => by simp [Fmt.outer]
  | .elem k n st sc ind ks => by
    have hl : Fmt.lastTextEndsWith ind (eraseL ks) = Fmt.lastTextEndsWith ind ks := by
      unfold Fmt.lastTextEndsWith
      rw [eraseL_eq_map, List.getLast?_map]
      cases ks.getLast? with
      | none => rfl
      | some x => cases x <;> simp
    simp only [eraseN_elem, Fmt.outer, innerL_erase ks, Fmt.endTag, hl]
theorem innerL_erase : ∀ ks : List Fmt.Node, Fmt.innerL (eraseL ks) = Fmt.innerL ks
  | [] => by simp
  | k :: ks => by simp [Fmt.innerL, outer_erase k, innerL_erase ks]
end

def eraseFrame (f : Fmt.Frame) : Fmt.Frame := { f with rev := eraseL f.rev }

/-- an open element of the builder model as the formatter model's plain parser has it -/
def frameF (f : Frame) : Fmt.Frame := ⟨.normal, f.name, toF f.attrs, [], toFmtL f.rev⟩

/-- The simulation relation: the formatter-model state, ghost flags erased, is the image of the builder-model
    state (tree part `t`, doctype `dt`); the indentation counters are never touched by the plain parser. -/
structure Sim (s : Fmt.St) (t : TState) (dt : Option Str) : Prop where
  stack : s.stack.map eraseFrame = t.stack.map frameF
  closed : s.closed.map eraseN = t.root.map toFmt
  doctype : s.doctype = dt
  level : s.level = 0
  inPre : s.inPre = 0

theorem sim_init : Sim {} TState.init none := ⟨rfl, rfl, rfl, rfl, rfl⟩

theorem eraseN_close {f' : Fmt.Frame} {f : Frame} (h : eraseFrame f' = frameF f) :
    eraseN (Fmt.Frame.close f') = toFmt (Frame.close f) := by
  obtain ⟨k, n, st, ind, rev⟩ := f'
  simp only [eraseFrame, frameF, Fmt.Frame.mk.injEq] at h
  obtain ⟨rfl, rfl, rfl, rfl, h5⟩ := h
  simp only [Fmt.Frame.close, Frame.close, eraseN_elem, toFmt_elem, eraseL_reverse, toFmtL_reverse, h5]

theorem names_of_stack {fs' : List Fmt.Frame} {fs : List Frame} (h : fs'.map eraseFrame = fs.map frameF) :
    fs'.map (·.name) = fs.map (·.name) := by
  have := congrArg (List.map (·.name)) h
  simpa [List.map_map, Function.comp_def, eraseFrame, frameF] using this

/-! ### `attach` / `addNode`, `pop` / `pop1` -/

theorem sim_attach {s : Fmt.St} {t : TState} {dt : Option Str} (h : Sim s t dt) {n' : Fmt.Node} {c : Node}
    (hn : eraseN n' = toFmt c) :
    Sim { s with stack := (Fmt.attach n' s.stack s.closed).1, closed := (Fmt.attach n' s.stack s.closed).2 }
      (addNode t c) dt := by
  obtain ⟨hs, hc, hd, hl, hp⟩ := h
  cases hs' : s.stack with
  | nil =>
    cases ht : t.stack with
    | nil =>
      refine ⟨?_, ?_, hd, hl, hp⟩
      · simp [Fmt.attach, addNode, ht]
      · simp [Fmt.attach, addNode, ht, hn]
    | cons g gs => rw [hs', ht] at hs; simp at hs
  | cons f' fs' =>
    cases ht : t.stack with
    | nil => rw [hs', ht] at hs; simp at hs
    | cons g gs =>
      rw [hs', ht] at hs
      simp only [List.map_cons, List.cons.injEq] at hs
      refine ⟨?_, ?_, hd, hl, hp⟩
      · simp only [Fmt.attach, addNode, ht, List.map_cons, List.cons.injEq]
        refine ⟨?_, hs.2⟩
        have h1 := hs.1
        simp only [eraseFrame, frameF, Fmt.Frame.mk.injEq] at h1 ⊢
        obtain ⟨a1, a2, a3, a4, a5⟩ := h1
        exact ⟨a1, a2, a3, a4, by simp [hn, a5]⟩
      · simpa [Fmt.attach, addNode, ht] using hc

/-- what both models do when they push an open element -/
theorem sim_push {s : Fmt.St} {t : TState} {dt : Option Str} (h : Sim s t dt) (n : Str) (a : AttrState) :
    Sim { s with stack := ⟨.normal, n, toF a, [], []⟩ :: s.stack } { t with stack := ⟨n, a, []⟩ :: t.stack } dt := by
  obtain ⟨hs, hc, hd, hl, hp⟩ := h
  refine ⟨?_, hc, hd, hl, hp⟩
  simp [hs, eraseFrame, frameF]

theorem pop_eq (s : Fmt.St) : Fmt.Plain.pop s =
    match s.stack with
    | [] => s
    | f :: fs => { s with stack := (Fmt.attach f.close fs s.closed).1, closed := (Fmt.attach f.close fs s.closed).2 } := by
  unfold Fmt.Plain.pop; cases s.stack <;> rfl

theorem sim_pop {s : Fmt.St} {t : TState} {dt : Option Str} (h : Sim s t dt) : Sim (Fmt.Plain.pop s) (pop1 t) dt := by
  have hs := h.stack
  rw [pop_eq]
  unfold pop1
  cases hs' : s.stack with
  | nil =>
    cases ht : t.stack with
    | nil => exact h
    | cons g gs => rw [hs', ht] at hs; simp at hs
  | cons f' fs' =>
    cases ht : t.stack with
    | nil => rw [hs', ht] at hs; simp at hs
    | cons g gs =>
      rw [hs', ht] at hs
      simp only [List.map_cons, List.cons.injEq] at hs
      have h2 : Sim { s with stack := fs' } { t with stack := gs } dt := ⟨hs.2, h.closed, h.doctype, h.level, h.inPre⟩
      exact sim_attach h2 (eraseN_close hs.1)

theorem len_of_sim {s : Fmt.St} {t : TState} {dt : Option Str} (h : Sim s t dt) : s.stack.length = t.stack.length := by
  have := congrArg List.length h.stack
  simpa using this

theorem head_name_of_sim {s : Fmt.St} {t : TState} {dt : Option Str} (h : Sim s t dt) {f' : Fmt.Frame} {fs'}
    {g : Frame} {gs} (hs : s.stack = f' :: fs') (ht : t.stack = g :: gs) : f'.name = g.name := by
  have := names_of_stack h.stack
  rw [hs, ht] at this
  simp only [List.map_cons, List.cons.injEq] at this
  exact this.1

/-! ### `handle_endtag` -/

theorem len_pop1 (t : TState) : (pop1 t).stack.length = t.stack.length - 1 := by
  unfold pop1
  cases ht : t.stack with
  | nil => simp [ht]
  | cons g gs => rw [len_addNode]; simp

theorem names_pop1 (t : TState) : names (pop1 t) = (names t).tail := by
  unfold pop1
  cases ht : t.stack with
  | nil => simp [names, ht]
  | cons g gs => rw [names_addNode]; simp [names, ht]

/-- the pop loop followed by the final pop (formatter model) is the fused loop of the builder model, as long as
    the name is among the first `k` open elements -/
theorem sim_popTo (n : Str) : ∀ (k : Nat) {s : Fmt.St} {t : TState} {dt : Option Str}, Sim s t dt →
    n ∈ (names t).take k → Sim (Fmt.Plain.pop (Fmt.Plain.endLoop n k s)) (popTo n k t) dt
  | 0, _, _, _, _, hn => by simp at hn
  | k + 1, s, t, dt, h, hn => by
    have hs := h.stack
    cases hs' : s.stack with
    | nil =>
      cases ht : t.stack with
      | nil => simp [names, ht] at hn
      | cons g gs => rw [hs', ht] at hs; simp at hs
    | cons f' fs' =>
      cases ht : t.stack with
      | nil => rw [hs', ht] at hs; simp at hs
      | cons g gs =>
        have hname := head_name_of_sim h hs' ht
        simp only [Fmt.Plain.endLoop, popTo, hs', ht, hname]
        by_cases hg : g.name = n
        · simp only [hg, ne_eq, not_true_eq_false, if_false, if_true]
          exact sim_pop h
        · simp only [hg, ne_eq, not_false_eq_true, if_true, if_false]
          apply sim_popTo n k (sim_pop h)
          rw [names_pop1]
          simp only [names, ht, List.map_cons, List.take_succ_cons, List.mem_cons, List.tail_cons] at hn ⊢
          rcases hn with hn | hn
          · exact absurd hn.symm hg
          · exact hn

theorem any_name {α : Type} (g : α → Str) (n : Str) :
    ∀ l : List α, l.any (fun f => decide (g f = n)) = (l.map g).contains n
  | [] => rfl
  | x :: xs => by
    simp only [List.any_cons, List.map_cons, List.contains_cons, any_name g n xs]
    congr 1
    by_cases h : g x = n
    · simp [h]
    · have h' : ¬ n = g x := fun e => h e.symm
      simp [h, h']

theorem sim_handleEnd {s : Fmt.St} {t : TState} {dt : Option Str} (h : Sim s t dt) (n : Str) :
    Sim (Fmt.Plain.handleEnd s n) (handleEnd t n) dt := by
  have hnames := names_of_stack h.stack
  have hany : s.stack.any (fun f => f.name = n) = (t.stack.map (·.name)).contains n := by
    rw [← hnames]; exact any_name (·.name) n s.stack
  unfold Fmt.Plain.handleEnd handleEnd
  rw [hany]
  by_cases hc : (t.stack.map (·.name)).contains n = true
  · simp only [hc, Bool.not_true, Bool.false_eq_true, if_false, if_true]
    rw [len_of_sim h]
    apply sim_popTo n _ h
    rw [List.take_of_length_le (by simp [names])]
    simpa [names] using hc
  · simp only [hc, Bool.not_false, if_true]
    exact h

/-! ### text-like callbacks -/

theorem sim_appendText {s : Fmt.St} {t : TState} {dt : Option Str} (h : Sim s t dt) (hne : t.stack ≠ [])
    (verb : Bool) (x : Str) : Sim (Fmt.appendText s verb x) (addNode t (.text x)) dt := by
  have hs := h.stack
  cases ht : t.stack with
  | nil => exact absurd ht hne
  | cons g gs =>
    cases hs' : s.stack with
    | nil => rw [hs', ht] at hs; simp at hs
    | cons f' fs' =>
      have := sim_attach h (n' := .text verb x) (c := .text x) (by simp)
      simpa [Fmt.appendText, Fmt.attach, hs'] using this

theorem stack_empty_iff {s : Fmt.St} {t : TState} {dt : Option Str} (h : Sim s t dt) :
    s.stack.isEmpty = t.stack.isEmpty := by
  have := len_of_sim h
  cases hs : s.stack <;> cases ht : t.stack <;> simp [hs, ht] at this ⊢

/-! ### one callback -/

/-- the two "is this data blank" tests are one: `not data.strip()` on both sides (`pyStrip = strip`, AttrStores; before
    `isWs` became all of `str.isspace()` this was a side condition on the tokens, `TokDom`) -/
theorem isBlank_eq_pyStrip (d : Str) : isBlank d = (Fmt.pyStrip d).isEmpty := by
  rw [pyStrip_eq]; rfl

/-- the related outcomes of one callback / of a run -/
def SimOut (dt : Option Str) : Outcome TState → Except Fmt.Err Fmt.St → Prop
  | .ok t, .ok s => Sim s t dt
  | .multipleRoot, .error .multipleRoot => True
  | _, _ => False

theorem fmt_isVoid (n : Str) : Fmt.isVoid n = AHP.isVoid n := rfl

theorem noRoot_of_sim {s : Fmt.St} {t : TState} {dt : Option Str} (h : Sim s t dt) : s.noRoot = !t.hasRoot := by
  unfold Fmt.St.noRoot TState.hasRoot
  rw [stack_empty_iff h]
  have : s.closed.isNone = t.root.isNone := by
    have := congrArg Option.isNone h.closed
    simpa using this
  rw [this]
  cases t.stack.isEmpty <;> cases t.root <;> rfl

theorem mkStore_intake (l : List Attr) : Fmt.mkStore l {} = toF (intake l AttrState.empty) := by
  rw [empty_toF]; exact mkStore_toF l inv_empty

theorem sim_handleStart {s : Fmt.St} {t : TState} {dt : Option Str} (h : Sim s t dt) (n : Str) (a : List Attr)
    (sc : Bool) : SimOut dt (handleStart t n a sc) (Fmt.Plain.handleStart s n a sc) := by
  unfold handleStart Fmt.Plain.handleStart
  simp only [mkStore_intake a, noRoot_of_sim h, stack_empty_iff h, fmt_isVoid, Bool.not_not]
  by_cases hg : (!t.hasRoot || !t.stack.isEmpty) = true
  · have hg' : (t.hasRoot && t.stack.isEmpty) = false := by
      cases h1 : t.hasRoot <;> cases h2 : t.stack.isEmpty <;> simp [h1, h2] at hg ⊢
    simp only [hg, hg', if_true, Bool.false_eq_true, if_false]
    by_cases hsc : (sc || AHP.isVoid (lower n)) = true
    · simp only [hsc, if_true]
      exact sim_attach h (by simp)
    · simp only [hsc, Bool.false_eq_true, if_false]
      exact sim_push h _ _
  · have hg' : (t.hasRoot && t.stack.isEmpty) = true := by
      cases h1 : t.hasRoot <;> cases h2 : t.stack.isEmpty <;> simp [h1, h2] at hg ⊢
    simp only [hg, hg', Bool.false_eq_true, if_false, if_true]
    trivial

theorem sim_verbatim {s : Fmt.St} {t : TState} {dt : Option Str} (h : Sim s t dt) (x : Str) :
    SimOut dt (addTextStrict t x) (Fmt.handleVerbatim s x) := by
  unfold addTextStrict Fmt.handleVerbatim
  rw [stack_empty_iff h]
  by_cases he : t.stack.isEmpty = true
  · simp only [he, if_true]; trivial
  · simp only [he, Bool.false_eq_true, if_false]
    exact sim_appendText h (by intro h0; simp [h0] at he) true x

theorem sim_data {s : Fmt.St} {t : TState} {dt : Option Str} (h : Sim s t dt) (d : Str) :
    SimOut dt (stepT t (.data d)) (Fmt.Plain.handleData s d) := by
  have hd := isBlank_eq_pyStrip d
  unfold Fmt.Plain.handleData
  simp only [stepT]
  by_cases he : d.isEmpty = true
  · simp only [he, if_true]; exact h
  · simp only [he, Bool.false_eq_true, if_false]
    have hs := h.stack
    cases ht : t.stack with
    | nil =>
      cases hs' : s.stack with
      | cons f' fs' => rw [hs', ht] at hs; simp at hs
      | nil =>
        simp only [List.isEmpty_nil, Bool.not_true, Bool.false_eq_true, if_false, hd]
        by_cases hb : (Fmt.pyStrip d).isEmpty = true
        · simp only [hb, if_true]; exact h
        · simp only [hb, Bool.false_eq_true, if_false]; trivial
    | cons g gs =>
      cases hs' : s.stack with
      | nil => rw [hs', ht] at hs; simp at hs
      | cons f' fs' =>
        simp only [List.isEmpty_cons, Bool.not_false, if_true]
        have := sim_appendText h (by simp [ht]) false d
        simpa [SimOut] using this

theorem truthy_eq (dt : Option Str) (d : Str) :
    (if Fmt.truthy dt then dt else some d) = stepD dt (.unknownDecl d) := by
  cases dt with
  | none => rfl
  | some d0 => cases d0 <;> rfl

/-- **one callback**: related states go to related outcomes -/
theorem sim_step {s : Fmt.St} {t : TState} {dt : Option Str} (h : Sim s t dt) (tok : Token) :
    SimOut (stepD dt tok) (stepT t tok) (Fmt.Plain.step s (tokF tok)) := by
  have keep : ∀ {dt'}, dt' = dt → Sim s t dt' := fun e => e ▸ h
  cases tok with
  | start n a => exact sim_handleStart h n a false
  | startend n a => exact sim_handleStart h n a true
  | end_ n => exact sim_handleEnd h n
  | data d => exact sim_data h d
  | entity e => exact sim_verbatim h _
  | charref c => exact sim_verbatim h _
  | comment c => exact sim_verbatim h _
  | decl d => exact ⟨h.stack, h.closed, rfl, h.level, h.inPre⟩
  | unknownDecl d =>
    simp only [tokF, Fmt.Plain.step, stepT, SimOut]
    by_cases ht : Fmt.truthy s.doctype = true
    · simp only [ht, if_true]
      refine ⟨h.stack, h.closed, ?_, h.level, h.inPre⟩
      rw [← truthy_eq, ← h.doctype, ht, if_pos rfl]
    · simp only [ht, Bool.false_eq_true, if_false]
      refine ⟨h.stack, h.closed, ?_, h.level, h.inPre⟩
      rw [← truthy_eq, ← h.doctype]
      simp [ht]
  | pi p => exact keep rfl

/-! ### a pass -/

/-- the builder model's pass, tree part and doctype folded separately -/
theorem run_unfold (b : BState) (tok : Token) (ts : List Token) :
    run b (tok :: ts) = match stepT b.tree tok with
      | .ok t' => run ⟨t', stepD b.doctype tok⟩ ts
      | .multipleRoot => .multipleRoot
      | .invalidClose => .invalidClose
      | .missedClose => .missedClose
      | .invalidAttr => .invalidAttr := by
  simp only [run, step]
  cases stepT b.tree tok <;> rfl

def SimRun : Outcome BState → Except Fmt.Err Fmt.St → Prop
  | .ok b, .ok s => Sim s b.tree b.doctype
  | .multipleRoot, .error .multipleRoot => True
  | _, _ => False

/-- **a whole pass**, from any related pair of states -/
theorem sim_run : ∀ (ts : List Token) {s : Fmt.St} {b : BState}, Sim s b.tree b.doctype →
    SimRun (run b ts) (Fmt.Plain.run (ts.map tokF) s)
  | [], _, _, h => h
  | tok :: ts, s, b, h => by
    have h1 := sim_step h tok
    rw [run_unfold]
    simp only [List.map_cons, Fmt.Plain.run]
    cases ho : stepT b.tree tok with
    | ok t' =>
      cases hr : Fmt.Plain.step s (tokF tok) with
      | ok s' =>
        rw [ho, hr] at h1
        exact sim_run ts (b := ⟨t', stepD b.doctype tok⟩) h1
      | error e => rw [ho, hr] at h1; exact h1.elim
    | multipleRoot =>
      cases hr : Fmt.Plain.step s (tokF tok) with
      | ok s' => rw [ho, hr] at h1; exact h1.elim
      | error e =>
        rw [ho, hr] at h1
        cases e with
        | multipleRoot => trivial
        | noRoot => exact h1.elim
    | invalidClose => rw [ho] at h1; cases hr : Fmt.Plain.step s (tokF tok) <;> rw [hr] at h1 <;> exact h1.elim
    | missedClose => rw [ho] at h1; cases hr : Fmt.Plain.step s (tokF tok) <;> rw [hr] at h1 <;> exact h1.elim
    | invalidAttr => rw [ho] at h1; cases hr : Fmt.Plain.step s (tokF tok) <;> rw [hr] at h1 <;> exact h1.elim

/-! ### end of input: the root each model reports -/

theorem eraseN_zipUp : ∀ (fs' : List Fmt.Frame) (fs : List Frame) (n' : Fmt.Node) (c : Node),
    fs'.map eraseFrame = fs.map frameF → eraseN n' = toFmt c →
    ∃ r, (closeAll fs.length (addNode ⟨fs, none⟩ c)).root = some r ∧ eraseN (Fmt.zipUp n' fs') = toFmt r
  | [], [], n', c, _, hn => ⟨c, by simp [closeAll, addNode], by simpa [Fmt.zipUp] using hn⟩
  | [], g :: gs, _, _, h, _ => by simp at h
  | f' :: fs', [], _, _, h, _ => by simp at h
  | f' :: fs', g :: gs, n', c, h, hn => by
    simp only [List.map_cons, List.cons.injEq] at h
    have hf : eraseFrame { f' with rev := n' :: f'.rev } = frameF { g with rev := c :: g.rev } := by
      have h1 := h.1
      simp only [eraseFrame, frameF, Fmt.Frame.mk.injEq] at h1 ⊢
      obtain ⟨a1, a2, a3, a4, a5⟩ := h1
      exact ⟨a1, a2, a3, a4, by simp [hn, a5]⟩
    obtain ⟨r, hr1, hr2⟩ := eraseN_zipUp fs' gs _ _ h.2 (eraseN_close hf)
    refine ⟨r, ?_, by simpa [Fmt.zipUp] using hr2⟩
    simp only [List.length_cons, closeAll, addNode, pop1]
    simpa [addNode] using hr1

theorem closeAll_root_irrel : ∀ (k : Nat) (fs : List Frame) (r : Option Node), fs ≠ [] → fs.length ≤ k →
    (closeAll k ⟨fs, r⟩).root = (closeAll k ⟨fs, none⟩).root
  | 0, fs, _, hne, hl => by
    cases fs with
    | nil => exact absurd rfl hne
    | cons g gs => simp at hl
  | k + 1, [], _, hne, _ => absurd rfl hne
  | k + 1, [g], r, _, _ => by
    simp only [closeAll, pop1, addNode]
  | k + 1, g :: g2 :: gs, r, _, hl => by
    simp only [closeAll, pop1, addNode]
    exact closeAll_root_irrel k _ r (by simp) (by simp at hl ⊢; omega)

/-- `finish` (everything still open is closed) reports the root the formatter model's `St.root` zips up -/
theorem sim_root {s : Fmt.St} {t : TState} {dt : Option Str} (h : Sim s t dt) :
    s.root.map eraseN = (finish t).root.map toFmt := by
  have hs := h.stack
  unfold Fmt.St.root finish
  cases hs' : s.stack with
  | nil =>
    cases ht : t.stack with
    | cons g gs => rw [hs', ht] at hs; simp at hs
    | nil =>
      have : closeAll 0 t = t := rfl
      simp only [Fmt.rootOfStack, List.length_nil, this]
      exact h.closed
  | cons f' fs' =>
    cases ht : t.stack with
    | nil => rw [hs', ht] at hs; simp at hs
    | cons g gs =>
      rw [hs', ht] at hs
      simp only [List.map_cons, List.cons.injEq] at hs
      obtain ⟨r, hr1, hr2⟩ := eraseN_zipUp fs' gs f'.close g.close hs.2 (eraseN_close hs.1)
      simp only [Fmt.rootOfStack, Option.map_some, hr2, List.length_cons]
      have e : closeAll (gs.length + 1) t = closeAll gs.length (addNode ⟨gs, t.root⟩ g.close) := by
        simp only [closeAll, ht, pop1]
      rw [e]
      cases gs with
      | nil =>
        simp only [addNode, closeAll, List.length_nil, Option.map_some] at hr1 ⊢
        simp only [Option.some.injEq] at hr1
        rw [hr1]
      | cons g2 gs2 =>
        simp only [addNode] at hr1 ⊢
        rw [closeAll_root_irrel _ _ t.root (by simp) (by simp), hr1]
        rfl

/-! ### the second pass: where the wrapper start tag goes -/

theorem dropWhile_isEmpty {α : Type} (p : α → Bool) : ∀ l : List α, (l.dropWhile p).isEmpty = l.all p
  | [] => rfl
  | x :: xs => by
    simp only [List.dropWhile, List.all_cons]
    cases hp : p x with
    | true => simpa using dropWhile_isEmpty p xs
    | false => simp

theorem wsNL_eq (s : Str) : wsNL s = Fmt.doctypeLead s := by
  unfold wsNL Fmt.doctypeLead
  exact dropWhile_isEmpty _ _

/-- Where the two token-level renderings of `utils.addStartTag` could disagree: a leading declaration that is
    not a doctype.  The tokenizer calls `handle_decl` for `<!doctype …>` only. -/
def LeadDeclOK : List Token → Prop
  | .decl d :: _ => Fmt.isDoctype d = true
  | .data _ :: .decl d :: _ => Fmt.isDoctype d = true
  | _ => True

theorem wrapToks_eq (toks : List Token) (h : LeadDeclOK toks) :
    (wrapToks toks).map tokF = Fmt.wrapToks (toks.map tokF) := by
  unfold wrapToks
  match toks, h with
  | [], _ => simp [leadDoctype, Fmt.wrapToks, tokF, wrapperName, Fmt.wrapper]
  | .decl d :: r, h =>
    simp only [LeadDeclOK] at h
    simp [leadDoctype, Fmt.wrapToks, tokF, h, wrapperName, Fmt.wrapper]
  | .data ws :: .decl d :: r, h =>
    simp only [LeadDeclOK] at h
    simp only [leadDoctype, wsNL_eq, List.map_cons, tokF, Fmt.wrapToks, h, Bool.and_true]
    cases Fmt.doctypeLead ws <;> simp [tokF, wrapperName, Fmt.wrapper]
  | .data ws :: [], _ => simp [leadDoctype, Fmt.wrapToks, tokF, wrapperName, Fmt.wrapper]
  | .data ws :: .unknownDecl _ :: r, _ => simp [leadDoctype, Fmt.wrapToks, tokF, wrapperName, Fmt.wrapper]
  | .data ws :: .comment _ :: r, _ => simp [leadDoctype, Fmt.wrapToks, tokF, wrapperName, Fmt.wrapper]
  | .data ws :: .pi _ :: r, _ => simp [leadDoctype, Fmt.wrapToks, tokF, wrapperName, Fmt.wrapper]
  | .data ws :: .start _ _ :: r, _ => simp [leadDoctype, Fmt.wrapToks, tokF, wrapperName, Fmt.wrapper]
  | .data ws :: .startend _ _ :: r, _ => simp [leadDoctype, Fmt.wrapToks, tokF, wrapperName, Fmt.wrapper]
  | .data ws :: .end_ _ :: r, _ => simp [leadDoctype, Fmt.wrapToks, tokF, wrapperName, Fmt.wrapper]
  | .data ws :: .data _ :: r, _ => simp [leadDoctype, Fmt.wrapToks, tokF, wrapperName, Fmt.wrapper]
  | .data ws :: .entity _ :: r, _ => simp [leadDoctype, Fmt.wrapToks, tokF, wrapperName, Fmt.wrapper]
  | .data ws :: .charref _ :: r, _ => simp [leadDoctype, Fmt.wrapToks, tokF, wrapperName, Fmt.wrapper]
  | .unknownDecl _ :: r, _ => simp [leadDoctype, Fmt.wrapToks, tokF, wrapperName, Fmt.wrapper]
  | .comment _ :: r, _ => simp [leadDoctype, Fmt.wrapToks, tokF, wrapperName, Fmt.wrapper]
  | .pi _ :: r, _ => simp [leadDoctype, Fmt.wrapToks, tokF, wrapperName, Fmt.wrapper]
  | .start _ _ :: r, _ => simp [leadDoctype, Fmt.wrapToks, tokF, wrapperName, Fmt.wrapper]
  | .startend _ _ :: r, _ => simp [leadDoctype, Fmt.wrapToks, tokF, wrapperName, Fmt.wrapper]
  | .end_ _ :: r, _ => simp [leadDoctype, Fmt.wrapToks, tokF, wrapperName, Fmt.wrapper]
  | .entity _ :: r, _ => simp [leadDoctype, Fmt.wrapToks, tokF, wrapperName, Fmt.wrapper]
  | .charref _ :: r, _ => simp [leadDoctype, Fmt.wrapToks, tokF, wrapperName, Fmt.wrapper]

/-! ### `feed`: both passes -/

/-- what a state of the formatter model's plain parser shows of the document (ghost flags erased) -/
def viewF (s : Fmt.St) : Option Str × Option Fmt.Node := (s.doctype, s.root.map eraseN)

/-- the image of the builder model's document -/
def viewB (d : Doc) : Option Str × Option Fmt.Node := (d.doctype, d.root.map toFmt)

/-- the image of a `feed` result; the formatter model has one exception here, `MultipleRootNodeException` -/
def feedViewF : FeedResult → Except Fmt.Err (Option Str × Option Fmt.Node)
  | .doc d _ => .ok (viewB d)
  | .raised _ => .error .multipleRoot

theorem view_of_sim {s : Fmt.St} {b : BState} (h : Sim s b.tree b.doctype) : viewF s = viewB b.doc := by
  unfold viewF viewB BState.doc
  rw [h.doctype, sim_root h]

/-- one pass from the initial states -/
theorem sim_pass (ts : List Token) :
    SimRun (run BState.init ts) (Fmt.Plain.run (ts.map tokF) {}) :=
  sim_run ts (b := BState.init) sim_init

/-- What a token list must satisfy for the two `feed`s to be compared is `LeadDeclOK` alone: a leading declaration is a
    doctype (the tokenizer calls `handle_decl` for nothing else).  (The former `FeedDom` also asked that no token carry
    non-ASCII white space where one model stripped it and the other did not; the models now strip alike.) -/
theorem feed_agree (toks : List Token) (hd : LeadDeclOK toks) :
    (Fmt.Plain.feed (toks.map tokF)).map viewF = feedViewF (feedTokens toks) := by
  have h1 := sim_pass toks
  have h2 := sim_pass (wrapToks toks)
  rw [wrapToks_eq toks hd] at h2
  unfold Fmt.Plain.feed feedTokens
  cases ho : run BState.init toks with
  | ok b =>
    cases hr : Fmt.Plain.run (toks.map tokF) {} with
    | error e => rw [ho, hr] at h1; exact h1.elim
    | ok s =>
      rw [ho, hr] at h1
      simp only [FeedResult.ofPass, feedViewF, Except.map, view_of_sim h1]
  | multipleRoot =>
    cases hr : Fmt.Plain.run (toks.map tokF) {} with
    | ok s => rw [ho, hr] at h1; exact h1.elim
    | error e =>
      rw [ho, hr] at h1
      cases e with
      | noRoot => exact h1.elim
      | multipleRoot =>
        simp only []
        cases ho2 : run BState.init (wrapToks toks) with
        | ok b2 =>
          cases hr2 : Fmt.Plain.run (Fmt.wrapToks (toks.map tokF)) {} with
          | error e => rw [ho2, hr2] at h2; exact h2.elim
          | ok s2 =>
            rw [ho2, hr2] at h2
            simp only [FeedResult.ofPass, feedViewF, Except.map, view_of_sim h2]
        | multipleRoot =>
          cases hr2 : Fmt.Plain.run (Fmt.wrapToks (toks.map tokF)) {} with
          | ok s2 => rw [ho2, hr2] at h2; exact h2.elim
          | error e =>
            rw [ho2, hr2] at h2
            cases e with
            | noRoot => exact h2.elim
            | multipleRoot => rfl
        | invalidClose => rw [ho2] at h2; cases hr2 : Fmt.Plain.run (Fmt.wrapToks (toks.map tokF)) {} <;> rw [hr2] at h2 <;> exact h2.elim
        | missedClose => rw [ho2] at h2; cases hr2 : Fmt.Plain.run (Fmt.wrapToks (toks.map tokF)) {} <;> rw [hr2] at h2 <;> exact h2.elim
        | invalidAttr => rw [ho2] at h2; cases hr2 : Fmt.Plain.run (Fmt.wrapToks (toks.map tokF)) {} <;> rw [hr2] at h2 <;> exact h2.elim
  | invalidClose => rw [ho] at h1; cases hr : Fmt.Plain.run (toks.map tokF) {} <;> rw [hr] at h1 <;> exact h1.elim
  | missedClose => rw [ho] at h1; cases hr : Fmt.Plain.run (toks.map tokF) {} <;> rw [hr] at h1 <;> exact h1.elim
  | invalidAttr => rw [ho] at h1; cases hr : Fmt.Plain.run (toks.map tokF) {} <;> rw [hr] at h1 <;> exact h1.elim

/-- the plain parser's handlers raise nothing but `MultipleRootNodeException` (so `feedViewF` loses nothing) -/
theorem stepT_outcomes (t : TState) (tok : Token) :
    (∃ t', stepT t tok = .ok t') ∨ stepT t tok = .multipleRoot := by
  cases tok <;> simp only [stepT, handleStart, addTextStrict] <;> (repeat' split) <;> simp

theorem run_outcomes : ∀ (ts : List Token) (b : BState), (∃ b', run b ts = .ok b') ∨ run b ts = .multipleRoot
  | [], b => Or.inl ⟨b, rfl⟩
  | tok :: ts, b => by
    rw [run_unfold]
    rcases stepT_outcomes b.tree tok with ⟨t', h⟩ | h
    · rw [h]; exact run_outcomes ts _
    · rw [h]; exact Or.inr rfl

theorem feedTokens_raises (toks : List Token) (e : Exc) (h : feedTokens toks = .raised e) : e = .multipleRoot := by
  unfold feedTokens at h
  rcases run_outcomes toks BState.init with ⟨b, h1⟩ | h1
  · rw [h1] at h; simp [FeedResult.ofPass] at h
  · rw [h1] at h
    rcases run_outcomes (wrapToks toks) BState.init with ⟨b, h2⟩ | h2
    · rw [h2] at h; simp [FeedResult.ofPass] at h
    · rw [h2] at h
      simp only [FeedResult.ofPass, Outcome.exc, FeedResult.raised.injEq] at h
      exact h.symm

end AHP.TM
