/-
  AHP.Lemmas.DomOps — the local obligations (uid kept, `OK` kept, what leaves is detached, uids
  permuted) for the local effect of each mutator, and their lift to worlds.
-/
import AHP.Lemmas.Dom
namespace AHP.Dom

/-! ### list surgery -/

theorem insertAt_length {α} (a b : List α) (x : α) : insertAt a.length x (a ++ b) = a ++ x :: b := by
  simp [insertAt]

theorem take_drop_elemIds (i : Nat) (bs : List DN) :
    elemIds bs = elemIds (bs.take i) ++ elemIds (bs.drop i) := by
  rw [← elemIds_append, List.take_append_drop]

theorem take_drop_textOf (i : Nat) (bs : List DN) :
    textOf bs = textOf (bs.take i) ++ textOf (bs.drop i) := by
  rw [← textOf_append, List.take_append_drop]

theorem take_drop_idsL (i : Nat) (bs : List DN) :
    idsL bs = idsL (bs.take i) ++ idsL (bs.drop i) := by
  rw [← idsL_append, List.take_append_drop]

theorem take_drop_OKL (i : Nat) {p o} (bs : List DN) (h : OKL p o bs) :
    OKL p o (bs.take i) ∧ OKL p o (bs.drop i) := by
  rw [← OKL_append, List.take_append_drop]; exact h

theorem elemIds_single (c : DN) (h : c.isEl = true) : elemIds [c] = [c.rid] := by
  cases c with
  | text s => simp [DN.isEl] at h
  | el m k => simp [DN.rid]

theorem textOf_single_el (c : DN) (h : c.isEl = true) : textOf [c] = [] := by
  cases c with
  | text s => simp [DN.isEl] at h
  | el m k => simp

/-! ### removeFirstEl -/

theorem removeFirstEl_spec (c : Nat) (bs : List DN) {r} (h : removeFirstEl c bs = some r) :
    r.1.isEl = true ∧ r.1.rid = c ∧ elemIds r.2 = (elemIds bs).erase c ∧ textOf r.2 = textOf bs ∧
    (idsL bs).Perm (ids r.1 ++ idsL r.2) ∧ (∀ p o, OKL p o bs → OK p o r.1 ∧ OKL p o r.2) := by
  induction bs generalizing r with
  | nil => simp [removeFirstEl] at h
  | cons b bs ih =>
    cases b with
    | text s =>
      simp only [removeFirstEl, Option.map_eq_some_iff] at h
      obtain ⟨r', hr', rfl⟩ := h
      obtain ⟨h1, h2, h3, h4, h5, h6⟩ := ih hr'
      refine ⟨h1, h2, by simpa using h3, by simp [h4], by simpa using h5, ?_⟩
      intro p o hk
      simp only [OKL_cons, OK_text, true_and] at hk ⊢
      exact h6 p o hk
    | el m k =>
      simp only [removeFirstEl] at h
      split at h
      · rename_i he
        simp only [Option.some.injEq] at h
        subst h
        refine ⟨rfl, he, ?_, by simp, by simp, ?_⟩
        · simp [he]
        · intro p o hk; simpa using hk
      · rename_i hne
        simp only [Option.map_eq_some_iff] at h
        obtain ⟨r', hr', rfl⟩ := h
        obtain ⟨h1, h2, h3, h4, h5, h6⟩ := ih hr'
        refine ⟨h1, h2, ?_, by simp [h4], ?_, ?_⟩
        · simp only [elemIds_el]
          rw [List.erase_cons_tail (by simpa using hne), h3]
        · simp only [idsL_cons, ids_el]
          have : (ids r'.1 ++ (m.id :: idsL k ++ idsL r'.2)).Perm ((m.id :: idsL k) ++ (ids r'.1 ++ idsL r'.2)) := by
            rw [← List.append_assoc, ← List.append_assoc]
            exact List.Perm.append_right _ List.perm_append_comm
          exact (List.Perm.append_left _ h5).trans this.symm
        · intro p o hk
          simp only [OKL_cons] at hk ⊢
          exact ⟨(h6 p o hk.2).1, hk.1, (h6 p o hk.2).2⟩

theorem removeFirstEl_none (c : Nat) (bs : List DN) (h : removeFirstEl c bs = none) : c ∉ elemIds bs := by
  induction bs with
  | nil => simp
  | cons b bs ih =>
    cases b with
    | text s =>
      simp only [removeFirstEl, Option.map_eq_none_iff] at h
      simpa using ih h
    | el m k =>
      simp only [removeFirstEl] at h
      split at h
      · simp at h
      · rename_i hne
        simp only [Option.map_eq_none_iff] at h
        simp only [elemIds_el, List.mem_cons, not_or]
        exact ⟨fun e => hne e.symm, ih h⟩

/-! ### text replacement -/

theorem removeAll_nil (p : Str) : removeAll p [] = [] := by
  unfold removeAll; split
  · rfl
  · simp [removeAllGo]

theorem replaceFirstText_spec (s : Str) (bs : List DN) {r} (h : replaceFirstText s bs = some r) :
    elemIds r.2 = elemIds bs ∧ idsL r.2 = idsL bs ∧ (∀ p o, OKL p o bs → OKL p o r.2) ∧
    (textOf bs = [] → textOf r.2 = []) := by
  induction bs generalizing r with
  | nil => simp [replaceFirstText] at h
  | cons b bs ih =>
    cases b with
    | el m k =>
      simp only [replaceFirstText, Option.map_eq_some_iff] at h
      obtain ⟨r', hr', rfl⟩ := h
      obtain ⟨h1, h2, h3, h4⟩ := ih hr'
      refine ⟨by simp [h1], by simp [h2], ?_, by simpa using h4⟩
      intro p o hk
      simp only [OKL_cons] at hk ⊢
      exact ⟨hk.1, h3 p o hk.2⟩
    | text x =>
      simp only [replaceFirstText] at h
      split at h
      · simp only [Option.some.injEq] at h
        subst h
        refine ⟨by simp, by simp, fun p o hk => by simpa using hk, ?_⟩
        intro ht
        simp only [textOf_text, List.append_eq_nil_iff] at ht ⊢
        exact ⟨by rw [ht.1, removeAll_nil], ht.2⟩
      · simp only [Option.map_eq_some_iff] at h
        obtain ⟨r', hr', rfl⟩ := h
        obtain ⟨h1, h2, h3, h4⟩ := ih hr'
        refine ⟨by simp [h1], by simp [h2], ?_, ?_⟩
        · intro p o hk
          simp only [OKL_cons, OK_text, true_and] at hk ⊢
          exact h3 p o hk
        · intro ht
          simp only [textOf_text, List.append_eq_nil_iff] at ht ⊢
          exact ⟨ht.1, h4 ht.2⟩

theorem replaceAllText_spec (s : Str) (bs : List DN) :
    elemIds (replaceAllText s bs).2 = elemIds bs ∧ idsL (replaceAllText s bs).2 = idsL bs ∧
    (∀ p o, OKL p o bs → OKL p o (replaceAllText s bs).2) ∧
    (textOf bs = [] → textOf (replaceAllText s bs).2 = []) := by
  induction bs with
  | nil => simp [replaceAllText]
  | cons b bs ih =>
    obtain ⟨h1, h2, h3, h4⟩ := ih
    cases b with
    | el m k =>
      simp only [replaceAllText]
      refine ⟨by simp [h1], by simp [h2], ?_, by simpa using h4⟩
      intro p o hk
      simp only [OKL_cons] at hk ⊢
      exact ⟨hk.1, h3 p o hk.2⟩
    | text x =>
      simp only [replaceAllText]
      split
      · refine ⟨by simp [h1], by simp [h2], ?_, ?_⟩
        · intro p o hk
          simp only [OKL_cons, OK_text, true_and] at hk ⊢
          exact h3 p o hk
        · intro ht
          simp only [textOf_text, List.append_eq_nil_iff] at ht ⊢
          exact ⟨by rw [ht.1, removeAll_nil], h4 ht.2⟩
      · refine ⟨by simp [h1], by simp [h2], ?_, ?_⟩
        · intro p o hk
          simp only [OKL_cons, OK_text, true_and] at hk ⊢
          exact h3 p o hk
        · intro ht
          simp only [textOf_text, List.append_eq_nil_iff] at ht ⊢
          exact ⟨ht.1, h4 ht.2⟩

/-! ### what a local edit must satisfy -/

/-- The four local obligations of an edit that adds the uids `extra` to the element. -/
structure GoodEdit (m : Meta) (bs : List DN) (e : Edit) (extra : List Nat) : Prop where
  id : e.m.id = m.id
  ok : ∀ par own, OK par own (.el m bs) → OK par own (.el e.m e.blocks)
  out : ∀ par own, OK par own (.el m bs) → ∀ x ∈ e.out, Detached x
  ids : (e.m.id :: idsL e.blocks ++ idsL e.out).Perm (m.id :: idsL bs ++ extra)

theorem GoodEdit.refl (m : Meta) (bs : List DN) : GoodEdit m bs ⟨m, bs, []⟩ [] :=
  ⟨rfl, fun _ _ h => h, fun _ _ _ x hx => by simp at hx, by simp⟩

theorem good_appendText (s : Str) (m : Meta) (bs : List DN) : GoodEdit m bs (locAppendText s m bs) [] := by
  refine ⟨rfl, ?_, fun _ _ _ x hx => by simp [locAppendText] at hx, by simp [locAppendText, idsL_append]⟩
  intro par own h
  simp only [OK_el] at h
  obtain ⟨hp, ho, hc, ht, _, hk⟩ := h
  simp only [locAppendText, OK_el]
  refine ⟨hp, ho, ?_, ?_, by simp, ?_⟩
  · rw [elemIds_append]; simpa using hc
  · rw [textOf_append, ht]; simp
  · rw [OKL_append]; exact ⟨hk, by simp⟩

theorem good_appendChild (c : DN) (hc : c.isEl = true) (hok : ∃ p o, OK p o c) (m : Meta) (bs : List DN) :
    GoodEdit m bs (locAppendChild c m bs) (ids c) := by
  refine ⟨rfl, ?_, fun _ _ _ x hx => by simp [locAppendChild] at hx, ?_⟩
  · intro par own h
    simp only [OK_el] at h
    obtain ⟨hp, ho, hch, ht, _, hk⟩ := h
    obtain ⟨p, o, hco⟩ := hok
    simp only [locAppendChild, OK_el]
    refine ⟨hp, ho, ?_, ?_, by simp, ?_⟩
    · rw [elemIds_append, elemIds_single _ (by rw [isEl_attach]; exact hc), rid_attach, hch]
    · rw [textOf_append, textOf_single_el _ (by rw [isEl_attach]; exact hc), ht]; simp
    · rw [OKL_append]
      refine ⟨hk, ?_⟩
      simp only [OKL_cons, OKL_nil, and_true]
      have := attach_OK m c hco
      rw [ho] at this
      exact this
  · simp [locAppendChild, idsL_append, ids_attach]

theorem good_removeChild (c : Nat) (m : Meta) (bs : List DN) {e} (h : (locRemoveChild c m bs).1 = some e) :
    GoodEdit m bs e [] := by
  unfold locRemoveChild at h
  split at h
  · rename_i hmem
    split at h
    · rename_i r hr
      simp only [Option.some.injEq] at h
      subst h
      obtain ⟨h1, h2, h3, h4, h5, h6⟩ := removeFirstEl_spec c bs hr
      refine ⟨rfl, ?_, ?_, ?_⟩
      · intro par own hok
        simp only [OK_el] at hok ⊢
        obtain ⟨hp, ho, hch, ht, hs, hk⟩ := hok
        refine ⟨hp, ho, ?_, ?_, ?_, (h6 _ _ hk).2⟩
        · rw [h3, hch]
        · rw [h4]; exact ht
        · intro hsc
          have := hs hsc
          unfold noContent at this ⊢
          rw [h3, h4, this.1, this.2]; simp
      · intro par own hok x hx
        simp only [List.mem_singleton] at hx
        subst hx
        simp only [OK_el] at hok
        exact detach_Detached _ h1 (h6 _ _ hok.2.2.2.2.2).1
      · simp only [idsL_cons, idsL_nil, List.append_nil, ids_reown, ids_setParent]
        refine List.Perm.cons _ ?_
        exact (List.perm_append_comm).trans h5.symm
    · rename_i hr
      simp only [Option.some.injEq] at h
      subst h
      refine ⟨rfl, ?_, fun _ _ _ x hx => by simp at hx, by simp⟩
      intro par own hok
      simp only [OK_el] at hok
      exact absurd (hok.2.2.1 ▸ hmem) (removeFirstEl_none c bs hr)
  · simp at h

theorem good_removeText (s : Str) (m : Meta) (bs : List DN) : GoodEdit m bs (locRemoveText s m bs).1 [] := by
  unfold locRemoveText
  split
  · rename_i r hr
    obtain ⟨h1, h2, h3, h4⟩ := replaceFirstText_spec s bs hr
    refine ⟨rfl, ?_, fun _ _ _ x hx => by simp at hx, by simp [h2]⟩
    intro par own hok
    simp only [OK_el] at hok ⊢
    obtain ⟨hp, ho, hch, ht, hs, hk⟩ := hok
    refine ⟨hp, ho, by rw [h1]; exact hch, trivial, ?_, h3 _ _ hk⟩
    intro hsc
    have := hs hsc
    unfold noContent at this ⊢
    exact ⟨by rw [h1]; exact this.1, h4 this.2⟩
  · refine ⟨rfl, ?_, fun _ _ _ x hx => by simp at hx, by simp⟩
    intro par own hok
    simp only [OK_el] at hok ⊢
    obtain ⟨hp, ho, hch, ht, hs, hk⟩ := hok
    exact ⟨hp, ho, hch, trivial, hs, hk⟩

theorem good_removeTextAll (s : Str) (m : Meta) (bs : List DN) : GoodEdit m bs (locRemoveTextAll s m bs).1 [] := by
  unfold locRemoveTextAll
  obtain ⟨h1, h2, h3, h4⟩ := replaceAllText_spec s bs
  refine ⟨rfl, ?_, fun _ _ _ x hx => by simp at hx, by simp [h2]⟩
  intro par own hok
  simp only [OK_el] at hok ⊢
  obtain ⟨hp, ho, hch, ht, hs, hk⟩ := hok
  refine ⟨hp, ho, by rw [h1]; exact hch, trivial, ?_, h3 _ _ hk⟩
  intro hsc
  have := hs hsc
  unfold noContent at this ⊢
  exact ⟨by rw [h1]; exact this.1, h4 this.2⟩

theorem good_insertTextAt (i : Nat) (s : Str) (m : Meta) (bs : List DN) : GoodEdit m bs (locInsertTextAt i s m bs) [] := by
  refine ⟨rfl, ?_, fun _ _ _ x hx => by simp [locInsertTextAt] at hx, ?_⟩
  · intro par own hok
    simp only [OK_el] at hok
    obtain ⟨hp, ho, hch, ht, hs, hk⟩ := hok
    simp only [locInsertTextAt, OK_el, insertAt]
    refine ⟨hp, ho, ?_, trivial, by simp, ?_⟩
    · rw [elemIds_append, elemIds_text, ← elemIds_append, List.take_append_drop]; exact hch
    · rw [OKL_append, OKL_cons]
      exact ⟨(take_drop_OKL i bs hk).1, by simp, (take_drop_OKL i bs hk).2⟩
  · simp only [locInsertTextAt, insertAt, idsL_append, idsL_cons, ids_text, List.nil_append, idsL_nil, List.append_nil]
    rw [← idsL_append, List.take_append_drop]

theorem good_insertElAt (i : Nat) (c : DN) (hc : c.isEl = true) (hok : ∃ p o, OK p o c) (m : Meta) (bs : List DN) :
    GoodEdit m bs (locInsertElAt i c m bs) (ids c) := by
  refine ⟨rfl, ?_, fun _ _ _ x hx => by simp [locInsertElAt] at hx, ?_⟩
  · intro par own h
    simp only [OK_el] at h
    obtain ⟨hp, ho, hch, ht, hs, hk⟩ := h
    obtain ⟨p, o, hco⟩ := hok
    simp only [locInsertElAt, OK_el]
    refine ⟨hp, ho, ?_, ?_, by simp, ?_⟩
    · have e1 : elemIds (insertAt i (attach m c) bs) = elemIds (bs.take i) ++ c.rid :: elemIds (bs.drop i) := by
        unfold insertAt
        rw [elemIds_append]
        have : elemIds (attach m c :: bs.drop i) = c.rid :: elemIds (bs.drop i) := by
          have h1 := elemIds_append [attach m c] (bs.drop i)
          rw [elemIds_single _ (by rw [isEl_attach]; exact hc), rid_attach] at h1
          simpa using h1
        rw [this]
      rw [e1, hch, take_drop_elemIds i bs, insertAt_length]
    · have : textOf (insertAt i (attach m c) bs) = textOf bs := by
        unfold insertAt
        rw [textOf_append]
        have h1 := textOf_append [attach m c] (bs.drop i)
        rw [textOf_single_el _ (by rw [isEl_attach]; exact hc)] at h1
        simp only [List.singleton_append, List.nil_append] at h1
        rw [h1, ← take_drop_textOf]
      rw [this]; exact ht
    · unfold insertAt
      rw [OKL_append, OKL_cons]
      have := attach_OK m c hco
      rw [ho] at this
      exact ⟨(take_drop_OKL i bs hk).1, this, (take_drop_OKL i bs hk).2⟩
  · simp only [locInsertElAt, insertAt, idsL_append, idsL_cons, ids_attach, idsL_nil, List.append_nil]
    refine List.Perm.cons _ ?_
    rw [take_drop_idsL i bs]
    have : (idsL (bs.take i) ++ (ids c ++ idsL (bs.drop i))).Perm (idsL (bs.take i) ++ (idsL (bs.drop i) ++ ids c)) :=
      List.Perm.append_left _ List.perm_append_comm
    have e : (idsL (bs.take i) ++ idsL (bs.drop i)).append (ids c) = idsL (bs.take i) ++ (idsL (bs.drop i) ++ ids c) :=
      List.append_assoc _ _ _
    rw [e]
    exact this

theorem good_insertEl (after : Bool) (r : Blk) (c : DN) (hc : c.isEl = true) (hok : ∃ p o, OK p o c) (m : Meta) (bs : List DN) :
    GoodEdit m bs (locInsertEl after r c m bs) (ids c) := by
  unfold locInsertEl
  split <;> exact good_insertElAt _ c hc hok m bs

theorem good_setAttribute (k v : Str) (m : Meta) (bs : List DN) {e} (h : (locSetAttribute k v m bs).1 = some e) :
    GoodEdit m bs e [] := by
  unfold locSetAttribute at h
  split at h
  · simp only [Option.some.injEq] at h
    subst h
    refine ⟨rfl, ?_, fun _ _ _ x hx => by simp at hx, by simp⟩
    intro par own hok
    simpa [OK_el] using hok
  · simp at h

theorem good_insertText (after : Bool) (r : Blk) (s : Str) (m : Meta) (bs : List DN) {e}
    (h : (locInsertText after r s m bs).1 = some e) : GoodEdit m bs e [] := by
  unfold locInsertText at h
  split at h
  · simp at h
  · simp only [Option.some.injEq] at h
    subst h
    exact good_insertTextAt _ s m bs

end AHP.Dom
