/-
  TreeModels, part 2 — document order.

  `HN.subs` lists the elements of a hub tree in document order, each with the identity of its parent.  Every
  model's traversal is the image of that one list: `G3.preorderL` (C06/C07), `Dom.ids`/`Dom.descL`/`Dom.elems`
  (C04/C05, the `getAllChildNodes` model), `Pk.DN.elems`/`oids`/`uids` (C16/C17).
-/
import AHP.Lemmas.TreeModels
import AHP.Lemmas.IndexInv
namespace AHP.TM
open AHP AHP.AttrStores

/-! ### the elements of the hub in document order -/

/-- identity of a block (0 for text; only used on elements) -/
def HN.id : HN → Nat
  | .text _ => 0
  | .el i _ _ _ _ => i

def HN.kids : HN → List HN
  | .text _ => []
  | .el _ _ _ _ ks => ks

mutual
/-- every element with the identity of its parent (`par` for the top), document order -/
def HN.subs (par : Option Nat) : HN → List (Option Nat × HN)
  | .text _ => []
  | .el i n a sc ks => (par, .el i n a sc ks) :: subsL (some i) ks
def subsL (par : Option Nat) : List HN → List (Option Nat × HN)
  | [] => []
  | k :: ks => k.subs par ++ subsL par ks
end

@[simp] theorem subsL_nil (p) : subsL p [] = [] := by simp [subsL]
@[simp] theorem subsL_cons (p) (k : HN) (ks : List HN) : subsL p (k :: ks) = k.subs p ++ subsL p ks := by simp [subsL]
@[simp] theorem subs_text (p) (s : Str) : (HN.text s).subs p = [] := by simp [HN.subs]
@[simp] theorem subs_el (p i n a sc ks) :
    (HN.el i n a sc ks).subs p = (p, .el i n a sc ks) :: subsL (some i) ks := by simp [HN.subs]

mutual
theorem subs_ids : ∀ (h : HN) (p : Option Nat), (h.subs p).map (fun e => e.2.id) = h.ids
  | .text _, _ => by simp
  | .el i n a sc ks, p => by rw [subs_el, List.map_cons, subsL_ids ks (some i), ids_el]; rfl
theorem subsL_ids : ∀ (ks : List HN) (p : Option Nat), (subsL p ks).map (fun e => e.2.id) = idsL ks
  | [], _ => by simp
  | k :: ks, p => by rw [subsL_cons, List.map_append, subs_ids k p, subsL_ids ks p, idsL_cons]
end

mutual
/-- every entry of `subs` is an element -/
theorem subs_isEl : ∀ (h : HN) (p : Option Nat), ∀ e ∈ h.subs p, ∃ i n a sc ks, e.2 = .el i n a sc ks
  | .text _, _ => by simp
  | .el i n a sc ks, p => by
    intro e he
    simp only [subs_el, List.mem_cons] at he
    rcases he with rfl | he
    · exact ⟨i, n, a, sc, ks, rfl⟩
    · exact subsL_isEl ks (some i) e he
theorem subsL_isEl : ∀ (ks : List HN) (p : Option Nat), ∀ e ∈ subsL p ks, ∃ i n a sc ks', e.2 = .el i n a sc ks'
  | [], _ => by simp
  | k :: ks, p => by
    intro e he
    simp only [subsL_cons, List.mem_append] at he
    rcases he with he | he
    · exact subs_isEl k p e he
    · exact subsL_isEl ks p e he
end

/-! ### (4) `G3.Node`: elements only; text blocks feed the `text` cache -/

/-- the entries with a string value -/
def strVals (l : List Attr) : List (Str × Str) := l.filterMap (fun p => p.2.map (fun v => (p.1, v)))

/-- the attribute dictionary the searches read: the listing without `class` -/
def g3Attrs (st : AttrState) : List (Str × Str) := strVals (dictDel st.view kClass)

def g3Elem (i : Nat) (n : Str) (a : AttrState) (ks : List HN) : G3.Elem := ⟨i, n, g3Attrs a, a.classes, kidText ks⟩

mutual
/-- the search model's image of a block: nothing for a text, the element otherwise -/
def HN.g3 : HN → List G3.Node
  | .text _ => []
  | .el i n a _ ks => [.mk (g3Elem i n a ks) (g3L ks)]
def g3L : List HN → List G3.Node
  | [] => []
  | k :: ks => k.g3 ++ g3L ks
end

@[simp] theorem g3L_nil : g3L [] = [] := by simp [g3L]
@[simp] theorem g3L_cons (k : HN) (ks : List HN) : g3L (k :: ks) = k.g3 ++ g3L ks := by simp [g3L]
@[simp] theorem g3_text (s : Str) : (HN.text s).g3 = [] := by simp [HN.g3]
@[simp] theorem g3_el (i n a sc ks) : (HN.el i n a sc ks).g3 = [.mk (g3Elem i n a ks) (g3L ks)] := by simp [HN.g3]

theorem preorderL_append (a b : List G3.Node) : G3.preorderL (a ++ b) = G3.preorderL a ++ G3.preorderL b := by
  simp [G3.preorderL_eq_flatMap]

@[simp] theorem preorderL_nil : G3.preorderL [] = [] := by simp [G3.preorderL]
@[simp] theorem preorderL_single (n : G3.Node) : G3.preorderL [n] = n.preorder := by simp [G3.preorderL]

mutual
/-- `preorder` of the image = the images of the elements in document order -/
theorem preorder_g3 : ∀ (h : HN) (p : Option Nat), G3.preorderL h.g3 = (h.subs p).flatMap (fun e => e.2.g3)
  | .text _, _ => by simp
  | .el i n a sc ks, p => by
    simp only [g3_el, preorderL_single, G3.Node.preorder, subs_el, List.flatMap_cons, List.singleton_append,
      preorderL_g3L ks (some i)]
theorem preorderL_g3L : ∀ (ks : List HN) (p : Option Nat), G3.preorderL (g3L ks) = (subsL p ks).flatMap (fun e => e.2.g3)
  | [], _ => by simp
  | k :: ks, p => by
    simp only [g3L_cons, preorderL_append, subsL_cons, List.flatMap_append, preorder_g3 k p, preorderL_g3L ks p]
end

mutual
theorem uids_g3 : ∀ h : HN, G3.uidsOf (G3.preorderL h.g3) = h.ids
  | .text _ => by simp
  | .el i n a sc ks => by
    have := uids_g3L ks
    simp only [G3.uidsOf] at this
    simp [G3.Node.preorder, G3.Node.uid, G3.Node.elem, g3Elem, this]
theorem uids_g3L : ∀ ks : List HN, G3.uidsOf (G3.preorderL (g3L ks)) = idsL ks
  | [] => by simp
  | k :: ks => by
    have h1 := uids_g3 k
    have h2 := uids_g3L ks
    simp only [G3.uidsOf] at h1 h2
    simp [preorderL_append, h1, h2]
end

theorem uids_kids_g3L : ∀ ks : List HN, G3.uidsOf (g3L ks) = kidIds ks
  | [] => by simp [kidIds]
  | .text _ :: ks => by simpa [kidIds] using uids_kids_g3L ks
  | .el i n a sc ks' :: ks => by
    have := uids_kids_g3L ks
    simp only [G3.uidsOf] at this
    simp [kidIds, G3.Node.uid, G3.Node.elem, g3Elem, this]

/-- the search model's image of an element -/
def g3Root (i : Nat) (n : Str) (a : AttrState) (ks : List HN) : G3.Node := .mk (g3Elem i n a ks) (g3L ks)

theorem g3Root_preorder (i n a ks) : G3.uidsOf (g3Root i n a ks).preorder = i :: idsL ks := by
  have := uids_g3L ks
  simp only [G3.uidsOf] at this
  simp [g3Root, G3.Node.preorder, G3.Node.uid, G3.Node.elem, g3Elem, this]

theorem g3Root_desc (i n a ks) : G3.uidsOf (g3Root i n a ks).desc = idsL ks := by
  simp only [g3Root, G3.Node.desc, G3.Node.kids]
  exact uids_g3L ks

theorem g3Root_kids (i n a ks) : G3.uidsOf (g3Root i n a ks).kids = kidIds ks := by
  simp only [g3Root, G3.Node.kids]
  exact uids_kids_g3L ks

/-- `Distinct` (the hypothesis of C06/C07) is "no identity twice" (the `nodup` clause of C04's invariant) -/
theorem g3Root_distinct (i n a sc ks) : (g3Root i n a ks).Distinct ↔ (HN.el i n a sc ks).ids.Nodup := by
  unfold G3.Node.Distinct
  rw [g3Root_preorder, ids_el]

/-- the creation order the index model (C07) folds over is the document order of the hub -/
theorem creationOrder_g3Root (i n a ks) :
    (G3.creationOrder (g3Root i n a ks)).map (·.uid) = i :: idsL ks := by
  rw [G3.Idx.creationOrder_eq, List.map_map]
  exact g3Root_preorder i n a ks

/-! ### (2) `Dom.DN`: `ids`, `getAllChildNodes` (`desc`), `elems` -/

mutual
theorem ids_ofDom : ∀ n : Dom.DN, (ofDom n).ids = Dom.ids n
  | .text _ => by simp
  | .el m bs => by simp [idsL_ofDomL bs]
theorem idsL_ofDomL : ∀ bs : List Dom.DN, idsL (ofDomL bs) = Dom.idsL bs
  | [] => by simp
  | b :: bs => by simp [ids_ofDom b, idsL_ofDomL bs]
end

mutual
/-- the `getAllChildNodes` walk (children, each followed by its descendants) lists the element blocks' trees -/
theorem desc_eq_idsL : ∀ n : Dom.DN, Dom.desc n = (Dom.ids n).tail
  | .text _ => by simp [Dom.desc]
  | .el m bs => by simp [Dom.desc, descL_eq_idsL bs]
theorem descL_eq_idsL : ∀ bs : List Dom.DN, Dom.descL bs = Dom.idsL bs
  | [] => by simp
  | .text _ :: bs => by simp [descL_eq_idsL bs]
  | .el m k :: bs => by simp [descL_eq_idsL k, descL_eq_idsL bs]
end

@[simp] theorem dom_elemsL_nil : Dom.elemsL [] = [] := by simp [Dom.elemsL]
@[simp] theorem dom_elemsL_cons (b : Dom.DN) (bs : List Dom.DN) : Dom.elemsL (b :: bs) = Dom.elems b ++ Dom.elemsL bs := by
  simp [Dom.elemsL]
@[simp] theorem dom_elems_text (s : Str) : Dom.elems (.text s) = [] := by simp [Dom.elems]
@[simp] theorem dom_elems_el (m : Dom.Meta) (bs : List Dom.DN) : Dom.elems (.el m bs) = (m, bs) :: Dom.elemsL bs := by
  simp [Dom.elems]

/-- an entry of `Dom.elems` (fields, blocks) as a hub element -/
def elOf (e : Dom.Meta × List Dom.DN) : HN := ofDom (.el e.1 e.2)

mutual
/-- the DOM model's element list is the hub's, element by element -/
theorem elems_ofDom : ∀ (n : Dom.DN) (p : Option Nat), (Dom.elems n).map elOf = ((ofDom n).subs p).map (·.2)
  | .text _, _ => by simp
  | .el m bs, p => by
    rw [dom_elems_el, List.map_cons, elemsL_ofDomL bs (some m.id), ofDom_el, subs_el, List.map_cons]
    rfl
theorem elemsL_ofDomL : ∀ (bs : List Dom.DN) (p : Option Nat), (Dom.elemsL bs).map elOf = (subsL p (ofDomL bs)).map (·.2)
  | [], _ => by simp
  | b :: bs, p => by
    rw [dom_elemsL_cons, List.map_append, elems_ofDom b p, elemsL_ofDomL bs p, ofDomL_cons, subsL_cons, List.map_append]
end

mutual
/-- under C04's invariant the cached `parentNode` of every element is the element that holds it -/
theorem parents_ofDom : ∀ (n : Dom.DN) (p o : Option Nat), Dom.OK p o n →
    (Dom.elems n).map (fun e => e.1.parent) = ((ofDom n).subs p).map (·.1)
  | .text _, _, _, _ => by simp
  | .el m bs, p, o, h => by
    rw [Dom.OK_el] at h
    simp [h.1, parentsL_ofDomL bs (some m.id) o h.2.2.2.2.2]
theorem parentsL_ofDomL : ∀ (bs : List Dom.DN) (p o : Option Nat), Dom.OKL p o bs →
    (Dom.elemsL bs).map (fun e => e.1.parent) = (subsL p (ofDomL bs)).map (·.1)
  | [], _, _, _ => by simp
  | b :: bs, p, o, h => by
    simp only [Dom.OKL_cons] at h
    simp [parents_ofDom b p o h.1, parentsL_ofDomL bs p o h.2]
end

mutual
/-- … and the cached `children` / `text` of every element are what its blocks say -/
theorem cached_ofDom : ∀ (n : Dom.DN) (p o : Option Nat), Dom.OK p o n →
    ∀ e ∈ Dom.elems n, e.1.children = kidIds (ofDomL e.2) ∧ e.1.text = kidText (ofDomL e.2)
  | .text _, _, _, _ => by simp
  | .el m bs, p, o, h => by
    rw [Dom.OK_el] at h
    intro e he
    simp only [dom_elems_el, List.mem_cons] at he
    rcases he with rfl | he
    · simp only [kidIds_ofDomL, kidText_ofDomL]; exact ⟨h.2.2.1, h.2.2.2.1⟩
    · exact cachedL_ofDomL bs (some m.id) o h.2.2.2.2.2 e he
theorem cachedL_ofDomL : ∀ (bs : List Dom.DN) (p o : Option Nat), Dom.OKL p o bs →
    ∀ e ∈ Dom.elemsL bs, e.1.children = kidIds (ofDomL e.2) ∧ e.1.text = kidText (ofDomL e.2)
  | [], _, _, _ => by simp
  | b :: bs, p, o, h => by
    simp only [Dom.OKL_cons] at h
    intro e he
    simp only [dom_elemsL_cons, List.mem_append] at he
    rcases he with he | he
    · exact cached_ofDom b p o h.1 e he
    · exact cachedL_ofDomL bs p o h.2 e he
end

/-! ### (3) `Pk.DN`: `elems`, `oids`, `uids`, `size` -/

@[simp] theorem pk_elemsL_nil : Pk.DN.elemsL [] = [] := by simp [Pk.DN.elemsL]
@[simp] theorem pk_elemsL_cons (b : Pk.DN) (bs : List Pk.DN) :
    Pk.DN.elemsL (b :: bs) = Pk.DN.elems b ++ Pk.DN.elemsL bs := by simp [Pk.DN.elemsL]

mutual
/-- `getAllNodes` of the pickle model's image = the images of the hub's elements, in the same order -/
theorem pk_elems : ∀ (h : HN) (p o : Option Nat),
    Pk.DN.elems (h.toPk p o) = (h.subs p).map (fun e => e.2.toPk e.1 o)
  | .text _, _, _ => by simp [Pk.DN.elems]
  | .el i n a sc ks, p, o => by simp [Pk.DN.elems, pk_elemsL ks (some i) o]
theorem pk_elemsL : ∀ (ks : List HN) (p o : Option Nat),
    Pk.DN.elemsL (toPkL p o ks) = (subsL p ks).map (fun e => e.2.toPk e.1 o)
  | [], _, _ => by simp
  | k :: ks, p, o => by simp [pk_elems k p o, pk_elemsL ks p o]
end

mutual
theorem pk_oids : ∀ (h : HN) (p o : Option Nat), Pk.DN.oids (h.toPk p o) = h.ids
  | .text _, _, _ => by simp [Pk.DN.oids]
  | .el i n a sc ks, p, o => by simp [Pk.DN.oids, pk_oidsL ks (some i) o]
theorem pk_oidsL : ∀ (ks : List HN) (p o : Option Nat), Pk.DN.oidsL (toPkL p o ks) = idsL ks
  | [], _, _ => by simp [Pk.DN.oidsL]
  | k :: ks, p, o => by simp [Pk.DN.oidsL, pk_oids k p o, pk_oidsL ks p o]
end

mutual
theorem pk_uids : ∀ (h : HN) (p o : Option Nat), Pk.DN.uids (h.toPk p o) = h.ids
  | .text _, _, _ => by simp [Pk.DN.uids]
  | .el i n a sc ks, p, o => by simp [Pk.DN.uids, pk_uidsL ks (some i) o]
theorem pk_uidsL : ∀ (ks : List HN) (p o : Option Nat), Pk.DN.uidsL (toPkL p o ks) = idsL ks
  | [], _, _ => by simp [Pk.DN.uidsL]
  | k :: ks, p, o => by simp [Pk.DN.uidsL, pk_uids k p o, pk_uidsL ks p o]
end

mutual
theorem pk_size : ∀ (h : HN) (p o : Option Nat), Pk.DN.size (h.toPk p o) = h.size
  | .text _, _, _ => by simp [Pk.DN.size]
  | .el i n a sc ks, p, o => by simp [Pk.DN.size, pk_sizeL ks (some i) o]
theorem pk_sizeL : ∀ (ks : List HN) (p o : Option Nat), Pk.DN.sizeL (toPkL p o ks) = sizeL ks
  | [], _, _ => by simp [Pk.DN.sizeL]
  | k :: ks, p, o => by simp [Pk.DN.sizeL, pk_size k p o, pk_sizeL ks p o]
end

theorem pk_elems_oids (h : HN) (p o : Option Nat) : (Pk.DN.elems (h.toPk p o)).map Pk.DN.oid = h.ids := by
  rw [pk_elems, List.map_map, ← subs_ids h p]
  apply List.map_congr_left
  intro e he
  obtain ⟨i, n, a, sc, ks, hk⟩ := subs_isEl h p e he
  simp [hk, Pk.DN.oid, HN.id]

/-! ### the DOM constructor (`Dom.mk`) against the trees of model (1) -/

mutual
/-- a parsed node of the DOM model (`Dom.FN`: what its tree builder is given) as a tree of model (1): plain
    attribute store, self-closing kept only without content (as `Dom.mk` and the parser do) -/
def fnNode : Dom.FN → Node
  | .text s => .text s
  | .el name attrs sc kids => .elem name (plainState attrs) ((sc || Dom.isVoid name) && kids.isEmpty) (fnNodeL kids)
def fnNodeL : List Dom.FN → List Node
  | [] => []
  | k :: ks => fnNode k :: fnNodeL ks
end

theorem normL_empty_text (ks : List Node) : normL (.text [] :: ks) = normL ks := by
  simp only [normL]
  split
  · rename_i s' r heq; rw [heq]; simp
  · simp

mutual
/-- what `Dom.mk` builds — the leading empty indent block, identities, cached fields — is, once the identities
    are forgotten and the text normalised, the parsed node itself -/
theorem mk_norm : ∀ (f : Dom.FN) (p o : Option Nat) (n : Nat),
    (ofDom (Dom.mk p o f n).1).toTree.norm = (fnNode f).norm
  | .text s, _, _, _ => by simp [fnNode]
  | .el name attrs sc kids, p, o, n => by
    rw [Dom.mk_el]
    simp only [ofDom_el, ofDomL_cons, ofDom_text, toTree_el, toTreeL_cons, toTree_text, fnNode, Node.norm,
      normL_empty_text, mkL_norm kids (some n) o (n + 1)]
theorem mkL_norm : ∀ (fs : List Dom.FN) (p o : Option Nat) (n : Nat),
    normL (toTreeL (ofDomL (Dom.mkL p o fs n).1)) = normL (fnNodeL fs)
  | [], _, _, _ => by simp [fnNodeL]
  | f :: fs, p, o, n => by
    rw [Dom.mkL_cons]
    simp only [ofDomL_cons, toTreeL_cons, fnNodeL]
    have h1 := mk_norm f p o n
    have h2 := mkL_norm fs p o (Dom.mk p o f n).2
    cases f with
    | text s =>
      simp only [Dom.mk_text, ofDom_text, toTree_text, fnNode] at h2 ⊢
      simp only [normL, h2]
    | el name attrs sc kids =>
      have e1 : ∃ nm a sc' ks, (ofDom (Dom.mk p o (.el name attrs sc kids) n).1).toTree = .elem nm a sc' ks := by
        rw [Dom.mk_el, ofDom_el, toTree_el]; exact ⟨_, _, _, _, rfl⟩
      obtain ⟨nm, a, sc', ks, e1⟩ := e1
      rw [e1] at h1 ⊢
      simp only [fnNode, Node.norm, Node.elem.injEq] at h1 ⊢
      simp only [normL, h1.1, h1.2.1, h1.2.2.1, h1.2.2.2, h2]
end

end AHP.TM
