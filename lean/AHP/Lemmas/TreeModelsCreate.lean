/-
  TreeModels, part 4 — creation order = document order, proved on the builder model.

  `handle_starttag` / `handle_startendtag` create one element per start token, in token order.  Whatever the
  nesting, implicit closes and stray end tags, the elements of the finished tree in document order are exactly
  those elements in creation order (`run_els`, `finish_els`).  This is the fact C07 (the index is filled "as elements
  are created") and C14 (row index = uid) take for granted.
-/
import AHP.Lemmas.TreeModelsOrder
import AHP.Lemmas.TreeModelsBuild
namespace AHP.TM
open AHP AHP.AttrStores

/-- the element a callback creates: name as stored, attribute store after `__init__` -/
def created : Token → List (Str × AttrState)
  | .start n a => [(lower n, intake a AttrState.empty)]
  | .startend n a => [(lower n, intake a AttrState.empty)]
  | _ => []

mutual
/-- the elements of a tree, document order -/
def els : Node → List (Str × AttrState)
  | .text _ => []
  | .elem n a _ ks => (n, a) :: elsL ks
def elsL : List Node → List (Str × AttrState)
  | [] => []
  | k :: ks => els k ++ elsL ks
end

@[simp] theorem elsL_nil : elsL [] = [] := by simp [elsL]
@[simp] theorem elsL_cons (k : Node) (ks : List Node) : elsL (k :: ks) = els k ++ elsL ks := by simp [elsL]
@[simp] theorem els_text (s : Str) : els (.text s) = [] := by simp [els]
@[simp] theorem els_elem (n a sc ks) : els (.elem n a sc ks) = (n, a) :: elsL ks := by simp [els]

theorem elsL_append (a b : List Node) : elsL (a ++ b) = elsL a ++ elsL b := by
  induction a with
  | nil => simp
  | cons x xs ih => simp [ih]

/-- the elements of the open part of the tree: outermost open element first, each followed by its finished blocks -/
def stackEls : List Frame → List (Str × AttrState)
  | [] => []
  | f :: fs => stackEls fs ++ (f.name, f.attrs) :: elsL f.rev.reverse

/-- all elements created so far, in document order (with something open, `root` is not yet assigned) -/
def stateEls (t : TState) : List (Str × AttrState) :=
  match t.stack with
  | [] => (match t.root with | some r => els r | none => [])
  | f :: fs => stackEls (f :: fs)

theorem stateEls_addNode_open (t : TState) (c : Node) (h : t.stack ≠ []) :
    stateEls (addNode t c) = stateEls t ++ els c := by
  cases ht : t.stack with
  | nil => exact absurd ht h
  | cons f fs =>
    simp only [stateEls, addNode, ht, stackEls, List.reverse_cons, elsL_append, elsL_cons, elsL_nil, List.append_nil,
      List.append_assoc, List.cons_append]

theorem stateEls_addNode_top (t : TState) (c : Node) (h : t.stack = []) : stateEls (addNode t c) = els c := by
  simp [stateEls, addNode, h]

theorem stateEls_pop1 (t : TState) : stateEls (pop1 t) = stateEls t := by
  unfold pop1
  cases ht : t.stack with
  | nil => rfl
  | cons f fs =>
    cases fs with
    | nil =>
      rw [stateEls_addNode_top _ _ rfl]
      simp [stateEls, ht, stackEls, Frame.close]
    | cons g gs =>
      rw [stateEls_addNode_open _ _ (by simp)]
      simp [stateEls, ht, stackEls, Frame.close]

theorem stateEls_popTo (n : Str) : ∀ (k : Nat) (t : TState), stateEls (popTo n k t) = stateEls t
  | 0, _ => rfl
  | k + 1, t => by
    unfold popTo
    cases ht : t.stack with
    | nil => rfl
    | cons f fs =>
      simp only
      split
      · exact stateEls_pop1 t
      · rw [stateEls_popTo n k, stateEls_pop1]

theorem stateEls_closeAll : ∀ (k : Nat) (t : TState), stateEls (closeAll k t) = stateEls t
  | 0, _ => rfl
  | k + 1, t => by
    unfold closeAll
    cases ht : t.stack with
    | nil => rfl
    | cons f fs =>
      simp only
      rw [stateEls_closeAll k, stateEls_pop1]

theorem closeAll_stack : ∀ (k : Nat) (t : TState), t.stack.length ≤ k → (closeAll k t).stack = []
  | 0, t, h => by
    have : t.stack = [] := List.length_eq_zero_iff.mp (Nat.le_zero.mp h)
    simpa [closeAll] using this
  | k + 1, t, h => by
    unfold closeAll
    cases ht : t.stack with
    | nil => simpa using ht
    | cons f fs =>
      simp only
      apply closeAll_stack k
      have hl : (pop1 t).stack.length = fs.length := by
        unfold pop1
        rw [ht]
        simp only [len_addNode]
      rw [hl]; rw [ht] at h; simp at h; omega

/-- the elements of the document `finish` reports -/
theorem finish_els (t : TState) :
    (match (finish t).root with | some r => els r | none => []) = stateEls t := by
  have h1 := stateEls_closeAll t.stack.length t
  have h2 := closeAll_stack t.stack.length t (Nat.le_refl _)
  unfold finish
  rw [← h1]
  simp [stateEls, h2]

theorem stateEls_handleStart {t t' : TState} {n : Str} {a : List Attr} {sc : Bool}
    (h : handleStart t n a sc = .ok t') : stateEls t' = stateEls t ++ [(lower n, intake a AttrState.empty)] := by
  unfold handleStart at h
  simp only at h
  split at h
  · rename_i hg
    have hroot : t.stack = [] → stateEls t = [] := by
      intro he
      have : t.root = none := by
        cases hr : t.root with
        | none => rfl
        | some r => simp [TState.hasRoot, he, hr] at hg
      simp [stateEls, he, this]
    split at h
    · injection h with h; subst h
      by_cases he : t.stack = []
      · rw [stateEls_addNode_top _ _ he, hroot he]; simp
      · rw [stateEls_addNode_open _ _ he]; simp
    · injection h with h; subst h
      by_cases he : t.stack = []
      · rw [hroot he]; simp [stateEls, stackEls, he]
      · cases ht : t.stack with
        | nil => exact absurd ht he
        | cons f fs => simp [stateEls, stackEls, ht]
  · cases h

/-- **one callback** adds exactly the element it creates, at the end of the document order -/
theorem stateEls_stepT {t t' : TState} {tok : Token} (h : stepT t tok = .ok t') :
    stateEls t' = stateEls t ++ created tok := by
  have text : ∀ x : Str, addTextStrict t x = .ok t' → stateEls t' = stateEls t ++ [] := by
    intro x hx
    unfold addTextStrict at hx
    split at hx
    · cases hx
    · rename_i he
      injection hx with hx; subst hx
      rw [stateEls_addNode_open _ _ (by intro h0; simp [h0] at he)]; simp
  cases tok with
  | start n a => exact stateEls_handleStart h
  | startend n a => exact stateEls_handleStart h
  | end_ n =>
    simp only [stepT, Outcome.ok.injEq] at h
    subst h
    simp only [created, List.append_nil]
    unfold handleEnd
    split
    · exact stateEls_popTo n _ t
    · rfl
  | data d =>
    simp only [stepT] at h
    simp only [created, List.append_nil]
    split at h
    · injection h with h; subst h; rfl
    · split at h
      · rename_i he
        injection h with h; subst h
        rw [stateEls_addNode_open _ _ (by intro h0; simp [h0] at he)]; simp
      · split at h
        · injection h with h; subst h; rfl
        · cases h
  | entity e => exact text _ h
  | charref c => exact text _ h
  | comment c => exact text _ h
  | decl d => simp only [stepT, Outcome.ok.injEq] at h; subst h; simp [created]
  | unknownDecl d => simp only [stepT, Outcome.ok.injEq] at h; subst h; simp [created]
  | pi p => simp only [stepT, Outcome.ok.injEq] at h; subst h; simp [created]

/-- **a pass**: the elements of the state are those it had plus one per start token, in token order -/
theorem run_els : ∀ (ts : List Token) (b b' : BState), run b ts = .ok b' →
    stateEls b'.tree = stateEls b.tree ++ ts.flatMap created
  | [], b, b', h => by simp only [run, Outcome.ok.injEq] at h; subst h; simp
  | tok :: ts, b, b', h => by
    rw [run_unfold] at h
    cases ho : stepT b.tree tok with
    | ok t1 =>
      rw [ho] at h
      have := run_els ts ⟨t1, stepD b.doctype tok⟩ b' h
      rw [this, stateEls_stepT ho]
      simp
    | multipleRoot => rw [ho] at h; cases h
    | invalidClose => rw [ho] at h; cases h
    | missedClose => rw [ho] at h; cases h
    | invalidAttr => rw [ho] at h; cases h

/-- the elements of a parsed document, document order -/
def docEls (d : Doc) : List (Str × AttrState) := match d.root with | some r => els r | none => []

theorem doc_els (ts : List Token) (b : BState) (h : run BState.init ts = .ok b) : docEls b.doc = ts.flatMap created := by
  have := run_els ts BState.init b h
  unfold docEls BState.doc
  rw [finish_els, this]
  simp [stateEls, BState.init, TState.init]

/-! ### … and the hub's numbering is that order -/

def HN.key : HN → Str × AttrState
  | .text _ => ([], AttrState.empty)
  | .el _ n a _ _ => (n, a)

mutual
theorem els_toTree : ∀ (h : HN) (p : Option Nat), els h.toTree = (h.subs p).map (fun e => e.2.key)
  | .text _, _ => by simp
  | .el i n a sc ks, p => by simp [HN.key, elsL_toTreeL ks (some i)]
theorem elsL_toTreeL : ∀ (ks : List HN) (p : Option Nat), elsL (toTreeL ks) = (subsL p ks).map (fun e => e.2.key)
  | [], _ => by simp
  | k :: ks, p => by simp [els_toTree k p, elsL_toTreeL ks p]
end

/-! ### every attribute store of a parsed document is a dict; `getHTML` of the two plain-parser models -/

mutual
theorem treeInv_of_els : ∀ t : Node, (∀ x ∈ els t, Inv x.2) → TreeInv t
  | .text _, _ => by simp [TreeInv]
  | .elem n a sc ks, h => by
    simp only [els_elem, List.mem_cons, forall_eq_or_imp] at h
    simp only [TreeInv]
    exact ⟨h.1, treeInvL_of_elsL ks h.2⟩
theorem treeInvL_of_elsL : ∀ ks : List Node, (∀ x ∈ elsL ks, Inv x.2) → TreeInvL ks
  | [], _ => by simp [TreeInvL]
  | k :: ks, h => by
    simp only [elsL_cons, List.mem_append] at h
    simp only [TreeInvL]
    exact ⟨treeInv_of_els k (fun x hx => h x (Or.inl hx)), treeInvL_of_elsL ks (fun x hx => h x (Or.inr hx))⟩
end

theorem created_inv (tok : Token) : ∀ x ∈ created tok, Inv x.2 := by
  cases tok <;> simp [created] <;> exact inv_intake _ inv_empty

theorem run_treeInv (ts : List Token) (b : BState) (h : run BState.init ts = .ok b) :
    ∀ r, b.doc.root = some r → TreeInv r := by
  intro r hr
  apply treeInv_of_els
  have := doc_els ts b h
  simp only [docEls, hr] at this
  rw [this]
  intro x hx
  obtain ⟨tok, _, hx⟩ := List.mem_flatMap.mp hx
  exact created_inv tok x hx

theorem feedTokens_treeInv {toks : List Token} {d : Doc} {sp : Bool} (h : feedTokens toks = .doc d sp) :
    ∀ r, d.root = some r → TreeInv r := by
  unfold feedTokens at h
  rcases run_outcomes toks BState.init with ⟨b, h1⟩ | h1
  · rw [h1] at h
    simp only [FeedResult.ofPass, FeedResult.doc.injEq] at h
    rw [← h.1]; exact run_treeInv toks b h1
  · rw [h1] at h
    rcases run_outcomes (wrapToks toks) BState.init with ⟨b, h2⟩ | h2
    · rw [h2] at h
      simp only [FeedResult.ofPass, FeedResult.doc.injEq] at h
      rw [← h.1]; exact run_treeInv _ b h2
    · rw [h2] at h; simp [FeedResult.ofPass] at h

/-- the elements of the document `feed` reports: one per start token of the pass that succeeded, in token order -/
theorem feedTokens_els {toks : List Token} {d : Doc} {sp : Bool} (h : feedTokens toks = .doc d sp) :
    docEls d = (if sp then wrapToks toks else toks).flatMap created := by
  unfold feedTokens at h
  rcases run_outcomes toks BState.init with ⟨b, h1⟩ | h1
  · rw [h1] at h
    simp only [FeedResult.ofPass, FeedResult.doc.injEq] at h
    rw [← h.1, ← h.2]; exact doc_els toks b h1
  · rw [h1] at h
    rcases run_outcomes (wrapToks toks) BState.init with ⟨b, h2⟩ | h2
    · rw [h2] at h
      simp only [FeedResult.ofPass, FeedResult.doc.injEq] at h
      rw [← h.1, ← h.2]; exact doc_els _ b h2
    · rw [h2] at h; simp [FeedResult.ofPass] at h

theorem doctypeLine_eq (dt : Option Str) :
    Fmt.doctypeLine dt = (match dt with
      | some d => if d.isEmpty then [] else '<' :: '!' :: d ++ ['>', '\n']
      | none => []) := by
  cases dt with
  | none => rfl
  | some d => simp only [Fmt.doctypeLine]; split <;> simp [str]

/-- `getHTML` of the formatter model's plain parser on a root that is (up to the ghost flags) the image of `r` -/
theorem docHTML_agree (dt : Option Str) (r : Node) (hr : TreeInv r) {n' : Fmt.Node} (hn : eraseN n' = toFmt r) :
    Fmt.docHTML dt (some n') = .ok (AHP.docHTML dt r) := by
  cases n' with
  | text v s =>
    cases r with
    | text s' =>
      simp only [eraseN_text, toFmt_text, Fmt.Node.text.injEq, true_and] at hn
      simp only [Fmt.docHTML, AHP.docHTML, doctypeLine_eq, hn]
      rfl
    | elem n a sc ks => simp at hn
  | elem k n st sc ind kids =>
    cases r with
    | text s' => simp at hn
    | elem n2 a sc2 ks =>
      simp only [eraseN_elem, toFmt_elem, Fmt.Node.elem.injEq] at hn
      obtain ⟨rfl, rfl, rfl, rfl, rfl, h6⟩ := hn
      simp only [TreeInv] at hr
      have hin : Fmt.innerL kids = htmlL ks := by rw [← innerL_erase, h6, fmt_innerL ks hr.2]
      have hout : Fmt.outer (.elem .normal n (toF a) sc [] kids) = (Node.elem n a sc ks).html := by
        rw [← outer_erase, eraseN_elem, h6, ← toFmt_elem, fmt_outer _ (by simp only [TreeInv]; exact hr)]
      simp only [Fmt.docHTML, AHP.docHTML, doctypeLine_eq, Node.innerHTML, hin, hout]
      have hw : Fmt.wrapper = wrapperName := rfl
      rw [hw]
      split <;> rfl

/-- **`parseStr` + `getHTML` of the two plain-parser models agree** on every token list of the domain -/
theorem plain_html_agree (toks : List Token) (hd : LeadDeclOK toks) :
    Fmt.Plain.html (toks.map tokF) =
      (match feedTokens toks with
       | .doc d _ => (match d.html with | some s => .ok s | none => .error .noRoot)
       | .raised _ => .error .multipleRoot) := by
  have h := feed_agree toks hd
  unfold Fmt.Plain.html
  cases hf : feedTokens toks with
  | raised e =>
    rw [hf] at h
    cases hp : Fmt.Plain.feed (toks.map tokF) with
    | ok s => rw [hp] at h; simp [feedViewF, Except.map] at h
    | error e' =>
      rw [hp] at h
      simp only [feedViewF, Except.map, Except.error.injEq] at h
      simp [h]
  | doc d sp =>
    rw [hf] at h
    cases hp : Fmt.Plain.feed (toks.map tokF) with
    | error e' => rw [hp] at h; simp [feedViewF, Except.map] at h
    | ok s =>
      rw [hp] at h
      simp only [feedViewF, Except.map, Except.ok.injEq, viewF, viewB, Prod.mk.injEq] at h
      simp only [Doc.html]
      rw [h.1]
      cases hr : d.root with
      | none =>
        rw [hr] at h
        have : s.root = none := by simpa using h.2
        simp [this, Fmt.docHTML]
      | some r =>
        rw [hr] at h
        cases hs : s.root with
        | none => rw [hs] at h; simp at h
        | some n' =>
          rw [hs] at h
          simp only [Option.map_some, Option.some.injEq] at h
          rw [docHTML_agree d.doctype r (feedTokens_treeInv hf r hr) h.2]
          rfl

end AHP.TM
