/-
  TreeModels, part 4 — creation order = document order, proved on the builder model.

  `handle_starttag` / `handle_startendtag` create one element per start token, in token order.  Whatever the
  nesting, implicit closes and stray end tags, the elements of the finished tree in document order are exactly
  those elements in creation order (`run_els`, `finish_els`).  This is the fact C07 (the index is filled "as elements
  are created") and C14 (row index = uid) take for granted.
-/
import AHP.Lemmas.TreeModelsOrder
import AHP.Lemmas.TreeModelsBuild
namespace AHP.TM
open AHP AHP.AttrStores

/-- the element a callback creates: name as stored, attribute store after `__init__` -/
def created : Token → List (Str × AttrState)
  | .start n a => [(lower n, intake a AttrState.empty)]
  | .startend n a => [(lower n, intake a AttrState.empty)]
  | _ => []

mutual
/-- the elements of a tree, document order -/
def els : Node → List (Str × AttrState)
  | .text _ => []
  | .elem n a _ ks => (n, a) :: elsL ks
def elsL : List Node → List (Str × AttrState)
  | [] => []
  | k :: ks => els k ++ elsL ks
end

@[simp] theorem elsL_nil : elsL [] = [] := by simp [elsL]
@[simp] theorem elsL_cons (k : Node) (ks : List Node) : elsL (k :: ks) = els k ++ elsL ks := by simp [elsL]
@[simp] theorem els_text (s : Str) : els (.text s) = [] := by simp [els]
@[simp] theorem els_elem (n a sc ks) : els (.elem n a sc ks) = (n, a) :: elsL ks := by simp [els]

theorem elsL_append (a b : List Node) : elsL (a ++ b) = elsL a ++ elsL b := by
  induction a with
  | nil => simp
  | cons x xs ih => simp [ih]

/-- the elements of the open part of the tree: outermost open element first, each followed by its finished blocks -/
def stackEls : List Frame → List (Str × AttrState)
  | [] => []
  | f :: fs => stackEls fs ++ (f.name, f.attrs) :: elsL f.rev.reverse

/-- all elements created so far, in document order (with something open, `root` is not yet assigned) -/
def stateEls (t : TState) : List (Str × AttrState) :=
  match t.stack with
  | [] => (match t.root with | some r => els r | none => [])
  | f :: fs => stackEls (f :: fs)

theorem stateEls_addNode_open (t : TState) (c : Node) (h : t.stack ≠ []) :
    stateEls (addNode t c) = stateEls t ++ els c := by
  cases ht : t.stack with
  | nil => exact absurd ht h
  | cons f fs =>
    simp only [stateEls, addNode, ht, stackEls, List.reverse_cons, elsL_append, elsL_cons, elsL_nil, List.append_nil,
      List.append_assoc, List.cons_append]

theorem stateEls_addNode_top (t : TState) (c : Node) (h : t.stack = []) : stateEls (addNode t c) = els c := by
  simp [stateEls, addNode, h]

theorem stateEls_pop1 (t : TState) : stateEls (pop1 t) = stateEls t := by
  unfold pop1
  cases ht : t.stack with
  | nil => rfl
  | cons f fs =>
    cases fs with
    | nil =>
      rw [stateEls_addNode_top _ _ rfl]
      simp [stateEls, ht, stackEls, Frame.close]
    | cons g gs =>
      rw [stateEls_addNode_open _ _ (by simp)]
      simp [stateEls, ht, stackEls, Frame.close]

theorem stateEls_popTo (n : Str) : ∀ (k : Nat) (t : TState), stateEls (popTo n k t) = stateEls t
  | 0, _ => rfl
  | k + 1, t => by
    unfold popTo
    cases ht : t.stack with
    | nil => rfl
    | cons f fs =>
      simp only
      split
      · exact stateEls_pop1 t
      · rw [stateEls_popTo n k, stateEls_pop1]

theorem stateEls_closeAll : ∀ (k : Nat) (t : TState), stateEls (closeAll k t) = stateEls t
  | 0, _ => rfl
  | k + 1, t => by
    unfold closeAll
    cases ht : t.stack with
    | nil => rfl
    | cons f fs =>
      simp only
      rw [stateEls_closeAll k, stateEls_pop1]

theorem closeAll_stack : ∀ (k : Nat) (t : TState), t.stack.length ≤ k → (closeAll k t).stack = []
  | 0, t, h => by
    have : t.stack = [] := List.length_eq_zero_iff.mp (Nat.le_zero.mp h)
    simpa [closeAll] using this
  | k + 1, t, h => by
    unfold closeAll
    cases ht : t.stack with
    | nil => simpa using ht
    | cons f fs =>
      simp only
      apply closeAll_stack k
      have hl : (pop1 t).stack.length = fs.length := by
        unfold pop1
        rw [ht]
        simp only [len_addNode]
      rw [hl]; rw [ht] at h; simp at h; omega

/-- the elements of the document `finish` reports -/
theorem finish_els (t : TState) :
    (match (finish t).root with | some r => els r | none => []) = stateEls t := by
  have h1 := stateEls_closeAll t.stack.length t
  have h2 := closeAll_stack t.stack.length t (Nat.le_refl _)
  unfold finish
  rw [← h1]
  simp [stateEls, h2]

theorem stateEls_handleStart {t t' : TState} {n : Str} {a : List Attr} {sc : Bool}
    (h : handleStart t n a sc = .ok t') : stateEls t' = stateEls t ++ [(lower n, intake a AttrState.empty)] := by
  unfold handleStart at h
  simp only at h
  split at h
  · rename_i hg
    have hroot : t.stack = [] → stateEls t = [] := by
      intro he
      have : t.root = none := by
        cases hr : t.root with
        | none => rfl
        | some r => simp [TState.hasRoot, he, hr] at hg
      simp [stateEls, he, this]
    split at h
    · injection h with h; subst h
      by_cases he : t.stack = []
      · rw [stateEls_addNode_top _ _ he, hroot he]; simp
      · rw [stateEls_addNode_open _ _ he]; simp
    · injection h with h; subst h
      by_cases he : t.stack = []
      · rw [hroot he]; simp [stateEls, stackEls, he]
      · cases ht : t.stack with
        | nil => exact absurd ht he
        | cons f fs => simp [stateEls, stackEls, ht]
  · cases h

/-- **one callback** adds exactly the element it creates, at the end of the document order -/
theorem stateEls_stepT {t t' : TState} {tok : Token} (h : stepT t tok = .ok t') :
    stateEls t' = stateEls t ++ created tok := by
  have text : ∀ x : Str, addTextStrict t x = .ok t' → stateEls t' = stateEls t ++ [] := by
    intro x hx
    unfold addTextStrict at hx
    split at hx
    · cases hx
    · rename_i he
      injection hx with hx; subst hx
      rw [stateEls_addNode_open _ _ (by intro h0; simp [h0] at he)]; simp
  cases tok with
  | start n a => exact stateEls_handleStart h
  | startend n a => exact stateEls_handleStart h
  | end_ n =>
    simp only [stepT, Outcome.ok.injEq] at h
    subst h
    simp only [created, List.append_nil]
    unfold handleEnd
    split
    · exact stateEls_popTo n _ t
    · rfl
  | data d =>
    simp only [stepT] at h
    simp only [created, List.append_nil]
    split at h
    · injection h with h; subst h; rfl
    · split at h
      · rename_i he
        injection h with h; subst h
        rw [stateEls_addNode_open _ _ (by intro h0; simp [h0] at he)]; simp
      · split at h
        · injection h with h; subst h; rfl
        · cases h
  | entity e => exact text _ h
  | charref c => exact text _ h
  | comment c => exact text _ h
  | decl d => simp only [stepT, Outcome.ok.injEq] at h; subst h; simp [created]
  | unknownDecl d => simp only [stepT, Outcome.ok.injEq] at h; subst h; simp [created]
  | pi p => simp only [stepT, Outcome.ok.injEq] at h; subst h; simp [created]

/-- **a pass**: the elements of the state are those it had plus one per start token, in token order -/
theorem run_els : ∀ (ts : List Token) (b b' : BState), run b ts = .ok b' →
    stateEls b'.tree = stateEls b.tree ++ ts.flatMap created
  | [], b, b', h => by simp only [run, Outcome.ok.injEq] at h; subst h; simp
  | tok :: ts, b, b', h => by
    rw [run_unfold] at h
    cases ho : stepT b.tree tok with
    | ok t1 =>
      rw [ho] at h
      have := run_els ts ⟨t1, stepD b.doctype tok⟩ b' h
      rw [this, stateEls_stepT ho]
      simp
    | multipleRoot => rw [ho] at h; cases h
    | invalidClose => rw [ho] at h; cases h
    | missedClose => rw [ho] at h; cases h
    | invalidAttr => rw [ho] at h; cases h

/-- the elements of a parsed document, document order -/
def docEls (d : Doc) : List (Str × AttrState) := match d.root with | some r => els r | none => []

theorem doc_els (ts : List Token) (b : BState) (h : run BState.init ts = .ok b) : docEls b.doc = ts.flatMap created := by
  have := run_els ts BState.init b h
  unfold docEls BState.doc
  rw [finish_els, this]
  simp [stateEls, BState.init, TState.init]

/-! ### … and the hub's numbering is that order -/

def HN.key : HN → Str × AttrState
  | .text _ => ([], AttrState.empty)
  | .el _ n a _ _ => (n, a)

mutual
theorem els_toTree : ∀ (h : HN) (p : Option Nat), els h.toTree = (h.subs p).map (fun e => e.2.key)
  | .text _, _ => by simp
  | .el i n a sc ks, p => by simp [HN.key, elsL_toTreeL ks (some i)]
theorem elsL_toTreeL : ∀ (ks : List HN) (p : Option Nat), elsL (toTreeL ks) = (subsL p ks).map (fun e => e.2.key)
  | [], _ => by simp
  | k :: ks, p => by simp [els_toTree k p, elsL_toTreeL ks p]
end

end AHP.TM
