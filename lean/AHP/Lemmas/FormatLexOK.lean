/-
  AHP.Lemmas.FormatLexOK — the formatter's output text is in the domain of the strict lexer.

  `FNode.Strict`: the strict sub-language at tree level (well-formed names, attribute items, text-like tokens other
  than the data singletons, raw-text content free of the closing expression, attribute stores that are re-read
  unchanged from their own rendering).  It is preserved by `expand` (`strict_expand`: the `_indent`s are white space,
  the data rule only moves white space) and by `mergeL` (`strict_mergeL`), and together with `Glued` (no two data
  blocks adjacent — what `mergeL` establishes, `glued_mergeL`) it gives `ListOK` of the token sequence
  (`fforest_listOK`), hence `lexStrict (render …) = some …` by C01's `lexStrict_renderToks`.
-/
import AHP.Lemmas.FormatLex
import AHP.Lemmas.LexRawTree
namespace AHP.Fmt
open AHP

/-! ### data runs -/

/-- a data run that is one token of the lexer: not empty, no `<`, no `&` -/
def PlainData (s : Str) : Prop := s ≠ [] ∧ ∀ c ∈ s, c ≠ '<' ∧ c ≠ '&'

theorem plainData_tok (s : Str) (h : PlainData s) : TokOK (.data s) ∧ NotSingleton (.data s) := by
  obtain ⟨hne, hall⟩ := h
  obtain ⟨c, cs, rfl⟩ := List.exists_cons_of_ne_nil hne
  have hc := hall c (by simp)
  refine ⟨Or.inr (Or.inr ⟨hne, hall⟩), ?_, ?_⟩
  · intro e; simp at e; exact hc.1 e.1
  · intro e; simp at e; exact hc.2 e.1

theorem plainData_of_tok (s : Str) (h1 : TokOK (.data s)) (h2 : NotSingleton (.data s)) : PlainData s := by
  rcases h1 with h | h | h
  · exact absurd h h2.1
  · exact absurd h h2.2
  · exact h

theorem plainData_append (a b : Str) (ha : PlainData a) (hb : PlainData b) : PlainData (a ++ b) := by
  refine ⟨by simp [ha.1], ?_⟩
  intro c hc
  rcases List.mem_append.mp hc with h | h
  · exact ha.2 c h
  · exact hb.2 c h

/-- line feed, spaces, tabs: what an `_indent` of the pretty classes consists of -/
def WsStr (s : Str) : Prop := ∀ c ∈ s, c = '\n' ∨ c = ' ' ∨ c = '\t'

theorem wsStr_isWs (s : Str) (h : WsStr s) : ∀ c ∈ s, isWs c = true := by
  intro c hc
  rcases h c hc with e | e | e <;> (subst e; decide)

theorem wsStr_pyWs (s : Str) (h : WsStr s) : ∀ c ∈ s, pyWs c = true := by
  intro c hc
  rcases h c hc with e | e | e <;> (subst e; decide)

theorem wsStr_plain (s : Str) (h : WsStr s) (hne : s ≠ []) : PlainData s := by
  refine ⟨hne, ?_⟩
  intro c hc
  rcases h c hc with e | e | e <;> (subst e; decide)

theorem wsStr_append (a b : Str) (ha : WsStr a) (hb : WsStr b) : WsStr (a ++ b) := by
  intro c hc
  rcases List.mem_append.mp hc with h | h
  · exact ha c h
  · exact hb c h

/-- the indent unit is made of spaces and tabs (every shipped configuration; `mkCfg` with a string of anything
    else is outside the property) -/
def IndentWS (cfg : Cfg) : Prop := ∀ c ∈ cfg.indent, c = ' ' ∨ c = '\t'

instance (cfg : Cfg) : Decidable (IndentWS cfg) := inferInstanceAs (Decidable (∀ c ∈ cfg.indent, c = ' ' ∨ c = '\t'))

theorem rep_ws (n : Nat) (s : Str) (h : ∀ c ∈ s, c = ' ' ∨ c = '\t') : WsStr (rep n s) := by
  induction n with
  | zero => intro c hc; simp [rep] at hc
  | succ k ih =>
    intro c hc
    simp only [rep, List.mem_append] at hc
    rcases hc with hc | hc
    · rcases h c hc with e | e
      · exact Or.inr (Or.inl e)
      · exact Or.inr (Or.inr e)
    · exact ih c hc

theorem getIndent_ws (cfg : Cfg) (h : IndentWS cfg) (level : Int) : WsStr (getIndent cfg level) := by
  unfold getIndent
  split
  · intro c hc; simp at hc
  · intro c hc
    rcases List.mem_cons.mp hc with e | e
    · exact Or.inl e
    · exact rep_ws _ _ h c e

theorem indentAt_ws (cfg : Cfg) (h : IndentWS cfg) (c : Ctx) : WsStr (indentAt cfg c) := by
  unfold indentAt
  split
  · exact getIndent_ws cfg h _
  · intro c hc; simp at hc

theorem endInd_ws (n ind : Str) (kids : List Node) (h : WsStr ind) : WsStr (endInd n ind kids) := by
  unfold endInd
  split
  · intro c hc; simp at hc
  · split
    · intro c hc; simp at hc
    · exact h

/-! ### the data rule keeps the characters -/

theorem mem_of_prefix {a l : Str} (h : a <+: l) : ∀ c ∈ a, c ∈ l := fun _ hc => h.subset hc

theorem rdropWhile_mem (p : Char → Bool) (l : Str) : ∀ c ∈ rdropWhile p l, c ∈ l :=
  mem_of_prefix (rdropWhile_prefix p l)

theorem dropWhile_mem (p : Char → Bool) (l : Str) : ∀ c ∈ l.dropWhile p, c ∈ l :=
  fun _ hc => (List.dropWhile_suffix p).subset hc

theorem sqC_mem (m : Str) : ∀ c ∈ sqC m, c ∈ m := by
  intro c hc
  exact dropWhile_mem _ _ c (rdropWhile_mem _ _ c hc)

theorem sqL_mem (d : Str) : ∀ c ∈ sqL d, c = ' ' ∨ c ∈ d := by
  intro c hc
  unfold sqL at hc
  split at hc
  · rcases List.mem_cons.mp hc with e | e
    · exact Or.inl e
    · exact Or.inr (dropWhile_mem _ _ c e)
  · exact Or.inr hc

theorem sqT_mem (d : Str) : ∀ c ∈ sqT d, c = ' ' ∨ c ∈ d := by
  intro c hc
  unfold sqT at hc
  split at hc
  · rcases List.mem_append.mp hc with e | e
    · exact Or.inr (rdropWhile_mem _ _ c e)
    · exact Or.inl (by simpa using e)
  · exact Or.inr hc

/-- the data rule writes only characters of the piece, and spaces -/
theorem squeeze_mem (s : Str) : ∀ c ∈ squeeze s, c = ' ' ∨ c ∈ s := by
  intro c hc
  rw [squeeze_eq] at hc
  have hmap : ∀ x ∈ s.map tabToSpace, x = ' ' ∨ x ∈ s := by
    intro x hx
    obtain ⟨y, hy, rfl⟩ := List.mem_map.mp hx
    unfold tabToSpace
    split
    · exact Or.inl rfl
    · exact Or.inr hy
  rcases sqT_mem _ c hc with e | e
  · exact Or.inl e
  · rcases sqL_mem _ c e with e | e
    · exact Or.inl e
    · exact hmap c (sqC_mem _ c e)

theorem dataRule_plain (c : Ctx) (p : Str) (s : Str) (h : PlainData s) (hne : dataRule c p s ≠ []) :
    PlainData (dataRule c p s) := by
  refine ⟨hne, ?_⟩
  intro x hx
  unfold dataRule at hx
  split at hx
  · rcases squeeze_mem s x hx with e | e
    · subst e; decide
    · exact h.2 x e
  · exact h.2 x hx

/-! ### the strict sub-language at tree level -/

def fisDataTok : FNode → Bool
  | .tok (.data _) => true
  | _ => false

/-- the concatenated text of a block list made of non-empty data blocks only -/
def rawText : List FNode → Option Str
  | [] => some []
  | .tok (.data s) :: ks => if s.isEmpty then none else (rawText ks).map (s ++ ·)
  | _ => none

mutual
def FNode.Strict : FNode → Prop
  | .tok t => TokOK t ∧ NotSingleton t ∧ isTextLike t = true
  | .elem n st sc kids =>
      TagNameOK n ∧ (Fmt.isVoid n = true → sc = true) ∧ (sc = true → kids = []) ∧ (∀ x ∈ st.items, AttrOK x) ∧
      mkStore st.items {} = st ∧
      (if isRawText n = true then ∃ raw, rawText kids = some raw ∧ RawOK n raw else StrictL kids)
def StrictL : List FNode → Prop
  | [] => True
  | k :: ks => k.Strict ∧ StrictL ks
end

theorem strictL_append (xs ys : List FNode) : StrictL (xs ++ ys) ↔ StrictL xs ∧ StrictL ys := by
  induction xs with
  | nil => simp [StrictL]
  | cons x xs ih => simp [StrictL, ih, and_assoc]

theorem strict_dataTok (s : Str) (h : s ≠ [] → PlainData s) : StrictL (dataTok s) := by
  unfold dataTok
  by_cases he : s.isEmpty = true
  · simp [he, StrictL]
  · have hne : s ≠ [] := by simpa using he
    have := plainData_tok s (h hne)
    simp [he, StrictL, FNode.Strict, this.1, this.2, isTextLike]

mutual
theorem strict_textLike : ∀ u : FNode, u.Strict → u.TextLike
  | .tok t, h => by simp only [FNode.Strict] at h; exact h.2.2
  | .elem n st sc kids, h => by
    simp only [FNode.Strict] at h
    simp only [FNode.TextLike]
    obtain ⟨_, _, _, _, _, hk⟩ := h
    by_cases hr : isRawText n = true
    · simp only [hr, if_true] at hk
      obtain ⟨raw, hraw, _⟩ := hk
      exact rawText_textLike kids raw hraw
    · simp only [hr] at hk
      exact strictL_textLike kids hk
theorem strictL_textLike : ∀ ks : List FNode, StrictL ks → TextLikeL ks
  | [], _ => trivial
  | k :: ks, h => by
    simp only [StrictL] at h
    exact ⟨strict_textLike k h.1, strictL_textLike ks h.2⟩
theorem rawText_textLike : ∀ (ks : List FNode) (raw : Str), rawText ks = some raw → TextLikeL ks
  | [], _, _ => trivial
  | .tok (.data s) :: ks, raw, h => by
    simp only [rawText] at h
    by_cases he : s.isEmpty = true
    · simp [he] at h
    · simp only [he, Bool.false_eq_true, if_false, Option.map_eq_some_iff] at h
      obtain ⟨r', hr', _⟩ := h
      exact ⟨by simp [FNode.TextLike, isTextLike], rawText_textLike ks r' hr'⟩
  | .tok (.entity _) :: _, _, h => by simp [rawText] at h
  | .tok (.charref _) :: _, _, h => by simp [rawText] at h
  | .tok (.comment _) :: _, _, h => by simp [rawText] at h
  | .tok (.decl _) :: _, _, h => by simp [rawText] at h
  | .tok (.unknownDecl _) :: _, _, h => by simp [rawText] at h
  | .tok (.pi _) :: _, _, h => by simp [rawText] at h
  | .tok (.start _ _) :: _, _, h => by simp [rawText] at h
  | .tok (.startend _ _) :: _, _, h => by simp [rawText] at h
  | .tok (.end_ _) :: _, _, h => by simp [rawText] at h
  | .elem _ _ _ _ :: _, _, h => by simp [rawText] at h
end

/-! ### `expand` keeps the tree strict -/

theorem rawName_preserve (n : Str) (h : isRawText n = true) : isPreserve n = true := by
  rcases rawName_cases n h with rfl | rfl <;> decide

/-- a head that `rawText` accepts is a non-empty data block -/
theorem rawText_cons (k : FNode) (ks : List FNode) (raw : Str) (h : rawText (k :: ks) = some raw) :
    ∃ s r', k = .tok (.data s) ∧ s ≠ [] ∧ rawText ks = some r' ∧ raw = s ++ r' := by
  cases k with
  | elem n st sc kids => simp [rawText] at h
  | tok t =>
    cases t with
    | data s =>
      simp only [rawText] at h
      by_cases he : s.isEmpty = true
      · simp [he] at h
      · simp only [he, Bool.false_eq_true, if_false, Option.map_eq_some_iff] at h
        obtain ⟨r', hr', e⟩ := h
        exact ⟨s, r', rfl, by simpa using he, hr', e.symm⟩
    | _ => simp [rawText] at h

theorem dataTok_ne (s : Str) (h : s ≠ []) : dataTok s = [.tok (.data s)] := by
  have : s.isEmpty = false := by cases s <;> simp_all
  simp [dataTok, this]

/-- below a raw-text element nothing is rewritten -/
theorem expandL_raw (cfg : Cfg) (c : Ctx) (n : Str) (hp : isPreserve n = true) :
    ∀ (ks : List FNode) (raw : Str), rawText ks = some raw → expandL cfg c n ks = ks
  | [], _, _ => rfl
  | k :: ks, raw, h => by
    obtain ⟨s, r', rfl, hs, hr', _⟩ := rawText_cons k ks raw h
    simp only [expandL, expand, expandTok, dataRule, hp, Bool.not_true, Bool.and_false, Bool.false_eq_true,
      if_false]
    rw [dataTok_ne s hs, expandL_raw cfg c n hp ks r' hr']
    rfl

theorem rawText_append_dataTok : ∀ (ks : List FNode) (raw e : Str), rawText ks = some raw →
    rawText (ks ++ dataTok e) = some (raw ++ e)
  | [], raw, e, h => by
    simp only [rawText, Option.some.injEq] at h
    subst h
    unfold dataTok
    by_cases he : e.isEmpty = true
    · have : e = [] := by simpa using he
      subst this; simp [rawText]
    · simp [he, rawText]
  | k :: ks, raw, e, h => by
    obtain ⟨s, r', rfl, hs, hr', rfl⟩ := rawText_cons k ks raw h
    have hse : s.isEmpty = false := by cases s <;> simp_all
    simp only [List.cons_append, rawText, hse, Bool.false_eq_true, if_false]
    rw [rawText_append_dataTok ks r' e hr']
    simp

mutual
theorem strict_expand (cfg : Cfg) (hi : IndentWS cfg) (c : Ctx) (p : Str) :
    ∀ u : FNode, u.Strict → StrictL (expand cfg c p u)
  | .tok t, h => by
    simp only [FNode.Strict] at h
    simp only [expand]
    cases t with
    | data s =>
      simp only [expandTok]
      exact strict_dataTok _ (fun hne => dataRule_plain c p s (plainData_of_tok s h.1 h.2.1) hne)
    | entity e => simpa [expandTok, StrictL, FNode.Strict] using h
    | charref e => simpa [expandTok, StrictL, FNode.Strict] using h
    | comment e => simpa [expandTok, StrictL, FNode.Strict] using h
    | decl d => simp [isTextLike] at h
    | unknownDecl d => simp [isTextLike] at h
    | pi d => simp [isTextLike] at h
    | start n a => simp [isTextLike] at h
    | startend n a => simp [isTextLike] at h
    | end_ n => simp [isTextLike] at h
  | .elem n st sc kids, h => by
    simp only [FNode.Strict] at h
    obtain ⟨hn, hv, hsc, hattrs, hstable, hk⟩ := h
    have hind := indentAt_ws cfg hi c
    simp only [expand]
    rw [strictL_append]
    refine ⟨strict_dataTok _ (fun hne => wsStr_plain _ hind hne), ?_, trivial⟩
    simp only [FNode.Strict]
    refine ⟨hn, hv, ?_, hattrs, hstable, ?_⟩
    · intro hs; simp [hs]
    · have he := endInd_ws n (indentAt cfg c) (decorateL cfg (c.push n) n (toNodeL kids)) hind
      by_cases hr : isRawText n = true
      · simp only [hr, if_true] at hk ⊢
        obtain ⟨raw, hraw, hok⟩ := hk
        cases sc with
        | true => exact ⟨[], by simp [rawText], trivial⟩
        | false =>
          simp only [Bool.false_eq_true, if_false]
          rw [expandL_raw cfg (c.push n) n (rawName_preserve n hr) kids raw hraw]
          refine ⟨raw ++ endInd n (indentAt cfg c) (decorateL cfg (c.push n) n (toNodeL kids)),
            rawText_append_dataTok kids raw _ hraw, ?_⟩
          obtain ⟨_, hne, _, _, _, _⟩ := rawName_facts n hr
          exact rawOK_append_ws n raw _ hne (rawName_noWs n hr) (wsStr_isWs _ he) hok
      · simp only [hr] at hk ⊢
        cases sc with
        | true => simp [StrictL]
        | false =>
          simp only [Bool.false_eq_true, if_false]
          rw [strictL_append]
          exact ⟨strict_expandL cfg hi (c.push n) n kids hk, strict_dataTok _ (fun hne => wsStr_plain _ he hne)⟩
theorem strict_expandL (cfg : Cfg) (hi : IndentWS cfg) (c : Ctx) (p : Str) :
    ∀ ks : List FNode, StrictL ks → StrictL (expandL cfg c p ks)
  | [], _ => by simp [expandL, StrictL]
  | k :: ks, h => by
    simp only [StrictL] at h
    simp only [expandL]
    rw [strictL_append]
    exact ⟨strict_expand cfg hi c p k h.1, strict_expandL cfg hi c p ks h.2⟩
end

/-! ### `mergeL` keeps the tree strict and leaves no two data blocks adjacent -/

def FNoAdjL : List FNode → Prop
  | k₁ :: k₂ :: ks => ¬ (fisDataTok k₁ = true ∧ fisDataTok k₂ = true) ∧ FNoAdjL (k₂ :: ks)
  | _ => True

mutual
def FNode.Glued : FNode → Prop
  | .tok _ => True
  | .elem _ _ _ kids => GluedL kids ∧ FNoAdjL kids
def GluedL : List FNode → Prop
  | [] => True
  | k :: ks => k.Glued ∧ GluedL ks
end

theorem strict_pushTok (t : Token) (r : List FNode) (ht : (FNode.tok t).Strict) (hr : StrictL r) :
    StrictL (pushTok t r) := by
  unfold pushTok
  split
  · rename_i a b r'
    simp only [StrictL, FNode.Strict] at ht hr ⊢
    have := plainData_tok _ (plainData_append a b (plainData_of_tok a ht.1 ht.2.1)
      (plainData_of_tok b hr.1.1 hr.1.2.1))
    exact ⟨⟨this.1, this.2, rfl⟩, hr.2⟩
  · exact ⟨ht, hr⟩

theorem rawText_pushTok (s : Str) (hs : s ≠ []) (r : List FNode) (raw : Str) (h : rawText r = some raw) :
    rawText (pushTok (.data s) r) = some (s ++ raw) := by
  have hse : s.isEmpty = false := by cases s <;> simp_all
  cases r with
  | nil =>
    simp only [rawText, Option.some.injEq] at h
    subst h
    simp [pushTok, rawText, hse]
  | cons k ks =>
    obtain ⟨b, r', rfl, hb, hr', rfl⟩ := rawText_cons k ks raw h
    have hab : (s ++ b).isEmpty = false := by cases s <;> simp_all
    simp [pushTok, rawText, hab, hr']

theorem rawText_mergeL : ∀ (ks : List FNode) (raw : Str), rawText ks = some raw → rawText (mergeL ks) = some raw
  | [], _, h => by simpa [mergeL] using h
  | k :: ks, raw, h => by
    obtain ⟨s, r', rfl, hs, hr', rfl⟩ := rawText_cons k ks raw h
    simp only [mergeL]
    exact rawText_pushTok s hs _ r' (rawText_mergeL ks r' hr')

mutual
theorem strict_merge : ∀ u : FNode, u.Strict → (merge u).Strict
  | .tok t, h => by simpa [merge] using h
  | .elem n st sc kids, h => by
    simp only [FNode.Strict] at h
    obtain ⟨hn, hv, hsc, hattrs, hstable, hk⟩ := h
    simp only [merge, FNode.Strict]
    refine ⟨hn, hv, ?_, hattrs, hstable, ?_⟩
    · intro hs; rw [hsc hs]; simp [mergeL]
    · by_cases hr : isRawText n = true
      · simp only [hr, if_true] at hk ⊢
        obtain ⟨raw, hraw, hok⟩ := hk
        exact ⟨raw, rawText_mergeL kids raw hraw, hok⟩
      · simp only [hr] at hk ⊢
        exact strict_mergeL kids hk
theorem strict_mergeL : ∀ ks : List FNode, StrictL ks → StrictL (mergeL ks)
  | [], _ => by simp [mergeL, StrictL]
  | .tok t :: ks, h => by
    simp only [StrictL] at h
    simp only [mergeL]
    exact strict_pushTok t _ h.1 (strict_mergeL ks h.2)
  | .elem n st sc kids :: ks, h => by
    simp only [StrictL] at h
    have h1 := strict_merge (.elem n st sc kids) h.1
    simp only [merge] at h1
    simp only [mergeL, StrictL]
    exact ⟨h1, strict_mergeL ks h.2⟩
end

theorem glued_pushTok (t : Token) (r : List FNode) (hg : GluedL r) (ha : FNoAdjL r) :
    GluedL (pushTok t r) ∧ FNoAdjL (pushTok t r) := by
  unfold pushTok
  split
  · rename_i a b r'
    simp only [GluedL] at hg
    refine ⟨⟨trivial, hg.2⟩, ?_⟩
    cases r' with
    | nil => trivial
    | cons k2 ks2 => exact ⟨by simpa [fisDataTok] using ha.1, ha.2⟩
  · rename_i hno
    refine ⟨⟨trivial, hg⟩, ?_⟩
    cases r with
    | nil => trivial
    | cons k2 ks2 =>
      refine ⟨?_, ha⟩
      rintro ⟨h1, h2⟩
      cases t with
      | data a =>
        cases k2 with
        | elem n st sc kids => simp [fisDataTok] at h2
        | tok t2 =>
          cases t2 with
          | data b => exact hno a b ks2 rfl rfl
          | _ => simp [fisDataTok] at h2
      | _ => simp [fisDataTok] at h1

mutual
theorem glued_merge : ∀ u : FNode, (merge u).Glued
  | .tok t => by simp [merge, FNode.Glued]
  | .elem n st sc kids => by
    simp only [merge, FNode.Glued]
    exact glued_mergeL kids
theorem glued_mergeL : ∀ ks : List FNode, GluedL (mergeL ks) ∧ FNoAdjL (mergeL ks)
  | [] => by simp [mergeL, GluedL, FNoAdjL]
  | .tok t :: ks => by
    have ih := glued_mergeL ks
    simp only [mergeL]
    exact glued_pushTok t _ ih.1 ih.2
  | .elem n st sc kids :: ks => by
    have ih := glued_mergeL ks
    have h1 := glued_merge (.elem n st sc kids)
    simp only [merge] at h1
    simp only [mergeL]
    refine ⟨⟨h1, ih.1⟩, ?_⟩
    cases hm : mergeL ks with
    | nil => trivial
    | cons k2 ks2 =>
      rw [hm] at ih
      exact ⟨by simp [fisDataTok], ih.2⟩
end

/-! ### strict and glued: the token sequence is in the serialiser's image (`ListOK`) -/

/-- a glued raw-text block list is empty or one data block -/
theorem rawText_noAdj (ks : List FNode) (raw : Str) (h : rawText ks = some raw) (ha : FNoAdjL ks) :
    (ks = [] ∧ raw = []) ∨ (ks = [.tok (.data raw)] ∧ raw ≠ []) := by
  cases ks with
  | nil => left; simp [rawText] at h; exact ⟨rfl, h⟩
  | cons k ks =>
    right
    obtain ⟨s, r', rfl, hs, hr', rfl⟩ := rawText_cons k ks raw h
    cases ks with
    | nil =>
      simp only [rawText, Option.some.injEq] at hr'
      subst hr'
      simp [hs]
    | cons k2 ks2 =>
      obtain ⟨s2, _, rfl, _, _, _⟩ := rawText_cons k2 ks2 r' hr'
      exact absurd ⟨rfl, rfl⟩ ha.1

theorem ftoks_head_markup (k : FNode) (h : k.Strict) (hd : fisDataTok k = false) (rest : List Token) :
    StartsMarkup (renderToks (k.toks ++ rest)) := by
  cases k with
  | tok t =>
    simp only [FNode.Strict] at h
    have hnd : isData t = false := by
      cases t <;> simp_all [fisDataTok, isData]
    obtain ⟨r, hr⟩ := render_head t h.1 hnd
    right
    rcases hr with hr | hr
    · exact ⟨r ++ renderToks rest, Or.inl (by simp [FNode.toks, renderToks, hr])⟩
    · exact ⟨r ++ renderToks rest, Or.inr (by simp [FNode.toks, renderToks, hr])⟩
  | elem n st sc kids =>
    right
    unfold FNode.toks
    cases sc with
    | true => exact ⟨_, Or.inl (by simp [renderToks, renderTok]; rfl)⟩
    | false => exact ⟨_, Or.inl (by simp [renderToks, renderTok]; rfl)⟩

mutual
theorem fnode_listOK (t : FNode) (h : t.Strict) (hg : t.Glued) (tail : List Token) (htail : ListOK tail)
    (hb : fisDataTok t = true → StartsMarkup (renderToks tail)) : ListOK (t.toks ++ tail) := by
  match t, h, hg with
  | .tok tk, h, _ =>
    simp only [FNode.Strict] at h
    simp only [FNode.toks, List.cons_append, List.nil_append]
    refine .cons h.1 ?_ htail
    cases tk with
    | data s => exact follows_of_startsMarkup _ h.2.1 _ (hb rfl)
    | _ => trivial
  | .elem n st sc kids, h, hg =>
    simp only [FNode.Strict] at h
    obtain ⟨hn, _, hsc, hattrs, _, hk⟩ := h
    simp only [FNode.Glued] at hg
    unfold FNode.toks
    cases hs : sc with
    | true =>
      simp only [if_true, List.cons_append, List.nil_append]
      exact .cons ⟨hn, hattrs⟩ trivial htail
    | false =>
      simp only [Bool.false_eq_true, if_false, List.cons_append, List.append_assoc]
      by_cases hr : isRawText n = true
      · simp only [hr, if_true] at hk
        obtain ⟨raw, hraw, hok⟩ := hk
        rcases rawText_noAdj kids raw hraw hg.2 with ⟨rfl, _⟩ | ⟨rfl, hne⟩
        · exact .rawEmpty hr hattrs htail
        · exact .raw hr hattrs hne hok htail
      · simp only [hr] at hk
        have hr' : isRawText n = false := by simpa using hr
        refine .cons ⟨hn, hr', hattrs⟩ trivial ?_
        exact fforest_listOK kids hk hg.1 hg.2 (.end_ n :: tail) (.cons hn trivial htail)
          (startsMarkup_endTag n tail)
theorem fforest_listOK (ks : List FNode) (h : StrictL ks) (hg : GluedL ks) (hadj : FNoAdjL ks) (tail : List Token)
    (htail : ListOK tail) (hb : StartsMarkup (renderToks tail)) : ListOK (ftoksL ks ++ tail) := by
  match ks, h, hg with
  | [], _, _ => simpa [ftoksL] using htail
  | k :: ks, h, hg =>
    simp only [StrictL] at h
    simp only [GluedL] at hg
    have hadj' : FNoAdjL ks := by
      cases ks with
      | nil => trivial
      | cons k2 ks2 => exact hadj.2
    have ih := fforest_listOK ks h.2 hg.2 hadj' tail htail hb
    unfold ftoksL
    rw [List.append_assoc]
    refine fnode_listOK k h.1 hg.1 _ ih ?_
    intro hkd
    match ks, h.2, hadj with
    | [], _, _ => simpa [ftoksL] using hb
    | k2 :: ks2, h2, hadj =>
      have hd2 : fisDataTok k2 = false := by
        cases hd : fisDataTok k2 with
        | false => rfl
        | true => exact absurd ⟨hkd, hd⟩ hadj.1
      simp only [StrictL] at h2
      unfold ftoksL
      rw [List.append_assoc]
      exact ftoks_head_markup k2 h2.1 hd2 _
end

end AHP.Fmt
