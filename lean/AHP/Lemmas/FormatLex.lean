/-
  AHP.Lemmas.FormatLex — bridge between the formatter model (`Model/Format.lean`, tokens `Fmt.Tok`, tree
  `Fmt.Node`, serialiser `outer`) and the character-level lexer of C01 (`Model/Lexer.lean`, tokens `Token`,
  rendering `renderTok` / `renderToks` of `Lemmas/LexRoundTrip.lean`).

  * `Tok.ofToken` — the conversion between the two token types; the serialisers agree (`escapeQuotes_eq`,
    `renderAttr_eq`, `attrString_eq`, `startTagNormal_eq`).
  * `FNode` — a document tree in *lexical form* (every text block is one text-like token; the form of every tree a
    parse of strict text produces), `FNode.toNode` its image among the formatter model's trees, `FNode.toks`
    its token sequence.
  * `expand` — what the formatter's output *text* is made of, as a tree in lexical form again: every `_indent` the
    formatter gives an element becomes a data block before the start tag (and before the end tag where `getEndTag`
    writes it), data blocks are rewritten by the data rule, empty ones vanish.
    `outer_decorate_eq`: the serialisation of the decorated tree is the rendering of that tree's tokens, in the
    start-tag style of the formatter's element class (`styleOf`: normal ` >` / ` />`, slim `>` / `/>`).
  * `mergeL` — adjacent data blocks glued (what re-tokenising does); same rendering (`render_mergeL`).
-/
import AHP.Lemmas.Format
import AHP.Lemmas.LexRoundTrip
import AHP.Lemmas.FormatLexSlim
namespace AHP.Fmt
open AHP

/-! ### the two token types -/

def Tok.ofToken : Token → Tok
  | .decl s => .decl s
  | .unknownDecl s => .unknownDecl s
  | .comment s => .comment s
  | .pi s => .pi s
  | .start n a => .start n a
  | .startend n a => .startend n a
  | .end_ n => .end_ n
  | .data s => .data s
  | .entity s => .entity s
  | .charref s => .charref s

def Tok.toToken : Tok → Token
  | .decl s => .decl s
  | .unknownDecl s => .unknownDecl s
  | .comment s => .comment s
  | .pi s => .pi s
  | .start n a => .start n a
  | .startend n a => .startend n a
  | .end_ n => .end_ n
  | .data s => .data s
  | .entity s => .entity s
  | .charref s => .charref s

theorem Tok.toToken_ofToken (t : Token) : (Tok.ofToken t).toToken = t := by cases t <;> rfl
theorem Tok.ofToken_toToken (t : Tok) : Tok.ofToken t.toToken = t := by cases t <;> rfl

/-! ### the serialisers agree -/

/-- table obligation: both models render the same attributes bare -/
theorem binaryAttrs_eq : Fmt.binaryAttrs = AHP.binaryAttrs := by decide

theorem escapeQuotes_eq (v : Str) : escapeQuotes v = escQ v := by
  induction v with
  | nil => rfl
  | cons c cs ih =>
    unfold escQ
    by_cases hc : c = '"'
    · simp only [hc, if_true]
      rw [← ih]
      simp [escapeQuotes, str]
    · simp only [hc, if_false]
      rw [← ih]
      simp [escapeQuotes, hc]

theorem renderAttr_eq (p : Str × Option Str) : Fmt.renderAttr p = AHP.renderAttr p := by
  obtain ⟨n, v⟩ := p
  cases v with
  | none => rfl
  | some v =>
    simp only [Fmt.renderAttr, AHP.renderAttr, binaryAttrs_eq, escapeQuotes_eq]
    by_cases h1 : v.isEmpty = true <;> by_cases h2 : AHP.binaryAttrs.contains n = true <;> simp [h1, h2, str]

theorem attrString_eq (a : AStore) : attrString a = renderAttrs a.items := by
  unfold attrString renderAttrs
  have : a.items.map Fmt.renderAttr = a.items.map AHP.renderAttr := by
    apply List.map_congr_left
    intro p _
    exact renderAttr_eq p
  rw [this]
  simp

/-- the start tag of the normal element class is the `_indent` followed by the rendering of the start token -/
theorem startTagNormal_eq (n : Str) (st : AStore) (sc : Bool) (ind : Str) :
    startTagNormal n st sc ind
      = ind ++ renderTok (if sc then .startend n st.items else .start n st.items) := by
  unfold startTagNormal
  rw [attrString_eq]
  cases sc <;> simp [renderTok, str]

/-- how the element class of a formatter ends its start tags -/
def styleOf : Kind → TagStyle
  | .normal => TagStyle.normal
  | .slim ssc => TagStyle.slim ssc

theorem styleOf_ok (k : Kind) : (styleOf k).OK := by
  cases k with
  | normal => exact TagStyle.normal_ok
  | slim ssc => exact TagStyle.slim_ok ssc

/-- the start tag of either element class is the `_indent` followed by the rendering of the start token in the
    class's style (`AdvancedTagSlim.getStartTag`'s string surgery included) -/
theorem startTag_eq (k : Kind) (n : Str) (st : AStore) (sc : Bool) (ind : Str) :
    startTag k n st sc ind
      = ind ++ renderTokY (styleOf k) (if sc then .startend n st.items else .start n st.items) := by
  cases k with
  | normal =>
    rw [show startTag .normal n st sc ind = startTagNormal n st sc ind from rfl, startTagNormal_eq]
    simp only [styleOf, renderTokY_normal]
  | slim ssc =>
    rw [startTag_slim, attrString_eq]
    cases sc <;> cases ssc <;> simp [styleOf, TagStyle.slim, renderTokY, str]

/-! ### trees in lexical form -/

inductive FNode where
  | tok (t : Token)
  | elem (name : Str) (st : AStore) (sc : Bool) (kids : List FNode)
  deriving Repr, Inhabited

/-- blocks written by `handle_entityref/charref/comment` (the ghost flag of `Fmt.Node.text`) -/
def isVerb : Token → Bool
  | .entity _ => true
  | .charref _ => true
  | .comment _ => true
  | _ => false

/-- data run, reference or comment -/
def isTextLike : Token → Bool
  | .data _ => true
  | .entity _ => true
  | .charref _ => true
  | .comment _ => true
  | _ => false

mutual
/-- the tree of the formatter model's plain parser (element class normal, no `_indent`) -/
def FNode.toNode : FNode → Node
  | .tok t => .text (isVerb t) (renderTok t)
  | .elem n st sc kids => .elem .normal n st sc [] (toNodeL kids)
def toNodeL : List FNode → List Node
  | [] => []
  | k :: ks => k.toNode :: toNodeL ks
end

mutual
def FNode.toks : FNode → List Token
  | .tok t => [t]
  | .elem n st sc kids =>
      if sc then [.startend n st.items] else .start n st.items :: (ftoksL kids ++ [.end_ n])
def ftoksL : List FNode → List Token
  | [] => []
  | k :: ks => k.toks ++ ftoksL ks
end

theorem toNodeL_append (xs ys : List FNode) : toNodeL (xs ++ ys) = toNodeL xs ++ toNodeL ys := by
  induction xs with
  | nil => rfl
  | cons x xs ih => simp [toNodeL, ih]

theorem ftoksL_append (xs ys : List FNode) : ftoksL (xs ++ ys) = ftoksL xs ++ ftoksL ys := by
  induction xs with
  | nil => rfl
  | cons x xs ih => simp [ftoksL, ih]

theorem innerL_append (xs ys : List Node) : innerL (xs ++ ys) = innerL xs ++ innerL ys := by
  induction xs with
  | nil => rfl
  | cons x xs ih => simp [innerL, ih]

/-! ### what the output text is made of -/

/-- a data block, none for the empty text -/
def dataTok (s : Str) : List FNode := if s.isEmpty then [] else [.tok (.data s)]

/-- what `getEndTag` writes before `</name>` -/
def endInd (name indent : Str) (kids : List Node) : Str :=
  if !indent.isEmpty && isPre name then []
  else if !indent.isEmpty && isPreserve name && lastTextEndsWith indent kids then []
  else indent

theorem endTag_eq (name indent : Str) (kids : List Node) :
    endTag name false indent kids = endInd name indent kids ++ renderTok (.end_ name) := by
  unfold endTag endInd
  simp only [Bool.false_eq_true, if_false]
  by_cases h1 : (!indent.isEmpty && isPre name) = true
  · simp [h1, renderTok, str]
  · by_cases h2 : (!indent.isEmpty && isPreserve name && lastTextEndsWith indent kids) = true
    · simp only [h1, h2, if_true]; simp [renderTok, str]
    · simp only [h1, h2]; simp [renderTok, str]

/-- the data rule on one block (`decorate` on a `handle_data` block) -/
def dataRule (c : Ctx) (parent : Str) (s : Str) : Str :=
  if c.inPre = 0 && !isPreserve parent then squeeze s else s

def expandTok (c : Ctx) (parent : Str) : Token → List FNode
  | .data s => dataTok (dataRule c parent s)
  | t => [.tok t]

mutual
/-- the blocks the formatter's output text has in place of one block of the document -/
def expand (cfg : Cfg) (c : Ctx) (parent : Str) : FNode → List FNode
  | .tok t => expandTok c parent t
  | .elem n st sc kids =>
      dataTok (indentAt cfg c) ++
        [.elem n st sc (if sc then [] else
          expandL cfg (c.push n) n kids
            ++ dataTok (endInd n (indentAt cfg c) (decorateL cfg (c.push n) n (toNodeL kids))))]
def expandL (cfg : Cfg) (c : Ctx) (parent : Str) : List FNode → List FNode
  | [] => []
  | k :: ks => expand cfg c parent k ++ expandL cfg c parent ks
end

theorem render_dataTok (y : TagStyle) (s : Str) : renderToksY y (ftoksL (dataTok s)) = s := by
  unfold dataTok
  by_cases h : s.isEmpty = true
  · have : s = [] := by simpa using h
    subst this; rfl
  · simp [h, ftoksL, FNode.toks, renderToksY, renderTokY, renderTok]

theorem decorate_tok (cfg : Cfg) (c : Ctx) (p : Str) (t : Token) (h : isTextLike t = true) :
    outer (decorate cfg c p (FNode.tok t).toNode) = renderToksY (styleOf cfg.kind) (ftoksL (expandTok c p t)) := by
  cases t with
  | data s =>
    simp only [FNode.toNode, isVerb, renderTok, decorate, outer, expandTok]
    rw [render_dataTok]; rfl
  | entity e =>
    simp [FNode.toNode, isVerb, decorate, outer, expandTok, ftoksL, FNode.toks, renderToksY, renderTokY]
  | charref e =>
    simp [FNode.toNode, isVerb, decorate, outer, expandTok, ftoksL, FNode.toks, renderToksY, renderTokY]
  | comment e =>
    simp [FNode.toNode, isVerb, decorate, outer, expandTok, ftoksL, FNode.toks, renderToksY, renderTokY]
  | decl d => simp [isTextLike] at h
  | unknownDecl d => simp [isTextLike] at h
  | pi d => simp [isTextLike] at h
  | start n a => simp [isTextLike] at h
  | startend n a => simp [isTextLike] at h
  | end_ n => simp [isTextLike] at h

mutual
/-- every text block is a text-like token -/
def FNode.TextLike : FNode → Prop
  | .tok t => isTextLike t = true
  | .elem _ _ _ kids => TextLikeL kids
def TextLikeL : List FNode → Prop
  | [] => True
  | k :: ks => k.TextLike ∧ TextLikeL ks
end

mutual
/-- **the serialisers agree on decorated trees**: what the formatter's element class writes for the decorated tree
    is the rendering, in that class's start-tag style, of the tokens of `expand` -/
theorem outer_decorate_eq (cfg : Cfg) (c : Ctx) (p : Str) :
    ∀ u : FNode, u.TextLike →
      outer (decorate cfg c p u.toNode) = renderToksY (styleOf cfg.kind) (ftoksL (expand cfg c p u))
  | .tok t, h => by
    simp only [FNode.TextLike] at h
    simp only [expand]
    exact decorate_tok cfg c p t h
  | .elem n st sc kids, h => by
    simp only [FNode.TextLike] at h
    simp only [FNode.toNode, decorate, outer, expand]
    rw [startTag_eq, ftoksL_append, renderToksY_append, render_dataTok]
    cases sc with
    | true =>
      simp [ftoksL, FNode.toks, renderToksY, endTag]
    | false =>
      have ih := innerL_decorate_eq cfg (c.push n) n kids h
      have hend : renderTokY (styleOf cfg.kind) (.end_ n) = renderTok (.end_ n) := rfl
      simp only [Bool.false_eq_true, if_false, ftoksL, FNode.toks, List.append_nil, renderToksY,
        renderToksY_append, ftoksL_append, render_dataTok, endTag_eq, ih, List.append_assoc, hend]
theorem innerL_decorate_eq (cfg : Cfg) (c : Ctx) (p : Str) :
    ∀ ks : List FNode, TextLikeL ks →
      innerL (decorateL cfg c p (toNodeL ks)) = renderToksY (styleOf cfg.kind) (ftoksL (expandL cfg c p ks))
  | [], _ => by simp [toNodeL, decorateL, innerL, expandL, ftoksL, renderToksY]
  | k :: ks, h => by
    simp only [TextLikeL] at h
    simp only [toNodeL, decorateL, innerL, expandL, ftoksL_append, renderToksY_append]
    rw [outer_decorate_eq cfg c p k h.1, innerL_decorate_eq cfg c p ks h.2]
end

/-! ### gluing adjacent data blocks -/

def pushTok (t : Token) (r : List FNode) : List FNode :=
  match t, r with
  | .data a, .tok (.data b) :: r' => .tok (.data (a ++ b)) :: r'
  | t, r => .tok t :: r

mutual
def merge : FNode → FNode
  | .tok t => .tok t
  | .elem n st sc kids => .elem n st sc (mergeL kids)
def mergeL : List FNode → List FNode
  | [] => []
  | .tok t :: ks => pushTok t (mergeL ks)
  | .elem n st sc kids :: ks => .elem n st sc (mergeL kids) :: mergeL ks
end

theorem tok_not_tag (y : TagStyle) (t : Token) (h : isTextLike t = true) : renderTokY y t = renderTok t := by
  cases t <;> first | rfl | simp [isTextLike] at h

theorem render_pushTok (y : TagStyle) (t : Token) (r : List FNode) :
    renderToksY y (ftoksL (pushTok t r)) = renderTokY y t ++ renderToksY y (ftoksL r) := by
  unfold pushTok
  split
  · simp [ftoksL, FNode.toks, renderToksY, renderTokY, renderTok]
  · simp [ftoksL, FNode.toks, renderToksY]

mutual
theorem render_merge (y : TagStyle) : ∀ u : FNode, renderToksY y (merge u).toks = renderToksY y u.toks
  | .tok t => by simp [merge]
  | .elem n st sc kids => by
    simp only [merge, FNode.toks]
    cases sc with
    | true => rfl
    | false =>
      simp only [Bool.false_eq_true, if_false, renderToksY, renderToksY_append]
      rw [render_mergeL y kids]
theorem render_mergeL (y : TagStyle) : ∀ ks : List FNode,
    renderToksY y (ftoksL (mergeL ks)) = renderToksY y (ftoksL ks)
  | [] => by simp [mergeL]
  | .tok t :: ks => by
    simp only [mergeL, render_pushTok, ftoksL, FNode.toks, renderToksY_append, renderToksY, List.append_nil]
    rw [render_mergeL y ks]
  | .elem n st sc kids :: ks => by
    have h1 := render_merge y (.elem n st sc kids)
    simp only [merge] at h1
    simp only [mergeL, ftoksL, renderToksY_append]
    rw [h1, render_mergeL y ks]
end

end AHP.Fmt
