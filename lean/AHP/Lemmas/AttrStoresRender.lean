/-
  AttrStores, part 4 — the attribute part of `getStartTag` is the same string in the four models.

  Model (1) renders the listing (`renderAttrs a.view`, Model/Tree.lean); models (2) and (3) render the slots of
  the synchronised dict; model (4) renders its `items`.  The boolean-attribute table enters model (2) as a
  parameter (`BinaryOK`), models (1), (3), (4) read it from the generated tables.
-/
import AHP.Lemmas.AttrStoresSim
namespace AHP.AttrStores
open AHP

/-- `' ' + ' '.join(pieces)` or nothing -/
def attrsStr (ps : List Str) : Str := if ps.isEmpty then [] else ' ' :: joinWith [' '] ps

theorem isEmpty_map {α β : Type} (f : α → β) (l : List α) : (l.map f).isEmpty = l.isEmpty := by
  cases l <;> rfl

theorem renderAttrs_eq (as : List Attr) : renderAttrs as = attrsStr (as.map renderAttr) := by
  unfold renderAttrs attrsStr; rw [isEmpty_map]

theorem style_not_binary : binaryAttrs.contains kStyle = false := by decide

/-! ### model (2) -/

/-- `TAG_ITEM_BINARY_ATTRIBUTES` as handed to model (2) is the generated table -/
def BinaryOK (T : Attrs.Tables) : Prop := ∀ k : Str, T.binary.contains k = binaryAttrs.contains k

theorem render_quoted {T : Attrs.Tables} (hT : BinaryOK T) (k x : Str) (v : Attrs.PyVal)
    (hn : v ≠ .none) (hs : v.tostrOpt = some x) (hf : (if v.falsy then ([] : Str) else x) = x) :
    (Attrs.renderItem T (k, v)).render = renderAttr (k, some x) := by
  have hr : Attrs.renderItem T (k, v) =
      (let s := if v.falsy then [] else (v.tostrOpt).getD []
       if !s.isEmpty || !T.binary.contains k then Attrs.RItem.quoted k (Attrs.escQ s) else .bare k) := by
    cases v with
    | none => exact absurd rfl hn
    | str _ => rfl
    | bool _ => rfl
    | style _ => rfl
  rw [hr, hs, hT]
  simp only [Option.getD_some, hf, renderAttr, escQ_attrs]
  cases x with
  | nil => cases binaryAttrs.contains k <;> simp [Attrs.RItem.render, escQ]
  | cons c r => simp [Attrs.RItem.render]

theorem falsy_str (x : Str) : (if (Attrs.PyVal.str x).falsy then ([] : Str) else x) = x := by
  cases x <;> rfl

theorem renderItem_slot {T : Attrs.Tables} (hT : BinaryOK T) (e : Attrs.El) (k : Str) (s : Attrs.Slot) :
    (Attrs.renderItem T (k, Attrs.slotVal e s)).render = renderAttr (k, slotStr e.sty s) := by
  cases s with
  | val v =>
    cases v with
    | none => rfl
    | some x => exact render_quoted hT k x (.str x) (by simp) rfl (falsy_str x)
  | cls x => exact render_quoted hT k x (.str x) (by simp) rfl (falsy_str x)
  | sty => exact render_quoted hT k (Attrs.asStr e.sty) (.style (Attrs.asStr e.sty)) (by simp) rfl rfl

/-- the pieces `getStartTag` joins are the rendered entries of the listing -/
theorem startTagItems_render {T : Attrs.Tables} (hT : BinaryOK T) (e : Attrs.El) :
    (Attrs.startTagItems T e).1.map Attrs.RItem.render = (Attrs.attrsList e).1.map renderAttr := by
  rw [attrsList_eq_map]
  simp only [Attrs.startTagItems, Attrs.items, List.map_map]
  apply List.map_congr_left
  intro p _
  simp only [Function.comp]
  exact renderItem_slot hT (Attrs.handleClassAttr e) p.1 p.2

theorem renderStart_eq (tag : Str) (sc : Bool) (its : List Attrs.RItem) :
    Attrs.renderStart tag sc its
      = ('<' :: tag) ++ attrsStr (its.map Attrs.RItem.render) ++ (if sc then " />".toList else " >".toList) := by
  unfold Attrs.renderStart attrsStr
  rw [isEmpty_map]
  cases sc <;> simp

theorem startTag_toA {T : Attrs.Tables} (hT : BinaryOK T) (tag : Str) (sc : Bool) {st : AttrState} (h : Inv st) :
    (Attrs.startTag T (toA tag sc st)).1 = startTag tag st sc := by
  have e1 : (Attrs.startTag T (toA tag sc st)).1
      = Attrs.renderStart tag sc (Attrs.startTagItems T (toA tag sc st)).1 := rfl
  rw [e1, renderStart_eq, startTagItems_render hT, attrsList_toA tag sc h]
  unfold startTag startTagI
  rw [renderAttrs_eq]
  simp

/-! ### model (3) -/

theorem attrPiece_eq (a : Pk.Attrs) (k : Str) (v : Pk.DVal) (hv : v = .style → k = kStyle) :
    Pk.Attrs.attrPiece a k v = renderAttr (k, dvalStr a.sty v) := by
  cases v with
  | none => rfl
  | str s =>
    simp only [Pk.Attrs.attrPiece, dvalStr, renderAttr, pk_binary, escQ_pk]
    cases s with
    | nil => cases binaryAttrs.contains k <;> simp [str, escQ]
    | cons c r => simp [str]
  | style =>
    have hk := hv rfl
    subst hk
    simp only [Pk.Attrs.attrPiece, dvalStr, renderAttr, style_not_binary, escQ_pk, styleStr_pk]
    simp [str]

theorem conv_style_key {p : Str × Pk.DVal} {d : List (Str × Option Str)}
    (hp : p ∈ conv Pk.DVal.style Pk.DVal.ofOpt d) (hs : p.2 = .style) : p.1 = kStyle := by
  simp only [conv, List.mem_map] at hp
  obtain ⟨q, _, e⟩ := hp
  subst e
  by_cases hq : q.1 = kStyle
  · exact hq
  · simp only [hq, if_false] at hs
    cases hv : q.2 <;> rw [hv] at hs <;> cases hs

theorem mem_dictDel {β : Type} {k : Str} {p : Str × β} {d : List (Str × β)} (h : p ∈ dictDel d k) : p ∈ d :=
  (List.mem_filter.mp h).1

theorem handle_style_key {st : AttrState} (h : Inv st) {p : Str × Pk.DVal}
    (hp : p ∈ (Pk.Attrs.handle (toP st)).dict) (hs : p.2 = .style) : p.1 = kStyle := by
  rw [handle_toP h] at hp
  have base : ∀ q, q ∈ (toP st).dict → q.2 = .style → q.1 = kStyle := fun q hq => conv_style_key hq
  have lvl1 : ∀ q, q ∈ (if st.classes.isEmpty then dictDel (toP st).dict kClass
      else dictSet (toP st).dict kClass (Pk.DVal.str (joinWith [' '] st.classes))) → q.2 = .style → q.1 = kStyle := by
    intro q hq hqs
    split at hq
    · exact base q (mem_dictDel hq) hqs
    · rcases mem_dictSet hq with e | m
      · subst e; cases hqs
      · exact base q m hqs
  simp only at hp
  split at hp
  · exact lvl1 p (mem_dictDel hp) hs
  · rcases mem_dictSet hp with e | m
    · subst e; rfl
    · exact lvl1 p m hs

theorem pieces_toP {st : AttrState} (h : Inv st) : Pk.Attrs.pieces (toP st) = st.view.map renderAttr := by
  rw [← attrsList_toP h]
  unfold Pk.Attrs.pieces Pk.Attrs.attrsList
  rw [List.map_map]
  apply List.map_congr_left
  intro p hp
  simp only [Function.comp, render_eq]
  exact attrPiece_eq (toP st) p.1 p.2 (handle_style_key h hp)

theorem startTag_toP (name : Str) (sc : Bool) {st : AttrState} (h : Inv st) :
    Pk.Attrs.startTag name (toP st) sc = startTag name st sc := by
  unfold Pk.Attrs.startTag startTag startTagI
  rw [renderAttrs_eq, pieces_toP h]
  cases sc <;> simp [attrsStr, str]

/-! ### model (4) -/

theorem renderAttr_fmt (p : Attr) : Fmt.renderAttr p = renderAttr p := by
  obtain ⟨k, v⟩ := p
  cases v with
  | none => rfl
  | some s =>
    simp only [Fmt.renderAttr, renderAttr, fmt_binary, escQ_fmt]
    cases s with
    | nil => cases binaryAttrs.contains k <;> simp [str, escQ]
    | cons c r => simp [str]

theorem attrString_eq (a : Fmt.AStore) : Fmt.attrString a = renderAttrs a.items := by
  unfold Fmt.attrString
  rw [renderAttrs_eq]
  have : a.items.map Fmt.renderAttr = a.items.map renderAttr :=
    List.map_congr_left (fun p _ => renderAttr_fmt p)
  simp only [this, attrsStr]

theorem startTag_toF (name indent : Str) (sc : Bool) {st : AttrState} (h : Inv st) :
    Fmt.startTagNormal name (toF st) sc indent = startTagI indent name st sc := by
  unfold Fmt.startTagNormal startTagI
  rw [attrString_eq, items_toF h]
  cases sc <;> simp [str]

end AHP.AttrStores
