/-
  IntakeStable, part 1 — the string facts behind "an attribute store built by `intake` is re-read exactly":

  * `classNamesOf_join_idem` — the class list of ANY text, joined by single blanks, is read back as that list
    (`stripWordsOnly` / `split(' ')` are idempotent on their own image; tabs, line breaks and non-ASCII white space
    inside the text included: the words are split at U+0020 only, `strip` removes all of `str.isspace()`);
  * `boolString_idem` — `convertToBooleanString` of its own result.
  (`styleToDict_idem`, the third ingredient, is in `Lemmas/AttrStoresDict.lean`.)
-/
import AHP.Lemmas.AttrStoresSim
namespace AHP.AttrStores
open AHP

/-! ### `split(sep)` then `sep.join` -/

theorem joinWith_cons_cons' (sep w w' : Str) (ws : List Str) :
    joinWith sep (w :: w' :: ws) = w ++ sep ++ joinWith sep (w' :: ws) := by
  conv => lhs; unfold joinWith

theorem joinWith_single' (sep w : Str) : joinWith sep [w] = w := by
  unfold joinWith; rfl

/-- joining the fields of `s.split(sep)` with `sep` gives `s` back -/
theorem join_splitChar (sep : Char) : ∀ s : Str, joinWith [sep] (splitChar sep s) = s
  | [] => by simp [splitChar, joinWith_single']
  | c :: r => by
    have ih := join_splitChar sep r
    by_cases hc : c = sep
    · subst hc
      rw [Attrs.splitChar_cons_sep]
      rcases hs : splitChar c r with _ | ⟨w, ws⟩
      · exact absurd hs (Attrs.splitChar_ne_nil c r)
      · rw [hs] at ih
        rw [joinWith_cons_cons', ih]; rfl
    · obtain ⟨w, ws, h1, h2⟩ := Attrs.splitChar_cons_ne hc r
      rw [h2]
      rw [h1] at ih
      cases ws with
      | nil =>
        rw [joinWith_single'] at ih ⊢
        rw [ih]
      | cons w2 ws' =>
        rw [joinWith_cons_cons'] at ih ⊢
        rw [← ih]; simp

/-! ### `collapseSpaces` -/

theorem collapse_idem_aux : ∀ (n : Nat) (u : Str), u.length ≤ n → collapseSpaces (collapseSpaces u) = collapseSpaces u
  | 0, u, h => by
    have : u = [] := List.eq_nil_of_length_eq_zero (Nat.le_zero.mp h)
    subst this; rw [collapse_nil, collapse_nil]
  | n + 1, [], _ => by rw [collapse_nil, collapse_nil]
  | n + 1, c :: r, h => by
    have hr : r.length ≤ n := by simp at h; omega
    by_cases hc : c = ' '
    · subst hc
      cases r with
      | nil => rw [collapse_space_nil, collapse_space_nil]
      | cons d r' =>
        by_cases hd : d = ' '
        · subst hd
          rw [collapse_space_space]
          exact collapse_idem_aux n (' ' :: r') hr
        · have hr' : r'.length ≤ n := by simp at hr; omega
          rw [collapse_space_ne hd, collapse_cons_ne hd, collapse_space_ne hd, collapse_cons_ne hd,
            collapse_idem_aux n r' hr']
    · rw [collapse_cons_ne hc, collapse_cons_ne hc, collapse_idem_aux n r hr]

theorem collapse_idem (u : Str) : collapseSpaces (collapseSpaces u) = collapseSpaces u :=
  collapse_idem_aux u.length u (Nat.le_refl _)

/-- the last character survives -/
theorem collapse_getLast_aux : ∀ (n : Nat) (u : Str), u.length ≤ n → (collapseSpaces u).getLast? = u.getLast?
  | 0, u, h => by
    have : u = [] := List.eq_nil_of_length_eq_zero (Nat.le_zero.mp h)
    subst this; rw [collapse_nil]
  | n + 1, [], _ => by rw [collapse_nil]
  | n + 1, c :: r, h => by
    have hr : r.length ≤ n := by simp at h; omega
    by_cases hc : c = ' '
    · subst hc
      cases r with
      | nil => rw [collapse_space_nil]
      | cons d r' =>
        by_cases hd : d = ' '
        · subst hd
          rw [collapse_space_space, collapse_getLast_aux n (' ' :: r') hr]
          simp [List.getLast?_cons_cons]
        · rw [collapse_space_ne hd, List.getLast?_cons, collapse_getLast_aux n (d :: r') hr]
          rw [List.getLast?_cons_cons, List.getLast?_cons (a := d)]
          simp
    · rw [collapse_cons_ne hc, List.getLast?_cons, collapse_getLast_aux n r hr, List.getLast?_cons]

theorem collapse_getLast (u : Str) : (collapseSpaces u).getLast? = u.getLast? :=
  collapse_getLast_aux u.length u (Nat.le_refl _)

/-- fields behind the first one: a text that does not end in a blank has, once collapsed, no empty field there -/
theorem collapse_fields_tail : ∀ (n : Nat) (u : Str), u.length ≤ n → u.getLast? ≠ some ' ' →
    ∀ w ∈ (splitChar ' ' (collapseSpaces u)).tail, w ≠ []
  | 0, u, h, _ => by
    have : u = [] := List.eq_nil_of_length_eq_zero (Nat.le_zero.mp h)
    subst this; rw [collapse_nil]; simp [splitChar]
  | n + 1, [], _, _ => by rw [collapse_nil]; simp [splitChar]
  | n + 1, c :: r, h, hl => by
    have hr : r.length ≤ n := by simp at h; omega
    by_cases hc : c = ' '
    · subst hc
      cases r with
      | nil => exact absurd rfl hl
      | cons d r' =>
        by_cases hd : d = ' '
        · subst hd
          rw [collapse_space_space]
          exact collapse_fields_tail n (' ' :: r') hr (by simpa [List.getLast?_cons_cons] using hl)
        · rw [collapse_space_ne hd, Attrs.splitChar_cons_sep, List.tail_cons]
          have hl' : (d :: r').getLast? ≠ some ' ' := by simpa [List.getLast?_cons_cons] using hl
          have ih := collapse_fields_tail n (d :: r') hr hl'
          rw [collapse_cons_ne hd] at ih ⊢
          obtain ⟨w, ws, h1, h2⟩ := Attrs.splitChar_cons_ne hd (collapseSpaces r')
          rw [h2] at ih ⊢
          intro x hx
          rcases List.mem_cons.mp hx with e | m
          · subst e; simp
          · exact ih x (by simpa using m)
    · rw [collapse_cons_ne hc]
      obtain ⟨w, ws, h1, h2⟩ := Attrs.splitChar_cons_ne hc (collapseSpaces r)
      rw [h2, List.tail_cons]
      have hl' : r.getLast? ≠ some ' ' := by
        cases r with
        | nil => simp
        | cons d r' => simpa [List.getLast?_cons_cons] using hl
      have ih := collapse_fields_tail n r hr hl'
      rw [h1, List.tail_cons] at ih
      exact ih

/-- a text that neither starts nor ends with a blank has, once collapsed, no empty field at all -/
theorem collapse_fields {c : Char} {r : Str} (hc : c ≠ ' ') (hl : (c :: r).getLast? ≠ some ' ') :
    ∀ w ∈ splitChar ' ' (collapseSpaces (c :: r)), w ≠ [] := by
  have ht := collapse_fields_tail (c :: r).length (c :: r) (Nat.le_refl _) hl
  rw [collapse_cons_ne hc] at ht ⊢
  obtain ⟨w, ws, h1, h2⟩ := Attrs.splitChar_cons_ne hc (collapseSpaces r)
  rw [h2] at ht ⊢
  intro x hx
  rcases List.mem_cons.mp hx with e | m
  · subst e; simp
  · exact ht x (by simpa using m)

/-! ### `strip` -/

theorem head_dropWhile_not (p : Char → Bool) : ∀ (s : Str) (c : Char) (r : Str), s.dropWhile p = c :: r → p c = false
  | [], _, _, h => by simp at h
  | d :: s, c, r, h => by
    rw [List.dropWhile_cons] at h
    split at h
    · exact head_dropWhile_not p s c r h
    · next hd =>
      have : d = c := by injection h
      subst this
      simpa using hd

theorem lstrip_head {s : Str} {c : Char} {r : Str} (h : lstrip s = c :: r) : isWs c = false :=
  head_dropWhile_not isWs s c r h

theorem rstrip_last {x : Str} {d : Char} (h : (rstrip x).getLast? = some d) : isWs d = false := by
  unfold rstrip at h
  rw [List.getLast?_reverse] at h
  cases hd : x.reverse.dropWhile isWs with
  | nil => rw [hd] at h; simp at h
  | cons e r =>
    rw [hd] at h
    have : e = d := by simpa using h
    subst this
    exact head_dropWhile_not isWs _ _ _ hd

/-- `rstrip` cuts a suffix off -/
theorem rstrip_prefix (x : Str) : ∃ t, x = rstrip x ++ t := by
  refine ⟨(x.reverse.takeWhile isWs).reverse, ?_⟩
  unfold rstrip
  rw [← List.reverse_append, List.takeWhile_append_dropWhile, List.reverse_reverse]

theorem strip_head {s : Str} {c : Char} {r : Str} (h : strip s = c :: r) : isWs c = false := by
  unfold strip at h
  obtain ⟨t, ht⟩ := rstrip_prefix (lstrip s)
  rw [h] at ht
  exact lstrip_head (r := r ++ t) (by rw [ht]; rfl)

theorem strip_last {s : Str} {d : Char} (h : (strip s).getLast? = some d) : isWs d = false :=
  rstrip_last h

/-- a text whose first and last characters are not white space is its own `strip` -/
theorem strip_of_ends' {t : Str} {c : Char} {r : Str} {d : Char} (h1 : t = c :: r) (hc : isWs c = false)
    (h2 : t.getLast? = some d) (hd : isWs d = false) : strip t = t := by
  have hl : lstrip t = t := by rw [h1]; simp [lstrip, hc]
  unfold strip
  rw [hl]
  unfold rstrip
  have : t.reverse.head? = some d := by rw [List.head?_reverse]; exact h2
  cases hr : t.reverse with
  | nil => rw [hr] at this; simp at this
  | cons e r' =>
    rw [hr] at this
    have he : e = d := by simpa using this
    subst he
    rw [List.dropWhile_cons]
    simp only [hd, Bool.false_eq_true, if_false]
    rw [← hr, List.reverse_reverse]

theorem ws_space : isWs ' ' = true := by decide

/-! ### the class list of a text, joined, is read back as that list -/

theorem classNamesOf_nil : classNamesOf (some []) = [] := by decide

/-- **class splitting is idempotent.** For every attribute text `v` (missing value included): the class names
    joined by single blanks — what `_handleClassAttr` stores and `getStartTag` writes — are split into the same
    names again. -/
theorem classNamesOf_join_idem (v : Option Str) :
    classNamesOf (some (joinWith [' '] (classNamesOf v))) = classNamesOf v := by
  rw [← classNamesOf_getD v]
  generalize v.getD [] = s
  unfold classNamesOf stripWordsOnly
  simp only
  cases hu : strip s with
  | nil =>
    rw [collapse_nil]
    have : splitWords [] = [] := by decide
    rw [this]
    decide
  | cons c r =>
    have hc : isWs c = false := strip_head hu
    have hcs : c ≠ ' ' := fun e => by rw [e, ws_space] at hc; exact absurd hc (by simp)
    -- the last character of the stripped text
    obtain ⟨d, hd⟩ : ∃ d, (c :: r).getLast? = some d := by
      rw [List.getLast?_cons]; exact ⟨_, rfl⟩
    have hdw : isWs d = false := strip_last (s := s) (by rw [hu]; exact hd)
    have hds : d ≠ ' ' := fun e => by rw [e, ws_space] at hdw; exact absurd hdw (by simp)
    have hl : (c :: r).getLast? ≠ some ' ' := by
      rw [hd]; intro e; exact hds (by injection e)
    -- every field of the collapsed text is non-empty: the words are the fields, their join is the text
    have hfields := collapse_fields hcs hl
    have hwords : splitWords (collapseSpaces (c :: r)) = splitChar ' ' (collapseSpaces (c :: r)) := by
      unfold splitWords
      apply List.filter_eq_self.mpr
      intro w hw
      have := hfields w hw
      cases w with
      | nil => exact absurd rfl this
      | cons _ _ => rfl
    rw [hwords, join_splitChar]
    -- the collapsed text is its own strip and its own collapse
    have hhead : collapseSpaces (c :: r) = c :: collapseSpaces r := collapse_cons_ne hcs r
    have hlast : (collapseSpaces (c :: r)).getLast? = some d := by rw [collapse_getLast]; exact hd
    rw [strip_of_ends' hhead hc hlast hdw, collapse_idem, hwords]

/-! ### `convertToBooleanString` of its own result -/

theorem boolString_false : boolString (some "false".toList) = "false".toList := by decide
theorem boolString_true : boolString (some "true".toList) = "true".toList := by decide

theorem boolString_cases (v : Option Str) : boolString v = "false".toList ∨ boolString v = "true".toList := by
  unfold boolString
  cases v with
  | none => exact Or.inl rfl
  | some s =>
    simp only
    split
    · exact Or.inl rfl
    · exact Or.inr rfl

theorem boolString_idem (v : Option Str) : boolString (some (boolString v)) = boolString v := by
  rcases boolString_cases v with h | h <;> rw [h]
  · exact boolString_false
  · exact boolString_true

end AHP.AttrStores
