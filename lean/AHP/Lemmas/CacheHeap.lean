/-
  Helper lemmas for C15: the heap of shared compiled objects (`Model/CacheHeap.lean`) behaves like the value
  model (`Model/Cache.lean`) *provided evaluation only reads* (`EvalReadsOnly`).
-/
import AHP.Model.CacheHeap
import AHP.Lemmas.CacheHist
namespace AHP.Cache

/-! ### The cache operations are natural in the stored values -/

section MapV
variable {K A B : Type} [DecidableEq K]

/-- Replace every stored value `v` by `f v`. -/
def mapV (f : A → B) (s : State K A) : State K B := ⟨s.map.map (fun p => (p.1, f p.2)), s.recent⟩

theorem dictGet_mapV (f : A → B) (d : List (K × A)) (k : K) :
    dictGet (d.map (fun p => (p.1, f p.2))) k = (dictGet d k).map f := by
  induction d with
  | nil => rfl
  | cons p rest ih =>
    obtain ⟨k', v⟩ := p
    simp only [List.map_cons, dictGet]
    by_cases h : k' = k <;> simp [h, ih]

theorem dictSet_mapV (f : A → B) (d : List (K × A)) (k : K) (v : A) :
    dictSet (d.map (fun p => (p.1, f p.2))) k (f v) = (dictSet d k v).map (fun p => (p.1, f p.2)) := by
  induction d with
  | nil => rfl
  | cons p rest ih =>
    obtain ⟨k', v'⟩ := p
    simp only [List.map_cons, dictSet]
    by_cases h : k' = k <;> simp [h, ih]

theorem dictDel_mapV (f : A → B) (d : List (K × A)) (k : K) :
    dictDel (d.map (fun p => (p.1, f p.2))) k = (dictDel d k).map (fun p => (p.1, f p.2)) := by
  unfold dictDel
  induction d with
  | nil => rfl
  | cons p rest ih =>
    simp only [List.map_cons, List.filter_cons]
    by_cases h : p.1 = k <;> simp [h, ih]

theorem foldl_dictDel_mapV (f : A → B) (ks : List K) (d : List (K × A)) :
    ks.foldl dictDel (d.map (fun p => (p.1, f p.2))) = (ks.foldl dictDel d).map (fun p => (p.1, f p.2)) := by
  induction ks generalizing d with
  | nil => rfl
  | cons k ks ih => rw [List.foldl_cons, List.foldl_cons, dictDel_mapV, ih]

theorem get_mapV (f : A → B) (s : State K A) (k : K) :
    get (mapV f s) k = (mapV f (get s k).1, (get s k).2.map f) := by
  unfold get
  simp only [mapV, dictGet_mapV]
  cases dictGet s.map k <;> rfl

theorem set_mapV (f : A → B) (MAX CLEAR : Nat) (s : State K A) (k : K) (v : A) :
    set MAX CLEAR (mapV f s) k (f v) = mapV f (set MAX CLEAR s k v) := by
  unfold set
  simp only [mapV, dictSet_mapV, foldl_dictDel_mapV]
  split <;> rfl

omit [DecidableEq K] in
theorem mapV_congr {f g : A → B} {s : State K A} (h : ∀ p ∈ s.map, f p.2 = g p.2) : mapV f s = mapV g s := by
  unfold mapV
  congr 1
  apply List.map_congr_left
  intro p hp
  rw [h p hp]

theorem dictGet_mem {d : List (K × A)} {k : K} {v : A} (h : dictGet d k = some v) : (k, v) ∈ d := by
  induction d with
  | nil => simp [dictGet] at h
  | cons q rest ih =>
    obtain ⟨k', v'⟩ := q
    unfold dictGet at h
    by_cases hk : k' = k
    · simp only [hk, ite_true, Option.some.injEq] at h
      rw [hk, h]; exact List.mem_cons_self
    · simp only [hk, ite_false] at h
      exact List.mem_cons_of_mem _ (ih h)

theorem mem_dictSet {d : List (K × A)} {k : K} {v : A} {p : K × A} (h : p ∈ dictSet d k v) : p = (k, v) ∨ p ∈ d := by
  induction d with
  | nil => simp [dictSet] at h; exact Or.inl h
  | cons q rest ih =>
    obtain ⟨k', v'⟩ := q
    unfold dictSet at h
    by_cases e : k' = k
    · simp only [e, ite_true, List.mem_cons] at h
      rcases h with h | h
      · exact Or.inl h
      · exact Or.inr (List.mem_cons_of_mem _ h)
    · simp only [e, ite_false, List.mem_cons] at h
      rcases h with h | h
      · exact Or.inr (by rw [h]; exact List.mem_cons_self)
      · rcases ih h with h | h
        · exact Or.inl h
        · exact Or.inr (List.mem_cons_of_mem _ h)

theorem mem_foldl_dictDel {ks : List K} {d : List (K × A)} {p : K × A} (h : p ∈ ks.foldl dictDel d) : p ∈ d := by
  induction ks generalizing d with
  | nil => exact h
  | cons k ks ih =>
    rw [List.foldl_cons] at h
    have := ih h
    unfold dictDel at this
    exact (List.mem_filter.mp this).1

/-- Whatever the cache holds after a store was there before or is the stored pair. -/
theorem mem_set_map {MAX CLEAR : Nat} {s : State K A} {k : K} {v : A} {p : K × A}
    (h : p ∈ (set MAX CLEAR s k v).map) : p = (k, v) ∨ p ∈ s.map := by
  unfold set at h
  simp only at h
  split at h
  · exact mem_dictSet (mem_foldl_dictDel h)
  · exact mem_dictSet h

end MapV

/-! ### The heap only grows -/

section HeapFacts
variable {O : Type}

/-- Every address an expression object holds is an operation object. -/
def Heap.WF (h : Heap O) : Prop := ∀ addrs ∈ h.exprs, ∀ a ∈ addrs, a < h.ops.length

theorem Heap.WF.empty : (Heap.empty : Heap O).WF := by intro addrs h; cases h

theorem filterMap_getElem?_append (ops vs : List O) (addrs : List Nat) (h : ∀ a ∈ addrs, a < ops.length) :
    addrs.filterMap (fun a => (ops ++ vs)[a]?) = addrs.filterMap (fun a => ops[a]?) := by
  induction addrs with
  | nil => rfl
  | cons a rest ih =>
    have ha : a < ops.length := h a List.mem_cons_self
    have hr : ∀ b ∈ rest, b < ops.length := fun b hb => h b (List.mem_cons_of_mem _ hb)
    simp only [List.filterMap_cons, List.getElem?_append_left ha, ih hr]

theorem filterMap_range'_fresh (ops vs : List O) :
    (List.range' ops.length vs.length).filterMap (fun a => (ops ++ vs)[a]?) = vs := by
  induction vs generalizing ops with
  | nil => rfl
  | cons v vs ih =>
    have h1 : (ops ++ v :: vs)[ops.length]? = some v := by simp
    have h2 : ops ++ v :: vs = (ops ++ [v]) ++ vs := by simp
    have h3 := ih (ops ++ [v])
    simp only [List.length_append, List.length_singleton] at h3
    simp only [List.length_cons, List.range'_succ, List.filterMap_cons, h1]
    rw [h2, h3]

theorem getD_append_left {α : Type} (l l' : List α) (x : Nat) (d : α) (h : x < l.length) :
    (l ++ l').getD x d = l.getD x d := by
  simp [List.getD, List.getElem?_append_left h]

theorem getD_append_length {α : Type} (l : List α) (a d : α) : (l ++ [a]).getD l.length d = a := by
  simp [List.getD]

theorem deref_allocOps {h : Heap O} (hw : h.WF) (vs : List O) {x : Nat} (hx : x < h.exprs.length) :
    (h.allocOps vs).1.deref x = h.deref x := by
  unfold Heap.deref Heap.allocOps
  simp only
  apply filterMap_getElem?_append
  apply hw
  simp only [List.getD, List.getElem?_eq_getElem hx, Option.getD_some]
  exact List.getElem_mem hx

theorem deref_allocExpr (h : Heap O) (addrs : List Nat) {x : Nat} (hx : x < h.exprs.length) :
    (h.allocExpr addrs).1.deref x = h.deref x := by
  unfold Heap.deref Heap.allocExpr
  simp only
  rw [getD_append_left _ _ _ _ hx]

theorem deref_allocExpr_new (h : Heap O) (addrs : List Nat) :
    (h.allocExpr addrs).1.deref (h.allocExpr addrs).2 = addrs.filterMap (fun a => h.ops[a]?) := by
  unfold Heap.deref Heap.allocExpr
  simp only
  rw [getD_append_length]

theorem wf_allocOps {h : Heap O} (hw : h.WF) (vs : List O) : (h.allocOps vs).1.WF := by
  intro addrs ha a hm
  have := hw addrs ha a hm
  simp only [Heap.allocOps, List.length_append]
  omega

theorem wf_allocExpr {h : Heap O} (hw : h.WF) {addrs : List Nat} (ha : ∀ a ∈ addrs, a < h.ops.length) :
    (h.allocExpr addrs).1.WF := by
  intro as hm a hma
  simp only [Heap.allocExpr, List.mem_append, List.mem_singleton] at hm
  rcases hm with hm | hm
  · exact hw as hm a hma
  · subst hm; exact ha a hma

end HeapFacts

/-! ### Heap level against value level -/

section Sim
variable {E K O T R : Type} [DecidableEq K]

/-- The hypothesis on evaluation: `evaluate` writes neither the expression object nor any operation object,
    and its outcome is a function of the operations the object holds (and the tree). -/
structure EvalReadsOnly (evalH : Heap O → Nat → T → Heap O × R) (eval : List O → T → R) : Prop where
  no_write : ∀ h x t, (evalH h x t).1 = h
  reads : ∀ h x t, (evalH h x t).2 = eval (h.deref x) t

/-- The value-level world a heap-level world denotes. -/
def HWorld.abs (w : HWorld K O) : World K (List O) := ⟨mapV w.heap.deref w.cache, w.slots.map w.heap.deref⟩

/-- Nothing dangles. -/
structure HWorld.OK (w : HWorld K O) : Prop where
  wf : w.heap.WF
  cache : ∀ p ∈ w.cache.map, p.2 < w.heap.exprs.length
  slots : ∀ x ∈ w.slots, x < w.heap.exprs.length

omit [DecidableEq K] in
theorem HWorld.OK.empty : (HWorld.empty : HWorld K O).OK :=
  ⟨Heap.WF.empty, (by intro p h; cases h), (by intro x h; cases h)⟩

variable (compile : E → Option (List O)) (key : E → K) (MAX CLEAR : Nat)

/-- `XPathExpression(text)` on the heap is `newExpr` on the values: the new object denotes what `newExpr`
    returns, every older object denotes what it did, nothing dangles. -/
theorem hNewExpr_spec {h : Heap O} {c : State K Nat} (hw : h.WF) (hc : ∀ p ∈ c.map, p.2 < h.exprs.length) (e : E) :
    let r := hNewExpr compile key MAX CLEAR h c e
    r.1.WF ∧ h.exprs.length ≤ r.1.exprs.length ∧ (∀ x, x < h.exprs.length → r.1.deref x = h.deref x) ∧
    (∀ p ∈ r.2.1.map, p.2 < r.1.exprs.length) ∧ (∀ y, r.2.2 = some y → y < r.1.exprs.length) ∧
    newExpr compile key MAX CLEAR (mapV h.deref c) e = (mapV r.1.deref r.2.1, r.2.2.map r.1.deref) := by
  intro r
  have hgm := get_fst_map c (key e)
  have hgs := get_snd c (key e)
  have hr : r = hNewExpr compile key MAX CLEAR h c e := rfl
  unfold hNewExpr at hr
  unfold newExpr
  rw [get_mapV]
  generalize get c (key e) = g at *
  obtain ⟨c', res⟩ := g
  cases res with
  | some x =>
    simp only at hgm hgs hr ⊢
    have hx : x < h.exprs.length := by
      -- the address came out of the map
      have : ∃ p ∈ c.map, p.2 = x := ⟨(key e, x), dictGet_mem hgs.symm, rfl⟩
      obtain ⟨p, hp, hpx⟩ := this
      rw [← hpx]; exact hc p hp
    have haddrs : ∀ a ∈ h.exprs.getD x [], a < h.ops.length := by
      apply hw
      simp only [List.getD, List.getElem?_eq_getElem hx, Option.getD_some]
      exact List.getElem_mem hx
    have hold : ∀ z, z < h.exprs.length → (h.allocExpr (h.exprs.getD x [])).1.deref z = h.deref z :=
      fun z hz => deref_allocExpr h _ hz
    rw [hr]
    refine ⟨wf_allocExpr hw haddrs, by simp [Heap.allocExpr], hold, ?_, ?_, ?_⟩
    · intro p hp
      simp only at hp
      rw [hgm] at hp
      have := hc p hp
      simp only [Heap.allocExpr, List.length_append, List.length_singleton]
      omega
    · intro y hy
      simp only [Option.some.injEq] at hy
      subst hy
      simp [Heap.allocExpr]
    · simp only [Option.map_some]
      congr 1
      · apply mapV_congr
        intro p hp
        rw [hgm] at hp
        exact (hold p.2 (hc p hp)).symm
      · congr 1
        rw [deref_allocExpr_new]
        rfl
  | none =>
    simp only [Option.map_none] at hgm hgs hr ⊢
    cases hce : compile e with
    | none =>
      simp only [hce] at hr
      rw [hr]
      refine ⟨hw, Nat.le_refl _, fun _ _ => rfl, ?_, ?_, rfl⟩
      · intro p hp; simp only at hp; rw [hgm] at hp; exact hc p hp
      · intro y hy; cases hy
    | some vs =>
      simp only [hce] at hr
      have hw1 := wf_allocOps hw vs
      have hfresh : ∀ a ∈ (h.allocOps vs).2, a < (h.allocOps vs).1.ops.length := by
        intro a ha
        simp only [Heap.allocOps, List.mem_range'_1, List.length_append] at ha ⊢
        omega
      have hold : ∀ z, z < h.exprs.length →
          ((h.allocOps vs).1.allocExpr (h.allocOps vs).2).1.deref z = h.deref z := by
        intro z hz
        rw [deref_allocExpr _ _ (by simpa [Heap.allocOps] using hz), deref_allocOps hw vs hz]
      have hnew : ((h.allocOps vs).1.allocExpr (h.allocOps vs).2).1.deref ((h.allocOps vs).1.allocExpr (h.allocOps vs).2).2 = vs := by
        rw [deref_allocExpr_new]
        exact filterMap_range'_fresh h.ops vs
      rw [hr]
      refine ⟨wf_allocExpr hw1 hfresh, by simp [Heap.allocExpr, Heap.allocOps], hold, ?_, ?_, ?_⟩
      · intro p hp
        simp only at hp
        rcases mem_set_map hp with hp | hp
        · rw [hp]; simp [Heap.allocExpr]
        · rw [hgm] at hp
          have := hc p hp
          simp only [Heap.allocExpr, Heap.allocOps, List.length_append, List.length_singleton]
          omega
      · intro y hy
        simp only [Option.some.injEq] at hy
        subst hy
        simp [Heap.allocExpr]
      · simp only [Option.map_some]
        rw [hnew]
        congr 1
        rw [← set_mapV, hnew]
        congr 1
        apply mapV_congr
        intro p hp
        rw [hgm] at hp
        exact (hold p.2 (hc p hp)).symm

variable (evalH : Heap O → Nat → T → Heap O × R) (eval : List O → T → R)

theorem map_deref_stable {h h' : Heap O} {l : List Nat} (hl : ∀ x ∈ l, x < h.exprs.length)
    (hold : ∀ x, x < h.exprs.length → h'.deref x = h.deref x) : l.map h'.deref = l.map h.deref := by
  apply List.map_congr_left
  intro x hx
  exact hold x (hl x hx)

/-- One event on the heap is the same event on the values it denotes — *given that evaluation only reads*
    (`hro` is used exactly in the two evaluation cases: the heap after `evaluate` is the heap before, so
    every other object — the cached live object and every copy sharing its operations — still denotes what
    it did). -/
theorem hstep_spec (hro : EvalReadsOnly evalH eval) {w : HWorld K O} (hok : w.OK) (ev : Event E T) :
    (hstep compile key evalH MAX CLEAR w ev).1.OK ∧
    step compile key eval MAX CLEAR w.abs ev =
      ((hstep compile key evalH MAX CLEAR w ev).1.abs, (hstep compile key evalH MAX CLEAR w ev).2) := by
  cases ev with
  | new e =>
    obtain ⟨h1, h2, h3, h4, h5, h6⟩ := hNewExpr_spec compile key MAX CLEAR hok.wf hok.cache e
    simp only [hstep, step, HWorld.abs]
    rw [h6]
    generalize hNewExpr compile key MAX CLEAR w.heap w.cache e = r at *
    obtain ⟨h', c', res⟩ := r
    simp only at h1 h2 h3 h4 h5 h6 ⊢
    have hsl := map_deref_stable hok.slots h3
    cases res with
    | some y =>
      simp only [Option.map_some]
      refine ⟨⟨h1, h4, ?_⟩, ?_⟩
      · intro x hx
        rcases List.mem_append.mp hx with hx | hx
        · exact Nat.lt_of_lt_of_le (hok.slots x hx) h2
        · rw [List.mem_singleton.mp hx]; exact h5 y rfl
      · simp only [List.map_append, List.map_cons, List.map_nil, hsl]
    | none =>
      simp only [Option.map_none]
      refine ⟨⟨h1, h4, fun x hx => Nat.lt_of_lt_of_le (hok.slots x hx) h2⟩, ?_⟩
      simp only [hsl]
  | evalSlot i t =>
    simp only [hstep, step, HWorld.abs, List.getElem?_map]
    cases hx : w.slots[i]? with
    | none => exact ⟨hok, rfl⟩
    | some x =>
      simp only [Option.map_some, hro.no_write, hro.reads]
      exact ⟨hok, trivial⟩
  | query e t =>
    obtain ⟨h1, h2, h3, h4, h5, h6⟩ := hNewExpr_spec compile key MAX CLEAR hok.wf hok.cache e
    simp only [hstep, step, HWorld.abs]
    rw [h6]
    generalize hNewExpr compile key MAX CLEAR w.heap w.cache e = r at *
    obtain ⟨h', c', res⟩ := r
    simp only at h1 h2 h3 h4 h5 h6 ⊢
    have hsl := map_deref_stable hok.slots h3
    cases res with
    | some y =>
      simp only [Option.map_some, hro.no_write, hro.reads]
      exact ⟨⟨h1, h4, fun x hx => Nat.lt_of_lt_of_le (hok.slots x hx) h2⟩, by simp only [hsl]⟩
    | none =>
      simp only [Option.map_none]
      exact ⟨⟨h1, h4, fun x hx => Nat.lt_of_lt_of_le (hok.slots x hx) h2⟩, by simp only [hsl]⟩

/-- Every history on the heap shows what it shows on the values. -/
theorem hrun_eq_run (hro : EvalReadsOnly evalH eval) (evs : List (Event E T)) : ∀ (w : HWorld K O), w.OK →
    hrun compile key evalH MAX CLEAR w evs = (run compile key eval MAX CLEAR w.abs evs).map (·.1) := by
  induction evs with
  | nil => intro w _; rfl
  | cons ev evs ih =>
    intro w hok
    obtain ⟨h1, h2⟩ := hstep_spec compile key MAX CLEAR evalH eval hro hok ev
    unfold hrun run
    rw [h2]
    simp only [List.map_cons]
    rw [ih _ h1]

end Sim
end AHP.Cache
