/-
  Helper lemmas for C14a: the pass-by-class reduction of a flat list equals the recursive evaluation of the
  syntax tree it was flattened from.  `VT` is the value-level skeleton of a predicate (atoms evaluated,
  operators kept); `VT.fold k` is what pass `k` does to it.
-/
import AHP.Model.XPathSpec
namespace AHP.XPath

variable {N : Type}

/-! ### equations of `pass` -/

theorem pass_nil (nm : Num N) (k : Nat) (acc : List (BE N)) : pass nm k [] acc = some acc.reverse := by
  simp [pass]

theorem pass_val (nm : Num N) (k : Nat) (v : Val N) (rest acc : List (BE N)) :
    pass nm k (.val v :: rest) acc = pass nm k rest (.val v :: acc) := by
  conv => lhs; unfold pass

theorem pass_op_ne (nm : Num N) {k : Nat} {o : Op} (h : o.cls ≠ k) (rest acc : List (BE N)) :
    pass nm k (.op o :: rest) acc = pass nm k rest (.op o :: acc) := by
  conv => lhs; unfold pass
  simp [h]

theorem pass_op_eq (nm : Num N) {k : Nat} {o : Op} (h : o.cls = k) (a b : Val N) (rest acc : List (BE N)) :
    pass nm k (.op o :: .val b :: rest) (.val a :: acc) =
      match applyOp nm o a b with
      | some v => pass nm k rest (.val v :: acc)
      | none => none := by
  conv => lhs; unfold pass
  simp only [h, ite_true]
  cases applyOp nm o a b <;> rfl

/-! ### value trees -/

inductive VT (N : Type) where
  | leaf (v : Val N)
  | node (o : Op) (l r : VT N)

namespace VT

def flat : VT N → List (BE N)
  | leaf v => [.val v]
  | node o l r => l.flat ++ .op o :: r.flat

def eval (nm : Num N) : VT N → Option (Val N)
  | leaf v => some v
  | node o l r =>
    match l.eval nm, r.eval nm with
    | some a, some b => applyOp nm o a b
    | _, _ => none

/-- same grammar as `P.wf`: top operator of class `< k`, left operand of class `≤`, right of class `<`. -/
def wf : Nat → VT N → Bool
  | _, leaf _ => true
  | k, node o l r => decide (o.cls < k) && wf (o.cls + 1) l && wf o.cls r

/-- every operator has class `≥ k` (the passes below `k` are done). -/
def minCls (k : Nat) : VT N → Bool
  | leaf _ => true
  | node o l r => decide (k ≤ o.cls) && minCls k l && minCls k r

/-- what pass `k` does: apply the operators of class `k` (their operands are values by then). -/
def fold (nm : Num N) (k : Nat) : VT N → Option (VT N)
  | leaf v => some (leaf v)
  | node o l r =>
    match l.fold nm k, r.fold nm k with
    | some l', some r' =>
      if o.cls = k then
        match l', r' with
        | leaf a, leaf b => (applyOp nm o a b).map leaf
        | _, _ => none
      else some (node o l' r')
    | _, _ => none

theorem leaf_of_wf_min {k : Nat} {t : VT N} (hw : wf k t = true) (hm : minCls k t = true) : ∃ v, t = leaf v := by
  cases t with
  | leaf v => exact ⟨v, rfl⟩
  | node o l r =>
    simp only [wf, Bool.and_eq_true, decide_eq_true_eq] at hw
    simp only [minCls, Bool.and_eq_true, decide_eq_true_eq] at hm
    omega

theorem wf_mono {a b : Nat} (h : a ≤ b) {t : VT N} (hw : wf a t = true) : wf b t = true := by
  cases t with
  | leaf v => rfl
  | node o l r =>
    simp only [wf, Bool.and_eq_true, decide_eq_true_eq] at hw ⊢
    exact ⟨⟨by omega, hw.1.2⟩, hw.2⟩

/-- A tree whose operators all have class exactly `k` folds to a value in pass `k`. -/
theorem fold_leaf (nm : Num N) {k : Nat} {t t' : VT N} (hw : wf (k + 1) t = true) (hm : minCls k t = true)
    (hf : t.fold nm k = some t') : ∃ v, t' = leaf v := by
  cases t with
  | leaf v => simp only [fold, Option.some.injEq] at hf; exact ⟨v, hf.symm⟩
  | node o l r =>
    simp only [wf, Bool.and_eq_true, decide_eq_true_eq] at hw
    simp only [minCls, Bool.and_eq_true, decide_eq_true_eq] at hm
    have hk : o.cls = k := by omega
    simp only [fold] at hf
    cases hl : l.fold nm k with
    | none => simp [hl] at hf
    | some l' =>
      cases hr : r.fold nm k with
      | none => simp [hl, hr] at hf
      | some r' =>
        simp only [hl, hr, hk, ite_true] at hf
        cases l' with
        | node _ _ _ => simp at hf
        | leaf a =>
          cases r' with
          | node _ _ _ => simp at hf
          | leaf b =>
            simp only at hf
            cases ha : applyOp nm o a b with
            | none => simp [ha] at hf
            | some v => simp only [ha, Option.map_some, Option.some.injEq] at hf; exact ⟨v, hf.symm⟩

theorem fold_wf_min (nm : Num N) {k : Nat} : ∀ {t t' : VT N} {b : Nat}, wf b t = true → minCls k t = true →
    t.fold nm k = some t' → wf b t' = true ∧ minCls (k + 1) t' = true := by
  intro t
  induction t with
  | leaf v =>
    intro t' b _ _ hf
    simp only [fold, Option.some.injEq] at hf
    subst hf
    exact ⟨rfl, rfl⟩
  | node o l r ihl ihr =>
    intro t' b hw hm hf
    simp only [wf, Bool.and_eq_true, decide_eq_true_eq] at hw
    simp only [minCls, Bool.and_eq_true, decide_eq_true_eq] at hm
    simp only [fold] at hf
    cases hl : l.fold nm k with
    | none => simp [hl] at hf
    | some l' =>
      cases hr : r.fold nm k with
      | none => simp [hl, hr] at hf
      | some r' =>
        simp only [hl, hr] at hf
        have ⟨wl, ml⟩ := ihl hw.1.2 hm.1.2 hl
        have ⟨wr, mr⟩ := ihr hw.2 hm.2 hr
        by_cases hk : o.cls = k
        · simp only [hk, ite_true] at hf
          cases l' with
          | node _ _ _ => simp at hf
          | leaf a =>
            cases r' with
            | node _ _ _ => simp at hf
            | leaf b' =>
              simp only at hf
              cases ha : applyOp nm o a b' with
              | none => simp [ha] at hf
              | some v =>
                simp only [ha, Option.map_some, Option.some.injEq] at hf
                subst hf
                exact ⟨rfl, rfl⟩
        · simp only [hk, ite_false, Option.some.injEq] at hf
          subst hf
          refine ⟨?_, ?_⟩
          · simp only [wf, Bool.and_eq_true, decide_eq_true_eq]
            exact ⟨⟨hw.1.1, wl⟩, wr⟩
          · simp only [minCls, Bool.and_eq_true, decide_eq_true_eq]
            exact ⟨⟨by omega, ml⟩, mr⟩

/-- Folding the operators of one class does not change the value (nor whether there is one). -/
theorem fold_eval (nm : Num N) {k : Nat} : ∀ {t : VT N} {b : Nat}, wf b t = true → minCls k t = true →
    (t.fold nm k).bind (eval nm) = t.eval nm := by
  intro t
  induction t with
  | leaf v => intro b _ _; rfl
  | node o l r ihl ihr =>
    intro b hw hm
    simp only [wf, Bool.and_eq_true, decide_eq_true_eq] at hw
    simp only [minCls, Bool.and_eq_true, decide_eq_true_eq] at hm
    have el := ihl hw.1.2 hm.1.2
    have er := ihr hw.2 hm.2
    simp only [fold, eval]
    rw [← el, ← er]
    cases hl : l.fold nm k with
    | none => simp
    | some l' =>
      cases hr : r.fold nm k with
      | none =>
        simp only [Option.bind_some, Option.bind_none]
        cases eval nm l' <;> rfl
      | some r' =>
        simp only [Option.bind_some]
        by_cases hk : o.cls = k
        · simp only [hk, ite_true]
          -- both folded operands are values
          have hk' : o.cls = k := hk
          obtain ⟨a, rfl⟩ := fold_leaf nm (by rw [← hk']; exact hw.1.2) hm.1.2 hl
          have : ∃ vb, r = leaf vb := leaf_of_wf_min (k := k) (by rw [← hk']; exact hw.2) hm.2
          obtain ⟨vb, rfl⟩ := this
          simp only [fold, Option.some.injEq] at hr
          subst hr
          simp only [eval]
          cases applyOp nm o a vb <;> rfl
        · simp only [hk, ite_false, Option.bind_some, eval]

end VT

/-! ### one pass over a flattened tree -/

theorem pass_tree (nm : Num N) (k : Nat) : ∀ (t : VT N) (b : Nat), VT.wf b t = true → VT.minCls k t = true →
    ∀ (rest acc : List (BE N)),
      pass nm k (t.flat ++ rest) acc =
        (t.fold nm k).bind (fun t' => pass nm k rest (t'.flat.reverse ++ acc)) := by
  intro t
  induction t with
  | leaf v =>
    intro b _ _ rest acc
    simp only [VT.flat, VT.fold, List.cons_append, List.nil_append, Option.bind_some, List.reverse_cons,
      List.reverse_nil]
    exact pass_val nm k v rest acc
  | node o l r ihl ihr =>
    intro b hw hm rest acc
    simp only [VT.wf, Bool.and_eq_true, decide_eq_true_eq] at hw
    simp only [VT.minCls, Bool.and_eq_true, decide_eq_true_eq] at hm
    simp only [VT.flat, List.append_assoc, List.cons_append]
    rw [ihl _ hw.1.2 hm.1.2]
    simp only [VT.fold]
    cases hl : l.fold nm k with
    | none => simp
    | some l' =>
      simp only [Option.bind_some]
      by_cases hk : o.cls = k
      · -- the operator is applied in this pass: left operand folded to a value, right operand is a value
        obtain ⟨a, rfl⟩ := VT.fold_leaf nm (by rw [← hk]; exact hw.1.2) hm.1.2 hl
        obtain ⟨vb, rfl⟩ : ∃ vb, r = VT.leaf vb := VT.leaf_of_wf_min (k := k) (by rw [← hk]; exact hw.2) hm.2
        simp only [VT.flat, List.reverse_cons, List.reverse_nil, List.nil_append, List.cons_append, VT.fold, hk, ite_true]
        rw [pass_op_eq nm hk]
        cases applyOp nm o a vb with
        | none => rfl
        | some v => simp [VT.flat]
      · rw [pass_op_ne nm hk, ihr _ hw.2 hm.2]
        cases hr : r.fold nm k with
        | none => simp
        | some r' =>
          simp only [Option.bind_some, hk, ite_false, VT.flat, List.reverse_append, List.reverse_cons,
            List.append_assoc, List.cons_append, List.nil_append]

/-- The whole reduction of a flattened value tree is its recursive evaluation. -/
theorem reduce_flat (nm : Num N) (t : VT N) (hw : VT.wf 3 t = true) : reduce nm t.flat = t.eval nm := by
  have hm0 : VT.minCls 0 t = true := by
    clear hw
    induction t with
    | leaf v => rfl
    | node o l r ihl ihr => simp [VT.minCls, ihl, ihr]
  have p0 := pass_tree nm 0 t 3 hw hm0 [] []
  simp only [List.append_nil, pass_nil, List.reverse_reverse] at p0
  unfold reduce
  rw [p0]
  have e0 := VT.fold_eval nm hw hm0
  cases h0 : t.fold nm 0 with
  | none => rw [h0] at e0; simp at e0; simp [← e0]
  | some t0 =>
    rw [h0] at e0
    simp only [Option.bind_some] at e0 ⊢
    have ⟨w0, m0⟩ := VT.fold_wf_min nm hw hm0 h0
    have p1 := pass_tree nm 1 t0 3 w0 m0 [] []
    simp only [List.append_nil, pass_nil, List.reverse_reverse] at p1
    rw [p1]
    have e1 := VT.fold_eval nm w0 m0
    cases h1 : t0.fold nm 1 with
    | none => rw [h1] at e1; simp at e1; simp [← e0, ← e1]
    | some t1 =>
      rw [h1] at e1
      simp only [Option.bind_some] at e1 ⊢
      have ⟨w1, m1⟩ := VT.fold_wf_min nm w0 m0 h1
      have p2 := pass_tree nm 2 t1 3 w1 m1 [] []
      simp only [List.append_nil, pass_nil, List.reverse_reverse] at p2
      rw [p2]
      have e2 := VT.fold_eval nm w1 m1
      cases h2 : t1.fold nm 2 with
      | none => rw [h2] at e2; simp at e2; simp [← e0, ← e1, ← e2]
      | some t2 =>
        rw [h2] at e2
        simp only [Option.bind_some] at e2 ⊢
        have ⟨w2, m2⟩ := VT.fold_wf_min nm w1 m1 h2
        obtain ⟨v, rfl⟩ := VT.leaf_of_wf_min w2 m2
        simp only [VT.flat, VT.eval] at e2 ⊢
        rw [← e0, ← e1, ← e2]

end AHP.XPath
