/-
  Raw-text elements (`script` / `style`), character level: after their start tag the stdlib tokenizer
  (`HTMLParser.set_cdata_mode`, Python 3.12: `interesting = re.compile(r'</\s*%s\s*>' % elem, re.I)`) reads
  everything up to the first match of that expression as ONE data token, then `parse_endtag` reports the end tag.
  `lexRaw` / `matchEndTag` of `Model/Lexer.lean` implement exactly that search.

  The side condition the real tokenizer needs of the content is therefore: *the closing expression
  `</ ws* name ws* >` (case-insensitive) matches at no position of the content* (`RawOK`).  A match cannot
  straddle the content and the closing tag that follows it, because the closing tag starts with `<`, which is
  neither white space, nor a name character, nor `>` (`matchEndTag_append_none`) — so the condition is on the
  content alone, whatever follows.
-/
import AHP.Model.Lexer
import AHP.Lemmas.Ws
namespace AHP

/-- the closing expression of the raw-text element `name` matches at no position of the content -/
def RawOK (name : Str) : Str → Prop
  | [] => True
  | c :: cs => matchEndTag name (c :: cs) = none ∧ RawOK name cs

instance (name : Str) : (s : Str) → Decidable (RawOK name s)
  | [] => isTrue trivial
  | _ :: cs =>
    have := instDecidableRawOK name cs
    inferInstanceAs (Decidable (_ ∧ _))

/-- the part of `matchEndTag` after `</` ws* -/
def closesAt (name r1 : Str) : Option Str :=
  if lower (r1.take name.length) = name then
    match (r1.drop name.length).dropWhile isWs with
    | '>' :: r2 => some r2
    | _ => none
  else none

theorem matchEndTag_eq (name r : Str) :
    matchEndTag name ('<' :: '/' :: r) = closesAt name (r.dropWhile isWs) := rfl

theorem matchEndTag_not_lt (name : Str) (c : Char) (r : Str) (h : c ≠ '<') : matchEndTag name (c :: r) = none := by
  unfold matchEndTag
  split
  · rename_i r' heq; simp at heq; exact absurd heq.1 h
  · rfl

theorem matchEndTag_not_slash (name : Str) (d : Char) (r : Str) (h : d ≠ '/') :
    matchEndTag name ('<' :: d :: r) = none := by
  unfold matchEndTag
  split
  · rename_i r' heq; simp at heq; exact absurd heq.1 h
  · rfl

theorem lower_append (a b : Str) : lower (a ++ b) = lower a ++ lower b := by simp [lower]

theorem lower_length (a : Str) : (lower a).length = a.length := by simp [lower]

theorem lowerChar_lt : lowerChar '<' = '<' := by decide

/-- the closing expression cannot end inside a `<` that follows: no match before, no match after -/
theorem closesAt_append_none (name r1 more : Str) (hlt : '<' ∉ name)
    (h : closesAt name r1 = none) : closesAt name (r1 ++ '<' :: more) = none := by
  by_cases hlen : name.length ≤ r1.length
  · -- the name is compared inside `r1`
    unfold closesAt at h ⊢
    rw [List.take_append_of_le_length hlen, List.drop_append_of_le_length hlen]
    by_cases hnm : lower (r1.take name.length) = name
    · rw [if_pos hnm] at h ⊢
      rw [List.dropWhile_append]
      cases hd : (r1.drop name.length).dropWhile isWs with
      | nil =>
        have hlw : isWs '<' = false := by decide
        simp [hlw]
      | cons e r =>
        rw [hd] at h
        simp only [List.isEmpty_cons, Bool.false_eq_true, if_false, List.cons_append]
        by_cases he : e = '>'
        · subst he; simp at h
        · split
          · rename_i r2 heq; simp at heq; exact absurd heq.1 he
          · rfl
    · rw [if_neg hnm]
  · -- the name would have to contain the `<`
    have hlen' : r1.length < name.length := Nat.lt_of_not_le hlen
    unfold closesAt
    rw [if_neg]
    intro heq
    apply hlt
    rw [← heq, List.take_append, lower_append]
    have h1 : r1.take name.length = r1 := List.take_of_length_le (Nat.le_of_lt hlen')
    have h2 : ∃ m, name.length - r1.length = m + 1 := ⟨name.length - r1.length - 1, by omega⟩
    obtain ⟨m, hm⟩ := h2
    rw [hm]
    simp [lower, lowerChar_lt]

theorem matchEndTag_append_none (name s more : Str) (hne : name ≠ []) (hlt : '<' ∉ name)
    (hs : s ≠ []) (h : matchEndTag name s = none) : matchEndTag name (s ++ '<' :: more) = none := by
  match s, hs with
  | [c], _ =>
    by_cases hc : c = '<'
    · subst hc; exact matchEndTag_not_slash name '<' more (by decide)
    · exact matchEndTag_not_lt name c _ hc
  | c :: d :: r, _ =>
    by_cases hc : c = '<'
    · subst hc
      by_cases hd : d = '/'
      · subst hd
        rw [matchEndTag_eq] at h
        simp only [List.cons_append]
        rw [matchEndTag_eq, List.dropWhile_append]
        cases hdw : r.dropWhile isWs with
        | nil =>
          have hl : isWs '<' = false := by decide
          simp only [List.isEmpty_nil, if_true, List.dropWhile_cons, hl, Bool.false_eq_true, if_false]
          -- `<` is not the first letter of the name
          unfold closesAt
          rw [if_neg]
          intro heq
          obtain ⟨n0, ns, rfl⟩ := List.exists_cons_of_ne_nil hne
          simp [lower, lowerChar_lt] at heq
          exact hlt (List.mem_cons.mpr (Or.inl heq.1))
        | cons e r' =>
          rw [hdw] at h
          simp only [List.isEmpty_cons, Bool.false_eq_true, if_false]
          exact closesAt_append_none name (e :: r') more hlt h
      · exact matchEndTag_not_slash name d _ hd
    · exact matchEndTag_not_lt name c _ hc

/-- the closing tag the serialiser writes is matched where it stands -/
theorem matchEndTag_self (name rest : Str) (hlow : lower name = name)
    (hw : ∀ c r, name = c :: r → isWs c = false) (hne : name ≠ []) :
    matchEndTag name ('<' :: '/' :: (name ++ '>' :: rest)) = some rest := by
  rw [matchEndTag_eq]
  obtain ⟨c, r, rfl⟩ := List.exists_cons_of_ne_nil hne
  have hc := hw c r rfl
  have hd : ((c :: r) ++ '>' :: rest).dropWhile isWs = (c :: r) ++ '>' :: rest := by
    simp [hc]
  rw [hd]
  unfold closesAt
  have ht : ((c :: r) ++ '>' :: rest).take (c :: r).length = c :: r := by
    rw [List.take_append_of_le_length (Nat.le_refl _)]; simp
  have hdr : ((c :: r) ++ '>' :: rest).drop (c :: r).length = '>' :: rest := by
    rw [List.drop_append_of_le_length (Nat.le_refl _)]; simp
  rw [ht, hdr, if_pos hlow]
  have hg : isWs '>' = false := by decide
  simp [hg]

/-- **raw text comes back**: content that nowhere matches the closing expression, followed by the closing tag
    the serialiser writes, is read back as one block, and the closing tag is consumed -/
theorem lexRaw_render (name raw rest : Str) (hlow : lower name = name) (hne : name ≠ []) (hlt : '<' ∉ name)
    (hw : ∀ c r, name = c :: r → isWs c = false) (h : RawOK name raw) :
    ∀ k, (raw ++ '<' :: '/' :: (name ++ '>' :: rest)).length < k →
      lexRaw name k (raw ++ '<' :: '/' :: (name ++ '>' :: rest)) = some (raw, rest) := by
  induction raw with
  | nil =>
    intro k hk
    cases k with
    | zero => simp at hk
    | succ k =>
      simp only [List.nil_append, lexRaw]
      rw [matchEndTag_self name rest hlow hw hne]
  | cons c cs ih =>
    intro k hk
    cases k with
    | zero => simp at hk
    | succ k =>
      have hlen : (cs ++ '<' :: '/' :: (name ++ '>' :: rest)).length < k := by
        simp at hk ⊢; omega
      have hno : matchEndTag name ((c :: cs) ++ '<' :: '/' :: (name ++ '>' :: rest)) = none :=
        matchEndTag_append_none name (c :: cs) _ hne hlt (by simp) h.1
      simp only [List.cons_append] at hno ⊢
      simp only [lexRaw, hno]
      rw [ih h.2 k hlen]
      rfl

/-! ### white space after the content (the formatter's `_indent` before the end tag) -/

theorem lowerChar_ws (c : Char) (h : isWs c = true) : lowerChar c = c := lowerChar_of_isWs h

theorem dropWhile_ws_all (w : Str) (hw : ∀ c ∈ w, isWs c = true) : w.dropWhile isWs = [] := by
  induction w with
  | nil => rfl
  | cons c cs ih =>
    have hc := hw c (by simp)
    simp only [List.dropWhile_cons, hc, if_true]
    exact ih (fun x hx => hw x (by simp [hx]))

theorem closesAt_nil (name : Str) (hne : name ≠ []) : closesAt name [] = none := by
  unfold closesAt
  rw [if_neg]
  intro h
  simp [lower] at h
  exact hne h

/-- white space appended to something the closing expression does not match: still no match -/
theorem closesAt_append_ws (name r1 w : Str) (hnw : ∀ c ∈ name, isWs c = false)
    (hw : ∀ c ∈ w, isWs c = true) (h : closesAt name r1 = none) : closesAt name (r1 ++ w) = none := by
  by_cases hlen : name.length ≤ r1.length
  · unfold closesAt at h ⊢
    rw [List.take_append_of_le_length hlen, List.drop_append_of_le_length hlen]
    by_cases hnm : lower (r1.take name.length) = name
    · rw [if_pos hnm] at h ⊢
      rw [List.dropWhile_append]
      cases hd : (r1.drop name.length).dropWhile isWs with
      | nil => simp [dropWhile_ws_all w hw]
      | cons e r =>
        rw [hd] at h
        simp only [List.isEmpty_cons, Bool.false_eq_true, if_false, List.cons_append]
        by_cases he : e = '>'
        · subst he; simp at h
        · split
          · rename_i r2 heq; simp at heq; exact absurd heq.1 he
          · rfl
    · rw [if_neg hnm]
  · have hlen' : r1.length < name.length := Nat.lt_of_not_le hlen
    cases w with
    | nil => simpa using h
    | cons d w' =>
      unfold closesAt
      rw [if_neg]
      intro heq
      have hd : isWs d = true := hw d (by simp)
      have hmem : d ∈ name := by
        rw [← heq, List.take_append, lower_append]
        have h1 : r1.take name.length = r1 := List.take_of_length_le (Nat.le_of_lt hlen')
        obtain ⟨m, hm⟩ : ∃ m, name.length - r1.length = m + 1 := ⟨name.length - r1.length - 1, by omega⟩
        rw [hm]
        simp [lower, lowerChar_ws d hd]
      rw [hnw d hmem] at hd
      exact absurd hd (by decide)

theorem matchEndTag_append_ws (name s w : Str) (hne : name ≠ []) (hnw : ∀ c ∈ name, isWs c = false)
    (hw : ∀ c ∈ w, isWs c = true) (hs : s ≠ []) (h : matchEndTag name s = none) :
    matchEndTag name (s ++ w) = none := by
  match s, hs with
  | [c], _ =>
    by_cases hc : c = '<'
    · subst hc
      cases w with
      | nil => simpa using h
      | cons d w' =>
        have hd : isWs d = true := hw d (by simp)
        exact matchEndTag_not_slash name d w' (by intro e; subst e; exact absurd hd (by decide))
    · exact matchEndTag_not_lt name c _ hc
  | c :: d :: r, _ =>
    by_cases hc : c = '<'
    · subst hc
      by_cases hd : d = '/'
      · subst hd
        rw [matchEndTag_eq] at h
        simp only [List.cons_append]
        rw [matchEndTag_eq, List.dropWhile_append]
        cases hdw : r.dropWhile isWs with
        | nil =>
          simp only [List.isEmpty_nil, if_true, dropWhile_ws_all w hw]
          exact closesAt_nil name hne
        | cons e r' =>
          rw [hdw] at h
          simp only [List.isEmpty_cons, Bool.false_eq_true, if_false]
          exact closesAt_append_ws name (e :: r') w hnw hw h
      · exact matchEndTag_not_slash name d _ hd
    · exact matchEndTag_not_lt name c _ hc

theorem rawOK_ws (name w : Str) (hw : ∀ c ∈ w, isWs c = true) : RawOK name w := by
  induction w with
  | nil => trivial
  | cons c cs ih =>
    have hc : isWs c = true := hw c (by simp)
    exact ⟨matchEndTag_not_lt name c cs (by intro e; subst e; exact absurd hc (by decide)),
      ih (fun x hx => hw x (by simp [hx]))⟩

/-- **content followed by white space** (what the pretty printers put before `</script>`): still free of the
    closing expression -/
theorem rawOK_append_ws (name raw w : Str) (hne : name ≠ []) (hnw : ∀ c ∈ name, isWs c = false)
    (hw : ∀ c ∈ w, isWs c = true) (h : RawOK name raw) : RawOK name (raw ++ w) := by
  induction raw with
  | nil => simpa using rawOK_ws name w hw
  | cons c cs ih =>
    exact ⟨matchEndTag_append_ws name (c :: cs) w hne hnw hw (by simp) h.1, ih h.2⟩

/-! ### the two raw-text names -/

theorem rawName_cases (n : Str) (h : isRawText n = true) : n = "script".toList ∨ n = "style".toList := by
  simpa [isRawText] using h

theorem rawName_noWs (n : Str) (h : isRawText n = true) : ∀ c ∈ n, isWs c = false := by
  rcases rawName_cases n h with rfl | rfl <;> decide

theorem rawName_facts (n : Str) (h : isRawText n = true) :
    lower n = n ∧ n ≠ [] ∧ '<' ∉ n ∧ (∀ c r, n = c :: r → isWs c = false) ∧
    (∃ c cs, n = c :: cs ∧ isAlpha c = true) ∧ (∀ c ∈ n, isTagCh c = true) := by
  rcases rawName_cases n h with rfl | rfl
  · refine ⟨by decide, by decide, by decide, ?_, ⟨'s', "cript".toList, rfl, by decide⟩, by decide⟩
    intro c r e
    have : c = 's' := by simp at e; exact e.1.symm
    subst this; decide
  · refine ⟨by decide, by decide, by decide, ?_, ⟨'s', "tyle".toList, rfl, by decide⟩, by decide⟩
    intro c r e
    have : c = 's' := by simp at e; exact e.1.symm
    subst this; decide

/-! ### non-vacuity: content with `<`, `&`, another element's end tag, an unfinished closing sequence -/
example : RawOK "script".toList "if (a < b && c) { s = '</div>' + \"</scr\" + \"ipt>\"; }".toList := by decide
example : ¬ RawOK "script".toList "x</ SCRIPT >y".toList := by decide
example : lexRaw "script".toList 100 "a<b&&c</div></script>rest".toList = some ("a<b&&c</div>".toList, "rest".toList) := by
  decide

end AHP
