/-
  AHP.Lemmas.Ws — facts about the shared white-space predicate `isWs` (Python's `str.isspace()` of one character) and its
  ASCII part `isAsciiWs`.  `isWs` is what `strip()`/`lstrip()`/`rstrip()`/`split()` without argument and `\s` in a `str`
  pattern use; explicit sets of the code (`split(' ')`, `[ \t]`, `[\t\n\r\f />\x00]` …) have their own predicates.
-/
import AHP.Model.Basic
namespace AHP

/-- The code points of Python's white space, as a finite list (CPython 3.12, Unicode 15). -/
def wsCodes : List Nat :=
  [9, 10, 11, 12, 13, 28, 29, 30, 31, 32, 0x85, 0xa0, 0x1680, 0x2000, 0x2001, 0x2002, 0x2003, 0x2004, 0x2005, 0x2006,
   0x2007, 0x2008, 0x2009, 0x200a, 0x2028, 0x2029, 0x202f, 0x205f, 0x3000]

theorem char_eq_of_toNat {c d : Char} (h : c.toNat = d.toNat) : c = d := by
  rw [← Char.ofNat_toNat c, ← Char.ofNat_toNat d, h]

/-- `isWs` in terms of the code point only. -/
theorem isWs_iff_toNat (c : Char) :
    isWs c = true ↔
      (c.toNat = 32 ∨ c.toNat = 9 ∨ c.toNat = 10 ∨ c.toNat = 13 ∨ c.toNat = 11 ∨ c.toNat = 12 ∨ c.toNat = 28 ∨
        c.toNat = 29 ∨ c.toNat = 30 ∨ c.toNat = 31 ∨ c.toNat = 0x85 ∨ c.toNat = 0xa0 ∨ c.toNat = 0x1680 ∨
        (0x2000 ≤ c.toNat ∧ c.toNat ≤ 0x200a) ∨ c.toNat = 0x2028 ∨ c.toNat = 0x2029 ∨ c.toNat = 0x202f ∨
        c.toNat = 0x205f ∨ c.toNat = 0x3000) := by
  have e : ∀ d : Char, c = d ↔ c.toNat = d.toNat := fun d => ⟨fun h => by rw [h], char_eq_of_toNat⟩
  simp only [isWs, Bool.or_eq_true, decide_eq_true_eq, Bool.and_eq_true, or_assoc]
  rw [e ' ', e '\t', e '\n', e '\r', e '\x0b', e '\x0c', e '\x1c', e '\x1d', e '\x1e', e '\x1f']
  rfl

theorem isWs_mem_wsCodes (c : Char) : isWs c = true ↔ c.toNat ∈ wsCodes := by
  rw [isWs_iff_toNat]
  simp only [wsCodes, List.mem_cons, List.not_mem_nil, or_false]
  omega

theorem isAsciiWs_iff_toNat (c : Char) :
    isAsciiWs c = true ↔
      (c.toNat = 32 ∨ c.toNat = 9 ∨ c.toNat = 10 ∨ c.toNat = 13 ∨ c.toNat = 11 ∨ c.toNat = 12 ∨ c.toNat = 28 ∨
        c.toNat = 29 ∨ c.toNat = 30 ∨ c.toNat = 31) := by
  have e : ∀ d : Char, c = d ↔ c.toNat = d.toNat := fun d => ⟨fun h => by rw [h], char_eq_of_toNat⟩
  simp only [isAsciiWs, Bool.or_eq_true, decide_eq_true_eq, or_assoc]
  rw [e ' ', e '\t', e '\n', e '\r', e '\x0b', e '\x0c', e '\x1c', e '\x1d', e '\x1e', e '\x1f']
  rfl

/-- ASCII white space is white space … -/
theorem isWs_of_isAsciiWs {c : Char} (h : isAsciiWs c = true) : isWs c = true := by
  rw [isWs_iff_toNat]; rw [isAsciiWs_iff_toNat] at h; omega

/-- … and on ASCII characters the two predicates coincide. -/
theorem isWs_eq_isAsciiWs_of_ascii {c : Char} (h : c.toNat < 128) : isWs c = isAsciiWs c := by
  rw [Bool.eq_iff_iff, isWs_iff_toNat, isAsciiWs_iff_toNat]; omega

/-- The white space that is not ASCII: the characters on which the former ASCII-only model of `strip` was wrong. -/
theorem isWs_not_ascii_iff (c : Char) :
    (isWs c = true ∧ isAsciiWs c = false) ↔
      (c.toNat = 0x85 ∨ c.toNat = 0xa0 ∨ c.toNat = 0x1680 ∨ (0x2000 ≤ c.toNat ∧ c.toNat ≤ 0x200a) ∨ c.toNat = 0x2028 ∨
        c.toNat = 0x2029 ∨ c.toNat = 0x202f ∨ c.toNat = 0x205f ∨ c.toNat = 0x3000) := by
  rw [← Bool.not_eq_true, isWs_iff_toNat, isAsciiWs_iff_toNat]; omega

example : isWs '\u00a0' = true ∧ isAsciiWs '\u00a0' = false := by decide
example : isWs '\u3000' = true ∧ isWs '\u2003' = true ∧ isWs '\u0085' = true ∧ isWs '\x1c' = true := by decide
/-- zero-width space, Mongolian vowel separator and the byte-order mark are not white space for Python -/
example : isWs '\u200b' = false ∧ isWs '\u180e' = false ∧ isWs '\ufeff' = false := by decide

/-- Case analysis over white space: a statement checked on the 29 code points holds of every white-space character. -/
theorem forall_isWs {P : Char → Prop} (key : ∀ n ∈ wsCodes, P (Char.ofNat n)) {c : Char} (h : isWs c = true) : P c := by
  have := key c.toNat ((isWs_mem_wsCodes c).1 h)
  rwa [Char.ofNat_toNat] at this

/-- A character class that contains none of the 29 code points contains no white space. -/
theorem isWs_false_of {p : Char → Bool} (key : ∀ n ∈ wsCodes, p (Char.ofNat n) = false) {c : Char} (h : p c = true) :
    isWs c = false := by
  cases hw : isWs c with
  | false => rfl
  | true =>
    have := forall_isWs (P := fun c => p c = false) key hw
    rw [this] at h; cases h

/-- A letter `A`–`Z` is not white space, hence `lower` leaves white space alone. -/
theorem lowerChar_of_isWs {c : Char} (h : isWs c = true) : lowerChar c = c := by
  unfold lowerChar
  split
  · next hc =>
    exfalso
    have ha : 65 ≤ c.toNat := hc.1
    have hz : c.toNat ≤ 90 := hc.2
    rw [isWs_iff_toNat] at h
    omega
  · rfl

end AHP
