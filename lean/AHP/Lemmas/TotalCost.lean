/-
  C03 — a COST model of the plain parser's handlers, and the bound that is true of it.

  `invocations_linear` (Props/C03.lean) counts handler CALLS.  A call is not constant time:

  * `handle_endtag` first runs `for i in range(len(inTag)): if inTag[i].tagName == tagName: … break` — from the
    OUTERMOST open element — and then `while inTag[-1].tagName != tagName: inTag.pop()` from the innermost.
    Unit of `stepCost`: one per handler call, one per `tagName` comparison of either loop.
  * every other handler does a bounded amount of stack work (one `inTag[-1]`, at most one `append`): cost 1.
    (Building the element costs time proportional to the token's own attribute list, and `appendText` is
    `self.text += text`, which copies the element's accumulated text — CPython's in-place `+=` does not apply
    to an attribute target — so it costs accumulated + appended characters.  That part is `textCost` below.)

  What is true: `runCost ≤ |tokens| · (2·maxDepth + 1)` — linear for bounded nesting depth, quadratic in general,
  and `opens k ++ strays k` (k start tags, then k end tags of a name that is not open) costs exactly `k² + 2k`.
-/
import AHP.Lemmas.TotalObject
namespace AHP
open Spec

/-- comparisons made by a loop that walks a list of names up to and including the first `n` (or to the end) -/
def scanCost (n : Str) : List Str → Nat
  | [] => 0
  | m :: r => if m = n then 1 else 1 + scanCost n r

/-- `handle_endtag` over the open names (innermost first): the call, the `foundIt` scan from the outermost,
    and — when found — the closing loop from the innermost -/
def endCost (open_ : List Str) (n : Str) : Nat :=
  1 + scanCost n open_.reverse + (if open_.contains n then scanCost n open_ else 0)

def stepCost (s : TState) : Token → Nat
  | .end_ n => endCost (names s) n
  | _ => 1

/-- cost of a pass (a raising handler is still called) -/
def runCost (s : TState) : List Token → Nat
  | [] => 0
  | t :: ts => stepCost s t + (match stepT s t with
    | .ok s' => runCost s' ts
    | _ => 0)

/-- deepest open-element stack a pass goes through -/
def maxDepth (s : TState) : List Token → Nat
  | [] => s.stack.length
  | t :: ts => match stepT s t with
    | .ok s' => max s.stack.length (maxDepth s' ts)
    | _ => s.stack.length

theorem scanCost_le (n : Str) (l : List Str) : scanCost n l ≤ l.length := by
  induction l with
  | nil => simp [scanCost]
  | cons m r ih => simp only [scanCost, List.length_cons]; split <;> omega

theorem stepCost_le (s : TState) (t : Token) : stepCost s t ≤ 2 * s.stack.length + 1 := by
  cases t <;> simp only [stepCost] <;> try omega
  rename_i n
  unfold endCost
  have h1 := scanCost_le n (names s).reverse
  have h2 := scanCost_le n (names s)
  have hl : (names s).length = s.stack.length := by simp [names]
  simp only [List.length_reverse] at h1
  split <;> omega

theorem depth_le_maxDepth (s : TState) (ts : List Token) : s.stack.length ≤ maxDepth s ts := by
  cases ts with
  | nil => exact Nat.le_refl _
  | cons t ts =>
    simp only [maxDepth]
    split
    · exact Nat.le_max_left _ _
    · exact Nat.le_refl _

/-- **the bound that is true**: cost ≤ |tokens| · (2·maxDepth + 1) -/
theorem runCost_le (ts : List Token) : ∀ s : TState, runCost s ts ≤ ts.length * (2 * maxDepth s ts + 1) := by
  induction ts with
  | nil => intro s; simp [runCost]
  | cons t ts ih =>
    intro s
    have h1 := stepCost_le s t
    have h2 := depth_le_maxDepth s (t :: ts)
    have h3 : stepCost s t ≤ 2 * maxDepth s (t :: ts) + 1 := by omega
    simp only [runCost, List.length_cons]
    rw [Nat.add_mul, Nat.one_mul]
    cases hs : stepT s t with
    | ok s' =>
      simp only
      have h4 : maxDepth s' ts ≤ maxDepth s (t :: ts) := by
        simp only [maxDepth, hs]; exact Nat.le_max_right _ _
      have h5 := ih s'
      have h6 : ts.length * (2 * maxDepth s' ts + 1) ≤ ts.length * (2 * maxDepth s (t :: ts) + 1) :=
        Nat.mul_le_mul_left _ (by omega)
      omega
    | multipleRoot => simp only; omega
    | invalidClose => simp only; omega
    | missedClose => simp only; omega
    | invalidAttr => simp only; omega

/-! #### depth grows by at most one per token -/

theorem stepT_depth (s s' : TState) (t : Token) (h : stepT s t = .ok s') :
    s'.stack.length ≤ s.stack.length + 1 := by
  cases t with
  | decl d => simp [stepT] at h; rw [← h]; omega
  | unknownDecl d => simp [stepT] at h; rw [← h]; omega
  | pi d => simp [stepT] at h; rw [← h]; omega
  | end_ n =>
    simp only [stepT, Outcome.ok.injEq] at h
    rw [← h]
    have hl : ∀ x : TState, (names x).length = x.stack.length := by intro x; simp [names]
    rcases names_handleEnd s n with ⟨_, he⟩ | ⟨pre, post, h1, _, h3⟩
    · rw [he]; omega
    · rw [← hl, ← hl, h3, h1]; simp; omega
  | comment c =>
    simp only [stepT, addTextStrict] at h; split at h
    · cases h
    · simp at h; rw [← h, len_addNode]; omega
  | entity c =>
    simp only [stepT, addTextStrict] at h; split at h
    · cases h
    · simp at h; rw [← h, len_addNode]; omega
  | charref c =>
    simp only [stepT, addTextStrict] at h; split at h
    · cases h
    · simp at h; rw [← h, len_addNode]; omega
  | data d =>
    simp only [stepT] at h
    split at h
    · simp at h; rw [← h]; omega
    · split at h
      · simp at h; rw [← h, len_addNode]; omega
      · split at h
        · simp at h; rw [← h]; omega
        · cases h
  | start n a =>
    simp only [stepT, handleStart] at h
    split at h
    · split at h
      · simp at h; rw [← h, len_addNode]; omega
      · simp at h; rw [← h]; simp
    · cases h
  | startend n a =>
    simp only [stepT, handleStart] at h
    split at h
    · split at h
      · simp at h; rw [← h, len_addNode]; omega
      · simp at h; rw [← h]; simp
    · cases h

theorem maxDepth_le (ts : List Token) : ∀ s : TState, maxDepth s ts ≤ s.stack.length + ts.length := by
  induction ts with
  | nil => intro s; simp [maxDepth]
  | cons t ts ih =>
    intro s
    simp only [maxDepth, List.length_cons]
    cases hs : stepT s t with
    | ok s' =>
      simp only
      have := ih s'
      have := stepT_depth s s' t hs
      exact Nat.max_le.mpr ⟨by omega, by omega⟩
    | multipleRoot => simp only; omega
    | invalidClose => simp only; omega
    | missedClose => simp only; omega
    | invalidAttr => simp only; omega

/-- the absolute (quadratic) bound -/
theorem runCost_le_quadratic (s : TState) (ts : List Token) :
    runCost s ts ≤ ts.length * (2 * (s.stack.length + ts.length) + 1) :=
  Nat.le_trans (runCost_le ts s) (Nat.mul_le_mul_left _ (by have := maxDepth_le ts s; omega))

theorem runCost_append (l1 : List Token) : ∀ (l2 : List Token) (s s' : TState), runT s l1 = .ok s' →
    runCost s (l1 ++ l2) = runCost s l1 + runCost s' l2 := by
  induction l1 with
  | nil => intro l2 s s' h; simp [runT] at h; rw [h]; simp [runCost]
  | cons t l1 ih =>
    intro l2 s s' h
    simp only [runT] at h
    cases hs : stepT s t <;> rw [hs] at h <;> simp at h
    simp only [List.cons_append, runCost, hs]
    rw [ih l2 _ s' h]; omega

/-! #### the family that is not linear: `k` start tags, then `k` end tags of a name that is not open -/

def nameA : Str := "a".toList
def nameB : Str := "b".toList
def opens (k : Nat) : List Token := List.replicate k (.start nameA [])
def strays (k : Nat) : List Token := List.replicate k (.end_ nameB)
/-- `k` elements `a` open -/
def deep (k : Nat) : TState := ⟨List.replicate k ⟨nameA, AttrState.empty, []⟩, none⟩

theorem stepT_deep_open (j : Nat) : stepT (deep j) (.start nameA []) = .ok (deep (j + 1)) := by
  have hv : AHP.isVoid nameA = false := by decide
  have hl : lower nameA = nameA := by decide
  cases j with
  | zero => simp [stepT, handleStart, deep, TState.hasRoot, hv, hl, intake]
  | succ j => simp [stepT, handleStart, deep, TState.hasRoot, hv, hl, intake, List.replicate_succ]

theorem names_deep (k : Nat) : names (deep k) = List.replicate k nameA := by
  simp [names, deep]

theorem stepT_deep_stray (k : Nat) : stepT (deep k) (.end_ nameB) = .ok (deep k) := by
  have : (List.replicate k nameA).contains nameB = false := by
    induction k with
    | zero => rfl
    | succ k ih => rw [List.replicate_succ, List.contains_cons, ih]; decide
  have h2 : (List.map (fun x => x.name) (deep k).stack).contains nameB = false := by
    have := names_deep k; unfold names at this; rw [this]; assumption
  simp only [stepT, handleEnd, h2]; rfl

theorem scanCost_replicate (k : Nat) : scanCost nameB (List.replicate k nameA) = k := by
  induction k with
  | zero => rfl
  | succ k ih =>
    rw [List.replicate_succ]
    have : ¬ nameA = nameB := by decide
    simp only [scanCost, this, if_false, ih]; omega

theorem stepCost_deep_stray (k : Nat) : stepCost (deep k) (.end_ nameB) = k + 1 := by
  have hc : (List.replicate k nameA).contains nameB = false := by
    induction k with
    | zero => rfl
    | succ k ih => rw [List.replicate_succ, List.contains_cons, ih]; decide
  simp only [stepCost, endCost, names_deep, List.reverse_replicate, scanCost_replicate, hc]
  simp; omega

theorem run_opens (k : Nat) : ∀ j : Nat, runT (deep j) (opens k) = .ok (deep (j + k)) ∧ runCost (deep j) (opens k) = k := by
  induction k with
  | zero => intro j; exact ⟨rfl, rfl⟩
  | succ k ih =>
    intro j
    have h := ih (j + 1)
    have e : j + 1 + k = j + (k + 1) := by omega
    rw [e] at h
    simp only [opens, List.replicate_succ] at h ⊢
    simp only [runT, runCost, stepT_deep_open, stepCost]
    exact ⟨h.1, by rw [h.2]; omega⟩

theorem run_strays (j : Nat) : ∀ k : Nat, runT (deep k) (strays j) = .ok (deep k) ∧ runCost (deep k) (strays j) = j * (k + 1) := by
  induction j with
  | zero => intro k; exact ⟨rfl, by simp [strays, runCost]⟩
  | succ j ih =>
    intro k
    have h := ih k
    simp only [strays, List.replicate_succ] at h ⊢
    simp only [runT, runCost, stepT_deep_stray, stepCost_deep_stray]
    exact ⟨h.1, by rw [h.2, Nat.succ_mul]; omega⟩

/-- the exact cost of `<a>`×k followed by `</b>`×k from the initial state -/
theorem cost_opens_strays (k : Nat) : runCost TState.init (opens k ++ strays k) = k * k + 2 * k := by
  have h1 := run_opens k 0
  have h2 := run_strays k k
  have hi : deep 0 = TState.init := rfl
  rw [hi, Nat.zero_add] at h1
  rw [runCost_append _ _ _ _ h1.1, h1.2, h2.2, Nat.mul_succ]; omega

theorem opens_strays_length (k : Nat) : (opens k ++ strays k).length = 2 * k := by
  simp [opens, strays]; omega

/-- no constant `c` bounds the cost by `c · |tokens|` -/
theorem cost_not_linear (c : Nat) : ∃ toks : List Token, c * toks.length < runCost TState.init toks := by
  refine ⟨opens (2 * c + 1) ++ strays (2 * c + 1), ?_⟩
  rw [cost_opens_strays, opens_strays_length]
  generalize hk : 2 * c + 1 = k
  have h1 : c * (2 * k) = (2 * c) * k := by rw [Nat.mul_left_comm, ← Nat.mul_assoc]
  rw [h1]
  have h2 : 2 * c * k ≤ k * k := by
    rw [Nat.mul_comm k k]; exact Nat.mul_le_mul_right _ (by omega)
  omega

/-! #### `self.text += text`: the concatenation copies the element's accumulated text -/

def nodeTextLen : Node → Nat
  | .text s => s.length
  | .elem .. => 0

/-- `len(tag.text)` of an open element -/
def Frame.textLen (f : Frame) : Nat := (f.rev.map nodeTextLen).sum

/-- length of the string a token's handler appends (0: no `appendText`) -/
def tokText : Token → Nat
  | .data d => d.length
  | .entity e => e.length + 2
  | .charref c => c.length + 3
  | .comment c => c.length + 7
  | _ => 0

/-- characters copied by `self.text += text` -/
def textCost (s : TState) (t : Token) : Nat :=
  match s.stack with
  | f :: _ => if tokText t = 0 then 0 else f.textLen + tokText t
  | [] => 0

def runTextCost (s : TState) : List Token → Nat
  | [] => 0
  | t :: ts => textCost s t + (match stepT s t with
    | .ok s' => runTextCost s' ts
    | _ => 0)

/-- total text handed to `appendText` by a token sequence -/
def totalText (ts : List Token) : Nat := (ts.map tokText).sum

/-- every open element has accumulated at most `b` characters -/
def TextBound (b : Nat) (s : TState) : Prop := ∀ f ∈ s.stack, f.textLen ≤ b

theorem textBound_mono {b b' : Nat} {s : TState} (h : TextBound b s) (hb : b ≤ b') : TextBound b' s :=
  fun f hf => Nat.le_trans (h f hf) hb

theorem textBound_addElem {b : Nat} {s : TState} (h : TextBound b s) (n : Str) (a : AttrState) (sc : Bool) (ks : List Node) :
    TextBound b (addNode s (.elem n a sc ks)) := by
  unfold addNode
  cases hs : s.stack with
  | nil => intro f hf; simp at hf
  | cons g gs =>
    intro f hf
    simp only [List.mem_cons] at hf
    rcases hf with rfl | hf
    · have := h g (by rw [hs]; exact List.mem_cons_self)
      simpa [Frame.textLen, nodeTextLen] using this
    · exact h f (by rw [hs]; exact List.mem_cons_of_mem _ hf)

theorem textBound_addText {b : Nat} {s : TState} (h : TextBound b s) (t : Str) :
    TextBound (b + t.length) (addNode s (.text t)) := by
  unfold addNode
  cases hs : s.stack with
  | nil => intro f hf; simp at hf
  | cons g gs =>
    intro f hf
    simp only [List.mem_cons] at hf
    rcases hf with rfl | hf
    · have := h g (by rw [hs]; exact List.mem_cons_self)
      simp only [Frame.textLen, List.map_cons, List.sum_cons, nodeTextLen] at this ⊢
      omega
    · have := h f (by rw [hs]; exact List.mem_cons_of_mem _ hf); omega

theorem textBound_pop1 {b : Nat} {s : TState} (h : TextBound b s) : TextBound b (pop1 s) := by
  unfold pop1
  cases hs : s.stack with
  | nil => exact h
  | cons g gs =>
    have : TextBound b { s with stack := gs } := fun f hf => h f (by rw [hs]; exact List.mem_cons_of_mem _ hf)
    exact textBound_addElem this _ _ _ _

theorem textBound_popTo {b : Nat} (n : Str) : ∀ (k : Nat) (s : TState), TextBound b s → TextBound b (popTo n k s) := by
  intro k
  induction k with
  | zero => intro s h; exact h
  | succ k ih =>
    intro s h
    cases hs : s.stack with
    | nil => simpa [popTo, hs] using h
    | cons f fs =>
      simp only [popTo, hs]
      split
      · exact textBound_pop1 h
      · exact ih _ (textBound_pop1 h)

theorem stepT_textBound {b : Nat} (s s' : TState) (t : Token) (hs : stepT s t = .ok s') (h : TextBound b s) :
    TextBound (b + tokText t) s' := by
  cases t with
  | decl d => simp [stepT] at hs; rw [← hs]; exact textBound_mono h (by simp [tokText])
  | unknownDecl d => simp [stepT] at hs; rw [← hs]; exact textBound_mono h (by simp [tokText])
  | pi d => simp [stepT] at hs; rw [← hs]; exact textBound_mono h (by simp [tokText])
  | end_ n =>
    simp only [stepT, handleEnd, Outcome.ok.injEq] at hs
    rw [← hs]; simp only [tokText, Nat.add_zero]
    split
    · exact textBound_popTo n _ s h
    · exact h
  | comment c =>
    simp only [stepT, addTextStrict] at hs; split at hs
    · cases hs
    · simp at hs; rw [← hs]
      have := textBound_addText h ("<!--".toList ++ c ++ "-->".toList)
      simpa [tokText, Nat.add_comm, Nat.add_left_comm] using this
  | entity c =>
    simp only [stepT, addTextStrict] at hs; split at hs
    · cases hs
    · simp at hs; rw [← hs]
      have := textBound_addText h ('&' :: c ++ [';'])
      simpa [tokText] using this
  | charref c =>
    simp only [stepT, addTextStrict] at hs; split at hs
    · cases hs
    · simp at hs; rw [← hs]
      have := textBound_addText h ('&' :: '#' :: c ++ [';'])
      simpa [tokText] using this
  | data d =>
    simp only [stepT] at hs
    split at hs
    · simp at hs; rw [← hs]; exact textBound_mono h (by omega)
    · split at hs
      · simp at hs; rw [← hs]; exact textBound_addText h d
      · split at hs
        · simp at hs; rw [← hs]; exact textBound_mono h (by omega)
        · cases hs
  | start n a =>
    simp only [stepT, handleStart] at hs
    simp only [tokText, Nat.add_zero]
    split at hs
    · split at hs
      · simp at hs; rw [← hs]; exact textBound_addElem h _ _ _ _
      · simp at hs; rw [← hs]
        intro f hf
        simp only [List.mem_cons] at hf
        rcases hf with rfl | hf
        · simp [Frame.textLen]
        · exact h f hf
    · cases hs
  | startend n a =>
    simp only [stepT, handleStart] at hs
    simp only [tokText, Nat.add_zero]
    split at hs
    · split at hs
      · simp at hs; rw [← hs]; exact textBound_addElem h _ _ _ _
      · simp at hs; rw [← hs]
        intro f hf
        simp only [List.mem_cons] at hf
        rcases hf with rfl | hf
        · simp [Frame.textLen]
        · exact h f hf
    · cases hs

theorem textCost_le {b : Nat} (s : TState) (t : Token) (h : TextBound b s) : textCost s t ≤ b + tokText t := by
  unfold textCost
  cases hs : s.stack with
  | nil => simp
  | cons f fs =>
    simp only
    have := h f (by rw [hs]; exact List.mem_cons_self)
    split <;> omega

/-- characters copied by the concatenations of a pass: at most |tokens| · (accumulated before + total text) -/
theorem runTextCost_le (ts : List Token) : ∀ (b : Nat) (s : TState), TextBound b s →
    runTextCost s ts ≤ ts.length * (b + totalText ts) := by
  induction ts with
  | nil => intro b s _; simp [runTextCost]
  | cons t ts ih =>
    intro b s h
    have h1 := textCost_le s t h
    simp only [runTextCost, List.length_cons, Nat.succ_mul, totalText, List.map_cons, List.sum_cons]
    have hT : totalText ts = (ts.map tokText).sum := rfl
    cases hs : stepT s t with
    | ok s' =>
      simp only
      have h2 := ih (b + tokText t) s' (stepT_textBound s s' t hs h)
      rw [hT] at h2
      have e : b + tokText t + (ts.map tokText).sum = b + (tokText t + (ts.map tokText).sum) := by omega
      rw [e] at h2
      omega
    | multipleRoot => simp only; omega
    | invalidClose => simp only; omega
    | missedClose => simp only; omega
    | invalidAttr => simp only; omega

/-! #### the family on which the concatenation is quadratic: `<a>` followed by `k` references `&amp;` -/

def ampRef : Token := .entity "amp".toList
def refs (k : Nat) : List Token := List.replicate k ampRef
/-- `<a>` open with `j` blocks `&amp;` appended -/
def acc (j : Nat) : TState := ⟨[⟨nameA, AttrState.empty, List.replicate j (.text "&amp;".toList)⟩], none⟩

/-- `0 + 1 + … + k` -/
def tri : Nat → Nat
  | 0 => 0
  | k + 1 => tri k + (k + 1)

theorem sq_le_two_tri (k : Nat) : k * k ≤ 2 * tri k := by
  induction k with
  | zero => simp [tri]
  | succ k ih =>
    simp only [tri, Nat.mul_add, Nat.add_mul, Nat.mul_one, Nat.one_mul]
    omega

theorem stepT_acc (j : Nat) : stepT (acc j) ampRef = .ok (acc (j + 1)) := by
  simp [stepT, ampRef, addTextStrict, acc, addNode, List.replicate_succ]

theorem textLen_acc (j : Nat) : ∀ f ∈ (acc j).stack, f.textLen = 5 * j := by
  intro f hf
  simp only [acc, List.mem_singleton] at hf
  subst hf
  simp only [Frame.textLen]
  induction j with
  | zero => rfl
  | succ j ih =>
    rw [List.replicate_succ, List.map_cons, List.sum_cons, ih]
    have : nodeTextLen (.text "&amp;".toList) = 5 := by decide
    omega

theorem textCost_acc (j : Nat) : textCost (acc j) ampRef = 5 * j + 5 := by
  have h := textLen_acc j _ (by simp [acc] : (⟨nameA, AttrState.empty, List.replicate j (.text "&amp;".toList)⟩ : Frame) ∈ (acc j).stack)
  have ht : tokText ampRef = 5 := by decide
  simp only [textCost, acc, ht] at h ⊢
  simp only [h]; simp

theorem runTextCost_cons_ok (s s' : TState) (t : Token) (ts : List Token) (h : stepT s t = .ok s') :
    runTextCost s (t :: ts) = textCost s t + runTextCost s' ts := by
  simp only [runTextCost, h]

/-- exact count: `k` references appended to an element that already holds `j` of them copy
    `5·j·k + 5·(1 + … + k)` characters -/
theorem textCost_refs (k : Nat) : ∀ j : Nat, runTextCost (acc j) (refs k) = 5 * (j * k) + 5 * tri k := by
  induction k with
  | zero => intro j; simp [refs, runTextCost, tri]
  | succ k ih =>
    intro j
    have h := ih (j + 1)
    have e : refs (k + 1) = ampRef :: refs k := by simp [refs, List.replicate_succ]
    rw [e, runTextCost_cons_ok _ _ _ _ (stepT_acc j), textCost_acc, h]
    show 5 * j + 5 + (5 * ((j + 1) * k) + 5 * tri k) = 5 * (j * (k + 1)) + 5 * (tri k + (k + 1))
    rw [Nat.add_mul, Nat.mul_add j k 1, Nat.one_mul, Nat.mul_one]
    omega

/-- `<a>` then `k` references: the concatenations copy at least `5·k²/2` characters — not linear in `k` -/
theorem text_cost_quadratic (k : Nat) :
    5 * (k * k) ≤ 2 * runTextCost TState.init (.start nameA [] :: refs k) := by
  have h0 : stepT TState.init (.start nameA []) = .ok (acc 0) := stepT_deep_open 0
  have hc : textCost TState.init (.start nameA []) = 0 := rfl
  rw [runTextCost_cons_ok _ _ _ _ h0, hc, textCost_refs k 0, Nat.zero_mul]
  have := sq_le_two_tri k
  omega

theorem textBound_init : TextBound 0 TState.init := by intro f hf; simp [TState.init] at hf

end AHP
