/-
  Helper lemmas for the C14 round trip (`parse_render`), token level: what each regular expression of
  AHP.Model.XPathParse does on the canonical text of one token followed by a well-behaved rest.
-/
import AHP.Model.XPathRender
import AHP.Lemmas.Ws
namespace AHP.XPath

variable {N : Type}
set_option linter.unusedSimpArgs false

/-! ### White space, prefixes -/

theorem skipSp_nil : skipSp [] = [] := rfl

theorem skipSp_cons_of_not {c : Char} {r : Str} (h : isSpTab c = false) : skipSp (c :: r) = c :: r := by
  simp [skipSp, List.dropWhile, h]

theorem skipSp_space (r : Str) : skipSp (' ' :: r) = skipSp r := by
  simp [skipSp, List.dropWhile, isSpTab]

theorem takeWhile_append_stop {p : Char → Bool} {xs ys : Str} (hx : xs.all p = true)
    (hy : ∀ c r, ys = c :: r → p c = false) : (xs ++ ys).takeWhile p = xs := by
  induction xs with
  | nil =>
    cases ys with
    | nil => rfl
    | cons c r => simp [List.takeWhile, hy c r rfl]
  | cons x xs ih =>
    simp only [List.all_cons, Bool.and_eq_true] at hx
    simp [List.takeWhile, hx.1, ih hx.2]

theorem dropWhile_append_stop {p : Char → Bool} {xs ys : Str} (hx : xs.all p = true)
    (hy : ∀ c r, ys = c :: r → p c = false) : (xs ++ ys).dropWhile p = ys := by
  induction xs with
  | nil =>
    cases ys with
    | nil => rfl
    | cons c r => simp [List.dropWhile, hy c r rfl]
  | cons x xs ih =>
    simp only [List.all_cons, Bool.and_eq_true] at hx
    simp [List.dropWhile, hx.1, ih hx.2]

/-! ### What may follow an atom inside a predicate -/

/-- The characters an atom can be followed by inside a predicate body: white space, `)`, `,` or the
    first character of a symbolic operator other than `-`. -/
def followChars : List Char := [' ', '\t', ')', ',', '=', '!', '<', '>', '|', '+', '*']

def okFollow : Str → Bool
  | [] => true
  | c :: _ => followChars.contains c

/-- The text after a piece of a rendered predicate body. -/
structure RestOK (rest : Str) : Prop where
  follow : okFollow rest = true
  nonl : '\n' ∉ rest
  last : ∀ c, rest.getLast? = some c → isWs c = false

theorem RestOK.nil : RestOK [] := ⟨rfl, by simp, by simp⟩

/-- the head of a follow text is none of the characters a token could go on with -/
theorem okFollow_head {rest : Str} (h : okFollow rest = true) (p : Char → Bool)
    (hp : ∀ c ∈ followChars, p c = false) : ∀ c r, rest = c :: r → p c = false := by
  intro c r hr
  subst hr
  simp only [okFollow, List.contains_iff_mem] at h
  exact hp c h

theorem okFollow_of_mem {c : Char} {r : Str} (h : c ∈ followChars) : okFollow (c :: r) = true := by
  simp only [okFollow, List.contains_iff_mem]; exact h

theorem skipSp_append_ws {w : Str} (hw : w.all isSpTab = true) (s : Str) : skipSp (w ++ s) = skipSp s := by
  induction w with
  | nil => rfl
  | cons c r ih =>
    simp only [List.all_cons, Bool.and_eq_true] at hw
    simp [skipSp, List.dropWhile, hw.1]
    exact ih hw.2

/-- `[ \t]*` followed by a character that is none: all of it is skipped -/
theorem skipSp_ws_cons {w : Str} (hw : w.all isSpTab = true) {c : Char} (hc : isSpTab c = false) (r : Str) :
    skipSp (w ++ c :: r) = c :: r := by
  rw [skipSp_append_ws hw, skipSp_cons_of_not hc]

/-! ### Spellings of a word -/

/-- what `wordCI` accepts, exactly -/
theorem wordCI_spelled : ∀ (w v rest : Str), v.map lowerChar = w → wordCI w (v ++ rest) = some rest
  | [], v, rest, h => by
    cases v with
    | nil => rfl
    | cons c t => simp at h
  | x :: w, v, rest, h => by
    cases v with
    | nil => simp at h
    | cons c t =>
      simp only [List.map_cons, List.cons.injEq] at h
      simp [wordCI, h.1, wordCI_spelled w t rest h.2]

theorem wordCI_some : ∀ (w s r : Str), wordCI w s = some r → ∃ pre, s = pre ++ r ∧ pre.map lowerChar = w
  | [], s, r, h => by
    simp only [wordCI, Option.some.injEq] at h
    exact ⟨[], by simp [h], rfl⟩
  | x :: w, [], r, h => by simp [wordCI] at h
  | x :: w, c :: cs, r, h => by
    simp only [wordCI] at h
    split at h
    · next hx =>
      obtain ⟨pre, h1, h2⟩ := wordCI_some w cs r h
      exact ⟨c :: pre, by simp [h1], by simp [hx, h2]⟩
    · cases h

/-- a spelling of `v` is not a spelling of a word that differs from `v` within its length -/
theorem wordCI_spelled_ne (w v u rest : Str) (hu : u.map lowerChar = v) (hk : w.length ≤ v.length)
    (hne : v.take w.length ≠ w) : wordCI w (u ++ rest) = none := by
  cases h : wordCI w (u ++ rest) with
  | none => rfl
  | some r =>
    exfalso
    obtain ⟨pre, h1, h2⟩ := wordCI_some w _ r h
    have hl : pre.length = w.length := by rw [← h2]; simp
    have hul : u.length = v.length := by rw [← hu]; simp
    have : pre = u.take w.length := by
      have := congrArg (List.take w.length) h1
      rw [List.take_append_of_le_length (by omega), ← hl, List.take_left'] at this
      · rw [hl] at this; exact this.symm
      · rfl
    apply hne
    rw [← hu, ← List.map_take, ← this, h2]

/-- Every fact used about the first character of a spelled word follows from its lower-case form. -/
theorem spelled_head {w : Str} {x : Char} {t v : Str} (hw : w = x :: t) (hv : v.map lowerChar = w) :
    ∃ c r, v = c :: r ∧ lowerChar c = x ∧ r.map lowerChar = t := by
  subst hw
  cases v with
  | nil => simp at hv
  | cons c r =>
    simp only [List.map_cons, List.cons.injEq] at hv
    exact ⟨c, r, rfl, hv.1, hv.2⟩

theorem ne_of_lowerChar {c x k : Char} (h : lowerChar c = x) (hk : lowerChar k ≠ x) : c ≠ k := by
  intro e; subst e; exact hk h

theorem isSpTab_of_lowerChar {c x : Char} (h : lowerChar c = x) (h1 : x ≠ ' ') (h2 : x ≠ '\t') : isSpTab c = false := by
  have a := ne_of_lowerChar (k := ' ') h (by simpa [lowerChar] using fun e => h1 e.symm)
  have b := ne_of_lowerChar (k := '\t') h (by simpa [lowerChar] using fun e => h2 e.symm)
  simp [isSpTab, a, b]

theorem isWs_of_lowerChar {c x : Char} (h : lowerChar c = x) (hx : isWs x = false) : isWs c = false := by
  cases hw : isWs c with
  | false => rfl
  | true =>
    have : lowerChar c = c := lowerChar_of_isWs hw
    rw [this] at h
    rw [h] at hw
    rw [hw] at hx
    cases hx

/-! ### Heads that no value generator, group or function starts with -/

def plainHead (c : Char) : Bool :=
  !isSpTab c && c != '(' && c != ')' && c != ',' && c != '@' && lowerChar c != 't' && lowerChar c != 'l' &&
    lowerChar c != 'p' && lowerChar c != 'c' && lowerChar c != 'n'

theorem wordCI_head {w c : Char} {ws r : Str} (h : lowerChar c ≠ w) : wordCI (w :: ws) (c :: r) = none := by
  simp [wordCI, h]

theorem groupOpen_head {c : Char} {r : Str} (h1 : isSpTab c = false) (h2 : c ≠ '(') : groupOpen (c :: r) = none := by
  unfold groupOpen
  rw [skipSp_cons_of_not h1]
  split
  · next r' heq => cases heq; exact absurd rfl h2
  · rfl

theorem groupClose_head {c : Char} {r : Str} (h1 : isSpTab c = false) (h2 : c ≠ ')') : groupClose (c :: r) = none := by
  unfold groupClose
  rw [skipSp_cons_of_not h1]
  split
  · next r' heq => cases heq; exact absurd rfl h2
  · rfl

theorem nextArg_head {c : Char} {r : Str} (h1 : isSpTab c = false) (h2 : c ≠ ',') : nextArg (c :: r) = none := by
  unfold nextArg
  rw [skipSp_cons_of_not h1]
  split
  · next r' heq => cases heq; exact absurd rfl h2
  · rfl

theorem plainHead_facts {c : Char} (h : plainHead c = true) :
    isSpTab c = false ∧ c ≠ '(' ∧ c ≠ ')' ∧ c ≠ ',' ∧ c ≠ '@' ∧ lowerChar c ≠ 't' ∧ lowerChar c ≠ 'l' ∧
      lowerChar c ≠ 'p' ∧ lowerChar c ≠ 'c' ∧ lowerChar c ≠ 'n' := by
  simpa [plainHead, and_assoc] using h

theorem genTok_plain {c : Char} {r : Str} (h : plainHead c = true) : genTok (N := N) (c :: r) = none := by
  obtain ⟨_, _, _, _, h5, h6, h7, h8, _, _⟩ := plainHead_facts h
  have ha : attrTok (c :: r) = none := by
    unfold attrTok
    split
    · next r' heq => cases heq; exact absurd rfl h5
    · rfl
  simp [genTok, ha, fn0Tok, wordCI_head h6, wordCI_head h7, wordCI_head h8]

theorem fnOpenTok_head {w c : Char} {ws r : Str} (h : lowerChar c ≠ w) : fnOpenTok (w :: ws) (c :: r) = none := by
  simp [fnOpenTok, wordCI_head h]

/-- An element that starts with a plain head is one of the static values / operators. -/
theorem item_plain (nm : Num N) (f : Nat) {c : Char} {r : Str} (h : plainHead c = true) :
    item nm (f + 1) (c :: r) = restTok nm (c :: r) := by
  obtain ⟨h1, h2, _, _, _, _, _, _, h9, h10⟩ := plainHead_facts h
  simp [item, groupOpen_head h1 h2, skipSp_cons_of_not h1, genTok_plain h,
    fnOpenTok_head h9, fnOpenTok_head h10]

/-! ### String literals -/

/-- does the text (preceded by a backslash or not) end in a backslash? -/
def endsBs : Bool → Str → Bool
  | bs, [] => bs
  | _, c :: r => endsBs (c = '\\') r

theorem endsBs_getLast (s : Str) (bs : Bool) (h : (s.getLast? != some '\\') = true) (hb : s = [] → bs = false) :
    endsBs bs s = false := by
  induction s generalizing bs with
  | nil => simpa [endsBs] using hb rfl
  | cons c r ih =>
    simp only [endsBs]
    apply ih
    · cases r with
      | nil => simpa using h
      | cons d r' => simpa [List.getLast?_cons_cons] using h
    · intro hr
      subst hr
      simpa using h

theorem litQ_append (q : Char) (s rest : Str) (bs : Bool) (hq : s.contains q = false) (he : endsBs bs s = false) :
    litQ q bs (s ++ q :: rest) = some (s, rest) := by
  induction s generalizing bs with
  | nil =>
    simp only [endsBs] at he
    simp [litQ, he]
  | cons c r ih =>
    simp only [List.contains_cons, Bool.or_eq_false_iff] at hq
    have hc : c ≠ q := by
      intro h; subst h; simp at hq
    simp only [List.cons_append, litQ, hc, if_false]
    rw [ih _ (by simpa using hq.2) (by simpa [endsBs] using he)]
    rfl

theorem quoteWith_cases (b : Bool) (s : Str) : quoteWith b s = '"' ∨ quoteWith b s = '\'' := by
  unfold quoteWith
  split
  · exact .inr rfl
  · split
    · exact .inl rfl
    · cases b <;> simp

theorem strOk_facts {s : Str} (b : Bool) (h : strOk s = true) :
    s.contains (quoteWith b s) = false ∧ s.contains '\n' = false ∧ endsBs false s = false := by
  simp only [strOk, Bool.and_eq_true, Bool.not_eq_true', Bool.and_eq_false_iff] at h
  refine ⟨?_, h.1.2, endsBs_getLast s false h.2 (fun _ => rfl)⟩
  unfold quoteWith
  cases h1 : s.contains '"' with
  | true =>
    simp only [if_true]
    rcases h.1.1 with h' | h'
    · rw [h1] at h'; cases h'
    · exact h'
  | false =>
    simp only [Bool.false_eq_true, if_false]
    cases h2 : s.contains '\'' with
    | true => simpa using h1
    | false =>
      cases b
      · simpa using h1
      · simpa using h2

theorem strTok_lit (q : Char) (s rest : Str) (hq : s.contains q = false) (he : endsBs false s = false) :
    strTok q (q :: (s ++ q :: rest)) = some (s, skipSp rest) := by
  simp [strTok, litQ_append q s rest false hq he]

theorem strTok_head {q c : Char} {r : Str} (h : c ≠ q) : strTok q (c :: r) = none := by
  simp [strTok, h]

/-- a string literal, in either quote style -/
theorem restTok_str (nm : Num N) (b : Bool) (s rest : Str) (h : strOk s = true) :
    restTok nm (quoteWith b s :: (s ++ quoteWith b s :: rest)) = some (.val (.str s), skipSp rest) := by
  obtain ⟨h1, _, h3⟩ := strOk_facts b h
  rcases quoteWith_cases b s with hq | hq
  · rw [hq] at h1 ⊢
    simp [restTok, staticTok, strTok_lit '"' s rest h1 h3]
  · rw [hq] at h1 ⊢
    simp [restTok, staticTok, strTok_lit '\'' s rest h1 h3, strTok_head (q := '"') (c := '\'') (by decide)]

theorem plainHead_quoteWith (b : Bool) (s : Str) : plainHead (quoteWith b s) = true := by
  rcases quoteWith_cases b s with h | h <;> rw [h] <;> decide

/-! ### Number literals -/

theorem isDigit_digitChar : ∀ d : Fin 10, isDigit (digitChar d) = true := by decide
theorem plainHead_digitChar : ∀ d : Fin 10, plainHead (digitChar d) = true := by decide
theorem digitChar_ne_minus : ∀ d : Fin 10, digitChar d ≠ '-' := by decide
theorem digitChar_ne_dot : ∀ d : Fin 10, digitChar d ≠ '.' := by decide
theorem digitChar_ne_dq : ∀ d : Fin 10, digitChar d ≠ '"' := by decide
theorem digitChar_ne_sq : ∀ d : Fin 10, digitChar d ≠ '\'' := by decide
theorem isWs_digitChar : ∀ d : Fin 10, isWs (digitChar d) = false := by decide
theorem digitChar_ne_eq : ∀ d : Fin 10, digitChar d ≠ '=' := by decide

theorem all_isDigit_map (ds : List (Fin 10)) : (ds.map digitChar).all isDigit = true := by
  induction ds with
  | nil => rfl
  | cons d ds ih => simp [isDigit_digitChar d, ih]

/-- the characters that end a run of digits in a rendered body: not a digit, not a dot -/
def numStop (rest : Str) : Prop := ∀ c r, rest = c :: r → isDigit c = false ∧ c ≠ '.'

theorem numStop_of_follow {rest : Str} (h : okFollow rest = true) : numStop rest := by
  intro c r hr
  have h1 := okFollow_head h isDigit (by decide) c r hr
  have h2 := okFollow_head h (· = '.') (by decide) c r hr
  exact ⟨h1, by simpa using h2⟩

theorem takeWhile_digits (ds : List (Fin 10)) {rest : Str} (h : ∀ c r, rest = c :: r → isDigit c = false) :
    (ds.map digitChar ++ rest).takeWhile isDigit = ds.map digitChar :=
  takeWhile_append_stop (all_isDigit_map ds) h

theorem dropWhile_digits (ds : List (Fin 10)) {rest : Str} (h : ∀ c r, rest = c :: r → isDigit c = false) :
    (ds.map digitChar ++ rest).dropWhile isDigit = rest :=
  dropWhile_append_stop (all_isDigit_map ds) h

theorem numTok_int (ds : List (Fin 10)) (rest : Str) (hne : ds ≠ []) (hs : numStop rest) :
    numTok (ds.map digitChar ++ rest) = some (ds.map digitChar, skipSp rest) := by
  have hd : ∀ c r, rest = c :: r → isDigit c = false := fun c r h => (hs c r h).1
  cases ds with
  | nil => exact absurd rfl hne
  | cons d ds' =>
    have htw := takeWhile_digits (d :: ds') hd
    have hdw := dropWhile_digits (d :: ds') hd
    simp only [List.map_cons, List.cons_append] at htw hdw ⊢
    unfold numTok
    simp only [htw, hdw, splitSign, digitChar_ne_minus d, if_false]
    cases rest with
    | nil => simp
    | cons c r =>
      have := (hs c r rfl).2
      split
      · next f heq => exact absurd (List.cons.inj heq).1 this
      · simp

theorem numTok_frac (neg : Bool) (ip fp : List (Fin 10)) (rest : Str) (hne : fp ≠ []) (hs : numStop rest) :
    numTok ((if neg then ['-'] else []) ++ ip.map digitChar ++ ('.' :: fp.map digitChar) ++ rest)
      = some ((if neg then ['-'] else []) ++ ip.map digitChar ++ ('.' :: fp.map digitChar), skipSp rest) := by
  have hd : ∀ c r, rest = c :: r → isDigit c = false := fun c r h => (hs c r h).1
  have hdot : ∀ c r, ('.' :: (fp.map digitChar ++ rest)) = c :: r → isDigit c = false := by
    intro c r h
    rw [← (List.cons.inj h).1]; decide
  have h1 : (ip.map digitChar ++ '.' :: (fp.map digitChar ++ rest)).dropWhile isDigit = '.' :: (fp.map digitChar ++ rest) :=
    dropWhile_digits ip hdot
  have h2 : (ip.map digitChar ++ '.' :: (fp.map digitChar ++ rest)).takeWhile isDigit = ip.map digitChar :=
    takeWhile_digits ip hdot
  have h3 := takeWhile_digits fp hd
  have h4 := dropWhile_digits fp hd
  have hfe : (fp.map digitChar).isEmpty = false := by
    cases fp with
    | nil => exact absurd rfl hne
    | cons d ds => rfl
  have hss : splitSign (ip.map digitChar ++ '.' :: (fp.map digitChar ++ rest))
      = ([], ip.map digitChar ++ '.' :: (fp.map digitChar ++ rest)) := by
    cases ip with
    | nil => simp [splitSign]
    | cons d ds => simp [splitSign, digitChar_ne_minus d]
  cases neg with
  | true =>
    simp only [if_true, List.cons_append, List.nil_append, List.append_assoc]
    unfold numTok
    simp only [splitSign, if_true, h1, h2, h3, h4, hfe]
    simp
  | false =>
    simp only [Bool.false_eq_true, if_false, List.nil_append, List.append_assoc, List.cons_append]
    unfold numTok
    simp only [hss, h1, h2, h3, h4, hfe]
    simp

theorem numTok_lit (l : NumLit) (rest : Str) (hw : l.wf = true) (hs : numStop rest) :
    numTok (l.text ++ rest) = some (l.text, skipSp rest) := by
  obtain ⟨neg, ip, fp⟩ := l
  cases fp with
  | none =>
    simp only [NumLit.wf, Bool.and_eq_true, Bool.not_eq_true', List.isEmpty_eq_false_iff] at hw
    simp only [NumLit.text, hw.2, Bool.false_eq_true, if_false, List.nil_append, List.append_nil]
    exact numTok_int ip rest hw.1 hs
  | some f =>
    simp only [NumLit.wf, Bool.not_eq_true', List.isEmpty_eq_false_iff] at hw
    simp only [NumLit.text]
    exact numTok_frac neg ip f rest hw hs

/-- the first character of a numeral -/
theorem numLit_head (l : NumLit) (hw : l.wf = true) :
    ∃ c r, l.text = c :: r ∧ plainHead c = true ∧ c ≠ '"' ∧ c ≠ '\'' ∧ isWs c = false ∧ c ≠ '=' := by
  obtain ⟨neg, ip, fp⟩ := l
  cases neg with
  | true => exact ⟨'-', _, rfl, by decide, by decide, by decide, by decide, by decide⟩
  | false =>
    cases ip with
    | cons d ds =>
      exact ⟨digitChar d, _, rfl, plainHead_digitChar d, digitChar_ne_dq d, digitChar_ne_sq d, isWs_digitChar d, digitChar_ne_eq d⟩
    | nil =>
      cases fp with
      | none => simp [NumLit.wf] at hw
      | some f => exact ⟨'.', _, rfl, by decide, by decide, by decide, by decide, by decide⟩

theorem restTok_num (nm : Num N) (l : NumLit) (x : N) (rest : Str) (hw : l.wf = true) (hp : nm.parse l.text = some x)
    (hs : numStop rest) : restTok nm (l.text ++ rest) = some (.val (.num x), skipSp rest) := by
  obtain ⟨c, r, ht, _, h1, h2, _, _⟩ := numLit_head l hw
  have hn := numTok_lit l rest hw hs
  rw [ht] at hn ⊢
  simp only [List.cons_append] at hn ⊢
  simp [restTok, staticTok, strTok_head h1, strTok_head h2, hn, ← ht, hp]

/-! ### Attributes, `text()`, `last()`, `position()` -/

theorem isSpTab_false_of_nameStart {c : Char} (h : isNameStart c = true) : isSpTab c = false := by
  cases hs : isSpTab c with
  | false => rfl
  | true =>
    have : c = ' ' ∨ c = '\t' := by simpa [isSpTab] using hs
    rcases this with rfl | rfl <;> simp [isNameStart, isAlpha] at h <;> revert h <;> decide

theorem genTok_attr (n rest : Str) (hn : attrNameOk n = true) (hf : okFollow rest = true) :
    genTok (N := N) ('@' :: (n ++ rest)) = some (.attr n, skipSp rest) := by
  cases n with
  | nil => simp [attrNameOk] at hn
  | cons c r =>
    simp only [attrNameOk, Bool.or_eq_true, Bool.and_eq_true, decide_eq_true_eq, List.isEmpty_iff] at hn
    rcases hn with ⟨rfl, rfl⟩ | ⟨h1, h2⟩
    · simp [genTok, attrTok]
    · have hc : c ≠ '*' := by
        intro h; subst h; revert h1; decide
      have hstop : ∀ c' r', rest = c' :: r' → isAttrChar c' = false :=
        okFollow_head hf isAttrChar (by decide)
      simp [genTok, attrTok, hc, h1, takeWhile_append_stop h2 hstop, dropWhile_append_stop h2 hstop]

theorem attrTok_head {c : Char} {r : Str} (h : c ≠ '@') : attrTok (c :: r) = none := by
  unfold attrTok
  split
  · next r' heq => exact absurd (List.cons.inj heq).1 h
  · rfl

/-- `word [ \t]* ( [ \t]* )` in any spelling -/
theorem fn0Tok_spelled (w v w1 w2 rest : Str) (hv : v.map lowerChar = w) (h1 : w1.all isSpTab = true)
    (h2 : w2.all isSpTab = true) : fn0Tok w (v ++ (w1 ++ ('(' :: (w2 ++ (')' :: rest))))) = some (skipSp rest) := by
  simp [fn0Tok, wordCI_spelled w v _ hv, skipSp_ws_cons h1 (show isSpTab '(' = false by decide),
    skipSp_ws_cons h2 (show isSpTab ')' = false by decide)]

theorem fn0Tok_head {w c : Char} {ws r : Str} (h : lowerChar c ≠ w) : fn0Tok (w :: ws) (c :: r) = none := by
  simp [fn0Tok, wordCI_head h]

theorem genTok_text (v w1 w2 rest : Str) (hv : v.map lowerChar = wText) (h1 : w1.all isSpTab = true)
    (h2 : w2.all isSpTab = true) :
    genTok (N := N) (v ++ (w1 ++ ('(' :: (w2 ++ (')' :: rest))))) = some (.text, skipSp rest) := by
  obtain ⟨c, r, rfl, hc, _⟩ := spelled_head (x := 't') rfl hv
  have hf := fn0Tok_spelled wText (c :: r) w1 w2 rest hv h1 h2
  simp only [List.cons_append, wText] at hf ⊢
  simp [genTok, attrTok_head (ne_of_lowerChar hc (by decide)), hf, wText]

theorem genTok_last (v w1 w2 rest : Str) (hv : v.map lowerChar = wLast) (h1 : w1.all isSpTab = true)
    (h2 : w2.all isSpTab = true) :
    genTok (N := N) (v ++ (w1 ++ ('(' :: (w2 ++ (')' :: rest))))) = some (.last, skipSp rest) := by
  obtain ⟨c, r, rfl, hc, _⟩ := spelled_head (x := 'l') rfl hv
  have hf := fn0Tok_spelled wLast (c :: r) w1 w2 rest hv h1 h2
  simp only [List.cons_append, wLast] at hf ⊢
  simp [genTok, attrTok_head (ne_of_lowerChar hc (by decide)), fn0Tok_head (show lowerChar c ≠ 't' by rw [hc]; decide), hf, wLast]

theorem genTok_position (v w1 w2 rest : Str) (hv : v.map lowerChar = wPosition) (h1 : w1.all isSpTab = true)
    (h2 : w2.all isSpTab = true) :
    genTok (N := N) (v ++ (w1 ++ ('(' :: (w2 ++ (')' :: rest))))) = some (.position, skipSp rest) := by
  obtain ⟨c, r, rfl, hc, _⟩ := spelled_head (x := 'p') rfl hv
  have hf := fn0Tok_spelled wPosition (c :: r) w1 w2 rest hv h1 h2
  simp only [List.cons_append, wPosition] at hf ⊢
  simp [genTok, attrTok_head (ne_of_lowerChar hc (by decide)), fn0Tok_head (show lowerChar c ≠ 't' by rw [hc]; decide),
    fn0Tok_head (show lowerChar c ≠ 'l' by rw [hc]; decide), hf, wPosition]

/-- a value generator without arguments, as one round of a loop -/
theorem item_gen (nm : Num N) (f : Nat) {c : Char} {r : Str} {x : BE N × Str} (h1 : isSpTab c = false) (h2 : c ≠ '(')
    (hg : genTok (c :: r) = some x) : item nm (f + 1) (c :: r) = some x := by
  simp [item, groupOpen_head h1 h2, skipSp_cons_of_not h1, hg]

/-! ### Operators -/

/-- What the text after an operator must look like: `<` / `>` not followed by `=`; `and` / `or` followed by
    white space; `-` not followed by a digit or a dot (it would be read as the sign of a literal). -/
def opStop (o : Op) (rest : Str) : Prop :=
  match rest with
  | [] => needR o = false
  | c :: _ => c ≠ '=' ∧ (needR o = true → isSpTab c = true)

/-- the spellings of an operator: the symbol itself, or any case variant of the word -/
def OpSpelled (o : Op) (v : Str) : Prop := if isWordOp o = true then v.map lowerChar = opText o else v = opText o

theorem plainHead_word {x : Char} {t v : Str} (hv : v.map lowerChar = x :: t) (hx : plainHead x = true)
    (hxl : lowerChar x = x) : ∃ c r, v = c :: r ∧ plainHead c = true := by
  obtain ⟨c, r, rfl, hc, _⟩ := spelled_head rfl hv
  refine ⟨c, r, rfl, ?_⟩
  obtain ⟨h1, h2, h3, h4, h5, h6, h7, h8, h9, h10⟩ := plainHead_facts hx
  have hne : ∀ k, lowerChar k = k → k ≠ x → c ≠ k := fun k hk hkx => ne_of_lowerChar hc (by rw [hk]; exact hkx)
  have hsp : isSpTab c = false := by
    have a := hne ' ' (by decide) (by intro e; subst e; simp [isSpTab] at h1)
    have b := hne '\t' (by decide) (by intro e; subst e; simp [isSpTab] at h1)
    simp [isSpTab, a, b]
  simp only [plainHead, Bool.and_eq_true, Bool.not_eq_true', bne_iff_ne, ne_eq, hc, hxl]
  rw [hxl] at h6 h7 h8 h9 h10
  exact ⟨⟨⟨⟨⟨⟨⟨⟨⟨hsp, hne '(' (by decide) (Ne.symm h2)⟩, hne ')' (by decide) (Ne.symm h3)⟩, hne ',' (by decide) (Ne.symm h4)⟩,
    hne '@' (by decide) (Ne.symm h5)⟩, h6⟩, h7⟩, h8⟩, h9⟩, h10⟩

theorem plainHead_spelled_op (o : Op) (v : Str) (hv : OpSpelled o v) : ∃ c r, v = c :: r ∧ plainHead c = true := by
  rcases o with (_ | _ | _ | _ | _ | _) | (_ | _ | _ | _ | _ | _) | (_ | _) <;> simp only [OpSpelled, isWordOp, opText, if_true, Bool.false_eq_true, if_false] at hv
  all_goals first
    | exact plainHead_word hv (by decide) (by decide)
    | (subst hv; exact ⟨_, _, rfl, by decide⟩)

theorem isDigit_lowerChar {c : Char} (h : isDigit c = true) : lowerChar c = c := by
  simp only [isDigit, Bool.and_eq_true, decide_eq_true_eq] at h
  unfold lowerChar
  split
  · next hc =>
    exfalso
    have h1 : c.val.toNat ≤ ('9' : Char).val.toNat := by
      have := h.2; simpa [Char.le_def, UInt32.le_iff_toNat_le] using this
    have h2 : ('A' : Char).val.toNat ≤ c.val.toNat := by
      have := hc.1; simpa [Char.le_def, UInt32.le_iff_toNat_le] using this
    have e1 : ('9' : Char).val.toNat = 57 := by decide
    have e2 : ('A' : Char).val.toNat = 65 := by decide
    omega
  · rfl

theorem not_isDigit_of_lowerChar {c x : Char} (h : lowerChar c = x) (hx : isDigit x = false) : isDigit c = false := by
  cases hd : isDigit c with
  | false => rfl
  | true =>
    rw [isDigit_lowerChar hd] at h
    rw [h, hx] at hd
    cases hd

theorem numTok_head {c : Char} {r : Str} (h1 : isDigit c = false) (h2 : c ≠ '-') (h3 : c ≠ '.') : numTok (c :: r) = none := by
  simp only [numTok, splitSign, h2, if_false, List.takeWhile, List.dropWhile, h1]
  split
  · next f heq => exact absurd (List.cons.inj heq).1 h3
  · simp

theorem cmpTok_head {c : Char} {r : Str} (h1 : c ≠ '=') (h2 : c ≠ '!') (h3 : c ≠ '<') (h4 : c ≠ '>') : cmpTok (c :: r) = none := by
  unfold cmpTok
  split <;> first | rfl | (next heq => first | exact absurd (List.cons.inj heq).1 h1 | exact absurd (List.cons.inj heq).1 h2 | exact absurd (List.cons.inj heq).1 h3 | exact absurd (List.cons.inj heq).1 h4)

/-- on a head that is none of the symbols, `OPERATION_RES` is down to its two words -/
theorem arithTok_head {c : Char} {r : Str} (h1 : c ≠ '|') (h2 : c ≠ '+') (h3 : c ≠ '-') (h4 : c ≠ '*') :
    arithTok (c :: r) = arithWords (c :: r) := by
  unfold arithTok
  split <;> first | rfl | (next heq => first | exact absurd (List.cons.inj heq).1 h1 | exact absurd (List.cons.inj heq).1 h2 | exact absurd (List.cons.inj heq).1 h3 | exact absurd (List.cons.inj heq).1 h4)

/-- a word operator: the static values and the comparison symbols do not match its first letter -/
theorem restTok_word {x : Char} {t v : Str} (nm : Num N) (rest : Str) (hv : v.map lowerChar = x :: t) (_hx : lowerChar x = x)
    (hd : isDigit x = false)
    (hne : x ≠ '"' ∧ x ≠ '\'' ∧ x ≠ '-' ∧ x ≠ '.' ∧ x ≠ '=' ∧ x ≠ '!' ∧ x ≠ '<' ∧ x ≠ '>' ∧ x ≠ '|' ∧ x ≠ '+' ∧ x ≠ '*') :
    staticTok nm (v ++ rest) = none ∧ cmpTok (v ++ rest) = none ∧ arithTok (v ++ rest) = arithWords (v ++ rest) := by
  obtain ⟨c, r, rfl, hc, _⟩ := spelled_head rfl hv
  obtain ⟨n1, n2, n3, n4, n5, n6, n7, n8, n9, n10, n11⟩ := hne
  have ne : ∀ k, lowerChar k = k → x ≠ k → c ≠ k := fun k hk hkx => ne_of_lowerChar hc (by rw [hk]; exact Ne.symm hkx)
  refine ⟨?_, ?_, ?_⟩
  · simp only [List.cons_append, staticTok, strTok_head (ne '"' (by decide) n1), strTok_head (ne '\'' (by decide) n2),
      numTok_head (not_isDigit_of_lowerChar hc hd) (ne '-' (by decide) n3) (ne '.' (by decide) n4)]
  · exact cmpTok_head (ne '=' (by decide) n5) (ne '!' (by decide) n6) (ne '<' (by decide) n7) (ne '>' (by decide) n8)
  · exact arithTok_head (ne '|' (by decide) n9) (ne '+' (by decide) n10) (ne '-' (by decide) n3) (ne '*' (by decide) n11)

theorem cmpTok_lt {rest : Str} (h : ∀ c t, rest = c :: t → c ≠ '=') : cmpTok ('<' :: rest) = some (.lt, skipSp rest) := by
  cases rest with
  | nil => simp [cmpTok]
  | cons d t => simp [cmpTok, h d t rfl]

theorem cmpTok_gt {rest : Str} (h : ∀ c t, rest = c :: t → c ≠ '=') : cmpTok ('>' :: rest) = some (.gt, skipSp rest) := by
  cases rest with
  | nil => simp [cmpTok]
  | cons d t => simp [cmpTok, h d t rfl]

theorem opStop_ne_eq {o : Op} {rest : Str} (h : opStop o rest) : ∀ c t, rest = c :: t → c ≠ '=' := by
  intro c t hr; subst hr; exact h.1

theorem sp1_of_stop {rest : Str} {c : Char} {t : Str} (hr : rest = c :: t) (hc : isSpTab c = true) : sp1 rest = some (skipSp rest) := by
  subst hr; simp [sp1, hc]

/-- an operator in any of its spellings, followed by a text it does not run into -/
theorem restTok_op (nm : Num N) (o : Op) (v rest : Str) (hv : OpSpelled o v) (hs : opStop o rest) :
    restTok nm (v ++ rest) = some (.op o, skipSp rest) := by
  rcases o with (_ | _ | _ | _ | _ | _) | (_ | _ | _ | _ | _ | _) | (_ | _) <;>
    simp only [OpSpelled, isWordOp, opText, if_true, Bool.false_eq_true, if_false] at hv
  -- `||`
  · subst hv
    simp [restTok, staticTok, strTok, numTok, splitSign, isDigit, cmpTok, arithTok, List.takeWhile, List.dropWhile]
  -- `+`
  · subst hv
    simp [restTok, staticTok, strTok, numTok, splitSign, isDigit, cmpTok, arithTok, List.takeWhile, List.dropWhile]
  -- `-`
  · subst hv
    cases rest with
    | nil => simp [opStop, needR] at hs
    | cons c t =>
      have hc : isSpTab c = true := by simpa [opStop, needR] using hs.2
      have hcd : isDigit c = false ∧ c ≠ '.' := by
        have : c = ' ' ∨ c = '\t' := by simpa [isSpTab] using hc
        rcases this with rfl | rfl <;> exact ⟨by decide, by decide⟩
      have hn : numTok ('-' :: c :: t) = none := by
        simp only [numTok, splitSign, if_true, List.takeWhile, List.dropWhile, hcd.1]
        split
        · next f heq => exact absurd (List.cons.inj heq).1 hcd.2
        · simp [isDigit]
      simp [restTok, staticTok, strTok, hn, cmpTok, arithTok]
  -- `*`
  · subst hv
    simp [restTok, staticTok, strTok, numTok, splitSign, isDigit, cmpTok, arithTok, List.takeWhile, List.dropWhile]
  -- div
  · obtain ⟨h1, h2, h3⟩ := restTok_word nm rest hv (by decide) (by decide) (by decide)
    simp [restTok, h1, h2, h3, arithWords, wordCI_spelled _ v rest hv]
  -- mod
  · obtain ⟨h1, h2, h3⟩ := restTok_word nm rest hv (by decide) (by decide) (by decide)
    have hw := wordCI_spelled _ v rest hv
    obtain ⟨c, r, rfl, hc, _⟩ := spelled_head rfl hv
    have hd : wordCI ['d', 'i', 'v'] (c :: r ++ rest) = none := wordCI_head (by rw [hc]; decide)
    simp only [List.cons_append] at h1 h2 h3 hw hd
    simp [restTok, h1, h2, h3, arithWords, hd, hw]
  -- `=`
  · subst hv
    simp [restTok, staticTok, strTok, numTok, splitSign, isDigit, cmpTok, List.takeWhile, List.dropWhile]
  -- `!=`
  · subst hv
    simp [restTok, staticTok, strTok, numTok, splitSign, isDigit, cmpTok, List.takeWhile, List.dropWhile]
  -- `<`
  · subst hv
    simp [restTok, staticTok, strTok, numTok, splitSign, isDigit, cmpTok_lt (opStop_ne_eq hs), List.takeWhile, List.dropWhile]
  -- `<=`
  · subst hv
    simp [restTok, staticTok, strTok, numTok, splitSign, isDigit, cmpTok, List.takeWhile, List.dropWhile]
  -- `>`
  · subst hv
    simp [restTok, staticTok, strTok, numTok, splitSign, isDigit, cmpTok_gt (opStop_ne_eq hs), List.takeWhile, List.dropWhile]
  -- `>=`
  · subst hv
    simp [restTok, staticTok, strTok, numTok, splitSign, isDigit, cmpTok, List.takeWhile, List.dropWhile]
  -- and
  · obtain ⟨h1, h2, h3⟩ := restTok_word nm rest hv (by decide) (by decide) (by decide)
    have hw := wordCI_spelled _ v rest hv
    obtain ⟨c, r, rfl, hc, _⟩ := spelled_head rfl hv
    have hd : wordCI ['d', 'i', 'v'] (c :: r ++ rest) = none := wordCI_head (by rw [hc]; decide)
    have hm : wordCI ['m', 'o', 'd'] (c :: r ++ rest) = none := wordCI_head (by rw [hc]; decide)
    cases rest with
    | nil => simp [opStop, needR] at hs
    | cons d t =>
      have hsp : isSpTab d = true := by simpa [opStop, needR] using hs.2
      simp only [List.cons_append] at h1 h2 h3 hw hd hm
      simp [restTok, h1, h2, h3, arithWords, hd, hm, boolTok, hw, sp1, hsp]
  -- or
  · obtain ⟨h1, h2, h3⟩ := restTok_word nm rest hv (by decide) (by decide) (by decide)
    have hw := wordCI_spelled _ v rest hv
    obtain ⟨c, r, rfl, hc, _⟩ := spelled_head rfl hv
    have hd : wordCI ['d', 'i', 'v'] (c :: r ++ rest) = none := wordCI_head (by rw [hc]; decide)
    have hm : wordCI ['m', 'o', 'd'] (c :: r ++ rest) = none := wordCI_head (by rw [hc]; decide)
    have ha : wordCI ['a', 'n', 'd'] (c :: r ++ rest) = none := wordCI_head (by rw [hc]; decide)
    cases rest with
    | nil => simp [opStop, needR] at hs
    | cons d t =>
      have hsp : isSpTab d = true := by simpa [opStop, needR] using hs.2
      simp only [List.cons_append] at h1 h2 h3 hw hd hm ha
      simp [restTok, h1, h2, h3, arithWords, hd, hm, ha, boolTok, hw, sp1, hsp]

end AHP.XPath
