/-
  Helper lemmas for the C14 round trip (`parse_render`), token level: what each regular expression of
  AHP.Model.XPathParse does on the canonical text of one token followed by a well-behaved rest.
-/
import AHP.Model.XPathRender
namespace AHP.XPath

variable {N : Type}
set_option linter.unusedSimpArgs false

/-! ### White space, prefixes -/

theorem skipSp_nil : skipSp [] = [] := rfl

theorem skipSp_cons_of_not {c : Char} {r : Str} (h : isSpTab c = false) : skipSp (c :: r) = c :: r := by
  simp [skipSp, List.dropWhile, h]

theorem skipSp_space (r : Str) : skipSp (' ' :: r) = skipSp r := by
  simp [skipSp, List.dropWhile, isSpTab]

theorem takeWhile_append_stop {p : Char → Bool} {xs ys : Str} (hx : xs.all p = true)
    (hy : ∀ c r, ys = c :: r → p c = false) : (xs ++ ys).takeWhile p = xs := by
  induction xs with
  | nil =>
    cases ys with
    | nil => rfl
    | cons c r => simp [List.takeWhile, hy c r rfl]
  | cons x xs ih =>
    simp only [List.all_cons, Bool.and_eq_true] at hx
    simp [List.takeWhile, hx.1, ih hx.2]

theorem dropWhile_append_stop {p : Char → Bool} {xs ys : Str} (hx : xs.all p = true)
    (hy : ∀ c r, ys = c :: r → p c = false) : (xs ++ ys).dropWhile p = ys := by
  induction xs with
  | nil =>
    cases ys with
    | nil => rfl
    | cons c r => simp [List.dropWhile, hy c r rfl]
  | cons x xs ih =>
    simp only [List.all_cons, Bool.and_eq_true] at hx
    simp [List.dropWhile, hx.1, ih hx.2]

/-! ### What may follow an atom inside a predicate -/

/-- Inside a predicate body an atom is followed by nothing, a space (before an operator), `)` or `,`. -/
def okFollow : Str → Bool
  | [] => true
  | c :: _ => c = ' ' || c = ')' || c = ','

/-- The text after a piece of a rendered predicate body. -/
structure RestOK (rest : Str) : Prop where
  follow : okFollow rest = true
  nonl : '\n' ∉ rest
  last : ∀ c, rest.getLast? = some c → isWs c = false

theorem RestOK.nil : RestOK [] := ⟨rfl, by simp, by simp⟩

theorem okFollow_cases {rest : Str} (h : okFollow rest = true) :
    rest = [] ∨ ∃ c r, rest = c :: r ∧ (c = ' ' ∨ c = ')' ∨ c = ',') := by
  cases rest with
  | nil => exact .inl rfl
  | cons c r =>
    refine .inr ⟨c, r, rfl, ?_⟩
    simpa [okFollow, or_assoc] using h

/-- the head of a follow text is none of the characters a token could go on with -/
theorem okFollow_head {rest : Str} (h : okFollow rest = true) (p : Char → Bool)
    (h1 : p ' ' = false) (h2 : p ')' = false) (h3 : p ',' = false) :
    ∀ c r, rest = c :: r → p c = false := by
  intro c r hr
  rcases okFollow_cases h with h0 | ⟨c', r', hr', hc⟩
  · rw [h0] at hr; cases hr
  · rw [hr'] at hr; cases hr
    rcases hc with rfl | rfl | rfl <;> assumption

/-! ### Heads that no value generator, group or function starts with -/

def plainHead (c : Char) : Bool :=
  !isSpTab c && c != '(' && c != ')' && c != ',' && c != '@' && lowerChar c != 't' && lowerChar c != 'l' &&
    lowerChar c != 'p' && lowerChar c != 'c' && lowerChar c != 'n'

theorem wordCI_head {w c : Char} {ws r : Str} (h : lowerChar c ≠ w) : wordCI (w :: ws) (c :: r) = none := by
  simp [wordCI, h]

theorem groupOpen_head {c : Char} {r : Str} (h1 : isSpTab c = false) (h2 : c ≠ '(') : groupOpen (c :: r) = none := by
  unfold groupOpen
  rw [skipSp_cons_of_not h1]
  split
  · next r' heq => cases heq; exact absurd rfl h2
  · rfl

theorem groupClose_head {c : Char} {r : Str} (h1 : isSpTab c = false) (h2 : c ≠ ')') : groupClose (c :: r) = none := by
  unfold groupClose
  rw [skipSp_cons_of_not h1]
  split
  · next r' heq => cases heq; exact absurd rfl h2
  · rfl

theorem nextArg_head {c : Char} {r : Str} (h1 : isSpTab c = false) (h2 : c ≠ ',') : nextArg (c :: r) = none := by
  unfold nextArg
  rw [skipSp_cons_of_not h1]
  split
  · next r' heq => cases heq; exact absurd rfl h2
  · rfl

theorem plainHead_facts {c : Char} (h : plainHead c = true) :
    isSpTab c = false ∧ c ≠ '(' ∧ c ≠ ')' ∧ c ≠ ',' ∧ c ≠ '@' ∧ lowerChar c ≠ 't' ∧ lowerChar c ≠ 'l' ∧
      lowerChar c ≠ 'p' ∧ lowerChar c ≠ 'c' ∧ lowerChar c ≠ 'n' := by
  simpa [plainHead, and_assoc] using h

theorem genTok_plain {c : Char} {r : Str} (h : plainHead c = true) : genTok (N := N) (c :: r) = none := by
  obtain ⟨_, _, _, _, h5, h6, h7, h8, _, _⟩ := plainHead_facts h
  have ha : attrTok (c :: r) = none := by
    unfold attrTok
    split
    · next r' heq => cases heq; exact absurd rfl h5
    · rfl
  simp [genTok, ha, fn0Tok, wordCI_head h6, wordCI_head h7, wordCI_head h8]

theorem fnOpenTok_head {w c : Char} {ws r : Str} (h : lowerChar c ≠ w) : fnOpenTok (w :: ws) (c :: r) = none := by
  simp [fnOpenTok, wordCI_head h]

/-- An element that starts with a plain head is one of the static values / operators. -/
theorem item_plain (nm : Num N) (f : Nat) {c : Char} {r : Str} (h : plainHead c = true) :
    item nm (f + 1) (c :: r) = restTok nm (c :: r) := by
  obtain ⟨h1, h2, _, _, _, _, _, _, h9, h10⟩ := plainHead_facts h
  simp [item, groupOpen_head h1 h2, skipSp_cons_of_not h1, genTok_plain h,
    fnOpenTok_head h9, fnOpenTok_head h10]

/-! ### String literals -/

/-- does the text (preceded by a backslash or not) end in a backslash? -/
def endsBs : Bool → Str → Bool
  | bs, [] => bs
  | _, c :: r => endsBs (c = '\\') r

theorem endsBs_getLast (s : Str) (bs : Bool) (h : (s.getLast? != some '\\') = true) (hb : s = [] → bs = false) :
    endsBs bs s = false := by
  induction s generalizing bs with
  | nil => simpa [endsBs] using hb rfl
  | cons c r ih =>
    simp only [endsBs]
    apply ih
    · cases r with
      | nil => simpa using h
      | cons d r' => simpa [List.getLast?_cons_cons] using h
    · intro hr
      subst hr
      simpa using h

theorem litQ_append (q : Char) (s rest : Str) (bs : Bool) (hq : s.contains q = false) (he : endsBs bs s = false) :
    litQ q bs (s ++ q :: rest) = some (s, rest) := by
  induction s generalizing bs with
  | nil =>
    simp only [endsBs] at he
    simp [litQ, he]
  | cons c r ih =>
    simp only [List.contains_cons, Bool.or_eq_false_iff] at hq
    have hc : c ≠ q := by
      intro h; subst h; simp at hq
    simp only [List.cons_append, litQ, hc, if_false]
    rw [ih _ (by simpa using hq.2) (by simpa [endsBs] using he)]
    rfl

theorem strOk_facts {s : Str} (h : strOk s = true) :
    s.contains (quoteOf s) = false ∧ s.contains '\n' = false ∧ endsBs false s = false := by
  simp only [strOk, Bool.and_eq_true, Bool.not_eq_true'] at h
  exact ⟨h.1.1, h.1.2, endsBs_getLast s false h.2 (fun _ => rfl)⟩

theorem quoteOf_cases (s : Str) : quoteOf s = '"' ∨ quoteOf s = '\'' := by
  unfold quoteOf
  split <;> simp

theorem strTok_lit (q : Char) (s rest : Str) (hq : s.contains q = false) (he : endsBs false s = false) :
    strTok q (q :: (s ++ q :: rest)) = some (s, skipSp rest) := by
  simp [strTok, litQ_append q s rest false hq he]

theorem strTok_head {q c : Char} {r : Str} (h : c ≠ q) : strTok q (c :: r) = none := by
  simp [strTok, h]

/-- a string literal, in either quote style -/
theorem restTok_str (nm : Num N) (s rest : Str) (h : strOk s = true) :
    restTok nm (quoteOf s :: (s ++ quoteOf s :: rest)) = some (.val (.str s), skipSp rest) := by
  obtain ⟨h1, _, h3⟩ := strOk_facts h
  rcases quoteOf_cases s with hq | hq
  · rw [hq] at h1 ⊢
    simp [restTok, staticTok, strTok_lit '"' s rest h1 h3]
  · rw [hq] at h1 ⊢
    simp [restTok, staticTok, strTok_lit '\'' s rest h1 h3, strTok_head (q := '"') (c := '\'') (by decide)]

theorem plainHead_quoteOf (s : Str) : plainHead (quoteOf s) = true := by
  rcases quoteOf_cases s with h | h <;> rw [h] <;> decide

/-! ### Number literals -/

theorem isDigit_digitChar : ∀ d : Fin 10, isDigit (digitChar d) = true := by decide
theorem plainHead_digitChar : ∀ d : Fin 10, plainHead (digitChar d) = true := by decide
theorem digitChar_ne_minus : ∀ d : Fin 10, digitChar d ≠ '-' := by decide
theorem digitChar_ne_dot : ∀ d : Fin 10, digitChar d ≠ '.' := by decide
theorem digitChar_ne_dq : ∀ d : Fin 10, digitChar d ≠ '"' := by decide
theorem digitChar_ne_sq : ∀ d : Fin 10, digitChar d ≠ '\'' := by decide
theorem isWs_digitChar : ∀ d : Fin 10, isWs (digitChar d) = false := by decide

theorem all_isDigit_map (ds : List (Fin 10)) : (ds.map digitChar).all isDigit = true := by
  induction ds with
  | nil => rfl
  | cons d ds ih => simp [isDigit_digitChar d, ih]

/-- the characters that end a run of digits in a rendered body: not a digit, not a dot -/
def numStop (rest : Str) : Prop := ∀ c r, rest = c :: r → isDigit c = false ∧ c ≠ '.'

theorem numStop_of_follow {rest : Str} (h : okFollow rest = true) : numStop rest := by
  intro c r hr
  rcases okFollow_cases h with h0 | ⟨c', r', hr', hc⟩
  · rw [h0] at hr; cases hr
  · rw [hr'] at hr; cases hr
    rcases hc with rfl | rfl | rfl <;> decide

theorem takeWhile_digits (ds : List (Fin 10)) {rest : Str} (h : ∀ c r, rest = c :: r → isDigit c = false) :
    (ds.map digitChar ++ rest).takeWhile isDigit = ds.map digitChar :=
  takeWhile_append_stop (all_isDigit_map ds) h

theorem dropWhile_digits (ds : List (Fin 10)) {rest : Str} (h : ∀ c r, rest = c :: r → isDigit c = false) :
    (ds.map digitChar ++ rest).dropWhile isDigit = rest :=
  dropWhile_append_stop (all_isDigit_map ds) h

theorem numTok_int (ds : List (Fin 10)) (rest : Str) (hne : ds ≠ []) (hs : numStop rest) :
    numTok (ds.map digitChar ++ rest) = some (ds.map digitChar, skipSp rest) := by
  have hd : ∀ c r, rest = c :: r → isDigit c = false := fun c r h => (hs c r h).1
  cases ds with
  | nil => exact absurd rfl hne
  | cons d ds' =>
    have htw := takeWhile_digits (d :: ds') hd
    have hdw := dropWhile_digits (d :: ds') hd
    simp only [List.map_cons, List.cons_append] at htw hdw ⊢
    unfold numTok
    simp only [htw, hdw, splitSign, digitChar_ne_minus d, if_false]
    cases rest with
    | nil => simp
    | cons c r =>
      have := (hs c r rfl).2
      split
      · next f heq => exact absurd (List.cons.inj heq).1 this
      · simp

theorem numTok_frac (neg : Bool) (ip fp : List (Fin 10)) (rest : Str) (hne : fp ≠ []) (hs : numStop rest) :
    numTok ((if neg then ['-'] else []) ++ ip.map digitChar ++ ('.' :: fp.map digitChar) ++ rest)
      = some ((if neg then ['-'] else []) ++ ip.map digitChar ++ ('.' :: fp.map digitChar), skipSp rest) := by
  have hd : ∀ c r, rest = c :: r → isDigit c = false := fun c r h => (hs c r h).1
  have hdot : ∀ c r, ('.' :: (fp.map digitChar ++ rest)) = c :: r → isDigit c = false := by
    intro c r h
    rw [← (List.cons.inj h).1]; decide
  have h1 : (ip.map digitChar ++ '.' :: (fp.map digitChar ++ rest)).dropWhile isDigit = '.' :: (fp.map digitChar ++ rest) :=
    dropWhile_digits ip hdot
  have h2 : (ip.map digitChar ++ '.' :: (fp.map digitChar ++ rest)).takeWhile isDigit = ip.map digitChar :=
    takeWhile_digits ip hdot
  have h3 := takeWhile_digits fp hd
  have h4 := dropWhile_digits fp hd
  have hfe : (fp.map digitChar).isEmpty = false := by
    cases fp with
    | nil => exact absurd rfl hne
    | cons d ds => rfl
  have hss : splitSign (ip.map digitChar ++ '.' :: (fp.map digitChar ++ rest))
      = ([], ip.map digitChar ++ '.' :: (fp.map digitChar ++ rest)) := by
    cases ip with
    | nil => simp [splitSign]
    | cons d ds => simp [splitSign, digitChar_ne_minus d]
  cases neg with
  | true =>
    simp only [if_true, List.cons_append, List.nil_append, List.append_assoc]
    unfold numTok
    simp only [splitSign, if_true, h1, h2, h3, h4, hfe]
    simp
  | false =>
    simp only [Bool.false_eq_true, if_false, List.nil_append, List.append_assoc, List.cons_append]
    unfold numTok
    simp only [hss, h1, h2, h3, h4, hfe]
    simp

theorem numTok_lit (l : NumLit) (rest : Str) (hw : l.wf = true) (hs : numStop rest) :
    numTok (l.text ++ rest) = some (l.text, skipSp rest) := by
  obtain ⟨neg, ip, fp⟩ := l
  cases fp with
  | none =>
    simp only [NumLit.wf, Bool.and_eq_true, Bool.not_eq_true', List.isEmpty_eq_false_iff] at hw
    simp only [NumLit.text, hw.2, Bool.false_eq_true, if_false, List.nil_append, List.append_nil]
    exact numTok_int ip rest hw.1 hs
  | some f =>
    simp only [NumLit.wf, Bool.not_eq_true', List.isEmpty_eq_false_iff] at hw
    simp only [NumLit.text]
    exact numTok_frac neg ip f rest hw hs

/-- the first character of a numeral -/
theorem numLit_head (l : NumLit) (hw : l.wf = true) :
    ∃ c r, l.text = c :: r ∧ plainHead c = true ∧ c ≠ '"' ∧ c ≠ '\'' ∧ isWs c = false := by
  obtain ⟨neg, ip, fp⟩ := l
  cases neg with
  | true => exact ⟨'-', _, rfl, by decide, by decide, by decide, by decide⟩
  | false =>
    cases ip with
    | cons d ds => exact ⟨digitChar d, _, rfl, plainHead_digitChar d, digitChar_ne_dq d, digitChar_ne_sq d, isWs_digitChar d⟩
    | nil =>
      cases fp with
      | none => simp [NumLit.wf] at hw
      | some f => exact ⟨'.', _, rfl, by decide, by decide, by decide, by decide⟩

theorem restTok_num (nm : Num N) (l : NumLit) (x : N) (rest : Str) (hw : l.wf = true) (hp : nm.parse l.text = some x)
    (hs : numStop rest) : restTok nm (l.text ++ rest) = some (.val (.num x), skipSp rest) := by
  obtain ⟨c, r, ht, _, h1, h2, _⟩ := numLit_head l hw
  have hn := numTok_lit l rest hw hs
  rw [ht] at hn ⊢
  simp only [List.cons_append] at hn ⊢
  simp [restTok, staticTok, strTok_head h1, strTok_head h2, hn, ← ht, hp]

/-! ### Attributes, `text()`, `last()`, `position()` -/

theorem isSpTab_false_of_nameStart {c : Char} (h : isNameStart c = true) : isSpTab c = false := by
  cases hs : isSpTab c with
  | false => rfl
  | true =>
    have : c = ' ' ∨ c = '\t' := by simpa [isSpTab] using hs
    rcases this with rfl | rfl <;> simp [isNameStart, isAlpha] at h <;> revert h <;> decide

theorem genTok_attr (n rest : Str) (hn : attrNameOk n = true) (hf : okFollow rest = true) :
    genTok (N := N) ('@' :: (n ++ rest)) = some (.attr n, skipSp rest) := by
  cases n with
  | nil => simp [attrNameOk] at hn
  | cons c r =>
    simp only [attrNameOk, Bool.or_eq_true, Bool.and_eq_true, decide_eq_true_eq, List.isEmpty_iff] at hn
    rcases hn with ⟨rfl, rfl⟩ | ⟨h1, h2⟩
    · simp [genTok, attrTok]
    · have hc : c ≠ '*' := by
        intro h; subst h; revert h1; decide
      have hstop : ∀ c' r', rest = c' :: r' → isAttrChar c' = false :=
        okFollow_head hf isAttrChar (by decide) (by decide) (by decide)
      simp [genTok, attrTok, hc, h1, takeWhile_append_stop h2 hstop, dropWhile_append_stop h2 hstop]

theorem genTok_text (rest : Str) :
    genTok (N := N) ('t' :: 'e' :: 'x' :: 't' :: '(' :: ')' :: rest) = some (.text, skipSp rest) := by
  simp [genTok, attrTok, fn0Tok, wordCI, lowerChar, skipSp, isSpTab]

theorem genTok_last (rest : Str) :
    genTok (N := N) ('l' :: 'a' :: 's' :: 't' :: '(' :: ')' :: rest) = some (.last, skipSp rest) := by
  simp [genTok, attrTok, fn0Tok, wordCI, lowerChar, skipSp, isSpTab]

theorem genTok_position (rest : Str) :
    genTok (N := N) ('p' :: 'o' :: 's' :: 'i' :: 't' :: 'i' :: 'o' :: 'n' :: '(' :: ')' :: rest) = some (.position, skipSp rest) := by
  simp [genTok, attrTok, fn0Tok, wordCI, lowerChar, skipSp, isSpTab]

/-- a value generator without arguments, as one round of a loop -/
theorem item_gen (nm : Num N) (f : Nat) {c : Char} {r : Str} {x : BE N × Str} (h1 : isSpTab c = false) (h2 : c ≠ '(')
    (hg : genTok (c :: r) = some x) : item nm (f + 1) (c :: r) = some x := by
  simp [item, groupOpen_head h1 h2, skipSp_cons_of_not h1, hg]

/-! ### Operators -/

theorem plainHead_opText (o : Op) : ∃ c r, opText o = c :: r ∧ plainHead c = true := by
  rcases o with (_ | _ | _ | _ | _ | _) | (_ | _ | _ | _ | _ | _) | (_ | _) <;> exact ⟨_, _, rfl, by decide⟩

/-- an operator written with a space after it -/
theorem restTok_op (nm : Num N) (o : Op) (rest : Str) :
    restTok nm (opText o ++ ' ' :: rest) = some (.op o, skipSp rest) := by
  rcases o with (_ | _ | _ | _ | _ | _) | (_ | _ | _ | _ | _ | _) | (_ | _) <;>
    simp [opText, restTok, staticTok, strTok, numTok, splitSign, isDigit, cmpTok, arithTok, boolTok, wordCI, lowerChar, sp1,
      skipSp, isSpTab, List.takeWhile, List.dropWhile]

end AHP.XPath
