/-
  AHP.Lemmas.FormatLexConv — C11c: `AdvancedHTMLParser.getFormattedHTML` / `getMiniHTML` are compositions through TEXT:
  `html = self.getHTML()`, a fresh formatter tokenises `html` again, `formatter.getHTML()`.

  For a plain-parser tree in the strict sub-language (single- or multi-root):
    * `plain_html_text`   — `getHTML()` is the rendering (normal start-tag style) of `htmlToks`;
    * `plain_html_lex`    — the strict lexer reads that text back as exactly `htmlToks` (adjacent data blocks glued, the
                            line break after the doctype line a data block of its own or glued to the first top-level text);
    * `plain_html_reparse`— the plain parser builds from `htmlToks` the document `reparsed`: the same tree with adjacent
                            data blocks joined (multi-root: the doctype's line break becomes text of the wrapper), strict
                            and of the same kind (`reparsed_strict`, `reparsed_wrapperOK`), with the same `pskel`.
-/
import AHP.Lemmas.FormatLexExact
namespace AHP.Fmt
open AHP

/-! ### the plain serialiser is the token rendering -/

mutual
theorem outer_toNode_eq : ∀ u : FNode, outer u.toNode = renderToksY TagStyle.normal u.toks
  | .tok t => by
    simp only [FNode.toNode, outer, FNode.toks, renderToksY, List.append_nil, renderTokY_normal]
  | .elem n st sc kids => by
    simp only [FNode.toNode, outer]
    rw [startTag_eq]
    cases sc with
    | true => simp [FNode.toks, renderToksY, endTag, styleOf]
    | false =>
      have hend : renderTokY TagStyle.normal (.end_ n) = renderTok (.end_ n) := rfl
      simp only [Bool.false_eq_true, if_false, FNode.toks, renderToksY, renderToksY_append, endTag_eq, endInd_nil,
        List.nil_append, List.append_nil, innerL_toNodeL_eq kids, styleOf, hend, List.append_assoc]
theorem innerL_toNodeL_eq : ∀ ks : List FNode, innerL (toNodeL ks) = renderToksY TagStyle.normal (ftoksL ks)
  | [] => rfl
  | k :: ks => by
    simp only [toNodeL, innerL, ftoksL, renderToksY_append]
    rw [outer_toNode_eq k, innerL_toNodeL_eq ks]
end

/-! ### the text of `getHTML()` and its tokens -/

/-- the blocks `getHTML` prints after the doctype line: the root element, or the children of the invisible wrapper -/
def plainBlocks (n : Str) (st : AStore) (sc : Bool) (kids : List FNode) : List FNode :=
  if n = wrapper then kids else [.elem n st sc kids]

/-- **the tokens of the text `getHTML()` returns** -/
def htmlToks (dt : Option Str) (n : Str) (st : AStore) (sc : Bool) (kids : List FNode) : List Token :=
  dtToks dt ++ ftoksL (mergeL (dtBlock dt ++ plainBlocks n st sc kids))

/-- `getHTML()` of the plain parser on a (single- or multi-root) document is the rendering of `htmlToks` -/
theorem plain_html_text (dt : Option Str) (n : Str) (st : AStore) (sc : Bool) (kids : List FNode)
    (hw : WrapperOK n st sc kids) :
    docHTML dt (some (FNode.elem n st sc kids).toNode)
      = .ok (renderToksY TagStyle.normal (htmlToks dt n st sc kids)) := by
  unfold htmlToks
  rw [renderToksY_append, render_mergeL, ftoksL_append, renderToksY_append, ← List.append_assoc, ← doctypeLine_eq]
  unfold plainBlocks
  by_cases hn : n = wrapper
  · obtain ⟨_, hsc, _⟩ := hw hn
    subst hsc
    simp only [hn, if_true, FNode.toNode, docHTML, Bool.false_eq_true, if_false, innerL_toNodeL_eq]
  · have := outer_toNode_eq (.elem n st sc kids)
    simp only [FNode.toNode] at this
    simp only [hn, if_false, FNode.toNode, docHTML, this, ftoksL, List.append_nil]

theorem strictL_plainBlocks (n : Str) (st : AStore) (sc : Bool) (kids : List FNode)
    (hs : (FNode.elem n st sc kids).Strict) : StrictL (plainBlocks n st sc kids) := by
  unfold plainBlocks
  by_cases hn : n = wrapper
  · subst hn
    simp only [if_true]
    exact strictL_of_wrapper st sc kids hs
  · simp only [hn, if_false, StrictL]
    exact ⟨hs, trivial⟩

theorem htmlToks_listOK (dt : Option Str) (hdt : DtOK dt) (n : Str) (st : AStore) (sc : Bool) (kids : List FNode)
    (hs : (FNode.elem n st sc kids).Strict) : ListOK (htmlToks dt n st sc kids) := by
  have hstrict : StrictL (mergeL (dtBlock dt ++ plainBlocks n st sc kids)) := by
    apply strict_mergeL
    rw [strictL_append]
    exact ⟨strict_dtBlock dt, strictL_plainBlocks n st sc kids hs⟩
  have hblocks : ListOK (ftoksL (mergeL (dtBlock dt ++ plainBlocks n st sc kids))) := by
    have hg := glued_mergeL (dtBlock dt ++ plainBlocks n st sc kids)
    have := fforest_listOK _ hstrict hg.1 hg.2 [] .nil (Or.inl rfl)
    rw [List.append_nil] at this
    exact this
  unfold htmlToks dtToks
  cases dt with
  | none => simpa using hblocks
  | some d =>
    by_cases hd : d.isEmpty = true
    · simpa [hd] using hblocks
    · simp only [hd, Bool.false_eq_true, if_false, List.cons_append, List.nil_append]
      simp only [DtOK, isDoctype, decide_eq_true_eq] at hdt
      exact .cons ⟨hdt.1, hdt.2⟩ trivial hblocks

/-- the strict lexer reads the text of `getHTML()` back as `htmlToks` -/
theorem plain_html_lex (dt : Option Str) (hdt : DtOK dt) (n : Str) (st : AStore) (sc : Bool) (kids : List FNode)
    (hs : (FNode.elem n st sc kids).Strict) :
    lexStrict (renderToksY TagStyle.normal (htmlToks dt n st sc kids)) = some (htmlToks dt n st sc kids) :=
  lexStrict_renderToksY _ TagStyle.normal_ok _ (htmlToks_listOK dt hdt n st sc kids hs)

/-! ### the formatter's parse of that text -/

/-- the document a parser builds from the text of `getHTML()`: adjacent data blocks joined; for a multi-root document
    the line break after the doctype line has become text of the wrapper -/
def reparsed (dt : Option Str) (n : Str) (st : AStore) (sc : Bool) (kids : List FNode) : FNode :=
  if n = wrapper then .elem wrapper {} false (mergeL (dtBlock dt ++ kids)) else .elem n st sc (mergeL kids)

/-- a block list that a first pass rejects is built inside the wrapper by the second pass -/
theorem reparse_blocks_multi (dt : Option Str) (hdt : DtOK dt) (B : List FNode) (hs : StrictL B)
    (hscan : topScan false B = none) :
    Plain.feed ((dtToks dt ++ ftoksL B).map Tok.ofToken)
      = .ok ⟨[], some (FNode.elem wrapper {} false B).toNode, dt, 0, 0⟩ := by
  have hbuild := strictL_buildable _ hs
  have hfirst : Plain.run ((dtToks dt ++ ftoksL B).map Tok.ofToken) {} = .error .multipleRoot := by
    rw [List.map_append, plain_run_dt dt hdt]
    have := plain_top_fails _ hbuild none dt 0 0 [] (by simpa using hscan)
    simpa using this
  have hsecond : Plain.run (wrapToks ((dtToks dt ++ ftoksL B).map Tok.ofToken)) {}
      = .ok ⟨[], some (FNode.elem wrapper {} false B).toNode, dt, 0, 0⟩ := by
    rw [wrapToks_out dt hdt _ (no_decl_toksL _ (strictL_textLike _ hs)), plain_run_dt dt hdt]
    have hstart : Plain.step ⟨[], none, dt, 0, 0⟩ (Tok.start wrapper [])
        = .ok ⟨[⟨.normal, wrapper, {}, [], []⟩], none, dt, 0, 0⟩ := by
      simp [Plain.step, Plain.handleStart, wrapper_facts.1, wrapper_facts.2.1, St.noRoot, mkStore]
    rw [List.cons_append, plain_run_cons_ok _ _ _ _ hstart]
    rw [plain_fforest _ hbuild ⟨.normal, wrapper, {}, [], []⟩ [] none dt 0 0]
    simp only [List.append_nil]
    have hend := plain_end_root ⟨.normal, wrapper, {}, [], (toNodeL B).reverse⟩ none dt 0 0
    rw [plain_run_cons_ok _ _ _ _ hend]
    simp [Plain.run, Frame.close, FNode.toNode]
  unfold Plain.feed
  rw [hfirst]
  exact hsecond

theorem topScan_dtBlock (dt : Option Str) : topScan false (dtBlock dt) = some false := by
  cases dt with
  | none => rfl
  | some d =>
    by_cases hd : d.isEmpty = true
    · simp [dtBlock, hd, topScan]
    · have : blank ['\n'] = true := by decide
      simp [dtBlock, hd, topScan, this]

/-- the plain parser on the tokens of `getHTML()`'s text builds `reparsed` with the same doctype -/
theorem plain_html_reparse (dt : Option Str) (hdt : DtOK dt) (n : Str) (st : AStore) (sc : Bool) (kids : List FNode)
    (hw : WrapperOK n st sc kids) (hs : (FNode.elem n st sc kids).Strict) :
    Plain.feed ((htmlToks dt n st sc kids).map Tok.ofToken)
      = .ok ⟨[], some (reparsed dt n st sc kids).toNode, dt, 0, 0⟩ := by
  unfold htmlToks reparsed plainBlocks
  by_cases hn : n = wrapper
  · obtain ⟨_, _, hmulti⟩ := hw hn
    subst hn
    simp only [if_true]
    have hk := strictL_of_wrapper st sc kids hs
    apply reparse_blocks_multi dt hdt
    · apply strict_mergeL
      rw [strictL_append]
      exact ⟨strict_dtBlock dt, hk⟩
    · rw [topScan_mergeL, topScan_append, topScan_dtBlock]
      exact hmulti
  · simp only [hn, if_false]
    have hm : mergeL (dtBlock dt ++ [FNode.elem n st sc kids]) = dataTok (dtText dt) ++ [.elem n st sc (mergeL kids)] :=
      mergeL_ws_elem n st sc kids _ _ (rawText_dtBlock dt)
    have hsm := strict_merge _ hs
    simp only [merge] at hsm
    have hrun : Plain.run ((dtToks dt ++ ftoksL (mergeL (dtBlock dt ++ [FNode.elem n st sc kids]))).map Tok.ofToken) {}
        = .ok ⟨[], some (FNode.elem n st sc (mergeL kids)).toNode, dt, 0, 0⟩ := by
      rw [hm, List.map_append, plain_run_dt dt hdt, ftoksL_append, List.map_append,
        plain_run_blank _ (dtText_ws dt)]
      have h1 : ftoksL [FNode.elem n st sc (mergeL kids)] = (FNode.elem n st sc (mergeL kids)).toks := by simp [ftoksL]
      rw [h1]
      have := plain_root n st sc _ (strict_buildable _ hsm) dt 0 0 []
      simp only [List.append_nil] at this
      rw [this]
      rfl
    unfold Plain.feed
    rw [hrun]

theorem reparsed_strict (dt : Option Str) (n : Str) (st : AStore) (sc : Bool) (kids : List FNode)
    (hw : WrapperOK n st sc kids) (hs : (FNode.elem n st sc kids).Strict) : (reparsed dt n st sc kids).Strict := by
  unfold reparsed
  by_cases hn : n = wrapper
  · obtain ⟨hst, hsc, _⟩ := hw hn
    subst hn; subst hst; subst hsc
    simp only [if_true]
    have hk := strictL_of_wrapper {} false kids hs
    have hk' : StrictL (mergeL (dtBlock dt ++ kids)) := by
      apply strict_mergeL
      rw [strictL_append]
      exact ⟨strict_dtBlock dt, hk⟩
    simp only [FNode.Strict, wrapper_facts.2.2, Bool.false_eq_true, if_false] at hs ⊢
    exact ⟨hs.1, hs.2.1, ⟨fun h => h.elim, hs.2.2.2.1, hs.2.2.2.2.1, hk'⟩⟩
  · simp only [hn, if_false]
    have := strict_merge _ hs
    simpa [merge] using this

theorem reparsed_wrapperOK (dt : Option Str) (n : Str) (st : AStore) (sc : Bool) (kids : List FNode)
    (hw : WrapperOK n st sc kids) :
    (n = wrapper → reparsed dt n st sc kids = .elem wrapper {} false (mergeL (dtBlock dt ++ kids))
        ∧ WrapperOK wrapper {} false (mergeL (dtBlock dt ++ kids)))
    ∧ (n ≠ wrapper → reparsed dt n st sc kids = .elem n st sc (mergeL kids)
        ∧ WrapperOK n st sc (mergeL kids)) := by
  unfold reparsed
  constructor
  · intro hn
    obtain ⟨_, _, hmulti⟩ := hw hn
    simp only [hn, if_true, true_and]
    intro _
    refine ⟨rfl, rfl, ?_⟩
    rw [topScan_mergeL, topScan_append, topScan_dtBlock]
    exact hmulti
  · intro hn
    simp only [hn, if_false, true_and]
    exact fun e => absurd e hn

/-- joining adjacent data blocks (and the doctype's line break in front of a multi-root document) is invisible to
    `pskel` -/
theorem pskel_reparsed (dt : Option Str) (n : Str) (st : AStore) (sc : Bool) (kids : List FNode)
    (hw : WrapperOK n st sc kids) :
    pskel (reparsed dt n st sc kids).toNode = pskel (FNode.elem n st sc kids).toNode := by
  unfold reparsed
  by_cases hn : n = wrapper
  · obtain ⟨hst, hsc, _⟩ := hw hn
    subst hn; subst hst; subst hsc
    simp only [if_true]
    have h1 : pskL false (mergeL (dtBlock dt ++ kids)) = pskL false kids := by
      rw [pskL_mergeL]
      have hdtb : dtBlock dt = dataTok (dtText dt) := by
        cases dt with
        | none => rfl
        | some d =>
          by_cases hd : d.isEmpty = true
          · simp [dtBlock, dtText, hd, dataTok]
          · simp [dtBlock, dtText, hd, dataTok]
      rw [hdtb, pskL_dataTok]
      have he0 : ptext false (dtText dt) = [] := by simp [ptext, eraseWS_ws _ (dtText_ws dt)]
      rw [he0, pushText_nil]
    have hwr : isRawText wrapper = false := wrapper_facts.2.2
    have hp : isPre wrapper = false := by decide
    simp only [pskL] at h1
    simp only [pskel, FNode.toNode, pskelAt, canon, hwr, hp, Bool.and_false, Bool.false_eq_true, if_false,
      Bool.or_false, h1]
  · simp only [hn, if_false]
    have := pskelAt_merge false (.elem n st sc kids)
    simp only [merge] at this
    unfold pskel
    exact this

/-! ### the reserved name stays out -/

theorem nw_dtBlock (dt : Option Str) : NoWrapperL (dtBlock dt) := by
  cases dt with
  | none => trivial
  | some d =>
    by_cases hd : d.isEmpty = true
    · simp [dtBlock, hd, NoWrapperL]
    · simp [dtBlock, hd, NoWrapperL, FNode.NoWrapper]

theorem nw_htmlToks (dt : Option Str) (n : Str) (st : AStore) (sc : Bool) (kids : List FNode)
    (hs : (FNode.elem n st sc kids).Strict) (hnw : NoWrapperL (plainBlocks n st sc kids)) :
    NoWrapperStart ((htmlToks dt n st sc kids).map Tok.ofToken) := by
  intro t ht
  simp only [htmlToks, List.map_append, List.mem_append, List.mem_map] at ht
  rcases ht with ⟨t0, ht0, rfl⟩ | ⟨t0, ht0, rfl⟩
  · exact nw_dtToks dt t0 ht0
  · have hstrict : StrictL (mergeL (dtBlock dt ++ plainBlocks n st sc kids)) := by
      apply strict_mergeL
      rw [strictL_append]
      exact ⟨strict_dtBlock dt, strictL_plainBlocks n st sc kids hs⟩
    have hnw' : NoWrapperL (mergeL (dtBlock dt ++ plainBlocks n st sc kids)) := by
      apply nw_mergeL
      rw [nwL_append]
      exact ⟨nw_dtBlock dt, hnw⟩
    exact noWrapper_toksL _ (strictL_textLike _ hstrict) hnw' t0 ht0

end AHP.Fmt
