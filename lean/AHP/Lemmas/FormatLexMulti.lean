/-
  AHP.Lemmas.FormatLexMulti — multi-root documents: the plain parser's tree is the invisible wrapper element
  around the top-level blocks; `getHTML` writes the blocks only.  Re-parsing the output text must fail in the first
  pass (several roots / text outside the root) and build the wrapper in the second — `topScan` tracks exactly what
  makes the first pass fail and is invariant under `expandL` / `mergeL`.
-/
import AHP.Lemmas.FormatLexDoc
namespace AHP.Fmt
open AHP

/-! ### what the first pass does with top-level blocks -/

/-- scanning top-level blocks with nothing open: `none` = `MultipleRootNodeException`; `some seen` = went through,
    `seen` says whether a root element exists by now -/
def topScan (seen : Bool) : List FNode → Option Bool
  | [] => some seen
  | .tok (.data d) :: ks => if blank d then topScan seen ks else none
  | .tok _ :: _ => none
  | .elem _ _ _ _ :: ks => if seen then none else topScan true ks

theorem topScan_append (xs ys : List FNode) : ∀ seen,
    topScan seen (xs ++ ys) = (topScan seen xs).bind (fun s => topScan s ys) := by
  induction xs with
  | nil => intro seen; simp [topScan]
  | cons x xs ih =>
    intro seen
    cases x with
    | elem n st sc kids =>
      simp only [List.cons_append, topScan]
      split
      · rfl
      · exact ih true
    | tok t =>
      cases t with
      | data d =>
        simp only [List.cons_append, topScan]
        split
        · exact ih seen
        · rfl
      | _ => simp [topScan]

theorem blank_append (a b : Str) : blank (a ++ b) = (blank a && blank b) := by simp [blank]

theorem blank_of_eraseWS_eq (a b : Str) (h : eraseWS a = eraseWS b) : blank a = blank b := by
  cases ha : blank a <;> cases hb : blank b <;> try rfl
  · have := (blank_iff b).mp hb
    rw [← h] at this
    rw [(blank_iff a).mpr this] at ha
    exact absurd ha (by decide)
  · have := (blank_iff a).mp ha
    rw [h] at this
    rw [(blank_iff b).mpr this] at hb
    exact absurd hb (by decide)

theorem blank_ws (s : Str) (h : WsStr s) : blank s = true := (blank_iff s).mpr (eraseWS_ws s h)

theorem topScan_dataTok (s : Str) (hs : blank s = true) (seen : Bool) (ks : List FNode) :
    topScan seen (dataTok s ++ ks) = topScan seen ks := by
  unfold dataTok
  by_cases h : s.isEmpty = true
  · simp [h]
  · simp [h, topScan, hs]

theorem topScan_pushTok (t : Token) (r : List FNode) (seen : Bool) :
    topScan seen (pushTok t r) = topScan seen (.tok t :: r) := by
  unfold pushTok
  split
  · rename_i a b r'
    simp only [topScan, blank_append]
    cases blank a <;> cases blank b <;> simp
  · rfl

theorem topScan_mergeL : ∀ (ks : List FNode) (seen : Bool), topScan seen (mergeL ks) = topScan seen ks
  | [], _ => by simp [mergeL]
  | .tok t :: ks, seen => by
    simp only [mergeL]
    rw [topScan_pushTok]
    cases t with
    | data d => simp only [topScan]; rw [topScan_mergeL ks seen]
    | _ => simp [topScan]
  | .elem n st sc kids :: ks, seen => by
    simp only [mergeL, topScan]
    rw [topScan_mergeL ks true]

theorem topScan_expandL (cfg : Cfg) (hi : IndentWS cfg) (c : Ctx) (p : Str) :
    ∀ (ks : List FNode) (seen : Bool), topScan seen (expandL cfg c p ks) = topScan seen ks
  | [], _ => by simp [expandL]
  | .tok t :: ks, seen => by
    simp only [expandL, expand]
    cases t with
    | data d =>
      simp only [expandTok]
      have hb : blank (dataRule c p d) = blank d := blank_of_eraseWS_eq _ _ (eraseWS_dataRule c p d)
      unfold dataTok
      by_cases h : (dataRule c p d).isEmpty = true
      · have he : dataRule c p d = [] := by simpa using h
        have : blank d = true := by rw [← hb, he]; rfl
        simp [h, topScan, this, topScan_expandL cfg hi c p ks seen]
      · simp [h, topScan, hb, topScan_expandL cfg hi c p ks seen]
    | _ => simp [expandTok, topScan]
  | .elem n st sc kids :: ks, seen => by
    simp only [expandL, expand, List.append_assoc]
    rw [topScan_dataTok _ (blank_ws _ (indentAt_ws cfg hi c))]
    simp only [List.cons_append, List.nil_append, topScan]
    rw [topScan_expandL cfg hi c p ks true]

/-! ### the first pass fails -/

theorem pyStrip_isEmpty (d : Str) : (pyStrip d).isEmpty = blank d := by
  have h1 : eraseWS (pyStrip d) = eraseWS d := by
    unfold pyStrip pyRstrip pyLstrip
    rw [eraseWS_rdropWhile pyWs (fun _ h => h), eraseWS_dropWhile pyWs (fun _ h => h)]
  cases hb : blank d with
  | true =>
    have : pyStrip d = [] := pyStrip_ws d (by simpa [blank] using hb)
    simp [this]
  | false =>
    cases hp : pyStrip d with
    | nil =>
      rw [hp] at h1
      have := (blank_iff d).mpr h1.symm
      rw [this] at hb
      exact absurd hb (by decide)
    | cons c cs => rfl

theorem plain_run_error (t : Tok) (ts : List Tok) (s : St) (e : Err) (h : Plain.step s t = .error e) :
    Plain.run (t :: ts) s = .error e := by
  simp [Plain.run, h]

theorem plain_top_fails : ∀ (ks : List FNode), BuildableL ks → ∀ (cl : Option Node) (dt : Option Str) (lv ip : Int)
    (rest : List Tok), topScan cl.isSome ks = none →
    Plain.run ((ftoksL ks).map Tok.ofToken ++ rest) ⟨[], cl, dt, lv, ip⟩ = .error .multipleRoot
  | [], _, cl, _, _, _, _, h => by simp [topScan] at h
  | .tok t :: ks, hb, cl, dt, lv, ip, rest, h => by
    simp only [BuildableL, FNode.Buildable] at hb
    simp only [ftoksL, FNode.toks, List.map_append, List.map_cons, List.map_nil, List.cons_append, List.nil_append,
      List.append_assoc]
    cases t with
    | data d =>
      have hne : d.isEmpty = false := by
        have := hb.1.2 d rfl
        cases d <;> simp_all
      simp only [topScan] at h
      by_cases hbl : blank d = true
      · simp only [hbl, if_true] at h
        have hstep : Plain.step ⟨[], cl, dt, lv, ip⟩ (Tok.ofToken (.data d)) = .ok ⟨[], cl, dt, lv, ip⟩ := by
          simp [Tok.ofToken, Plain.step, Plain.handleData, hne, pyStrip_isEmpty, hbl]
        rw [plain_run_cons_ok _ _ _ _ hstep]
        exact plain_top_fails ks hb.2 cl dt lv ip rest h
      · apply plain_run_error
        simp [Tok.ofToken, Plain.step, Plain.handleData, hne, pyStrip_isEmpty, hbl]
    | entity e => apply plain_run_error; simp [Tok.ofToken, Plain.step, handleVerbatim]
    | charref e => apply plain_run_error; simp [Tok.ofToken, Plain.step, handleVerbatim]
    | comment e => apply plain_run_error; simp [Tok.ofToken, Plain.step, handleVerbatim]
    | decl d => simp [isTextLike] at hb
    | unknownDecl d => simp [isTextLike] at hb
    | pi d => simp [isTextLike] at hb
    | start n a => simp [isTextLike] at hb
    | startend n a => simp [isTextLike] at hb
    | end_ n => simp [isTextLike] at hb
  | .elem n st sc kids :: ks, hb, cl, dt, lv, ip, rest, h => by
    simp only [BuildableL] at hb
    simp only [ftoksL, List.map_append, List.append_assoc]
    cases cl with
    | none =>
      simp only [Option.isSome_none, topScan, Bool.false_eq_true, if_false] at h
      rw [plain_root n st sc kids hb.1 dt lv ip]
      exact plain_top_fails ks hb.2 (some _) dt lv ip rest (by simpa using h)
    | some r =>
      -- a second root element
      unfold FNode.toks
      cases sc with
      | true =>
        simp only [if_true, List.map_cons, List.map_nil, List.cons_append, List.nil_append]
        apply plain_run_error
        simp [Tok.ofToken, Plain.step, Plain.handleStart, St.noRoot]
      | false =>
        simp only [Bool.false_eq_true, if_false, List.map_cons, List.cons_append]
        apply plain_run_error
        simp [Tok.ofToken, Plain.step, Plain.handleStart, St.noRoot]

/-! ### the output of a multi-root document -/

def outBlocksM (cfg : Cfg) (dt : Option Str) (kids : List FNode) : List FNode :=
  mergeL (dtBlock dt ++ expandL cfg ((⟨0, 0⟩ : Ctx).push wrapper) wrapper kids)

def outToksM (cfg : Cfg) (dt : Option Str) (kids : List FNode) : List Token :=
  dtToks dt ++ ftoksL (outBlocksM cfg dt kids)

theorem wrapper_facts : lower wrapper = wrapper ∧ Fmt.isVoid wrapper = false ∧ isRawText wrapper = false := by
  decide

theorem strictL_of_wrapper (st : AStore) (sc : Bool) (kids : List FNode)
    (hs : (FNode.elem wrapper st sc kids).Strict) : StrictL kids := by
  simp only [FNode.Strict, wrapper_facts.2.2, Bool.false_eq_true, if_false] at hs
  exact hs.2.2.2.2.2

/-- **(a), rendering, multi-root** -/
theorem doc_render_multi (cfg : Cfg) (dt : Option Str) (st : AStore) (kids : List FNode)
    (hs : (FNode.elem wrapper st false kids).Strict) :
    docHTML dt (some (dec0 cfg (FNode.elem wrapper st false kids).toNode))
      = .ok (renderToksY (styleOf cfg.kind) (outToksM cfg dt kids)) := by
  have hout := innerL_decorate_eq cfg ((⟨0, 0⟩ : Ctx).push wrapper) wrapper kids
    (strictL_textLike _ (strictL_of_wrapper st false kids hs))
  unfold outToksM outBlocksM
  rw [renderToksY_append, render_mergeL, ftoksL_append, renderToksY_append, ← List.append_assoc,
    ← doctypeLine_eq, ← hout]
  simp [dec0, FNode.toNode, decorate, docHTML]

theorem strict_outBlocksM (cfg : Cfg) (hi : IndentWS cfg) (dt : Option Str) (kids : List FNode)
    (hs : StrictL kids) : StrictL (outBlocksM cfg dt kids) := by
  unfold outBlocksM
  apply strict_mergeL
  rw [strictL_append]
  exact ⟨strict_dtBlock dt, strict_expandL cfg hi _ _ kids hs⟩

/-- **(a), domain, multi-root** -/
theorem doc_listOK_multi (cfg : Cfg) (hi : IndentWS cfg) (dt : Option Str) (kids : List FNode) (hs : StrictL kids)
    (hdt : DtOK dt) : ListOK (outToksM cfg dt kids) := by
  have hblocks : ListOK (ftoksL (outBlocksM cfg dt kids)) := by
    have hg := glued_mergeL (dtBlock dt ++ expandL cfg ((⟨0, 0⟩ : Ctx).push wrapper) wrapper kids)
    have := fforest_listOK (outBlocksM cfg dt kids) (strict_outBlocksM cfg hi dt kids hs) hg.1 hg.2 [] .nil
      (Or.inl rfl)
    rw [List.append_nil] at this
    exact this
  unfold outToksM dtToks
  cases dt with
  | none => simpa using hblocks
  | some d =>
    by_cases hd : d.isEmpty = true
    · simpa [hd] using hblocks
    · simp only [hd, Bool.false_eq_true, if_false, List.cons_append, List.nil_append]
      simp only [DtOK, isDoctype, decide_eq_true_eq] at hdt
      exact .cons ⟨hdt.1, hdt.2⟩ trivial hblocks

theorem doc_lex_multi (cfg : Cfg) (hi : IndentWS cfg) (dt : Option Str) (kids : List FNode) (hs : StrictL kids)
    (hdt : DtOK dt) :
    lexStrict (renderToksY (styleOf cfg.kind) (outToksM cfg dt kids)) = some (outToksM cfg dt kids) :=
  lexStrict_renderToksY _ (styleOf_ok cfg.kind) _ (doc_listOK_multi cfg hi dt kids hs hdt)

/-! ### the second pass -/

mutual
theorem no_decl_toks : ∀ (u : FNode), u.TextLike → ∀ d, Token.decl d ∉ u.toks
  | .tok t, h, d => by
    simp only [FNode.TextLike] at h
    simp only [FNode.toks, List.mem_singleton]
    intro e; rw [← e] at h; simp [isTextLike] at h
  | .elem n st sc kids, h, d => by
    simp only [FNode.TextLike] at h
    unfold FNode.toks
    split
    · simp
    · simp only [List.mem_cons, List.mem_append, List.mem_singleton, not_or]
      exact ⟨by simp, no_decl_toksL kids h d, by simp⟩
theorem no_decl_toksL : ∀ (ks : List FNode), TextLikeL ks → ∀ d, Token.decl d ∉ ftoksL ks
  | [], _, d => by simp [ftoksL]
  | k :: ks, h, d => by
    simp only [TextLikeL] at h
    simp only [ftoksL, List.mem_append, not_or]
    exact ⟨no_decl_toks k h.1 d, no_decl_toksL ks h.2 d⟩
end

theorem ofToken_decl (t : Token) (d : Str) (h : Tok.ofToken t = .decl d) : t = .decl d := by
  cases t <;> simp [Tok.ofToken] at h
  rw [h]

theorem wrapToks_noDecl (l : List Token) (h : ∀ d, Token.decl d ∉ l) :
    wrapToks (l.map Tok.ofToken) = Tok.start wrapper [] :: l.map Tok.ofToken ++ [Tok.end_ wrapper] := by
  unfold wrapToks
  split
  · rename_i d rest heq
    cases l with
    | nil => simp at heq
    | cons t ts =>
      simp only [List.map_cons, List.cons.injEq] at heq
      exact absurd (by rw [ofToken_decl t d heq.1]; simp) (h d)
  · rename_i s d rest heq
    cases l with
    | nil => simp at heq
    | cons t ts =>
      cases ts with
      | nil => simp at heq
      | cons t2 ts2 =>
        simp only [List.map_cons, List.cons.injEq] at heq
        exact absurd (by rw [ofToken_decl t2 d heq.2.1]; simp) (h d)
  · rfl

theorem wrapToks_out (dt : Option Str) (hdt : DtOK dt) (l : List Token) (h : ∀ d, Token.decl d ∉ l) :
    wrapToks ((dtToks dt ++ l).map Tok.ofToken)
      = (dtToks dt).map Tok.ofToken ++ (Tok.start wrapper [] :: l.map Tok.ofToken ++ [Tok.end_ wrapper]) := by
  cases dt with
  | none => simpa [dtToks] using wrapToks_noDecl l h
  | some d =>
    have hd : d.isEmpty = false := by
      cases d with
      | nil => simp [DtOK, isDoctype, lower, str] at hdt
      | cons c cs => rfl
    simp only [DtOK] at hdt
    simp [dtToks, hd, Tok.ofToken, wrapToks, hdt.1]

/-- **(b), core, multi-root**: first pass fails, second pass builds the wrapper around the output's blocks -/
theorem doc_reparse_multi (cfg : Cfg) (hi : IndentWS cfg) (dt : Option Str) (kids : List FNode) (hs : StrictL kids)
    (hdt : DtOK dt) (hmulti : topScan false kids = none) :
    Plain.feed ((outToksM cfg dt kids).map Tok.ofToken)
      = .ok ⟨[], some (FNode.elem wrapper {} false (outBlocksM cfg dt kids)).toNode, dt, 0, 0⟩ := by
  have hstrict := strict_outBlocksM cfg hi dt kids hs
  have hbuild := strictL_buildable _ hstrict
  have hscan : topScan false (outBlocksM cfg dt kids) = none := by
    unfold outBlocksM
    rw [topScan_mergeL, topScan_append]
    have h1 : topScan false (dtBlock dt) = some false := by
      cases dt with
      | none => rfl
      | some d =>
        by_cases hd : d.isEmpty = true
        · simp [dtBlock, hd, topScan]
        · have : blank ['\n'] = true := by decide
          simp [dtBlock, hd, topScan, this]
    rw [h1]
    simp only [Option.bind_some]
    rw [topScan_expandL cfg hi]
    exact hmulti
  have hfirst : Plain.run ((outToksM cfg dt kids).map Tok.ofToken) {} = .error .multipleRoot := by
    unfold outToksM
    rw [List.map_append, plain_run_dt dt hdt]
    have := plain_top_fails _ hbuild none dt 0 0 [] (by simpa using hscan)
    simpa using this
  have hsecond : Plain.run (wrapToks ((outToksM cfg dt kids).map Tok.ofToken)) {}
      = .ok ⟨[], some (FNode.elem wrapper {} false (outBlocksM cfg dt kids)).toNode, dt, 0, 0⟩ := by
    unfold outToksM
    rw [wrapToks_out dt hdt _ (no_decl_toksL _ (strictL_textLike _ hstrict)), plain_run_dt dt hdt]
    have hstart : Plain.step ⟨[], none, dt, 0, 0⟩ (Tok.start wrapper [])
        = .ok ⟨[⟨.normal, wrapper, {}, [], []⟩], none, dt, 0, 0⟩ := by
      simp [Plain.step, Plain.handleStart, wrapper_facts.1, wrapper_facts.2.1, St.noRoot, mkStore]
    rw [List.cons_append, plain_run_cons_ok _ _ _ _ hstart]
    rw [plain_fforest _ hbuild ⟨.normal, wrapper, {}, [], []⟩ [] none dt 0 0]
    simp only [List.append_nil]
    have hend := plain_end_root ⟨.normal, wrapper, {}, [], (toNodeL (outBlocksM cfg dt kids)).reverse⟩ none dt 0 0
    rw [plain_run_cons_ok _ _ _ _ hend]
    simp [Plain.run, Frame.close, FNode.toNode]
  unfold Plain.feed
  rw [hfirst]
  exact hsecond

/-- **(b), skeleton, multi-root** -/
theorem cskel_outM (cfg : Cfg) (hi : IndentWS cfg) (dt : Option Str) (st : AStore) (kids : List FNode)
    (hs : StrictL kids) :
    cskel (FNode.elem wrapper st false (outBlocksM cfg dt kids)).toNode
      = cskel (FNode.elem wrapper st false kids).toNode := by
  have hb := strictL_buildable _ hs
  have h1 : cskL (outBlocksM cfg dt kids) = cskL kids := by
    unfold outBlocksM
    rw [cskL_mergeL]
    have hdtb : dtBlock dt = dataTok (dtText dt) := by
      cases dt with
      | none => rfl
      | some d =>
        by_cases hd : d.isEmpty = true
        · simp [dtBlock, dtText, hd, dataTok]
        · simp [dtBlock, dtText, hd, dataTok]
    rw [hdtb, cskL_dataTok, eraseWS_ws _ (dtText_ws dt), pushText_nil]
    have := cskL_expandL cfg hi ((⟨0, 0⟩ : Ctx).push wrapper) wrapper kids hb []
    simpa using this
  simp only [cskL] at h1
  simp only [cskel, FNode.toNode, skel, canon, h1]

/-- the token rendering of the decorated document, single- or multi-root -/
def docToks (cfg : Cfg) (dt : Option Str) (n : Str) (st : AStore) (sc : Bool) (kids : List FNode) : List Token :=
  if n = wrapper then outToksM cfg dt kids else outToks cfg dt (.elem n st sc kids)

/-- a multi-root document as the plain parser builds it: the wrapper has no attributes, is not self-closing, and
    its blocks are what makes a first pass fail (a second root element, text or a reference / comment outside
    the root) -/
def WrapperOK (n : Str) (st : AStore) (sc : Bool) (kids : List FNode) : Prop :=
  n = wrapper → st = {} ∧ sc = false ∧ topScan false kids = none

instance (n : Str) (st : AStore) (sc : Bool) (kids : List FNode) : Decidable (WrapperOK n st sc kids) := by
  unfold WrapperOK; infer_instance

/-- **the formatter's output text**: for every token sequence whose plain-parser tree is the strict document
    `u` (single- or multi-root), `getHTML` of the formatter is the rendering of `docToks` in the class's style -/
theorem format_text (cfg : Cfg) (toks : List Tok) (h : NoWrapperStart toks) (ps : St)
    (hp : Plain.feed toks = .ok ps) (n : Str) (st : AStore) (sc : Bool) (kids : List FNode)
    (hroot : ps.root = some (FNode.elem n st sc kids).toNode) (hw : WrapperOK n st sc kids)
    (hs : (FNode.elem n st sc kids).Strict) :
    format cfg toks = .ok (renderToksY (styleOf cfg.kind) (docToks cfg ps.doctype n st sc kids)) := by
  have ht := format_tree cfg toks h
  rw [hp] at ht
  obtain ⟨fs, hf, hr, hd⟩ := ht
  have hfmt : format cfg toks = docHTML fs.doctype fs.root := by simp [format, hf]
  rw [hfmt, hr, hd, hroot]
  unfold docToks
  by_cases hn : n = wrapper
  · obtain ⟨_, hsc, _⟩ := hw hn
    subst hn; subst hsc
    simp only [if_true]
    exact doc_render_multi cfg ps.doctype st kids hs
  · simp only [hn, if_false]
    exact doc_render cfg ps.doctype n st sc kids hn hs

/-- the token sequence of a strict single-root document: doctype declaration, then the tokens of the tree — what
    `lexStrict` returns on every serialisation of such a document (C01) -/
def strictToks (dt : Option Str) (u : FNode) : List Tok := (dtToks dt ++ u.toks).map Tok.ofToken

/-- the plain parser builds the tree from its token sequence -/
theorem plain_feed_strictToks (dt : Option Str) (hdt : DtOK dt) (n : Str) (st : AStore) (sc : Bool)
    (kids : List FNode) (hs : (FNode.elem n st sc kids).Strict) :
    Plain.feed (strictToks dt (.elem n st sc kids)) = .ok ⟨[], some (FNode.elem n st sc kids).toNode, dt, 0, 0⟩ := by
  have hrun : Plain.run (strictToks dt (.elem n st sc kids)) {}
      = .ok ⟨[], some (FNode.elem n st sc kids).toNode, dt, 0, 0⟩ := by
    unfold strictToks
    rw [List.map_append, plain_run_dt dt hdt]
    have := plain_root n st sc kids (strict_buildable _ hs) dt 0 0 []
    simp only [List.append_nil] at this
    rw [this]; rfl
  unfold Plain.feed
  rw [hrun]


end AHP.Fmt
