/-
  Helper lemmas for C15, lock level, systems of threads:
  * `LockBits` — mutual exclusion and the meaning of the lock bit, preserved by every step;
  * `LockInv` — with the data invariant *at the release points* and, for the thread inside a section,
    "its own remaining statements restore the invariant and free the lock";
  * `Sim` — the simulation between whole lock-level threads (`ltStep`) and the quantum machine (`tstep`):
    a completed critical section is exactly the thread's quantum on the cache as it was at `acquire`.
-/
import AHP.Lemmas.CacheLock
namespace AHP.Cache

/-! ### Small list facts -/

theorem getElem?_lt_length {α : Type} {l : List α} {i : Nat} {a : α} (h : l[i]? = some a) : i < l.length := by
  rcases Nat.lt_or_ge i l.length with h1 | h1
  · exact h1
  · rw [List.getElem?_eq_none_iff.mpr h1] at h; cases h

theorem set_getElem?_self {α : Type} {l : List α} {i : Nat} {a : α} (h : l[i]? = some a) : l.set i a = l := by
  apply List.ext_getElem?
  intro j
  rw [List.getElem?_set]
  split
  · rename_i hij; subst hij
    have hl := getElem?_lt_length h
    rw [List.getElem?_eq_getElem hl] at h ⊢
    simp only [hl, ite_true]
    exact h.symm
  · rfl

theorem getElem?_set_ne' {α : Type} {l : List α} {i j : Nat} {a : α} (h : j ≠ i) : (l.set i a)[j]? = l[j]? := by
  rw [List.getElem?_set]
  have : ¬ i = j := fun e => h e.symm
  simp [this]

theorem getElem?_set_self' {α : Type} {l : List α} {i : Nat} {a b : α} (h : l[i]? = some b) :
    (l.set i a)[i]? = some a := by
  rw [List.getElem?_set]; simp [getElem?_lt_length h]

variable {K V : Type}

/-! ### Mutual exclusion and the lock bit -/

/-- At most one thread is inside a section, and the lock bit says whether one is. -/
structure LockBits (held : Bool) (pcs : List (Pc K V)) : Prop where
  excl : ∀ (i j : Nat) (pi pj : Pc K V), pcs[i]? = some pi → pcs[j]? = some pj →
    pi.holds = true → pj.holds = true → i = j
  held : held = true ↔ ∃ (i : Nat) (pc : Pc K V), pcs[i]? = some pc ∧ pc.holds = true

/-- One thread moves from `pc` to `pc'` and the lock bit follows it. -/
theorem LockBits.update {held held' : Bool} {pcs : List (Pc K V)} {i : Nat} {pc pc' : Pc K V}
    (h : LockBits held pcs) (hpc : pcs[i]? = some pc)
    (k1 : pc'.holds = true → (pc.holds = true ∨ held = false))
    (k2 : (pc.holds = true ∨ pc'.holds = true) → held' = pc'.holds)
    (k3 : pc.holds = false → pc'.holds = false → held' = held) :
    LockBits held' (pcs.set i pc') := by
  have hother : ∀ j pj, j ≠ i → ((pcs.set i pc')[j]? = some pj ↔ pcs[j]? = some pj) := by
    intro j pj hji; rw [getElem?_set_ne' hji]
  have hself : (pcs.set i pc')[i]? = some pc' := getElem?_set_self' hpc
  refine ⟨?_, ?_⟩
  · intro a b pa pb ha hb' hpa hpb
    by_cases hai : a = i
    · by_cases hbi : b = i
      · rw [hai, hbi]
      · subst hai
        rw [hself] at ha; injection ha with ha; subst ha
        have hb2 := (hother b pb hbi).mp hb'
        rcases k1 hpa with hold | hfree
        · exact h.excl _ _ _ _ hpc hb2 hold hpb
        · have : held = true := h.held.mpr ⟨b, pb, hb2, hpb⟩
          rw [this] at hfree; cases hfree
    · by_cases hbi : b = i
      · subst hbi
        rw [hself] at hb'; injection hb' with hb'; subst hb'
        have ha2 := (hother a pa hai).mp ha
        rcases k1 hpb with hold | hfree
        · exact h.excl _ _ _ _ ha2 hpc hpa hold
        · have : held = true := h.held.mpr ⟨a, pa, ha2, hpa⟩
          rw [this] at hfree; cases hfree
      · exact h.excl _ _ _ _ ((hother a pa hai).mp ha) ((hother b pb hbi).mp hb') hpa hpb
  · constructor
    · intro hh
      cases hx : pc'.holds with
      | true => exact ⟨i, pc', hself, hx⟩
      | false =>
        cases hy : pc.holds with
        | true => rw [k2 (Or.inl hy), hx] at hh; cases hh
        | false =>
          rw [k3 hy hx] at hh
          obtain ⟨j, pj, hj, hpj⟩ := h.held.mp hh
          have hji : j ≠ i := by
            intro e; subst e
            rw [hpc] at hj; injection hj with hj; subst hj
            rw [hy] at hpj; cases hpj
          exact ⟨j, pj, (hother j pj hji).mpr hj, hpj⟩
    · rintro ⟨j, pj, hj, hpj⟩
      by_cases hji : j = i
      · subst hji
        rw [hself] at hj; injection hj with hj; subst hj
        rw [k2 (Or.inr hpj)]; exact hpj
      · have hj2 := (hother j pj hji).mp hj
        have hheld : held = true := h.held.mpr ⟨j, pj, hj2, hpj⟩
        have hpcf : pc.holds = false := by
          cases hx : pc.holds with
          | false => rfl
          | true => exact absurd (h.excl _ _ _ _ hpc hj2 hx hpj).symm hji
        have hpcf' : pc'.holds = false := by
          cases hx : pc'.holds with
          | false => rfl
          | true =>
            rcases k1 hx with a | a
            · rw [hpcf] at a; cases a
            · rw [hheld] at a; cases a
        rw [k3 hpcf hpcf']; exact hheld

/-- A thread outside every section changes its program point to another one outside. -/
theorem LockBits.update_outside {held : Bool} {pcs : List (Pc K V)} {i : Nat} {pc pc' : Pc K V}
    (h : LockBits held pcs) (hpc : pcs[i]? = some pc) (h1 : pc.holds = false) (h2 : pc'.holds = false) :
    LockBits held (pcs.set i pc') :=
  h.update hpc (fun hx => by rw [h2] at hx; cases hx)
    (fun hx => by rcases hx with hx | hx <;> simp_all) (fun _ _ => rfl)

variable [DecidableEq K]

/-- The lock bits follow a step of the locked machine. -/
theorem LockBits.step {MAX CLEAR : Nat} {sh sh' : Shared K V} {pcs : List (Pc K V)} {i : Nat} {pc pc' : Pc K V}
    (h : LockBits sh.held pcs) (hpc : pcs[i]? = some pc) (hk : StepKind MAX CLEAR sh pc sh' pc') :
    LockBits sh'.held (pcs.set i pc') := by
  cases hk with
  | idle hd hs hp =>
    subst hs; subst hp
    rw [set_getElem?_self hpc]; exact h
  | acquire hh hd hfree hs hp hh' =>
    subst hs
    exact h.update hpc (fun _ => Or.inr hfree) (fun _ => hh'.symm) (fun _ hx => by rw [hh'] at hx; cases hx)
  | body hh hr hheld hs hp hh' =>
    subst hs
    exact h.update hpc (fun _ => Or.inl hh) (fun _ => by rw [hh']; exact hheld)
      (fun hx => by rw [hh] at hx; cases hx)
  | release hr hheld hs hp hd' =>
    subst hs
    have hh := Pc.holds_of_isRelease hr
    exact h.update hpc (fun _ => Or.inl hh) (fun _ => (Pc.not_holds_of_isDone hd').symm)
      (fun hx => by rw [hh] at hx; cases hx)

/-- Who else can be inside while thread `i` acquires, works or releases: nobody. -/
theorem LockBits.other_outside {MAX CLEAR : Nat} {sh sh' : Shared K V} {pcs : List (Pc K V)} {i j : Nat}
    {pc pc' pj : Pc K V} (h : LockBits sh.held pcs) (hpc : pcs[i]? = some pc) (hpj : pcs[j]? = some pj)
    (hji : j ≠ i) (hk : StepKind MAX CLEAR sh pc sh' pc') (hnd : pc.isDone = false) : pj.holds = false := by
  cases hx : pj.holds with
  | false => rfl
  | true =>
    exfalso
    cases hk with
    | idle hd => rw [hd] at hnd; cases hnd
    | acquire hh hd hfree =>
      have := h.held.mpr ⟨j, pj, hpj, hx⟩
      rw [this] at hfree; cases hfree
    | body hh => exact hji (h.excl _ _ _ _ hpj hpc hx hh)
    | release hr => exact hji (h.excl _ _ _ _ hpj hpc hx (Pc.holds_of_isRelease hr))

/-! ### The invariant of a system of cache operations -/

/-- Mutual exclusion + the lock bit says whether somebody is inside + the data invariant holds whenever
    the lock is free + the thread inside a section will, by its own remaining statements alone, restore
    the data invariant and free the lock.  (Inside a section the data invariant is in general broken:
    see `C15.mid_section_breaks_inv`.) -/
structure LockInv (MAX CLEAR : Nat) (s : LSys K V) : Prop where
  excl : ∀ (i j : Nat) (pi pj : Pc K V), s.pcs[i]? = some pi → s.pcs[j]? = some pj →
    pi.holds = true → pj.holds = true → i = j
  held : s.sh.held = true ↔ ∃ (i : Nat) (pc : Pc K V), s.pcs[i]? = some pc ∧ pc.holds = true
  free : s.sh.held = false → Inv MAX s.sh.cache
  mid : ∀ (i : Nat) (pc : Pc K V), s.pcs[i]? = some pc → pc.holds = true →
    ∃ c' r x, Inv MAX c' ∧ Runs MAX CLEAR s.sh pc ⟨false, c'⟩ (.done r x)

theorem LockInv.bits {MAX CLEAR : Nat} {s : LSys K V} (h : LockInv MAX CLEAR s) : LockBits s.sh.held s.pcs :=
  ⟨h.excl, h.held⟩

omit [DecidableEq K] in
theorem shared_eta_free {sh : Shared K V} (h : sh.held = false) : sh = ⟨false, sh.cache⟩ := by
  cases sh; simp_all

theorem lsysStep_eq {MAX CLEAR : Nat} {s s' : LSys K V} {i : Nat} (hs : lsysStep MAX CLEAR s i = some s') :
    ∃ pc sh' pc', s.pcs[i]? = some pc ∧ lstep MAX CLEAR s.sh pc = some (sh', pc') ∧ s' = ⟨sh', s.pcs.set i pc'⟩ := by
  unfold lsysStep lsysStepG at hs
  cases hpc : s.pcs[i]? with
  | none => simp [hpc] at hs
  | some pc =>
    simp only [hpc] at hs
    cases hl : lstepG true MAX CLEAR s.sh pc with
    | none => simp [hl] at hs
    | some q =>
      obtain ⟨sh', pc'⟩ := q
      simp only [hl, Option.some.injEq] at hs
      exact ⟨pc, sh', pc', rfl, hl, hs.symm⟩

/-- Every step of every thread keeps `LockInv`. -/
theorem lockInv_step {MAX CLEAR : Nat} (hb : CLEAR < MAX) {s s' : LSys K V} {i : Nat}
    (h : LockInv MAX CLEAR s) (hs : lsysStep MAX CLEAR s i = some s') : LockInv MAX CLEAR s' := by
  obtain ⟨pc, sh', pc', hpc, hl, rfl⟩ := lsysStep_eq hs
  have hk := lstep_kind hl
  have hbits := h.bits.step hpc hk
  refine ⟨hbits.excl, hbits.held, ?_, ?_⟩
  · -- the data invariant at the release points
    intro hfree'
    show Inv MAX sh'.cache
    cases hk with
    | idle hd hs hp => subst hs; exact h.free hfree'
    | acquire hh hd hfree hs hp hh' => subst hs; cases hfree'
    | body hh hr hheld hs hp hh' => subst hs; rw [hheld] at hfree'; cases hfree'
    | release hr hheld hs hp hd' =>
      obtain ⟨c', r, x, hi, hruns⟩ := h.mid i pc hpc (Pc.holds_of_isRelease hr)
      have h2 := hruns.after_step rfl (Pc.not_done_of_holds (Pc.holds_of_isRelease hr)) hl
      have h3 := (h2.of_done hd').1
      rw [← h3]; exact hi
  · -- the thread inside
    intro j pj hj hpj
    by_cases hji : j = i
    · subst hji
      rw [getElem?_set_self' hpc] at hj
      injection hj with hj; subst hj
      cases hk with
      | idle hd hs hp => subst hp; rw [Pc.not_holds_of_isDone hd] at hpj; cases hpj
      | acquire hh hd hfree hs hp hh' =>
        have hi := h.free hfree
        have hruns := section_runs MAX CLEAR hh hd s.sh.cache
        rw [← shared_eta_free hfree] at hruns
        exact ⟨_, _, _, effect_inv hb pc hi, hruns.after_step rfl hd hl⟩
      | body hh hr hheld hs hp hh' =>
        obtain ⟨c', r, x, hi, hruns⟩ := h.mid j pc hpc hh
        exact ⟨c', r, x, hi, hruns.after_step rfl (Pc.not_done_of_holds hh) hl⟩
      | release hr hheld hs hp hd' => rw [Pc.not_holds_of_isDone hd'] at hpj; cases hpj
    · rw [getElem?_set_ne' hji] at hj
      by_cases hnd : pc.isDone = true
      · cases hk with
        | idle hd hs hp => subst hs; exact h.mid j pj hj hpj
        | acquire _ hd => rw [hnd] at hd; cases hd
        | body hh => rw [Pc.not_holds_of_isDone hnd] at hh; cases hh
        | release hr => have := Pc.holds_of_isRelease hr; rw [Pc.not_holds_of_isDone hnd] at this; cases this
      · have := h.bits.other_outside hpc hj hji hk (by simpa using hnd)
        rw [this] at hpj; cases hpj

/-- A configuration in which nobody is inside a section, the lock is free and the cache is in order. -/
theorem lockInv_init {MAX CLEAR : Nat} {s : LSys K V} (hfree : s.sh.held = false) (hi : Inv MAX s.sh.cache)
    (hout : ∀ pc ∈ s.pcs, pc.holds = false) : LockInv MAX CLEAR s := by
  have hno : ∀ (i : Nat) (pc : Pc K V), s.pcs[i]? = some pc → pc.holds = true → False := by
    intro i pc hpc hh
    have := hout pc (List.mem_of_getElem? hpc)
    rw [this] at hh; cases hh
  refine ⟨?_, ?_, fun _ => hi, ?_⟩
  · intro i j pi pj hi' _ hpi _; exact (hno i pi hi' hpi).elim
  · constructor
    · intro hh; rw [hfree] at hh; cases hh
    · rintro ⟨i, pc, hpc, hh⟩; exact (hno i pc hpc hh).elim
  · intro i pc hpc hh; exact (hno i pc hpc hh).elim

theorem lockInv_run {MAX CLEAR : Nat} (hb : CLEAR < MAX) (sched : List Nat) :
    ∀ s : LSys K V, LockInv MAX CLEAR s → LockInv MAX CLEAR (lsysRun MAX CLEAR s sched) := by
  unfold lsysRun lsysRunG
  induction sched with
  | nil => intro s h; exact h
  | cons i rest ih =>
    intro s h
    rw [List.foldl_cons]
    apply ih
    cases hs : lsysStepG true MAX CLEAR s i with
    | none => exact h
    | some s' => exact lockInv_step hb h hs

end AHP.Cache
