/-
  AHP.Lemmas.AttrsDict — lemmas about the insertion-ordered association list that models a Python dict
  (`aget`, `aset`, `adel`, `akeys` of AHP/Model/Attrs.lean).
-/
import AHP.Model.Attrs
namespace AHP.Attrs
open AHP

variable {α : Type}

theorem aget_aset_same (k : Str) (v : α) : ∀ d : AL α, aget k (aset k v d) = some v
  | [] => by simp [aset, aget]
  | (k', v') :: r => by
    unfold aset
    by_cases h : k' = k
    · simp [h, aget]
    · simp [h, aget, aget_aset_same k v r]

theorem aget_aset_ne {k k' : Str} (h : k' ≠ k) (v : α) : ∀ d : AL α, aget k' (aset k v d) = aget k' d
  | [] => by simp [aset, aget, Ne.symm h]
  | (k0, v0) :: r => by
    unfold aset
    by_cases h0 : k0 = k
    · subst h0
      simp [aget, Ne.symm h]
    · simp only [h0, if_false, aget]
      rw [aget_aset_ne h v r]

theorem adel_nil (k : Str) : adel k ([] : AL α) = [] := rfl

theorem adel_cons_same (k : Str) (v : α) (r : AL α) : adel k ((k, v) :: r) = adel k r := by
  simp [adel, List.filter]

theorem adel_cons_ne {k k0 : Str} (h : k0 ≠ k) (v : α) (r : AL α) : adel k ((k0, v) :: r) = (k0, v) :: adel k r := by
  simp [adel, List.filter, h]

theorem aget_adel_same (k : Str) : ∀ d : AL α, aget k (adel k d) = none
  | [] => by simp [adel_nil, aget]
  | (k0, v0) :: r => by
    by_cases h0 : k0 = k
    · subst h0; rw [adel_cons_same]; exact aget_adel_same _ r
    · rw [adel_cons_ne h0]; simp [aget, h0, aget_adel_same k r]

theorem aget_adel_ne {k k' : Str} (h : k' ≠ k) : ∀ d : AL α, aget k' (adel k d) = aget k' d
  | [] => by simp [adel_nil]
  | (k0, v0) :: r => by
    by_cases h0 : k0 = k
    · subst h0; rw [adel_cons_same, aget_adel_ne h r]; simp [aget, Ne.symm h]
    · rw [adel_cons_ne h0]; simp [aget, aget_adel_ne h r]

theorem aget_eq_none_iff {k : Str} : ∀ {d : AL α}, aget k d = none ↔ k ∉ akeys d
  | [] => by simp [aget, akeys]
  | (k0, v0) :: r => by
    have ih := aget_eq_none_iff (k := k) (d := r)
    unfold aget
    by_cases h0 : k0 = k
    · simp [h0, akeys]
    · simp only [h0, if_false, ih, akeys, List.map_cons, List.mem_cons, not_or]
      exact ⟨fun h => ⟨fun e => h0 e.symm, h⟩, fun h => h.2⟩

theorem ahas_iff_mem {k : Str} {d : AL α} : ahas k d = true ↔ k ∈ akeys d := by
  unfold ahas
  rw [Option.isSome_iff_ne_none, Ne, aget_eq_none_iff, Classical.not_not]

theorem ahas_eq_false_iff {k : Str} {d : AL α} : ahas k d = false ↔ k ∉ akeys d := by
  rw [← ahas_iff_mem]; simp

theorem aget_some_mem {k : Str} {v : α} : ∀ {d : AL α}, aget k d = some v → (k, v) ∈ d
  | [], h => by simp [aget] at h
  | (k0, v0) :: r, h => by
    unfold aget at h
    by_cases h0 : k0 = k
    · simp [h0] at h; simp [h0, h]
    · simp [h0] at h; exact List.mem_cons_of_mem _ (aget_some_mem h)

theorem aget_of_mem_nodup {k : Str} {v : α} : ∀ {d : AL α}, (akeys d).Nodup → (k, v) ∈ d → aget k d = some v
  | [], _, h => by simp at h
  | (k0, v0) :: r, hn, h => by
    have hn' : k0 ∉ akeys r ∧ (akeys r).Nodup := by simpa [akeys] using hn
    unfold aget
    rcases List.mem_cons.mp h with h | h
    · simp at h; simp [h.1, h.2]
    · by_cases h0 : k0 = k
      · subst h0
        exact absurd (List.mem_map_of_mem (f := fun p : Str × α => p.1) h) hn'.1
      · simp only [h0, if_false]
        exact aget_of_mem_nodup hn'.2 h

theorem mem_akeys_aset {k x : Str} (v : α) : ∀ {d : AL α}, x ∈ akeys (aset k v d) ↔ x = k ∨ x ∈ akeys d
  | [] => by simp [aset, akeys]
  | (k0, v0) :: r => by
    have ih := mem_akeys_aset (k := k) (x := x) v (d := r)
    unfold aset
    by_cases h0 : k0 = k
    · subst h0
      simp [akeys]
    · simp only [h0, if_false, akeys, List.map_cons, List.mem_cons] at ih ⊢
      rw [ih]
      constructor
      · rintro (h | h | h)
        · exact Or.inr (Or.inl h)
        · exact Or.inl h
        · exact Or.inr (Or.inr h)
      · rintro (h | h | h)
        · exact Or.inr (Or.inl h)
        · exact Or.inl h
        · exact Or.inr (Or.inr h)

theorem nodup_aset (k : Str) (v : α) : ∀ {d : AL α}, (akeys d).Nodup → (akeys (aset k v d)).Nodup
  | [], _ => by simp [aset, akeys]
  | (k0, v0) :: r, hn => by
    have hn' : k0 ∉ akeys r ∧ (akeys r).Nodup := by simpa [akeys] using hn
    unfold aset
    by_cases h0 : k0 = k
    · subst h0
      simpa [akeys] using hn
    · simp only [h0, if_false, akeys, List.map_cons, List.nodup_cons]
      refine ⟨?_, nodup_aset k v hn'.2⟩
      intro hm
      rcases (mem_akeys_aset v).mp hm with h | h
      · exact h0 h
      · exact hn'.1 h

theorem mem_aset {k : Str} {v : α} {p : Str × α} : ∀ {d : AL α}, p ∈ aset k v d → p = (k, v) ∨ p ∈ d
  | [], h => by simp [aset] at h; exact Or.inl h
  | (k0, v0) :: r, h => by
    unfold aset at h
    by_cases h0 : k0 = k
    · subst h0
      simp only [if_true] at h
      rcases List.mem_cons.mp h with h | h
      · exact Or.inl h
      · exact Or.inr (List.mem_cons_of_mem _ h)
    · simp only [h0, if_false] at h
      rcases List.mem_cons.mp h with h | h
      · subst h
        exact Or.inr (by simp)
      · rcases mem_aset h with h | h
        · exact Or.inl h
        · exact Or.inr (List.mem_cons_of_mem _ h)

theorem mem_adel {k : Str} {p : Str × α} {d : AL α} : p ∈ adel k d ↔ p ∈ d ∧ p.1 ≠ k := by
  simp [adel, List.mem_filter]

theorem nodup_adel (k : Str) {d : AL α} (h : (akeys d).Nodup) : (akeys (adel k d)).Nodup := by
  unfold akeys adel at *
  exact List.Nodup.sublist (List.Sublist.map _ List.filter_sublist) h

theorem mem_akeys_adel {k x : Str} {d : AL α} : x ∈ akeys (adel k d) ↔ x ∈ akeys d ∧ x ≠ k := by
  unfold akeys
  simp only [List.mem_map]
  constructor
  · rintro ⟨p, hp, rfl⟩
    have := mem_adel.mp hp
    exact ⟨⟨p, this.1, rfl⟩, this.2⟩
  · rintro ⟨⟨p, hp, rfl⟩, hne⟩
    exact ⟨p, mem_adel.mpr ⟨hp, hne⟩, rfl⟩

theorem ahas_aset_same (k : Str) (v : α) (d : AL α) : ahas k (aset k v d) = true := by
  simp [ahas, aget_aset_same]

theorem ahas_aset_ne {k k' : Str} (h : k' ≠ k) (v : α) (d : AL α) : ahas k' (aset k v d) = ahas k' d := by
  simp [ahas, aget_aset_ne h]

theorem ahas_adel_same (k : Str) (d : AL α) : ahas k (adel k d) = false := by
  simp [ahas, aget_adel_same]

theorem ahas_adel_ne {k k' : Str} (h : k' ≠ k) (d : AL α) : ahas k' (adel k d) = ahas k' d := by
  simp [ahas, aget_adel_ne h]

end AHP.Attrs
