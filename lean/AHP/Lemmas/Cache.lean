/-
  Helper lemmas for C15: the recency list / map invariant of the compiled-expression cache.
-/
import AHP.Model.Cache
namespace AHP.Cache

variable {K V : Type} [DecidableEq K]

/-! ### the remove-all loop is a filter -/

theorem filter_erase_self (k : K) (l : List K) :
    (l.erase k).filter (fun x => !decide (x = k)) = l.filter (fun x => !decide (x = k)) := by
  induction l with
  | nil => rfl
  | cons a t ih =>
    by_cases h : a = k
    · subst h; simp
    · have h' : (a == k) = false := by simpa using h
      rw [List.erase_cons, h']
      simp only [Bool.false_eq_true, ite_false, List.filter_cons, h, decide_false, Bool.not_false, ite_true, ih]

theorem filter_ne_of_not_mem {k : K} {l : List K} (h : k ∉ l) :
    l.filter (fun x => !decide (x = k)) = l := by
  apply List.filter_eq_self.mpr
  intro a ha
  have : ¬ a = k := by intro e; subst e; exact h ha
  simp [this]

theorem removeLoop_eq (fuel : Nat) (k : K) (l : List K) (h : l.length ≤ fuel) :
    removeLoop fuel k l = l.filter (fun x => !decide (x = k)) := by
  induction fuel generalizing l with
  | zero =>
    have : l = [] := List.length_eq_zero_iff.mp (Nat.le_zero.mp h)
    subst this; rfl
  | succ f ih =>
    unfold removeLoop
    split
    · rename_i hm
      rw [ih, filter_erase_self]
      rw [List.length_erase_of_mem hm]
      omega
    · rename_i hm
      exact (filter_ne_of_not_mem hm).symm

/-- The `while True: try: remove(k) except ValueError: break` loop removes every occurrence. -/
theorem removeAll_eq (k : K) (l : List K) : removeAll k l = l.filter (fun x => !decide (x = k)) :=
  removeLoop_eq _ k l (Nat.le_refl _)

theorem mem_removeAll {k x : K} {l : List K} : x ∈ removeAll k l ↔ x ∈ l ∧ x ≠ k := by
  rw [removeAll_eq]; simp

theorem nodup_removeAll {k : K} {l : List K} (h : l.Nodup) : (removeAll k l).Nodup := by
  rw [removeAll_eq]; exact h.filter _

theorem length_removeAll_le (k : K) (l : List K) : (removeAll k l).length ≤ l.length := by
  rw [removeAll_eq]; exact List.length_filter_le _ _

theorem length_filter_ne_of_mem {k : K} {l : List K} (hn : l.Nodup) (hm : k ∈ l) :
    (l.filter (fun x => !decide (x = k))).length + 1 = l.length := by
  induction l with
  | nil => cases hm
  | cons a t ih =>
    have ⟨ha, ht⟩ := List.nodup_cons.mp hn
    by_cases h : a = k
    · subst h
      have : t.filter (fun x => !decide (x = a)) = t := filter_ne_of_not_mem ha
      rw [List.filter_cons]
      simp only [decide_true, Bool.not_true, Bool.false_eq_true, ite_false, this, List.length_cons]
    · have hk : k ∈ t := by
        rcases List.mem_cons.mp hm with e | e
        · exact absurd e.symm h
        · exact e
      rw [List.filter_cons]
      simp only [h, decide_false, Bool.not_false, ite_true, List.length_cons, ih ht hk]

theorem length_removeAll_of_mem {k : K} {l : List K} (hn : l.Nodup) (hm : k ∈ l) :
    (removeAll k l).length + 1 = l.length := by
  rw [removeAll_eq]; exact length_filter_ne_of_mem hn hm

/-- remove-all-then-append: the touched key becomes the hottest, the list stays duplicate-free. -/
theorem nodup_touch {k : K} {l : List K} (h : l.Nodup) : (removeAll k l ++ [k]).Nodup := by
  rw [List.nodup_append]
  refine ⟨nodup_removeAll h, by simp, ?_⟩
  intro a ha b hb
  have := (mem_removeAll.mp ha).2
  rw [List.mem_singleton.mp hb]
  exact this

theorem mem_touch {k x : K} {l : List K} : x ∈ removeAll k l ++ [k] ↔ x ∈ l ∨ x = k := by
  rw [List.mem_append, mem_removeAll, List.mem_singleton]
  by_cases h : x = k
  · simp [h]
  · simp [h]

theorem length_touch_le (k : K) (l : List K) : (removeAll k l ++ [k]).length ≤ l.length + 1 := by
  rw [List.length_append]
  have := length_removeAll_le k l
  simp
  omega

/-! ### dict -/

theorem dictGet_eq_none_iff {d : List (K × V)} {k : K} : dictGet d k = none ↔ k ∉ dictKeys d := by
  induction d with
  | nil => simp [dictGet, dictKeys]
  | cons p rest ih =>
    obtain ⟨k', v⟩ := p
    unfold dictGet
    by_cases h : k' = k
    · subst h; simp [dictKeys]
    · have h2 : ¬ k = k' := fun e => h e.symm
      simp only [h, ite_false, ih, dictKeys, List.map_cons, List.mem_cons, h2, false_or]

theorem dictGet_isSome_iff {d : List (K × V)} {k : K} : (dictGet d k).isSome ↔ k ∈ dictKeys d := by
  have := @dictGet_eq_none_iff K V _ d k
  cases hg : dictGet d k with
  | none => rw [hg] at this; simp only [true_iff] at this; simp [this]
  | some v =>
    rw [hg] at this
    simp only [reduceCtorEq, false_iff, Classical.not_not] at this
    simp [this]

theorem mem_keys_of_get {d : List (K × V)} {k : K} {v : V} (h : dictGet d k = some v) : k ∈ dictKeys d := by
  apply dictGet_isSome_iff.mp; simp [h]

theorem dictGet_dictSet (d : List (K × V)) (k : K) (v : V) (k2 : K) :
    dictGet (dictSet d k v) k2 = if k = k2 then some v else dictGet d k2 := by
  induction d with
  | nil => simp [dictSet, dictGet]
  | cons p rest ih =>
    obtain ⟨k', v'⟩ := p
    unfold dictSet
    by_cases h : k' = k
    · subst h
      simp only [ite_true, dictGet]
      by_cases h2 : k' = k2
      · simp [h2]
      · simp [h2]
    · simp only [h, ite_false, dictGet, ih]
      by_cases h2 : k' = k2
      · subst h2
        have : ¬ k = k' := fun e => h e.symm
        simp [this]
      · simp [h2]

theorem keys_dictSet (d : List (K × V)) (k : K) (v : V) (x : K) :
    x ∈ dictKeys (dictSet d k v) ↔ x ∈ dictKeys d ∨ x = k := by
  rw [← dictGet_isSome_iff, ← dictGet_isSome_iff, dictGet_dictSet]
  by_cases h : k = x
  · subst h; simp
  · have : ¬ x = k := fun e => h e.symm
    simp [h, this]

theorem nodup_keys_dictSet {d : List (K × V)} (k : K) (v : V) (h : (dictKeys d).Nodup) :
    (dictKeys (dictSet d k v)).Nodup := by
  induction d with
  | nil => simp [dictSet, dictKeys]
  | cons p rest ih =>
    obtain ⟨k', v'⟩ := p
    have ⟨h1, h2⟩ := List.nodup_cons.mp (by simpa [dictKeys] using h : (k' :: dictKeys rest).Nodup)
    unfold dictSet
    by_cases e : k' = k
    · subst e
      simpa [dictKeys] using h
    · simp only [e, ite_false]
      have : (k' :: dictKeys (dictSet rest k v)).Nodup := by
        refine List.nodup_cons.mpr ⟨?_, ih h2⟩
        intro hm
        rcases (keys_dictSet rest k v k').mp hm with hm | hm
        · exact h1 hm
        · exact e hm
      simpa [dictKeys] using this

theorem dictGet_dictDel (d : List (K × V)) (k k2 : K) :
    dictGet (dictDel d k) k2 = if k2 = k then none else dictGet d k2 := by
  induction d with
  | nil => simp [dictDel, dictGet]
  | cons p rest ih =>
    obtain ⟨k', v'⟩ := p
    unfold dictDel at ih ⊢
    by_cases h : k' = k
    · subst h
      simp only [List.filter_cons, decide_true, Bool.not_true, Bool.false_eq_true, ite_false, ih]
      by_cases h2 : k2 = k'
      · simp [h2]
      · have : ¬ k' = k2 := fun e => h2 e.symm
        simp [h2, dictGet, this]
    · simp only [List.filter_cons, h, decide_false, Bool.not_false, ite_true, dictGet, ih]
      by_cases h2 : k' = k2
      · subst h2; simp [h]
      · simp [h2]

theorem dictGet_foldl_dictDel (ks : List K) (d : List (K × V)) (k2 : K) :
    dictGet (ks.foldl dictDel d) k2 = if k2 ∈ ks then none else dictGet d k2 := by
  induction ks generalizing d with
  | nil => simp
  | cons k ks ih =>
    rw [List.foldl_cons, ih, dictGet_dictDel]
    by_cases h1 : k2 ∈ ks
    · simp [h1]
    · by_cases h2 : k2 = k
      · simp [h2]
      · simp [h1, h2]

theorem keys_dictDel (d : List (K × V)) (k : K) :
    dictKeys (dictDel d k) = (dictKeys d).filter (fun x => !decide (x = k)) := by
  induction d with
  | nil => rfl
  | cons p rest ih =>
    unfold dictDel dictKeys at ih ⊢
    by_cases h : p.1 = k
    · simp only [List.filter_cons, h, decide_true, Bool.not_true, Bool.false_eq_true, ite_false, List.map_cons, ih]
    · simp only [List.filter_cons, h, decide_false, Bool.not_false, ite_true, List.map_cons, ih]

theorem nodup_keys_foldl_dictDel (ks : List K) {d : List (K × V)} (h : (dictKeys d).Nodup) :
    (dictKeys (ks.foldl dictDel d)).Nodup := by
  induction ks generalizing d with
  | nil => exact h
  | cons k ks ih =>
    rw [List.foldl_cons]
    apply ih
    rw [keys_dictDel]
    exact h.filter _

theorem mem_keys_foldl_dictDel (ks : List K) (d : List (K × V)) (x : K) :
    x ∈ dictKeys (ks.foldl dictDel d) ↔ x ∈ dictKeys d ∧ x ∉ ks := by
  rw [← dictGet_isSome_iff, dictGet_foldl_dictDel, ← dictGet_isSome_iff]
  by_cases h : x ∈ ks
  · simp [h]
  · simp [h]

/-! ### Python slices used by the eviction -/

theorem sliceTo_eq_take (l : List α) (j : Nat) : sliceTo l (j : Int) = l.take j := by
  unfold sliceTo
  have : ¬ ((j : Int) < 0) := by omega
  simp [this]

/-- `l[-r:]` with `0 < r ≤ len`: the last `r` elements. -/
theorem sliceFrom_neg (l : List α) (r : Nat) (h0 : 0 < r) (h1 : r ≤ l.length) :
    sliceFrom l (-1 * (r : Int)) = l.drop (l.length - r) := by
  unfold sliceFrom
  have h : (-1 * (r : Int)) < 0 := by omega
  simp only [h, ite_true]
  congr 1
  omega

/-- `l[-0:]` is the whole list (the reason `CLEAR = MAX` breaks the cache). -/
theorem sliceFrom_neg_zero (l : List α) : sliceFrom l (-1 * (0 : Int)) = l := by
  simp [sliceFrom]


/-! ### The invariant of the cache object -/

/-- The structural invariant C15a: duplicate-free recency list, keys of the map = recency list (as
    sets), at most `MAX` entries.  (`keysNodup` is Python's dict: a key occurs once.) -/
structure Inv (MAX : Nat) (s : State K V) : Prop where
  nodup : s.recent.Nodup
  keysNodup : (dictKeys s.map).Nodup
  keys : ∀ k, k ∈ dictKeys s.map ↔ k ∈ s.recent
  bound : s.recent.length ≤ MAX

theorem Inv.empty (MAX : Nat) : Inv MAX (State.empty : State K V) :=
  ⟨List.nodup_nil, List.nodup_nil, fun _ => Iff.rfl, Nat.zero_le _⟩

/-- Number of keys in the map = length of the recency list, hence also `≤ MAX`. -/
theorem Inv.keys_length {MAX : Nat} {s : State K V} (h : Inv MAX s) :
    (dictKeys s.map).length = s.recent.length := by
  apply Nat.le_antisymm
  · exact h.keysNodup.length_le_of_subset (fun k hk => (h.keys k).mp hk)
  · exact h.nodup.length_le_of_subset (fun k hk => (h.keys k).mpr hk)

theorem get_fst_map (s : State K V) (k : K) : (get s k).1.map = s.map := by
  unfold get; split <;> rfl

theorem get_snd (s : State K V) (k : K) : (get s k).2 = dictGet s.map k := by
  unfold get; split <;> simp_all

theorem get_inv {MAX : Nat} {s : State K V} (h : Inv MAX s) (k : K) : Inv MAX (get s k).1 := by
  unfold get
  split
  · exact h
  · rename_i v hv
    have hk : k ∈ s.recent := (h.keys k).mp (mem_keys_of_get hv)
    refine ⟨nodup_touch h.nodup, h.keysNodup, ?_, ?_⟩
    · intro x
      show x ∈ dictKeys s.map ↔ x ∈ removeAll k s.recent ++ [k]
      rw [mem_touch, h.keys]
      constructor
      · exact Or.inl
      · rintro (a | rfl)
        · exact a
        · exact hk
    · show (removeAll k s.recent ++ [k]).length ≤ MAX
      have := length_removeAll_of_mem h.nodup hk
      have := h.bound
      simp only [List.length_append, List.length_singleton]
      omega

/-- The general eviction step: drop the `j` oldest keys from the map, keep the rest of the list. -/
theorem evict_inv {r : List K} {m : List (K × V)} (hn : r.Nodup) (hkn : (dictKeys m).Nodup)
    (hk : ∀ k, k ∈ dictKeys m ↔ k ∈ r) (j : Nat) :
    (r.drop j).Nodup ∧ (dictKeys ((r.take j).foldl dictDel m)).Nodup ∧
    ∀ k, k ∈ dictKeys ((r.take j).foldl dictDel m) ↔ k ∈ r.drop j := by
  refine ⟨(List.drop_sublist j r).nodup hn, nodup_keys_foldl_dictDel _ hkn, ?_⟩
  intro k
  rw [mem_keys_foldl_dictDel, hk]
  have hsplit : r.take j ++ r.drop j = r := List.take_append_drop j r
  have hdis : ∀ a, a ∈ r.take j → a ∈ r.drop j → False := by
    rw [← hsplit] at hn
    intro a h1 h2
    exact (List.nodup_append.mp hn).2.2 a h1 a h2 rfl
  constructor
  · intro ⟨h1, h2⟩
    rw [← hsplit] at h1
    rcases List.mem_append.mp h1 with h | h
    · exact absurd h h2
    · exact h
  · intro h
    exact ⟨List.mem_of_mem_drop h, fun h' => hdis k h' h⟩

theorem set_inv {MAX CLEAR : Nat} (hb : CLEAR < MAX) {s : State K V} (h : Inv MAX s) (k : K) (v : V) :
    Inv MAX (set MAX CLEAR s k v) := by
  have hn1 : (removeAll k s.recent ++ [k]).Nodup := nodup_touch h.nodup
  have hkn1 : (dictKeys (dictSet s.map k v)).Nodup := nodup_keys_dictSet k v h.keysNodup
  have hk1 : ∀ x, x ∈ dictKeys (dictSet s.map k v) ↔ x ∈ removeAll k s.recent ++ [k] := by
    intro x; rw [keys_dictSet, mem_touch, h.keys]
  have hl1 : (removeAll k s.recent ++ [k]).length ≤ MAX + 1 := by
    have := length_touch_le k s.recent
    have := h.bound
    omega
  unfold set
  simp only
  split
  · rename_i hgt
    -- eviction: `MAX - CLEAR` is positive and at most the length
    obtain ⟨rem, hrem⟩ : ∃ rem : Nat, rem = MAX - CLEAR := ⟨_, rfl⟩
    have hrem0 : 0 < rem := by omega
    have hremI : ((MAX : Int) - (CLEAR : Int)) = (rem : Int) := by omega
    generalize hr1 : removeAll k s.recent ++ [k] = r1 at *
    have hlen : rem ≤ r1.length := by omega
    rw [hremI]
    have hto : ((r1.length : Int) - (rem : Int)) = ((r1.length - rem : Nat) : Int) := by omega
    rw [hto, sliceTo_eq_take, sliceFrom_neg r1 rem hrem0 hlen]
    obtain ⟨a, b, c⟩ := evict_inv hn1 hkn1 hk1 (r1.length - rem)
    refine ⟨a, b, c, ?_⟩
    show (r1.drop (r1.length - rem)).length ≤ MAX
    rw [List.length_drop]
    omega
  · rename_i hle
    exact ⟨hn1, hkn1, hk1, by simp only [gt_iff_lt, Nat.not_lt] at hle; exact hle⟩

/-! ### Coherence: what the map holds under a key is what compiling gives -/

/-- Every stored value is the compiled form of every expression with that key. -/
def Coh {E : Type} (compile : E → Option V) (key : E → K) (s : State K V) : Prop :=
  ∀ e v, dictGet s.map (key e) = some v → compile e = some v

theorem Coh.empty {E : Type} (compile : E → Option V) (key : E → K) :
    Coh compile key (State.empty : State K V) := by
  intro e v h; simp [State.empty, dictGet] at h

theorem get_coh {E : Type} {compile : E → Option V} {key : E → K} {s : State K V}
    (h : Coh compile key s) (k : K) : Coh compile key (get s k).1 := by
  intro e v hv; rw [get_fst_map] at hv; exact h e v hv

theorem set_coh {E : Type} {compile : E → Option V} {key : E → K} (hinj : Function.Injective key)
    {MAX CLEAR : Nat} {s : State K V} (h : Coh compile key s) (e : E) (v : V) (hc : compile e = some v) :
    Coh compile key (set MAX CLEAR s (key e) v) := by
  have h1 : ∀ e' v', dictGet (dictSet s.map (key e) v) (key e') = some v' → compile e' = some v' := by
    intro e' v' hv
    rw [dictGet_dictSet] at hv
    by_cases he : key e = key e'
    · have := hinj he; subst this
      simp only [ite_true, Option.some.injEq] at hv
      rw [← hv]; exact hc
    · simp only [he, ite_false] at hv
      exact h e' v' hv
  unfold set
  simp only
  split
  · intro e' v' hv
    simp only [dictGet_foldl_dictDel] at hv
    split at hv
    · cases hv
    · exact h1 e' v' hv
  · exact h1

end AHP.Cache
