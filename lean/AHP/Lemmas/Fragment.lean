/-
  AHP.Lemmas.Fragment — facts about the fragment constructors: the loop of `removeChildren` on the
  invisible wrapper hands out exactly its element blocks, detached, in order.
-/
import AHP.Model.Fragment
import AHP.Lemmas.DomHtml
namespace AHP.Dom

def detach (b : DN) : DN := reown none (setParent none b)

theorem removeFirstEl_head (c : Nat) (cs : List Nat) (bs : List DN) (h : elemIds bs = c :: cs) :
    ∃ x bs', removeFirstEl c bs = some (x, bs') ∧ elemIds bs' = cs ∧ bs.filter DN.isEl = x :: bs'.filter DN.isEl := by
  induction bs with
  | nil => simp at h
  | cons b bs ih =>
    cases b with
    | text s =>
      obtain ⟨x, bs', h1, h2, h3⟩ := ih (by simpa using h)
      exact ⟨x, .text s :: bs', by simp [removeFirstEl, h1], by simpa using h2, by simp [List.filter, DN.isEl, h3]⟩
    | el m k =>
      simp only [elemIds_el, List.cons.injEq] at h
      exact ⟨.el m k, bs, by simp [removeFirstEl, h.1], h.2, by simp [List.filter, DN.isEl]⟩

/-- `removeChildren(list(children))` on an element whose children mirror its element blocks returns
    every element block, detached, in order. -/
theorem locRemoveChildren_all (cs : List Nat) (m : Meta) (bs : List DN) (hc : m.children = cs) (he : elemIds bs = cs)
    (hn : cs.Nodup) : locRemoveChildren cs m bs = (bs.filter DN.isEl).map (fun b => some (detach b)) := by
  induction cs generalizing m bs with
  | nil =>
    have : bs.filter DN.isEl = [] := by
      induction bs with
      | nil => rfl
      | cons b bs ih => cases b <;> simp_all [List.filter, DN.isEl]
    simp [locRemoveChildren, this]
  | cons c cs ih =>
    obtain ⟨x, bs', h1, h2, h3⟩ := removeFirstEl_head c cs bs he
    simp only [List.nodup_cons] at hn
    have hloc : (locRemoveChild c m bs).1 = some ⟨{ m with children := m.children.erase c }, bs', [detach x]⟩ := by
      simp [locRemoveChild, hc, h1, detach]
    simp only [locRemoveChildren, hloc, h3, List.map_cons, List.head?_cons]
    congr 1
    exact ih _ bs' (by simp [hc]) h2 hn.2

end AHP.Dom
