/-
  C07 with repeated class names (`class="a a"`).

  `_indexClassName` appends the element to `_classNameMap[c]` once per occurrence of `c` in `tag.classNames`,
  so the entry is `classU c` (Lemmas/IndexInv.lean): the elements in creation order, each repeated.  The indexed
  `getElementsByClassName` filters that list (other names, `_hasTagInParentLine`) and hands it to
  `TagCollection(...)`, which keeps the first occurrence of every uid.  This file shows that what comes out is
  the list of matching elements, each once, in document order — for every document with distinct uids.
-/
import AHP.Lemmas.IndexInv
namespace AHP.G3
open Idx

/-- the resolved entry: every node once per occurrence of `c` in its class list -/
def classRep (c : Str) (ns : List Node) : List Node := ns.flatMap (fun n => List.replicate (n.elem.classes.count c) n)

theorem classRep_nil (c : Str) : classRep c [] = [] := rfl

theorem classRep_cons (c : Str) (n : Node) (ns : List Node) :
    classRep c (n :: ns) = List.replicate (n.elem.classes.count c) n ++ classRep c ns := by
  simp [classRep, List.flatMap_cons]

theorem uidsOf_classRep (c : Str) (ns : List Node) :
    uidsOf (classRep c ns) = classU c (ns.map Node.elem) := by
  induction ns with
  | nil => rfl
  | cons n ns ih =>
    rw [classRep_cons]
    simp only [uidsOf, List.map_append, List.map_replicate, List.map_cons, classU, List.flatMap_cons] at ih ⊢
    rw [ih]
    rfl

theorem classU_creationOrder (c : Str) (doc : Node) :
    classU c (creationOrder doc) = uidsOf (classRep c doc.preorder) := by
  rw [creationOrder_eq, uidsOf_classRep]

theorem mem_classRep {c : Str} {ns : List Node} {y : Node} (h : y ∈ classRep c ns) : y ∈ ns := by
  simp only [classRep, List.mem_flatMap] at h
  obtain ⟨n, hn, hy⟩ := h
  rw [(List.mem_replicate.mp hy).2]
  exact hn

/-- resolving the class entry in a document with distinct uids gives the repeated node list -/
theorem resolve_classRep {doc : Node} (hd : doc.Distinct) (c : Str) :
    resolve doc (classU c (creationOrder doc)) = classRep c doc.preorder := by
  rw [classU_creationOrder]
  exact resolve_uids hd (fun y hy => mem_classRep hy)

theorem filter_replicate_node (g : Node → Bool) (k : Nat) (n : Node) :
    (List.replicate k n).filter g = if g n then List.replicate k n else [] := by
  induction k with
  | zero => simp
  | succ k ih =>
    rw [List.replicate_succ, List.filter_cons, ih]
    cases g n <;> simp

/-- a filter on the repeated list is the repeated list of the filtered nodes -/
theorem filter_classRep (c : Str) (g : Node → Bool) (ns : List Node) :
    (classRep c ns).filter g = classRep c (ns.filter g) := by
  induction ns with
  | nil => rfl
  | cons n ns ih =>
    rw [classRep_cons, List.filter_append, ih, filter_replicate_node, List.filter_cons]
    cases hg : g n
    · simp
    · simp [classRep_cons]

theorem dedupN_replicate_seen (seen : List Nat) (k : Nat) (n : Node) (rest : List Node) (h : n.uid ∈ seen) :
    dedupN seen (List.replicate k n ++ rest) = dedupN seen rest := by
  induction k with
  | zero => simp
  | succ k ih =>
    rw [List.replicate_succ, List.cons_append]
    simp only [dedupN, h, if_true]
    exact ih

/-- `TagCollection(...)` of the repeated list: every node with the class once, in order -/
theorem dedupN_classRep (c : Str) : ∀ (ns : List Node) (seen : List Nat), (uidsOf ns).Nodup →
    (∀ x ∈ ns, x.uid ∉ seen) → dedupN seen (classRep c ns) = fil (pClass c) ns
  | [], _, _, _ => rfl
  | n :: ns, seen, hn, hs => by
    simp only [uidsOf, List.map_cons] at hn
    have hn' := List.nodup_cons.mp hn
    have hnot : n.uid ∉ seen := hs n List.mem_cons_self
    rw [classRep_cons, fil_cons]
    by_cases hc : c ∈ n.elem.classes
    · have hp : pClass c n.elem = true := by simp [pClass, Elem.hasClass, hc]
      have hk : 0 < n.elem.classes.count c := List.count_pos_iff.mpr hc
      obtain ⟨k, hk'⟩ : ∃ k, n.elem.classes.count c = k + 1 := ⟨n.elem.classes.count c - 1, by omega⟩
      rw [hk', List.replicate_succ, List.cons_append]
      simp only [dedupN, hnot, if_false, hp, if_true, List.cons_append, List.nil_append]
      congr 1
      rw [dedupN_replicate_seen _ _ _ _ List.mem_cons_self]
      apply dedupN_classRep c ns _ hn'.2
      intro x hx hmem
      rcases List.mem_cons.mp hmem with e | hm
      · exact hn'.1 (e ▸ List.mem_map_of_mem hx)
      · exact hs x (List.mem_cons_of_mem _ hx) hm
    · have hp : pClass c n.elem = false := by simp [pClass, Elem.hasClass, hc]
      have hk : n.elem.classes.count c = 0 := List.count_eq_zero.mpr hc
      rw [hk]
      simp only [List.replicate_zero, List.nil_append, hp, Bool.false_eq_true, if_false]
      exact dedupN_classRep c ns seen hn'.2 (fun x hx => hs x (List.mem_cons_of_mem _ hx))

/-- The answer of the class index, filtered in any way and wrapped in a `TagCollection`, is the filtered list of
    the elements carrying the class, each once, in document order. -/
theorem ofList_classRep_filter {ns : List Node} (hn : (uidsOf ns).Nodup) (c : Str) (g : Node → Bool) :
    (TC.ofList ((classRep c ns).filter g)).items = (fil (pClass c) ns).filter g := by
  have hsub : (uidsOf (ns.filter g)).Nodup := uids_nodup_of_sublist List.filter_sublist hn
  rw [filter_classRep, (TC.ofList_spec _).2, dedupN_classRep c _ [] hsub (by simp)]
  simp only [fil, List.filter_filter]
  apply List.filter_congr
  intro x _
  exact Bool.and_comm _ _

theorem restrict_eq_filter (doc : Node) (isRoot : Bool) (r : Node) (xs : List Node) :
    restrict doc isRoot r xs = xs.filter (fun x => isRoot || hasTagInParentLine doc x.uid r) := by
  cases isRoot
  · simp [restrict]
  · simp only [restrict, if_true, Bool.true_or]
    exact (List.filter_eq_self.mpr (fun _ _ => rfl)).symm

theorem optFilter_eq_filter (b : Bool) (q : Node → Bool) (xs : List Node) :
    (if b then xs else xs.filter q) = xs.filter (fun x => b || q x) := by
  cases b
  · simp
  · simp only [if_true, Bool.true_or]
    exact (List.filter_eq_self.mpr (fun _ _ => rfl)).symm

/-- The index path of `getElementsByClassName`, with the entry as the code keeps it (repeats included), answers
    what it would answer from a duplicate-free entry. -/
theorem classPath_dedup {doc : Node} (hd : doc.Distinct) (c : Str) (rest : List Str) (isRoot : Bool) (r : Node) :
    (TC.ofList (restrict doc isRoot r
        (if rest.isEmpty then classRep c doc.preorder
         else (classRep c doc.preorder).filter (fun n => pAllClasses rest n.elem)))).items
      = (TC.ofList (restrict doc isRoot r
        (if rest.isEmpty then fil (pClass c) doc.preorder
         else (fil (pClass c) doc.preorder).filter (fun n => pAllClasses rest n.elem)))).items := by
  rw [optFilter_eq_filter, optFilter_eq_filter, restrict_eq_filter, restrict_eq_filter, List.filter_filter,
      List.filter_filter, ofList_classRep_filter hd]
  symm
  apply TC.ofList_items_of_nodup
  exact uids_nodup_of_sublist (List.filter_sublist.trans (fil_sublist _ _)) hd

end AHP.G3
