/-
  AHP.Lemmas.AttrsViews — what the synchronising readers see: lookups in the dict after `_handleClassAttr`,
  in `items()`, `getAttributesList()`, the rendered start tag and the attribute list read back from it;
  the class list / style map of an element constructed from an attribute list (`mk`).
-/
import AHP.Lemmas.AttrsInv
namespace AHP.Attrs
open AHP

/-! #### the dict after `_handleClassAttr` -/

theorem aget_class_sync (e : El) :
    aget classK (handleClassAttr e).dict = if e.cls.isEmpty then none else some (Slot.cls e.className) := by
  unfold handleClassAttr
  simp only
  have hne : classK ≠ styleK := classK_ne_styleK
  by_cases hs : e.sty.isEmpty = true <;> by_cases hc : e.cls.isEmpty = true <;>
    simp only [hs, hc, if_true, if_false, Bool.false_eq_true] <;>
    first
      | rw [aget_adel_ne hne, aget_adel_same]
      | rw [aget_adel_ne hne, aget_aset_same]
      | rw [aget_aset_ne hne, aget_adel_same]
      | rw [aget_aset_ne hne, aget_aset_same]

theorem aget_style_sync (e : El) :
    aget styleK (handleClassAttr e).dict = if e.sty.isEmpty then none else some Slot.sty := by
  unfold handleClassAttr
  simp only
  by_cases hs : e.sty.isEmpty = true <;>
    simp only [hs, if_true, if_false, Bool.false_eq_true] <;>
    first
      | rw [aget_adel_same]
      | rw [aget_aset_same]

theorem aget_other_sync (e : El) {k : Str} (hc : k ≠ classK) (hs : k ≠ styleK) :
    aget k (handleClassAttr e).dict = aget k e.dict := by
  unfold handleClassAttr
  simp only
  by_cases hs' : e.sty.isEmpty = true <;> by_cases hc' : e.cls.isEmpty = true <;>
    simp only [hs', hc', if_true, if_false, Bool.false_eq_true] <;>
    first
      | rw [aget_adel_ne hs, aget_adel_ne hc]
      | rw [aget_adel_ne hs, aget_aset_ne hc]
      | rw [aget_aset_ne hs, aget_adel_ne hc]
      | rw [aget_aset_ne hs, aget_aset_ne hc]

/-- `_handleClassAttr` is idempotent: a second reader sees what the first one left -/
theorem handleClassAttr_cls_sty (e : El) : (handleClassAttr e).cls = e.cls ∧ (handleClassAttr e).sty = e.sty ∧
    (handleClassAttr e).tag = e.tag ∧ (handleClassAttr e).sc = e.sc := ⟨rfl, rfl, rfl, rfl⟩

/-! #### lookups through mapped lists -/

theorem aget_map {α β : Type} (f : α → β) (k : Str) : ∀ d : AL α,
    aget k (d.map (fun p => (p.1, f p.2))) = (aget k d).map f
  | [] => rfl
  | (k0, v0) :: r => by
    simp only [List.map_cons, aget]
    by_cases h : k0 = k
    · simp [h]
    · simp [h, aget_map f k r]

theorem akeys_map {α β : Type} (f : α → β) (d : AL α) : akeys (d.map (fun p => (p.1, f p.2))) = akeys d := by
  unfold akeys
  rw [List.map_map]
  rfl

theorem items_fst (e : El) :
    (items e).1 = (handleClassAttr e).dict.map (fun p => (p.1, slotVal (handleClassAttr e) p.2)) := rfl

theorem items_snd (e : El) : (items e).2 = handleClassAttr e := rfl

theorem attrsList_fst (e : El) : (attrsList e).1 = (items e).1.map (fun p => (p.1, p.2.tostrOpt)) := rfl

theorem attrsList_snd (e : El) : (attrsList e).2 = handleClassAttr e := rfl

theorem keys_fst (e : El) : (keys e).1 = akeys (handleClassAttr e).dict := rfl

theorem akeys_items (e : El) : akeys (items e).1 = akeys (handleClassAttr e).dict := by
  rw [items_fst, akeys_map]

theorem akeys_attrsList (e : El) : akeys (attrsList e).1 = akeys (handleClassAttr e).dict := by
  rw [attrsList_fst, akeys_map, akeys_items]

theorem aget_items (e : El) (k : Str) :
    aget k (items e).1 = (aget k (handleClassAttr e).dict).map (slotVal (handleClassAttr e)) := by
  rw [items_fst, aget_map]

theorem aget_attrsList (e : El) (k : Str) :
    aget k (attrsList e).1 = ((aget k (handleClassAttr e).dict).map (slotVal (handleClassAttr e))).map PyVal.tostrOpt := by
  rw [attrsList_fst, aget_map, aget_items]

/-! #### the rendered start tag, read back -/

/-- what a parser reads back for one rendered attribute -/
def readBackVal (T : Tables) (k : Str) (v : PyVal) : Option Str :=
  match renderItem T (k, v) with
  | .bare _ => none
  | .quoted _ w => some (unescQ w)

def RItem.name : RItem → Str
  | .bare n => n
  | .quoted n _ => n

theorem renderItem_name (T : Tables) (p : Str × PyVal) : (renderItem T p).name = p.1 := by
  unfold renderItem
  split
  · rfl
  · simp only
    split <;> (split <;> rfl)

theorem readBack_map (T : Tables) : ∀ l : List (Str × PyVal),
    readBack (l.map (renderItem T)) = l.map (fun p => (p.1, readBackVal T p.1 p.2))
  | [] => rfl
  | (k, v) :: r => by
    have hn := renderItem_name T (k, v)
    simp only [List.map_cons]
    unfold readBackVal
    rcases hr : renderItem T (k, v) with n | ⟨n, w⟩
    · rw [hr] at hn; simp only [RItem.name] at hn
      simp only [readBack, readBack_map T r, hn, readBackVal]
    · rw [hr] at hn; simp only [RItem.name] at hn
      simp only [readBack, readBack_map T r, hn, readBackVal]

theorem startTagItems_fst (T : Tables) (e : El) : (startTagItems T e).1 = (items e).1.map (renderItem T) := rfl

theorem aget_readBack (T : Tables) (e : El) (k : Str) :
    aget k (readBack (startTagItems T e).1) = (aget k (items e).1).bind (fun v => some (readBackVal T k v)) := by
  rw [startTagItems_fst, readBack_map]
  induction (items e).1 with
  | nil => rfl
  | cons p r ih =>
    simp only [List.map_cons, aget]
    by_cases h : p.1 = k
    · simp [h]
    · simp [h, ih]

theorem akeys_readBack (T : Tables) (e : El) : akeys (readBack (startTagItems T e).1) = akeys (handleClassAttr e).dict := by
  rw [startTagItems_fst, readBack_map]
  have : akeys ((items e).1.map (fun p => (p.1, readBackVal T p.1 p.2))) = akeys (items e).1 := by
    unfold akeys; rw [List.map_map]; rfl
  rw [this, akeys_items]

/-! #### `mk`: the class list of an element constructed from an attribute list -/

theorem mapSet_cls_ne (T : Tables) {k : Str} (v : Option Str) (e : El) (h : lower k ≠ classK) :
    (mapSet T k v e).2.cls = e.cls := by
  unfold mapSet
  simp only
  split
  · rfl
  · split
    · dsimp only; unfold assignStyleFrom; exact assignStyle_cls _ _
    · rfl

theorem mapSet_cls_eq (T : Tables) {k : Str} (v : Option Str) (e : El) (h : lower k = classK) :
    (mapSet T k v e).2.cls = words (v.getD []) := by
  unfold mapSet
  simp only
  rw [h]
  have h1 : (!validName classK) = false := by decide
  have h2 : ¬ classK = styleK := classK_ne_styleK
  simp only [h1, h2, if_false, if_true, Bool.false_eq_true]
  rfl

/-- keys of a list as `AdvancedTag.__init__` accepts them unchanged -/
def GoodKeys (l : List (Str × Option Str)) : Prop :=
  (akeys l).Nodup ∧ ∀ p ∈ l, validName p.1 = true ∧ lower p.1 = p.1

theorem initStep_good (T : Tables) (e : El) (p : Str × Option Str) (hv : validName p.1 = true) (hl : lower p.1 = p.1) :
    initStep T e p = (mapSet T p.1 p.2 e).2 := by
  unfold initStep
  simp only [hl, hv, if_true]

theorem foldl_initStep_cls_absent (T : Tables) : ∀ (l : List (Str × Option Str)) (e : El),
    (∀ p ∈ l, validName p.1 = true ∧ lower p.1 = p.1) → classK ∉ akeys l → (l.foldl (initStep T) e).cls = e.cls
  | [], _, _, _ => rfl
  | p :: l, e, hg, hn => by
    have hp := hg p (by simp)
    have hne : p.1 ≠ classK := fun h => hn (by simp [akeys, h])
    have hn' : classK ∉ akeys l := fun h => hn (by simp only [akeys, List.map_cons]; exact List.mem_cons_of_mem _ h)
    simp only [List.foldl_cons]
    rw [foldl_initStep_cls_absent T l _ (fun q hq => hg q (List.mem_cons_of_mem _ hq)) hn',
        initStep_good T e p hp.1 hp.2, mapSet_cls_ne T p.2 e (by rw [hp.2]; exact hne)]

theorem foldl_initStep_cls (T : Tables) : ∀ (l : List (Str × Option Str)) (e : El), GoodKeys l →
    (l.foldl (initStep T) e).cls = match aget classK l with
      | some v => words (v.getD [])
      | none => e.cls
  | [], _, _ => rfl
  | p :: l, e, hg => by
    have hp := hg.2 p (by simp)
    have hnd : p.1 ∉ akeys l ∧ (akeys l).Nodup := by simpa [akeys] using hg.1
    have hg' : GoodKeys l := ⟨hnd.2, fun q hq => hg.2 q (List.mem_cons_of_mem _ hq)⟩
    simp only [List.foldl_cons]
    rw [initStep_good T e p hp.1 hp.2]
    by_cases hk : p.1 = classK
    · have hn' : classK ∉ akeys l := by rw [← hk]; exact hnd.1
      rw [foldl_initStep_cls_absent T l _ hg'.2 hn', mapSet_cls_eq T p.2 e (by rw [hp.2]; exact hk)]
      rcases p with ⟨k, v⟩
      simp only at hk
      simp [aget, hk]
    · rw [foldl_initStep_cls T l _ hg', mapSet_cls_ne T p.2 e (by rw [hp.2]; exact hk)]
      rcases p with ⟨k, v⟩
      simp only at hk
      simp [aget, hk]

theorem mk_cls (T : Tables) (tag : Str) (sc : Bool) (l : List (Str × Option Str)) (hg : GoodKeys l) :
    (mk T tag sc l).cls = match aget classK l with
      | some v => words (v.getD [])
      | none => [] := by
  unfold mk
  rw [foldl_initStep_cls T l _ hg]
  rfl

/-- the keys a synchronised element shows are good keys for a constructor -/
theorem goodKeys_of_sync {e : El} (h : DictInv e) {l : List (Str × Option Str)}
    (hk : akeys l = akeys (handleClassAttr e).dict) : GoodKeys l := by
  have hi := dictInv_handleClassAttr h
  refine ⟨by rw [hk]; exact hi.nodup, ?_⟩
  intro p hp
  have : p.1 ∈ akeys (handleClassAttr e).dict := by
    rw [← hk]; exact List.mem_map_of_mem (f := fun p : Str × Option Str => p.1) hp
  obtain ⟨q, hq, hqe⟩ := List.mem_map.mp this
  have := hi.slots q hq
  rw [← hqe]
  exact ⟨this.1, this.2.1⟩

end AHP.Attrs
