/-
  Helper lemmas for C14a, syntax level: resolving the flattened form of a predicate gives the flattened
  value tree of the predicate (`toVT`), for every well-formed predicate of any size and nesting.
-/
import AHP.Lemmas.XPath
namespace AHP.XPath

variable {N : Type}

/-- The value-level skeleton of a predicate for one tag: atoms evaluated (by the *reference*
    evaluator), binary operators kept. -/
def toVT (nm : Num N) (c : Ctx) : P N → Option (VT N)
  | .bin o l r =>
    match toVT nm c l, toVT nm c r with
    | some a, some b => some (.node o a b)
    | _, _ => none
  | p => (evalP nm c p).map .leaf

theorem resolveList_append (nm : Num N) (c : Ctx) (xs ys : List (BE N)) :
    resolveList nm c (xs ++ ys) =
      match resolveList nm c xs, resolveList nm c ys with
      | some a, some b => some (a ++ b)
      | _, _ => none := by
  induction xs with
  | nil =>
    simp only [List.nil_append, resolveList]
    cases resolveList nm c ys <;> rfl
  | cons x xs ih =>
    simp only [List.cons_append, resolveList, ih]
    cases resolve nm c x <;> cases resolveList nm c xs <;> cases resolveList nm c ys <;> rfl

theorem resolveList_single (nm : Num N) (c : Ctx) (e : BE N) :
    resolveList nm c [e] = (resolve nm c e).map (fun x => [x]) := by
  simp only [resolveList]
  cases resolve nm c e <;> rfl

theorem vals_map_val (vs : List (Val N)) : vals (vs.map BE.val) = some vs := by
  induction vs with
  | nil => rfl
  | cons v vs ih => simp [vals, ih]

/-- `evalLevel` of a resolved-and-flattened well-formed tree. -/
theorem evalLevel_of_toVT (nm : Num N) (c : Ctx) (l : List (BE N)) (p : P N)
    (hr : resolveList nm c l = (toVT nm c p).map VT.flat)
    (hw : ∀ t, toVT nm c p = some t → VT.wf 3 t = true)
    (he : evalP nm c p = (toVT nm c p).bind (VT.eval nm)) :
    evalLevel nm c l = evalP nm c p := by
  unfold evalLevel
  rw [hr, he]
  cases h : toVT nm c p with
  | none => rfl
  | some t => simp only [Option.map_some, Option.bind_some]; exact reduce_flat nm t (hw t h)

/-- What the mutual induction establishes for a predicate `p` at level bound `k`. -/
structure FlatOK (nm : Num N) (c : Ctx) (k : Nat) (p : P N) : Prop where
  res : resolveList nm c (flatten p) = (toVT nm c p).map VT.flat
  wf : ∀ t, toVT nm c p = some t → VT.wf k t = true
  ev : evalP nm c p = (toVT nm c p).bind (VT.eval nm)

theorem FlatOK.evalLevel {nm : Num N} {c : Ctx} {p : P N} (h : FlatOK nm c 3 p) :
    evalLevel nm c (flatten p) = evalP nm c p :=
  evalLevel_of_toVT nm c _ p h.res h.wf h.ev

/-- A `(…)` group / function argument holding a flattened predicate resolves to the predicate's value. -/
theorem resolve_group {nm : Num N} {c : Ctx} {p : P N} (h : FlatOK nm c 3 p) :
    resolve nm c (.group (flatten p)) = (evalP nm c p).map .val := by
  have := h.evalLevel
  unfold evalLevel at this
  simp only [resolve]
  cases hr : resolveList nm c (flatten p) with
  | none => rw [hr] at this; simp at this; simp [← this]
  | some l' => rw [hr] at this; simp only [Option.bind_some] at this; simp [this]

/-- An atom (anything but `bin`): its flat form is one element that resolves to its value. -/
theorem flatOK_atom {nm : Num N} {c : Ctx} {k : Nat} {p : P N} {e : BE N}
    (hf : flatten p = [e]) (hv : toVT nm c p = (evalP nm c p).map .leaf)
    (hr : resolve nm c e = (evalP nm c p).map .val) : FlatOK nm c k p := by
  refine ⟨?_, ?_, ?_⟩
  · rw [hf, resolveList_single, hr, hv]
    cases evalP nm c p <;> rfl
  · intro t ht
    rw [hv] at ht
    cases h : evalP nm c p with
    | none => rw [h] at ht; cases ht
    | some v => rw [h] at ht; simp only [Option.map_some, Option.some.injEq] at ht; subst ht; rfl
  · rw [hv]
    cases evalP nm c p <;> rfl

theorem resolve_nspace1_eq (nm : Num N) (c : Ctx) (a : BE N) :
    resolve nm c (.nspace1 a) = (nspaceVal (valOf (resolve nm c a))).map .val := by
  conv => lhs; unfold resolve

theorem resolve_contains_eq (nm : Num N) (c : Ctx) (a b : BE N) :
    resolve nm c (.containsFn a b) = (containsVal nm (valOf (resolve nm c a)) (valOf (resolve nm c b))).map .val := by
  conv => lhs; unfold resolve

theorem resolve_concat_eq (nm : Num N) (c : Ctx) (args : List (BE N)) :
    resolve nm c (.concatFn args) = (concatVal ((resolveList nm c args).bind vals)).map .val := by
  conv => lhs; unfold resolve

theorem valOf_map_val (o : Option (Val N)) : valOf (o.map BE.val) = o := by
  cases o <;> rfl

mutual
theorem flatOK (nm : Num N) (c : Ctx) : ∀ (p : P N) (k : Nat), P.wf k p = true → FlatOK nm c k p
  | .lit v, k, _ => flatOK_atom (e := .val v) rfl rfl rfl
  | .attr name, k, _ => by
    refine flatOK_atom (e := .attr name) rfl rfl ?_
    simp only [resolve, evalP]
    split
    · rfl
    · cases lookupAttr c.attrs (lower name) <;> rfl
  | .text, k, _ => flatOK_atom (e := .text) rfl rfl rfl
  | .last, k, _ => flatOK_atom (e := .last) rfl rfl rfl
  | .position, k, _ => flatOK_atom (e := .position) rfl rfl rfl
  | .nspace0, k, _ => flatOK_atom (e := .nspace0) rfl rfl rfl
  | .group q, k, h => by
    have hq := flatOK nm c q 3 (by simpa [P.wf] using h)
    refine flatOK_atom (e := .group (flatten q)) rfl rfl ?_
    rw [resolve_group hq]
    simp only [evalP]
  | .nspace1 a, k, h => by
    have ha := flatOK nm c a 3 (by simpa [P.wf] using h)
    refine flatOK_atom (e := .nspace1 (.group (flatten a))) rfl rfl ?_
    rw [resolve_nspace1_eq, resolve_group ha, valOf_map_val]
    simp only [evalP]
  | .contains a b, k, h => by
    have hab : P.wf 3 a = true ∧ P.wf 3 b = true := by simpa [P.wf] using h
    have ha := flatOK nm c a 3 hab.1
    have hb := flatOK nm c b 3 hab.2
    refine flatOK_atom (e := .containsFn (.group (flatten a)) (.group (flatten b))) rfl rfl ?_
    rw [resolve_contains_eq, resolve_group ha, resolve_group hb, valOf_map_val, valOf_map_val]
    simp only [evalP]
  | .concat args, k, h => by
    have hargs := flatOK_args nm c args (by simpa [P.wf] using h)
    refine flatOK_atom (e := .concatFn (flattenArgs args)) rfl rfl ?_
    rw [resolve_concat_eq, hargs]
    simp only [evalP]
    cases evalArgs nm c args with
    | none => rfl
    | some vs => simp only [Option.map_some, Option.bind_some, vals_map_val]
  | .bin o l r, k, h => by
    have hh : (o.cls < k ∧ P.wf (o.cls + 1) l = true) ∧ P.wf o.cls r = true := by
      simpa [P.wf] using h
    have hl := flatOK nm c l (o.cls + 1) hh.1.2
    have hr := flatOK nm c r o.cls hh.2
    refine ⟨?_, ?_, ?_⟩
    · simp only [flatten, toVT]
      rw [show flatten l ++ BE.op o :: flatten r = flatten l ++ ([BE.op o] ++ flatten r) from rfl]
      rw [resolveList_append, resolveList_append, hl.res, hr.res]
      simp only [resolveList, resolve]
      cases toVT nm c l <;> cases toVT nm c r <;> simp [VT.flat]
    · intro t ht
      simp only [toVT] at ht
      cases h1 : toVT nm c l with
      | none => simp [h1] at ht
      | some a =>
        cases h2 : toVT nm c r with
        | none => simp [h1, h2] at ht
        | some b =>
          simp only [h1, h2, Option.some.injEq] at ht
          subst ht
          simp only [VT.wf, Bool.and_eq_true, decide_eq_true_eq]
          exact ⟨⟨hh.1.1, hl.wf a h1⟩, hr.wf b h2⟩
    · simp only [evalP, toVT]
      rw [hl.ev, hr.ev]
      cases toVT nm c l with
      | none => rfl
      | some a =>
        cases toVT nm c r with
        | none => simp only [Option.bind_some, Option.bind_none]; cases VT.eval nm a <;> rfl
        | some b =>
          simp only [Option.bind_some, VT.eval]
          cases VT.eval nm a <;> cases VT.eval nm b <;> rfl
theorem flatOK_args (nm : Num N) (c : Ctx) : ∀ (args : List (P N)), P.wfList args = true →
    resolveList nm c (flattenArgs args) = (evalArgs nm c args).map (List.map BE.val)
  | [], _ => rfl
  | p :: ps, h => by
    have hh : P.wf 3 p = true ∧ P.wfList ps = true := by simpa [P.wfList] using h
    have hp := flatOK nm c p 3 hh.1
    have hps := flatOK_args nm c ps hh.2
    simp only [flattenArgs, resolveList, evalArgs]
    rw [resolve_group hp, hps]
    cases evalP nm c p <;> cases evalArgs nm c ps <;> rfl
end

end AHP.XPath
