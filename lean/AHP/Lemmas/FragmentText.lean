/-
  AHP.Lemmas.FragmentText — where the text blocks of a fragment come from (review B, M6): every top-level text node
  of the parse is the text of one text-like token of the fragment, and the text blocks `createBlocksFromHTML` returns
  are those top-level text nodes plus the leading `''` block of a multi-node fragment.
-/
import AHP.Lemmas.FragmentTokens
import AHP.Lemmas.DomRefineOps
import AHP.Model.Fragment
namespace AHP
open Spec

/-- every text node `items` produces at the level it parses is the text of a token of its input -/
theorem items_text_from_token : ∀ (k : Nat) (open_ : List Str) (ts : List Token) (s : Str), ts.length < k →
    Node.text s ∈ (items k open_ ts).1 → ∃ t ∈ ts, textOf t = some s
  | 0, _, _, _, hk, _ => by simp at hk
  | _ + 1, _, [], _, _, h => by simp [items] at h
  | k + 1, open_, t :: ts, s, hk, h => by
    have hk' : ts.length < k := by simp at hk; omega
    have ih := fun o => items_text_from_token k o ts s hk'
    have lift : ∀ {r : List Token}, (∃ t' ∈ r, textOf t' = some s) → (∀ x ∈ r, x ∈ t :: ts) →
        ∃ t' ∈ t :: ts, textOf t' = some s := by
      rintro r ⟨t', hm, e⟩ hsub
      exact ⟨t', hsub t' hm, e⟩
    cases t with
    | end_ n =>
      simp only [items] at h
      split at h
      · simp at h
      · obtain ⟨t', hm, e⟩ := ih _ h
        exact ⟨t', by simp [hm], e⟩
    | start n a =>
      simp only [items] at h
      split at h
      · simp only [List.mem_cons, reduceCtorEq, false_or] at h
        obtain ⟨t', hm, e⟩ := ih _ h
        exact ⟨t', by simp [hm], e⟩
      · simp only [List.mem_cons, reduceCtorEq, false_or] at h
        -- the siblings are parsed from a suffix of the rest of the input
        have hl := (items_rest k (lower n :: open_) ts hk').2
        have hl2 := afterContent_len (lower n) (items k (lower n :: open_) ts).2
        obtain ⟨t', hm, e⟩ := items_text_from_token k open_ (afterContent (lower n) (items k (lower n :: open_) ts).2) s
          (by omega) h
        have hsuf : ∀ x ∈ afterContent (lower n) (items k (lower n :: open_) ts).2, x ∈ ts := by
          intro x hx
          have h2 := items_rest_forall (fun y => y ∈ ts) k (lower n :: open_) ts hk' (fun _ hy => hy)
          unfold afterContent at hx
          split at hx
          · split at hx
            · rename_i heq _
              exact h2 x (by rw [heq]; exact List.mem_cons_of_mem _ hx)
            · exact h2 x hx
          · exact h2 x hx
        exact ⟨t', by simp [hsuf t' hm], e⟩
    | startend n a =>
      simp only [items, List.mem_cons, reduceCtorEq, false_or] at h
      obtain ⟨t', hm, e⟩ := ih _ h
      exact ⟨t', by simp [hm], e⟩
    | data d =>
      simp only [items] at h
      cases ht : textOf (.data d) with
      | none => rw [ht] at h; obtain ⟨t', hm, e⟩ := ih _ h; exact ⟨t', by simp [hm], e⟩
      | some s' =>
        rw [ht] at h
        simp only [List.mem_cons, Node.text.injEq] at h
        rcases h with rfl | h
        · exact ⟨_, by simp, ht⟩
        · obtain ⟨t', hm, e⟩ := ih _ h; exact ⟨t', by simp [hm], e⟩
    | entity d =>
      simp only [items] at h
      cases ht : textOf (.entity d) with
      | none => rw [ht] at h; obtain ⟨t', hm, e⟩ := ih _ h; exact ⟨t', by simp [hm], e⟩
      | some s' =>
        rw [ht] at h
        simp only [List.mem_cons, Node.text.injEq] at h
        rcases h with rfl | h
        · exact ⟨_, by simp, ht⟩
        · obtain ⟨t', hm, e⟩ := ih _ h; exact ⟨t', by simp [hm], e⟩
    | charref d =>
      simp only [items] at h
      cases ht : textOf (.charref d) with
      | none => rw [ht] at h; obtain ⟨t', hm, e⟩ := ih _ h; exact ⟨t', by simp [hm], e⟩
      | some s' =>
        rw [ht] at h
        simp only [List.mem_cons, Node.text.injEq] at h
        rcases h with rfl | h
        · exact ⟨_, by simp, ht⟩
        · obtain ⟨t', hm, e⟩ := ih _ h; exact ⟨t', by simp [hm], e⟩
    | comment d =>
      simp only [items] at h
      cases ht : textOf (.comment d) with
      | none => rw [ht] at h; obtain ⟨t', hm, e⟩ := ih _ h; exact ⟨t', by simp [hm], e⟩
      | some s' =>
        rw [ht] at h
        simp only [List.mem_cons, Node.text.injEq] at h
        rcases h with rfl | h
        · exact ⟨_, by simp, ht⟩
        · obtain ⟨t', hm, e⟩ := ih _ h; exact ⟨t', by simp [hm], e⟩
    | decl d =>
      simp only [items, textOf] at h
      obtain ⟨t', hm, e⟩ := ih _ h; exact ⟨t', by simp [hm], e⟩
    | unknownDecl d =>
      simp only [items, textOf] at h
      obtain ⟨t', hm, e⟩ := ih _ h; exact ⟨t', by simp [hm], e⟩
    | pi d =>
      simp only [items, textOf] at h
      obtain ⟨t', hm, e⟩ := ih _ h; exact ⟨t', by simp [hm], e⟩

theorem topTokens_subset (toks : List Token) : ∀ t ∈ topTokens toks, t ∈ toks := by
  intro t ht
  unfold topTokens at ht
  cases hl : leadDoctype toks with
  | none => rw [hl] at ht; exact ht
  | some pr =>
    rw [hl] at ht
    simp only at ht
    unfold leadDoctype at hl
    split at hl
    · simp only [Option.some.injEq] at hl
      rw [← hl] at ht
      exact List.mem_cons_of_mem _ ht
    · split at hl
      · simp only [Option.some.injEq] at hl
        rw [← hl] at ht
        exact List.mem_cons_of_mem _ (List.mem_cons_of_mem _ ht)
      · cases hl
    · cases hl

theorem topTokens_length (toks : List Token) : (topTokens toks).length ≤ toks.length := by
  unfold topTokens
  cases hl : leadDoctype toks with
  | none => exact Nat.le_refl _
  | some pr =>
    simp only
    unfold leadDoctype at hl
    split at hl
    · simp only [Option.some.injEq] at hl
      rw [← hl]; simp
    · split at hl
      · simp only [Option.some.injEq] at hl
        rw [← hl]; simp; omega
      · cases hl
    · cases hl

/-- every top-level text node of the fragment is the text of one of its tokens -/
theorem topNodes_text_from_token (toks : List Token) (s : Str) (h : Node.text s ∈ topNodes toks) :
    ∃ t ∈ toks, textOf t = some s := by
  unfold topNodes at h
  have hl := topTokens_length toks
  obtain ⟨t, hm, e⟩ := items_text_from_token (toks.length + 1) [] (topTokens toks) s (by omega) h
  exact ⟨t, topTokens_subset toks t hm, e⟩

theorem toFNL_text_mem : ∀ (l : List Node) (s : Str), Dom.FN.text s ∈ toFNL l → Node.text s ∈ l
  | [], _, h => by simp [toFNL] at h
  | k :: ks, s, h => by
    simp only [toFNL, List.mem_cons] at h
    rcases h with h | h
    · cases k with
      | text s' => simp only [Node.toFN, Dom.FN.text.injEq] at h; subst h; simp
      | elem n a sc kids => simp [Node.toFN] at h
    · exact List.mem_cons_of_mem _ (toFNL_text_mem ks s h)

namespace Dom

theorem mkL_text_mem (par own : Option Nat) : ∀ (fs : List FN) (n : Nat) (s : Str),
    DN.text s ∈ (mkL par own fs n).1 → FN.text s ∈ fs
  | [], _, _, h => by simp at h
  | f :: fs, n, s, h => by
    rw [mkL_cons] at h
    simp only [List.mem_cons] at h
    rcases h with h | h
    · cases f with
      | text s' => simp only [mk, DN.text.injEq] at h; subst h; simp
      | el name attrs sc kids => rw [mk_el] at h; cases h
    · exact List.mem_cons_of_mem _ (mkL_text_mem par own fs _ s h)

/-- the text blocks `createBlocksFromHTML` hands out: a top-level text node of the parse, or — with several top-level
    nodes — the empty indent block `''` the wrapper element starts with (the code copies the wrapper's `blocks`) -/
theorem createBlocks_text_parsed (doc n : Nat) (p : Parsed) (hp : Spec.Parsed.plain p) (s : Str)
    (h : DN.text s ∈ createBlocksFromHTML doc n p) :
    s = [] ∨ (∃ tops, p = .multi tops ∧ FN.text s ∈ tops) ∨ p = .single (.text s) := by
  cases p with
  | single r =>
    cases r with
    | text s' =>
      simp only [createBlocksFromHTML, Parsed.build, mk, createBlocks, List.mem_singleton, DN.text.injEq] at h
      subst h
      exact Or.inr (Or.inr rfl)
    | el name attrs sc kids =>
      simp only [Spec.Parsed.plain] at hp
      simp only [createBlocksFromHTML, Parsed.build] at h
      rw [mk_el] at h
      simp only [createBlocks, if_neg hp, List.mem_singleton] at h
      cases h
  | multi tops =>
    simp only [createBlocksFromHTML, Parsed.build, createBlocks, Dom.wrapperName, if_true, List.map_cons,
      List.mem_cons, List.mem_map] at h
    rcases h with h | ⟨b, hb, e⟩
    · left
      simpa [detachTop] using h
    · right; left
      refine ⟨tops, rfl, ?_⟩
      cases b with
      | text s' =>
        simp only [detachTop, DN.text.injEq] at e
        subst e
        exact mkL_text_mem _ _ tops _ _ hb
      | el m k =>
        simp only [detachTop] at e
        split at e
        · simp [reown, setParent] at e
        · cases e

end Dom

end AHP
