/-
  Helper lemmas for C14d, full pipeline: compile (`compileSteps`) then evaluate = the denotation.
-/
import AHP.Lemmas.XPathSteps
import AHP.Lemmas.XPathCompile
namespace AHP.XPath

variable {N : Type}

/-- a compiled predicate level stands for the syntax tree `p` -/
def LevelFor (nm : Num N) (l : List (BE N)) (p : P N) : Prop :=
  l ≠ [] ∧ ∀ c, evalLevel nm c l = evalP nm c p

def PredsFor (nm : Num N) : List (List (BE N)) → List (P N) → Prop
  | [], [] => True
  | l :: ls, p :: ps => LevelFor nm l p ∧ PredsFor nm ls ps
  | _, _ => False

def StepsFor (nm : Num N) : List (Step N) → List (SStep N) → Prop
  | [], [] => True
  | c :: cs, s :: ss => c.dbl = s.dbl ∧ c.axis = s.axis ∧ c.name = s.name ∧ PredsFor nm c.preds s.preds ∧ StepsFor nm cs ss
  | _, _ => False

theorem MT.flat_ne_nil : ∀ (t : MT N), t.flat ≠ []
  | .leaf e => by simp [MT.flat]
  | .node o l r => by simp [MT.flat]

theorem filterByBody_for (nm : Num N) (d : Doc) (l : List (BE N)) (p : P N) (h : LevelFor nm l p)
    (cur : List Nat) (hn : cur.Nodup) : filterByBody nm d l cur = specFilter nm d p cur := by
  unfold filterByBody
  cases cur with
  | nil => rfl
  | cons i rest =>
    have hne : l.isEmpty = false := by
      cases hl : l with
      | nil => exact absurd hl h.1
      | cons _ _ => rfl
    simp only [List.isEmpty_cons, Bool.false_eq_true, ite_false, hne]
    rw [go_eq_specFilter nm d l p (fun i => h.2 (d.ctx i))]
    cases hs : specFilter nm d p (i :: rest) with
    | none => rfl
    | some r =>
      simp only [Option.map_some]
      rw [dedup_of_nodup ((specFilter_sublist nm d p _ r hs).nodup hn)]

theorem runPreds_for (nm : Num N) (d : Doc) :
    ∀ (ls : List (List (BE N))) (ps : List (P N)), PredsFor nm ls ps → ∀ cur : List Nat, cur.Nodup →
      runPreds nm d ls cur = specPreds nm d ps cur := by
  intro ls
  induction ls with
  | nil =>
    intro ps h cur _
    cases ps with
    | nil => rfl
    | cons _ _ => exact absurd h (by simp [PredsFor])
  | cons l ls ih =>
    intro ps h cur hn
    cases ps with
    | nil => exact absurd h (by simp [PredsFor])
    | cons p ps =>
      simp only [PredsFor] at h
      simp only [runPreds, specPreds]
      rw [filterByBody_for nm d l p h.1 cur hn]
      cases hs : specFilter nm d p cur with
      | none => rfl
      | some r =>
        cases r with
        | nil => rfl
        | cons x xs =>
          simp only
          exact ih ps h.2 _ (specFilter_nodup nm d p hn hs)

theorem stepFn_eq_spec' (d : Doc) (hdesc : ∀ i, d.desc i = specDesc d i) (first : Bool) (c : Step N) (s : SStep N)
    (h1 : c.dbl = s.dbl) (h2 : c.axis = s.axis) (h3 : c.name = s.name) :
    stepFn d first c = specAxis d first s := by
  have := stepFn_eq_spec d hdesc first s
  funext i
  rw [← this i]
  unfold stepFn
  simp only [h1, h2, h3]

theorem runSteps_for (nm : Num N) (d : Doc) (hdesc : ∀ i, d.desc i = specDesc d i) :
    ∀ (cs : List (Step N)) (ss : List (SStep N)), StepsFor nm cs ss → ∀ (first : Bool) (cur : List Nat),
      runSteps nm d first cs cur = specSteps nm d first ss cur := by
  intro cs
  induction cs with
  | nil =>
    intro ss h first cur
    cases ss with
    | nil => rfl
    | cons _ _ => exact absurd h (by simp [StepsFor])
  | cons c cs ih =>
    intro ss h first cur
    cases ss with
    | nil => exact absurd h (by simp [StepsFor])
    | cons s ss =>
      simp only [StepsFor] at h
      obtain ⟨h1, h2, h3, hp, hs⟩ := h
      simp only [runSteps, specSteps, applyFind]
      rw [stepFn_eq_spec' d hdesc first c s h1 h2 h3]
      cases hc : dedup (cur.flatMap (specAxis d first s)) with
      | nil => rfl
      | cons x xs =>
        simp only
        have hn : (x :: xs).Nodup := hc ▸ nodup_dedup _
        rw [runPreds_for nm d c.preds s.preds hp _ hn]
        cases hpp : specPreds nm d s.preds (x :: xs) with
        | none => rfl
        | some r =>
          cases r with
          | nil => rfl
          | cons y ys =>
            simp only
            exact ih ss hs false _

/-- a predicate that has no value on any tag -/
def Hopeless (nm : Num N) (p : P N) : Prop := ∀ c, evalP nm c p = none

theorem compilePreds_for (nm : Num N) : ∀ (ps : List (P N)), (∀ p ∈ ps, P.wf 3 p = true ∧ P.noNull p = true) →
    match compileSteps.compilePreds nm (ps.map flatten) with
    | some ls => PredsFor nm ls ps
    | none => ∃ p ∈ ps, Hopeless nm p := by
  intro ps
  induction ps with
  | nil => intro _; simp [compileSteps.compilePreds, PredsFor]
  | cons p ps ih =>
    intro h
    have hp := h p List.mem_cons_self
    have hl := levelOK_of_each nm p (eachOK nm p 3 hp.1 hp.2)
    have hps := ih (fun q hq => h q (List.mem_cons_of_mem _ hq))
    unfold LevelOK at hl
    simp only [List.map_cons, compileSteps.compilePreds]
    cases hc : compileLevel nm (flatten p) with
    | none =>
      rw [hc] at hl
      exact ⟨p, List.mem_cons_self, hl⟩
    | some l' =>
      rw [hc] at hl
      obtain ⟨t', rfl, w', _, ev'⟩ := hl
      cases hcs : compileSteps.compilePreds nm (ps.map flatten) with
      | none =>
        rw [hcs] at hps
        obtain ⟨q, hq, hh⟩ := hps
        exact ⟨q, List.mem_cons_of_mem _ hq, hh⟩
      | some ls =>
        rw [hcs] at hps
        simp only [PredsFor]
        refine ⟨⟨MT.flat_ne_nil t', ?_⟩, hps⟩
        intro c
        rw [MT.evalLevel_flat nm c t' w', ev']

theorem compileSteps_for (nm : Num N) : ∀ (ss : List (SStep N)),
    (∀ s ∈ ss, ∀ p ∈ s.preds, P.wf 3 p = true ∧ P.noNull p = true) →
    match compileSteps nm (flattenSteps ss) with
    | some cs => StepsFor nm cs ss
    | none => ∃ s ∈ ss, ∃ p ∈ s.preds, Hopeless nm p := by
  intro ss
  induction ss with
  | nil => intro _; simp [flattenSteps, compileSteps, StepsFor]
  | cons s ss ih =>
    intro h
    have hp := compilePreds_for nm s.preds (h s List.mem_cons_self)
    have hss := ih (fun t ht => h t (List.mem_cons_of_mem _ ht))
    simp only [flattenSteps, List.map_cons, compileSteps] at hss ⊢
    cases hc : compileSteps.compilePreds nm (s.preds.map flatten) with
    | none =>
      rw [hc] at hp
      obtain ⟨p, hpm, hh⟩ := hp
      exact ⟨s, List.mem_cons_self, p, hpm, hh⟩
    | some ls =>
      rw [hc] at hp
      cases hcs : compileSteps nm (ss.map fun s => { dbl := s.dbl, axis := s.axis, name := s.name, preds := s.preds.map flatten }) with
      | none =>
        rw [hcs] at hss
        obtain ⟨t, ht, q, hq, hh⟩ := hss
        exact ⟨t, List.mem_cons_of_mem _ ht, q, hq, hh⟩
      | some cs =>
        rw [hcs] at hss
        simp only [StepsFor]
        exact ⟨trivial, trivial, trivial, hp, hss⟩

end AHP.XPath
