/-
  Helper lemmas for C14b, full form: the whole compile step (`compileLevel`: groups and function
  arguments optimised inside-out, all-static `concat` replaced by its value, then the folder) preserves
  the value of every well-formed predicate for every tag; a compile step that raises means the predicate
  raises for every tag.
-/
import AHP.Lemmas.XPathOpt
namespace AHP.XPath

variable {N : Type}

/-! ### no operator produces Null -/

theorem applyOp_not_null (nm : Num N) (o : Op) (a b v : Val N) (h : applyOp nm o a b = some v) : v.isNull = false := by
  cases o with
  | arith ao =>
    simp only [applyOp, applyArith] at h
    cases ao <;> simp only at h
    · -- concat
      cases a <;> cases b <;> simp at h
      subst h; rfl
    all_goals
      cases hx : toFloat nm a with
      | none => simp [hx] at h
      | some x =>
        cases hy : toFloat nm b with
        | none => simp [hx, hy] at h
        | some y =>
          simp only [hx, hy] at h
          first
            | (simp only [Option.some.injEq] at h; subst h; rfl)
            | (cases hd : nm.div x y with
               | none => simp [hd] at h
               | some z => simp only [hd, Option.map_some, Option.some.injEq] at h; subst h; rfl)
            | (cases hd : nm.mod x y with
               | none => simp [hd] at h
               | some z => simp only [hd, Option.map_some, Option.some.injEq] at h; subst h; rfl)
  | cmp co =>
    simp only [applyOp, applyCmp] at h
    split at h
    · simp only [Option.some.injEq] at h; subst h; rfl
    · cases co <;> simp only at h
      · simp only [Option.some.injEq] at h; subst h; rfl
      · simp only [Option.some.injEq] at h; subst h; rfl
      all_goals
        split at h
        · simp only [Option.some.injEq] at h; subst h; rfl
        · cases h
  | bool bo =>
    simp only [applyOp, applyBool] at h
    split at h
    · simp only [Option.some.injEq] at h; subst h; rfl
    · cases h

/-! ### static leaves are not Null -/

def MT.noNull : MT N → Bool
  | .leaf (.val v) => !v.isNull
  | .leaf _ => true
  | .node _ l r => l.noNull && r.noNull

theorem MT.sfold_noNull (nm : Num N) {k : Nat} : ∀ {t t' : MT N}, t.noNull = true → t.sfold nm k = some t' →
    t'.noNull = true := by
  intro t
  induction t with
  | leaf e => intro t' hn h; simp only [MT.sfold, Option.some.injEq] at h; subst h; exact hn
  | node o l r ihl ihr =>
    intro t' hn h
    simp only [MT.noNull, Bool.and_eq_true] at hn
    simp only [MT.sfold] at h
    cases hl : l.sfold nm k with
    | none => simp [hl] at h
    | some l' =>
      cases hr : r.sfold nm k with
      | none => simp [hl, hr] at h
      | some r' =>
        simp only [hl, hr] at h
        have nl := ihl hn.1 hl
        have nr := ihr hn.2 hr
        have hnode : (MT.node o l' r').noNull = true := by simp [MT.noNull, nl, nr]
        by_cases hk : o.cls = k
        · simp only [hk, ite_true] at h
          cases ha : MT.asVal l' with
          | none => simp only [ha, Option.some.injEq] at h; subst h; exact hnode
          | some a =>
            cases hb : MT.asVal r' with
            | none => simp only [ha, hb, Option.some.injEq] at h; subst h; exact hnode
            | some b' =>
              simp only [ha, hb] at h
              cases hap : applyOp nm o a b' with
              | none => rw [hap] at h; cases h
              | some v =>
                rw [hap] at h
                simp only [Option.map_some, Option.some.injEq] at h
                subst h
                simp [MT.noNull, applyOp_not_null nm o a b' v hap]
        · simp only [hk, ite_false, Option.some.injEq] at h; subst h; exact hnode

/-- The folder returns the in-order list of a well-formed tree again, with the same values. -/
theorem optimize_tree (nm : Num N) (t : MT N) (hw : MT.wf 3 t = true) (hn : t.noNull = true) :
    match optimize nm t.flat with
    | some l' => ∃ t', l' = t'.flat ∧ MT.wf 3 t' = true ∧ t'.noNull = true ∧ ∀ c, t'.eval nm c = t.eval nm c
    | none => ∀ c, t.eval nm c = none := by
  unfold optimize
  by_cases hlen : t.flat.length ≤ 2
  · simp only [hlen, ite_true]
    exact ⟨t, rfl, hw, hn, fun _ => rfl⟩
  · simp only [hlen, ite_false]
    have p0 := optPass_tree nm 0 t 3 hw [] [] trivial trivial
    simp only [List.append_nil, optPass_nil, List.reverse_reverse] at p0
    rw [p0]
    cases h0 : t.sfold nm 0 with
    | none =>
      simp only [Option.bind_none]
      intro c
      have s0 := sfold_sound nm c 0 t
      rw [h0] at s0; exact s0
    | some t0 =>
      simp only [Option.bind_some]
      have w0 := MT.sfold_wf nm hw h0
      have n0 := MT.sfold_noNull nm hn h0
      have p1 := optPass_tree nm 1 t0 3 w0 [] [] trivial trivial
      simp only [List.append_nil, optPass_nil, List.reverse_reverse] at p1
      rw [p1]
      cases h1 : t0.sfold nm 1 with
      | none =>
        simp only [Option.bind_none]
        intro c
        have s0 := sfold_sound nm c 0 t
        have s1 := sfold_sound nm c 1 t0
        rw [h0] at s0; rw [h1] at s1
        rw [← s0]; exact s1
      | some t1 =>
        simp only [Option.bind_some]
        refine ⟨t1, rfl, MT.sfold_wf nm w0 h1, MT.sfold_noNull nm n0 h1, ?_⟩
        intro c
        have s0 := sfold_sound nm c 0 t
        have s1 := sfold_sound nm c 1 t0
        rw [h0] at s0; rw [h1] at s1
        rw [s1, s0]

theorem joinStrs_of_noNull : ∀ {parts : List (Val N)}, parts.all (fun v => !v.isNull) = true →
    joinStrs parts = joinStatic parts := by
  intro parts
  induction parts with
  | nil => intro _; rfl
  | cons v vs ih =>
    intro h
    simp only [List.all_cons, Bool.and_eq_true] at h
    cases v with
    | null => simp [Val.isNull] at h
    | str s => simp only [joinStrs, joinStatic, ih h.2]
    | num n => rfl
    | bool b => rfl

/-! ### literals: numbers and strings only -/

/-! ### compiling element by element -/

theorem compileEach_append (nm : Num N) (xs ys : List (BE N)) :
    compileEach nm (xs ++ ys) =
      match compileEach nm xs, compileEach nm ys with
      | some a, some b => some (a ++ b)
      | _, _ => none := by
  induction xs with
  | nil =>
    simp only [List.nil_append, compileEach]
    cases compileEach nm ys <;> rfl
  | cons x xs ih =>
    simp only [List.cons_append, compileEach, ih]
    cases compileBE nm x <;> cases compileEach nm xs <;> cases compileEach nm ys <;> rfl

theorem compileEach_single (nm : Num N) (e : BE N) :
    compileEach nm [e] = (compileBE nm e).map (fun x => [x]) := by
  simp only [compileEach]
  cases compileBE nm e <;> rfl

theorem compileBE_group_eq (nm : Num N) (l : List (BE N)) :
    compileBE nm (.group l) = ((compileEach nm l).bind (optimize nm)).map .group := by
  conv => lhs; unfold compileBE
  cases compileEach nm l <;> rfl

theorem compileBE_nspace1_eq (nm : Num N) (a : BE N) :
    compileBE nm (.nspace1 a) = (compileBE nm a).map .nspace1 := by
  conv => lhs; unfold compileBE

theorem compileBE_contains_eq (nm : Num N) (a b : BE N) :
    compileBE nm (.containsFn a b) =
      match compileBE nm a, compileBE nm b with
      | some a', some b' => some (.containsFn a' b')
      | _, _ => none := by
  conv => lhs; unfold compileBE
  cases compileBE nm a <;> cases compileBE nm b <;> rfl

theorem compileBE_concat_eq (nm : Num N) (args : List (BE N)) :
    compileBE nm (.concatFn args) =
      match compileEach nm args with
      | some args' =>
        match staticArgs args' with
        | some parts => (joinStatic parts).map (fun s => .val (.str s))
        | none => some (.concatFn args')
      | none => none := by
  conv => lhs; unfold compileBE
  cases compileEach nm args with
  | none => rfl
  | some args' => cases staticArgs args' <;> rfl

theorem MT.eval_leaf (nm : Num N) (c : Ctx) (e : BE N) : (MT.leaf e).eval nm c = valOf (resolve nm c e) := by
  simp only [MT.eval, MT.toVT]
  cases valOf (resolve nm c e) <;> rfl

/-- What compiling the flat form of a predicate yields. -/
structure CompOK (nm : Num N) (k : Nat) (p : P N) (l1 : List (BE N)) : Prop where
  tree : ∃ t1 : MT N, l1 = t1.flat ∧ MT.wf k t1 = true ∧ t1.noNull = true ∧ ∀ c, t1.eval nm c = evalP nm c p

/-- `compileLevel` of a flattened predicate. -/
def LevelOK (nm : Num N) (p : P N) : Prop :=
  match compileLevel nm (flatten p) with
  | some l' => ∃ t' : MT N, l' = t'.flat ∧ MT.wf 3 t' = true ∧ t'.noNull = true ∧ ∀ c, t'.eval nm c = evalP nm c p
  | none => ∀ c, evalP nm c p = none

/-- `compileEach` of a flattened predicate. -/
def EachOK (nm : Num N) (k : Nat) (p : P N) : Prop :=
  match compileEach nm (flatten p) with
  | some l1 => CompOK nm k p l1
  | none => ∀ c, evalP nm c p = none

theorem levelOK_of_each (nm : Num N) (p : P N) (h : EachOK nm 3 p) : LevelOK nm p := by
  unfold LevelOK compileLevel
  unfold EachOK at h
  cases hc : compileEach nm (flatten p) with
  | none => rw [hc] at h; simpa using h
  | some l1 =>
    rw [hc] at h
    obtain ⟨t1, rfl, hw, hn, hev⟩ := h.tree
    simp only [Option.bind_some]
    have := optimize_tree nm t1 hw hn
    cases ho : optimize nm t1.flat with
    | none => rw [ho] at this; simp only at this ⊢; intro c; rw [← hev]; exact this c
    | some l' =>
      rw [ho] at this
      obtain ⟨t', e, w', n', ev'⟩ := this
      exact ⟨t', e, w', n', fun c => by rw [ev', hev]⟩

theorem resolve_group_eq (nm : Num N) (c : Ctx) (l : List (BE N)) :
    resolve nm c (.group l) = (evalLevel nm c l).map .val := by
  conv => lhs; unfold resolve
  unfold evalLevel
  cases resolveList nm c l <;> rfl

/-- a compiled group (or function argument) resolves to the value of the predicate it holds -/
theorem compiled_group (nm : Num N) (p : P N) (h : LevelOK nm p) :
    match compileBE nm (.group (flatten p)) with
    | some e' => (∃ l', e' = .group l' ∧ ∃ t' : MT N, l' = t'.flat ∧ MT.wf 3 t' = true ∧ t'.noNull = true) ∧
        ∀ c, valOf (resolve nm c e') = evalP nm c p
    | none => ∀ c, evalP nm c p = none := by
  rw [compileBE_group_eq]
  unfold LevelOK compileLevel at h
  cases hc : (compileEach nm (flatten p)).bind (optimize nm) with
  | none => rw [hc] at h; simpa using h
  | some l' =>
    rw [hc] at h
    obtain ⟨t', rfl, w', n', ev'⟩ := h
    simp only [Option.map_some]
    refine ⟨⟨_, rfl, t', rfl, w', n'⟩, ?_⟩
    intro c
    rw [resolve_group_eq, valOf_map_val, MT.evalLevel_flat nm c t' w', ev']

/-- an atom whose body element compiles to `e'` -/
theorem eachOK_atom (nm : Num N) {k : Nat} {p : P N} {e : BE N} (hf : flatten p = [e])
    (h : match compileBE nm e with
      | some e' => e'.isOp = false ∧ (∀ v, e' = .val v → v.isNull = false) ∧ ∀ c, valOf (resolve nm c e') = evalP nm c p
      | none => ∀ c, evalP nm c p = none) : EachOK nm k p := by
  unfold EachOK
  rw [hf, compileEach_single]
  cases hc : compileBE nm e with
  | none => rw [hc] at h; simpa using h
  | some e' =>
    rw [hc] at h
    obtain ⟨h1, h2, h3⟩ := h
    simp only [Option.map_some]
    refine ⟨MT.leaf e', rfl, by simp [MT.wf, h1], ?_, fun c => by rw [MT.eval_leaf, h3]⟩
    cases e' <;> simp only [MT.noNull]
    rename_i v
    simp [h2 v rfl]

theorem eachOK_simple (nm : Num N) {k : Nat} {p : P N} {e : BE N} (hf : flatten p = [e]) (hc : compileBE nm e = some e)
    (ho : e.isOp = false) (hv : ∀ v, e = .val v → v.isNull = false)
    (hr : ∀ c, valOf (resolve nm c e) = evalP nm c p) : EachOK nm k p := by
  apply eachOK_atom nm hf
  rw [hc]
  exact ⟨ho, hv, hr⟩

theorem staticParts_flat {t : MT N} {parts : List (Val N)} (hw : MT.wf 3 t = true) (h : staticParts t.flat = some parts) :
    ∃ v, t = .leaf (.val v) ∧ parts = [v] := by
  cases t with
  | leaf e =>
    cases e <;> simp [MT.flat, staticParts] at h
    rename_i v
    exact ⟨v, rfl, h.symm⟩
  | node o l r =>
    exfalso
    simp only [MT.flat] at h
    -- an operator occurs in the list
    have : ∀ (xs ys : List (BE N)) ps, staticParts (xs ++ BE.op o :: ys) = some ps → False := by
      intro xs
      induction xs with
      | nil => intro ys ps hh; simp [staticParts] at hh
      | cons x xs ih =>
        intro ys ps hh
        cases x <;> simp only [List.cons_append, staticParts] at hh <;> try cases hh
        rename_i v
        cases h2 : staticParts (xs ++ BE.op o :: ys) with
        | none => simp [h2] at hh
        | some q => exact ih ys q h2
    exact this _ _ _ h

mutual
theorem eachOK (nm : Num N) : ∀ (p : P N) (k : Nat), P.wf k p = true → P.noNull p = true → EachOK nm k p
  | .lit v, k, _, hn => by
    refine eachOK_simple nm (e := .val v) rfl (by conv => lhs; unfold compileBE) rfl ?_ (fun c => rfl)
    intro v' hv
    injection hv with hv
    subst hv
    simpa [P.noNull] using hn
  | .attr name, k, _, _ => by
    refine eachOK_simple nm (e := .attr name) rfl (by conv => lhs; unfold compileBE) rfl (fun v h => by cases h) ?_
    intro c
    simp only [resolve, evalP]
    split
    · rfl
    · cases lookupAttr c.attrs (lower name) <;> rfl
  | .text, k, _, _ =>
    eachOK_simple nm (e := .text) rfl (by conv => lhs; unfold compileBE) rfl (fun v h => by cases h) (fun c => rfl)
  | .last, k, _, _ =>
    eachOK_simple nm (e := .last) rfl (by conv => lhs; unfold compileBE) rfl (fun v h => by cases h) (fun c => rfl)
  | .position, k, _, _ =>
    eachOK_simple nm (e := .position) rfl (by conv => lhs; unfold compileBE) rfl (fun v h => by cases h) (fun c => rfl)
  | .nspace0, k, _, _ =>
    eachOK_simple nm (e := .nspace0) rfl (by conv => lhs; unfold compileBE) rfl (fun v h => by cases h) (fun c => rfl)
  | .group q, k, hw, hn => by
    have hq := levelOK_of_each nm q (eachOK nm q 3 (by simpa [P.wf] using hw) (by simpa [P.noNull] using hn))
    have hg := compiled_group nm q hq
    apply eachOK_atom nm (e := .group (flatten q)) rfl
    cases hc : compileBE nm (.group (flatten q)) with
    | none => rw [hc] at hg; simpa [evalP] using hg
    | some e' =>
      rw [hc] at hg
      obtain ⟨⟨l', rfl, _⟩, hv⟩ := hg
      exact ⟨rfl, (fun v h => by cases h), fun c => by rw [hv]; simp only [evalP]⟩
  | .nspace1 a, k, hw, hn => by
    have ha := levelOK_of_each nm a (eachOK nm a 3 (by simpa [P.wf] using hw) (by simpa [P.noNull] using hn))
    have hg := compiled_group nm a ha
    apply eachOK_atom nm (e := .nspace1 (.group (flatten a))) rfl
    rw [compileBE_nspace1_eq]
    cases hc : compileBE nm (.group (flatten a)) with
    | none =>
      rw [hc] at hg
      simp only [Option.map_none]
      intro c; simp only [evalP, hg c]; rfl
    | some e' =>
      rw [hc] at hg
      simp only [Option.map_some]
      refine ⟨rfl, (fun v h => by cases h), ?_⟩
      intro c
      rw [resolve_nspace1_eq, hg.2 c]
      simp only [evalP]
      cases nspaceVal (evalP nm c a) <;> rfl
  | .contains a b, k, hw, hn => by
    have hab : P.wf 3 a = true ∧ P.wf 3 b = true := by simpa [P.wf] using hw
    have hnn : P.noNull a = true ∧ P.noNull b = true := by simpa [P.noNull] using hn
    have ha := compiled_group nm a (levelOK_of_each nm a (eachOK nm a 3 hab.1 hnn.1))
    have hb := compiled_group nm b (levelOK_of_each nm b (eachOK nm b 3 hab.2 hnn.2))
    apply eachOK_atom nm (e := .containsFn (.group (flatten a)) (.group (flatten b))) rfl
    rw [compileBE_contains_eq]
    cases hca : compileBE nm (.group (flatten a)) with
    | none =>
      rw [hca] at ha
      simp only
      intro c; simp only [evalP, ha c]; rfl
    | some a' =>
      rw [hca] at ha
      cases hcb : compileBE nm (.group (flatten b)) with
      | none =>
        rw [hcb] at hb
        simp only
        intro c; simp only [evalP, hb c]
        cases evalP nm c a <;> rfl
      | some b' =>
        rw [hcb] at hb
        simp only
        refine ⟨rfl, (fun v h => by cases h), ?_⟩
        intro c
        rw [resolve_contains_eq, ha.2 c, hb.2 c]
        simp only [evalP]
        cases containsVal nm (evalP nm c a) (evalP nm c b) <;> rfl
  | .concat args, k, hw, hn => by
    have hargs := argsOK nm args (by simpa [P.wf] using hw) (by simpa [P.noNull] using hn)
    apply eachOK_atom nm (e := .concatFn (flattenArgs args)) rfl
    rw [compileBE_concat_eq]
    cases hc : compileEach nm (flattenArgs args) with
    | none =>
      rw [hc] at hargs
      simp only
      intro c
      simp only [evalP, hargs c]; rfl
    | some args' =>
      rw [hc] at hargs
      obtain ⟨hres, hstat⟩ := hargs
      simp only
      cases hs : staticArgs args' with
      | none =>
        simp only
        refine ⟨rfl, (fun v h => by cases h), ?_⟩
        intro c
        rw [resolve_concat_eq, hres c]
        simp only [evalP]
        cases evalArgs nm c args with
        | none => rfl
        | some vs =>
          simp only [Option.map_some, Option.bind_some, vals_map_val]
          cases concatVal (some vs) <;> rfl
      | some parts =>
        have ⟨hconst, hnn⟩ := hstat parts hs
        simp only
        cases hj : joinStatic parts with
        | none =>
          simp only [Option.map_none]
          intro c
          simp only [evalP, hconst c, concatVal]
          rw [joinStrs_of_noNull hnn, hj]; rfl
        | some s =>
          simp only [Option.map_some]
          refine ⟨rfl, (fun v h => by injection h with h; subst h; rfl), ?_⟩
          intro c
          simp only [resolve, valOf, evalP, hconst c, concatVal]
          rw [joinStrs_of_noNull hnn, hj]; rfl
  | .bin o l r, k, hw, hn => by
    have hh : (o.cls < k ∧ P.wf (o.cls + 1) l = true) ∧ P.wf o.cls r = true := by simpa [P.wf] using hw
    have hnn : P.noNull l = true ∧ P.noNull r = true := by simpa [P.noNull] using hn
    have hl := eachOK nm l (o.cls + 1) hh.1.2 hnn.1
    have hr := eachOK nm r o.cls hh.2 hnn.2
    unfold EachOK at hl hr ⊢
    simp only [flatten]
    rw [show flatten l ++ BE.op o :: flatten r = flatten l ++ ([BE.op o] ++ flatten r) from rfl]
    rw [compileEach_append, compileEach_append, compileEach_single]
    have hop : compileBE nm (BE.op o) = some (BE.op o) := by conv => lhs; unfold compileBE
    rw [hop]
    cases hcl : compileEach nm (flatten l) with
    | none =>
      rw [hcl] at hl
      simp only
      intro c; simp only [evalP, hl c]
    | some l1 =>
      rw [hcl] at hl
      cases hcr : compileEach nm (flatten r) with
      | none =>
        rw [hcr] at hr
        simp only [Option.map_some]
        intro c; simp only [evalP, hr c]
        cases evalP nm c l <;> rfl
      | some r1 =>
        rw [hcr] at hr
        simp only [Option.map_some]
        obtain ⟨tl, rfl, wl, nl, el⟩ := hl.tree
        obtain ⟨tr, rfl, wr, nr, er⟩ := hr.tree
        refine ⟨MT.node o tl tr, rfl, ?_, ?_, ?_⟩
        · simp only [MT.wf, Bool.and_eq_true, decide_eq_true_eq]; exact ⟨⟨hh.1.1, wl⟩, wr⟩
        · simp [MT.noNull, nl, nr]
        · intro c
          rw [MT.eval_node, el, er]
          simp only [evalP]
          cases evalP nm c l <;> cases evalP nm c r <;> rfl
theorem argsOK (nm : Num N) : ∀ (args : List (P N)), P.wfList args = true → P.noNullList args = true →
    match compileEach nm (flattenArgs args) with
    | some args' =>
      (∀ c, resolveList nm c args' = (evalArgs nm c args).map (List.map BE.val)) ∧
      (∀ parts, staticArgs args' = some parts →
        (∀ c, evalArgs nm c args = some parts) ∧ parts.all (fun v => !v.isNull) = true)
    | none => ∀ c, evalArgs nm c args = none
  | [], _, _ => by
    simp only [flattenArgs, compileEach]
    refine ⟨fun c => rfl, ?_⟩
    intro parts h
    simp only [staticArgs, Option.some.injEq] at h
    subst h
    exact ⟨fun c => rfl, rfl⟩
  | p :: ps, hw, hn => by
    have hh : P.wf 3 p = true ∧ P.wfList ps = true := by simpa [P.wfList] using hw
    have hnn : P.noNull p = true ∧ P.noNullList ps = true := by simpa [P.noNullList] using hn
    have hp := compiled_group nm p (levelOK_of_each nm p (eachOK nm p 3 hh.1 hnn.1))
    have hps := argsOK nm ps hh.2 hnn.2
    simp only [flattenArgs, compileEach]
    cases hcp : compileBE nm (.group (flatten p)) with
    | none =>
      rw [hcp] at hp
      simp only
      intro c; simp only [evalArgs, hp c]
    | some e' =>
      rw [hcp] at hp
      cases hcs : compileEach nm (flattenArgs ps) with
      | none =>
        rw [hcs] at hps
        simp only
        intro c; simp only [evalArgs, hps c]
        cases evalP nm c p <;> rfl
      | some ps' =>
        rw [hcs] at hps
        simp only
        obtain ⟨⟨l', rfl, t', rfl, w', n'⟩, hv⟩ := hp
        obtain ⟨hres, hstat⟩ := hps
        refine ⟨?_, ?_⟩
        · intro c
          simp only [resolveList, evalArgs]
          have h1 := hv c
          rw [hres c]
          -- resolve of the compiled group is a value or fails
          cases hr : resolve nm c (.group t'.flat) with
          | none =>
            rw [hr] at h1
            simp only [valOf] at h1
            rw [← h1]
            cases evalArgs nm c ps <;> rfl
          | some e2 =>
            obtain ⟨v, rfl⟩ := resolve_nonop_val nm c (e := .group t'.flat) rfl hr
            rw [hr] at h1
            simp only [valOf] at h1
            rw [← h1]
            cases evalArgs nm c ps <;> rfl
        · intro parts hs
          simp only [staticArgs] at hs
          cases hsp : staticParts t'.flat with
          | none => simp [hsp] at hs
          | some a =>
            cases hss : staticArgs ps' with
            | none => simp [hsp, hss] at hs
            | some b =>
              simp only [hsp, hss, Option.some.injEq] at hs
              subst hs
              obtain ⟨v, rfl, rfl⟩ := staticParts_flat w' hsp
              have ⟨hc2, hn2⟩ := hstat b hss
              refine ⟨?_, ?_⟩
              · intro c
                have h1 := hv c
                simp only [resolve, MT.flat, resolveList, reduce, pass, List.reverse_cons, List.reverse_nil,
                  List.nil_append, Option.bind_some, Option.map_some, valOf] at h1
                simp only [evalArgs, ← h1, hc2 c, List.singleton_append]
              · simp only [MT.noNull, Bool.not_eq_eq_eq_not, Bool.not_true] at n'
                simp [n', hn2]
end

end AHP.XPath
