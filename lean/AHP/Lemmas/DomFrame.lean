/-
  AHP.Lemmas.DomFrame — frame and atomicity facts for C05: an identity edit leaves the world as it
  was; whatever the edit, elements outside the subtree of the target keep all their fields.
-/
import AHP.Lemmas.DomRefineOps
namespace AHP.Dom

mutual
/-- if the edit is the identity on the element that `find?` finds (and uids are distinct), nothing changes -/
theorem upd_found_id (t f) (n : DN) (hd : (ids n).Nodup) {m bs} (h : find? t n = some (m, bs))
    (hf : f m bs = ⟨m, bs, []⟩) : upd t f n = (n, []) := by
  match n with
  | .text s => simp
  | .el m' bs' =>
    rw [find?_el] at h
    rw [upd_el]
    split at h
    · rename_i he
      simp only [Option.some.injEq, Prod.mk.injEq] at h
      obtain ⟨rfl, rfl⟩ := h
      rw [if_pos he, hf]
    · rename_i he
      simp only [ids_el, List.nodup_cons] at hd
      rw [if_neg he, updL_found_id t f bs' hd.2 h hf]
theorem updL_found_id (t f) (l : List DN) (hd : (idsL l).Nodup) {m bs} (h : findL? t l = some (m, bs))
    (hf : f m bs = ⟨m, bs, []⟩) : updL t f l = (l, []) := by
  match l with
  | [] => simp
  | b :: rest =>
    simp only [idsL_cons] at hd
    have hdd := List.nodup_append.mp hd
    rw [findL?_cons] at h
    rw [updL_cons]
    cases hfb : find? t b with
    | some r =>
      rw [hfb] at h
      simp only [Option.some.injEq] at h
      subst h
      have htb : t ∈ ids b := find?_mem t b hfb
      have hnr : t ∉ idsL rest := fun hr => hdd.2.2 t htb t hr rfl
      rw [upd_found_id t f b hdd.1 hfb hf, updL_not_mem t f rest hnr]
      rfl
    | none =>
      rw [hfb] at h
      rw [upd_not_mem t f b (Spec.find?_not_mem t b hfb), updL_found_id t f rest hdd.2.1 h hf]
      rfl
end

mutual
/-- the fields of every element outside the subtree of `t`, in document order -/
def outside (t : Nat) : DN → List Meta
  | .text _ => []
  | .el m bs => if m.id = t then [] else m :: outsideL t bs
def outsideL (t : Nat) : List DN → List Meta
  | [] => []
  | b :: bs => outside t b ++ outsideL t bs
end

mutual
/-- frame: whatever an edit does at `t`, every element outside the subtree of `t` keeps all its
    fields (blocks aside, which hold the edited subtree) -/
theorem outside_upd (t f) (hid : KeepsId f) (n : DN) : outside t (upd t f n).1 = outside t n := by
  match n with
  | .text s => simp
  | .el m bs =>
    rw [upd_el]
    by_cases he : m.id = t
    · rw [if_pos he]
      simp only [outside, if_pos he, hid m bs]
    · rw [if_neg he]
      simp only [outside, if_neg he, outsideL_updL t f hid bs]
theorem outsideL_updL (t f) (hid : KeepsId f) (l : List DN) : outsideL t (updL t f l).1 = outsideL t l := by
  match l with
  | [] => simp
  | b :: bs => simp only [updL_cons, outsideL, outside_upd t f hid b, outsideL_updL t f hid bs]
end

end AHP.Dom
