/-
  TreeModels, part 1 — the hub tree, the maps between the six tree models, and serialisation.

  The document tree is modelled six times (Model/Tree.lean, Dom.lean, Pickle.lean, Search.lean, XPath.lean,
  Format.lean).  `HN` below is the common refinement the consistency theorems go through: a block is a text
  or an element with an identity, a name, the attribute store of model (1) (the one that keeps most state),
  the self-closing flag and its blocks — no cached field.  Every other model is an image of it:

      Dom.DN  --ofDom-->  HN  --toTree-->  AHP.Node          (forget the identity)
                              --toPk---->  Pk.DN             (attribute store `toP`; cached fields recomputed)
                              --g3------>  G3.Node           (elements only; text blocks feed the `text` cache)
                              --toDoc--->  XPath.Doc         (part 3)
                  AHP.Node --toFmt---->  Fmt.Node            (attribute store `toF`; plain element class, no indent)

  and every `AHP.Node` is the image of a hub tree (`number`, identities in creation order).
-/
import AHP.Lemmas.AttrStoresRender
import AHP.Lemmas.DomBuild
import AHP.Lemmas.DomHtml
import AHP.Lemmas.Search
import AHP.Model.Pickle
import AHP.Model.Format
namespace AHP.TM
open AHP AHP.AttrStores

/-! ### the hub -/

inductive HN where
  | text (s : Str)
  | el (id : Nat) (name : Str) (attrs : AttrState) (sc : Bool) (kids : List HN)
  deriving Repr, Inhabited

/-- ids of the element entries of a block list (`children`) -/
def kidIds : List HN → List Nat
  | [] => []
  | .text _ :: ks => kidIds ks
  | .el i _ _ _ _ :: ks => i :: kidIds ks

/-- concatenation of the text entries of a block list (`text`) -/
def kidText : List HN → Str
  | [] => []
  | .text s :: ks => s ++ kidText ks
  | .el .. :: ks => kidText ks

mutual
/-- all element ids, document order -/
def HN.ids : HN → List Nat
  | .text _ => []
  | .el i _ _ _ ks => i :: idsL ks
def idsL : List HN → List Nat
  | [] => []
  | k :: ks => k.ids ++ idsL ks
end

mutual
/-- number of elements -/
def HN.size : HN → Nat
  | .text _ => 0
  | .el _ _ _ _ ks => 1 + sizeL ks
def sizeL : List HN → Nat
  | [] => 0
  | k :: ks => k.size + sizeL ks
end

mutual
/-- every attribute store in the tree is a Python dict (pairwise distinct keys) — `AttrStores.Inv` -/
def HN.AttrInv : HN → Prop
  | .text _ => True
  | .el _ _ a _ ks => Inv a ∧ AttrInvL ks
def AttrInvL : List HN → Prop
  | [] => True
  | k :: ks => k.AttrInv ∧ AttrInvL ks
end

@[simp] theorem idsL_nil : idsL [] = [] := by simp [idsL]
@[simp] theorem idsL_cons (k : HN) (ks : List HN) : idsL (k :: ks) = k.ids ++ idsL ks := by simp [idsL]
@[simp] theorem ids_text (s : Str) : (HN.text s).ids = [] := by simp [HN.ids]
@[simp] theorem ids_el (i n a sc ks) : (HN.el i n a sc ks).ids = i :: idsL ks := by simp [HN.ids]
@[simp] theorem sizeL_nil : sizeL [] = 0 := by simp [sizeL]
@[simp] theorem sizeL_cons (k : HN) (ks : List HN) : sizeL (k :: ks) = k.size + sizeL ks := by simp [sizeL]
@[simp] theorem size_text (s : Str) : (HN.text s).size = 0 := by simp [HN.size]
@[simp] theorem size_el (i n a sc ks) : (HN.el i n a sc ks).size = 1 + sizeL ks := by simp [HN.size]
@[simp] theorem attrInvL_nil : AttrInvL [] = True := by simp [AttrInvL]
@[simp] theorem attrInvL_cons (k : HN) (ks : List HN) : AttrInvL (k :: ks) = (k.AttrInv ∧ AttrInvL ks) := by
  simp [AttrInvL]
@[simp] theorem attrInv_text (s : Str) : (HN.text s).AttrInv = True := by simp [HN.AttrInv]
@[simp] theorem attrInv_el (i n a sc ks) : (HN.el i n a sc ks).AttrInv = (Inv a ∧ AttrInvL ks) := by
  simp [HN.AttrInv]

mutual
theorem length_ids : ∀ h : HN, h.ids.length = h.size
  | .text _ => by simp
  | .el _ _ _ _ ks => by simp [length_idsL ks]; omega
theorem length_idsL : ∀ ks : List HN, (idsL ks).length = sizeL ks
  | [] => by simp
  | k :: ks => by simp [length_ids k, length_idsL ks]
end

/-! ### (1) `AHP.Node`: forget the identity -/

mutual
def HN.toTree : HN → Node
  | .text s => .text s
  | .el _ n a sc ks => .elem n a sc (toTreeL ks)
def toTreeL : List HN → List Node
  | [] => []
  | k :: ks => k.toTree :: toTreeL ks
end

@[simp] theorem toTreeL_nil : toTreeL [] = [] := by simp [toTreeL]
@[simp] theorem toTreeL_cons (k : HN) (ks : List HN) : toTreeL (k :: ks) = k.toTree :: toTreeL ks := by
  simp [toTreeL]
@[simp] theorem toTree_text (s : Str) : (HN.text s).toTree = .text s := by simp [HN.toTree]
@[simp] theorem toTree_el (i n a sc ks) : (HN.el i n a sc ks).toTree = .elem n a sc (toTreeL ks) := by
  simp [HN.toTree]

theorem toTreeL_eq_map (ks : List HN) : toTreeL ks = ks.map HN.toTree := by
  induction ks with
  | nil => simp
  | cons k ks ih => simp [ih]

mutual
/-- every `AHP.Node` is the image of a hub tree: identities allocated in creation (= document) order from `n` -/
def number : Node → Nat → HN × Nat
  | .text s, n => (.text s, n)
  | .elem nm a sc ks, n => (.el n nm a sc (numberL ks (n + 1)).1, (numberL ks (n + 1)).2)
def numberL : List Node → Nat → List HN × Nat
  | [], n => ([], n)
  | k :: ks, n => ((number k n).1 :: (numberL ks (number k n).2).1, (numberL ks (number k n).2).2)
end

@[simp] theorem number_text (s n) : number (.text s) n = (.text s, n) := by simp [number]
theorem number_elem (nm a sc ks n) :
    number (.elem nm a sc ks) n = (.el n nm a sc (numberL ks (n + 1)).1, (numberL ks (n + 1)).2) := by simp [number]
@[simp] theorem numberL_nil (n) : numberL [] n = ([], n) := by simp [numberL]
theorem numberL_cons (k ks n) : numberL (k :: ks) n =
    ((number k n).1 :: (numberL ks (number k n).2).1, (numberL ks (number k n).2).2) := by simp [numberL]

mutual
theorem toTree_number : ∀ (t : Node) (n : Nat), (number t n).1.toTree = t
  | .text s, n => by simp
  | .elem nm a sc ks, n => by rw [number_elem]; simp [toTreeL_numberL ks (n + 1)]
theorem toTreeL_numberL : ∀ (ks : List Node) (n : Nat), toTreeL (numberL ks n).1 = ks
  | [], n => by simp
  | k :: ks, n => by rw [numberL_cons]; simp [toTree_number k n, toTreeL_numberL ks _]
end

mutual
/-- the identities `number` hands out are the consecutive numbers from `n` on, in document order -/
theorem number_ids : ∀ (t : Node) (n : Nat),
    (number t n).1.ids = List.range' n (number t n).1.size ∧ (number t n).2 = n + (number t n).1.size
  | .text s, n => by simp
  | .elem nm a sc ks, n => by
    obtain ⟨h1, h2⟩ := numberL_ids ks (n + 1)
    rw [number_elem]
    simp only [ids_el, size_el, h1, h2]
    refine ⟨?_, by omega⟩
    rw [Nat.add_comm 1, List.range'_succ]
theorem numberL_ids : ∀ (ks : List Node) (n : Nat),
    idsL (numberL ks n).1 = List.range' n (sizeL (numberL ks n).1) ∧ (numberL ks n).2 = n + sizeL (numberL ks n).1
  | [], n => by simp
  | k :: ks, n => by
    obtain ⟨h1, h2⟩ := number_ids k n
    obtain ⟨h3, h4⟩ := numberL_ids ks (number k n).2
    rw [numberL_cons]
    simp only [idsL_cons, sizeL_cons, h1, h3, h4]
    rw [h2] at h3 ⊢
    refine ⟨?_, by omega⟩
    simp
end

/-! ### (2) `Dom.DN`: embed the plain attribute list, forget the cached fields -/

/-- a plain attribute list as a store of model (1): no class names, no style -/
def plainState (attrs : List Attr) : AttrState := ⟨attrs, [], []⟩

mutual
def ofDom : Dom.DN → HN
  | .text s => .text s
  | .el m bs => .el m.id m.name (plainState m.attrs) m.sc (ofDomL bs)
def ofDomL : List Dom.DN → List HN
  | [] => []
  | b :: bs => ofDom b :: ofDomL bs
end

@[simp] theorem ofDomL_nil : ofDomL [] = [] := by simp [ofDomL]
@[simp] theorem ofDomL_cons (b : Dom.DN) (bs : List Dom.DN) : ofDomL (b :: bs) = ofDom b :: ofDomL bs := by
  simp [ofDomL]
@[simp] theorem ofDom_text (s : Str) : ofDom (.text s) = .text s := by simp [ofDom]
@[simp] theorem ofDom_el (m : Dom.Meta) (bs : List Dom.DN) :
    ofDom (.el m bs) = .el m.id m.name (plainState m.attrs) m.sc (ofDomL bs) := by simp [ofDom]

theorem kidIds_ofDomL (bs : List Dom.DN) : kidIds (ofDomL bs) = Dom.elemIds bs := by
  induction bs with
  | nil => rfl
  | cons b bs ih => cases b <;> simp [kidIds, ih]

theorem kidText_ofDomL (bs : List Dom.DN) : kidText (ofDomL bs) = Dom.textOf bs := by
  induction bs with
  | nil => rfl
  | cons b bs ih => cases b <;> simp [kidText, ih]

/-- The attribute lists `getStartTag` of the DOM model renders the way models (1), (3), (4) do: no `class`, no
    `style` key (they live outside the dict), and no boolean attribute with an empty value (rendered bare). -/
def PlainAttrs (attrs : List Attr) : Prop :=
  ∀ p ∈ attrs, p.1 ≠ kClass ∧ p.1 ≠ kStyle ∧ ¬ (p.2 = some [] ∧ binaryAttrs.contains p.1 = true)

mutual
def PlainDom : Dom.DN → Prop
  | .text _ => True
  | .el m bs => PlainAttrs m.attrs ∧ PlainDomL bs
def PlainDomL : List Dom.DN → Prop
  | [] => True
  | b :: bs => PlainDom b ∧ PlainDomL bs
end

@[simp] theorem plainDomL_nil : PlainDomL [] = True := by simp [PlainDomL]
@[simp] theorem plainDomL_cons (b : Dom.DN) (bs : List Dom.DN) : PlainDomL (b :: bs) = (PlainDom b ∧ PlainDomL bs) := by
  simp [PlainDomL]
@[simp] theorem plainDom_text (s : Str) : PlainDom (.text s) = True := by simp [PlainDom]
@[simp] theorem plainDom_el (m : Dom.Meta) (bs : List Dom.DN) :
    PlainDom (.el m bs) = (PlainAttrs m.attrs ∧ PlainDomL bs) := by simp [PlainDom]

theorem dictDel_of_ne {β : Type} {k : Str} : ∀ {d : List (Str × β)}, (∀ p ∈ d, p.1 ≠ k) → dictDel d k = d := by
  intro d h
  unfold dictDel
  rw [List.filter_eq_self]
  intro p hp
  simpa using h p hp

theorem view_plainState {attrs : List Attr} (h : PlainAttrs attrs) : (plainState attrs).view = attrs := by
  unfold AttrState.view plainState
  simp only [List.isEmpty_nil, if_true]
  rw [tok_class, tok_style, dictDel_of_ne (fun p hp => (h p hp).1), dictDel_of_ne (fun p hp => (h p hp).2.1)]

theorem escapeQuotes_dom (v : Str) : Dom.escapeQuotes v = escQ v := by
  induction v with
  | nil => simp [Dom.escapeQuotes, escQ]
  | cons c cs ih =>
    unfold Dom.escapeQuotes at ih ⊢
    rw [List.flatMap_cons, ih]
    conv => rhs; unfold escQ
    by_cases h : c = '"' <;> simp [h]

theorem attrStr_dom {p : Attr} (h : ¬ (p.2 = some [] ∧ binaryAttrs.contains p.1 = true)) :
    Dom.attrStr p = renderAttr p := by
  obtain ⟨k, v⟩ := p
  cases v with
  | none => rfl
  | some s =>
    simp only [Dom.attrStr, renderAttr, escapeQuotes_dom]
    cases s with
    | nil =>
      have hm : k ∉ binaryAttrs := fun hm => h ⟨rfl, List.contains_iff_mem.mpr hm⟩
      simp [hm, escQ]
    | cons c r => simp

theorem attrsStr_dom : ∀ {attrs : List Attr}, (∀ p ∈ attrs, ¬ (p.2 = some [] ∧ binaryAttrs.contains p.1 = true)) →
    Dom.attrsStr attrs = renderAttrs attrs
  | [], _ => by simp [Dom.attrsStr, renderAttrs]
  | [a], h => by
    simp only [Dom.attrsStr, renderAttrs, List.isEmpty_cons, Bool.false_eq_true, if_false, List.map_cons,
      List.map_nil, joinWith, List.append_nil]
    rw [attrStr_dom (h a (by simp))]
  | a :: b :: r, h => by
    have ih := attrsStr_dom (attrs := b :: r) (fun p hp => h p (by simp [hp]))
    have e : Dom.attrsStr (a :: b :: r) = ' ' :: Dom.attrStr a ++ Dom.attrsStr (b :: r) := rfl
    rw [e, ih, attrStr_dom (h a (by simp))]
    simp [renderAttrs, joinWith]

theorem startTag_dom (m : Dom.Meta) (h : PlainAttrs m.attrs) :
    Dom.startTag m = startTag m.name (plainState m.attrs) m.sc := by
  unfold Dom.startTag startTag startTagI
  rw [view_plainState h, attrsStr_dom (fun p hp => (h p hp).2.2)]
  simp

theorem endTag_dom (m : Dom.Meta) : Dom.endTag m = endTag m.name m.sc := by
  unfold Dom.endTag endTag
  cases m.sc <;> simp

mutual
/-- `outerHTML` of the DOM model = `Node.html` of its image, for every tree with plain attribute lists -/
theorem outerHTML_toTree : ∀ n : Dom.DN, PlainDom n → Dom.outerHTML n = (ofDom n).toTree.html
  | .text s, _ => by simp [Dom.outerHTML, Node.html]
  | .el m bs, h => by
    simp only [plainDom_el] at h
    simp only [Dom.outerHTML, ofDom_el, toTree_el, Node.html, startTag_dom m h.1, endTag_dom, innerL_toTree bs h.2]
theorem innerL_toTree : ∀ bs : List Dom.DN, PlainDomL bs → Dom.innerL bs = htmlL (toTreeL (ofDomL bs))
  | [], _ => by simp [Dom.innerL, htmlL]
  | b :: bs, h => by
    simp only [plainDomL_cons] at h
    simp [Dom.innerL, htmlL, outerHTML_toTree b h.1, innerL_toTree bs h.2]
end

/-! ### (3) `Pk.DN`: attribute store `toP`, object id = uid = the identity, cached fields from the blocks -/

mutual
def HN.toPk (par own : Option Nat) : HN → Pk.DN
  | .text s => .text s
  | .el i n a sc ks => .el i i n (toP a) sc (toPkL (some i) own ks) (kidIds ks) (kidText ks) par own
def toPkL (par own : Option Nat) : List HN → List Pk.DN
  | [] => []
  | k :: ks => k.toPk par own :: toPkL par own ks
end

@[simp] theorem toPkL_nil (p o) : toPkL p o [] = [] := by simp [toPkL]
@[simp] theorem toPkL_cons (p o) (k : HN) (ks : List HN) : toPkL p o (k :: ks) = k.toPk p o :: toPkL p o ks := by
  simp [toPkL]
@[simp] theorem toPk_text (p o) (s : Str) : (HN.text s).toPk p o = .text s := by simp [HN.toPk]
@[simp] theorem toPk_el (p o i n a sc ks) : (HN.el i n a sc ks).toPk p o =
    .el i i n (toP a) sc (toPkL (some i) o ks) (kidIds ks) (kidText ks) p o := by simp [HN.toPk]

theorem pk_endTag (n : Str) (sc : Bool) : (if sc then [] else str "</" ++ n ++ str ">") = endTag n sc := by
  unfold endTag; cases sc <;> simp [str]

mutual
/-- `outerHTML` of the pickle model's image = `Node.html` of the tree image, for every store that is a dict -/
theorem pk_html : ∀ (h : HN) (p o : Option Nat), h.AttrInv → Pk.DN.html (h.toPk p o) = h.toTree.html
  | .text s, _, _, _ => by simp [Pk.DN.html, Node.html]
  | .el i n a sc ks, p, o, hi => by
    simp only [attrInv_el] at hi
    simp only [toPk_el, toTree_el, Pk.DN.html, Node.html, startTag_toP n sc hi.1, pk_endTag,
      pk_htmlL ks (some i) o hi.2]
theorem pk_htmlL : ∀ (ks : List HN) (p o : Option Nat), AttrInvL ks → Pk.DN.htmlL (toPkL p o ks) = htmlL (toTreeL ks)
  | [], _, _, _ => by simp [Pk.DN.htmlL, htmlL]
  | k :: ks, p, o, hi => by
    simp only [attrInvL_cons] at hi
    simp [Pk.DN.htmlL, htmlL, pk_html k p o hi.1, pk_htmlL ks p o hi.2]
end

theorem pk_inner (h : HN) (p o : Option Nat) (hi : h.AttrInv) (hel : ∃ i n a sc ks, h = .el i n a sc ks) :
    Pk.DN.inner (h.toPk p o) = h.toTree.innerHTML := by
  obtain ⟨i, n, a, sc, ks, rfl⟩ := hel
  simp only [attrInv_el] at hi
  simp only [toPk_el, toTree_el, Pk.DN.inner, Node.innerHTML, pk_htmlL ks (some i) o hi.2]

/-- a plain attribute list with pairwise distinct names is a dict -/
theorem inv_plainState {attrs : List Attr} (h : (keys attrs).Nodup) : Inv (plainState attrs) := h

mutual
/-- the attribute lists of a DOM tree are Python dicts -/
def DictDom : Dom.DN → Prop
  | .text _ => True
  | .el m bs => (keys m.attrs).Nodup ∧ DictDomL bs
def DictDomL : List Dom.DN → Prop
  | [] => True
  | b :: bs => DictDom b ∧ DictDomL bs
end

mutual
theorem attrInv_ofDom : ∀ n : Dom.DN, DictDom n → (ofDom n).AttrInv
  | .text _, _ => by simp
  | .el m bs, h => by
    simp only [DictDom] at h
    simp only [ofDom_el, attrInv_el]
    exact ⟨inv_plainState h.1, attrInvL_ofDomL bs h.2⟩
theorem attrInvL_ofDomL : ∀ bs : List Dom.DN, DictDomL bs → AttrInvL (ofDomL bs)
  | [], _ => by simp
  | b :: bs, h => by
    simp only [DictDomL] at h
    simp only [ofDomL_cons, attrInvL_cons]
    exact ⟨attrInv_ofDom b h.1, attrInvL_ofDomL bs h.2⟩
end

/-! #### the cached fields: under `OK` the DOM model keeps exactly what the blocks determine -/

/-- the DOM element copied field by field into the pickle model's element (cached fields as stored) -/
def rawAttrs (attrs : List Attr) : Pk.Attrs := toP (plainState attrs)

mutual
def rawPk : Dom.DN → Pk.DN
  | .text s => .text s
  | .el m bs => .el m.id m.id m.name (rawAttrs m.attrs) m.sc (rawPkL bs) m.children m.text m.parent m.owner
def rawPkL : List Dom.DN → List Pk.DN
  | [] => []
  | b :: bs => rawPk b :: rawPkL bs
end

mutual
/-- C04's invariant says exactly that the stored fields are the recomputed ones -/
theorem rawPk_eq_toPk : ∀ (n : Dom.DN) (p o : Option Nat), Dom.OK p o n → rawPk n = (ofDom n).toPk p o
  | .text s, _, _, _ => by simp [rawPk]
  | .el m bs, p, o, h => by
    rw [Dom.OK_el] at h
    obtain ⟨h1, h2, h3, h4, _, h6⟩ := h
    simp only [rawPk, ofDom_el, toPk_el, kidIds_ofDomL, kidText_ofDomL, h1, h2, h3, h4, rawAttrs,
      rawPkL_eq_toPkL bs (some m.id) o h6]
theorem rawPkL_eq_toPkL : ∀ (bs : List Dom.DN) (p o : Option Nat), Dom.OKL p o bs → rawPkL bs = toPkL p o (ofDomL bs)
  | [], _, _, _ => by simp [rawPkL]
  | b :: bs, p, o, h => by
    simp only [Dom.OKL_cons] at h
    simp [rawPkL, rawPk_eq_toPk b p o h.1, rawPkL_eq_toPkL bs p o h.2]
end

/-! ### (6) `Fmt.Node`: attribute store `toF`, the plain element class, no indent -/

mutual
def toFmt : Node → Fmt.Node
  | .text s => .text false s
  | .elem n a sc ks => .elem .normal n (toF a) sc [] (toFmtL ks)
def toFmtL : List Node → List Fmt.Node
  | [] => []
  | k :: ks => toFmt k :: toFmtL ks
end

@[simp] theorem toFmtL_nil : toFmtL [] = [] := by simp [toFmtL]
@[simp] theorem toFmtL_cons (k : Node) (ks : List Node) : toFmtL (k :: ks) = toFmt k :: toFmtL ks := by simp [toFmtL]
@[simp] theorem toFmt_text (s : Str) : toFmt (.text s) = .text false s := by simp [toFmt]
@[simp] theorem toFmt_elem (n a sc ks) : toFmt (.elem n a sc ks) = .elem .normal n (toF a) sc [] (toFmtL ks) := by
  simp [toFmt]

theorem toFmtL_eq_map (ks : List Node) : toFmtL ks = ks.map toFmt := by
  induction ks with
  | nil => simp
  | cons k ks ih => simp [ih]

theorem toFmtL_append (a b : List Node) : toFmtL (a ++ b) = toFmtL a ++ toFmtL b := by
  simp [toFmtL_eq_map]

theorem toFmtL_reverse (a : List Node) : toFmtL a.reverse = (toFmtL a).reverse := by
  simp [toFmtL_eq_map]

mutual
def TreeInv : Node → Prop
  | .text _ => True
  | .elem _ a _ ks => Inv a ∧ TreeInvL ks
def TreeInvL : List Node → Prop
  | [] => True
  | k :: ks => TreeInv k ∧ TreeInvL ks
end

theorem fmt_endTag (n : Str) (sc : Bool) (kids : List Fmt.Node) : Fmt.endTag n sc [] kids = endTag n sc := by
  unfold Fmt.endTag endTag
  cases sc <;> simp [str]

mutual
/-- `outerHTML` of the formatter model's tree (plain class, no indent) = `Node.html` -/
theorem fmt_outer : ∀ t : Node, TreeInv t → Fmt.outer (toFmt t) = t.html
  | .text s, _ => by simp [Fmt.outer, Node.html]
  | .elem n a sc ks, h => by
    simp only [TreeInv] at h
    have hs := startTag_toF n [] sc h.1
    simp only [toFmt_elem, Fmt.outer, Fmt.startTag, Node.html, fmt_endTag, fmt_innerL ks h.2, hs, startTag]
theorem fmt_innerL : ∀ ks : List Node, TreeInvL ks → Fmt.innerL (toFmtL ks) = htmlL ks
  | [], _ => by simp [Fmt.innerL, htmlL]
  | k :: ks, h => by
    simp only [TreeInvL] at h
    simp [Fmt.innerL, htmlL, fmt_outer k h.1, fmt_innerL ks h.2]
end

mutual
theorem attrInv_toTree : ∀ h : HN, h.AttrInv → TreeInv h.toTree
  | .text _, _ => by simp [TreeInv]
  | .el _ _ _ _ ks, hi => by
    simp only [attrInv_el] at hi
    simp only [toTree_el, TreeInv]
    exact ⟨hi.1, attrInvL_toTreeL ks hi.2⟩
theorem attrInvL_toTreeL : ∀ ks : List HN, AttrInvL ks → TreeInvL (toTreeL ks)
  | [], _ => by simp [TreeInvL]
  | k :: ks, hi => by
    simp only [attrInvL_cons] at hi
    simp only [toTreeL_cons, TreeInvL]
    exact ⟨attrInv_toTree k hi.1, attrInvL_toTreeL ks hi.2⟩
end

end AHP.TM
