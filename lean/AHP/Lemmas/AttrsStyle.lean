/-
  AHP.Lemmas.AttrsStyle — C10: `styleToDict` and `_asStr`.
    * trimming the whole string first does not change what the declarations parse to (`parseItems_strip`);
    * `styleToDict (asStr m) = m` for maps with trimmed, lower-case, `:`/`;`-free names and trimmed `;`-free values (`StyRT`);
    * `StyRT (styleToDict s)` for every string `s`;
    * `styleEq` is extensional equality of the maps, hence blind to order.
-/
import AHP.Lemmas.AttrsMap
namespace AHP.Attrs
open AHP

/-! #### white space at the ends -/

def AllWs (w : Str) : Prop := ∀ c ∈ w, isWs c = true

theorem dropWhile_allWs_append {w : Str} (hw : AllWs w) (t : Str) : (w ++ t).dropWhile isWs = t.dropWhile isWs := by
  induction w with
  | nil => rfl
  | cons c r ih =>
    have hc : isWs c = true := hw c (by simp)
    show List.dropWhile isWs (c :: (r ++ t)) = _
    rw [List.dropWhile_cons_of_pos hc]
    exact ih (fun x hx => hw x (List.mem_cons_of_mem _ hx))

theorem dropWhile_allWs {w : Str} (hw : AllWs w) : w.dropWhile isWs = [] := by
  have := dropWhile_allWs_append hw []
  simpa using this

theorem lstrip_ws_append {w : Str} (hw : AllWs w) (t : Str) : lstrip (w ++ t) = lstrip t := dropWhile_allWs_append hw t

theorem allWs_reverse {w : Str} (hw : AllWs w) : AllWs w.reverse := fun c hc => hw c (List.mem_reverse.mp hc)

theorem rstrip_append_ws {w : Str} (hw : AllWs w) (t : Str) : rstrip (t ++ w) = rstrip t := by
  unfold rstrip
  rw [List.reverse_append, dropWhile_allWs_append (allWs_reverse hw)]

theorem strip_ws_append {w : Str} (hw : AllWs w) (t : Str) : strip (w ++ t) = strip t := by
  unfold strip
  rw [lstrip_ws_append hw]

theorem strip_append_ws {w : Str} (hw : AllWs w) (t : Str) : strip (t ++ w) = strip t := by
  unfold strip lstrip
  rw [List.dropWhile_append]
  split
  · next h =>
    have h0 : t.dropWhile isWs = [] := by simpa using h
    rw [dropWhile_allWs hw, h0]
  · exact rstrip_append_ws hw _

theorem takeWhile_allWs (s : Str) : AllWs (s.takeWhile isWs) := by
  intro c hc
  induction s with
  | nil => simp at hc
  | cons a r ih =>
    by_cases ha : isWs a = true
    · simp only [List.takeWhile, ha] at hc
      rcases List.mem_cons.mp hc with h | h
      · subst h; exact ha
      · exact ih h
    · have : isWs a = false := by simpa using ha
      simp [List.takeWhile, this] at hc

/-- `s = w ++ lstrip s` with `w` blank -/
theorem lstrip_decomp (s : Str) : ∃ w, AllWs w ∧ s = w ++ lstrip s :=
  ⟨s.takeWhile isWs, takeWhile_allWs s, (List.takeWhile_append_dropWhile (p := isWs) (l := s)).symm⟩

/-- `s = rstrip s ++ w` with `w` blank -/
theorem rstrip_decomp (s : Str) : ∃ w, AllWs w ∧ s = rstrip s ++ w := by
  obtain ⟨w, hw, h⟩ := lstrip_decomp s.reverse
  refine ⟨w.reverse, allWs_reverse hw, ?_⟩
  have := congrArg List.reverse h
  rw [List.reverse_reverse, List.reverse_append] at this
  exact this

theorem strip_idem (s : Str) : strip (strip s) = strip s := by
  obtain ⟨w1, hw1, h1⟩ := lstrip_decomp s
  obtain ⟨w2, hw2, h2⟩ := rstrip_decomp (lstrip s)
  have hs : strip s = rstrip (lstrip s) := rfl
  have : s = w1 ++ (strip s ++ w2) := by rw [hs, ← h2, ← h1]
  have e : strip s = strip (strip s) := by
    conv => lhs; rw [this, strip_ws_append hw1, strip_append_ws hw2]
  exact e.symm

theorem isWs_lowerChar (c : Char) : isWs (lowerChar c) = isWs c := by
  unfold lowerChar
  split
  · next h =>
    have h1 : ∀ n : Nat, n < 91 → 65 ≤ n → isWs (Char.ofNat (n + 32)) = false ∧ isWs (Char.ofNat n) = false := by decide
    have ha : 65 ≤ c.toNat := h.1
    have hz : c.toNat ≤ 90 := h.2
    have := h1 c.toNat (by omega) ha
    rw [this.1]
    have hc : Char.ofNat c.toNat = c := Char.ofNat_toNat c
    rw [hc] at this
    exact this.2.symm
  · rfl

theorem dropWhile_lower : ∀ s : Str, (lower s).dropWhile isWs = lower (s.dropWhile isWs)
  | [] => rfl
  | c :: r => by
    show List.dropWhile isWs (lowerChar c :: lower r) = _
    by_cases hc : isWs c = true
    · rw [List.dropWhile_cons_of_pos (by rw [isWs_lowerChar]; exact hc), List.dropWhile_cons_of_pos hc]
      exact dropWhile_lower r
    · rw [List.dropWhile_cons_of_neg (by rw [isWs_lowerChar]; exact hc), List.dropWhile_cons_of_neg hc]
      rfl

theorem strip_lower (s : Str) : strip (lower s) = lower (strip s) := by
  unfold strip rstrip lstrip
  rw [dropWhile_lower]
  have h1 : (lower (List.dropWhile isWs s)).reverse = lower (List.dropWhile isWs s).reverse := by
    unfold lower; rw [List.map_reverse]
  rw [h1, dropWhile_lower]
  unfold lower
  rw [List.map_reverse]

/-! #### `findColon`, `styleItem` -/

theorem findColon_fst_no_colon : ∀ {s a b : Str}, findColon s = some (a, b) → ':' ∉ a ∧ s = a ++ ':' :: b
  | [], a, b, h => by simp [findColon] at h
  | c :: r, a, b, h => by
    unfold findColon at h
    split at h
    · next hc =>
      simp at h
      obtain ⟨rfl, rfl⟩ := h
      subst hc
      simp
    · next hc =>
      split at h
      · cases h
      · next a' b' heq =>
        simp at h
        obtain ⟨rfl, rfl⟩ := h
        have := findColon_fst_no_colon heq
        refine ⟨?_, by rw [this.2]; simp⟩
        intro hm
        rcases List.mem_cons.mp hm with hm | hm
        · exact hc hm.symm
        · exact this.1 hm

theorem findColon_none_iff : ∀ {s : Str}, findColon s = none ↔ ':' ∉ s
  | [] => by simp [findColon]
  | c :: r => by
    have ih := findColon_none_iff (s := r)
    unfold findColon
    by_cases hc : c = ':'
    · simp [hc]
    · simp only [hc, if_false]
      rcases hf : findColon r with _ | ⟨a, b⟩
      · have := ih.mp hf
        simp only [true_iff]
        intro hm
        rcases List.mem_cons.mp hm with hm | hm
        · exact hc hm.symm
        · exact this hm
      · simp only [false_iff, reduceCtorEq]
        intro hn
        have : ':' ∉ r := fun m => hn (List.mem_cons_of_mem _ m)
        rw [ih.mpr this] at hf
        cases hf

theorem findColon_append_of_no_colon : ∀ {a : Str} (b : Str), ':' ∉ a → findColon (a ++ ':' :: b) = some (a, b)
  | [], b, _ => by simp [findColon]
  | c :: a, b, h => by
    have hc : ¬ c = ':' := fun e => h (by simp [e])
    have ha : ':' ∉ a := fun m => h (List.mem_cons_of_mem _ m)
    show findColon (c :: (a ++ ':' :: b)) = _
    unfold findColon
    rw [if_neg hc, findColon_append_of_no_colon b ha]

theorem allWs_no_colon {w : Str} (hw : AllWs w) : ':' ∉ w := fun m => by
  have := hw ':' m
  simp [isWs] at this

theorem allWs_no_semi {w : Str} (hw : AllWs w) : ';' ∉ w := fun m => by
  have := hw ';' m
  simp [isWs] at this

theorem styleItem_ws_append {w : Str} (hw : AllWs w) (d : AL Str) (x : Str) : styleItem d (w ++ x) = styleItem d x := by
  unfold styleItem
  rcases hf : findColon x with _ | ⟨a, b⟩
  · have h1 : ':' ∉ w ++ x := by
      intro hm
      rcases List.mem_append.mp hm with hm | hm
      · exact allWs_no_colon hw hm
      · exact findColon_none_iff.mp hf hm
    rw [findColon_none_iff.mpr h1]
  · have h2 := findColon_fst_no_colon hf
    have h3 : ':' ∉ w ++ a := by
      intro hm
      rcases List.mem_append.mp hm with hm | hm
      · exact allWs_no_colon hw hm
      · exact h2.1 hm
    have : findColon (w ++ x) = some (w ++ a, b) := by
      rw [h2.2, ← List.append_assoc]
      exact findColon_append_of_no_colon b h3
    rw [this]
    simp only
    rw [strip_ws_append hw]

theorem styleItem_append_ws {w : Str} (hw : AllWs w) (d : AL Str) (x : Str) : styleItem d (x ++ w) = styleItem d x := by
  unfold styleItem
  rcases hf : findColon x with _ | ⟨a, b⟩
  · have h1 : ':' ∉ x ++ w := by
      intro hm
      rcases List.mem_append.mp hm with hm | hm
      · exact findColon_none_iff.mp hf hm
      · exact allWs_no_colon hw hm
    rw [findColon_none_iff.mpr h1]
  · have h2 := findColon_fst_no_colon hf
    have : findColon (x ++ w) = some (a, b ++ w) := by
      rw [h2.2, List.append_assoc]
      show findColon (a ++ ':' :: (b ++ w)) = _
      exact findColon_append_of_no_colon _ h2.1
    rw [this]
    simp only
    rw [strip_append_ws hw]

/-! #### `splitChar ';'` at both ends -/

def parseItems (d : AL Str) (s : Str) : AL Str := (splitChar ';' s).foldl styleItem d

theorem styleToDict_eq (s : Str) : styleToDict s = parseItems [] (strip s) := rfl

theorem splitChar_ws_prepend {w : Str} (hw : ';' ∉ w) (t : Str) :
    ∃ first rest, splitChar ';' t = first :: rest ∧ splitChar ';' (w ++ t) = (w ++ first) :: rest := by
  induction w with
  | nil =>
    rcases hs : splitChar ';' t with _ | ⟨f, r⟩
    · exact absurd hs (splitChar_ne_nil _ _)
    · exact ⟨f, r, rfl, by simpa using hs⟩
  | cons c w ih =>
    have hc : ¬ c = ';' := fun e => hw (by simp [e])
    obtain ⟨f, r, h1, h2⟩ := ih (fun m => hw (List.mem_cons_of_mem _ m))
    obtain ⟨f', r', h3, h4⟩ := splitChar_cons_ne hc (w ++ t)
    rw [h2] at h3
    simp at h3
    refine ⟨f, r, h1, ?_⟩
    show splitChar ';' (c :: (w ++ t)) = _
    rw [h4, ← h3.1, ← h3.2]
    rfl

theorem splitChar_append_ws {w : Str} (hw : ';' ∉ w) : ∀ (t : Str),
    ∃ init last, splitChar ';' t = init ++ [last] ∧ splitChar ';' (t ++ w) = init ++ [last ++ w]
  | [] => ⟨[], [], by simp [splitChar], by simpa using splitChar_no_sep hw⟩
  | c :: t => by
    obtain ⟨init, last, h1, h2⟩ := splitChar_append_ws hw t
    by_cases hc : c = ';'
    · subst hc
      refine ⟨[] :: init, last, ?_, ?_⟩
      · rw [splitChar_cons_sep, h1]; rfl
      · show splitChar ';' (';' :: (t ++ w)) = _
        rw [splitChar_cons_sep, h2]; rfl
    · obtain ⟨f, r, h3, h4⟩ := splitChar_cons_ne hc t
      obtain ⟨f', r', h5, h6⟩ := splitChar_cons_ne hc (t ++ w)
      rcases init with _ | ⟨i0, is⟩
      · rw [h1] at h3; simp at h3
        rw [h2] at h5; simp at h5
        obtain ⟨h3a, h3b⟩ := h3
        obtain ⟨h5a, h5b⟩ := h5
        subst h3a h3b h5a h5b
        refine ⟨[], c :: last, ?_, ?_⟩
        · rw [h4]; rfl
        · show splitChar ';' (c :: (t ++ w)) = _
          rw [h6]; rfl
      · rw [h1] at h3; simp at h3
        rw [h2] at h5; simp at h5
        obtain ⟨h3a, h3b⟩ := h3
        obtain ⟨h5a, h5b⟩ := h5
        subst h3a h3b h5a h5b
        refine ⟨(c :: i0) :: is, last, ?_, ?_⟩
        · rw [h4]; rfl
        · show splitChar ';' (c :: (t ++ w)) = _
          rw [h6]; rfl

theorem parseItems_ws_prepend {w : Str} (hw : AllWs w) (d : AL Str) (t : Str) : parseItems d (w ++ t) = parseItems d t := by
  obtain ⟨f, r, h1, h2⟩ := splitChar_ws_prepend (allWs_no_semi hw) t
  unfold parseItems
  rw [h1, h2]
  simp only [List.foldl_cons, styleItem_ws_append hw]

theorem parseItems_append_ws {w : Str} (hw : AllWs w) (d : AL Str) (t : Str) : parseItems d (t ++ w) = parseItems d t := by
  obtain ⟨init, last, h1, h2⟩ := splitChar_append_ws (allWs_no_semi hw) t
  unfold parseItems
  rw [h1, h2]
  simp only [List.foldl_append, List.foldl_cons, List.foldl_nil, styleItem_append_ws hw]

/-- the `styleStr.strip()` at the head of `styleToDict` is redundant: every declaration is trimmed anyway -/
theorem parseItems_strip (d : AL Str) (s : Str) : parseItems d (strip s) = parseItems d s := by
  obtain ⟨w1, hw1, h1⟩ := lstrip_decomp s
  obtain ⟨w2, hw2, h2⟩ := rstrip_decomp (lstrip s)
  have hs : strip s = rstrip (lstrip s) := rfl
  conv => rhs; rw [h1, parseItems_ws_prepend hw1, h2, parseItems_append_ws hw2]
  rw [hs]

theorem parseItems_sep {x : Str} (hx : ';' ∉ x) (d : AL Str) (y : Str) :
    parseItems d (x ++ ';' :: y) = parseItems (styleItem d x) y := by
  unfold parseItems
  rw [splitChar_append_sep _ hx]
  rfl

theorem parseItems_single {x : Str} (hx : ';' ∉ x) (d : AL Str) : parseItems d x = styleItem d x := by
  unfold parseItems
  rw [splitChar_no_sep hx]
  rfl

/-! #### the round trip -/

/-- a declaration `_asStr` renders and `styleToDict` reads back unchanged -/
structure GoodDecl (p : Str × Str) : Prop where
  nameTrim : strip p.1 = p.1
  nameLower : lower p.1 = p.1
  nameColon : ':' ∉ p.1
  nameSemi : ';' ∉ p.1
  valTrim : strip p.2 = p.2
  valSemi : ';' ∉ p.2

def StyRT (m : AL Str) : Prop := (akeys m).Nodup ∧ ∀ p ∈ m, GoodDecl p

theorem declStr_no_semi {p : Str × Str} (h : GoodDecl p) : ';' ∉ declStr p := by
  unfold declStr
  intro hm
  rcases List.mem_append.mp hm with hm | hm
  · rcases List.mem_append.mp hm with hm | hm
    · exact h.nameSemi hm
    · simp at hm
  · exact h.valSemi hm

theorem styleItem_declStr {p : Str × Str} (h : GoodDecl p) (d : AL Str) : styleItem d (declStr p) = aset p.1 p.2 d := by
  unfold styleItem declStr
  have : findColon (p.1 ++ [':', ' '] ++ p.2) = some (p.1, ' ' :: p.2) := by
    have := findColon_append_of_no_colon (' ' :: p.2) h.nameColon
    simpa using this
  rw [this]
  simp only
  have hsp : AllWs [' '] := by intro c hc; simp at hc; subst hc; rfl
  have : strip (' ' :: p.2) = p.2 := by
    have := strip_ws_append hsp p.2
    rw [h.valTrim] at this
    exact this
  rw [this, h.nameTrim, h.nameLower]

theorem parseItems_space (d : AL Str) (t : Str) : parseItems d (' ' :: t) = parseItems d t := by
  have hsp : AllWs [' '] := by intro c hc; simp at hc; subst hc; rfl
  exact parseItems_ws_prepend hsp d t

theorem parseItems_join : ∀ (m : AL Str) (d : AL Str), m ≠ [] → (∀ p ∈ m, GoodDecl p) →
    parseItems d (joinWith [';', ' '] (m.map declStr)) = m.foldl (fun d p => aset p.1 p.2 d) d
  | [], _, h, _ => absurd rfl h
  | [p], d, _, hg => by
    have hp := hg p (by simp)
    simp only [List.map_cons, List.map_nil, joinWith, List.foldl_cons, List.foldl_nil]
    rw [parseItems_single (declStr_no_semi hp), styleItem_declStr hp]
  | p :: q :: m, d, _, hg => by
    have hp := hg p (by simp)
    have ih := parseItems_join (q :: m) (aset p.1 p.2 d) (by simp) (fun x hx => hg x (List.mem_cons_of_mem _ hx))
    simp only [List.map_cons, List.foldl_cons] at ih ⊢
    rw [joinWith_cons_cons]
    have : declStr p ++ [';', ' '] ++ joinWith [';', ' '] (declStr q :: List.map declStr m)
        = declStr p ++ ';' :: (' ' :: joinWith [';', ' '] (declStr q :: List.map declStr m)) := by simp
    rw [this, parseItems_sep (declStr_no_semi hp), parseItems_space, styleItem_declStr hp]
    exact ih

theorem aset_of_not_mem {α : Type} {k : Str} (v : α) : ∀ {d : AL α}, k ∉ akeys d → aset k v d = d ++ [(k, v)]
  | [], _ => rfl
  | (k0, v0) :: r, h => by
    have h0 : k0 ≠ k := fun e => h (by simp [akeys, e])
    have hr : k ∉ akeys r := fun m => h (by simp only [akeys, List.map_cons]; exact List.mem_cons_of_mem _ m)
    unfold aset
    rw [if_neg h0, aset_of_not_mem v hr]
    rfl

theorem foldl_aset_fresh : ∀ (m d : AL Str), (akeys m).Nodup → (∀ k ∈ akeys m, k ∉ akeys d) →
    m.foldl (fun d p => aset p.1 p.2 d) d = d ++ m
  | [], d, _, _ => by simp
  | (k, v) :: m, d, hn, hd => by
    have hn' : k ∉ akeys m ∧ (akeys m).Nodup := by simpa [akeys] using hn
    simp only [List.foldl_cons]
    rw [aset_of_not_mem v (hd k (by simp [akeys]))]
    rw [foldl_aset_fresh m _ hn'.2]
    · simp
    · intro k' hk' hm
      have : akeys (d ++ [(k, v)]) = akeys d ++ [k] := by simp [akeys]
      rw [this] at hm
      rcases List.mem_append.mp hm with hm | hm
      · exact hd k' (by simp only [akeys, List.map_cons]; exact List.mem_cons_of_mem _ hk') hm
      · simp at hm; subst hm; exact hn'.1 hk'

/-- C10c: parse ∘ render is the identity on round-trippable maps -/
theorem styleToDict_asStr {m : AL Str} (h : StyRT m) : styleToDict (asStr m) = m := by
  rw [styleToDict_eq, parseItems_strip]
  by_cases hm : m = []
  · subst hm; rfl
  · unfold asStr
    rw [parseItems_join m [] hm h.2, foldl_aset_fresh m [] h.1 (by intro k _ hk; simp [akeys] at hk)]
    rfl

/-! #### every parsed string is round-trippable -/

theorem styRT_nil : StyRT [] := ⟨by simp [akeys], by intro p hp; cases hp⟩

theorem styRT_aset {d : AL Str} (h : StyRT d) {n v : Str} (hg : GoodDecl (n, v)) : StyRT (aset n v d) := by
  refine ⟨nodup_aset _ _ h.1, ?_⟩
  intro p hp
  rcases mem_aset hp with hp | hp
  · subst hp; exact hg
  · exact h.2 p hp

theorem styRT_adel {d : AL Str} (h : StyRT d) (n : Str) : StyRT (adel n d) :=
  ⟨nodup_adel _ h.1, fun p hp => h.2 p (mem_adel.mp hp).1⟩

theorem not_mem_strip {x : Char} {s : Str} (h : x ∉ s) : x ∉ strip s := fun m => h (mem_strip m)

theorem mem_lower_of_nonletter {x : Char} (hx : lowerChar x = x) (hx2 : ∀ c, lowerChar c = x → c = x) {s : Str}
    (h : x ∈ lower s) : x ∈ s := by
  unfold lower at h
  obtain ⟨c, hc, he⟩ := List.mem_map.mp h
  rw [hx2 c he] at hc
  exact hc

theorem lowerChar_eq_punct {x : Char} (hx : ¬ ('a' ≤ x ∧ x ≤ 'z')) (c : Char) (h : lowerChar c = x) : c = x := by
  unfold lowerChar at h
  split at h
  · next hc =>
    have h1 : ∀ n : Nat, n < 91 → 65 ≤ n → ('a' ≤ Char.ofNat (n + 32) ∧ Char.ofNat (n + 32) ≤ 'z') := by decide
    have ha : 65 ≤ c.toNat := hc.1
    have hz : c.toNat ≤ 90 := hc.2
    have := h1 c.toNat (by omega) ha
    rw [h] at this
    exact absurd this hx
  · exact h

theorem styRT_styleItem {d : AL Str} (h : StyRT d) {item : Str} (hi : ';' ∉ item) : StyRT (styleItem d item) := by
  unfold styleItem
  rcases hf : findColon item with _ | ⟨a, b⟩
  · exact h
  · have h2 := findColon_fst_no_colon hf
    have ha : ';' ∉ a := fun m => hi (by rw [h2.2]; exact List.mem_append_left _ m)
    have hb : ';' ∉ b := fun m => hi (by rw [h2.2]; exact List.mem_append_right _ (List.mem_cons_of_mem _ m))
    apply styRT_aset h
    refine ⟨?_, lower_idem _, ?_, ?_, strip_idem b, not_mem_strip hb⟩
    · show strip (lower (strip a)) = lower (strip a)
      rw [strip_lower, strip_idem]
    · intro hm
      exact not_mem_strip h2.1 (mem_lower_of_nonletter (by decide) (lowerChar_eq_punct (by decide)) hm)
    · intro hm
      exact not_mem_strip ha (mem_lower_of_nonletter (by decide) (lowerChar_eq_punct (by decide)) hm)

theorem styRT_foldl_styleItem : ∀ (items : List Str) {d : AL Str}, StyRT d → (∀ it ∈ items, ';' ∉ it) →
    StyRT (items.foldl styleItem d)
  | [], _, h, _ => h
  | it :: items, _, h, hi => by
    simp only [List.foldl_cons]
    exact styRT_foldl_styleItem items (styRT_styleItem h (hi it (by simp))) (fun x hx => hi x (List.mem_cons_of_mem _ hx))

/-- C10c: whatever the string, `styleToDict` yields a round-trippable map: distinct, trimmed, lower-case names -/
theorem styRT_styleToDict (s : Str) : StyRT (styleToDict s) :=
  styRT_foldl_styleItem _ styRT_nil (fun _ hit => (mem_splitChar hit).1)

/-- C10c: a style string parses to the same mapping that its rendering parses to -/
theorem styleToDict_render_idem (s : Str) : styleToDict (asStr (styleToDict s)) = styleToDict s :=
  styleToDict_asStr (styRT_styleToDict s)

/-! #### equality -/

theorem styleEq_iff_ext (a b : AL Str) : styleEq a b = true ↔ ∀ k, aget k a = aget k b := by
  unfold styleEq
  simp only [Bool.and_eq_true, List.all_eq_true, List.contains_iff_mem, beq_iff_eq]
  constructor
  · rintro ⟨⟨hab, hba⟩, hv⟩ k
    by_cases hk : k ∈ akeys a
    · exact hv k hk
    · have hkb : k ∉ akeys b := fun m => hk (hba k m)
      rw [aget_eq_none_iff.mpr hk, aget_eq_none_iff.mpr hkb]
  · intro h
    refine ⟨⟨?_, ?_⟩, fun k _ => h k⟩
    · intro k hk
      apply Classical.byContradiction
      intro hn
      have := aget_eq_none_iff.mpr hn
      rw [← h k] at this
      exact (aget_eq_none_iff.mp this) hk
    · intro k hk
      apply Classical.byContradiction
      intro hn
      have := aget_eq_none_iff.mpr hn
      rw [h k] at this
      exact (aget_eq_none_iff.mp this) hk

theorem aget_perm {a b : AL Str} (hp : a.Perm b) (hn : (akeys a).Nodup) (k : Str) : aget k a = aget k b := by
  have hnb : (akeys b).Nodup := (List.Perm.nodup_iff (List.Perm.map _ hp)).mp hn
  rcases ha : aget k a with _ | v
  · have : k ∉ akeys a := aget_eq_none_iff.mp ha
    have : k ∉ akeys b := fun m => this ((List.Perm.mem_iff (List.Perm.map _ hp)).mpr m)
    exact (aget_eq_none_iff.mpr this).symm
  · have := (List.Perm.mem_iff hp).mp (aget_some_mem ha)
    exact (aget_of_mem_nodup hnb this).symm

/-- C10d: style equality ignores the order of the properties -/
theorem styleEq_of_perm {a b : AL Str} (hp : a.Perm b) (hn : (akeys a).Nodup) : styleEq a b = true :=
  (styleEq_iff_ext a b).mpr (aget_perm hp hn)

end AHP.Attrs
