/-
  Helper lemmas for C14f, fuel: every tokenizer of AHP.Model.XPathParse hands back a strictly shorter text, so
  the recursion depth of `loop` / `item` is bounded by twice the length of the text and the fuel the entry points
  start with is never used up: more fuel gives the same answer (`none` always means "the library raises").
-/
import AHP.Model.XPathParse
namespace AHP.XPath

variable {N : Type}
set_option linter.unusedSimpArgs false

/-! ### Lengths -/

theorem dropWhile_length_le (p : Char → Bool) (s : Str) : (s.dropWhile p).length ≤ s.length := by
  induction s with
  | nil => simp
  | cons c r ih =>
    simp only [List.dropWhile]
    split
    · simp only [List.length_cons]; omega
    · simp

theorem skipSp_length_le (s : Str) : (skipSp s).length ≤ s.length := dropWhile_length_le _ s

theorem strip_length_le (s : Str) : (strip s).length ≤ s.length := by
  unfold strip rstrip lstrip
  have h1 := dropWhile_length_le isWs s
  have h2 := dropWhile_length_le isWs (s.dropWhile isWs).reverse
  simp only [List.length_reverse] at h2 ⊢
  omega

theorem dotPlusEnd_length {r b : Str} (h : dotPlusEnd r = some b) : b.length ≤ r.length := by
  unfold dotPlusEnd at h
  by_cases hl : r.getLast? = some '\n'
  · rw [if_pos hl] at h
    simp only at h
    split at h
    · cases h
    · simp only [Option.some.injEq] at h
      rw [← h]; simp
  · rw [if_neg hl] at h
    simp only at h
    split at h
    · cases h
    · simp only [Option.some.injEq] at h
      rw [← h]; exact Nat.le_refl _

theorem wordCI_length : ∀ (w s r : Str), wordCI w s = some r → r.length + w.length = s.length
  | [], s, r, h => by
    simp only [wordCI, Option.some.injEq] at h
    subst h; simp
  | x :: w, [], r, h => by simp [wordCI] at h
  | x :: w, c :: cs, r, h => by
    simp only [wordCI] at h
    split at h
    · have := wordCI_length w cs r h
      simp only [List.length_cons]; omega
    · cases h

theorem groupOpen_length {s b : Str} (h : groupOpen s = some b) : b.length < s.length := by
  unfold groupOpen at h
  have hs := skipSp_length_le s
  split at h
  · next r heq =>
    have := dotPlusEnd_length h
    rw [heq] at hs
    simp only [List.length_cons] at hs
    omega
  · cases h

theorem groupClose_length {s r : Str} (h : groupClose s = some r) : r.length < s.length := by
  unfold groupClose at h
  have hs := skipSp_length_le s
  split at h
  · next r' heq =>
    simp only [Option.some.injEq] at h
    subst h
    have := skipSp_length_le r'
    rw [heq] at hs
    simp only [List.length_cons] at hs
    omega
  · cases h

theorem nextArg_length {s r : Str} (h : nextArg s = some r) : r.length < s.length := by
  unfold nextArg at h
  have hs := skipSp_length_le s
  split at h
  · next r' heq =>
    simp only [Option.some.injEq] at h
    subst h
    have := skipSp_length_le r'
    rw [heq] at hs
    simp only [List.length_cons] at hs
    omega
  · cases h

theorem attrTok_length {t n r : Str} (h : attrTok t = some (n, r)) : r.length < t.length := by
  unfold attrTok at h
  split at h
  · next r0 =>
    split at h
    · next c r' =>
      split at h
      · simp only [Option.some.injEq, Prod.mk.injEq] at h
        rw [← h.2]
        have := skipSp_length_le r'
        simp only [List.length_cons]; omega
      · split at h
        · simp only [Option.some.injEq, Prod.mk.injEq] at h
          rw [← h.2]
          have h1 := skipSp_length_le (r'.dropWhile isAttrChar)
          have h2 := dropWhile_length_le isAttrChar r'
          simp only [List.length_cons]; omega
        · cases h
    · cases h
  · cases h

theorem fn0Tok_length {w t r : Str} (h : fn0Tok w t = some r) : r.length < t.length := by
  unfold fn0Tok at h
  split at h
  · next r0 hw =>
    have h0 := wordCI_length _ _ _ hw
    have h1 := skipSp_length_le r0
    split at h
    · next r1 heq =>
      have h2 := skipSp_length_le r1
      split at h
      · next r2 heq2 =>
        simp only [Option.some.injEq] at h
        subst h
        have h3 := skipSp_length_le r2
        rw [heq] at h1
        rw [heq2] at h2
        simp only [List.length_cons] at h1 h2
        omega
      · cases h
    · cases h
  · cases h

theorem fnOpenTok_length {w t b : Str} (h : fnOpenTok w t = some b) : b.length < t.length := by
  unfold fnOpenTok at h
  split at h
  · next r0 hw =>
    have h0 := wordCI_length _ _ _ hw
    have h1 := skipSp_length_le r0
    split at h
    · next r1 heq =>
      have h2 := dotPlusEnd_length h
      rw [heq] at h1
      simp only [List.length_cons] at h1
      omega
    · cases h
  · cases h

theorem genTok_length {t r : Str} {e : BE N} (h : genTok t = some (e, r)) : r.length < t.length := by
  unfold genTok at h
  split at h
  · next n r0 ha =>
    simp only [Option.some.injEq, Prod.mk.injEq] at h
    rw [← h.2]; exact attrTok_length ha
  · split at h
    · next r0 hf =>
      simp only [Option.some.injEq, Prod.mk.injEq] at h
      rw [← h.2]; exact fn0Tok_length hf
    · split at h
      · next r0 hf =>
        simp only [Option.some.injEq, Prod.mk.injEq] at h
        rw [← h.2]; exact fn0Tok_length hf
      · split at h
        · next r0 hf =>
          simp only [Option.some.injEq, Prod.mk.injEq] at h
          rw [← h.2]; exact fn0Tok_length hf
        · cases h

theorem litQ_length (q : Char) : ∀ (bs : Bool) (s v r : Str), litQ q bs s = some (v, r) → r.length < s.length
  | _, [], v, r, h => by simp [litQ] at h
  | bs, c :: s, v, r, h => by
    simp only [litQ] at h
    split at h
    · split at h
      · split at h
        · next x hx =>
          simp only [Option.some.injEq, Prod.mk.injEq] at h
          have := litQ_length q false s x.1 x.2 (by rw [hx])
          rw [← h.2]
          simp only [List.length_cons]; omega
        · simp only [Option.some.injEq, Prod.mk.injEq] at h
          rw [← h.2]; simp
      · simp only [Option.some.injEq, Prod.mk.injEq] at h
        rw [← h.2]; simp
    · cases hx : litQ q (decide (c = '\\')) s with
      | none => rw [hx] at h; simp [consFst] at h
      | some x =>
        rw [hx] at h
        simp only [consFst, Option.some.injEq, Prod.mk.injEq] at h
        have := litQ_length q _ s x.1 x.2 (by rw [hx])
        rw [← h.2]
        simp only [List.length_cons]; omega

theorem strTok_length {q : Char} {t v r : Str} (h : strTok q t = some (v, r)) : r.length < t.length := by
  unfold strTok at h
  split at h
  · next c r0 =>
    split at h
    · split at h
      · next v' rest hl =>
        simp only [Option.some.injEq, Prod.mk.injEq] at h
        have h1 := litQ_length q false r0 v' rest hl
        have h2 := skipSp_length_le rest
        rw [← h.2]
        simp only [List.length_cons]; omega
      · cases h
    · cases h
  · cases h

theorem takeWhile_dropWhile_length (p : Char → Bool) (s : Str) : (s.takeWhile p).length + (s.dropWhile p).length = s.length := by
  induction s with
  | nil => rfl
  | cons c r ih =>
    simp only [List.takeWhile, List.dropWhile]
    split <;> simp [*] <;> omega

theorem splitSign_length (t : Str) : (splitSign t).2.length ≤ t.length := by
  cases t with
  | nil => simp [splitSign]
  | cons c r =>
    simp only [splitSign]
    split <;> simp

theorem numTok_length {t v r : Str} (h : numTok t = some (v, r)) : r.length < t.length := by
  have hplain : ∀ v r, (if (t.takeWhile isDigit).isEmpty then none
      else some (t.takeWhile isDigit, skipSp (t.dropWhile isDigit))) = some (v, r) → r.length < t.length := by
    intro v r hp
    split at hp
    · cases hp
    · next hne =>
      simp only [Option.some.injEq, Prod.mk.injEq] at hp
      have h1 := takeWhile_dropWhile_length isDigit t
      have h2 := skipSp_length_le (t.dropWhile isDigit)
      have h3 : 1 ≤ (t.takeWhile isDigit).length := by
        cases hq : t.takeWhile isDigit with
        | nil => simp [hq] at hne
        | cons _ _ => simp
      rw [← hp.2]; omega
  unfold numTok at h
  simp only at h
  split at h
  · next f heq =>
    split at h
    · exact hplain v r h
    · simp only [Option.some.injEq, Prod.mk.injEq] at h
      have h1 := splitSign_length t
      have h2 := dropWhile_length_le isDigit (splitSign t).2
      have h3 := dropWhile_length_le isDigit f
      have h4 := skipSp_length_le (f.dropWhile isDigit)
      rw [heq] at h2
      simp only [List.length_cons] at h2
      rw [← h.2]; omega
  · exact hplain v r h

theorem staticTok_length (nm : Num N) {t r : Str} {e : BE N} (h : staticTok nm t = some (e, r)) : r.length < t.length := by
  unfold staticTok at h
  split at h
  · next v r0 hs =>
    simp only [Option.some.injEq, Prod.mk.injEq] at h
    rw [← h.2]; exact strTok_length hs
  · split at h
    · next v r0 hs =>
      simp only [Option.some.injEq, Prod.mk.injEq] at h
      rw [← h.2]; exact strTok_length hs
    · split at h
      · next v r0 hn =>
        cases hp : nm.parse v with
        | none => rw [hp] at h; cases h
        | some x =>
          rw [hp] at h
          simp only [Option.map_some, Option.some.injEq, Prod.mk.injEq] at h
          rw [← h.2]; exact numTok_length hn
      · cases h

theorem cmpTok_length {t r : Str} {o : CmpOp} (h : cmpTok t = some (o, r)) : r.length < t.length := by
  unfold cmpTok at h
  split at h <;> first
    | (simp only [Option.some.injEq, Prod.mk.injEq] at h
       rw [← h.2]
       simp only [List.length_cons]
       have := skipSp_length_le ‹Str›
       omega)
    | cases h

theorem arithWords_length {t r : Str} {o : ArithOp} (h : arithWords t = some (o, r)) : r.length < t.length := by
  unfold arithWords at h
  split at h
  · next r0 hw =>
    simp only [Option.some.injEq, Prod.mk.injEq] at h
    have h1 := wordCI_length _ _ _ hw
    have h2 := skipSp_length_le r0
    simp only [List.length_cons, List.length_nil] at h1
    rw [← h.2]; omega
  · split at h
    · next r0 hw =>
      simp only [Option.some.injEq, Prod.mk.injEq] at h
      have h1 := wordCI_length _ _ _ hw
      have h2 := skipSp_length_le r0
      simp only [List.length_cons, List.length_nil] at h1
      rw [← h.2]; omega
    · cases h

theorem arithTok_length {t r : Str} {o : ArithOp} (h : arithTok t = some (o, r)) : r.length < t.length := by
  unfold arithTok at h
  split at h <;> first
    | exact arithWords_length h
    | (simp only [Option.some.injEq, Prod.mk.injEq] at h
       rw [← h.2]
       simp only [List.length_cons]
       have := skipSp_length_le ‹Str›
       omega)

theorem sp1_length {r r' : Str} (h : sp1 r = some r') : r'.length ≤ r.length := by
  unfold sp1 at h
  split at h
  · split at h
    · simp only [Option.some.injEq] at h
      rw [← h]; exact skipSp_length_le _
    · cases h
  · cases h

theorem boolTok_length {t r : Str} {o : BoolOp} (h : boolTok t = some (o, r)) : r.length < t.length := by
  unfold boolTok at h
  split at h
  · next r0 hw =>
    simp only [Option.some.injEq, Prod.mk.injEq] at h
    cases hw1 : wordCI ['a', 'n', 'd'] t with
    | none => rw [hw1] at hw; cases hw
    | some r1 =>
      rw [hw1] at hw
      simp only [Option.bind_some] at hw
      have h1 := wordCI_length _ _ _ hw1
      have h2 := sp1_length hw
      simp only [List.length_cons, List.length_nil] at h1
      rw [← h.2]; omega
  · split at h
    · next r0 hw =>
      simp only [Option.some.injEq, Prod.mk.injEq] at h
      cases hw1 : wordCI ['o', 'r'] t with
      | none => rw [hw1] at hw; cases hw
      | some r1 =>
        rw [hw1] at hw
        simp only [Option.bind_some] at hw
        have h1 := wordCI_length _ _ _ hw1
        have h2 := sp1_length hw
        simp only [List.length_cons, List.length_nil] at h1
        rw [← h.2]; omega
    · cases h

theorem restTok_length (nm : Num N) {t r : Str} {e : BE N} (h : restTok nm t = some (e, r)) : r.length < t.length := by
  unfold restTok at h
  split at h
  · next x hs =>
    simp only [Option.some.injEq] at h
    subst h
    exact staticTok_length nm hs
  · split at h
    · next o r0 hc =>
      simp only [Option.some.injEq, Prod.mk.injEq] at h
      rw [← h.2]; exact cmpTok_length hc
    · split at h
      · next o r0 hc =>
        simp only [Option.some.injEq, Prod.mk.injEq] at h
        rw [← h.2]; exact arithTok_length hc
      · split at h
        · next o r0 hc =>
          simp only [Option.some.injEq, Prod.mk.injEq] at h
          rw [← h.2]; exact boolTok_length hc
        · cases h

/-! ### `item` and `loop` hand back shorter texts -/

theorem map_pair_eq {α : Type} {o : Option α} {rest r : Str} {e : α} (h : o.map (·, rest) = some (e, r)) : r = rest := by
  cases o with
  | none => cases h
  | some x =>
    simp only [Option.map_some, Option.some.injEq, Prod.mk.injEq] at h
    exact h.2.symm

mutual
theorem item_length (nm : Num N) : ∀ (f : Nat) (s : Str) (e : BE N) (r : Str), item nm f s = some (e, r) → r.length < s.length
  | 0, s, e, r, h => by simp [item] at h
  | f + 1, s, e, r, h => by
    have hsk := skipSp_length_le s
    simp only [item] at h
    split at h
    · next body hgo =>
      have hb := groupOpen_length hgo
      have hst := strip_length_le body
      split at h
      · next cur d rest hl =>
        simp only [Option.some.injEq, Prod.mk.injEq] at h
        have := loop_length nm f .group (strip body) [] [] cur d rest hl
        rw [← h.2]; omega
      · cases h
    · split at h
      · next x hg =>
        simp only [Option.some.injEq] at h
        subst h
        have := genTok_length hg
        omega
      · split at h
        · next body hfo =>
          have hb := fnOpenTok_length hfo
          have hst := strip_length_le body
          split at h
          · next cur d rest hl =>
            have := loop_length nm f .args (strip body) [] [] cur d rest hl
            rw [map_pair_eq h]; omega
          · cases h
        · split at h
          · next body hfo =>
            have hb := fnOpenTok_length hfo
            have hst := strip_length_le body
            split at h
            · next cur d rest hl =>
              have := loop_length nm f .args (strip body) [] [] cur d rest hl
              rw [map_pair_eq h]; omega
            · cases h
          · split at h
            · next body hfo =>
              have hb := fnOpenTok_length hfo
              have hst := strip_length_le body
              split at h
              · next cur d rest hl =>
                have := loop_length nm f .args (strip body) [] [] cur d rest hl
                rw [map_pair_eq h]; omega
              · cases h
            · have := restTok_length nm h
              omega
theorem loop_length (nm : Num N) : ∀ (f : Nat) (mode : Mode) (s : Str) (cur done c d : List (BE N)) (r : Str),
    loop nm f mode s cur done = some (c, d, r) → r.length ≤ s.length
  | 0, _, _, _, _, _, _, _, h => by simp [loop] at h
  | f + 1, mode, s, cur, done, c, d, r, h => by
    simp only [loop] at h
    split at h
    · split at h
      · simp only [Option.some.injEq, Prod.mk.injEq] at h
        rw [← h.2.2]; simp
      · cases h
    · split at h
      · next rest hc =>
        simp only [Option.some.injEq, Prod.mk.injEq] at h
        have : groupClose s = some rest := by
          split at hc
          · cases hc
          · exact hc
        have := groupClose_length this
        rw [← h.2.2]; omega
      · split at h
        · next rest ha =>
          have hna : nextArg s = some rest := by
            split at ha
            · exact ha
            · cases ha
          have h1 := nextArg_length hna
          split at h
          · cases h
          · have := loop_length nm f mode rest [] _ c d r h
            omega
        · split at h
          · next e rest hi =>
            have h1 := item_length nm f s e rest hi
            have := loop_length nm f mode rest _ done c d r h
            omega
          · cases h
end

/-! ### More fuel, same answer -/

theorem item_nil (nm : Num N) : ∀ f, item nm f [] = none
  | 0 => rfl
  | f + 1 => by
    simp [item, groupOpen, skipSp, genTok, attrTok, fn0Tok, wordCI, fnOpenTok, restTok, staticTok, strTok, numTok, splitSign,
      cmpTok, arithTok, arithWords, boolTok]

/-- `item` with fuel `f ≥ 2·|s|`, `loop` with fuel `f ≥ 2·|s| + 1`: one more unit changes nothing. -/
theorem fuel_stable (nm : Num N) : ∀ (n : Nat),
    (∀ s : Str, s.length ≤ n → ∀ f, 2 * s.length ≤ f → item nm (f + 1) s = item nm f s) ∧
    (∀ s : Str, s.length ≤ n → ∀ f, 2 * s.length + 1 ≤ f → ∀ (mode : Mode) (cur done : List (BE N)),
      loop nm (f + 1) mode s cur done = loop nm f mode s cur done) := by
  intro n
  induction n with
  | zero =>
    refine ⟨?_, ?_⟩
    · intro s hs f _
      have : s = [] := List.eq_nil_of_length_eq_zero (by omega)
      subst this
      rw [item_nil, item_nil]
    · intro s hs f hf mode cur done
      have : s = [] := List.eq_nil_of_length_eq_zero (by omega)
      subst this
      obtain ⟨g, rfl⟩ : ∃ g, f = g + 1 := ⟨f - 1, by omega⟩
      simp [loop]
  | succ n ih =>
    obtain ⟨_, ihl⟩ := ih
    have hitem : ∀ s : Str, s.length ≤ n + 1 → ∀ f, 2 * s.length ≤ f → item nm (f + 1) s = item nm f s := by
      intro s hs f hf
      cases s with
      | nil => rw [item_nil, item_nil]
      | cons c0 s0 =>
        simp only [List.length_cons] at hs hf
        obtain ⟨g, rfl⟩ : ∃ g, f = g + 1 := ⟨f - 1, by omega⟩
        have hbody : ∀ (body : Str) (mode : Mode), body.length < (c0 :: s0).length →
            loop nm (g + 1) mode (strip body) ([] : List (BE N)) [] = loop nm g mode (strip body) [] [] := by
          intro body mode hb
          have := strip_length_le body
          simp only [List.length_cons] at hb
          exact ihl (strip body) (by omega) g (by omega) mode [] []
        cases hgo : groupOpen (c0 :: s0) with
        | some body =>
          simp only [item, hgo]
          rw [hbody body .group (groupOpen_length hgo)]
        | none =>
          have hsk := skipSp_length_le (c0 :: s0)
          simp only [item, hgo]
          cases hg : genTok (N := N) (skipSp (c0 :: s0)) with
          | some x => rfl
          | none =>
            simp only
            cases h1 : fnOpenTok ['c', 'o', 'n', 'c', 'a', 't'] (skipSp (c0 :: s0)) with
            | some body =>
              simp only
              rw [hbody body .args (by have := fnOpenTok_length h1; omega)]
            | none =>
              simp only
              cases h2 : fnOpenTok ['c', 'o', 'n', 't', 'a', 'i', 'n', 's'] (skipSp (c0 :: s0)) with
              | some body =>
                simp only
                rw [hbody body .args (by have := fnOpenTok_length h2; omega)]
              | none =>
                simp only
                cases h3 : fnOpenTok ['n', 'o', 'r', 'm', 'a', 'l', 'i', 'z', 'e', '-', 's', 'p', 'a', 'c', 'e'] (skipSp (c0 :: s0)) with
                | some body =>
                  simp only
                  rw [hbody body .args (by have := fnOpenTok_length h3; omega)]
                | none => rfl
    refine ⟨hitem, ?_⟩
    intro s hs f hf mode cur done
    cases s with
    | nil =>
      obtain ⟨g, rfl⟩ : ∃ g, f = g + 1 := ⟨f - 1, by omega⟩
      simp [loop]
    | cons c0 s0 =>
      simp only [List.length_cons] at hs hf
      obtain ⟨g, rfl⟩ : ∃ g, f = g + 1 := ⟨f - 1, by omega⟩
      have hrest : ∀ (rest : Str) (cur' done' : List (BE N)), rest.length < (c0 :: s0).length →
          loop nm (g + 1) mode rest cur' done' = loop nm g mode rest cur' done' := by
        intro rest cur' done' hr
        simp only [List.length_cons] at hr
        exact ihl rest (by omega) g (by omega) mode cur' done'
      have hi := hitem (c0 :: s0) (by simp only [List.length_cons]; omega) g (by simp only [List.length_cons]; omega)
      simp only [loop, List.isEmpty_cons, Bool.false_eq_true, if_false]
      cases hc : (if mode = Mode.top then none else groupClose (c0 :: s0)) with
      | some rest => rfl
      | none =>
        simp only
        cases ha : (if mode = Mode.args then nextArg (c0 :: s0) else none) with
        | some rest =>
          simp only
          have hna : nextArg (c0 :: s0) = some rest := by
            split at ha
            · exact ha
            · cases ha
          split
          · rfl
          · exact hrest rest _ _ (nextArg_length hna)
        | none =>
          simp only
          rw [hi]
          cases hit : item nm g (c0 :: s0) with
          | none => rfl
          | some x =>
            obtain ⟨e, rest⟩ := x
            simp only
            exact hrest rest _ _ (item_length nm g _ e rest hit)

theorem loop_fuel (nm : Num N) (s : Str) (f : Nat) (hf : 2 * s.length + 1 ≤ f) (mode : Mode) (cur done : List (BE N)) :
    ∀ k, loop nm (f + k) mode s cur done = loop nm f mode s cur done
  | 0 => rfl
  | k + 1 => by
    rw [← Nat.add_assoc, (fuel_stable nm s.length).2 s (Nat.le_refl _) (f + k) (by omega) mode cur done]
    exact loop_fuel nm s f hf mode cur done k

/-! ### The step loops -/

mutual
theorem scanB_length : ∀ (s i t : Str), scanB s = some (i, t) → t.length + 1 ≤ s.length
  | [], _, _, h => by simp [scanB] at h
  | c :: r, i, t, h => by
    simp only [scanB] at h
    split at h
    · simp only [Option.some.injEq, Prod.mk.injEq] at h
      rw [← h.2]; simp
    · split at h
      · split at h
        · next x hx =>
          simp only [Option.some.injEq, Prod.mk.injEq] at h
          have := scanQ_length c false r x.1 x.2 (by rw [hx])
          rw [← h.2]; simp only [List.length_cons]; omega
        · cases hx : scanB r with
          | none => rw [hx] at h; simp [consFst] at h
          | some x =>
            rw [hx] at h
            simp only [consFst, Option.some.injEq, Prod.mk.injEq] at h
            have := scanB_length r x.1 x.2 (by rw [hx])
            rw [← h.2]; simp only [List.length_cons]; omega
      · cases hx : scanB r with
        | none => rw [hx] at h; simp [consFst] at h
        | some x =>
          rw [hx] at h
          simp only [consFst, Option.some.injEq, Prod.mk.injEq] at h
          have := scanB_length r x.1 x.2 (by rw [hx])
          rw [← h.2]; simp only [List.length_cons]; omega
theorem scanQ_length (q : Char) : ∀ (bs : Bool) (s i t : Str), scanQ q bs s = some (i, t) → t.length + 1 ≤ s.length
  | _, [], _, _, h => by simp [scanQ] at h
  | bs, c :: r, i, t, h => by
    simp only [scanQ] at h
    split at h
    · split at h
      · split at h
        · next x hx =>
          simp only [Option.some.injEq, Prod.mk.injEq] at h
          have := scanQ_length q false r x.1 x.2 (by rw [hx])
          rw [← h.2]; simp only [List.length_cons]; omega
        · cases hx : scanB r with
          | none => rw [hx] at h; simp [consFst] at h
          | some x =>
            rw [hx] at h
            simp only [consFst, Option.some.injEq, Prod.mk.injEq] at h
            have := scanB_length r x.1 x.2 (by rw [hx])
            rw [← h.2]; simp only [List.length_cons]; omega
      · cases hx : scanB r with
        | none => rw [hx] at h; simp [consFst] at h
        | some x =>
          rw [hx] at h
          simp only [consFst, Option.some.injEq, Prod.mk.injEq] at h
          have := scanB_length r x.1 x.2 (by rw [hx])
          rw [← h.2]; simp only [List.length_cons]; omega
    · cases hx : scanQ q (decide (c = '\\')) r with
      | none => rw [hx] at h; simp [consFst] at h
      | some x =>
        rw [hx] at h
        simp only [consFst, Option.some.injEq, Prod.mk.injEq] at h
        have := scanQ_length q _ r x.1 x.2 (by rw [hx])
        rw [← h.2]; simp only [List.length_cons]; omega
end

theorem bracket_length {s inner rest : Str} (h : bracket s = some (inner, rest)) : rest.length + 2 ≤ s.length := by
  unfold bracket at h
  have hs := skipSp_length_le s
  split at h
  · next r heq =>
    split at h
    · next i t hsc =>
      simp only [Option.some.injEq, Prod.mk.injEq] at h
      have h1 := scanB_length r i t hsc
      have h2 := skipSp_length_le t
      rw [heq] at hs
      simp only [List.length_cons] at hs
      rw [← h.2]; omega
    · cases h
  · cases h

theorem parsePreds_fuel (nm : Num N) : ∀ (f : Nat) (r : Str), r.length < f → parsePreds nm (f + 1) r = parsePreds nm f r
  | 0, _, h => by omega
  | f + 1, r, h => by
    conv => lhs; unfold parsePreds
    conv => rhs; unfold parsePreds
    cases hb : bracket r with
    | none => rfl
    | some x =>
      obtain ⟨inner, rest⟩ := x
      simp only
      split
      · rfl
      · have h1 := bracket_length hb
        have h2 := strip_length_le rest
        rw [parsePreds_fuel nm f (strip rest) (by omega)]

theorem parsePreds_length (nm : Num N) : ∀ (f : Nat) (r : Str) (ps : List (List (BE N))) (r' : Str),
    parsePreds nm f r = some (ps, r') → r'.length ≤ r.length
  | 0, _, _, _, h => by simp [parsePreds] at h
  | f + 1, r, ps, r', h => by
    simp only [parsePreds] at h
    cases hb : bracket r with
    | none =>
      rw [hb] at h
      simp only [Option.some.injEq, Prod.mk.injEq] at h
      rw [← h.2]; exact Nat.le_refl _
    | some x =>
      obtain ⟨inner, rest⟩ := x
      rw [hb] at h
      simp only at h
      have h1 := bracket_length hb
      have h2 := strip_length_le rest
      split at h
      · simp only [Option.some.injEq, Prod.mk.injEq] at h
        rw [← h.2]; omega
      · split at h
        · next l ls r'' hpb hpp =>
          simp only [Option.some.injEq, Prod.mk.injEq] at h
          have := parsePreds_length nm f (strip rest) ls r'' hpp
          rw [← h.2]; omega
        · cases h

theorem takeWhile_length_le (p : Char → Bool) (s : Str) : (s.dropWhile p).length ≤ s.length := dropWhile_length_le p s

theorem tagName_length {u n r : Str} (h : tagName u = some (n, r)) : r.length < u.length := by
  unfold tagName at h
  split at h
  · next c r0 =>
    split at h
    · simp only [Option.some.injEq, Prod.mk.injEq] at h
      rw [← h.2]; simp
    · split at h
      · simp only [Option.some.injEq, Prod.mk.injEq] at h
        have := dropWhile_length_le isNameChar r0
        rw [← h.2]; simp only [List.length_cons]; omega
      · cases h
  · cases h

theorem axisName_length {u : Str} : ∀ {as : List AxisTok} {a : AxisTok} {n r : Str}, axisName u as = some (a, n, r) → r.length < u.length
  | [], _, _, _, h => by simp [axisName] at h
  | b :: as, a, n, r, h => by
    unfold axisName at h
    split at h
    · next r0 hw =>
      have h0 := wordCI_length _ _ _ hw
      simp only [List.length_cons] at h0
      split at h
      · next n' rest ht =>
        simp only [Option.some.injEq, Prod.mk.injEq] at h
        have := tagName_length ht
        rw [← h.2.2]; omega
      · exact axisName_length h
    · exact axisName_length h

theorem suffix_length (r : Str) : (suffix r).2.length ≤ r.length := by
  unfold suffix
  split
  · next c r1 =>
    split
    · have h1 := dropWhile_length_le isNameChar r1
      simp only
      split
      · next r3 heq =>
        have h2 := skipSp_length_le r3
        split
        · next r4 heq4 =>
          simp only
          rw [heq4] at h2
          rw [heq] at h1
          simp only [List.length_cons] at h1 h2 ⊢
          omega
        · simp only [List.length_cons]; omega
      · simp only [List.length_cons]; omega
    · exact Nat.le_refl _
  · exact Nat.le_refl _

theorem tagOp_length {s : Str} {dbl : Bool} {ax : Option AxisTok} {n r : Str} (h : tagOp s = some (dbl, ax, n, r)) :
    r.length < s.length := by
  unfold tagOp at h
  split at h
  · cases h
  · next d r0 hl =>
    have hlead : r0.length < s.length := by
      unfold leadIn at hl
      have hs := skipSp_length_le s
      split at hl
      · next r1 heq =>
        rw [heq] at hs
        simp only [List.length_cons] at hs
        split at hl
        · next r2 =>
          simp only [Option.some.injEq, Prod.mk.injEq] at hl
          rw [← hl.2]; simp only [List.length_cons] at hs; omega
        · simp only [Option.some.injEq, Prod.mk.injEq] at hl
          rw [← hl.2]; omega
      · cases hl
    have hsk := skipSp_length_le r0
    split at h
    · cases h
    · next ax' n' rest hc =>
      simp only [Option.some.injEq, Prod.mk.injEq] at h
      have hcore : rest.length < (skipSp r0).length := by
        unfold tagCore at hc
        split at hc
        · next a n2 rest2 ha =>
          simp only [Option.some.injEq, Prod.mk.injEq] at hc
          rw [← hc.2.2]; exact axisName_length ha
        · split at hc
          · next n2 rest2 ht =>
            simp only [Option.some.injEq, Prod.mk.injEq] at hc
            rw [← hc.2.2]; exact tagName_length ht
          · cases hc
      have := suffix_length rest
      rw [← h.2.2.2]; omega

theorem parseSteps_fuel (nm : Num N) : ∀ (f : Nat) (s : Str), s.length < f → parseSteps nm (f + 1) s = parseSteps nm f s
  | 0, _, h => by omega
  | f + 1, s, h => by
    conv => lhs; unfold parseSteps
    conv => rhs; unfold parseSteps
    cases ht : tagOp s with
    | none => rfl
    | some x =>
      obtain ⟨dbl, ax, name, r⟩ := x
      simp only
      cases hp : parsePreds nm (r.length + 1) (strip r) with
      | none => rfl
      | some y =>
        obtain ⟨ps, r'⟩ := y
        simp only
        split
        · rfl
        · have h1 := tagOp_length ht
          have h2 := parsePreds_length nm _ _ ps r' hp
          have h3 := strip_length_le r
          rw [parseSteps_fuel nm f r' (by omega)]

theorem parsePreds_fuel_add (nm : Num N) (f : Nat) (r : Str) (h : r.length < f) : ∀ k, parsePreds nm (f + k) r = parsePreds nm f r
  | 0 => rfl
  | k + 1 => by
    rw [← Nat.add_assoc, parsePreds_fuel nm (f + k) r (by omega)]
    exact parsePreds_fuel_add nm f r h k

theorem parseSteps_fuel_add (nm : Num N) (f : Nat) (s : Str) (h : s.length < f) : ∀ k, parseSteps nm (f + k) s = parseSteps nm f s
  | 0 => rfl
  | k + 1 => by
    rw [← Nat.add_assoc, parseSteps_fuel nm (f + k) s (by omega)]
    exact parseSteps_fuel_add nm f s h k

end AHP.XPath
