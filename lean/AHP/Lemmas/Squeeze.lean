/-
  AHP.Lemmas.Squeeze — what `Formatter.handle_data` does to a data piece (`Fmt.squeeze`):
  it only moves white space (C11a), never leaves a tab or an outer line break (C12b), and is idempotent (C12b, C12d).
-/
import AHP.Model.Format
namespace AHP.Fmt
open AHP

/-- the text with all white space removed -/
def eraseWS (s : Str) : Str := s.filter (fun c => !pyWs c)

/-- consists of white space only -/
def blank (s : Str) : Bool := s.all pyWs

theorem pyWs_space : pyWs ' ' = true := by decide
theorem pyWs_tab : pyWs '\t' = true := by decide
theorem pyWs_crlf (c : Char) (h : isCRLF c = true) : pyWs c = true := by
  simp only [isCRLF, Bool.or_eq_true, decide_eq_true_eq] at h
  rcases h with h | h <;> subst h <;> decide

theorem eraseWS_append (a b : Str) : eraseWS (a ++ b) = eraseWS a ++ eraseWS b := by
  simp [eraseWS]

theorem eraseWS_reverse (s : Str) : eraseWS s.reverse = (eraseWS s).reverse := by
  simp [eraseWS, List.filter_reverse]

theorem eraseWS_dropWhile (p : Char → Bool) (hp : ∀ c, p c = true → pyWs c = true) (s : Str) :
    eraseWS (s.dropWhile p) = eraseWS s := by
  induction s with
  | nil => rfl
  | cons c r ih =>
    by_cases hc : p c = true
    · have : eraseWS (c :: r) = eraseWS r := by simp [eraseWS, hp c hc]
      rw [this, ← ih]; simp [List.dropWhile, hc]
    · simp [List.dropWhile, hc]

theorem eraseWS_rdropWhile (p : Char → Bool) (hp : ∀ c, p c = true → pyWs c = true) (s : Str) :
    eraseWS (rdropWhile p s) = eraseWS s := by
  unfold rdropWhile
  rw [eraseWS_reverse, eraseWS_dropWhile p hp, eraseWS_reverse, List.reverse_reverse]

theorem eraseWS_map_tab (s : Str) : eraseWS (s.map tabToSpace) = eraseWS s := by
  induction s with
  | nil => rfl
  | cons c r ih =>
    by_cases hc : c = '\t'
    · subst hc
      simp only [List.map_cons, tabToSpace, if_true]
      simpa [eraseWS, pyWs_space, pyWs_tab] using ih
    · simp only [List.map_cons, tabToSpace, hc, if_false]
      simp only [eraseWS, List.filter_cons] at ih ⊢
      rw [ih]

/-- C11a: squeezing only moves white space — the text without white space is unchanged. -/
theorem eraseWS_squeeze (s : Str) : eraseWS (squeeze s) = eraseWS s := by
  unfold squeeze
  have h0 : eraseWS (rdropWhile isCRLF ((s.map tabToSpace).dropWhile isCRLF)) = eraseWS s := by
    rw [eraseWS_rdropWhile isCRLF pyWs_crlf, eraseWS_dropWhile isCRLF pyWs_crlf, eraseWS_map_tab]
  generalize rdropWhile isCRLF ((s.map tabToSpace).dropWhile isCRLF) = d at h0
  simp only []
  have h1 : eraseWS (if d.head? = some ' ' then ' ' :: pyLstrip d else d) = eraseWS s := by
    split
    · have : eraseWS (' ' :: pyLstrip d) = eraseWS (pyLstrip d) := by simp [eraseWS, pyWs_space]
      rw [this]; unfold pyLstrip; rw [eraseWS_dropWhile pyWs (fun _ h => h)]; exact h0
    · exact h0
  generalize (if d.head? = some ' ' then ' ' :: pyLstrip d else d) = d1 at h1
  split
  · rw [eraseWS_append]
    have : eraseWS [' '] = [] := by simp [eraseWS, pyWs_space]
    rw [this, List.append_nil]; unfold pyRstrip; rw [eraseWS_rdropWhile pyWs (fun _ h => h)]; exact h1
  · exact h1

theorem blank_iff (s : Str) : blank s = true ↔ eraseWS s = [] := by
  simp [blank, eraseWS, List.filter_eq_nil_iff]

/-- C11a: a data piece that is more than white space is never dropped. -/
theorem squeeze_not_blank (s : Str) (h : blank s = false) : blank (squeeze s) = false := by
  cases hb : blank (squeeze s) with
  | false => rfl
  | true =>
    rw [blank_iff, eraseWS_squeeze, ← blank_iff] at hb
    rw [hb] at h; cases h

/-! ### the shape of a squeezed piece: no tab, no outer line break, idempotence -/

def sqC (m : Str) : Str := rdropWhile isCRLF (m.dropWhile isCRLF)
def sqL (d : Str) : Str := if d.head? = some ' ' then ' ' :: pyLstrip d else d
def sqT (d : Str) : Str := if d.getLast? = some ' ' then pyRstrip d ++ [' '] else d

theorem squeeze_eq (s : Str) : squeeze s = sqT (sqL (sqC (s.map tabToSpace))) := rfl

/-! generic facts about `dropWhile` / `rdropWhile` -/

theorem head_dropWhile (p : Char → Bool) : ∀ (l : Str) (c : Char), (l.dropWhile p).head? = some c → p c = false
  | [], c, h => by simp at h
  | x :: xs, c, h => by
    by_cases hx : p x = true
    · simp only [List.dropWhile, hx] at h; exact head_dropWhile p xs c h
    · simp only [List.dropWhile, hx] at h
      simp only [List.head?_cons, Option.some.injEq] at h
      subst h; simpa using hx

theorem dropWhile_id (p : Char → Bool) (l : Str) (h : ∀ c, l.head? = some c → p c = false) : l.dropWhile p = l := by
  cases l with
  | nil => rfl
  | cons x xs => simp [List.dropWhile, h x rfl]

theorem rdropWhile_id (p : Char → Bool) (l : Str) (h : ∀ c, l.getLast? = some c → p c = false) : rdropWhile p l = l := by
  unfold rdropWhile
  rw [dropWhile_id p l.reverse (by simpa using h), List.reverse_reverse]

theorem last_rdropWhile (p : Char → Bool) (l : Str) (c : Char) (h : (rdropWhile p l).getLast? = some c) : p c = false := by
  unfold rdropWhile at h
  rw [List.getLast?_reverse] at h
  exact head_dropWhile p _ c h

theorem rdropWhile_prefix (p : Char → Bool) (l : Str) : rdropWhile p l <+: l := by
  unfold rdropWhile
  have := List.dropWhile_suffix p (l := l.reverse)
  have := List.reverse_prefix.mpr this
  simpa using this

theorem head_of_prefix {a l : Str} (h : a <+: l) (c : Char) (hc : a.head? = some c) : l.head? = some c := by
  obtain ⟨t, rfl⟩ := h
  cases a with
  | nil => simp at hc
  | cons x xs => simpa using hc

theorem last_of_suffix {a l : Str} (h : a <:+ l) (c : Char) (hc : a.getLast? = some c) : l.getLast? = some c := by
  obtain ⟨t, rfl⟩ := h
  cases a with
  | nil => simp at hc
  | cons x xs => simp [List.getLast?_append, hc]

theorem dropWhile_idem (p : Char → Bool) (l : Str) : (l.dropWhile p).dropWhile p = l.dropWhile p :=
  dropWhile_id p _ (head_dropWhile p l)

theorem rdropWhile_idem (p : Char → Bool) (l : Str) : rdropWhile p (rdropWhile p l) = rdropWhile p l :=
  rdropWhile_id p _ (last_rdropWhile p l)

theorem rdropWhile_snoc (p : Char → Bool) (l : Str) (c : Char) (h : p c = true) : rdropWhile p (l ++ [c]) = rdropWhile p l := by
  simp [rdropWhile, h]

theorem rdropWhile_append (p : Char → Bool) (a b : Str) :
    rdropWhile p (a ++ b) = if rdropWhile p b = [] then rdropWhile p a else a ++ rdropWhile p b := by
  unfold rdropWhile
  rw [List.reverse_append, List.dropWhile_append]
  by_cases h : (List.dropWhile p b.reverse).isEmpty = true
  · have h' : List.dropWhile p b.reverse = [] := by simpa using h
    simp [h']
  · have h' : List.dropWhile p b.reverse ≠ [] := by simpa using h
    simp [h, h']

/-! no tab -/

def NoTab (d : Str) : Prop := ∀ c ∈ d, c ≠ '\t'

theorem noTab_map (s : Str) : NoTab (s.map tabToSpace) := by
  intro c hc
  simp only [List.mem_map] at hc
  obtain ⟨x, _, rfl⟩ := hc
  unfold tabToSpace
  by_cases hx : x = '\t' <;> simp [hx]

theorem noTab_sublist {a b : Str} (h : a.Sublist b) (hb : NoTab b) : NoTab a := fun c hc => hb c (h.subset hc)

theorem noTab_sqC (m : Str) (h : NoTab m) : NoTab (sqC m) :=
  noTab_sublist ((rdropWhile_prefix _ _).sublist.trans (List.dropWhile_sublist _)) h

theorem noTab_sqL (d : Str) (h : NoTab d) : NoTab (sqL d) := by
  unfold sqL
  split
  · intro c hc
    simp only [List.mem_cons] at hc
    rcases hc with rfl | hc
    · decide
    · exact noTab_sublist (List.dropWhile_sublist _) h c hc
  · exact h

theorem noTab_sqT (d : Str) (h : NoTab d) : NoTab (sqT d) := by
  unfold sqT
  split
  · intro c hc
    simp only [List.mem_append, List.mem_singleton] at hc
    rcases hc with hc | rfl
    · exact noTab_sublist (rdropWhile_prefix _ _).sublist h c hc
    · decide
  · exact h

/-- C12b: a squeezed piece contains no tab. -/
theorem squeeze_noTab (s : Str) : NoTab (squeeze s) := by
  rw [squeeze_eq]
  exact noTab_sqT _ (noTab_sqL _ (noTab_sqC _ (noTab_map s)))

theorem map_tab_id (d : Str) (h : NoTab d) : d.map tabToSpace = d := by
  induction d with
  | nil => rfl
  | cons c r ih =>
    have hc : c ≠ '\t' := h c (by simp)
    simp only [List.map_cons, tabToSpace, hc, if_false]
    rw [ih (fun x hx => h x (by simp [hx]))]

/-! no outer line break -/

def HeadOK (d : Str) : Prop := ∀ c, d.head? = some c → isCRLF c = false
def LastOK (d : Str) : Prop := ∀ c, d.getLast? = some c → isCRLF c = false

theorem isCRLF_space : isCRLF ' ' = false := by decide

theorem headOK_sqC (m : Str) : HeadOK (sqC m) := by
  intro c hc
  exact head_dropWhile isCRLF m c (head_of_prefix (rdropWhile_prefix _ _) c hc)

theorem lastOK_sqC (m : Str) : LastOK (sqC m) := fun c hc => last_rdropWhile isCRLF _ c hc

theorem headOK_sqL (d : Str) (h : HeadOK d) : HeadOK (sqL d) := by
  unfold sqL
  split
  · intro c hc
    simp only [List.head?_cons, Option.some.injEq] at hc
    subst hc; exact isCRLF_space
  · exact h

theorem lastOK_sqL (d : Str) (h : LastOK d) : LastOK (sqL d) := by
  unfold sqL
  split
  · intro c hc
    cases hl : pyLstrip d with
    | nil =>
      rw [hl] at hc
      simp only [List.getLast?_singleton, Option.some.injEq] at hc
      subst hc; exact isCRLF_space
    | cons x xs =>
      rw [hl] at hc
      have hc' : (pyLstrip d).getLast? = some c := by
        rw [hl]; simpa [List.getLast?_cons_cons] using hc
      exact h c (last_of_suffix (List.dropWhile_suffix _) c hc')
  · exact h

theorem headOK_sqT (d : Str) (h : HeadOK d) : HeadOK (sqT d) := by
  unfold sqT
  split
  · intro c hc
    cases hr : pyRstrip d with
    | nil =>
      rw [hr] at hc
      simp only [List.nil_append, List.head?_cons, Option.some.injEq] at hc
      subst hc; exact isCRLF_space
    | cons x xs =>
      rw [hr] at hc
      have hc' : (pyRstrip d).head? = some c := by rw [hr]; simpa using hc
      exact h c (head_of_prefix (rdropWhile_prefix _ _) c hc')
  · exact h

theorem lastOK_sqT (d : Str) (h : LastOK d) : LastOK (sqT d) := by
  unfold sqT
  split
  · intro c hc
    simp only [List.getLast?_append, List.getLast?_singleton, Option.some_or, Option.some.injEq] at hc
    subst hc; exact isCRLF_space
  · exact h

/-- C12b: a squeezed piece neither begins nor ends with a line break. -/
theorem squeeze_ends (s : Str) : HeadOK (squeeze s) ∧ LastOK (squeeze s) := by
  rw [squeeze_eq]
  exact ⟨headOK_sqT _ (headOK_sqL _ (headOK_sqC _)), lastOK_sqT _ (lastOK_sqL _ (lastOK_sqC _))⟩

theorem sqC_id (d : Str) (h1 : HeadOK d) (h2 : LastOK d) : sqC d = d := by
  unfold sqC
  rw [dropWhile_id isCRLF d h1, rdropWhile_id isCRLF d h2]

/-! idempotence -/

def LeadOK (d : Str) : Prop := ∀ t, d = ' ' :: t → pyLstrip t = t
def TrailOK (d : Str) : Prop := ∀ i, d = i ++ [' '] → pyRstrip i = i

theorem sqL_id (d : Str) (h : LeadOK d) : sqL d = d := by
  unfold sqL
  split
  · rename_i hh
    cases d with
    | nil => simp at hh
    | cons x t =>
      simp only [List.head?_cons, Option.some.injEq] at hh
      subst hh
      have := h t rfl
      unfold pyLstrip at this ⊢
      simp only [List.dropWhile, pyWs_space]
      rw [this]
  · rfl

theorem sqT_id (d : Str) (h : TrailOK d) : sqT d = d := by
  unfold sqT
  split
  · rename_i hh
    obtain ⟨i, hi⟩ : ∃ i, d = i ++ [' '] := by
      rcases List.eq_nil_or_concat d with hd | ⟨i, c, hd⟩
      · simp [hd] at hh
      · refine ⟨i, ?_⟩
        rw [hd] at hh ⊢
        simp at hh
        simp [hh]
    have := h i hi
    rw [hi]
    unfold pyRstrip at this ⊢
    rw [rdropWhile_snoc pyWs i ' ' pyWs_space, this]
  · rfl

theorem leadOK_sqL (d : Str) : LeadOK (sqL d) := by
  unfold sqL
  split
  · intro t ht
    simp only [List.cons.injEq, true_and] at ht
    rw [← ht]; exact dropWhile_idem pyWs d
  · rename_i hh
    intro t ht
    rw [ht] at hh
    simp at hh

theorem trailOK_sqT (d : Str) : TrailOK (sqT d) := by
  unfold sqT
  split
  · intro i hi
    have : pyRstrip d = i := List.append_inj_left' hi rfl
    rw [← this]; exact rdropWhile_idem pyWs d
  · rename_i hh
    intro i hi
    rw [hi] at hh
    simp at hh

theorem leadOK_sqT (d : Str) (h : LeadOK d) : LeadOK (sqT d) := by
  unfold sqT
  split
  · intro t ht
    cases hR : pyRstrip d with
    | nil =>
      rw [hR] at ht
      simp only [List.nil_append, List.cons.injEq, true_and] at ht
      rw [← ht]; rfl
    | cons x R' =>
      rw [hR] at ht
      simp only [List.cons_append, List.cons.injEq] at ht
      obtain ⟨hx, ht⟩ := ht
      subst hx
      have hpre : (' ' :: R') <+: d := hR ▸ rdropWhile_prefix pyWs d
      obtain ⟨tail, hd⟩ := hpre
      have hl := h (R' ++ tail) (by rw [← hd]; simp)
      cases R' with
      | nil =>
        have := last_rdropWhile pyWs d ' ' (by
          show (pyRstrip d).getLast? = some ' '
          rw [hR]; rfl)
        rw [pyWs_space] at this; cases this
      | cons y R'' =>
        have hy : pyWs y = false := by
          apply head_dropWhile pyWs (y :: R'' ++ tail) y
          show (pyLstrip (y :: R'' ++ tail)).head? = some y
          rw [hl]; rfl
        rw [← ht]
        exact dropWhile_id pyWs _ (by intro c hc; simp at hc; subst hc; exact hy)
  · exact h

/-- **C12b / C12d core**: the data rule is idempotent — a squeezed piece is a fixed point. -/
theorem squeeze_idem (s : Str) : squeeze (squeeze s) = squeeze s := by
  have hL : LeadOK (squeeze s) := by rw [squeeze_eq]; exact leadOK_sqT _ (leadOK_sqL _)
  have hT : TrailOK (squeeze s) := by rw [squeeze_eq]; exact trailOK_sqT _
  have hE := squeeze_ends s
  conv => lhs; rw [squeeze_eq]
  rw [map_tab_id _ (squeeze_noTab s), sqC_id _ hE.1 hE.2, sqL_id _ hL, sqT_id _ hT]

/-! ### stability of pretty output from the second pass on: the piece that meets the next tag's indent -/

theorem dropWhile_all (p : Char → Bool) (w : Str) (h : ∀ c ∈ w, p c = true) : w.dropWhile p = [] := by
  induction w with
  | nil => rfl
  | cons x xs ih =>
    simp only [List.dropWhile, h x (by simp)]
    exact ih (fun c hc => h c (by simp [hc]))

theorem rdropWhile_all (p : Char → Bool) (w : Str) (h : ∀ c ∈ w, p c = true) : rdropWhile p w = [] := by
  unfold rdropWhile
  rw [dropWhile_all p w.reverse (fun c hc => h c (by simpa using hc))]
  rfl

theorem last_dropWhile (p : Char → Bool) : ∀ (l : Str) (c : Char), l.getLast? = some c → p c = false →
    (l.dropWhile p).getLast? = some c
  | [], c, h, _ => by simp at h
  | [x], c, h, hp => by
    simp only [List.getLast?_singleton, Option.some.injEq] at h
    subst h; simp [List.dropWhile, hp]
  | x :: y :: r, c, h, hp => by
    by_cases hx : p x = true
    · have h' : (y :: r).getLast? = some c := by simpa [List.getLast?_cons_cons] using h
      simpa [List.dropWhile, hx] using last_dropWhile p (y :: r) c h' hp
    · simpa [List.dropWhile, hx] using h

/-- appending a lone line break changes nothing -/
theorem squeeze_append_lf (x : Str) : squeeze (x ++ ['\n']) = squeeze x := by
  rw [squeeze_eq, squeeze_eq]
  congr 2
  rw [List.map_append]
  show sqC (x.map tabToSpace ++ ['\n']) = sqC (x.map tabToSpace)
  generalize x.map tabToSpace = m
  unfold sqC
  rw [List.dropWhile_append]
  by_cases h : (List.dropWhile isCRLF m).isEmpty = true
  · have h' : List.dropWhile isCRLF m = [] := by simpa using h
    simp [h', List.dropWhile, isCRLF, rdropWhile]
  · simp only [h, Bool.false_eq_true, if_false]
    exact rdropWhile_snoc isCRLF _ '\n' (by decide)

/-- an indent is a line break followed by spaces and tabs -/
def IsIndent (i : Str) : Prop := ∃ j, i = '\n' :: j ∧ ∀ c ∈ j, c = ' ' ∨ c = '\t'

theorem map_indent_tail (j : Str) (h : ∀ c ∈ j, c = ' ' ∨ c = '\t') : ∀ c ∈ j.map tabToSpace, c = ' ' := by
  intro c hc
  simp only [List.mem_map] at hc
  obtain ⟨x, hx, rfl⟩ := hc
  rcases h x hx with rfl | rfl <;> decide

theorem last_of_all_space (s : Str) (hs : s ≠ []) (h : ∀ c ∈ s, c = ' ') : s.getLast? = some ' ' := by
  rcases List.eq_nil_or_concat s with h0 | ⟨i, c, rfl⟩
  · exact absurd h0 hs
  · have := h c (by simp)
    simp [this]

theorem last_space_sqL (d : Str) (h : d.getLast? = some ' ') : (sqL d).getLast? = some ' ' := by
  unfold sqL
  split
  · cases hl : pyLstrip d with
    | nil => rfl
    | cons x xs =>
      have hsuf : pyLstrip d <:+ d := List.dropWhile_suffix _
      rw [hl] at hsuf
      obtain ⟨t, ht⟩ := hsuf
      rw [← ht] at h
      simp only [List.getLast?_cons_cons]
      simpa [List.getLast?_append] using h
  · exact h

/-- a fixed point of the data rule that ends in a space absorbs a following indent -/
theorem fixed_absorbs_indent (r : Str) (hNT : NoTab r) (hH : HeadOK r) (hLd : LeadOK r) (hTr : TrailOK r)
    (hlast : r.getLast? = some ' ') (j : Str) (hj : ∀ c ∈ j, c = ' ' ∨ c = '\t') (hne : j ≠ []) :
    squeeze (r ++ '\n' :: j) = r := by
  obtain ⟨R, hR⟩ : ∃ R, r = R ++ [' '] := by
    rcases List.eq_nil_or_concat r with h0 | ⟨i, c, hc⟩
    · simp [h0] at hlast
    · rw [hc] at hlast; simp at hlast; exact ⟨i, by rw [hc, hlast, List.concat_eq_append]⟩
  have hRR : pyRstrip R = R := hTr R hR
  have hS := map_indent_tail j hj
  have hSne : j.map tabToSpace ≠ [] := by simpa using hne
  have hmap : (r ++ '\n' :: j).map tabToSpace = R ++ ' ' :: '\n' :: j.map tabToSpace := by
    rw [List.map_append, map_tab_id r hNT, hR]
    simp [tabToSpace]
  rw [squeeze_eq, hmap]
  generalize j.map tabToSpace = S at hS hSne
  have hSlast := last_of_all_space S hSne hS
  have hWws : ∀ c ∈ (' ' :: '\n' :: S), pyWs c = true := by
    intro c hc
    simp only [List.mem_cons] at hc
    rcases hc with rfl | rfl | hc
    · decide
    · decide
    · rw [hS c hc]; decide
  have hYlast : (R ++ ' ' :: '\n' :: S).getLast? = some ' ' := by
    cases S with
    | nil => exact absurd rfl hSne
    | cons a b =>
      have : (' ' :: '\n' :: a :: b).getLast? = some ' ' := by simpa [List.getLast?_cons_cons] using hSlast
      simp [List.getLast?_append, this]
  -- strip('\r\n') finds nothing to strip
  have hC : sqC (R ++ ' ' :: '\n' :: S) = R ++ ' ' :: '\n' :: S := by
    apply sqC_id
    · intro c hc
      apply hH c
      rw [hR]
      cases R with
      | nil => simpa using hc
      | cons x xs => simpa using hc
    · intro c hc
      rw [hYlast] at hc
      simp only [Option.some.injEq] at hc
      subst hc; exact isCRLF_space
  rw [hC]
  -- the trailing rule gives back r whenever the leading rule left the piece alone
  have hT : sqT (R ++ ' ' :: '\n' :: S) = r := by
    unfold sqT
    rw [if_pos hYlast]
    unfold pyRstrip
    rw [rdropWhile_append, rdropWhile_all pyWs _ hWws]
    simp only [if_true]
    show pyRstrip R ++ [' '] = r
    rw [hRR, hR]
  cases R with
  | nil =>
    -- r = " ": everything is white space
    have hl : sqL (' ' :: '\n' :: S) = [' '] := by
      unfold sqL
      simp only [List.head?_cons, if_true]
      unfold pyLstrip
      rw [dropWhile_all pyWs _ hWws]
    simp only [List.nil_append] at hl ⊢
    rw [hl, hR]
    decide
  | cons x R1 =>
    have hL : sqL (x :: R1 ++ ' ' :: '\n' :: S) = x :: R1 ++ ' ' :: '\n' :: S := by
      apply sqL_id
      intro t ht
      simp only [List.cons_append, List.cons.injEq] at ht
      obtain ⟨hx, ht⟩ := ht
      subst hx
      have h1 := hLd (R1 ++ [' ']) (by rw [hR]; simp)
      cases R1 with
      | nil =>
        simp [pyLstrip, List.dropWhile, pyWs_space] at h1
      | cons y R2 =>
        have hy : pyWs y = false := by
          apply head_dropWhile pyWs (y :: R2 ++ [' ']) y
          show (pyLstrip (y :: R2 ++ [' '])).head? = some y
          rw [h1]; rfl
        rw [← ht]
        exact dropWhile_id pyWs _ (by intro c hc; simp at hc; subst hc; exact hy)
    rw [hL, hT]

theorem last_space_sqC (x : Str) (h : x.getLast? = some ' ') : (sqC x).getLast? = some ' ' := by
  unfold sqC
  have h1 := last_dropWhile isCRLF x ' ' h isCRLF_space
  rw [rdropWhile_id isCRLF _ (by intro c hc; rw [h1] at hc; simp only [Option.some.injEq] at hc; subst hc; exact isCRLF_space)]
  exact h1

theorem last_space_sqT (e : Str) (h : e.getLast? = some ' ') : (sqT e).getLast? = some ' ' := by
  unfold sqT
  rw [if_pos h]
  simp [List.getLast?_append]

theorem squeeze_last_space (d j : Str) (hj : ∀ c ∈ j, c = ' ' ∨ c = '\t') (hne : j ≠ []) :
    (squeeze (d ++ '\n' :: j)).getLast? = some ' ' := by
  rw [squeeze_eq]
  apply last_space_sqT
  apply last_space_sqL
  apply last_space_sqC
  rw [List.map_append, List.map_cons]
  have hS := map_indent_tail j hj
  have hSne : j.map tabToSpace ≠ [] := by simpa using hne
  generalize j.map tabToSpace = S at hS hSne
  have := last_of_all_space S hSne hS
  cases S with
  | nil => exact absurd rfl hSne
  | cons a b => simp [List.getLast?_append, List.getLast?_cons_cons, this]

/-- **C12d core** (DESIGN §5 C12): the only data piece that meets the indent `I` the previous pass put before the next
    tag is stable from the second pass on — `sq (sq (d ++ I) ++ I) = sq (d ++ I)` for every piece `d` (possibly empty)
    and every indent `I` = line break followed by spaces/tabs (possibly none). -/
theorem squeeze_indent_stable (d i : Str) (hi : IsIndent i) :
    squeeze (squeeze (d ++ i) ++ i) = squeeze (d ++ i) := by
  obtain ⟨j, rfl, hj⟩ := hi
  by_cases hne : j = []
  · subst hne
    rw [squeeze_append_lf, squeeze_append_lf, squeeze_idem]
  · have hE := squeeze_ends (d ++ '\n' :: j)
    exact fixed_absorbs_indent _ (squeeze_noTab _) hE.1
      (by rw [squeeze_eq]; exact leadOK_sqT _ (leadOK_sqL _))
      (by rw [squeeze_eq]; exact trailOK_sqT _)
      (squeeze_last_space d j hj hne) j hj hne

end AHP.Fmt
