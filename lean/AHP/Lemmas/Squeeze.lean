/-
  AHP.Lemmas.Squeeze — what `Formatter.handle_data` does to a data piece (`Fmt.squeeze`):
  it only moves white space (C11a), never leaves a tab or an outer line break (C12b), and is idempotent (C12b, C12d).
-/
import AHP.Model.Format
namespace AHP.Fmt
open AHP

/-- the text with all white space removed -/
def eraseWS (s : Str) : Str := s.filter (fun c => !pyWs c)

/-- consists of white space only -/
def blank (s : Str) : Bool := s.all pyWs

theorem pyWs_space : pyWs ' ' = true := by decide
theorem pyWs_tab : pyWs '\t' = true := by decide
theorem pyWs_crlf (c : Char) (h : isCRLF c = true) : pyWs c = true := by
  simp only [isCRLF, Bool.or_eq_true, decide_eq_true_eq] at h
  rcases h with h | h <;> subst h <;> decide

theorem eraseWS_append (a b : Str) : eraseWS (a ++ b) = eraseWS a ++ eraseWS b := by
  simp [eraseWS]

theorem eraseWS_reverse (s : Str) : eraseWS s.reverse = (eraseWS s).reverse := by
  simp [eraseWS, List.filter_reverse]

theorem eraseWS_dropWhile (p : Char → Bool) (hp : ∀ c, p c = true → pyWs c = true) (s : Str) :
    eraseWS (s.dropWhile p) = eraseWS s := by
  induction s with
  | nil => rfl
  | cons c r ih =>
    by_cases hc : p c = true
    · have : eraseWS (c :: r) = eraseWS r := by simp [eraseWS, hp c hc]
      rw [this, ← ih]; simp [List.dropWhile, hc]
    · simp [List.dropWhile, hc]

theorem eraseWS_rdropWhile (p : Char → Bool) (hp : ∀ c, p c = true → pyWs c = true) (s : Str) :
    eraseWS (rdropWhile p s) = eraseWS s := by
  unfold rdropWhile
  rw [eraseWS_reverse, eraseWS_dropWhile p hp, eraseWS_reverse, List.reverse_reverse]

theorem eraseWS_map_tab (s : Str) : eraseWS (s.map tabToSpace) = eraseWS s := by
  induction s with
  | nil => rfl
  | cons c r ih =>
    by_cases hc : c = '\t'
    · subst hc
      simp only [List.map_cons, tabToSpace, if_true]
      simpa [eraseWS, pyWs_space, pyWs_tab] using ih
    · simp only [List.map_cons, tabToSpace, hc, if_false]
      simp only [eraseWS, List.filter_cons] at ih ⊢
      rw [ih]

/-- C11a: squeezing only moves white space — the text without white space is unchanged. -/
theorem eraseWS_squeeze (s : Str) : eraseWS (squeeze s) = eraseWS s := by
  unfold squeeze
  have h0 : eraseWS (rdropWhile isCRLF ((s.map tabToSpace).dropWhile isCRLF)) = eraseWS s := by
    rw [eraseWS_rdropWhile isCRLF pyWs_crlf, eraseWS_dropWhile isCRLF pyWs_crlf, eraseWS_map_tab]
  generalize rdropWhile isCRLF ((s.map tabToSpace).dropWhile isCRLF) = d at h0
  simp only []
  have h1 : eraseWS (if d.head? = some ' ' then ' ' :: pyLstrip d else d) = eraseWS s := by
    split
    · have : eraseWS (' ' :: pyLstrip d) = eraseWS (pyLstrip d) := by simp [eraseWS, pyWs_space]
      rw [this]; unfold pyLstrip; rw [eraseWS_dropWhile pyWs (fun _ h => h)]; exact h0
    · exact h0
  generalize (if d.head? = some ' ' then ' ' :: pyLstrip d else d) = d1 at h1
  split
  · rw [eraseWS_append]
    have : eraseWS [' '] = [] := by simp [eraseWS, pyWs_space]
    rw [this, List.append_nil]; unfold pyRstrip; rw [eraseWS_rdropWhile pyWs (fun _ h => h)]; exact h1
  · exact h1

theorem blank_iff (s : Str) : blank s = true ↔ eraseWS s = [] := by
  simp [blank, eraseWS, List.filter_eq_nil_iff]

/-- C11a: a data piece that is more than white space is never dropped. -/
theorem squeeze_not_blank (s : Str) (h : blank s = false) : blank (squeeze s) = false := by
  cases hb : blank (squeeze s) with
  | false => rfl
  | true =>
    rw [blank_iff, eraseWS_squeeze, ← blank_iff] at hb
    rw [hb] at h; cases h

end AHP.Fmt
