/-
  The constructor loop `intake` against the independent specification `Spec.attrs` (Spec/Attrs.lean).

  * `validName_eq`   — the specification's reading of a valid name is `Tags.isValidAttributeName`;
  * `attrs_eq_dictOf` — "names in first-occurrence order, each with its last value" IS the insertion-ordered dict
                        the loop maintains (`dictOf`: one `dictSet` per valid lower-cased name);
  * `Rel` / `rel_intake` — the store after the loop against `dictOf (liveStyle l)`: dict = that dict without `class`,
                        `spellcheck` as boolean string; class list = the words of the last `class` value; style map =
                        the parse of the last live `style` value;
  * `view_eq_normalise` — the listing of such a store is `Spec.normalise` of the dict.
-/
import AHP.Spec.Attrs
import AHP.Lemmas.IntakeStable
namespace AHP.AttrStores
open AHP

theorem snoc_induction {α : Type} {P : List α → Prop} (h0 : P []) (hs : ∀ l a, P l → P (l ++ [a])) : ∀ l, P l := by
  intro l
  have key : ∀ r : List α, P r.reverse := by
    intro r
    induction r with
    | nil => exact h0
    | cons a r ih => rw [List.reverse_cons]; exact hs _ _ ih
  have := key l.reverse
  rwa [List.reverse_reverse] at this

theorem spec_kClass : Spec.kClass = kClass := rfl
theorem spec_kStyle : Spec.kStyle = kStyle := rfl
theorem spec_kSpell : Spec.kSpell = kSpell := by decide

/-! ### valid names -/

theorem nameChar_eq (d : Char) : Spec.nameChar d = (isAlnum d || d = '-' || d = '_') := by
  simp only [Spec.nameChar, Spec.nameStart, isAlnum, isAlpha, isDigit]
  generalize (decide ('a' ≤ d) && decide (d ≤ 'z')) = a
  generalize (decide ('A' ≤ d) && decide (d ≤ 'Z')) = b
  generalize (decide ('0' ≤ d) && decide (d ≤ '9')) = c
  generalize decide (d = '_') = e
  generalize decide (d = '-') = f
  cases a <;> cases b <;> cases c <;> cases e <;> cases f <;> rfl

theorem validName_eq (n : Str) : Spec.validName n = validAttrName n := by
  cases n with
  | nil => rfl
  | cons c cs =>
    have hall : cs.all Spec.nameChar = cs.all (fun d => isAlnum d || d = '-' || d = '_') := by
      congr 1; funext d; exact nameChar_eq d
    have hc := nameChar_eq c
    simp only [Spec.validName, validAttrName, List.all_cons, hall]
    simp only [Spec.nameChar] at hc
    have hs : Spec.nameStart c = (isAlpha c || c = '_') := by
      simp only [Spec.nameStart, isAlpha]
    rw [hs] at hc ⊢
    generalize (isAlpha c || decide (c = '_')) = a at hc ⊢
    generalize (isAlnum c || decide (c = '-') || decide (c = '_')) = b at hc ⊢
    generalize List.all cs (fun d => isAlnum d || decide (d = '-') || decide (d = '_')) = r
    cases a <;> cases b <;> cases r <;> simp_all

/-! ### the insertion-ordered dict of the valid lower-cased names -/

def dictStep (d : List Attr) (p : Attr) : List Attr :=
  if validAttrName (lower p.1) then dictSet d (lower p.1) p.2 else d

def dictOf (l : List Attr) : List Attr := l.foldl dictStep []

theorem dictOf_snoc (l : List Attr) (p : Attr) : dictOf (l ++ [p]) = dictStep (dictOf l) p := by
  simp [dictOf, List.foldl_append]

theorem nodup_dictOf (l : List Attr) : (keys (dictOf l)).Nodup := by
  induction l using snoc_induction with
  | h0 => simp [dictOf, keys]
  | hs l p ih =>
    rw [dictOf_snoc]
    unfold dictStep
    split
    · exact nodup_dictSet _ _ ih
    · exact ih

theorem keys_dictOf (l : List Attr) : ∀ k ∈ keys (dictOf l), ∃ p ∈ l, k = lower p.1 := by
  induction l using snoc_induction with
  | h0 => simp [dictOf, keys]
  | hs l p ih =>
    intro k hk
    rw [dictOf_snoc] at hk
    unfold dictStep at hk
    split at hk
    · rcases (mem_keys_dictSet _).mp hk with e | m
      · exact ⟨p, by simp, e⟩
      · obtain ⟨q, hq, e⟩ := ih k m
        exact ⟨q, by simp [hq], e⟩
    · obtain ⟨q, hq, e⟩ := ih k hk
      exact ⟨q, by simp [hq], e⟩

/-! ### first occurrences and last values -/

theorem firstOcc_snoc (ks : List Str) (k : Str) :
    Spec.firstOcc (ks ++ [k]) = if (Spec.firstOcc ks).contains k then Spec.firstOcc ks else Spec.firstOcc ks ++ [k] := by
  simp [Spec.firstOcc, List.foldl_append]

theorem nodup_firstOcc (ks : List Str) : (Spec.firstOcc ks).Nodup := by
  induction ks using snoc_induction with
  | h0 => simp [Spec.firstOcc]
  | hs ks k ih =>
    rw [firstOcc_snoc]
    split
    · exact ih
    · next hc =>
      rw [List.nodup_append]
      refine ⟨ih, by simp, ?_⟩
      intro a ha b hb e
      simp only [List.mem_singleton] at hb
      subst hb; subst e
      exact hc (by simpa using ha)

theorem lastVal_snoc (ps : List Attr) (p : Attr) (k : Str) :
    Spec.lastVal (ps ++ [p]) k = if p.1 = k then p.2 else Spec.lastVal ps k := by
  simp [Spec.lastVal, List.foldl_append]

theorem named_snoc (l : List Attr) (p : Attr) :
    Spec.named (l ++ [p]) = Spec.named l ++ (if Spec.validName (lower p.1) then [(lower p.1, p.2)] else []) := by
  unfold Spec.named
  rw [List.map_append, List.filter_append]
  congr 1
  simp only [List.map_cons, List.map_nil, List.filter_cons, List.filter_nil]

/-- `dictSet` on a keyed table: the key keeps its place (or is appended), only its value changes -/
theorem dictSet_table (g : Str → Option Str) (k : Str) (v : Option Str) : ∀ K : List Str, K.Nodup →
    dictSet (K.map (fun k' => (k', g k'))) k v
      = (if K.contains k then K else K ++ [k]).map (fun k' => (k', if k = k' then v else g k'))
  | [], _ => by simp [dictSet]
  | k0 :: K, hn => by
    have hn' : k0 ∉ K ∧ K.Nodup := by simpa using hn
    by_cases h : k0 = k
    · subst h
      have hrest : K.map (fun k' => (k', if k0 = k' then v else g k')) = K.map (fun k' => (k', g k')) := by
        apply List.map_congr_left
        intro k' hk'
        have : k0 ≠ k' := fun e => hn'.1 (e ▸ hk')
        simp [this]
      simp [dictSet, hrest]
    · have ih := dictSet_table g k v K hn'.2
      have hc : (k0 :: K).contains k = K.contains k := by
        simp only [List.contains_eq_mem, List.mem_cons]
        have : ¬ k = k0 := fun e => h e.symm
        simp [this]
      have hk : ¬ k = k0 := fun e => h e.symm
      simp only [List.map_cons, dictSet, h, if_false, ih, hc]
      split <;> simp [hk]

/-- **the specification is the insertion-ordered dict**: the names in the order of their first occurrence, each
    with the value of its last occurrence, is what one `dictSet` per valid lower-cased name builds -/
theorem attrs_eq_dictOf (l : List Attr) : Spec.attrs l = dictOf l := by
  induction l using snoc_induction with
  | h0 => simp [Spec.attrs, Spec.named, Spec.firstOcc, dictOf]
  | hs l p ih =>
    rw [dictOf_snoc, ← ih]
    unfold dictStep
    rw [← validName_eq]
    unfold Spec.attrs
    rw [named_snoc]
    by_cases hv : Spec.validName (lower p.1) = true
    · simp only [hv, if_true, List.map_append, List.map_cons, List.map_nil]
      rw [firstOcc_snoc]
      rw [dictSet_table (Spec.lastVal (Spec.named l)) (lower p.1) p.2 _ (nodup_firstOcc _)]
      apply List.map_congr_left
      intro k' _
      rw [lastVal_snoc]
    · simp only [hv, if_false, Bool.false_eq_true, List.append_nil]

/-! ### dict algebra used by the invariant -/

theorem dictDel_dictSet_same {β : Type} (k : Str) (v : β) : ∀ d : List (Str × β), dictDel (dictSet d k v) k = dictDel d k
  | [] => by simp [dictSet, dictDel]
  | (k', v') :: r => by
    by_cases h : k' = k
    · subst h
      have : dictSet ((k', v') :: r) k' v = (k', v) :: r := by simp [dictSet]
      rw [this, dictDel_cons_same, dictDel_cons_same]
    · have : dictSet ((k', v') :: r) k v = (k', v') :: dictSet r k v := by simp [dictSet, h]
      rw [this, dictDel_cons_ne h, dictDel_cons_ne h, dictDel_dictSet_same k v r]

theorem dictDel_dictSet_ne {β : Type} {k k' : Str} (hne : k ≠ k') (v : β) : ∀ d : List (Str × β),
    dictDel (dictSet d k v) k' = dictSet (dictDel d k') k v
  | [] => by
    have h1 : dictSet ([] : List (Str × β)) k v = [(k, v)] := rfl
    have h2 : dictDel ([] : List (Str × β)) k' = [] := rfl
    rw [h1, dictDel_cons_ne hne, h2, h1]
  | (k0, v0) :: r => by
    have ih := dictDel_dictSet_ne hne v r
    by_cases h : k0 = k
    · subst h
      have h1 : dictSet ((k0, v0) :: r) k0 v = (k0, v) :: r := by simp [dictSet]
      rw [h1, dictDel_cons_ne hne, dictDel_cons_ne hne]
      simp [dictSet]
    · have h1 : dictSet ((k0, v0) :: r) k v = (k0, v0) :: dictSet r k v := by simp [dictSet, h]
      rw [h1]
      by_cases h2 : k0 = k'
      · subst h2
        rw [dictDel_cons_same, dictDel_cons_same, ih]
      · rw [dictDel_cons_ne h2, dictDel_cons_ne h2, ih]
        simp [dictSet, h]

theorem dictDel_comm {β : Type} (k k' : Str) (d : List (Str × β)) : dictDel (dictDel d k) k' = dictDel (dictDel d k') k := by
  unfold dictDel
  rw [List.filter_filter, List.filter_filter]
  congr 1
  funext p
  exact Bool.and_comm _ _

theorem dictGet_dictSet {β : Type} (k k' : Str) (v : β) : ∀ d : List (Str × β),
    dictGet (dictSet d k v) k' = if k = k' then some v else dictGet d k'
  | [] => by simp [dictSet, dictGet]
  | (k0, v0) :: r => by
    have ih := dictGet_dictSet k k' v r
    by_cases h : k0 = k
    · subst h
      by_cases h2 : k0 = k' <;> simp [dictSet, dictGet, h2]
    · by_cases h2 : k0 = k'
      · subst h2
        have : ¬ k = k0 := fun e => h e.symm
        simp [dictSet, dictGet, h, this]
      · simp [dictSet, dictGet, h, h2, ih]

theorem dictGet_dictDel {β : Type} (k k' : Str) : ∀ d : List (Str × β),
    dictGet (dictDel d k) k' = if k = k' then none else dictGet d k'
  | [] => by simp [dictDel, dictGet]
  | (k0, v0) :: r => by
    have ih := dictGet_dictDel k k' r
    by_cases h : k0 = k
    · subst h
      rw [dictDel_cons_same, ih]
      by_cases h2 : k0 = k'
      · simp [h2]
      · simp [dictGet, h2]
    · rw [dictDel_cons_ne h]
      by_cases h2 : k0 = k'
      · subst h2
        have : ¬ k = k0 := fun e => h e.symm
        simp [dictGet, this]
      · simp [dictGet, h2, ih]

theorem dictGet_none_iff {β : Type} (k : Str) : ∀ d : List (Str × β), dictGet d k = none ↔ k ∉ keys d
  | [] => by simp [dictGet, keys]
  | (k0, v0) :: r => by
    have ih := dictGet_none_iff k r
    by_cases h : k0 = k
    · subst h; simp [dictGet, keys]
    · have : ¬ k = k0 := fun e => h e.symm
      simp only [dictGet, h, if_false, ih, keys, List.map_cons, List.mem_cons, this, false_or]

theorem dictGet_find {β : Type} (k : Str) : ∀ d : List (Str × β),
    dictGet d k = (d.find? (fun p => p.1 = k)).map (·.2)
  | [] => rfl
  | (k0, v0) :: r => by
    by_cases h : k0 = k
    · simp [dictGet, List.find?_cons, h]
    · simp [dictGet, List.find?_cons, h, dictGet_find k r]

/-- `dictOf` of the list without its `style` attributes is `dictOf` without the `style` entry -/
theorem dictOf_filter_style (L : List Attr) :
    dictOf (L.filter (fun q => !Spec.isStyleAttr q)) = dictDel (dictOf L) kStyle := by
  induction L using snoc_induction with
  | h0 => simp [dictOf, dictDel]
  | hs L q ih =>
    rw [List.filter_append, dictOf_snoc]
    by_cases hq : Spec.isStyleAttr q = true
    · have hl : lower q.1 = kStyle := by
        unfold Spec.isStyleAttr at hq; exact of_decide_eq_true hq
      have hv : validAttrName kStyle = true := by decide
      simp only [List.filter_cons, hq, Bool.not_true, Bool.false_eq_true, if_false, List.filter_nil, List.append_nil]
      rw [ih]
      simp only [dictStep, hl, hv, if_true]
      rw [dictDel_dictSet_same]
    · have hq' : Spec.isStyleAttr q = false := by simpa using hq
      have hl : lower q.1 ≠ kStyle := by
        unfold Spec.isStyleAttr at hq'; exact of_decide_eq_false hq'
      simp only [List.filter_cons, hq', Bool.not_false, if_true, List.filter_nil]
      rw [dictOf_snoc, ih]
      unfold dictStep
      split
      · rw [dictDel_dictSet_ne hl]
      · rfl

theorem liveStyle_snoc (l : List Attr) (p : Attr) :
    Spec.liveStyle (l ++ [p]) = if Spec.deadStyle p then (Spec.liveStyle l).filter (fun q => !Spec.isStyleAttr q)
      else Spec.liveStyle l ++ [p] := by
  simp [Spec.liveStyle, List.foldl_append]

/-! ### the store against the dict -/

/-- `spellcheck` is stored as a boolean string -/
def spellMap (p : Attr) : Attr := (p.1, if p.1 = kSpell then some (boolString p.2) else p.2)

/-- the store's dict: the specification's dict without `class`, `spellcheck` as boolean string (the raw text
    stays under `style` until a reader synchronises it) -/
def enc (D : List Attr) : List Attr := (dictDel D kClass).map spellMap

def clsOf (D : List Attr) : List Str :=
  match dictGet D kClass with
  | some v => classNamesOf v
  | none => []

def styOf (D : List Attr) : List (Str × Str) :=
  match dictGet D kStyle with
  | some v => styleToDict (v.getD [])
  | none => []

theorem enc_set_class (D : List Attr) (v : Option Str) : enc (dictSet D kClass v) = enc D := by
  unfold enc; rw [dictDel_dictSet_same]

theorem enc_set_ne (D : List Attr) {k : Str} (hk : k ≠ kClass) (v : Option Str) :
    enc (dictSet D k v) = dictSet (enc D) k (if k = kSpell then some (boolString v) else v) := by
  unfold enc
  rw [dictDel_dictSet_ne hk]
  exact map_dictSet (fun k v => if k = kSpell then some (boolString v) else v) k v _

theorem enc_del (D : List Attr) (k : Str) : enc (dictDel D k) = dictDel (enc D) k := by
  unfold enc
  rw [dictDel_comm]
  exact map_dictDel (fun k v => if k = kSpell then some (boolString v) else v) k _

structure Rel (st : AttrState) (D : List Attr) : Prop where
  d : st.d = enc D
  cls : st.classes = clsOf D
  sty : st.style = styOf D
  live : ∀ v, dictGet D kStyle = some v → styleToDict (v.getD []) ≠ []
  nodup : (keys D).Nodup

theorem rel_empty : Rel AttrState.empty [] where
  d := rfl
  cls := rfl
  sty := rfl
  live := by simp [dictGet]
  nodup := by simp [keys]

theorem style_ne_class : kStyle ≠ kClass := fun e => class_ne_style e.symm
theorem spell_ne_class' : kSpell ≠ kClass := by decide

theorem rel_set_valid {st : AttrState} {D : List Attr} (h : Rel st D) (k : Str) (v : Option Str)
    (hdead : ¬ (k = kStyle ∧ (styleToDict (v.getD [])).isEmpty = true)) : Rel (st.set k v) (dictSet D k v) := by
  by_cases h1 : k = kStyle
  · subst h1
    have hm : ¬ (styleToDict (v.getD [])).isEmpty = true := fun e => hdead ⟨rfl, e⟩
    rw [set_style]
    simp only [hm, if_false, Bool.false_eq_true]
    exact {
      d := by
        simp only
        rw [h.d, enc_set_ne D style_ne_class]
        simp [spell_ne_style.symm]
      cls := by
        simp only [clsOf, dictGet_dictSet, style_ne_class, if_false]
        exact h.cls
      sty := by simp only [styOf, dictGet_dictSet, if_true]
      live := by
        intro w hw
        simp only [dictGet_dictSet, if_true, Option.some.injEq] at hw
        subst hw
        intro e; rw [e] at hm; exact hm rfl
      nodup := nodup_dictSet _ _ h.nodup }
  by_cases h2 : k = kClass
  · subst h2
    rw [set_class]
    exact {
      d := by simp only; rw [enc_set_class]; exact h.d
      cls := by simp only [clsOf, dictGet_dictSet, if_true]
      sty := by
        simp only [styOf, dictGet_dictSet, class_ne_style, if_false]
        exact h.sty
      live := by
        intro w hw
        simp only [dictGet_dictSet, class_ne_style, if_false] at hw
        exact h.live w hw
      nodup := nodup_dictSet _ _ h.nodup }
  have hk1 : ¬ kStyle = k := fun e => h1 e.symm
  have hk2 : ¬ kClass = k := fun e => h2 e.symm
  by_cases h3 : k = kSpell
  · subst h3
    rw [set_spell]
    exact {
      d := by
        simp only
        rw [h.d, enc_set_ne D h2]
        simp
      cls := by
        simp only [clsOf, dictGet_dictSet, h2, if_false]
        exact h.cls
      sty := by
        simp only [styOf, dictGet_dictSet, h1, if_false]
        exact h.sty
      live := by
        intro w hw
        simp only [dictGet_dictSet, h1, if_false] at hw
        exact h.live w hw
      nodup := nodup_dictSet _ _ h.nodup }
  · rw [set_plain st h1 h2 h3]
    exact {
      d := by
        simp only
        rw [h.d, enc_set_ne D h2]
        simp [h3]
      cls := by
        simp only [clsOf, dictGet_dictSet, h2, if_false]
        exact h.cls
      sty := by
        simp only [styOf, dictGet_dictSet, h1, if_false]
        exact h.sty
      live := by
        intro w hw
        simp only [dictGet_dictSet, h1, if_false] at hw
        exact h.live w hw
      nodup := nodup_dictSet _ _ h.nodup }

theorem rel_set_dead {st : AttrState} {D : List Attr} (h : Rel st D) (v : Option Str)
    (hm : (styleToDict (v.getD [])).isEmpty = true) : Rel (st.set kStyle v) (dictDel D kStyle) := by
  rw [set_style]
  simp only [hm, if_true]
  have hm' : styleToDict (v.getD []) = [] := (isEmpty_iff_nil _).mp hm
  exact {
    d := by simp only; rw [h.d, enc_del]
    cls := by
      simp only [clsOf, dictGet_dictDel, style_ne_class, if_false]
      exact h.cls
    sty := by simp only [styOf, dictGet_dictDel, if_true, hm']
    live := by
      intro w hw
      simp [dictGet_dictDel] at hw
    nodup := nodup_dictDel _ h.nodup }

/-- **the constructor loop against the specification's dict** -/
theorem rel_intake (l : List Attr) : Rel (intake l AttrState.empty) (dictOf (Spec.liveStyle l)) := by
  induction l using snoc_induction with
  | h0 => exact rel_empty
  | hs l p ih =>
    rw [intake_append, intake_cons]
    simp only [intake]
    rw [liveStyle_snoc]
    unfold intakeStep
    by_cases hdead : Spec.deadStyle p = true
    · have hd := hdead
      simp only [Spec.deadStyle, Spec.isStyleAttr, Bool.and_eq_true] at hd
      have hd1 : lower p.1 = kStyle := of_decide_eq_true hd.1
      have hv : validAttrName (lower p.1) = true := by rw [hd1]; decide
      simp only [hdead, if_true, hv]
      rw [dictOf_filter_style, hd1]
      exact rel_set_dead ih p.2 hd.2
    · have hdead' : Spec.deadStyle p = false := by simpa using hdead
      simp only [hdead', Bool.false_eq_true, if_false]
      rw [dictOf_snoc]
      unfold dictStep
      by_cases hv : validAttrName (lower p.1) = true
      · simp only [hv, if_true]
        apply rel_set_valid ih
        rintro ⟨e1, e2⟩
        simp [Spec.deadStyle, Spec.isStyleAttr, spec_kStyle, e1, e2] at hdead'
      · simp only [hv, if_false, Bool.false_eq_true]
        exact ih

/-! ### the listing of such a store is the normalisation of the dict -/

theorem normItem_ne_style {p : Attr} (h : p.1 ≠ kStyle) : Spec.normItem p = some (spellMap p) := by
  unfold Spec.normItem spellMap
  simp only [spec_kStyle, spec_kSpell, h, if_false]
  split
  · rfl
  · next hs => simp [hs]

theorem filterMap_no_style : ∀ (X : List Attr), kStyle ∉ keys X → X.filterMap Spec.normItem = X.map spellMap
  | [], _ => rfl
  | p :: X, h => by
    have hp : p.1 ≠ kStyle := fun e => h (by simp [keys, e])
    have hX : kStyle ∉ keys X := fun m => h (by simp only [keys, List.map_cons, List.mem_cons]; exact Or.inr m)
    simp only [List.filterMap_cons, normItem_ne_style hp, List.map_cons, filterMap_no_style X hX]

theorem filterMap_style : ∀ (X : List Attr) (v : Option Str), (keys X).Nodup → dictGet X kStyle = some v →
    styleToDict (v.getD []) ≠ [] →
    X.filterMap Spec.normItem = dictSet (X.map spellMap) kStyle (some (styleStr (styleToDict (v.getD []))))
  | [], _, _, h, _ => by simp [dictGet] at h
  | (k0, v0) :: X, v, hn, hg, hm => by
    have hn' : k0 ∉ keys X ∧ (keys X).Nodup := by simpa [keys] using hn
    by_cases h : k0 = kStyle
    · subst h
      have hv : v0 = v := by simpa [dictGet] using hg
      subst hv
      have hme : ¬ (styleToDict (v0.getD [])).isEmpty = true := fun e => hm ((isEmpty_iff_nil _).mp e)
      have hitem : Spec.normItem (kStyle, v0) = some (kStyle, some (styleStr (styleToDict (v0.getD [])))) := by
        simp only [Spec.normItem, spec_kStyle, if_true, hme, if_false, Bool.false_eq_true]
      simp only [List.filterMap_cons, hitem, filterMap_no_style X hn'.1, List.map_cons, spellMap, dictSet, if_true]
    · have hg' : dictGet X kStyle = some v := by simpa [dictGet, h] using hg
      have ih := filterMap_style X v hn'.2 hg' hm
      have hitem := normItem_ne_style (p := (k0, v0)) h
      simp only [List.filterMap_cons, hitem, ih, List.map_cons]
      have : (spellMap (k0, v0)).1 = k0 := rfl
      conv => rhs; unfold dictSet
      simp [spellMap, h]

theorem keys_dictDel_nodup {D : List Attr} (k : Str) (h : (keys D).Nodup) : (keys (dictDel D k)).Nodup :=
  nodup_dictDel k h

theorem view_eq_normalise {st : AttrState} {D : List Attr} (hc : Canon st) (h : Rel st D) :
    st.view = Spec.normalise D := by
  rw [view_eq hc]
  unfold Spec.normalise
  simp only
  -- the class part
  have hcw : Spec.classWordsOf D = st.classes := by
    rw [h.cls]
    unfold Spec.classWordsOf clsOf
    rw [dictGet_find, spec_kClass]
    cases D.find? (fun p => decide (p.1 = kClass)) <;> rfl
  have hcp : cP st = if (Spec.classWordsOf D).isEmpty then [] else [(Spec.kClass, some (joinWith [' '] (Spec.classWordsOf D)))] := by
    rw [hcw]; rfl
  -- the body
  have hbody : dS st = (D.filter (fun p => p.1 ≠ Spec.kClass)).filterMap Spec.normItem := by
    have hX : (D.filter (fun p => decide (p.1 ≠ Spec.kClass))) = dictDel D kClass := rfl
    rw [hX]
    have hnd := nodup_dictDel kClass h.nodup
    have hget : dictGet (dictDel D kClass) kStyle = dictGet D kStyle := by
      rw [dictGet_dictDel]; simp [class_ne_style]
    unfold dS
    rw [h.sty, h.d]
    unfold styOf enc
    cases hg : dictGet D kStyle with
    | none =>
      simp only [List.isEmpty_nil, if_true]
      have : kStyle ∉ keys (dictDel D kClass) := by
        rw [← dictGet_none_iff, hget, hg]
      rw [filterMap_no_style _ this]
    | some v =>
      have hm := h.live v hg
      have hme : ¬ (styleToDict (v.getD [])).isEmpty = true := fun e => hm ((isEmpty_iff_nil _).mp e)
      simp only [hme, if_false, Bool.false_eq_true]
      rw [filterMap_style _ v hnd (by rw [hget, hg]) hm]
  rw [hbody, hcp]
  split
  · simp
  · rfl

end AHP.AttrStores

namespace AHP
open AHP.AttrStores

/-- **C02 (attribute clause, in general).** The listing of the store the constructor builds from ANY raw attribute
    list is the documented normalisation of the independently specified attribute set (`Spec.attrs`: lower-cased
    valid names in first-occurrence order, each with its last value), taken over the list without the `style`
    attributes that a declaration-less `style` attribute behind them cancelled (`Spec.liveStyle`). -/
theorem intake_view_eq_spec (l : List Attr) :
    (intake l AttrState.empty).view = Spec.normalise (Spec.attrs (Spec.liveStyle l)) := by
  rw [attrs_eq_dictOf]
  exact view_eq_normalise (canon_intake l canon_empty) (rel_intake l)

theorem liveStyle_of_no_dead (l : List Attr) (h : ∀ p ∈ l, Spec.deadStyle p = false) : Spec.liveStyle l = l := by
  induction l using snoc_induction with
  | h0 => rfl
  | hs l p ih =>
    rw [liveStyle_snoc, h p (by simp)]
    simp only [Bool.false_eq_true, if_false]
    rw [ih (fun q hq => h q (by simp [hq]))]

/-- …without the carve-out when no `style` attribute of the list is declaration-less -/
theorem intake_view_eq_spec_live (l : List Attr) (h : ∀ p ∈ l, Spec.deadStyle p = false) :
    (intake l AttrState.empty).view = Spec.normalise (Spec.attrs l) := by
  rw [intake_view_eq_spec, liveStyle_of_no_dead l h]

theorem filterMap_self_of {α : Type} (f : α → Option α) : ∀ (D : List α), (∀ p ∈ D, f p = some p) → D.filterMap f = D
  | [], _ => rfl
  | p :: D, h => by
    rw [List.filterMap_cons, h p (by simp)]
    simp only
    rw [filterMap_self_of f D (fun q hq => h q (List.mem_cons_of_mem _ hq))]

/-- on attribute sets without `class` / `style` / `spellcheck` the normalisation is the identity -/
theorem normalise_plain (D : List Attr) (h : ∀ k ∈ keys D, k ≠ kClass ∧ k ≠ kStyle ∧ k ≠ kSpell) :
    Spec.normalise D = D := by
  unfold Spec.normalise
  simp only
  have hcw : Spec.classWordsOf D = [] := by
    unfold Spec.classWordsOf
    rw [spec_kClass]
    have : D.find? (fun p => decide (p.1 = kClass)) = none := by
      rw [List.find?_eq_none]
      intro p hp
      have := (h p.1 (mem_keys_of_mem hp)).1
      simp [this]
    rw [this]
  have hfil : D.filter (fun p => decide (p.1 ≠ Spec.kClass)) = D := by
    apply List.filter_eq_self.mpr
    intro p hp
    have := (h p.1 (mem_keys_of_mem hp)).1
    rw [spec_kClass]
    exact decide_eq_true this
  have hmap : D.filterMap Spec.normItem = D := by
    have : ∀ p ∈ D, Spec.normItem p = some p := by
      intro p hp
      obtain ⟨_, h2, h3⟩ := h p.1 (mem_keys_of_mem hp)
      simp [Spec.normItem, spec_kStyle, spec_kSpell, h2, h3]
    exact filterMap_self_of _ _ this
  rw [hcw, hfil, hmap]
  rfl

/-- **C02 (attribute clause, plain names).** For every raw attribute list without `class` / `style` / `spellcheck`
    (any letter case; duplicates, invalid names allowed) the store lists exactly `Spec.attrs l`. -/
theorem intake_view_eq_spec_plain (l : List Attr)
    (h : ∀ p ∈ l, lower p.1 ≠ kClass ∧ lower p.1 ≠ kStyle ∧ lower p.1 ≠ kSpell) :
    (intake l AttrState.empty).view = Spec.attrs l := by
  have hdead : ∀ p ∈ l, Spec.deadStyle p = false := by
    intro p hp
    have := (h p hp).2.1
    simp [Spec.deadStyle, Spec.isStyleAttr, spec_kStyle, this]
  rw [intake_view_eq_spec_live l hdead]
  apply normalise_plain
  intro k hk
  rw [attrs_eq_dictOf] at hk
  obtain ⟨p, hp, e⟩ := keys_dictOf l k hk
  rw [e]; exact h p hp

end AHP
