/-
  AHP.Lemmas.DomSpec — the specification side of C05: documents as plain trees of blocks *without*
  cached fields (no `children`, no `text`, no `parentNode`, no `ownerDocument`), and the documented
  effect of every call on the block list of its target only:
    append adds at the end; insertBefore / insertAfter add immediately before / after the reference
    block (appending when it is None); the remove calls take out exactly the named child, the first
    matching text, or all matching text, and return what they are documented to return;
    any addition clears the self-closing flag.
-/
import AHP.Model.Dom
import AHP.Model.DomView
namespace AHP.Dom.Spec
open AHP AHP.Dom

structure SMeta where
  id : Nat
  name : Str
  attrs : List (Str × Option Str)
  sc : Bool
  deriving Repr, Inhabited, DecidableEq

inductive SN where
  | text (s : Str)
  | el (m : SMeta) (kids : List SN)
  deriving Repr, Inhabited

structure SEdit where
  m : SMeta
  kids : List SN
  out : List SN
  deriving Inhabited

def selemIds : List SN → List Nat
  | [] => []
  | .text _ :: bs => selemIds bs
  | .el m _ :: bs => m.id :: selemIds bs

def srootId : SN → Option Nat
  | .text _ => none
  | .el m _ => some m.id

mutual
def sfind? (t : Nat) : SN → Option (SMeta × List SN)
  | .text _ => none
  | .el m bs => if m.id = t then some (m, bs) else sfindL? t bs
def sfindL? (t : Nat) : List SN → Option (SMeta × List SN)
  | [] => none
  | b :: bs => match sfind? t b with
    | some r => some r
    | none => sfindL? t bs
end

mutual
def supd (t : Nat) (g : SMeta → List SN → SEdit) : SN → SN × List SN
  | .text s => (.text s, [])
  | .el m bs =>
    if m.id = t then (.el (g m bs).m (g m bs).kids, (g m bs).out)
    else (.el m (supdL t g bs).1, (supdL t g bs).2)
def supdL (t : Nat) (g : SMeta → List SN → SEdit) : List SN → List SN × List SN
  | [] => ([], [])
  | b :: bs => ((supd t g b).1 :: (supdL t g bs).1, (supd t g b).2 ++ (supdL t g bs).2)
end

mutual
/-- the element whose block list contains the element `t` -/
def sparent? (t : Nat) : SN → Option Nat
  | .text _ => none
  | .el m bs => if t ∈ selemIds bs then some m.id else sparentL? t bs
def sparentL? (t : Nat) : List SN → Option Nat
  | [] => none
  | b :: bs => match sparent? t b with
    | some r => some r
    | none => sparentL? t bs
end

def sblockEq : Blk → SN → Bool
  | .txt s, .text x => s == x
  | .elm c, .el m _ => m.id == c
  | _, _ => false

def sindexOf (r : Blk) : List SN → Option Nat
  | [] => none
  | b :: bs => if sblockEq r b then some 0 else (sindexOf r bs).map (· + 1)

def sremoveFirstEl (c : Nat) : List SN → Option (SN × List SN)
  | [] => none
  | .text s :: bs => (sremoveFirstEl c bs).map (fun r => (r.1, .text s :: r.2))
  | .el m k :: bs =>
    if m.id = c then some (.el m k, bs)
    else (sremoveFirstEl c bs).map (fun r => (r.1, .el m k :: r.2))

def sreplaceFirstText (s : Str) : List SN → Option (Str × List SN)
  | [] => none
  | .el m k :: bs => (sreplaceFirstText s bs).map (fun r => (r.1, .el m k :: r.2))
  | .text x :: bs =>
    if isInfix s x then some (x, .text (removeAll s x) :: bs)
    else (sreplaceFirstText s bs).map (fun r => (r.1, .text x :: r.2))

def sreplaceAllText (s : Str) : List SN → List Str × List SN
  | [] => ([], [])
  | .el m k :: bs => ((sreplaceAllText s bs).1, .el m k :: (sreplaceAllText s bs).2)
  | .text x :: bs =>
    if isInfix s x then (x :: (sreplaceAllText s bs).1, .text (removeAll s x) :: (sreplaceAllText s bs).2)
    else ((sreplaceAllText s bs).1, .text x :: (sreplaceAllText s bs).2)

/-! ### the documented local effects -/

/-- a block added at the end -/
def sAppend (x : SN) (m : SMeta) (kids : List SN) : SEdit := ⟨{ m with sc := false }, kids ++ [x], []⟩
/-- a block added at position `i` -/
def sInsertAt (i : Nat) (x : SN) (m : SMeta) (kids : List SN) : SEdit := ⟨{ m with sc := false }, insertAt i x kids, []⟩

def sInsert (after : Bool) (r : Blk) (x : SN) (v : Val) (m : SMeta) (kids : List SN) : Option SEdit × Val :=
  match sindexOf r kids with
  | none => (none, .raise "ValueError")
  | some i => (some (sInsertAt (if after then i + 1 else i) x m kids), v)

/-- the named child taken out (returned), or None and nothing touched -/
def sRemoveChild (c : Nat) (m : SMeta) (kids : List SN) : Option SEdit × Val :=
  match sremoveFirstEl c kids with
  | some r => (some ⟨m, r.2, [r.1]⟩, .el c)
  | none => (none, .none)

def sRemoveText (s : Str) (m : SMeta) (kids : List SN) : SEdit × Val :=
  match sreplaceFirstText s kids with
  | some r => (⟨m, r.2, []⟩, .str r.1)
  | none => (⟨m, kids, []⟩, .none)

def sRemoveTextAll (s : Str) (m : SMeta) (kids : List SN) : SEdit × Val :=
  (⟨m, (sreplaceAllText s kids).2, []⟩, .list ((sreplaceAllText s kids).1.map .str))

def sSetAttribute (k v : Str) (m : SMeta) (kids : List SN) : Option SEdit × Val :=
  if validAttrName k then (some ⟨{ m with attrs := setAssoc (lower k) (some v) m.attrs }, kids, []⟩, .none)
  else (none, .raise "KeyError")

/-! ### reference documents -/

structure SWorld where
  roots : List SN
  next : Nat
  nextDoc : Nat
  deriving Inhabited

def SWorld.edit (w : SWorld) (t : Nat) (g : SMeta → List SN → SEdit) : SWorld :=
  { w with roots := (supdL t g w.roots).1 ++ (supdL t g w.roots).2 }

def SWorld.apply (w : SWorld) (t : Nat) (loc : SMeta → List SN → Option SEdit × Val) : Option (SWorld × Val) :=
  match sfindL? t w.roots with
  | none => none
  | some (m, bs) =>
    match (loc m bs).1 with
    | none => some (w, (loc m bs).2)
    | some _ => some (w.edit t (fun m bs => ((loc m bs).1).getD ⟨m, bs, []⟩), (loc m bs).2)

def stakeRoot (c : Nat) : List SN → Option (SN × List SN)
  | [] => none
  | r :: rs =>
    if srootId r = some c then some (r, rs)
    else (stakeRoot c rs).map (fun x => (x.1, r :: x.2))

def SWorld.appendText (w : SWorld) (t : Nat) (s : Str) : Option (SWorld × Val) :=
  w.apply t (fun m bs => (some (sAppend (.text s) m bs), .none))

def SWorld.appendChild (w : SWorld) (t c : Nat) : Option (SWorld × Val) :=
  match stakeRoot c w.roots with
  | none => none
  | some (ct, rest) =>
    SWorld.apply { w with roots := rest } t (fun m bs => (some (sAppend ct m bs), .el c))

def SWorld.appendBlock (w : SWorld) (t : Nat) : Blk → Option (SWorld × Val)
  | .txt s => (w.appendText t s).map (fun r => (r.1, .str s))
  | .elm c => w.appendChild t c

def SWorld.appendBlocksLoop (w : SWorld) (t : Nat) : List Blk → Option SWorld
  | [] => some w
  | b :: bs => match w.appendBlock t b with
    | none => none
    | some r => SWorld.appendBlocksLoop r.1 t bs

def SWorld.appendBlocks (w : SWorld) (t : Nat) (bs : List Blk) : Option (SWorld × Val) :=
  (w.appendBlocksLoop t bs).map (fun w' => (w', .list (bs.map blkVal)))

mutual
/-- the tree a parsed node stands for, uids in creation order -/
def smk : FN → Nat → SN × Nat
  | .text s, n => (.text s, n)
  | .el name attrs sc kids, n =>
    (.el ⟨n, name, attrs, (sc || isVoid name) && kids.isEmpty⟩ (.text [] :: (smkL kids (n+1)).1), (smkL kids (n+1)).2)
def smkL : List FN → Nat → List SN × Nat
  | [], n => ([], n)
  | k :: ks, n => ((smk k n).1 :: (smkL ks (smk k n).2).1, (smkL ks (smk k n).2).2)
end

/-- the top-level blocks of a fragment, as the document parser produces them, and the next uid.

    NOTE (review B, M6): for a multi-node fragment the list starts with an EMPTY text block.  That is the behaviour of the
    CODE written into this specification, not a reading of the property: `createBlocksFromHTML` copies the `blocks` of the
    invisible wrapper element, and every element's `blocks` start with the empty indent string it is created with
    (`createBlocksFromHTML('hi <b>x</b>')` is `['', 'hi ', <b>]` on the library).  The property's wording — "no text that
    is not in the fragment" — is proved on top of it in Props/C20.lean: every NON-EMPTY text block is the text of a token
    of the fragment (`createBlocks_text_in_fragment`, `createBlocks_text_in_parse`). -/
def sfragment (n : Nat) : Parsed → List SN × Nat
  | .single r => ([(smk r n).1], (smk r n).2)
  | .multi tops => (.text [] :: (smkL tops (n+1)).1, (smkL tops (n+1)).2)

def stoBlk : SN → Blk
  | .text s => .txt s
  | .el m _ => .elm m.id

def SN.isEl : SN → Bool
  | .text _ => false
  | .el _ _ => true

def SWorld.appendInnerHTML (w : SWorld) (t : Nat) (p : Parsed) : Option (SWorld × Val) :=
  (SWorld.appendBlocksLoop
      { roots := w.roots ++ (sfragment w.next p).1.filter SN.isEl, next := (sfragment w.next p).2, nextDoc := w.nextDoc + 1 }
      t ((sfragment w.next p).1.map stoBlk)).map (fun w' => (w', .none))

def SWorld.insert (w : SWorld) (after : Bool) (t : Nat) (b : Blk) (ref : Option Blk) : Option (SWorld × Val) :=
  match ref with
  | none => w.appendBlock t b
  | some r =>
    match b with
    | .txt s => w.apply t (sInsert after r (.text s) (.str s))
    | .elm c =>
      match stakeRoot c w.roots with
      | none => none
      | some (ct, rest) =>
        match sfindL? t rest with
        | none => none
        | some (_, bs) =>
          match sindexOf r bs with
          | none => some (w, .raise "ValueError")
          | some _ => some (SWorld.edit { w with roots := rest } t
              (fun m bs => ((sInsert after r ct (.el c) m bs).1).getD (sAppend ct m bs)), .el c)

def SWorld.removeText (w : SWorld) (t : Nat) (s : Str) : Option (SWorld × Val) :=
  w.apply t (fun m bs => (some (sRemoveText s m bs).1, (sRemoveText s m bs).2))

def SWorld.removeTextAll (w : SWorld) (t : Nat) (s : Str) : Option (SWorld × Val) :=
  w.apply t (fun m bs => (some (sRemoveTextAll s m bs).1, (sRemoveTextAll s m bs).2))

def SWorld.removeChild (w : SWorld) (t c : Nat) : Option (SWorld × Val) :=
  w.apply t (sRemoveChild c)

/-- `remove()`: nothing when the element is one of the roots (False); else it is taken out of the
    element that holds it (True) -/
def SWorld.remove (w : SWorld) (t : Nat) : Option (SWorld × Val) :=
  match sfindL? t w.roots with
  | none => none
  | some _ =>
    match (if t ∈ selemIds w.roots then none else sparentL? t w.roots) with
    | none => some (w, .bool false)
    | some p => (w.removeChild p t).map (fun r => (r.1, .bool true))

def SWorld.removeBlock (w : SWorld) (t : Nat) : Blk → Option (SWorld × Val)
  | .elm c => w.removeChild t c
  | .txt s => w.removeText t s

def SWorld.removeBlocksLoop (w : SWorld) (t : Nat) : List Blk → Option (SWorld × List Val)
  | [] => some (w, [])
  | b :: bs => match w.removeBlock t b with
    | none => none
    | some r => (SWorld.removeBlocksLoop r.1 t bs).map (fun r' => (r'.1, r.2 :: r'.2))

def SWorld.removeBlocks (w : SWorld) (t : Nat) (bs : List Blk) : Option (SWorld × Val) :=
  (w.removeBlocksLoop t bs).map (fun r => (r.1, .list r.2))

def SWorld.setAttribute (w : SWorld) (t : Nat) (k v : Str) : Option (SWorld × Val) :=
  if specialAttr k then none else w.apply t (sSetAttribute k v)

/-- the documented effect of one call on a reference document -/
def sstep (w : SWorld) : Op → Option (SWorld × Val)
  | .appendText t s => w.appendText t s
  | .appendChild t none => (sfindL? t w.roots).map (fun _ => (w, .raise "KeyError"))
  | .appendChild t (some c) => w.appendChild t c
  | .appendBlock t b => w.appendBlock t b
  | .appendBlocks t bs => w.appendBlocks t bs
  | .appendInnerHTML t p => w.appendInnerHTML t p
  | .insertBefore t b ref => w.insert false t b ref
  | .insertAfter t b ref => w.insert true t b ref
  | .removeText t s => w.removeText t s
  | .removeTextAll t s => w.removeTextAll t s
  | .remove t => w.remove t
  | .removeChild t c => w.removeChild t c
  | .removeChildren t cs => w.removeBlocks t (cs.map .elm)
  | .removeBlock t b => w.removeBlock t b
  | .removeBlocks t bs => w.removeBlocks t bs
  | .setAttribute t k v => w.setAttribute t k v

def srun (w : SWorld) : List Op → Option SWorld
  | [] => some w
  | op :: ops => match sstep w op with
    | none => none
    | some r => srun r.1 ops

/-! ### serialisation of a reference document -/

def sstartTag (m : SMeta) : Str :=
  '<' :: m.name ++ attrsStr m.attrs ++ (if m.sc then " />".toList else " >".toList)
def sendTag (m : SMeta) : Str := if m.sc then [] else "</".toList ++ m.name ++ ">".toList

mutual
def shtml : SN → Str
  | .text s => s
  | .el m bs => sstartTag m ++ (if m.sc then [] else shtmlL bs) ++ sendTag m
def shtmlL : List SN → Str
  | [] => []
  | b :: bs => shtml b ++ shtmlL bs
end

mutual
def stext : SN → Str
  | .text s => s
  | .el _ bs => stextL bs
def stextL : List SN → Str
  | [] => []
  | b :: bs => stext b ++ stextL bs
end

/-! ### abstraction: forget the cached fields -/

def absM (m : Meta) : SMeta := ⟨m.id, m.name, m.attrs, m.sc⟩

mutual
def abs : DN → SN
  | .text s => .text s
  | .el m bs => .el (absM m) (absL bs)
def absL : List DN → List SN
  | [] => []
  | b :: bs => abs b :: absL bs
end

def absE (e : Edit) : SEdit := ⟨absM e.m, absL e.blocks, absL e.out⟩

def absW (w : World) : SWorld := ⟨absL w.roots, w.next, w.nextDoc⟩

end AHP.Dom.Spec
