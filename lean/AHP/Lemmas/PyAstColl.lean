/-
  Lemmas for the code tie of `Tags.TagCollection` (Props/C18Code.lean): the hand model's collection (`Model/Coll.lean`:
  uids as `Nat`s) inside the interpreter's lists and sets, the object a collection is, the method table of the dump, the
  three leaf methods (`_hasTag`, `append`, `remove`) evaluated once and for all, and the two loops of the operators
  (`for other in others: if hasTag(other) is False: o.append(other)` / `… is True: o.remove(other)`) for an arbitrary
  operand list, by induction on it.
-/
import AHP.Lemmas.PyAst
import AHP.Model.Coll
namespace AHP.PyAst
open AHP AHP.Gen AHP.Conv AHP.Gen.Code

/-! ### elements and uids as values -/

/-- an element (an `AdvancedTag`), as a value: identified by its uid -/
def elemV (u : Nat) : PyV := .ancestor u
/-- its uid, as a value -/
def uidV (u : Nat) : PyV := .int (u : Int)
def embE (l : List Nat) : List PyV := l.map elemV
def embU (l : List Nat) : List PyV := l.map uidV

theorem pyEqV_elem (a b : Nat) : pyEqV (elemV a) (elemV b) = decide (a = b) := rfl
theorem pyEqV_uid (a b : Nat) : pyEqV (uidV a) (uidV b) = decide (a = b) := by
  simp only [uidV, pyEqV]
  by_cases h : a = b
  · simp [h]
  · have : ¬ ((a : Int) = (b : Int)) := by omega
    simp [h, this]
theorem hashable_uid (a : Nat) : hashable (uidV a) = true := rfl

theorem embE_append (a b : List Nat) : embE (a ++ b) = embE a ++ embE b := by simp [embE]
theorem embU_append (a b : List Nat) : embU (a ++ b) = embU a ++ embU b := by simp [embU]
theorem embE_snoc (a : List Nat) (x : Nat) : embE a ++ [elemV x] = embE (a ++ [x]) := by simp [embE]
theorem embU_snoc (a : List Nat) (x : Nat) : embU a ++ [uidV x] = embU (a ++ [x]) := by simp [embU]

theorem sMem_emb (l : List Nat) (x : Nat) : sMem (embU l) (uidV x) = l.contains x := by
  induction l with
  | nil => rfl
  | cons a r ih =>
    simp only [embU, sMem, List.map_cons, List.any_cons, pyEqV_uid, List.contains_cons] at ih ⊢
    rw [ih]
    by_cases h : x = a <;> simp [h]

theorem sAdd_emb (l : List Nat) (x : Nat) : sAdd (embU l) (uidV x) = embU (if l.contains x then l else l ++ [x]) := by
  rw [sAdd, sMem_emb]
  by_cases h : x ∈ l
  · simp [h]
  · simp [h, embU]

theorem sRemove_emb (l : List Nat) (x : Nat) :
    sRemove (uidV x) (embU l) = if l.contains x then some (embU (l.erase x)) else none := by
  induction l with
  | nil => rfl
  | cons a r ih =>
    simp only [embU, List.map_cons, sRemove, pyEqV_uid] at ih ⊢
    by_cases h : x = a
    · subst h; simp
    · have h2 : ¬ a = x := fun e => h e.symm
      have h3 : (a == x) = false := by simpa using h2
      rw [ih]
      by_cases hm : x ∈ r
      · simp [h, hm, List.erase_cons, h3]
      · simp [h, hm]

theorem removeFirst_embE (l : List Nat) (x : Nat) :
    removeFirst (elemV x) (embE l) = if l.contains x then some (embE (l.erase x)) else none := by
  induction l with
  | nil => rfl
  | cons a r ih =>
    simp only [embE, List.map_cons, removeFirst, pyEqV_elem] at ih ⊢
    by_cases h : a = x
    · subst h; simp
    · have h2 : ¬ x = a := fun e => h e.symm
      have h3 : (a == x) = false := by simpa using h
      rw [ih]
      by_cases hm : x ∈ r
      · simp [h, h2, hm, List.erase_cons, h3]
      · simp [h, h2, hm]

/-! ### the object -/

/-- A `TagCollection` object: the list it is (its elements) and the field `uids` (a set of uids), holding the hand model's
state. -/
def ofColl (c : Coll) : List (String × Field) :=
  [(listPart, .list (embE c.items)), ("uids", .set (embU c.uids))]

theorem ofColl_inj {c d : Coll} (h : ofColl c = ofColl d) : c = d := by
  have hinjE : ∀ a b : List Nat, embE a = embE b → a = b := by
    intro a b hab
    exact (List.map_inj_right (by intro x y hxy; simpa [elemV] using hxy)).mp hab
  have hinjU : ∀ a b : List Nat, embU a = embU b → a = b := by
    intro a b hab
    exact (List.map_inj_right (by intro x y hxy; simp only [uidV, PyV.int.injEq] at hxy; omega)).mp hab
  obtain ⟨i1, u1⟩ := c
  obtain ⟨i2, u2⟩ := d
  simp only [ofColl, List.cons.injEq, Prod.mk.injEq, Field.list.injEq, Field.set.injEq, true_and, and_true] at h
  rw [hinjE _ _ h.1, hinjU _ _ h.2]

/-! ### the method table of the dump -/

/-- what the methods run in apart from each other: no module functions, no globals -/
def tcBase : Ctx := { parseInt := fun _ => .error .valueError, funs := fun _ => none, cls := "TagCollection" }

/-- The context of the `k+1`-th dumped method of `TagCollection` (dependency order): the `k` methods before it.
`tcCx 9`: all of them (what `uniqueTags` runs in). -/
def tcCx (k : Nat) : Ctx := { tcBase with meths := methIn tcBase (tag_collection.take k).reverse }

theorem tcCx_funs (k : Nat) (f : String) : (tcCx k).funs f = none := rfl
theorem tcCx_cls (k : Nat) : (tcCx k).cls = "TagCollection" := rfl

/-- what `remove` does, raising or not: the state it leaves and its result (`list.remove` raises `ValueError` before anything
is changed; `set.remove` raises `KeyError` after the list has lost the element) -/
def removeRun (c : Coll) (x : Nat) : Coll × Except PyErr Val :=
  if c.items.contains x then
    if c.uids.contains x then (⟨c.items.erase x, c.uids.erase x⟩, .ok (.py .none))
    else (⟨c.items.erase x, c.uids⟩, .error .keyError)
  else (c, .error .valueError)

theorem removeRun_some (c : Coll) (x : Nat) :
    c.remove x = (match (removeRun c x).2 with | .ok _ => some (removeRun c x).1 | .error _ => none) := by
  unfold Coll.remove removeRun
  by_cases h1 : x ∈ c.items <;> by_cases h2 : x ∈ c.uids <;> simp [h1, h2]

/-! ### the leaf methods, in any context -/

theorem hasTag_run (cx : Ctx) (c : Coll) (x : Nat) :
    runMeth cx TagCollection_hasTag_ast (ofColl c) [.py (elemV x)]
      = (some (ofColl c), .ok (.py (.bool (c.hasTag x)))) := by
  simp [runMeth, TagCollection_hasTag_ast, bindArgs, execL, execS, eval, List.lookup, getAttr, elemV, ofColl, listPart,
    Field.toVal, pyCompare, compareB, pyIn, hashable, resultOf, Coll.hasTag]
  have h := sMem_emb c.uids x
  simp only [uidV] at h
  simp [h]

theorem append_run (cx : Ctx) (c : Coll) (x : Nat) :
    runMeth cx TagCollection_append_ast (ofColl c) [.py (elemV x)]
      = (some (ofColl (c.append x)), .ok (.py .none)) := by
  have h := sAdd_emb c.uids x
  simp only [uidV] at h
  simp [runMeth, TagCollection_append_ast, bindArgs, execL, execS, eval, evalList, List.lookup, getAttr, elemV, ofColl,
    listPart, baseCall, mutCall, putField, assocSet, getField, hashable, resultOf, Coll.append, h, embE]

theorem remove_run (cx : Ctx) (c : Coll) (x : Nat) :
    runMeth cx TagCollection_remove_ast (ofColl c) [.py (elemV x)]
      = (some (ofColl (removeRun c x).1), (removeRun c x).2) := by
  have h1 := removeFirst_embE c.items x
  have h2 := sRemove_emb c.uids x
  simp only [uidV, elemV] at h1 h2
  by_cases hi : x ∈ c.items
  · by_cases hu : x ∈ c.uids
    · simp [runMeth, TagCollection_remove_ast, bindArgs, execL, execS, eval, evalList, List.lookup, getAttr, elemV, ofColl,
        listPart, baseCall, mutCall, putField, assocSet, getField, hashable, resultOf, removeRun, h1, h2, hi, hu]
    · simp [runMeth, TagCollection_remove_ast, bindArgs, execL, execS, eval, evalList, List.lookup, getAttr, elemV, ofColl,
        listPart, baseCall, mutCall, putField, assocSet, getField, hashable, resultOf, removeRun, h1, h2, hi, hu]
  · simp [runMeth, TagCollection_remove_ast, bindArgs, execL, execS, eval, evalList, List.lookup, getAttr, elemV, ofColl,
      listPart, baseCall, mutCall, putField, assocSet, getField, hashable, resultOf, removeRun, h1, h2, hi]

/-! ### what the method table holds (`callMeth`: `runMeth` and the guards on mutable arguments / bound results) -/

/-- a method with one further parameter, called with an element: the guards of `callMeth` hold trivially -/
theorem callMeth_elem (cx : Ctx) (f : Fun) (s : List (String × Field)) (x : Nat) (p q : String)
    (hp : f.params = [(p, none), (q, none)]) (hpq : (q == p) = false) (v : PyV)
    (h : (runMeth cx f s [.py (elemV x)]).2 = .ok (.py v) ∨ ∃ e, (runMeth cx f s [.py (elemV x)]).2 = .error e) :
    callMeth cx f s [.py (elemV x)] = runMeth cx f s [.py (elemV x)] := by
  simp only [callMeth, hp, bindArgs, List.lookup, Option.isSome, List.isEmpty, Bool.false_eq_true, if_false, if_true,
    List.drop, argsKept, Val.mutable, Bool.not_false, Bool.true_or, Bool.and_true]
  rcases h with h | ⟨e, h⟩
  · generalize hr : runMeth cx f s [.py (elemV x)] = r at h ⊢
    obtain ⟨a, b⟩ := r
    simp only at h
    subst h
    simp [Val.isBound]
  · generalize hr : runMeth cx f s [.py (elemV x)] = r at h ⊢
    obtain ⟨a, b⟩ := r
    simp only at h
    subst h
    rfl

theorem hasTag_call (cx : Ctx) (c : Coll) (x : Nat) :
    callMeth cx TagCollection_hasTag_ast (ofColl c) [.py (elemV x)]
      = (some (ofColl c), .ok (.py (.bool (c.hasTag x)))) := by
  rw [callMeth_elem cx _ _ x "self" "tag" rfl (by decide) (.bool (c.hasTag x)) (Or.inl (by rw [hasTag_run])), hasTag_run]

theorem append_call (cx : Ctx) (c : Coll) (x : Nat) :
    callMeth cx TagCollection_append_ast (ofColl c) [.py (elemV x)]
      = (some (ofColl (c.append x)), .ok (.py .none)) := by
  rw [callMeth_elem cx _ _ x "self" "tag" rfl (by decide) .none (Or.inl (by rw [append_run])), append_run]

theorem removeRun_result (c : Coll) (x : Nat) :
    (removeRun c x).2 = .ok (.py .none) ∨ ∃ e, (removeRun c x).2 = .error e := by
  unfold removeRun
  by_cases h1 : x ∈ c.items <;> by_cases h2 : x ∈ c.uids <;> simp [h1, h2]

theorem remove_call (cx : Ctx) (c : Coll) (x : Nat) :
    callMeth cx TagCollection_remove_ast (ofColl c) [.py (elemV x)]
      = (some (ofColl (removeRun c x).1), (removeRun c x).2) := by
  rw [callMeth_elem cx _ _ x "self" "toRemove" rfl (by decide) .none (by rw [remove_run]; exact removeRun_result c x),
    remove_run]

/-- What the operators need of the context they run in: the three leaf methods are in its table. -/
structure Leaves (cx : Ctx) : Prop where
  hasTag : ∃ c0, cx.meths "_hasTag" = some (callMeth c0 TagCollection_hasTag_ast)
  append : ∃ c0, cx.meths "append" = some (callMeth c0 TagCollection_append_ast)
  remove : ∃ c0, cx.meths "remove" = some (callMeth c0 TagCollection_remove_ast)

theorem tcCx_hasTag (k : Nat) (h1 : 1 ≤ k) (h2 : k ≤ 9) :
    (tcCx k).meths "_hasTag" = some (callMeth (tcCx 0) TagCollection_hasTag_ast) := by
  have : k = 1 ∨ k = 2 ∨ k = 3 ∨ k = 4 ∨ k = 5 ∨ k = 6 ∨ k = 7 ∨ k = 8 ∨ k = 9 := by omega
  rcases this with rfl | rfl | rfl | rfl | rfl | rfl | rfl | rfl | rfl <;> rfl
theorem tcCx_append (k : Nat) (h1 : 2 ≤ k) (h2 : k ≤ 9) :
    (tcCx k).meths "append" = some (callMeth (tcCx 1) TagCollection_append_ast) := by
  have : k = 2 ∨ k = 3 ∨ k = 4 ∨ k = 5 ∨ k = 6 ∨ k = 7 ∨ k = 8 ∨ k = 9 := by omega
  rcases this with rfl | rfl | rfl | rfl | rfl | rfl | rfl | rfl <;> rfl
theorem tcCx_remove (k : Nat) (h1 : 3 ≤ k) (h2 : k ≤ 9) :
    (tcCx k).meths "remove" = some (callMeth (tcCx 2) TagCollection_remove_ast) := by
  have : k = 3 ∨ k = 4 ∨ k = 5 ∨ k = 6 ∨ k = 7 ∨ k = 8 ∨ k = 9 := by omega
  rcases this with rfl | rfl | rfl | rfl | rfl | rfl | rfl <;> rfl
theorem tcCx_iadd (k : Nat) (h1 : 5 ≤ k) (h2 : k ≤ 9) :
    (tcCx k).meths "__iadd__" = some (callMeth (tcCx 4) TagCollection_iadd_ast) := by
  have : k = 5 ∨ k = 6 ∨ k = 7 ∨ k = 8 ∨ k = 9 := by omega
  rcases this with rfl | rfl | rfl | rfl | rfl <;> rfl
theorem tcCx_init (k : Nat) (h1 : 7 ≤ k) (h2 : k ≤ 9) :
    (tcCx k).meths "__init__" = some (callMeth (tcCx 6) TagCollection_init_ast) := by
  have : k = 7 ∨ k = 8 ∨ k = 9 := by omega
  rcases this with rfl | rfl | rfl <;> rfl

theorem leaves_tcCx (k : Nat) (h1 : 3 ≤ k) (h2 : k ≤ 9) : Leaves (tcCx k) :=
  ⟨⟨_, tcCx_hasTag k (by omega) h2⟩, ⟨_, tcCx_append k (by omega) h2⟩, ⟨_, tcCx_remove k h1 h2⟩⟩

/-! ### the loop of `__iadd__` / `__add__`: `for other in others: if hasTag(other) is False: o.append(other)` -/

/-- the body of that loop as dumped, `o` being the receiver's variable (`self` in `__iadd__`, `ret` in `__add__`) -/
def addBody (o : String) : List Stmt :=
  [.ifS (.cmp .is (.callv (.var "hasTag") [(.var "other")]) (.const (.bool false))) [.varCall o "append" [(.var "other")]] []]

theorem ofColl_lookup_name (c : Coll) (m : String) (h1 : m ≠ listPart) (h2 : m ≠ "uids") : (ofColl c).lookup m = none := by
  have h1' : (m == listPart) = false := by simpa using h1
  have h2' : (m == "uids") = false := by simpa using h2
  simp [ofColl, List.lookup, h1', h2']

/-- one operand through the body: appended unless its uid is in the set -/
theorem addBody_run (cx : Ctx) (L : Leaves cx) (o : String) (ho : o ≠ "other") (env : Env) (c : Coll) (x : Nat)
    (hO : env.lookup o = some (.obj (ofColl c))) (hH : env.lookup "hasTag" = some (.bound o "_hasTag")) :
    execL cx (assocSet env "other" (.py (elemV x))) (addBody o)
      = (assocSet (assocSet env "other" (.py (elemV x))) o (.obj (ofColl (if c.hasTag x then c else c.append x))), .next) := by
  obtain ⟨c1, hg1⟩ := L.hasTag
  obtain ⟨c2, hg2⟩ := L.append
  have hO' : (assocSet env "other" (.py (elemV x))).lookup o = some (.obj (ofColl c)) := by
    rw [lookup_assocSet_ne _ _ _ _ ho, hO]
  have hH' : (assocSet env "other" (.py (elemV x))).lookup "hasTag" = some (.bound o "_hasTag") := by
    rw [lookup_assocSet_ne _ _ _ _ (by decide), hH]
  have hn : (ofColl c).lookup "append" = none := ofColl_lookup_name c _ (by decide) (by decide)
  by_cases hh : c.hasTag x = true
  · simp [addBody, execL, execS, eval, evalList, hH', hO', lookup_assocSet_eq, callBound, Val.isBound, hg1, hasTag_call, hh,
      Val.mutable, pyCompare, compareB, pyIs, Val.unique, Lit.toPy, Val.truthy, truthy]
    exact (assocSet_self _ _ _ hO').symm
  · have hh' : c.hasTag x = false := by simpa using hh
    simp [addBody, execL, execS, eval, evalList, hH', hO', lookup_assocSet_eq, callBound, Val.isBound, hg1, hasTag_call, hh',
      Val.mutable, pyCompare, compareB, pyIs, Val.unique, Lit.toPy, Val.truthy, truthy, objCall, hn, hg2, append_call]

/-- The whole loop, for an arbitrary operand list: the receiver's variable ends with `Coll.iadd`; every other variable but
the loop's own keeps its value. -/
theorem addLoop_run (cx : Ctx) (L : Leaves cx) (o : String) (ho : o ≠ "other") (same : Env → Bool) (V : Val)
    (hsame : ∀ env, env.lookup "others" = some V → same env = true) (ho2 : "others" ≠ o) :
    ∀ (xs : List Nat) (env : Env) (c : Coll),
    env.lookup o = some (.obj (ofColl c)) → env.lookup "hasTag" = some (.bound o "_hasTag") → env.lookup "others" = some V →
    ∃ env', forLoop (fun env v => assocSet env "other" v) (fun env => execL cx env (addBody o)) same
                ((embE xs).map Val.py) env = (env', .next)
      ∧ env'.lookup o = some (.obj (ofColl (c.iadd xs)))
      ∧ ∀ z, z ≠ o → z ≠ "other" → env'.lookup z = env.lookup z
  | [], env, c, hO, _, _ => ⟨env, by simp [embE, forLoop], by simpa [Coll.iadd] using hO, fun _ _ _ => rfl⟩
  | x :: r, env, c, hO, hH, hV => by
    have hstep := addBody_run cx L o ho env c x hO hH
    generalize hc' : (if c.hasTag x then c else c.append x) = c' at hstep
    generalize he1 : assocSet (assocSet env "other" (.py (elemV x))) o (.obj (ofColl c')) = env1 at hstep
    have hne : ∀ z, z ≠ o → z ≠ "other" → env1.lookup z = env.lookup z := by
      intro z h1 h2
      rw [← he1, lookup_assocSet_ne _ _ _ _ h1, lookup_assocSet_ne _ _ _ _ h2]
    have hO1 : env1.lookup o = some (.obj (ofColl c')) := by rw [← he1, lookup_assocSet_eq]
    have hH1 : env1.lookup "hasTag" = some (.bound o "_hasTag") := by
      rw [hne _ (by intro e; subst e; exact absurd hH (by rw [hO]; simp)) (by decide), hH]
    have hV1 : env1.lookup "others" = some V := by rw [hne _ ho2 (by decide), hV]
    obtain ⟨env', h1, h2, h3⟩ := addLoop_run cx L o ho same V hsame ho2 r env1 c' hO1 hH1 hV1
    refine ⟨env', ?_, ?_, ?_⟩
    · simp only [embE, List.map_cons, forLoop, hstep, hsame _ hV1, if_true]
      exact h1
    · rw [h2, ← hc']; rfl
    · intro z hz1 hz2
      rw [h3 z hz1 hz2, hne z hz1 hz2]

/-! ### the loop of `__isub__` / `__sub__`: `for other in others: if hasTag(other) is True: o.remove(other)` -/

/-- one operand of `__isub__`: the state afterwards and whether `remove` raised (`ValueError`: the uid is in the set, the
element is not in the list) -/
def isubStep (c : Coll) (x : Nat) : Coll × Bool :=
  if c.hasTag x then (if c.items.contains x then (⟨c.items.erase x, c.uids.erase x⟩, false) else (c, true)) else (c, false)

/-- the operands one after the other, stopping at the first that raises: the state then, and whether one raised -/
def isubRun (c : Coll) : List Nat → Coll × Bool
  | [] => (c, false)
  | x :: xs => if (isubStep c x).2 then ((isubStep c x).1, true) else isubRun (isubStep c x).1 xs

/-- the hand model's `isub` is that run -/
theorem isub_eq_run (c : Coll) (xs : List Nat) :
    c.isub xs = if (isubRun c xs).2 then none else some (isubRun c xs).1 := by
  induction xs generalizing c with
  | nil => rfl
  | cons x r ih =>
    simp only [Coll.isub, isubRun, isubStep, Coll.remove, Coll.hasTag]
    by_cases h1 : x ∈ c.uids
    · by_cases h2 : x ∈ c.items
      · simp [h1, h2, ih]
      · simp [h1, h2]
    · simp [h1, ih]

/-- the body of that loop as dumped, `o` being the receiver's variable -/
def subBody (o : String) : List Stmt :=
  [.ifS (.cmp .is (.callv (.var "hasTag") [(.var "other")]) (.const (.bool true))) [.varCall o "remove" [(.var "other")]] []]

theorem subBody_run (cx : Ctx) (L : Leaves cx) (o : String) (ho : o ≠ "other") (env : Env) (c : Coll) (x : Nat)
    (hO : env.lookup o = some (.obj (ofColl c))) (hH : env.lookup "hasTag" = some (.bound o "_hasTag")) :
    execL cx (assocSet env "other" (.py (elemV x))) (subBody o)
      = (assocSet (assocSet env "other" (.py (elemV x))) o (.obj (ofColl (isubStep c x).1)),
         if (isubStep c x).2 then .exc .valueError else .next) := by
  obtain ⟨c1, hg1⟩ := L.hasTag
  obtain ⟨c2, hg2⟩ := L.remove
  have hO' : (assocSet env "other" (.py (elemV x))).lookup o = some (.obj (ofColl c)) := by
    rw [lookup_assocSet_ne _ _ _ _ ho, hO]
  have hH' : (assocSet env "other" (.py (elemV x))).lookup "hasTag" = some (.bound o "_hasTag") := by
    rw [lookup_assocSet_ne _ _ _ _ (by decide), hH]
  have hn : (ofColl c).lookup "remove" = none := ofColl_lookup_name c _ (by decide) (by decide)
  by_cases hh : c.hasTag x = true
  · have hu : x ∈ c.uids := by simpa [Coll.hasTag] using hh
    by_cases hi : x ∈ c.items
    · simp [subBody, execL, execS, eval, evalList, hH', hO', lookup_assocSet_eq, callBound, Val.isBound, hg1, hasTag_call, hh,
        Val.mutable, pyCompare, compareB, pyIs, Val.unique, Lit.toPy, Val.truthy, truthy, objCall, hn, hg2, remove_call,
        removeRun, isubStep, hu, hi]
    · simp [subBody, execL, execS, eval, evalList, hH', hO', lookup_assocSet_eq, callBound, Val.isBound, hg1, hasTag_call, hh,
        Val.mutable, pyCompare, compareB, pyIs, Val.unique, Lit.toPy, Val.truthy, truthy, objCall, hn, hg2, remove_call,
        removeRun, isubStep, hu, hi]
  · have hh' : c.hasTag x = false := by simpa using hh
    simp [subBody, execL, execS, eval, evalList, hH', hO', lookup_assocSet_eq, callBound, Val.isBound, hg1, hasTag_call, hh',
      Val.mutable, pyCompare, compareB, pyIs, Val.unique, Lit.toPy, Val.truthy, truthy, isubStep]
    exact (assocSet_self _ _ _ hO').symm

/-- The whole loop, for an arbitrary operand list: it ends normally with `isubRun`'s state in the receiver's variable, or
at the first operand whose `remove` raises, with that `ValueError` and the state reached then. -/
theorem subLoop_run (cx : Ctx) (L : Leaves cx) (o : String) (ho : o ≠ "other") (same : Env → Bool) (V : Val)
    (hsame : ∀ env, env.lookup "others" = some V → same env = true) (ho2 : "others" ≠ o) :
    ∀ (xs : List Nat) (env : Env) (c : Coll),
    env.lookup o = some (.obj (ofColl c)) → env.lookup "hasTag" = some (.bound o "_hasTag") → env.lookup "others" = some V →
    ∃ env', forLoop (fun env v => assocSet env "other" v) (fun env => execL cx env (subBody o)) same
                ((embE xs).map Val.py) env = (env', if (isubRun c xs).2 then .exc .valueError else .next)
      ∧ env'.lookup o = some (.obj (ofColl (isubRun c xs).1))
      ∧ ∀ z, z ≠ o → z ≠ "other" → env'.lookup z = env.lookup z
  | [], env, c, hO, _, _ => ⟨env, by simp [embE, forLoop, isubRun], by simpa [isubRun] using hO, fun _ _ _ => rfl⟩
  | x :: r, env, c, hO, hH, hV => by
    have hstep := subBody_run cx L o ho env c x hO hH
    generalize he1 : assocSet (assocSet env "other" (.py (elemV x))) o (.obj (ofColl (isubStep c x).1)) = env1 at hstep
    have hne : ∀ z, z ≠ o → z ≠ "other" → env1.lookup z = env.lookup z := by
      intro z h1 h2
      rw [← he1, lookup_assocSet_ne _ _ _ _ h1, lookup_assocSet_ne _ _ _ _ h2]
    have hO1 : env1.lookup o = some (.obj (ofColl (isubStep c x).1)) := by rw [← he1, lookup_assocSet_eq]
    have hH1 : env1.lookup "hasTag" = some (.bound o "_hasTag") := by
      rw [hne _ (by intro e; subst e; exact absurd hH (by rw [hO]; simp)) (by decide), hH]
    have hV1 : env1.lookup "others" = some V := by rw [hne _ ho2 (by decide), hV]
    by_cases hr : (isubStep c x).2 = true
    · refine ⟨env1, ?_, ?_, hne⟩
      · simp only [embE, List.map_cons, forLoop, hstep, hr, if_true, isubRun]
      · simp only [isubRun, hr, if_true]; exact hO1
    · obtain ⟨env', h1, h2, h3⟩ := subLoop_run cx L o ho same V hsame ho2 r env1 (isubStep c x).1 hO1 hH1 hV1
      have hr' : (isubStep c x).2 = false := by simpa using hr
      refine ⟨env', ?_, ?_, ?_⟩
      · simp only [embE, List.map_cons, forLoop, hstep, hr', Bool.false_eq_true, if_false, hsame _ hV1, if_true, isubRun]
        exact h1
      · simp only [isubRun, hr', Bool.false_eq_true, if_false]; exact h2
      · intro z hz1 hz2
        rw [h3 z hz1 hz2, hne z hz1 hz2]

/-! ### the two loops as statements of the dump -/

theorem addFor_stmt (cx : Ctx) (L : Leaves cx) (o : String) (ho : o ≠ "other") (ho2 : "others" ≠ o) (ys : List Nat) (env : Env)
    (c : Coll) (hO : env.lookup o = some (.obj (ofColl c))) (hH : env.lookup "hasTag" = some (.bound o "_hasTag"))
    (hV : env.lookup "others" = some (.list (embE ys))) :
    ∃ env', execS cx env (.forS "other" (.var "others") (addBody o)) = (env', .next)
      ∧ env'.lookup o = some (.obj (ofColl (c.iadd ys)))
      ∧ ∀ z, z ≠ o → z ≠ "other" → env'.lookup z = env.lookup z := by
  have hv : eval cx env (.var "others") = .ok (.list (embE ys)) := by simp [eval, hV]
  obtain ⟨env', h1, h2, h3⟩ := addLoop_run cx L o ho
    (fun env' => !(Val.list (embE ys)).mutable || !(Expr.var "others").isVar
      || decide (eval cx env' (.var "others") = .ok (.list (embE ys))))
    (.list (embE ys)) (by intro e h; simp [eval, h]) ho2 ys env c hO hH hV
  refine ⟨env', ?_, h2, h3⟩
  rw [execS, hv]
  simp only [iterItems, Expr.isVar, Bool.or_true, Bool.true_or, if_true]
  exact h1

theorem subFor_stmt (cx : Ctx) (L : Leaves cx) (o : String) (ho : o ≠ "other") (ho2 : "others" ≠ o) (xs : List Nat) (env : Env)
    (c : Coll) (hO : env.lookup o = some (.obj (ofColl c))) (hH : env.lookup "hasTag" = some (.bound o "_hasTag"))
    (hV : env.lookup "others" = some (.list (embE xs))) :
    ∃ env', execS cx env (.forS "other" (.var "others") (subBody o))
        = (env', if (isubRun c xs).2 then .exc .valueError else .next)
      ∧ env'.lookup o = some (.obj (ofColl (isubRun c xs).1))
      ∧ ∀ z, z ≠ o → z ≠ "other" → env'.lookup z = env.lookup z := by
  have hv : eval cx env (.var "others") = .ok (.list (embE xs)) := by simp [eval, hV]
  obtain ⟨env', h1, h2, h3⟩ := subLoop_run cx L o ho
    (fun env' => !(Val.list (embE xs)).mutable || !(Expr.var "others").isVar
      || decide (eval cx env' (.var "others") = .ok (.list (embE xs))))
    (.list (embE xs)) (by intro e h; simp [eval, h]) ho2 xs env c hO hH hV
  refine ⟨env', ?_, h2, h3⟩
  rw [execS, hv]
  simp only [iterItems, Expr.isVar, Bool.or_true, Bool.true_or, if_true]
  exact h1

end AHP.PyAst
