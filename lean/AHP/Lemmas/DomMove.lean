/-
  AHP.Lemmas.DomMove — (1) the loop calls (`appendBlocks`, `removeBlocks`, `removeChildren`,
  `appendInnerHTML`) are defined on the domain the property states; (2) the frame of the
  element-moving calls: what is outside the target's subtree and outside the moved root keeps all
  its fields, the moved root leaves the root list, and only `parentNode` of the moved root and
  `ownerDocument` throughout it change; (3) elements of an invariant world are determined by their
  uid (used to characterise `hasChild`/`contains` for element arguments).
-/
import AHP.Lemmas.DomAppend
namespace AHP.Dom
open AHP.Dom.Spec

/-! ### looking the target up after a call -/

theorem findL?_isSome_of_mem (t) (l : List DN) (h : t ∈ idsL l) : (findL? t l).isSome = true := by
  cases hf : findL? t l with
  | none => exact absurd h (findL?_not_mem t l hf)
  | some r => rfl

/-- the local edit `World.apply` hands to `World.edit` -/
def applyEdit (loc : Meta → List DN → Option Edit × Val) : Meta → List DN → Edit :=
  fun m bs => ((loc m bs).1).getD ⟨m, bs, []⟩

/-- the local effect keeps the uid of the element it is applied to -/
def LocKeepsId (loc : Meta → List DN → Option Edit × Val) : Prop :=
  ∀ m bs e, (loc m bs).1 = some e → e.m.id = m.id

theorem applyEdit_keepsId {loc} (h : LocKeepsId loc) : KeepsId (applyEdit loc) := by
  intro m bs
  unfold applyEdit
  cases he : (loc m bs).1 with
  | none => rfl
  | some e => exact h m bs e he

/-- after an edit at `t`, `t` is still an element of the world -/
theorem edit_find (w : World) (t : Nat) (f : Meta → List DN → Edit) (hid : KeepsId f) {m bs}
    (hf : w.find? t = some (m, bs)) : (w.edit t f).find? t = some ((f m bs).m, (f m bs).blocks) := by
  simp only [World.find?, World.edit]
  exact findL?_append_some t _ _ (findL?_updL t f hid w.roots hf)

/-- a call through `World.apply` leaves its target an element of the world -/
theorem apply_find (w : World) (t : Nat) (loc : Meta → List DN → Option Edit × Val) (hid : LocKeepsId loc)
    {w' v} (h : w.apply t loc = some (w', v)) : (w'.find? t).isSome = true := by
  unfold World.apply at h
  split at h
  · simp at h
  · rename_i m bs hf
    split at h
    · simp only [Option.some.injEq, Prod.mk.injEq] at h
      rw [← h.1, hf]; rfl
    · simp only [Option.some.injEq, Prod.mk.injEq] at h
      rw [← h.1]
      have := edit_find w t (applyEdit loc) (applyEdit_keepsId hid) hf
      unfold applyEdit at this
      rw [this]; rfl

theorem apply_isSome (w : World) (t : Nat) (loc : Meta → List DN → Option Edit × Val) (h : (w.find? t).isSome = true) :
    (w.apply t loc).isSome = true := by
  unfold World.apply
  cases hf : w.find? t with
  | none => rw [hf] at h; simp at h
  | some r =>
    obtain ⟨m, bs⟩ := r
    simp only
    cases (loc m bs).1 <;> simp

theorem locRemoveChild_keepsId (c : Nat) : LocKeepsId (locRemoveChild c) := by
  intro m bs e he
  unfold locRemoveChild at he
  split at he
  · split at he <;> (simp only [Option.some.injEq] at he; subst he; rfl)
  · simp at he

theorem locRemoveText_keepsId (s : Str) : LocKeepsId (fun m bs => (some (locRemoveText s m bs).1, (locRemoveText s m bs).2)) := by
  intro m bs e he
  simp only [Option.some.injEq] at he
  subst he
  unfold locRemoveText
  split <;> rfl

/-! ### the removing loops are defined for every element of the world and all arguments -/

theorem removeBlock_defined (w : World) (t : Nat) (b : Blk) (h : (w.find? t).isSome = true) :
    ∃ r, w.removeBlock t b = some r ∧ (r.1.find? t).isSome = true := by
  cases b with
  | elm c =>
    have hs := apply_isSome w t (locRemoveChild c) h
    cases hr : w.apply t (locRemoveChild c) with
    | none => rw [hr] at hs; simp at hs
    | some r => exact ⟨r, hr, apply_find w t _ (locRemoveChild_keepsId c) (w' := r.1) (v := r.2) hr⟩
  | txt s =>
    have hs := apply_isSome w t (fun m bs => (some (locRemoveText s m bs).1, (locRemoveText s m bs).2)) h
    cases hr : w.apply t (fun m bs => (some (locRemoveText s m bs).1, (locRemoveText s m bs).2)) with
    | none => rw [hr] at hs; simp at hs
    | some r => exact ⟨r, hr, apply_find w t _ (locRemoveText_keepsId s) (w' := r.1) (v := r.2) hr⟩

theorem removeBlocksLoop_defined (t : Nat) (bs : List Blk) :
    ∀ (w : World), (w.find? t).isSome = true → (w.removeBlocksLoop t bs).isSome = true := by
  induction bs with
  | nil => intro w _; rfl
  | cons b bs ih =>
    intro w h
    obtain ⟨r, hr, hf⟩ := removeBlock_defined w t b h
    simp only [World.removeBlocksLoop, hr, Option.isSome_map]
    exact ih r.1 hf

/-! ### the appending loops -/

/-- the element arguments of a list of blocks -/
def elmArgs : List Blk → List Nat
  | [] => []
  | .txt _ :: bs => elmArgs bs
  | .elm c :: bs => c :: elmArgs bs

/-- The domain of `appendBlocks(blocks)` on target `t` (the precondition C04 states): the target is
    an element of the world; the element arguments are pairwise distinct, each of them is a root of
    the world (currently detached) and the target does not lie inside it. -/
structure AppendDomain (w : World) (t : Nat) (bs : List Blk) : Prop where
  target : (w.find? t).isSome = true
  distinct : (elmArgs bs).Nodup
  roots : ∀ c ∈ elmArgs bs, ∃ r ∈ w.roots, rootId r = some c ∧ t ∉ ids r

/-- a tree that does not contain the target is left alone by the edit and stays where it is -/
theorem mem_updL_of_not_mem (t f) (r : DN) (l : List DN) (hr : r ∈ l) (ht : t ∉ ids r) : r ∈ (updL t f l).1 := by
  induction l with
  | nil => cases hr
  | cons x xs ih =>
    simp only [updL_cons]
    cases hr with
    | head => rw [upd_not_mem t f r ht]; simp
    | tail _ h => exact List.mem_cons_of_mem _ (ih h)

theorem rootId_mem_ids {r : DN} {c : Nat} (h : rootId r = some c) : c ∈ ids r := by
  cases r with
  | text s => simp [rootId] at h
  | el m k => simp only [rootId, Option.some.injEq] at h; simp [h]

/-- with distinct uids, `takeRoot c` takes out *the* root with uid `c` -/
theorem takeRoot_of_mem (c : Nat) (rs : List DN) (hn : (idsL rs).Nodup) (r : DN) (hr : r ∈ rs) (hc : rootId r = some c) :
    ∃ a b, rs = a ++ r :: b ∧ takeRoot c rs = some (r, a ++ b) := by
  obtain ⟨a, b, rfl⟩ := List.append_of_mem hr
  refine ⟨a, b, rfl, takeRoot_skip c a r b ?_ hc⟩
  intro hca
  rw [idsL_append, idsL_cons] at hn
  exact (List.nodup_append.mp hn).2.2 c hca c (List.mem_append_left _ (rootId_mem_ids hc)) rfl

theorem takeRoot_split (c : Nat) (rs : List DN) {ct rest} (h : takeRoot c rs = some (ct, rest)) :
    ∃ a b, rs = a ++ ct :: b ∧ rest = a ++ b ∧ rootId ct = some c := by
  induction rs generalizing ct rest with
  | nil => simp [takeRoot] at h
  | cons r rs ih =>
    simp only [takeRoot] at h
    split at h
    · rename_i he
      simp only [Option.some.injEq, Prod.mk.injEq] at h
      obtain ⟨rfl, rfl⟩ := h
      exact ⟨[], rs, rfl, rfl, he⟩
    · simp only [Option.map_eq_some_iff] at h
      obtain ⟨x, hx, hx'⟩ := h
      simp only [Prod.mk.injEq] at hx'
      obtain ⟨rfl, rfl⟩ := hx'
      obtain ⟨a, b, h1, h2, h3⟩ := ih (ct := x.1) (rest := x.2) (by simp [hx])
      exact ⟨r :: a, b, by simp [h1], by simp [h2], h3⟩

/-- one `appendBlock` inside the domain: defined, and what remains to be appended is still inside
    the domain of the resulting world -/
theorem appendBlock_domain (w : World) (t : Nat) (b : Blk) (bs : List Blk) (hw : Inv w)
    (hd : AppendDomain w t (b :: bs)) :
    ∃ r, w.appendBlock t b = some r ∧ Inv r.1 ∧ AppendDomain r.1 t bs := by
  obtain ⟨htgt, hdis, hroots⟩ := hd
  cases b with
  | txt s =>
    have hs := apply_isSome w t (fun m bs => (some (locAppendText s m bs), Val.none)) htgt
    cases hr : w.apply t (fun m bs => (some (locAppendText s m bs), Val.none)) with
    | none => rw [hr] at hs; simp at hs
    | some r =>
      have hstep : w.appendBlock t (.txt s) = some (r.1, .str s) := by
        simp [World.appendBlock, World.appendText, hr]
      refine ⟨(r.1, .str s), hstep, appendBlock_Inv hw hstep, ?_, hdis, ?_⟩
      · exact apply_find w t _ (fun m bs e he => by simp only [Option.some.injEq] at he; subst he; rfl) (w' := r.1) (v := r.2) hr
      · intro c hc
        obtain ⟨r0, hr0, hc0, ht0⟩ := hroots c hc
        refine ⟨r0, ?_, hc0, ht0⟩
        have hf : ∃ m bs', w.find? t = some (m, bs') := by
          cases hx : w.find? t with
          | none => rw [hx] at htgt; simp at htgt
          | some x => exact ⟨x.1, x.2, rfl⟩
        obtain ⟨m, bs', hf⟩ := hf
        simp only [World.apply, hf, Option.some.injEq] at hr
        rw [← hr]
        simp only [World.edit, List.mem_append]
        exact Or.inl (mem_updL_of_not_mem t _ r0 w.roots hr0 ht0)
  | elm c =>
    simp only [elmArgs, List.nodup_cons] at hdis
    obtain ⟨r0, hr0, hc0, ht0⟩ := hroots c (by simp [elmArgs])
    obtain ⟨a, b', hsplit, htake⟩ := takeRoot_of_mem c w.roots hw.nodup r0 hr0 hc0
    have htmem : t ∈ idsL w.roots := by
      cases hx : w.find? t with
      | none => rw [hx] at htgt; simp at htgt
      | some x => exact findL?_mem t w.roots hx
    have htrest : t ∈ idsL (a ++ b') := by
      rw [hsplit] at htmem
      simp only [idsL_append, idsL_cons, List.mem_append] at htmem ⊢
      rcases htmem with h | h | h
      · exact Or.inl h
      · exact absurd h ht0
      · exact Or.inr h
    have hfr := findL?_isSome_of_mem t (a ++ b') htrest
    have hs := apply_isSome { w with roots := a ++ b' } t (fun m bs => (some (locAppendChild r0 m bs), Val.el c)) hfr
    cases hr : World.apply { w with roots := a ++ b' } t (fun m bs => (some (locAppendChild r0 m bs), Val.el c)) with
    | none => rw [hr] at hs; simp at hs
    | some r =>
      have hstep : w.appendBlock t (.elm c) = some r := by
        simp [World.appendBlock, World.appendChild, htake, hr]
      refine ⟨r, hstep, appendBlock_Inv (w' := r.1) (v := r.2) hw hstep, ?_, hdis.2, ?_⟩
      · exact apply_find _ t _ (fun m bs e he => by simp only [Option.some.injEq] at he; subst he; rfl) (w' := r.1) (v := r.2) hr
      · intro c' hc'
        obtain ⟨r1, hr1, hc1, ht1⟩ := hroots c' (by simp [elmArgs, hc'])
        refine ⟨r1, ?_, hc1, ht1⟩
        have hne : r1 ≠ r0 := by
          intro e
          rw [e, hc0] at hc1
          simp only [Option.some.injEq] at hc1
          exact hdis.1 (hc1 ▸ hc')
        have hr1' : r1 ∈ a ++ b' := by
          rw [hsplit] at hr1
          simp only [List.mem_append, List.mem_cons] at hr1 ⊢
          rcases hr1 with h | h | h
          · exact Or.inl h
          · exact absurd h hne
          · exact Or.inr h
        obtain ⟨m, bs', hf⟩ : ∃ m bs', findL? t (a ++ b') = some (m, bs') := by
          cases hx : findL? t (a ++ b') with
          | none => rw [hx] at hfr; simp at hfr
          | some x => exact ⟨x.1, x.2, rfl⟩
        simp only [World.apply, World.find?, hf, Option.some.injEq] at hr
        rw [← hr]
        simp only [World.edit, List.mem_append]
        exact Or.inl (mem_updL_of_not_mem t _ r1 _ hr1' ht1)

/-- the loop of `appendBlocks` is defined on its domain -/
theorem appendBlocksLoop_defined (t : Nat) (bs : List Blk) :
    ∀ (w : World), Inv w → AppendDomain w t bs → (w.appendBlocksLoop t bs).isSome = true := by
  induction bs with
  | nil => intro w _ _; rfl
  | cons b bs ih =>
    intro w hw hd
    obtain ⟨r, hr, hinv, hd'⟩ := appendBlock_domain w t b bs hw hd
    simp only [World.appendBlocksLoop, hr]
    exact ih r.1 hinv hd'

theorem elmArgs_map_toBlk (l : List DN) : elmArgs (l.map toBlk) = elemIds l := by
  induction l with
  | nil => rfl
  | cons b bs ih => cases b <;> simp [toBlk, elmArgs, ih]

theorem elemIds_mem_el (l : List DN) {c} (h : c ∈ elemIds l) : ∃ m k, DN.el m k ∈ l ∧ m.id = c := by
  induction l with
  | nil => simp at h
  | cons b bs ih =>
    cases b with
    | text s =>
      obtain ⟨m, k, h1, h2⟩ := ih (by simpa using h)
      exact ⟨m, k, List.mem_cons_of_mem _ h1, h2⟩
    | el m k =>
      simp only [elemIds_el, List.mem_cons] at h
      cases h with
      | inl h => exact ⟨m, k, by simp, h.symm⟩
      | inr h =>
        obtain ⟨m', k', h1, h2⟩ := ih h
        exact ⟨m', k', List.mem_cons_of_mem _ h1, h2⟩

theorem mem_idsL_of_mem {l : List DN} {r : DN} (hr : r ∈ l) {x} (hx : x ∈ ids r) : x ∈ idsL l := by
  induction l with
  | nil => cases hr
  | cons b bs ih =>
    simp only [idsL_cons, List.mem_append]
    cases hr with
    | head => exact Or.inl hx
    | tail _ h => exact Or.inr (ih h)

/-- the world after `createBlocksFromHTML` is inside the domain of the appending loop: the new
    elements are distinct roots with fresh uids, so none of them contains the target -/
theorem fragment_domain (w : World) (t : Nat) (p : Parsed) (hw : Inv w) (ht : (w.find? t).isSome = true) :
    AppendDomain { roots := w.roots ++ (createBlocks (p.build w.nextDoc w.next).1).filter DN.isEl,
                   next := (p.build w.nextDoc w.next).2, nextDoc := w.nextDoc + 1 }
      t ((createBlocks (p.build w.nextDoc w.next).1).map toBlk) := by
  have hinv := fragment_world_Inv p hw
  have hnd := hinv.nodup
  simp only [idsL_append] at hnd
  have hd := List.nodup_append.mp hnd
  have htmem : t ∈ idsL w.roots := by
    cases hx : w.find? t with
    | none => rw [hx] at ht; simp at ht
    | some x => exact findL?_mem t w.roots hx
  refine ⟨?_, ?_, ?_⟩
  · cases hx : w.find? t with
    | none => rw [hx] at ht; simp at ht
    | some x =>
      have := findL?_append_some t w.roots ((createBlocks (p.build w.nextDoc w.next).1).filter DN.isEl) hx
      simp only [World.find?, this]; rfl
  · rw [elmArgs_map_toBlk]
    refine elemIds_nodup _ ?_
    rw [← idsL_filter_isEl]; exact hd.2.1
  · intro c hc
    rw [elmArgs_map_toBlk] at hc
    obtain ⟨m, k, hmem, hid⟩ := elemIds_mem_el _ hc
    have hmem' : DN.el m k ∈ (createBlocks (p.build w.nextDoc w.next).1).filter DN.isEl := by
      simp [List.mem_filter, hmem, DN.isEl]
    refine ⟨.el m k, List.mem_append_right _ hmem', by simp [rootId, hid], ?_⟩
    intro hin
    exact hd.2.2 t htmem t (mem_idsL_of_mem hmem' hin) rfl

/-! ### frame of the element-moving calls -/

mutual
/-- the fields of every element of a tree, in document order -/
def metas : DN → List Meta
  | .text _ => []
  | .el m bs => m :: metasL bs
def metasL : List DN → List Meta
  | [] => []
  | b :: bs => metas b ++ metasL bs
end

@[simp] theorem metas_text (s) : metas (.text s) = [] := by simp [metas]
@[simp] theorem metas_el (m bs) : metas (.el m bs) = m :: metasL bs := by simp [metas]
@[simp] theorem metasL_nil : metasL [] = [] := by simp [metasL]
@[simp] theorem metasL_cons (b bs) : metasL (b :: bs) = metas b ++ metasL bs := by simp [metasL]

mutual
/-- `reown o` rewrites `ownerDocument` of every element and nothing else -/
theorem metas_reown (o) (n : DN) : metas (reown o n) = (metas n).map (fun m => { m with owner := o }) := by
  match n with
  | .text s => simp
  | .el m bs => simp [metasL_reownL o bs]
theorem metasL_reownL (o) (l : List DN) : metasL (reownL o l) = (metasL l).map (fun m => { m with owner := o }) := by
  match l with
  | [] => simp
  | b :: bs => simp [metas_reown o b, metasL_reownL o bs]
end

/-- What the accounting of a move (`attach`) changes in the moved tree: `parentNode` of its root and
    `ownerDocument` of every element; names, attributes, self-closing flags, `children`, `text`, the
    parent links below the root, the uids and the shape of the tree stay. -/
theorem metas_attach (m mc : Meta) (k : List DN) :
    metas (attach m (.el mc k)) =
      { mc with parent := some m.id, owner := m.owner } :: (metasL k).map (fun x => { x with owner := m.owner }) := by
  simp [attach, metasL_reownL]

/-- an edit at `t` that puts nothing out, on a world from which the moved root has been taken:
    the roots stay in place (same uids in the same order), everything outside the subtree of `t`
    keeps all its fields -/
theorem edit_frame (rest : List DN) (next nd : Nat) (t : Nat) (f : Meta → List DN → Edit) (hid : KeepsId f)
    (hout : ∀ m bs, (f m bs).out = []) :
    (World.edit ⟨rest, next, nd⟩ t f).roots = (updL t f rest).1 ∧
    outsideL t (updL t f rest).1 = outsideL t rest ∧
    ((updL t f rest).1).map DN.rid = rest.map DN.rid := by
  refine ⟨by simp [World.edit, updL_out_nil t f hout rest], outsideL_updL t f hid rest, ?_⟩
  induction rest with
  | nil => simp
  | cons r rs ih => simp [updL_cons, (upd_isEl_rid t f hid r).2, ih]

theorem outsideL_append (t) (a b : List DN) : outsideL t (a ++ b) = outsideL t a ++ outsideL t b := by
  induction a with
  | nil => simp [outsideL]
  | cons x xs ih => simp [outsideL, ih]

mutual
theorem outside_not_mem (t) (n : DN) (h : t ∉ ids n) : outside t n = metas n := by
  match n with
  | .text s => simp [outside]
  | .el m bs =>
    simp only [ids_el, List.mem_cons, not_or] at h
    simp only [outside, if_neg (show ¬ m.id = t from fun e => h.1 e.symm), metas_el, outsideL_not_mem t bs h.2]
theorem outsideL_not_mem (t) (l : List DN) (h : t ∉ idsL l) : outsideL t l = metasL l := by
  match l with
  | [] => simp [outsideL]
  | b :: bs =>
    simp only [idsL_cons, List.mem_append, not_or] at h
    simp only [outsideL, metasL_cons, outside_not_mem t b h.1, outsideL_not_mem t bs h.2]
end

/-- all fields of the target that a move does not edit: everything except `isSelfClosing`,
    `children` (and the block list) -/
def KeepsScalars (m m' : Meta) : Prop :=
  m'.id = m.id ∧ m'.name = m.name ∧ m'.attrs = m.attrs ∧ m'.text = m.text ∧ m'.parent = m.parent ∧ m'.owner = m.owner

theorem KeepsScalars.refl (m : Meta) : KeepsScalars m m := ⟨rfl, rfl, rfl, rfl, rfl, rfl⟩
theorem KeepsScalars.trans {a b c : Meta} (h1 : KeepsScalars a b) (h2 : KeepsScalars b c) : KeepsScalars a c :=
  ⟨h2.1.trans h1.1, h2.2.1.trans h1.2.1, h2.2.2.1.trans h1.2.2.1, h2.2.2.2.1.trans h1.2.2.2.1,
   h2.2.2.2.2.1.trans h1.2.2.2.2.1, h2.2.2.2.2.2.trans h1.2.2.2.2.2⟩

theorem attach_congr {m1 m2 : Meta} (hi : m2.id = m1.id) (ho : m2.owner = m1.owner) (c : DN) : attach m2 c = attach m1 c := by
  simp [attach, hi, ho]

@[simp] theorem attach_text (m : Meta) (s : Str) : attach m (.text s) = .text s := by simp [attach]

/-- The frame of one move: the root `ct` has been taken out of `a ++ ct :: b`, the edit `f` (which
    keeps the uid and puts nothing out) runs at `t`, found in `a ++ b`. -/
theorem move_frame (w : World) (t : Nat) (a b : List DN) (f : Meta → List DN → Edit) (hid : KeepsId f)
    (hout : ∀ m bs, (f m bs).out = []) {m bs} (hf : findL? t (a ++ b) = some (m, bs)) :
    outsideL t (World.edit { w with roots := a ++ b } t f).roots = outsideL t a ++ outsideL t b ∧
    (World.edit { w with roots := a ++ b } t f).roots.map DN.rid = (a ++ b).map DN.rid ∧
    (World.edit { w with roots := a ++ b } t f).find? t = some ((f m bs).m, (f m bs).blocks) := by
  obtain ⟨h1, h2, h3⟩ := edit_frame (a ++ b) w.next w.nextDoc t f hid hout
  refine ⟨?_, ?_, ?_⟩
  · rw [h1, h2, outsideL_append]
  · rw [h1, h3]
  · exact edit_find { w with roots := a ++ b } t f hid hf

/-- `appendChild(child)` (also `appendBlock(child)`, `insertBefore/After(child, None)`) -/
theorem appendChild_frame (w w' : World) (t c : Nat) (v : Val) (h : w.appendChild t c = some (w', v)) :
    ∃ a b ct m bs m', w.roots = a ++ ct :: b ∧ rootId ct = some c ∧ findL? t (a ++ b) = some (m, bs) ∧
      outsideL t w'.roots = outsideL t a ++ outsideL t b ∧ w'.roots.map DN.rid = (a ++ b).map DN.rid ∧
      w'.find? t = some (m', insertAt bs.length (attach m ct) bs) ∧ KeepsScalars m m' ∧ v = .el c := by
  unfold World.appendChild at h
  split at h
  · simp at h
  · rename_i ct rest htake
    obtain ⟨a, b, hsplit, hrest, hroot⟩ := takeRoot_split c w.roots htake
    subst hrest
    unfold World.apply at h
    split at h
    · simp at h
    · rename_i m bs hf
      simp only [Option.some.injEq, Prod.mk.injEq] at h
      obtain ⟨h1, h2, h3⟩ := move_frame w t a b (fun m bs => locAppendChild ct m bs) (fun _ _ => rfl) (fun _ _ => rfl) hf
      simp only [Option.getD_some] at h
      rw [h.1] at h1 h2 h3
      refine ⟨a, b, ct, m, bs, (locAppendChild ct m bs).m, hsplit, hroot, hf, h1, h2, ?_, ⟨rfl, rfl, rfl, rfl, rfl, rfl⟩, h.2.symm⟩
      rw [h3]
      simp [locAppendChild, insertAt]

/-- `insertBefore(child, ref)` / `insertAfter(child, ref)` with an element `child`, when it succeeds -/
theorem insert_frame (w w' : World) (after : Bool) (t c : Nat) (ref : Option Blk)
    (h : w.insert after t (.elm c) ref = some (w', .el c)) :
    ∃ a b ct m bs m' i, w.roots = a ++ ct :: b ∧ rootId ct = some c ∧ findL? t (a ++ b) = some (m, bs) ∧
      outsideL t w'.roots = outsideL t a ++ outsideL t b ∧ w'.roots.map DN.rid = (a ++ b).map DN.rid ∧
      w'.find? t = some (m', insertAt i (attach m ct) bs) ∧ KeepsScalars m m' := by
  cases ref with
  | none =>
    obtain ⟨a, b, ct, m, bs, m', h1, h2, h3, h4, h5, h6, h7, _⟩ := appendChild_frame w w' t c _ h
    exact ⟨a, b, ct, m, bs, m', _, h1, h2, h3, h4, h5, h6, h7⟩
  | some r =>
    simp only [World.insert] at h
    split at h
    · simp at h
    · rename_i ct rest htake
      obtain ⟨a, b, hsplit, hrest, hroot⟩ := takeRoot_split c w.roots htake
      subst hrest
      split at h
      · simp at h
      · rename_i m bs hf
        split at h
        · simp at h
        · rename_i j hj
          simp only [Option.some.injEq, Prod.mk.injEq, and_true] at h
          obtain ⟨h1, h2, h3⟩ := move_frame w t a b (locInsertEl after r ct)
            (fun m bs => by unfold locInsertEl; split <;> rfl) (fun m bs => by unfold locInsertEl; split <;> rfl) hf
          rw [h] at h1 h2 h3
          refine ⟨a, b, ct, m, bs, (locInsertEl after r ct m bs).m, (if after then j + 1 else j), hsplit, hroot, hf, h1, h2, ?_, ?_⟩
          · rw [h3]; simp [locInsertEl, hj, locInsertElAt]
          · simp only [locInsertEl, hj, locInsertElAt]; exact ⟨rfl, rfl, rfl, rfl, rfl, rfl⟩

/-- the fields of the target that no appending call edits: uid, name, attributes, `parentNode`,
    `ownerDocument` (an appended text block extends `text`) -/
def KeepsIdent (m m' : Meta) : Prop :=
  m'.id = m.id ∧ m'.name = m.name ∧ m'.attrs = m.attrs ∧ m'.parent = m.parent ∧ m'.owner = m.owner

theorem KeepsIdent.refl (m : Meta) : KeepsIdent m m := ⟨rfl, rfl, rfl, rfl, rfl⟩
theorem KeepsIdent.trans {a b c : Meta} (h1 : KeepsIdent a b) (h2 : KeepsIdent b c) : KeepsIdent a c :=
  ⟨h2.1.trans h1.1, h2.2.1.trans h1.2.1, h2.2.2.1.trans h1.2.2.1, h2.2.2.2.1.trans h1.2.2.2.1,
   h2.2.2.2.2.trans h1.2.2.2.2⟩

/-- The loop of `appendBlocks` over freshly created blocks `l` whose elements sit at the end of the
    root list: the roots `R` stay in place, everything outside the subtree of the target keeps all
    its fields, the new roots are consumed, and the target's blocks are the old ones followed by the
    new blocks with the accounting of `attach`. -/
theorem appendLoop_frame (t : Nat) (l : List DN) :
    ∀ (R : List DN) (next nd : Nat) (m : Meta) (bs : List DN) (W' : World),
      findL? t R = some (m, bs) → Inv ⟨R ++ l.filter DN.isEl, next, nd⟩ →
      World.appendBlocksLoop ⟨R ++ l.filter DN.isEl, next, nd⟩ t (l.map toBlk) = some W' →
      ∃ m', outsideL t W'.roots = outsideL t R ∧ W'.roots.map DN.rid = R.map DN.rid ∧
        W'.find? t = some (m', bs ++ l.map (attach m)) ∧ KeepsIdent m m' := by
  induction l with
  | nil =>
    intro R next nd m bs W' hf _ h
    simp only [List.filter_nil, List.append_nil, List.map_nil, World.appendBlocksLoop, Option.some.injEq] at h
    subst h
    exact ⟨m, rfl, rfl, by simpa [World.find?] using hf, KeepsIdent.refl m⟩
  | cons b rest ih =>
    intro R next nd m bs W' hf hinv h
    have hmem : t ∈ idsL R := findL?_mem t R hf
    have hnd := hinv.nodup
    simp only [idsL_append] at hnd
    have hdis := (List.nodup_append.mp hnd).2.2
    cases b with
    | text s =>
      have hfilt : (DN.text s :: rest).filter DN.isEl = rest.filter DN.isEl := by simp [List.filter, DN.isEl]
      rw [hfilt] at hinv hdis h
      have hnotL : t ∉ idsL (rest.filter DN.isEl) := fun hx => hdis t hmem t hx rfl
      simp only [List.map_cons, toBlk, World.appendBlocksLoop] at h
      cases hstep : World.appendBlock ⟨R ++ rest.filter DN.isEl, next, nd⟩ t (.txt s) with
      | none => rw [hstep] at h; simp at h
      | some r =>
        rw [hstep] at h
        simp only at h
        have hinv' : Inv r.1 := appendBlock_Inv (w' := r.1) (v := r.2) hinv (by simpa using hstep)
        have hfind : World.find? ⟨R ++ rest.filter DN.isEl, next, nd⟩ t = some (m, bs) := findL?_append_some t R _ hf
        have hr : r.1 = ⟨(updL t (fun m bs => locAppendText s m bs) R).1 ++ rest.filter DN.isEl, next, nd⟩ := by
          simp only [World.appendBlock, World.appendText, World.apply, hfind, Option.map_some, Option.some.injEq] at hstep
          rw [← hstep]
          exact (edit_append_step t _ (fun _ _ => rfl) (fun _ _ => rfl) R _ next nd hf hnotL).1
        have hf' := (edit_append_step t (fun m bs => locAppendText s m bs) (fun _ _ => rfl) (fun _ _ => rfl) R
          (rest.filter DN.isEl) next nd hf hnotL).2
        rw [hr] at hinv' h
        obtain ⟨m', h1, h2, h3, h4⟩ := ih _ next nd _ _ W' hf' hinv' h
        have hmap : rest.map (attach (locAppendText s m bs).m) = rest.map (attach m) :=
          List.map_congr_left (fun c _ => attach_congr rfl rfl c)
        refine ⟨m', ?_, ?_, ?_, ?_⟩
        · rw [h1]; exact outsideL_updL t _ (fun _ _ => rfl) R
        · rw [h2]; exact (edit_frame R next nd t _ (fun _ _ => rfl) (fun _ _ => rfl)).2.2
        · rw [h3, hmap]; simp [locAppendText]
        · exact KeepsIdent.trans ⟨rfl, rfl, rfl, rfl, rfl⟩ h4
    | el mc kc =>
      have hfilt : (DN.el mc kc :: rest).filter DN.isEl = DN.el mc kc :: rest.filter DN.isEl := by simp [List.filter, DN.isEl]
      rw [hfilt] at hinv hdis h
      have hcR : mc.id ∉ idsL R := fun hx => hdis mc.id hx mc.id (by simp) rfl
      have htake := takeRoot_skip mc.id R (DN.el mc kc) (rest.filter DN.isEl) hcR rfl
      have hnotL : t ∉ idsL (rest.filter DN.isEl) := fun hx => hdis t hmem t (by simp [hx]) rfl
      simp only [List.map_cons, toBlk, World.appendBlocksLoop] at h
      cases hstep : World.appendBlock ⟨R ++ DN.el mc kc :: rest.filter DN.isEl, next, nd⟩ t (.elm mc.id) with
      | none => rw [hstep] at h; simp at h
      | some r =>
        rw [hstep] at h
        simp only at h
        have hinv' : Inv r.1 := appendBlock_Inv (w' := r.1) (v := r.2) hinv (by simpa using hstep)
        have hfind : findL? t (R ++ rest.filter DN.isEl) = some (m, bs) := findL?_append_some t R _ hf
        have hr : r.1 = ⟨(updL t (fun m bs => locAppendChild (DN.el mc kc) m bs) R).1 ++ rest.filter DN.isEl, next, nd⟩ := by
          simp only [World.appendBlock, World.appendChild, htake, World.apply, World.find?, hfind, Option.some.injEq] at hstep
          rw [← hstep]
          exact (edit_append_step t _ (fun _ _ => rfl) (fun _ _ => rfl) R _ next nd hf hnotL).1
        have hf' := (edit_append_step t (fun m bs => locAppendChild (DN.el mc kc) m bs) (fun _ _ => rfl) (fun _ _ => rfl) R
          (rest.filter DN.isEl) next nd hf hnotL).2
        rw [hr] at hinv' h
        obtain ⟨m', h1, h2, h3, h4⟩ := ih _ next nd _ _ W' hf' hinv' h
        have hmap : rest.map (attach (locAppendChild (DN.el mc kc) m bs).m) = rest.map (attach m) :=
          List.map_congr_left (fun c _ => attach_congr rfl rfl c)
        refine ⟨m', ?_, ?_, ?_, ?_⟩
        · rw [h1]; exact outsideL_updL t _ (fun _ _ => rfl) R
        · rw [h2]; exact (edit_frame R next nd t _ (fun _ _ => rfl) (fun _ _ => rfl)).2.2
        · rw [h3, hmap]; simp [locAppendChild]
        · exact KeepsIdent.trans ⟨rfl, rfl, rfl, rfl, rfl⟩ h4

/-- `appendInnerHTML(html)`: everything outside the subtree of the target keeps all its fields, the
    roots stay in place (the elements created for the fragment are all consumed), and the target's
    blocks are the old ones followed by the fragment's blocks with the accounting of `attach`. -/
theorem appendInnerHTML_frame (w w' : World) (t : Nat) (p : Parsed) (v : Val) (m : Meta) (bs : List DN) (hw : Inv w)
    (hf : w.find? t = some (m, bs)) (h : w.appendInnerHTML t p = some (w', v)) :
    ∃ m', outsideL t w'.roots = outsideL t w.roots ∧ w'.roots.map DN.rid = w.roots.map DN.rid ∧
      w'.find? t = some (m', bs ++ (createBlocks (p.build w.nextDoc w.next).1).map (attach m)) ∧ KeepsIdent m m' := by
  simp only [World.appendInnerHTML, Option.map_eq_some_iff] at h
  obtain ⟨w1, h1, he⟩ := h
  simp only [Prod.mk.injEq] at he
  rw [← he.1]
  exact appendLoop_frame t _ w.roots _ _ m bs w1 hf (fragment_world_Inv p hw) h1

/-! ### elements of an invariant world are determined by their uid -/

mutual
theorem elems_trans (n : DN) {e e' : Meta × List DN} (h : e ∈ elems n) (h' : e' ∈ elems (.el e.1 e.2)) : e' ∈ elems n := by
  match n with
  | .text s => simp at h
  | .el m bs =>
    simp only [elems_el, List.mem_cons] at h
    cases h with
    | inl h => subst h; exact h'
    | inr h =>
      simp only [elems_el, List.mem_cons]
      exact Or.inr (elemsL_trans bs h h')
theorem elemsL_trans (l : List DN) {e e' : Meta × List DN} (h : e ∈ elemsL l) (h' : e' ∈ elems (.el e.1 e.2)) : e' ∈ elemsL l := by
  match l with
  | [] => simp at h
  | b :: bs =>
    simp only [elemsL_cons, List.mem_append] at h ⊢
    cases h with
    | inl h => exact Or.inl (elems_trans b h h')
    | inr h => exact Or.inr (elemsL_trans bs h h')
end

theorem elemsL_of_block {bs : List DN} {m k} (h : DN.el m k ∈ bs) : (m, k) ∈ elemsL bs := by
  induction bs with
  | nil => cases h
  | cons b bs ih =>
    simp only [elemsL_cons, List.mem_append]
    cases h with
    | head => exact Or.inl (by simp)
    | tail _ h => exact Or.inr (ih h)

mutual
theorem ids_mem_elems (n : DN) {x} (h : x ∈ ids n) : ∃ e ∈ elems n, e.1.id = x := by
  match n with
  | .text s => simp at h
  | .el m bs =>
    simp only [ids_el, List.mem_cons] at h
    cases h with
    | inl h => exact ⟨(m, bs), by simp, h.symm⟩
    | inr h =>
      obtain ⟨e, he, hx⟩ := idsL_mem_elemsL bs h
      exact ⟨e, by simp [he], hx⟩
theorem idsL_mem_elemsL (l : List DN) {x} (h : x ∈ idsL l) : ∃ e ∈ elemsL l, e.1.id = x := by
  match l with
  | [] => simp at h
  | b :: bs =>
    simp only [idsL_cons, List.mem_append] at h
    cases h with
    | inl h =>
      obtain ⟨e, he, hx⟩ := ids_mem_elems b h
      exact ⟨e, by simp [he], hx⟩
    | inr h =>
      obtain ⟨e, he, hx⟩ := idsL_mem_elemsL bs h
      exact ⟨e, by simp [he], hx⟩
end

mutual
theorem find?_mem_elems (t) (n : DN) {e} (h : find? t n = some e) : e ∈ elems n := by
  match n with
  | .text s => simp at h
  | .el m bs =>
    rw [find?_el] at h
    split at h
    · simp only [Option.some.injEq] at h; subst h; simp
    · simp [findL?_mem_elemsL t bs h]
theorem findL?_mem_elemsL (t) (l : List DN) {e} (h : findL? t l = some e) : e ∈ elemsL l := by
  match l with
  | [] => simp at h
  | b :: bs =>
    rw [findL?_cons] at h
    split at h
    · rename_i r hr
      simp only [Option.some.injEq] at h; subst h
      simp [find?_mem_elems t b hr]
    · simp [findL?_mem_elemsL t bs h]
end

/-- two elements of a world with distinct uids that carry the same uid are the same element
    (same fields, same blocks) -/
theorem elem_unique (l : List DN) (hn : (idsL l).Nodup) {e e' : Meta × List DN} (h : e ∈ elemsL l) (h' : e' ∈ elemsL l)
    (hid : e.1.id = e'.1.id) : e = e' := by
  have h1 := findL?_unique l hn h
  have h2 := findL?_unique l hn h'
  rw [hid, h2] at h1
  exact (Option.some.inj h1).symm

end AHP.Dom
