/-
  AHP.Lemmas.AttrsMap — C08: every per-key view is a lookup in the one synchronised association list
  `(attrsList e).1`; invalid names are rejected; what `mk` builds from a list of good keys.
-/
import AHP.Lemmas.AttrsViews
namespace AHP.Attrs
open AHP

/-! #### validity does not depend on the case of the name -/

theorem isAlpha_lowerChar (c : Char) : isAlpha (lowerChar c) = isAlpha c := by
  unfold lowerChar
  split
  · next h =>
    have h1 : ∀ n : Nat, n < 91 → 65 ≤ n → isAlpha (Char.ofNat (n + 32)) = true := by decide
    have ha : 65 ≤ c.toNat := h.1
    have hz : c.toNat ≤ 90 := h.2
    rw [h1 c.toNat (by omega) ha]
    have : ('A' ≤ c && c ≤ 'Z') = true := by simp [h.1, h.2]
    simp [isAlpha, this]
  · rfl

theorem nameChar_lowerChar (c : Char) : nameChar (lowerChar c) = nameChar c := by
  by_cases h : 'A' ≤ c ∧ c ≤ 'Z'
  · have h2 : isAlpha c = true := by
      have : ('A' ≤ c && c ≤ 'Z') = true := by simp [h.1, h.2]
      simp [isAlpha, this]
    have h1 : isAlpha (lowerChar c) = true := by rw [isAlpha_lowerChar]; exact h2
    simp [nameChar, h1, h2]
  · unfold lowerChar
    rw [if_neg h]

theorem all_nameChar_lower : ∀ s : Str, (lower s).all nameChar = s.all nameChar
  | [] => rfl
  | c :: r => by
    have ih := all_nameChar_lower r
    unfold lower at *
    simp only [List.map_cons, List.all_cons, nameChar_lowerChar, ih]

theorem validName_lower (n : Str) : validName (lower n) = validName n := by
  rcases n with _ | ⟨c, r⟩
  · rfl
  · have h1 := all_nameChar_lower (c :: r)
    have hl : lower (c :: r) = lowerChar c :: lower r := rfl
    have hu : lowerChar c = '_' ↔ c = '_' := by
      constructor
      · intro h
        unfold lowerChar at h
        split at h
        · next hc =>
          have h0 : ∀ n : Nat, n < 91 → 65 ≤ n → Char.ofNat (n + 32) ≠ '_' := by decide
          exact absurd h (h0 c.toNat (by have : c.toNat ≤ 90 := hc.2; omega) hc.1)
        · exact h
      · intro h; subst h; decide
    have hd : decide (lowerChar c = '_') = decide (c = '_') := by
      by_cases hc : c = '_'
      · have h2 := hu.mpr hc
        rw [decide_eq_true hc, decide_eq_true h2]
      · have : ¬ lowerChar c = '_' := fun h => hc (hu.mp h)
        rw [decide_eq_false hc, decide_eq_false this]
    have e1 : validName (lowerChar c :: lower r) =
        ((isAlpha (lowerChar c) || decide (lowerChar c = '_')) && (lowerChar c :: lower r).all nameChar) := rfl
    have e2 : validName (c :: r) = ((isAlpha c || decide (c = '_')) && (c :: r).all nameChar) := rfl
    rw [hl, e1, e2, ← hl, h1, isAlpha_lowerChar, hd]

/-! #### C08c: an invalid name is rejected and changes nothing -/

theorem mapSet_invalid (T : Tables) {k : Str} (h : validName k = false) (v : Option Str) (e : El) :
    mapSet T k v e = (.keyError, e) := by
  unfold mapSet
  simp only [validName_lower, h]
  rfl

theorem setAttribute_invalid (T : Tables) {k : Str} (h : validName k = false) (v : Option Str) (e : El) :
    setAttribute T k v e = (.keyError, e) := by
  unfold setAttribute
  simp [h]

theorem setAttribute_valid (T : Tables) {k : Str} (h : validName k = true) (v : Option Str) (e : El) :
    (setAttribute T k v e).1 = .ok := by
  unfold setAttribute mapSet
  simp only [h, validName_lower]
  simp only [Bool.not_true, Bool.false_eq_true, if_false]
  split
  · rfl
  · split <;> rfl

theorem adel_of_not_mem {α : Type} {k : Str} : ∀ {d : AL α}, k ∉ akeys d → adel k d = d
  | [], _ => rfl
  | (k0, v0) :: r, h => by
    have h0 : k0 ≠ k := fun e => h (by simp [akeys, e])
    have hr : k ∉ akeys r := fun m => h (by simp only [akeys, List.map_cons]; exact List.mem_cons_of_mem _ m)
    rw [adel_cons_ne h0, adel_of_not_mem hr]

/-- deleting an invalid name (never stored) changes nothing -/
theorem mapDel_invalid {k : Str} (h : validName k = false) {e : El} (hi : DictInv e) : mapDel k e = e := by
  have hl : validName (lower k) = false := by rw [validName_lower]; exact h
  have hs : lower k ≠ styleK := fun e' => by rw [e', validName_styleK] at hl; cases hl
  have hc : lower k ≠ classK := fun e' => by rw [e', validName_classK] at hl; cases hl
  unfold mapDel
  simp only [hs, hc, if_false]
  have : lower k ∉ akeys e.dict := by
    intro hm
    obtain ⟨p, hp, hpe⟩ := List.mem_map.mp hm
    have := (hi.slots p hp).1
    rw [hpe, hl] at this
    cases this
  rw [adel_of_not_mem this]

/-! #### C08a: the one list, and every per-key view as a lookup in it -/

/-- the synchronised association list every view is a projection of: `getAttributesList()` -/
def viewList (e : El) : List (Str × Option Str) := (attrsList e).1

/-- the raw ordinary value under a key (`none` = key absent) -/
def rawLookup (k : Str) (e : El) : Option (Option Str) :=
  match aget k e.dict with
  | some (.val v) => some v
  | _ => none

theorem slot_of_ordinary {e : El} (h : DictInv e) {k : Str} (hc : k ≠ classK) (hs : k ≠ styleK) {s : Slot}
    (hg : aget k e.dict = some s) : ∃ v, s = .val v := by
  have hm := aget_some_mem hg
  have := (h.slots (k, s) hm).2.2
  cases s with
  | val v => exact ⟨v, rfl⟩
  | cls x => exact absurd this hc
  | sty => exact absurd this hs

theorem viewList_ordinary {e : El} (h : DictInv e) {k : Str} (hc : k ≠ classK) (hs : k ≠ styleK) :
    aget k (viewList e) = rawLookup k e := by
  unfold viewList rawLookup
  rw [aget_attrsList, aget_other_sync e hc hs]
  rcases hg : aget k e.dict with _ | s
  · rfl
  · obtain ⟨v, rfl⟩ := slot_of_ordinary h hc hs hg
    cases v <;> rfl

theorem viewList_class (e : El) :
    aget classK (viewList e) = if e.cls.isEmpty then none else some (some e.className) := by
  unfold viewList
  rw [aget_attrsList, aget_class_sync]
  split <;> rfl

theorem viewList_style (e : El) :
    aget styleK (viewList e) = if e.sty.isEmpty then none else some (some (asStr e.sty)) := by
  unfold viewList
  rw [aget_attrsList, aget_style_sync]
  split <;> rfl

/-- `in` / `hasAttribute`: presence in the one list, for every key (class and style included) -/
theorem contains_eq_viewList {e : El} (h : DictInv e) (k : Str) :
    contains k e = (aget (lower k) (viewList e)).isSome := by
  unfold contains
  simp only
  by_cases hc : lower k = classK
  · rw [if_pos hc, hc, viewList_class]
    cases e.cls.isEmpty <;> rfl
  · rw [if_neg hc]
    by_cases hs : lower k = styleK
    · rw [hs, viewList_style, h.style]
      cases e.sty.isEmpty <;> rfl
    · rw [viewList_ordinary h hc hs]
      unfold ahas rawLookup
      rcases hg : aget (lower k) e.dict with _ | s
      · rfl
      · obtain ⟨v, rfl⟩ := slot_of_ordinary h hc hs hg
        rfl

def pyOfOpt : Option Str → PyVal
  | none => .none
  | some s => .str s

/-- `attributes[k]` for an ordinary key -/
theorem getitem_eq_viewList (T : Tables) {e : El} (h : DictInv e) {k : Str} (hc : lower k ≠ classK) (hs : lower k ≠ styleK)
    (hb : T.binStr.contains (lower k) = false) :
    getitem T k e = pyOfOpt ((aget (lower k) (viewList e)).join) := by
  unfold getitem
  simp only [hc, hs, hb, if_false, Bool.false_eq_true]
  rw [viewList_ordinary h hc hs]
  unfold rawLookup
  rcases hg : aget (lower k) e.dict with _ | s
  · rfl
  · obtain ⟨v, rfl⟩ := slot_of_ordinary h hc hs hg
    cases v <;> rfl

/-- the keys of the dict after a synchronisation are the keys of the one list -/
theorem akeys_viewList (e : El) : akeys (viewList e) = akeys (handleClassAttr e).dict := akeys_attrsList e

theorem handleClassAttr_idem_keys {e : El} (k : Str) :
    aget k (handleClassAttr (handleClassAttr e)).dict = aget k (handleClassAttr e).dict := by
  by_cases hc : k = classK
  · subst hc; rw [aget_class_sync, aget_class_sync]; rfl
  · by_cases hs : k = styleK
    · subst hs; rw [aget_style_sync, aget_style_sync]; rfl
    · rw [aget_other_sync _ hc hs]

theorem viewList_sync (e : El) (k : Str) : aget k (viewList (handleClassAttr e)) = aget k (viewList e) := by
  unfold viewList
  rw [aget_attrsList, aget_attrsList, handleClassAttr_idem_keys]
  rfl

/-- `attributes.get(k, default)` for an ordinary key: the value and the default -/
theorem mapGet_eq_viewList (T : Tables) {e : El} (h : DictInv e) {k : Str} (hc : lower k ≠ classK) (hs : lower k ≠ styleK)
    (hb : T.binStr.contains (lower k) = false) (d : PyVal) :
    (mapGet T k d e).1 = match aget (lower k) (viewList e) with
      | none => d
      | some v => pyOfOpt v := by
  unfold mapGet
  simp only [hc, hs, if_false]
  have hk : (keys e).1.contains (lower k) = (aget (lower k) (viewList e)).isSome := by
    rw [keys_fst, ← akeys_viewList]
    cases hh : (aget (lower k) (viewList e)).isSome with
    | true =>
      apply List.contains_iff_mem.mpr
      apply ahas_iff_mem.mp
      exact hh
    | false =>
      cases hcn : (akeys (viewList e)).contains (lower k) with
      | false => rfl
      | true =>
        have := ahas_iff_mem.mpr (List.contains_iff_mem.mp hcn)
        unfold ahas at this
        rw [hh] at this
        cases this
  rw [hk]
  rcases hg : aget (lower k) (viewList e) with _ | v
  · rfl
  · simp only [Option.isSome, if_true]
    have hi := dictInv_handleClassAttr h
    have : getitem T (lower k) (keys e).2 = pyOfOpt ((aget (lower (lower k)) (viewList (keys e).2)).join) :=
      getitem_eq_viewList T hi (by rw [lower_idem]; exact hc) (by rw [lower_idem]; exact hs) (by rw [lower_idem]; exact hb)
    rw [this, lower_idem]
    show pyOfOpt ((aget (lower k) (viewList (handleClassAttr e))).join) = _
    rw [viewList_sync, hg]
    rfl

/-! #### what `mk` builds under an ordinary key -/

theorem ensureStyle_aget_other (e : El) {k : Str} (hs : k ≠ styleK) : aget k (ensureStyle e).dict = aget k e.dict := by
  unfold ensureStyle
  split
  · exact aget_adel_ne hs _
  · exact aget_aset_ne hs _ _

/-- the value `__setitem__` stores under an ordinary key -/
def normVal (T : Tables) (k : Str) (v : Option Str) : Option Str :=
  if T.binStr.contains k then some (boolString v) else v

theorem mapSet_aget_other (T : Tables) {k k' : Str} (v : Option Str) (e : El) (hne : lower k' ≠ k) (hs : k ≠ styleK) :
    aget k (mapSet T k' v e).2.dict = aget k e.dict := by
  unfold mapSet
  simp only
  split
  · rfl
  · split
    · dsimp only
      unfold assignStyleFrom assignStyle
      rw [ensureStyle_aget_other _ hs]
    · split
      · rfl
      · dsimp only
        exact aget_aset_ne (Ne.symm hne) _ _

theorem mapSet_aget_same (T : Tables) {k : Str} (v : Option Str) (e : El) (hv : validName k = true) (hl : lower k = k)
    (hc : k ≠ classK) (hs : k ≠ styleK) :
    aget k (mapSet T k v e).2.dict = some (.val (normVal T k v)) := by
  unfold mapSet
  simp only [hl, hv, hc, hs, Bool.not_true, Bool.false_eq_true, if_false]
  exact aget_aset_same _ _ _

theorem foldl_initStep_aget (T : Tables) {k : Str} (hc : k ≠ classK) (hs : k ≠ styleK) :
    ∀ (l : List (Str × Option Str)) (e : El), GoodKeys l →
      aget k (l.foldl (initStep T) e).dict = match aget k l with
        | some v => some (.val (normVal T k v))
        | none => aget k e.dict
  | [], _, _ => rfl
  | p :: l, e, hg => by
    have hp := hg.2 p (by simp)
    have hnd : p.1 ∉ akeys l ∧ (akeys l).Nodup := by simpa [akeys] using hg.1
    have hg' : GoodKeys l := ⟨hnd.2, fun q hq => hg.2 q (List.mem_cons_of_mem _ hq)⟩
    simp only [List.foldl_cons]
    rw [initStep_good T e p hp.1 hp.2, foldl_initStep_aget T hc hs l _ hg']
    rcases p with ⟨k0, v0⟩
    simp only at hp hnd
    by_cases hk : k0 = k
    · subst hk
      have : aget k0 l = none := aget_eq_none_iff.mpr hnd.1
      simp only [this, aget, if_true]
      exact mapSet_aget_same T v0 e hp.1 hp.2 hc hs
    · simp only [aget, hk, if_false]
      rcases aget k l with _ | v
      · exact mapSet_aget_other T v0 e (by rw [hp.2]; exact hk) hs
      · rfl

/-- C08e core: an element constructed from a list of good keys holds, under every ordinary key, exactly the
    listed value (boolean-string attributes normalised) -/
theorem mk_rawLookup (T : Tables) (tag : Str) (sc : Bool) (l : List (Str × Option Str)) (hg : GoodKeys l) {k : Str}
    (hc : k ≠ classK) (hs : k ≠ styleK) :
    rawLookup k (mk T tag sc l) = (aget k l).map (normVal T k) := by
  unfold rawLookup mk
  rw [foldl_initStep_aget T hc hs l _ hg]
  rcases aget k l with _ | v
  · rfl
  · rfl

end AHP.Attrs
