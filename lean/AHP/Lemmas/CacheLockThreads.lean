/-
  Helper lemmas for C15: whole threads at the lock level (`ltStep`) against the quantum machine (`tstep`).

  `Sim s q`: the quantum configuration `q` is the lock-level configuration `s` seen at its release points —
  same threads (a thread whose section has returned has its quantum behind it), same cache whenever the lock
  is free, and for the thread inside a section: its own remaining statements, run from the shared cache as
  it is *now*, end in exactly the cache and thread that `tstep` computes from `q.cache`, the cache as it
  was at `acquire`.  The step lemma `sim_step` needs mutual exclusion (`LockBits`) at the two places where
  another thread could have written in between.
-/
import AHP.Lemmas.CacheLockSys
namespace AHP.Cache

section
variable {E K V T R : Type} [DecidableEq K]
variable (compile : E → Option V) (key : E → K) (eval : V → T → R) (MAX CLEAR : Nat)

/-! ### One quantum = one section + the thread-local continuation -/

theorem tstep_evalSlot (c : State K V) {th : Thread E V T R} {j : Nat} {t : T} {rest : List (Event E T)}
    (htodo : th.todo = .evalSlot j t :: rest) :
    tstep compile key eval MAX CLEAR c th = (c, th.evalHeld eval j t rest) := by
  unfold tstep
  simp only [htodo, Event.expr?]
  rfl

theorem tstep_get (c : State K V) {th : Thread E V T R} {ev : Event E T} {rest : List (Event E T)} {e : E}
    (htodo : th.todo = ev :: rest) (he : ev.expr? = some e) (hp : th.pending = none) :
    tstep compile key eval MAX CLEAR c th = ((get c (key e)).1, th.cont compile eval (get c (key e)).2) := by
  unfold tstep Thread.cont
  simp only [htodo, he, hp]
  generalize get c (key e) = p
  obtain ⟨c', r⟩ := p
  cases r with
  | some v => rfl
  | none =>
    simp only
    cases compile e <;> rfl

theorem tstep_set (c : State K V) {th : Thread E V T R} {ev : Event E T} {rest : List (Event E T)} {e : E} {v : V}
    (htodo : th.todo = ev :: rest) (he : ev.expr? = some e) (hp : th.pending = some v) (r : Option V) :
    tstep compile key eval MAX CLEAR c th = (set MAX CLEAR c (key e) v, th.cont compile eval r) := by
  unfold tstep Thread.cont
  simp only [htodo, he, hp]

theorem sysStep_eq {q : Sys E K V T R} {i : Nat} {th : Thread E V T R} (h : q.threads[i]? = some th) :
    sysStep compile key eval MAX CLEAR q i =
      ⟨(tstep compile key eval MAX CLEAR q.cache th).1, q.threads.set i (tstep compile key eval MAX CLEAR q.cache th).2⟩ := by
  unfold sysStep
  simp only [h]

/-! ### The steps of a lock-level thread, classified -/

def LTSys.pcs (s : LTSys E K V T R) : List (Pc K V) := s.threads.map (fun lt => lt.pc.getD (.done none false))

omit [DecidableEq K] in
theorem LTSys.toLSys_eq (s : LTSys E K V T R) : s.toLSys = ⟨s.sh, s.pcs⟩ := rfl

inductive LTKind (s : LTSys E K V T R) (i : Nat) (s' : LTSys E K V T R) : Prop where
  | finished (th : Thread E V T R) (hlt : s.threads[i]? = some ⟨th, none⟩) (htodo : th.todo = []) (hs : s' = s)
  | evalLocal (th : Thread E V T R) (j : Nat) (t : T) (rest : List (Event E T))
      (hlt : s.threads[i]? = some ⟨th, none⟩) (htodo : th.todo = .evalSlot j t :: rest)
      (hs : s' = { s with threads := s.threads.set i ⟨th.evalHeld eval j t rest, none⟩ })
  | startGet (th : Thread E V T R) (ev : Event E T) (rest : List (Event E T)) (e : E)
      (hlt : s.threads[i]? = some ⟨th, none⟩) (htodo : th.todo = ev :: rest) (he : ev.expr? = some e)
      (hp : th.pending = none)
      (hs : s' = { s with threads := s.threads.set i ⟨th, some (.getAcquire (key e))⟩ })
  | startSet (th : Thread E V T R) (ev : Event E T) (rest : List (Event E T)) (e : E) (v : V)
      (hlt : s.threads[i]? = some ⟨th, none⟩) (htodo : th.todo = ev :: rest) (he : ev.expr? = some e)
      (hp : th.pending = some v)
      (hs : s' = { s with threads := s.threads.set i ⟨th, some (.setAcquire (key e) v false)⟩ })
  | cont (th : Thread E V T R) (r : Option V) (x : Bool)
      (hlt : s.threads[i]? = some ⟨th, some (.done r x)⟩)
      (hs : s' = { s with threads := s.threads.set i ⟨th.cont compile eval r, none⟩ })
  | sect (th : Thread E V T R) (p p' : Pc K V) (sh' : Shared K V)
      (hlt : s.threads[i]? = some ⟨th, some p⟩) (hnd : p.isDone = false)
      (hl : lstep MAX CLEAR s.sh p = some (sh', p'))
      (hs : s' = ⟨sh', s.threads.set i ⟨th, some p'⟩⟩)

theorem ltStep_kind {s s' : LTSys E K V T R} {i : Nat}
    (h : ltStep compile key eval MAX CLEAR s i = some s') : LTKind compile key eval MAX CLEAR s i s' := by
  unfold ltStep at h
  cases hlt : s.threads[i]? with
  | none => simp [hlt] at h
  | some lt =>
    obtain ⟨th, pc⟩ := lt
    simp only [hlt] at h
    cases pc with
    | none =>
      simp only at h
      cases htodo : th.todo with
      | nil =>
        simp only [htodo, Option.some.injEq] at h
        exact .finished th hlt htodo h.symm
      | cons ev rest =>
        simp only [htodo] at h
        cases ev with
        | evalSlot j t =>
          simp only [Option.some.injEq] at h
          exact .evalLocal th j t rest hlt htodo h.symm
        | new e =>
          simp only at h
          cases hp : th.pending with
          | none =>
            simp only [hp, Option.some.injEq] at h
            exact .startGet th _ rest e hlt htodo rfl hp h.symm
          | some v =>
            simp only [hp, Option.some.injEq] at h
            exact .startSet th _ rest e v hlt htodo rfl hp h.symm
        | query e t =>
          simp only at h
          cases hp : th.pending with
          | none =>
            simp only [hp, Option.some.injEq] at h
            exact .startGet th _ rest e hlt htodo rfl hp h.symm
          | some v =>
            simp only [hp, Option.some.injEq] at h
            exact .startSet th _ rest e v hlt htodo rfl hp h.symm
    | some p =>
      by_cases hd : p.isDone = true
      · cases p <;> simp [Pc.isDone] at hd
        rename_i r x
        simp only [Option.some.injEq] at h
        exact .cont th r x hlt h.symm
      · have hnd : p.isDone = false := by simpa using hd
        have h' : (match lstep MAX CLEAR s.sh p with
            | none => none
            | some (sh', pc') => some (⟨sh', s.threads.set i ⟨th, some pc'⟩⟩ : LTSys E K V T R)) = some s' := by
          cases p <;> first | exact h | (simp [Pc.isDone] at hnd)
        cases hl : lstep MAX CLEAR s.sh p with
        | none => simp [hl] at h'
        | some q =>
          obtain ⟨sh', p'⟩ := q
          simp only [hl, Option.some.injEq] at h'
          exact .sect th p p' sh' hlt hnd hl h'.symm

/-! ### The simulation -/

/-- From `sh`, the own next statements of thread `th` at `p` complete the quantum `tstep c0 th`. -/
def Target (th : Thread E V T R) (c0 : State K V) (sh : Shared K V) (p : Pc K V) : Prop :=
  ∃ r x, Runs MAX CLEAR sh p ⟨false, (tstep compile key eval MAX CLEAR c0 th).1⟩ (.done r x) ∧
    th.cont compile eval r = (tstep compile key eval MAX CLEAR c0 th).2

structure Sim (s : LTSys E K V T R) (q : Sys E K V T R) : Prop where
  threads : q.threads = s.threads.map (LThread.abs compile eval)
  free : s.sh.held = false → s.sh.cache = q.cache
  wait : ∀ (i : Nat) (lt : LThread E K V T R) (p : Pc K V), s.threads[i]? = some lt → lt.pc = some p →
    p.holds = false → p.isDone = false → ∀ c, Target compile key eval MAX CLEAR lt.th c ⟨false, c⟩ p
  mid : ∀ (i : Nat) (lt : LThread E K V T R) (p : Pc K V), s.threads[i]? = some lt → lt.pc = some p →
    p.holds = true → Target compile key eval MAX CLEAR lt.th q.cache s.sh p

theorem sim_init (evss : List (List (Event E T))) :
    Sim compile key eval MAX CLEAR (LTSys.init evss : LTSys E K V T R) (Sys.init evss) := by
  have hpc : ∀ (i : Nat) (lt : LThread E K V T R), (LTSys.init evss : LTSys E K V T R).threads[i]? = some lt →
      lt.pc = none := by
    intro i lt h
    simp only [LTSys.init, List.getElem?_map] at h
    cases hi : evss[i]? with
    | none => simp [hi] at h
    | some evs => simp only [hi, Option.map_some, Option.some.injEq] at h; rw [← h]
  refine ⟨?_, fun _ => rfl, ?_, ?_⟩
  · simp [LTSys.init, Sys.init, LThread.abs]
  · intro i lt p h hp; rw [hpc i lt h] at hp; cases hp
  · intro i lt p h hp; rw [hpc i lt h] at hp; cases hp

omit [DecidableEq K] in
theorem bits_init (evss : List (List (Event E T))) :
    LockBits (LTSys.init evss : LTSys E K V T R).sh.held (LTSys.init evss : LTSys E K V T R).pcs := by
  have hno : ∀ (i : Nat) (pc : Pc K V), (LTSys.init evss : LTSys E K V T R).pcs[i]? = some pc → pc.holds = true → False := by
    intro i pc h hh
    simp only [LTSys.pcs, LTSys.init, List.map_map, List.getElem?_map] at h
    cases hi : evss[i]? with
    | none => simp [hi] at h
    | some evs =>
      simp only [hi, Option.map_some, Option.some.injEq, Function.comp] at h
      rw [← h] at hh; cases hh
  refine ⟨?_, ?_⟩
  · intro i j pi pj hi' _ hpi _; exact (hno i pi hi' hpi).elim
  · constructor
    · intro hh; cases hh
    · rintro ⟨i, pc, hpc, hh⟩; exact (hno i pc hpc hh).elim

omit [DecidableEq K] in
theorem pcs_getElem? {s : LTSys E K V T R} {i : Nat} {lt : LThread E K V T R} (h : s.threads[i]? = some lt) :
    s.pcs[i]? = some (lt.pc.getD (.done none false)) := by
  simp [LTSys.pcs, List.getElem?_map, h]

omit [DecidableEq K] in
theorem pcs_set (s : LTSys E K V T R) (sh' : Shared K V) (i : Nat) (lt' : LThread E K V T R) :
    (⟨sh', s.threads.set i lt'⟩ : LTSys E K V T R).pcs = s.pcs.set i (lt'.pc.getD (.done none false)) := by
  simp [LTSys.pcs, List.map_set]

omit [DecidableEq K] in
theorem abs_of_not_done {th : Thread E V T R} {p : Pc K V} (h : p.isDone = false) :
    LThread.abs compile eval (⟨th, some p⟩ : LThread E K V T R) = th := by
  cases p <;> first | rfl | (simp [Pc.isDone] at h)

omit [DecidableEq K] in
theorem map_abs_set_same {l : List (LThread E K V T R)} {i : Nat} {lt lt' : LThread E K V T R}
    (h : l[i]? = some lt) (he : LThread.abs compile eval lt' = LThread.abs compile eval lt) :
    (l.set i lt').map (LThread.abs compile eval) = l.map (LThread.abs compile eval) := by
  rw [List.map_set, he]
  apply set_getElem?_self
  simp [List.getElem?_map, h]

/-- One step of one lock-level thread is a stutter or exactly one quantum of that thread, and mutual exclusion
    is kept.  The quantum happens at the step `LThread.commits` names: a `release` or a thread-local evaluation. -/
theorem sim_step {s s' : LTSys E K V T R} {q : Sys E K V T R} {i : Nat}
    (hbits : LockBits s.sh.held s.pcs) (hsim : Sim compile key eval MAX CLEAR s q)
    (hstep : ltStep compile key eval MAX CLEAR s i = some s') :
    LockBits s'.sh.held s'.pcs ∧
    Sim compile key eval MAX CLEAR s'
      (if (s.threads[i]?).any LThread.commits then sysStep compile key eval MAX CLEAR q i else q) := by
  have hq : ∀ (j : Nat) (lt : LThread E K V T R), s.threads[j]? = some lt →
      q.threads[j]? = some (LThread.abs compile eval lt) := by
    intro j lt h; rw [hsim.threads]; simp [List.getElem?_map, h]
  cases ltStep_kind compile key eval MAX CLEAR hstep with
  | finished th hlt htodo hs =>
    rw [hs]
    have : (s.threads[i]?).any LThread.commits = false := by simp [hlt, LThread.commits, htodo]
    rw [this]
    exact ⟨hbits, hsim⟩
  | evalLocal th j t rest hlt htodo hs =>
    subst hs
    have hc : (s.threads[i]?).any LThread.commits = true := by simp [hlt, LThread.commits, htodo]
    rw [hc]
    simp only [ite_true]
    have hqi := hq i _ hlt
    have habs : LThread.abs compile eval (⟨th, none⟩ : LThread E K V T R) = th := rfl
    rw [habs] at hqi
    rw [sysStep_eq compile key eval MAX CLEAR hqi, tstep_evalSlot compile key eval MAX CLEAR q.cache htodo]
    refine ⟨?_, ?_, ?_, ?_, ?_⟩
    · rw [pcs_set]
      have := hbits.update_outside (pcs_getElem? hlt) (pc' := .done none false) rfl rfl
      exact this
    · simp only
      rw [hsim.threads, List.map_set]; rfl
    · exact hsim.free
    · intro k lt p hk hp
      by_cases hki : k = i
      · subst hki; rw [getElem?_set_self' hlt] at hk; injection hk with hk; subst hk; cases hp
      · rw [getElem?_set_ne' hki] at hk; exact hsim.wait k lt p hk hp
    · intro k lt p hk hp
      by_cases hki : k = i
      · subst hki; rw [getElem?_set_self' hlt] at hk; injection hk with hk; subst hk; cases hp
      · rw [getElem?_set_ne' hki] at hk; exact hsim.mid k lt p hk hp
  | startGet th ev rest e hlt htodo he hp hs =>
    subst hs
    have hc : (s.threads[i]?).any LThread.commits = false := by
      cases ev <;> simp_all [LThread.commits, Event.expr?]
    rw [hc]
    simp only [Bool.false_eq_true, ite_false]
    refine ⟨?_, ?_, hsim.free, ?_, ?_⟩
    · rw [pcs_set]
      exact hbits.update_outside (pcs_getElem? hlt) (pc' := .getAcquire (key e)) rfl rfl
    · rw [hsim.threads]
      exact (map_abs_set_same compile eval (lt' := ⟨th, some (.getAcquire (key e))⟩) hlt rfl).symm
    · intro k lt p hk hpk
      by_cases hki : k = i
      · subst hki; rw [getElem?_set_self' hlt] at hk; injection hk with hk; subst hk
        injection hpk with hpk; subst hpk
        intro _ _ c
        refine ⟨(get c (key e)).2, false, ?_, ?_⟩
        · rw [tstep_get compile key eval MAX CLEAR c htodo he hp]
          exact get_section_runs MAX CLEAR c (key e)
        · rw [tstep_get compile key eval MAX CLEAR c htodo he hp]
      · rw [getElem?_set_ne' hki] at hk; exact hsim.wait k lt p hk hpk
    · intro k lt p hk hpk
      by_cases hki : k = i
      · subst hki; rw [getElem?_set_self' hlt] at hk; injection hk with hk; subst hk
        injection hpk with hpk; subst hpk
        intro hh; cases hh
      · rw [getElem?_set_ne' hki] at hk; exact hsim.mid k lt p hk hpk
  | startSet th ev rest e v hlt htodo he hp hs =>
    subst hs
    have hc : (s.threads[i]?).any LThread.commits = false := by
      cases ev <;> simp_all [LThread.commits, Event.expr?]
    rw [hc]
    simp only [Bool.false_eq_true, ite_false]
    refine ⟨?_, ?_, hsim.free, ?_, ?_⟩
    · rw [pcs_set]
      exact hbits.update_outside (pcs_getElem? hlt) (pc' := .setAcquire (key e) v false) rfl rfl
    · rw [hsim.threads]
      exact (map_abs_set_same compile eval (lt' := ⟨th, some (.setAcquire (key e) v false)⟩) hlt rfl).symm
    · intro k lt p hk hpk
      by_cases hki : k = i
      · subst hki; rw [getElem?_set_self' hlt] at hk; injection hk with hk; subst hk
        injection hpk with hpk; subst hpk
        intro _ _ c
        refine ⟨none, false, ?_, ?_⟩
        · rw [tstep_set compile key eval MAX CLEAR c htodo he hp none]
          exact set_section_runs MAX CLEAR c (key e) v
        · rw [tstep_set compile key eval MAX CLEAR c htodo he hp none]
      · rw [getElem?_set_ne' hki] at hk; exact hsim.wait k lt p hk hpk
    · intro k lt p hk hpk
      by_cases hki : k = i
      · subst hki; rw [getElem?_set_self' hlt] at hk; injection hk with hk; subst hk
        injection hpk with hpk; subst hpk
        intro hh; cases hh
      · rw [getElem?_set_ne' hki] at hk; exact hsim.mid k lt p hk hpk
  | cont th r x hlt hs =>
    subst hs
    have hc : (s.threads[i]?).any LThread.commits = false := by simp [hlt, LThread.commits, Pc.isRelease]
    rw [hc]
    simp only [Bool.false_eq_true, ite_false]
    refine ⟨?_, ?_, hsim.free, ?_, ?_⟩
    · rw [pcs_set]
      exact hbits.update_outside (pcs_getElem? hlt) (pc' := .done none false) rfl rfl
    · rw [hsim.threads]
      exact (map_abs_set_same compile eval (lt' := ⟨th.cont compile eval r, none⟩) hlt rfl).symm
    · intro k lt p hk hpk
      by_cases hki : k = i
      · subst hki; rw [getElem?_set_self' hlt] at hk; injection hk with hk; subst hk; cases hpk
      · rw [getElem?_set_ne' hki] at hk; exact hsim.wait k lt p hk hpk
    · intro k lt p hk hpk
      by_cases hki : k = i
      · subst hki; rw [getElem?_set_self' hlt] at hk; injection hk with hk; subst hk; cases hpk
      · rw [getElem?_set_ne' hki] at hk; exact hsim.mid k lt p hk hpk
  | sect th p p' sh' hlt hnd hl hs =>
    subst hs
    have hk := lstep_kind hl
    have hpcs := pcs_getElem? hlt
    simp only [Option.getD_some] at hpcs
    have hbits' : LockBits sh'.held (⟨sh', s.threads.set i ⟨th, some p'⟩⟩ : LTSys E K V T R).pcs := by
      rw [pcs_set]; exact hbits.step hpcs hk
    refine ⟨hbits', ?_⟩
    -- the other threads are outside every section
    have hothers : ∀ (k : Nat) (lt : LThread E K V T R) (pk : Pc K V), k ≠ i → s.threads[k]? = some lt →
        lt.pc = some pk → pk.holds = false := by
      intro k lt pk hki hk' hpk
      have := pcs_getElem? hk'
      rw [hpk] at this
      exact hbits.other_outside hpcs this hki hk hnd
    have hcommit : (s.threads[i]?).any LThread.commits = p.isRelease := by simp [hlt, LThread.commits]
    rw [hcommit]
    have hqi := hq i _ hlt
    rw [abs_of_not_done compile eval hnd] at hqi
    have hwait' : ∀ (k : Nat) (lt : LThread E K V T R) (pk : Pc K V),
        (s.threads.set i ⟨th, some p'⟩)[k]? = some lt → lt.pc = some pk →
        pk.holds = false → pk.isDone = false → ∀ c, Target compile key eval MAX CLEAR lt.th c ⟨false, c⟩ pk := by
      intro k lt pk hk' hpk hh hd
      by_cases hki : k = i
      · subst hki; rw [getElem?_set_self' hlt] at hk'; injection hk' with hk'; subst hk'
        injection hpk with hpk; subst hpk
        -- after a step of a section the thread is inside or has returned
        cases hk with
        | idle hd' => rw [hd'] at hnd; cases hnd
        | acquire _ _ _ _ _ hh' => rw [hh'] at hh; cases hh
        | body _ _ _ _ _ hh' => rw [hh'] at hh; cases hh
        | release _ _ _ _ hd' => rw [hd'] at hd; cases hd
      · rw [getElem?_set_ne' hki] at hk'; exact hsim.wait k lt pk hk' hpk hh hd
    cases hk with
    | idle hd => rw [hd] at hnd; cases hnd
    | acquire hh hd hfree hs hp hh' =>
      have hr : p.isRelease = false := by
        cases hx : p.isRelease with
        | false => rfl
        | true => rw [Pc.holds_of_isRelease hx] at hh; cases hh
      rw [hr]
      simp only [Bool.false_eq_true, ite_false]
      refine ⟨?_, ?_, hwait', ?_⟩
      · rw [hsim.threads]
        refine (map_abs_set_same compile eval hlt ?_).symm
        rw [abs_of_not_done compile eval hnd, abs_of_not_done compile eval (Pc.not_done_of_holds hh')]
      · intro hf; rw [hs] at hf; cases hf
      · intro k lt pk hk' hpk hhk
        by_cases hki : k = i
        · subst hki; rw [getElem?_set_self' hlt] at hk'; injection hk' with hk'; subst hk'
          injection hpk with hpk; subst hpk
          -- nobody wrote since the lock was free: the cache is still the quantum machine's
          have hw := hsim.wait k _ p hlt rfl hh hd s.sh.cache
          rw [← shared_eta_free hfree] at hw
          obtain ⟨r, x, hruns, hcont⟩ := hw
          rw [hsim.free hfree] at hruns hcont
          exact ⟨r, x, hruns.after_step rfl hd hl, hcont⟩
        · rw [getElem?_set_ne' hki] at hk'
          have := hothers k lt pk hki hk' hpk
          rw [this] at hhk; cases hhk
    | body hh hr hheld hs hp hh' =>
      rw [hr]
      simp only [Bool.false_eq_true, ite_false]
      refine ⟨?_, ?_, hwait', ?_⟩
      · rw [hsim.threads]
        refine (map_abs_set_same compile eval hlt ?_).symm
        rw [abs_of_not_done compile eval hnd, abs_of_not_done compile eval (Pc.not_done_of_holds hh')]
      · intro hf; rw [hs] at hf; simp only at hf; rw [hheld] at hf; cases hf
      · intro k lt pk hk' hpk hhk
        by_cases hki : k = i
        · subst hki; rw [getElem?_set_self' hlt] at hk'; injection hk' with hk'; subst hk'
          injection hpk with hpk; subst hpk
          obtain ⟨r, x, hruns, hcont⟩ := hsim.mid k _ p hlt rfl hh
          exact ⟨r, x, hruns.after_step rfl hnd hl, hcont⟩
        · rw [getElem?_set_ne' hki] at hk'
          have := hothers k lt pk hki hk' hpk
          rw [this] at hhk; cases hhk
    | release hr hheld hs hp hd' =>
      rw [hr]
      simp only [ite_true]
      have hh := Pc.holds_of_isRelease hr
      obtain ⟨r, x, hruns, hcont⟩ := hsim.mid i _ p hlt rfl hh
      have h2 := hruns.after_step rfl hnd hl
      obtain ⟨h3, h4⟩ := h2.of_done hd'
      -- the section has returned: the shared cache is the quantum's result, the thread's continuation its thread
      rw [sysStep_eq compile key eval MAX CLEAR hqi]
      refine ⟨?_, ?_, ?_, ?_⟩
      · simp only
        rw [hsim.threads, List.map_set]
        congr 1
        rw [← h4]
        exact hcont.symm
      · intro _; rw [← h3]
      · intro k lt pk hk' hpk hhk hdk c
        exact hwait' k lt pk hk' hpk hhk hdk c
      · intro k lt pk hk' hpk hhk
        by_cases hki : k = i
        · subst hki; rw [getElem?_set_self' hlt] at hk'; injection hk' with hk'; subst hk'
          injection hpk with hpk; subst hpk
          rw [Pc.not_holds_of_isDone hd'] at hhk; cases hhk
        · rw [getElem?_set_ne' hki] at hk'
          have := hothers k lt pk hki hk' hpk
          rw [this] at hhk; cases hhk

/-- Every lock-level run, projected at its release points, is a run of the quantum machine. -/
theorem sim_run (sched : List Nat) : ∀ (s : LTSys E K V T R) (q : Sys E K V T R),
    LockBits s.sh.held s.pcs → Sim compile key eval MAX CLEAR s q →
    LockBits (ltRun compile key eval MAX CLEAR s sched).sh.held (ltRun compile key eval MAX CLEAR s sched).pcs ∧
    Sim compile key eval MAX CLEAR (ltRun compile key eval MAX CLEAR s sched)
      (sysRun compile key eval MAX CLEAR q (ltProject compile key eval MAX CLEAR s sched)) := by
  induction sched with
  | nil => intro s q hb hs; exact ⟨hb, hs⟩
  | cons i rest ih =>
    intro s q hb hs
    unfold ltRun ltProject
    cases hstep : ltStep compile key eval MAX CLEAR s i with
    | none =>
      simp only [Option.getD_none]
      exact ih s q hb hs
    | some s' =>
      simp only [Option.getD_some]
      obtain ⟨hb', hs'⟩ := sim_step compile key eval MAX CLEAR hb hs hstep
      have := ih s' _ hb' hs'
      by_cases hc : (s.threads[i]?).any LThread.commits = true
      · simp only [hc, ite_true] at this ⊢
        simpa [sysRun] using this
      · have hc' : (s.threads[i]?).any LThread.commits = false := by simpa using hc
        simp only [hc', Bool.false_eq_true, ite_false] at this ⊢
        simpa [sysRun] using this


/-! ### When a lock-level thread can move -/

theorem ltStep_isSome_between {s : LTSys E K V T R} {i : Nat} {th : Thread E V T R}
    (hlt : s.threads[i]? = some ⟨th, none⟩) : (ltStep compile key eval MAX CLEAR s i).isSome = true := by
  unfold ltStep
  simp only [hlt]
  cases th.todo with
  | nil => rfl
  | cons ev rest =>
    cases ev with
    | evalSlot j t => rfl
    | new e => simp only; cases th.pending <;> rfl
    | query e t => simp only; cases th.pending <;> rfl

theorem ltStep_isSome_sect {s : LTSys E K V T R} {i : Nat} {th : Thread E V T R} {p : Pc K V}
    (hlt : s.threads[i]? = some ⟨th, some p⟩) (h : (lstep MAX CLEAR s.sh p).isSome = true) :
    (ltStep compile key eval MAX CLEAR s i).isSome = true := by
  unfold ltStep
  simp only [hlt]
  cases hl : lstep MAX CLEAR s.sh p with
  | none => rw [hl] at h; cases h
  | some q => cases p <;> simp [hl]

/-- The data invariant along every run of the quantum machine (no assumption on the key function). -/
theorem sysRun_inv (hb : CLEAR < MAX) (sched : List Nat) : ∀ (q : Sys E K V T R), Inv MAX q.cache →
    Inv MAX (sysRun compile key eval MAX CLEAR q sched).cache := by
  unfold sysRun
  induction sched with
  | nil => intro q h; exact h
  | cons i rest ih =>
    intro q h
    rw [List.foldl_cons]
    apply ih
    unfold sysStep
    cases hth : q.threads[i]? with
    | none => exact h
    | some th => exact tstep_inv hb th h

end
end AHP.Cache
