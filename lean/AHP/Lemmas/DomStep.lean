/-
  AHP.Lemmas.DomStep — every call of the op alphabet keeps the world invariant.
-/
import AHP.Lemmas.DomBuild
namespace AHP.Dom

variable {w w' : World} {v : Val}

theorem appendText_Inv {t s} (hw : Inv w) (h : w.appendText t s = some (w', v)) : Inv w' := by
  refine apply_Inv w t _ ?_ hw h
  intro m bs e he
  simp only [Option.some.injEq] at he
  subst he
  exact good_appendText s m bs

theorem appendChild_Inv {t c} (hw : Inv w) (h : w.appendChild t c = some (w', v)) : Inv w' := by
  unfold World.appendChild at h
  split at h
  · simp at h
  · rename_i ct rest htake
    unfold World.apply at h
    split at h
    · simp at h
    · rename_i m bs hf
      simp only [Option.some.injEq, Prod.mk.injEq] at h
      rw [← h.1]
      refine move_Inv w c t hw htake (findL?_mem t rest hf) _ ?_
      intro hel hok m' bs'
      simpa using good_appendChild ct hel hok m' bs'

theorem appendBlock_Inv {t b} (hw : Inv w) (h : w.appendBlock t b = some (w', v)) : Inv w' := by
  cases b with
  | txt s =>
    simp only [World.appendBlock, Option.map_eq_some_iff] at h
    obtain ⟨r, hr, he⟩ := h
    simp only [Prod.mk.injEq] at he
    rw [← he.1]
    exact appendText_Inv (w' := r.1) (v := r.2) hw (by simpa using hr)
  | elm c => exact appendChild_Inv hw h

theorem appendBlocksLoop_Inv {t} (bs : List Blk) (hw : Inv w) (h : w.appendBlocksLoop t bs = some w') : Inv w' := by
  induction bs generalizing w with
  | nil => simp only [World.appendBlocksLoop, Option.some.injEq] at h; rw [← h]; exact hw
  | cons b bs ih =>
    simp only [World.appendBlocksLoop] at h
    split at h
    · simp at h
    · rename_i r hr
      exact ih (appendBlock_Inv (w' := r.1) (v := r.2) hw (by simpa using hr)) h

theorem appendBlocks_Inv {t bs} (hw : Inv w) (h : w.appendBlocks t bs = some (w', v)) : Inv w' := by
  simp only [World.appendBlocks, Option.map_eq_some_iff] at h
  obtain ⟨w1, h1, he⟩ := h
  simp only [Prod.mk.injEq] at he
  rw [← he.1]
  exact appendBlocksLoop_Inv bs hw h1

/-! ### fragments join the world -/

theorem idsL_filter_isEl (l : List DN) : idsL (l.filter DN.isEl) = idsL l := by
  induction l with
  | nil => simp
  | cons b bs ih => cases b <;> simp [List.filter, DN.isEl, ih]

theorem ids_detachTop (ch : List Nat) (b : DN) : ids (detachTop ch b) = ids b := by
  cases b with
  | text s => simp [detachTop]
  | el m k =>
    simp only [detachTop]
    split
    · rw [ids_reown, ids_setParent]
    · rfl

theorem idsL_map_detachTop (ch : List Nat) (bs : List DN) : idsL (bs.map (detachTop ch)) = idsL bs := by
  induction bs with
  | nil => simp
  | cons b bs ih => simp [ids_detachTop, ih]

theorem detachTop_roots {p o} (bs : List DN) (ch : List Nat) (hk : OKL p o bs) (hch : ∀ i ∈ elemIds bs, i ∈ ch) :
    ∀ r ∈ (bs.map (detachTop ch)).filter DN.isEl, Detached r := by
  induction bs with
  | nil => simp
  | cons b bs ih =>
    simp only [OKL_cons] at hk
    intro r hr
    cases b with
    | text s =>
      simp only [List.map_cons, detachTop, List.filter, DN.isEl] at hr
      exact ih hk.2 (by simpa using hch) r hr
    | el m k =>
      have hmem : m.id ∈ ch := hch m.id (by simp)
      simp only [List.map_cons, detachTop, if_pos hmem] at hr
      have hel : (reown none (setParent none (DN.el m k))).isEl = true := by simp [DN.isEl]
      simp only [List.filter, hel, List.mem_cons] at hr
      cases hr with
      | inl hr => subst hr; exact detach_Detached _ rfl hk.1
      | inr hr => exact ih hk.2 (fun i hi => hch i (by simp [hi])) r hr

/-- The blocks `createBlocksFromHTML` hands out, for a freshly built root: consistent roots with
    fresh, distinct uids. -/
theorem createBlocks_roots (root : DN) {d n k} (hok : OK none (some d) root) (hids : ids root = List.range' n k) :
    (∀ r ∈ (createBlocks root).filter DN.isEl, RootOK r) ∧
    (idsL ((createBlocks root).filter DN.isEl)).Nodup ∧
    (∀ i ∈ idsL ((createBlocks root).filter DN.isEl), n ≤ i ∧ i < n + k) := by
  have hnd : (ids root).Nodup := hids ▸ range'_nodup n k
  have hrange : ∀ i ∈ ids root, n ≤ i ∧ i < n + k := by
    intro i hi; rw [hids] at hi
    simp only [List.mem_range'_1] at hi; exact hi
  cases root with
  | text s => simp [createBlocks, List.filter, DN.isEl]
  | el m bs =>
    simp only [createBlocks]
    split
    · -- the wrapper: its blocks, detached
      simp only [OK_el] at hok
      refine ⟨?_, ?_, ?_⟩
      · intro r hr
        exact (detachTop_roots bs m.children hok.2.2.2.2.2 (by rw [hok.2.2.1]; exact fun i hi => hi) r hr).rootOK
      · rw [idsL_filter_isEl, idsL_map_detachTop]
        simp only [ids_el, List.nodup_cons] at hnd
        exact hnd.2
      · intro i hi
        rw [idsL_filter_isEl, idsL_map_detachTop] at hi
        exact hrange i (by simp [hi])
    · refine ⟨?_, ?_, ?_⟩
      · intro r hr
        simp only [List.filter, DN.isEl, List.mem_singleton] at hr
        subst hr
        have : m.owner = some d := by simp only [OK_el] at hok; exact hok.2.1
        exact ⟨m, bs, rfl, this ▸ hok⟩
      · simpa [List.filter, DN.isEl] using hnd
      · intro i hi
        simp only [List.filter, DN.isEl, idsL_cons, idsL_nil, List.append_nil] at hi
        exact hrange i hi

theorem build_spec (p : Parsed) (d n : Nat) :
    ∃ k, OK none (some d) (p.build d n).1 ∧ ids (p.build d n).1 = List.range' n k ∧ (p.build d n).2 = n + k := by
  cases p with
  | single r =>
    obtain ⟨k, h1, h2⟩ := mk_ids none (some d) r n
    exact ⟨k, mk_OK none (some d) r n, h1, h2⟩
  | multi tops =>
    obtain ⟨k, h1, h2⟩ := mkL_ids (some n) (some d) tops (n+1)
    refine ⟨k + 1, ?_, ?_, ?_⟩
    · simp only [Parsed.build, OK_el, elemIds_text, textOf_text, List.nil_append, OKL_cons, OK_text, true_and]
      refine ⟨by simp, mkL_OK (some n) (some d) tops (n+1)⟩
    · simp only [Parsed.build, ids_el, idsL_cons, ids_text, List.nil_append, h1]
      rw [List.range'_succ]
    · simp only [Parsed.build, h2]; omega

/-- the world after `createBlocksFromHTML` (the new detached elements have joined the roots) -/
theorem fragment_world_Inv (p : Parsed) (hw : Inv w) :
    Inv { roots := w.roots ++ (createBlocks (p.build w.nextDoc w.next).1).filter DN.isEl,
          next := (p.build w.nextDoc w.next).2, nextDoc := w.nextDoc + 1 } := by
  obtain ⟨k, hok, hids, hnext⟩ := build_spec p w.nextDoc w.next
  obtain ⟨hr, hnd, hrg⟩ := createBlocks_roots _ hok hids
  refine ⟨?_, ?_, ?_⟩
  · intro r hr'
    simp only [List.mem_append] at hr'
    cases hr' with
    | inl h => exact hw.roots r h
    | inr h => exact hr r h
  · simp only [idsL_append]
    refine List.nodup_append.mpr ⟨hw.nodup, hnd, ?_⟩
    intro a ha b hb hab
    have := hw.fresh a ha
    have := (hrg b hb).1
    omega
  · intro i hi
    simp only [idsL_append, List.mem_append] at hi
    show i < (p.build w.nextDoc w.next).2
    rw [hnext]
    cases hi with
    | inl h => have := hw.fresh i h; omega
    | inr h => exact (hrg i h).2

theorem appendInnerHTML_Inv {t p} (hw : Inv w) (h : w.appendInnerHTML t p = some (w', v)) : Inv w' := by
  simp only [World.appendInnerHTML, Option.map_eq_some_iff] at h
  obtain ⟨w1, h1, he⟩ := h
  simp only [Prod.mk.injEq] at he
  rw [← he.1]
  exact appendBlocksLoop_Inv _ (fragment_world_Inv p hw) h1

/-! ### insertion, removal, attributes -/

theorem insert_Inv {after t b ref} (hw : Inv w) (h : w.insert after t b ref = some (w', v)) : Inv w' := by
  unfold World.insert at h
  split at h
  · exact appendBlock_Inv hw h
  · rename_i r
    split at h
    · rename_i s
      exact apply_Inv w t _ (fun m bs e he => good_insertText after r s m bs he) hw h
    · rename_i c
      split at h
      · simp at h
      · rename_i ct rest htake
        split at h
        · simp at h
        · rename_i m bs hf
          split at h
          · simp only [Option.some.injEq, Prod.mk.injEq] at h
            rw [← h.1]; exact hw
          · simp only [Option.some.injEq, Prod.mk.injEq] at h
            rw [← h.1]
            exact move_Inv w c t hw htake (findL?_mem t rest hf) _
              (fun hel hok m' bs' => good_insertEl after r ct hel hok m' bs')

theorem removeText_Inv {t s} (hw : Inv w) (h : w.removeText t s = some (w', v)) : Inv w' := by
  refine apply_Inv w t _ ?_ hw h
  intro m bs e he
  simp only [Option.some.injEq] at he
  subst he
  exact good_removeText s m bs

theorem removeTextAll_Inv {t s} (hw : Inv w) (h : w.removeTextAll t s = some (w', v)) : Inv w' := by
  refine apply_Inv w t _ ?_ hw h
  intro m bs e he
  simp only [Option.some.injEq] at he
  subst he
  exact good_removeTextAll s m bs

theorem removeChild_Inv {t c} (hw : Inv w) (h : w.removeChild t c = some (w', v)) : Inv w' :=
  apply_Inv w t _ (fun m bs _ he => good_removeChild c m bs he) hw h

theorem remove_Inv {t} (hw : Inv w) (h : w.remove t = some (w', v)) : Inv w' := by
  unfold World.remove at h
  split at h
  · simp at h
  · rename_i m bs hf
    split at h
    · simp only [Option.some.injEq, Prod.mk.injEq] at h
      rw [← h.1]; exact hw
    · rename_i p hp
      simp only [Option.map_eq_some_iff] at h
      obtain ⟨r, hr, he⟩ := h
      simp only [Prod.mk.injEq] at he
      rw [← he.1]
      exact removeChild_Inv (w' := r.1) (v := r.2) hw (by simpa using hr)

theorem removeBlock_Inv {t b} (hw : Inv w) (h : w.removeBlock t b = some (w', v)) : Inv w' := by
  cases b with
  | elm c => exact removeChild_Inv hw h
  | txt s => exact removeText_Inv hw h

theorem removeBlocksLoop_Inv {t} (bs : List Blk) {vs} (hw : Inv w) (h : w.removeBlocksLoop t bs = some (w', vs)) : Inv w' := by
  induction bs generalizing w w' vs with
  | nil => simp only [World.removeBlocksLoop, Option.some.injEq, Prod.mk.injEq] at h; rw [← h.1]; exact hw
  | cons b bs ih =>
    simp only [World.removeBlocksLoop] at h
    split at h
    · simp at h
    · rename_i r hr
      simp only [Option.map_eq_some_iff] at h
      obtain ⟨r', hr', he⟩ := h
      simp only [Prod.mk.injEq] at he
      rw [← he.1]
      exact ih (w := r.1) (w' := r'.1) (vs := r'.2) (removeBlock_Inv (w' := r.1) (v := r.2) hw (by simpa using hr)) (by simpa using hr')

theorem removeBlocks_Inv {t bs} (hw : Inv w) (h : w.removeBlocks t bs = some (w', v)) : Inv w' := by
  simp only [World.removeBlocks, Option.map_eq_some_iff] at h
  obtain ⟨r, hr, he⟩ := h
  simp only [Prod.mk.injEq] at he
  rw [← he.1]
  exact removeBlocksLoop_Inv bs (vs := r.2) hw (by simpa using hr)

theorem setAttribute_Inv {t k x} (hw : Inv w) (h : w.setAttribute t k x = some (w', v)) : Inv w' := by
  unfold World.setAttribute at h
  split at h
  · simp at h
  · exact apply_Inv w t _ (fun m bs _ he => good_setAttribute k x m bs he) hw h

/-- C04a: each of the 15 calls keeps the invariant. -/
theorem step_Inv' (op : Op) (hw : Inv w) (h : step w op = some (w', v)) : Inv w' := by
  cases op with
  | appendText t s => exact appendText_Inv hw h
  | appendChild t c =>
    cases c with
    | none =>
      simp only [step, Option.map_eq_some_iff] at h
      obtain ⟨_, _, he⟩ := h
      simp only [Prod.mk.injEq] at he
      rw [← he.1]; exact hw
    | some c => exact appendChild_Inv hw h
  | appendBlock t b => exact appendBlock_Inv hw h
  | appendBlocks t bs => exact appendBlocks_Inv hw h
  | appendInnerHTML t p => exact appendInnerHTML_Inv hw h
  | insertBefore t b r => exact insert_Inv hw h
  | insertAfter t b r => exact insert_Inv hw h
  | removeText t s => exact removeText_Inv hw h
  | removeTextAll t s => exact removeTextAll_Inv hw h
  | remove t => exact remove_Inv hw h
  | removeChild t c => exact removeChild_Inv hw h
  | removeChildren t cs => exact removeBlocks_Inv hw h
  | removeBlock t b => exact removeBlock_Inv hw h
  | removeBlocks t bs => exact removeBlocks_Inv hw h
  | setAttribute t k x => exact setAttribute_Inv hw h

end AHP.Dom
