/-
  A tree-level sufficient condition for `ListOK (toks …)` (the side condition of the character-level round
  trip of C01), including raw-text elements: `LNode.LexOK`.

  * a text block is one well-formed text-like token other than the data singletons `<` / `&`;
  * no two data runs are adjacent among the blocks of one element;
  * an element has a well-formed name and attribute view; the blocks of a (not self-closing) `script` / `style`
    element are nothing, or ONE data token whose text nowhere matches the element's closing expression
    (`RawOK`) — that text may contain `<`, `&`, tags, comments, references.
-/
import AHP.Lemmas.RoundTrip
import AHP.Lemmas.LexRoundTrip
namespace AHP

/-- nothing, or something that opens markup or a reference: what may follow a data run -/
def StartsMarkup (s : Str) : Prop := s = [] ∨ ∃ r, s = '<' :: r ∨ s = '&' :: r

def isDataTok : LNode → Bool
  | .tok (.data _) => true
  | _ => false

/-- the blocks of a raw-text element: none, or one data token that does not contain the closing expression -/
def RawKidsOK (n : Str) : List LNode → Prop
  | [] => True
  | [.tok (.data raw)] => raw ≠ [] ∧ RawOK n raw
  | _ => False

/-- no two data runs adjacent -/
def NoAdjL : List LNode → Prop
  | k₁ :: k₂ :: ks => ¬ (isDataTok k₁ = true ∧ isDataTok k₂ = true) ∧ NoAdjL (k₂ :: ks)
  | _ => True

mutual
def LNode.LexOK : LNode → Prop
  | .tok t => TokOK t ∧ NotSingleton t
  | .elem n a sc kids =>
      (∀ x ∈ a.view, AttrOK x) ∧
      (if sc = true then TagNameOK n
       else if isRawText n = true then RawKidsOK n kids
       else TagNameOK n ∧ LexOKL kids ∧ NoAdjL kids)
def LexOKL : List LNode → Prop
  | [] => True
  | k :: ks => k.LexOK ∧ LexOKL ks
end

theorem startsMarkup_endTag (n : Str) (tail : List Token) : StartsMarkup (renderToks (.end_ n :: tail)) :=
  Or.inr ⟨'/' :: (n ++ '>' :: renderToks tail), Or.inl (by simp [renderToks, renderTok])⟩

/-- a block that is not a data run starts with `<` or `&` -/
theorem toks_head_markup (k : LNode) (h : k.LexOK) (hd : isDataTok k = false) (rest : List Token) :
    StartsMarkup (renderToks (k.toks ++ rest)) := by
  cases k with
  | tok t =>
    simp only [LNode.LexOK] at h
    have hnd : isData t = false := by
      cases t <;> simp_all [isDataTok, isData]
    obtain ⟨r, hr⟩ := render_head t h.1 hnd
    right
    rcases hr with hr | hr
    · exact ⟨r ++ renderToks rest, Or.inl (by simp [LNode.toks, renderToks, hr])⟩
    · exact ⟨r ++ renderToks rest, Or.inr (by simp [LNode.toks, renderToks, hr])⟩
  | elem n a sc kids =>
    right
    unfold LNode.toks
    cases sc with
    | true => exact ⟨_, Or.inl (by simp [renderToks, renderTok]; rfl)⟩
    | false => exact ⟨_, Or.inl (by simp [renderToks, renderTok]; rfl)⟩

theorem follows_of_startsMarkup (t : Token) (hns : NotSingleton t) (rest : Str) (h : StartsMarkup rest) :
    Follows t rest := by
  cases t with
  | data s =>
    simp only [NotSingleton] at hns
    simp only [Follows, hns.1, hns.2, if_false]
    exact h
  | _ => trivial

mutual
theorem lnode_listOK (t : LNode) (hwf : t.WF) (h : t.LexOK) (tail : List Token) (htail : ListOK tail)
    (hb : isDataTok t = true → StartsMarkup (renderToks tail)) : ListOK (t.toks ++ tail) := by
  match t, hwf, h with
  | .tok tk, _, h =>
    simp only [LNode.LexOK] at h
    simp only [LNode.toks, List.cons_append, List.nil_append]
    refine .cons h.1 ?_ htail
    cases tk with
    | data s => exact follows_of_startsMarkup _ h.2 _ (hb rfl)
    | _ => trivial
  | .elem n a sc kids, hwf, h =>
    simp only [LNode.WF] at hwf
    obtain ⟨_, _, hsc, hk⟩ := hwf
    simp only [LNode.LexOK] at h
    obtain ⟨hattrs, h⟩ := h
    unfold LNode.toks
    cases hs : sc with
    | true =>
      simp only [hs, if_true] at h
      simp only [if_true, List.cons_append, List.nil_append]
      exact .cons ⟨h, hattrs⟩ trivial htail
    | false =>
      simp only [hs, Bool.false_eq_true, if_false] at h
      simp only [Bool.false_eq_true, if_false, List.cons_append, List.append_assoc]
      by_cases hr : isRawText n = true
      · simp only [hr, if_true] at h
        match kids, h with
        | [], _ => exact .rawEmpty hr hattrs htail
        | [.tok (.data raw)], h =>
          simp only [RawKidsOK] at h
          exact .raw hr hattrs h.1 h.2 htail
      · simp only [hr] at h
        obtain ⟨hn, hkids, hadj⟩ := h
        have hr' : isRawText n = false := by simpa using hr
        refine .cons ⟨hn, hr', hattrs⟩ trivial ?_
        exact lforest_listOK kids hk hkids hadj (.end_ n :: tail) (.cons hn trivial htail)
          (startsMarkup_endTag n tail)
theorem lforest_listOK (ks : List LNode) (hwf : WFLL ks) (h : LexOKL ks) (hadj : NoAdjL ks) (tail : List Token)
    (htail : ListOK tail) (hb : StartsMarkup (renderToks tail)) : ListOK (toksL ks ++ tail) := by
  match ks, hwf, h with
  | [], _, _ => simpa [toksL] using htail
  | k :: ks, hwf, h =>
    simp only [WFLL] at hwf
    simp only [LexOKL] at h
    have hadj' : NoAdjL ks := by
      cases ks with
      | nil => trivial
      | cons k2 ks2 => exact hadj.2
    have ih := lforest_listOK ks hwf.2 h.2 hadj' tail htail hb
    unfold toksL
    rw [List.append_assoc]
    refine lnode_listOK k hwf.1 h.1 _ ih ?_
    intro hkd
    match ks, h.2, hadj with
    | [], _, _ => simpa [toksL] using hb
    | k2 :: ks2, h2, hadj =>
      have hd2 : isDataTok k2 = false := by
        cases hd : isDataTok k2 with
        | false => rfl
        | true => exact absurd ⟨hkd, hd⟩ hadj.1
      simp only [LexOKL] at h2
      unfold toksL
      rw [List.append_assoc]
      exact toks_head_markup k2 h2.1 hd2 _
end

end AHP
