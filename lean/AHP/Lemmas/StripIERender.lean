/-
  `stripIEConditionals` on the serialisers' output: the rendering of a token list in the serialiser's image
  contains the opener of an IE conditional comment (`<!--` ws* `[` ws* `if`) only inside a token that contains
  it — no opener reaches across a token boundary — and token by token the condition is: a comment's body does
  not start with ws* `[` ws* `if`, attribute values / declaration bodies / processing instructions contain no
  opener.  Hence `parseText` (= `feed`: strip, lex, build, retry inside the wrapper) is `feedText` there.
-/
import AHP.Lemmas.StripIE
import AHP.Lemmas.WrapLexFeed
namespace AHP

/-- `AdvancedHTMLParser.feed(contents)` — what `parseStr` / `parseFile` run after `reset()` — on the strict
    sub-language: `contents = stripIEConditionals(contents)`, then the two-pass `HTMLParser.feed` (`feedText`) -/
def parseText (s : Str) : Option FeedResult := feedText (stripIE s)

/-! ### characters that are not `<` -/

theorem ne_lt_of_tagCh (c : Char) (h : isTagCh c = true) : c ≠ '<' := by
  intro e; rw [e] at h; revert h; decide
theorem ne_lt_of_attrCh (c : Char) (h : isAttrCh c = true) : c ≠ '<' := by
  intro e; rw [e] at h; revert h; decide
theorem ne_lt_of_entCh (c : Char) (h : isEntCh c = true) : c ≠ '<' := by
  intro e; rw [e] at h; revert h; decide
theorem ne_lt_of_digit (c : Char) (h : isDigit c = true) : c ≠ '<' := by
  intro e; rw [e] at h; revert h; decide
theorem ne_lt_of_hex (c : Char) (h : isHex c = true) : c ≠ '<' := by
  intro e; rw [e] at h; revert h; decide

theorem hasIEMarker_cons_ne (c : Char) (s : Str) (hc : c ≠ '<') : hasIEMarker (c :: s) = hasIEMarker s := by
  apply occurs_cons_not_first
  simp [hc]

/-- characters other than `<` in front change nothing -/
theorem hasIEMarker_append_no_lt (y : Str) : ∀ x : Str, (∀ c ∈ x, c ≠ '<') → hasIEMarker (x ++ y) = hasIEMarker y := by
  intro x
  induction x with
  | nil => intro _; rfl
  | cons c cs ih =>
    intro h
    rw [List.cons_append, hasIEMarker_cons_ne c _ (h c List.mem_cons_self)]
    exact ih (fun d hd => h d (List.mem_cons_of_mem _ hd))

theorem hasIEMarker_lt_cons (c : Char) (s : Str) (hc : c ≠ '!') : hasIEMarker ('<' :: c :: s) = hasIEMarker (c :: s) := by
  rw [hasIEMarker_cons, ieOpener_not_bang c s hc]
  rfl

/-! ### `escapeQuotes` neither makes nor breaks an opener -/

theorem escQ_dropWhile (p : Char → Bool) (hq : p '"' = false) (ha : p '&' = false) :
    ∀ v : Str, (escQ v).dropWhile p = escQ (v.dropWhile p) := by
  intro v
  induction v with
  | nil => rfl
  | cons c cs ih =>
    by_cases hc : c = '"'
    · subst hc
      have e1 : escQ ('"' :: cs) = '&' :: ("quot;".toList ++ escQ cs) := by simp [escQ]
      rw [e1, List.dropWhile_cons, List.dropWhile_cons]
      simp only [ha, hq, Bool.false_eq_true, if_false]
      rw [e1]
    · have e1 : escQ (c :: cs) = c :: escQ cs := by simp [escQ, hc]
      rw [e1, List.dropWhile_cons, List.dropWhile_cons]
      by_cases hp : p c = true
      · simp only [hp, if_true]; exact ih
      · have hp' : p c = false := by simpa using hp
        simp only [hp', Bool.false_eq_true, if_false]; rw [e1]

theorem matchItems_escQ : ∀ (ps : List PItem), (∀ it ∈ ps, it.cls.contains '"' = false ∧ it.cls.contains '&' = false) →
    ∀ v : Str, (matchItems ps (escQ v)).isSome = (matchItems ps v).isSome := by
  intro ps
  induction ps with
  | nil => intro _ v; rw [matchItems_nil, matchItems_nil]; rfl
  | cons it ps ih =>
    intro h v
    have h' : ∀ it ∈ ps, it.cls.contains '"' = false ∧ it.cls.contains '&' = false :=
      fun i hi => h i (List.mem_cons_of_mem _ hi)
    have hit := h it List.mem_cons_self
    cases it with
    | one cs =>
      simp only [PItem.cls] at hit
      cases v with
      | nil => rfl
      | cons c v' =>
        by_cases hc : c = '"'
        · subst hc
          have e1 : escQ ('"' :: v') = '&' :: ("quot;".toList ++ escQ v') := by simp [escQ]
          rw [e1, matchItems_one_isSome, matchItems_one_isSome, hit.1, hit.2]
          rfl
        · have e1 : escQ (c :: v') = c :: escQ v' := by simp [escQ, hc]
          rw [e1, matchItems_one_isSome, matchItems_one_isSome, ih h' v']
    | star cs =>
      simp only [PItem.cls] at hit
      have hs : ∀ s : Str, (matchItems (.star cs :: ps) s).isSome = (matchItems ps (s.dropWhile cs.contains)).isSome := by
        intro s
        rw [matchItems_star]
        cases matchItems ps (s.dropWhile cs.contains) with
        | none => rfl
        | some mr => rfl
      rw [hs, hs, escQ_dropWhile _ hit.1 hit.2 v, ih h' _]

theorem hasIEMarker_escQ (v : Str) : hasIEMarker (escQ v) = hasIEMarker v := by
  induction v with
  | nil => rfl
  | cons c cs ih =>
    by_cases hc : c = '"'
    · subst hc
      have e1 : escQ ('"' :: cs) = "&quot;".toList ++ escQ cs := by simp [escQ]
      rw [e1, hasIEMarker_append_no_lt _ _ (by decide), hasIEMarker_cons_ne _ _ (by decide), ih]
    · have e1 : escQ (c :: cs) = c :: escQ cs := by simp [escQ, hc]
      have e2 : c :: escQ cs = escQ (c :: cs) := e1.symm
      rw [e1, hasIEMarker_cons, hasIEMarker_cons, ih, e2, matchItems_escQ ieOpenerPat (by decide) (c :: cs)]

/-! ### the condition on one token -/

/-- the body of a comment starts with ws* `[` ws* `if` -/
def condStart (c : Str) : Bool := (matchItems ieCondPat c).isSome

/-- token by token: what keeps the opener of an IE conditional comment out of the rendering.

    The `.data` clause speaks about the content of raw-text elements (`script` / `style`; `ListOK.raw`): that
    text is rendered as it is and may contain anything, also `<!--[if`.  For a data token of the grammar outside
    raw text (`TokOK`: no `<` except the singleton) the clause holds by itself (`tokNoIE_data_of_tokOK`). -/
def TokNoIE : Token → Prop
  | .comment c => condStart c = false
  | .start _ a => ∀ x ∈ a, ∀ v, x.2 = some v → hasIEMarker v = false
  | .startend _ a => ∀ x ∈ a, ∀ v, x.2 = some v → hasIEMarker v = false
  | .decl d => hasIEMarker d = false
  | .pi p => hasIEMarker p = false
  | .data s => hasIEMarker s = false
  | _ => True

theorem matchItems_opener_shape (s : Str) (h : (matchItems ieOpenerPat s).isSome = true) :
    ∃ r, s = '<' :: '!' :: '-' :: '-' :: r ∧ (matchItems ieCondPat r).isSome = true := by
  unfold ieOpenerPat at h
  rcases s with _ | ⟨a, _ | ⟨b, _ | ⟨c, _ | ⟨d, r⟩⟩⟩⟩
  · simp [matchItems_one_nil] at h
  · rw [matchItems_one_isSome, matchItems_one_nil] at h; simp at h
  · rw [matchItems_one_isSome, matchItems_one_isSome, matchItems_one_nil] at h; simp at h
  · rw [matchItems_one_isSome, matchItems_one_isSome, matchItems_one_isSome, matchItems_one_nil] at h; simp at h
  · rw [matchItems_one_isSome, matchItems_one_isSome, matchItems_one_isSome, matchItems_one_isSome] at h
    simp only [Bool.and_eq_true, List.contains_cons, List.contains_nil, Bool.or_false, beq_iff_eq] at h
    obtain ⟨rfl, rfl, rfl, rfl, h5⟩ := h
    exact ⟨r, rfl, h5⟩

/-- inside a comment (no `--`, no dash at the end) and across its closing `-->` no opener starts -/
theorem comment_inner (c : Str) (h : CommentOK c) : hasIEMarker (c ++ arrow) = false := by
  induction c with
  | nil => decide
  | cons c0 c' ih =>
    have hc' : CommentOK c' := by
      cases c' with
      | nil => trivial
      | cons d r => exact h.2
    rw [List.cons_append, hasIEMarker_cons, ih hc', Bool.or_false]
    cases hm : (matchItems ieOpenerPat (c0 :: (c' ++ arrow))).isSome with
    | false => rfl
    | true =>
      exfalso
      obtain ⟨r, hr, hr2⟩ := matchItems_opener_shape _ hm
      rcases c' with _ | ⟨a, _ | ⟨b, _ | ⟨d, rest⟩⟩⟩
      · simp [arrow] at hr
      · simp [arrow] at hr
        obtain ⟨_, _, hr3⟩ := hr
        rw [← hr3] at hr2
        revert hr2; decide
      · simp [arrow] at hr
        exact h.2.2 hr.2.2.1
      · simp at hr
        exact h.2.2.1 ⟨hr.2.2.1, hr.2.2.2.1⟩

theorem hasIEMarker_comment (c : Str) (h : CommentOK c) :
    hasIEMarker (renderTok (.comment c)) = condStart c := by
  have e : renderTok (.comment c) = '<' :: '!' :: '-' :: '-' :: (c ++ '-' :: '-' :: '>' :: []) := by
    simp [renderTok]
  rw [e, hasIEMarker_cons, hasIEMarker_cons_ne '!' _ (by decide), hasIEMarker_cons_ne '-' _ (by decide),
    hasIEMarker_cons_ne '-' _ (by decide)]
  have := comment_inner c h
  unfold arrow at this
  rw [this, Bool.or_false]
  unfold ieOpenerPat
  rw [matchItems_one_isSome, matchItems_one_isSome, matchItems_one_isSome, matchItems_one_isSome,
    matchItems_stop_isSome '-' _ ieCondPat (by decide) c]
  simp [condStart]

/-- the value of an attribute contains the marker -/
def attrIE (x : Attr) : Bool :=
  match x.2 with
  | some v => hasIEMarker v
  | none => false

/-- token by token, decidable: the rendering of the token contains the marker (`tokIE_render`) -/
def tokIE : Token → Bool
  | .comment c => condStart c
  | .start _ a => a.any attrIE
  | .startend _ a => a.any attrIE
  | .decl d => hasIEMarker d
  | .pi p => hasIEMarker p
  | .data s => hasIEMarker s
  | _ => false

theorem hasIEMarker_renderAttrs_eq (a : List Attr) (h : ∀ x ∈ a, AttrOK x) (rest : Str) :
    hasIEMarker (renderAttrs' a ++ rest) = (a.any attrIE || hasIEMarker rest) := by
  induction a with
  | nil => simp [renderAttrs']
  | cons x a ih =>
    have iha := ih (fun y hy => h y (List.mem_cons_of_mem _ hy))
    obtain ⟨n, v⟩ := x
    have hx := h (n, v) List.mem_cons_self
    have hn : NameOK n := by cases v <;> simp [AttrOK] at hx <;> first | exact hx | exact hx.1
    have hnlt : ∀ c ∈ n, c ≠ '<' := fun c hc => ne_lt_of_attrCh c (hn.2.1 c hc)
    have bare : hasIEMarker (' ' :: n ++ renderAttrs' a ++ rest) = (a.any attrIE || hasIEMarker rest) := by
      rw [List.cons_append, List.cons_append, hasIEMarker_cons_ne ' ' _ (by decide), List.append_assoc,
        hasIEMarker_append_no_lt _ n hnlt, iha]
    cases v with
    | none =>
      have e0 : attrIE (n, none) = false := rfl
      rw [List.any_cons, e0, Bool.false_or]
      simpa [renderAttrs', renderAttr] using bare
    | some v =>
      by_cases hb : v = [] ∧ n ∈ binaryAttrs
      · have e0 : attrIE (n, some v) = false := by rw [hb.1]; rfl
        rw [List.any_cons, e0, Bool.false_or]
        simpa [renderAttrs', renderAttr, hb] using bare
      · have e : renderAttrs' ((n, some v) :: a) ++ rest
            = ' ' :: (n ++ ('=' :: '"' :: (escQ v ++ '"' :: (renderAttrs' a ++ rest)))) := by
          simp [renderAttrs', renderAttr, hb]
        have e0 : attrIE (n, some v) = hasIEMarker v := rfl
        rw [e, hasIEMarker_cons_ne ' ' _ (by decide), hasIEMarker_append_no_lt _ n hnlt,
          hasIEMarker_cons_ne '=' _ (by decide), hasIEMarker_cons_ne '"' _ (by decide),
          hasIEMarker_split '"' ieStop_quote (by decide), hasIEMarker_escQ, iha, List.any_cons, e0, Bool.or_assoc]

theorem hasIEMarker_tag_eq (n : Str) (a : List Attr) (sc : Bool) (hn : TagNameOK n) (h : ∀ x ∈ a, AttrOK x) :
    hasIEMarker (('<' :: n) ++ renderAttrs a ++ closer sc) = a.any attrIE := by
  obtain ⟨⟨c, cs, rfl, hca⟩, hall, _⟩ := hn
  have hnlt : ∀ d ∈ c :: cs, d ≠ '<' := fun d hd => ne_lt_of_tagCh d (hall d hd)
  rw [renderAttrs_eq]
  have e : ('<' :: (c :: cs)) ++ renderAttrs' a ++ closer sc = '<' :: c :: (cs ++ (renderAttrs' a ++ closer sc)) := by simp
  rw [e, hasIEMarker_lt_cons c _ (alpha_not_nlbl c hca)]
  have e2 : c :: (cs ++ (renderAttrs' a ++ closer sc)) = (c :: cs) ++ (renderAttrs' a ++ closer sc) := rfl
  rw [e2, hasIEMarker_append_no_lt _ _ hnlt, hasIEMarker_renderAttrs_eq a h]
  have : hasIEMarker (closer sc) = false := by cases sc <;> decide
  rw [this, Bool.or_false]

/-- a data token of the grammar outside raw text (a `<` / `&` singleton, or a run without `<` and `&`) contains
    no opener -/
theorem hasIEMarker_data_of_tokOK (s : Str) (h : TokOK (.data s)) : hasIEMarker s = false := by
  rcases h with rfl | rfl | ⟨_, hall⟩
  · decide
  · decide
  · exact hasIEMarker_no_lt s (fun hlt => (hall '<' hlt).1 rfl)

/-- **one token, exactly**: the rendering of a well-formed token contains the marker iff the token-level test
    says so -/
theorem tokIE_render (t : Token) (h : TokOK t) : hasIEMarker (renderTok t) = tokIE t := by
  cases t with
  | unknownDecl d => exact absurd h (by simp [TokOK])
  | data s => rfl
  | entity n =>
    show _ = false
    apply hasIEMarker_no_lt
    intro e
    simp [renderTok] at e
    exact ne_lt_of_entCh _ (h.2 _ e) rfl
  | charref n =>
    show _ = false
    apply hasIEMarker_no_lt
    intro e
    simp [renderTok] at e
    rcases h with ⟨_, hall⟩ | ⟨x, hs, rfl, hx, _, hall⟩
    · exact ne_lt_of_digit _ (hall _ e) rfl
    · rcases List.mem_cons.mp e with e | e
      · rcases hx with rfl | rfl <;> exact absurd e (by decide)
      · exact ne_lt_of_hex _ (hall _ e) rfl
  | end_ n =>
    show _ = false
    have e : renderTok (.end_ n) = '<' :: '/' :: (n ++ ['>']) := by simp [renderTok]
    rw [e, hasIEMarker_lt_cons '/' _ (by decide)]
    apply hasIEMarker_no_lt
    intro e
    simp at e
    exact ne_lt_of_tagCh _ (h.2.1 _ e) rfl
  | comment c => exact hasIEMarker_comment c h
  | decl d =>
    show _ = hasIEMarker d
    obtain ⟨hd, _⟩ := h
    obtain ⟨d0, d1, rfl⟩ : ∃ d0 d1, d = d0 :: d1 := by
      cases d with
      | nil => simp [lower] at hd
      | cons d0 d1 => exact ⟨d0, d1, rfl⟩
    have hd0 : d0 ≠ '-' := by
      intro e; subst e
      have := congrArg List.head? hd
      simp [lower, lowerChar] at this
    have e : renderTok (.decl (d0 :: d1)) = '<' :: '!' :: ((d0 :: d1) ++ '>' :: []) := by simp [renderTok]
    have h0 : (matchItems ieOpenerPat ('<' :: '!' :: ((d0 :: d1) ++ '>' :: []))).isSome = false := by
      unfold ieOpenerPat
      rw [List.cons_append, matchItems_one_isSome, matchItems_one_isSome, matchItems_one_isSome]
      simp [hd0]
    have hnil : hasIEMarker [] = false := rfl
    rw [e, hasIEMarker_cons, h0, hasIEMarker_cons_ne '!' _ (by decide),
      hasIEMarker_split '>' ieStop_gt (by decide), hnil, Bool.or_false, Bool.false_or]
  | pi p =>
    show _ = hasIEMarker p
    have e : renderTok (.pi p) = '<' :: '?' :: (p ++ '>' :: []) := by simp [renderTok]
    have hnil : hasIEMarker [] = false := rfl
    rw [e, hasIEMarker_lt_cons '?' _ (by decide), hasIEMarker_cons_ne '?' _ (by decide),
      hasIEMarker_split '>' ieStop_gt (by decide), hnil, Bool.or_false]
  | start n a =>
    have := hasIEMarker_tag_eq n a false h.1 h.2.2
    simpa [renderTok, closer, tokIE] using this
  | startend n a =>
    have := hasIEMarker_tag_eq n a true h.1 h.2
    simpa [renderTok, closer, tokIE] using this

theorem any_attrIE_false (a : List Attr) :
    a.any attrIE = false ↔ ∀ x ∈ a, ∀ v, x.2 = some v → hasIEMarker v = false := by
  rw [List.any_eq_false]
  constructor
  · intro h x hx v hv
    have := h x hx
    unfold attrIE at this
    rw [hv] at this
    simpa using this
  · intro h x hx
    unfold attrIE
    cases hv : x.2 with
    | none => simp
    | some v => simp [h x hx v hv]

/-- the readable condition is the test -/
theorem tokNoIE_iff (t : Token) : TokNoIE t ↔ tokIE t = false := by
  cases t <;> simp only [TokNoIE, tokIE, any_attrIE_false]

/-- **one token**: a well-formed token that meets the token-level condition renders without an opener -/
theorem tokNoIE_render (t : Token) (h : TokOK t) (hm : TokNoIE t) : hasIEMarker (renderTok t) = false := by
  rw [tokIE_render t h]
  exact (tokNoIE_iff t).mp hm

/-- on the grammar outside raw text the `.data` clause of `TokNoIE` / `tokIE` says nothing: it holds for every
    well-formed data token -/
theorem tokNoIE_data_of_tokOK (s : Str) (h : TokOK (.data s)) : TokNoIE (.data s) :=
  hasIEMarker_data_of_tokOK s h

theorem tokIE_data_of_tokOK (s : Str) (h : TokOK (.data s)) : tokIE (.data s) = false :=
  hasIEMarker_data_of_tokOK s h

/-- the two tokens of a raw-text element that `TokOK` does not describe (its start tag, its content): the
    rendering contains the marker iff the token-level test says so — an attribute value with the marker, or the
    marker in the raw text itself -/
theorem tokIE_render_raw (t : Token) (h : RawTok t) : hasIEMarker (renderTok t) = tokIE t := by
  cases t with
  | start n a =>
    have := hasIEMarker_tag_eq n a false (rawName_tagNameOK n h.1) h.2
    simpa [renderTok, closer, tokIE] using this
  | data s => rfl
  | _ => exact absurd h (by simp [RawTok])

/-- every token of a list in the serialiser's image (`ListOK.tokOK`) -/
theorem tokIE_render_any (t : Token) (h : TokOK t ∨ RawTok t) : hasIEMarker (renderTok t) = tokIE t := by
  rcases h with h | h
  · exact tokIE_render t h
  · exact tokIE_render_raw t h

theorem tokNoIE_render_any (t : Token) (h : TokOK t ∨ RawTok t) (hm : TokNoIE t) :
    hasIEMarker (renderTok t) = false := by
  rw [tokIE_render_any t h]
  exact (tokNoIE_iff t).mp hm

/-! ### token lists: no opener reaches across a token boundary -/

theorem renderTok_last (t : Token) (h : TokOK t) (hd : isData t = false) :
    ∃ y z, renderTok t = y ++ [z] ∧ (z = '>' ∨ z = ';') := by
  cases t with
  | data s => simp [isData] at hd
  | unknownDecl d => exact absurd h (by simp [TokOK])
  | start n a => exact ⟨('<' :: n) ++ renderAttrs a ++ [' '], '>', by simp [renderTok], Or.inl rfl⟩
  | startend n a => exact ⟨('<' :: n) ++ renderAttrs a ++ [' ', '/'], '>', by simp [renderTok], Or.inl rfl⟩
  | end_ n => exact ⟨'<' :: '/' :: n, '>', by simp [renderTok], Or.inl rfl⟩
  | entity n => exact ⟨'&' :: n, ';', by simp [renderTok], Or.inr rfl⟩
  | charref n => exact ⟨'&' :: '#' :: n, ';', by simp [renderTok], Or.inr rfl⟩
  | comment c => exact ⟨"<!--".toList ++ c ++ ['-', '-'], '>', by simp [renderTok], Or.inl rfl⟩
  | decl d => exact ⟨'<' :: '!' :: d, '>', by simp [renderTok], Or.inl rfl⟩
  | pi p => exact ⟨'<' :: '?' :: p, '>', by simp [renderTok], Or.inl rfl⟩

/-- one token in front of a text: openers are those of the token's rendering and those of the text -/
theorem hasIEMarker_render_step (t : Token) (h : TokOK t) (R : Str) (hf : Follows t R) :
    hasIEMarker (renderTok t ++ R) = (hasIEMarker (renderTok t) || hasIEMarker R) := by
  cases hd : isData t with
  | false =>
    obtain ⟨y, z, hy, hz⟩ := renderTok_last t h hd
    have hstop : IEStop z ∧ z ≠ '<' := by rcases hz with rfl | rfl <;> exact ⟨by decide, by decide⟩
    rw [hy, List.append_assoc, List.singleton_append, hasIEMarker_split z hstop.1 hstop.2,
      hasIEMarker_split z hstop.1 hstop.2]
    have hnil : hasIEMarker [] = false := rfl
    rw [hnil, Bool.or_false]
  | true =>
    cases t with
    | data s =>
      rcases h with rfl | rfl | ⟨hne, hall⟩
      · simp only [Follows, if_true] at hf
        obtain ⟨c, r, rfl, _, _, h3, _⟩ := hf
        show hasIEMarker ('<' :: c :: r) = _
        rw [hasIEMarker_lt_cons c r h3]
        have : hasIEMarker (renderTok (.data ['<'])) = false := by decide
        rw [this, Bool.false_or]
      · show hasIEMarker ('&' :: R) = _
        rw [hasIEMarker_cons_ne '&' R (by decide)]
        have : hasIEMarker (renderTok (.data ['&'])) = false := by decide
        rw [this, Bool.false_or]
      · have hnlt : ∀ c ∈ s, c ≠ '<' := fun c hc => (hall c hc).1
        show hasIEMarker (s ++ R) = (hasIEMarker s || hasIEMarker R)
        rw [hasIEMarker_append_no_lt R s hnlt, hasIEMarker_no_lt s (fun hlt => hnlt '<' hlt rfl), Bool.false_or]
    | _ => simp [isData] at hd

/-- in front of `>` and behind it: no opener reaches across -/
theorem hasIEMarker_gt_step (y R : Str) :
    hasIEMarker (y ++ '>' :: R) = (hasIEMarker (y ++ ['>']) || hasIEMarker R) := by
  rw [hasIEMarker_split '>' ieStop_gt (by decide) y R, hasIEMarker_split '>' ieStop_gt (by decide) y []]
  have hnil : hasIEMarker [] = false := rfl
  rw [hnil, Bool.or_false]

/-- a start tag (any name, any attributes) in front of a text -/
theorem hasIEMarker_start_step (n : Str) (a : List Attr) (R : Str) :
    hasIEMarker (renderTok (.start n a) ++ R) = (hasIEMarker (renderTok (.start n a)) || hasIEMarker R) := by
  have e : renderTok (.start n a) = (('<' :: n) ++ renderAttrs a ++ [' ']) ++ ['>'] := by simp [renderTok]
  rw [e, List.append_assoc _ ['>'] R, List.singleton_append, hasIEMarker_gt_step]

/-- an end tag (any name) in front of a text -/
theorem hasIEMarker_end_step (n : Str) (R : Str) :
    hasIEMarker (renderTok (.end_ n) ++ R) = (hasIEMarker (renderTok (.end_ n)) || hasIEMarker R) := by
  have e : renderTok (.end_ n) = ('<' :: '/' :: n) ++ ['>'] := by simp [renderTok]
  rw [e, List.append_assoc _ ['>'] R, List.singleton_append, hasIEMarker_gt_step]

/-- the content of a raw-text element — ANY text — in front of the element's end tag: the `<` of the end tag
    stops every opener that starts in the content (`IEStop '<'`), so the openers are those of the content, of
    the end tag and of what follows -/
theorem hasIEMarker_raw_step (raw n R : Str) :
    hasIEMarker (raw ++ (renderTok (.end_ n) ++ R))
      = (hasIEMarker raw || (hasIEMarker (renderTok (.end_ n)) || hasIEMarker R)) := by
  rw [← hasIEMarker_end_step]
  have e : renderTok (.end_ n) ++ R = '<' :: ('/' :: n ++ '>' :: R) := by simp [renderTok]
  rw [e, hasIEMarker_append_stop '<' ieStop_lt]

/-- **the rendering of a token list in the serialiser's image has an opener exactly when one of its tokens'
    renderings has one** (raw-text elements included: the content token's rendering is the raw text) -/
theorem hasIEMarker_renderToks (ts : List Token) (h : ListOK ts) :
    hasIEMarker (renderToks ts) = ts.any (fun t => hasIEMarker (renderTok t)) := by
  induction h with
  | nil => rfl
  | @cons t ts ht hf _ ih =>
    rw [renderToks, hasIEMarker_render_step t ht _ hf, ih, List.any_cons]
  | @raw n a raw ts _ _ _ _ _ ih =>
    show hasIEMarker (renderTok (.start n a) ++ (raw ++ (renderTok (.end_ n) ++ renderToks ts))) = _
    rw [hasIEMarker_start_step, hasIEMarker_raw_step, ih, List.any_cons, List.any_cons, List.any_cons]
    rfl
  | @rawEmpty n a ts _ _ _ ih =>
    show hasIEMarker (renderTok (.start n a) ++ (renderTok (.end_ n) ++ renderToks ts)) = _
    rw [hasIEMarker_start_step, hasIEMarker_end_step, ih, List.any_cons, List.any_cons]

/-- the same with the token-level test: the marker stands in the rendering iff some token has it (for the
    content of a raw-text element the test is "the raw text contains the marker") -/
theorem hasIEMarker_renderToks_tok (ts : List Token) (h : ListOK ts) :
    hasIEMarker (renderToks ts) = ts.any tokIE := by
  rw [hasIEMarker_renderToks ts h]
  have hall := h.tokOK
  clear h
  induction ts with
  | nil => rfl
  | cons t ts ih =>
    rw [List.any_cons, List.any_cons, tokIE_render_any t (hall t List.mem_cons_self),
      ih (fun x hx => hall x (List.mem_cons_of_mem _ hx))]

theorem renderToks_no_marker_of (ts : List Token) (h : ListOK ts) (hm : ∀ t ∈ ts, TokNoIE t) :
    hasIEMarker (renderToks ts) = false := by
  rw [hasIEMarker_renderToks ts h]
  apply List.any_eq_false.mpr
  intro t ht
  rw [tokNoIE_render_any t (h.tokOK t ht) (hm t ht)]
  simp

theorem parseText_renderToks (ts : List Token) (h : ListOK ts) (hm : ∀ t ∈ ts, TokNoIE t) :
    parseText (renderToks ts) = feedText (renderToks ts) := by
  unfold parseText
  rw [stripIE_of_no_marker _ (renderToks_no_marker_of ts h hm)]

/-! ### a conditional comment token -/

/-- a comment whose body starts with ws* `[` ws* `if` renders to an explicit opener and the rest of the body -/
theorem comment_cond_split (c : Str) (h : condStart c = true) :
    ∃ op body, IsIEOpener op ∧ renderTok (.comment c) = op ++ body ++ arrow ∧ (∀ x ∈ body, x ∈ c) := by
  unfold condStart at h
  cases hm : matchItems ieCondPat c with
  | none => rw [hm] at h; simp at h
  | some mr =>
    obtain ⟨m, r⟩ := mr
    obtain ⟨hM, hc⟩ := matchItems_sound _ _ _ _ hm
    unfold ieCondPat at hM
    cases hM with
    | star _ _ w1 m1 hw1 hM =>
    cases hM with
    | one _ _ c1 m2 hc1 hM =>
    cases hM with
    | star _ _ w2 m3 hw2 hM =>
    cases hM with
    | one _ _ c2 m4 hc2 hM =>
    cases hM with
    | one _ _ c3 m5 hc3 hM =>
    cases hM
    simp at hc1 hc2 hc3
    subst hc1 hc2 hc3
    refine ⟨"<!--".toList ++ w1 ++ '[' :: w2 ++ "if".toList, r, ⟨w1, w2, hw1, hw2, rfl⟩, ?_, ?_⟩
    · rw [hc]; simp [renderTok, arrow]
    · intro x hx; rw [hc]; exact List.mem_append_right _ hx

/-- **a conditional comment token is dropped from the text**: in front of and behind it renderings without
    the marker, its body on one line, no further `-->` on the rest of that line -/
theorem stripIE_comment_token (ts1 ts2 : List Token) (c : Str) (hc : condStart c = true) (hnl : '\n' ∉ c)
    (h1 : hasIEMarker (renderToks ts1) = false) (h2 : hasIEMarker (renderToks ts2) = false)
    (hline : hasArrow ((renderToks ts2).takeWhile (· ≠ '\n')) = false) :
    stripIE (renderToks (ts1 ++ .comment c :: ts2)) = addHtmlIfMissing (renderToks (ts1 ++ ts2)) := by
  obtain ⟨op, body, hop, hr, hb⟩ := comment_cond_split c hc
  have hbody : '\n' ∉ body := fun hn => hnl (hb _ hn)
  rw [renderToks_append, renderToks_append, renderToks, hr, ← List.append_assoc]
  unfold stripIE
  rw [ieFindAll_single _ op body _ hop hbody h1 h2 hline]
  simp only [List.isEmpty_cons, Bool.false_eq_true, if_false, List.foldl_cons, List.foldl_nil]
  rw [removeAll_single _ op body _ hop h1 h2]

/-! ### size: stripping removes text and adds at most `<html>` -/

theorem addStartTagStr_length (s tag : Str) : (addStartTagStr s tag).length = s.length + tag.length := by
  unfold addStartTagStr
  cases h : doctypePrefix s with
  | none => simp; omega
  | some pr =>
    obtain ⟨p, rest⟩ := pr
    obtain ⟨_, _, _, _, _, _, _, _, hs⟩ := split_of_doctypePrefix s p rest h
    rw [hs]; simp; omega

theorem removeAux_length_le (m : Str) : ∀ (s : Str) (k : Nat), (removeAux m k s).length ≤ s.length := by
  intro s
  induction s with
  | nil => intro k; cases k <;> simp [removeAux]
  | cons c cs ih =>
    intro k
    cases k with
    | succ k => have := ih k; simp only [removeAux, List.length_cons]; omega
    | zero =>
      rw [removeAux_zero_cons]
      split
      · have := ih (m.length - 1); simp only [List.length_cons]; omega
      · have := ih 0; simp only [List.length_cons]; omega

theorem removeAll_length_le (m s : Str) : (removeAll m s).length ≤ s.length := by
  unfold removeAll
  split
  · exact Nat.le_refl _
  · exact removeAux_length_le m s 0

theorem foldl_removeAll_length_le (ms : List Str) : ∀ s : Str,
    (ms.foldl (fun acc m => removeAll m acc) s).length ≤ s.length := by
  induction ms with
  | nil => intro s; exact Nat.le_refl _
  | cons m ms ih =>
    intro s
    exact Nat.le_trans (ih (removeAll m s)) (removeAll_length_le m s)

theorem stripIE_length (s : Str) : (stripIE s).length ≤ s.length + 6 := by
  unfold stripIE
  simp only
  split
  · omega
  · unfold addHtmlIfMissing
    have := foldl_removeAll_length_le (ieFindAll s) s
    split
    · rw [addStartTagStr_length]
      have : htmlStartTag.length = 6 := rfl
      omega
    · omega

end AHP
