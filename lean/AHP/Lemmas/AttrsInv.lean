/-
  AHP.Lemmas.AttrsInv — `DictInv` is established by construction and preserved by every operation and by every
  synchronising reader.
-/
import AHP.Lemmas.Attrs
namespace AHP.Attrs
open AHP

/-! #### primitive updates -/

theorem dictInv_of_dict_eq {e e' : El} (hd : e'.dict = e.dict) (hs : e'.sty = e.sty) (h : DictInv e) : DictInv e' :=
  ⟨by rw [hd]; exact h.nodup, by rw [hd]; exact h.slots, by rw [hd, hs]; exact h.style⟩

/-- writing an ordinary value under a valid lower-case key other than `class` / `style` -/
theorem dictInv_setVal {e : El} (h : DictInv e) {k : Str} (v : Option Str) (hv : validName k = true)
    (hl : lower k = k) (hc : k ≠ classK) (hs : k ≠ styleK) :
    DictInv { e with dict := aset k (Slot.val v) e.dict } := by
  refine ⟨nodup_aset _ _ h.nodup, ?_, ?_⟩
  · intro p hp
    rcases mem_aset hp with hp | hp
    · subst hp; exact ⟨hv, hl, hc, hs⟩
    · exact h.slots p hp
  · show ahas styleK (aset k _ e.dict) = _
    rw [ahas_aset_ne (Ne.symm hs)]; exact h.style

/-- deleting a key other than `style` -/
theorem dictInv_delKey {e : El} (h : DictInv e) {k : Str} (hs : k ≠ styleK) :
    DictInv { e with dict := adel k e.dict } := by
  refine ⟨nodup_adel _ h.nodup, ?_, ?_⟩
  · intro p hp; exact h.slots p (mem_adel.mp hp).1
  · show ahas styleK (adel k e.dict) = _
    rw [ahas_adel_ne (Ne.symm hs)]; exact h.style

/-- `_ensureHtmlAttribute` after any change of the style map re-establishes the invariant -/
theorem dictInv_ensureStyle {e : El} (h : DictInv e) (m : AL Str) : DictInv (ensureStyle { e with sty := m }) := by
  unfold ensureStyle
  split
  · next hm =>
    refine ⟨nodup_adel _ h.nodup, ?_, ?_⟩
    · intro p hp; exact h.slots p (mem_adel.mp hp).1
    · show ahas styleK (adel styleK e.dict) = !m.isEmpty
      rw [ahas_adel_same]; simp at hm; simp [hm]
  · next hm =>
    refine ⟨nodup_aset _ _ h.nodup, ?_, ?_⟩
    · intro p hp
      rcases mem_aset hp with hp | hp
      · subst hp; exact ⟨validName_styleK, lower_styleK, rfl⟩
      · exact h.slots p hp
    · show ahas styleK (aset styleK _ e.dict) = !m.isEmpty
      rw [ahas_aset_same]; simp at hm; simp [hm]

theorem dictInv_ensureStyle_self {e : El} (h : DictInv e) : DictInv (ensureStyle e) :=
  dictInv_ensureStyle h e.sty

theorem dictInv_cls {e : El} (h : DictInv e) (c : List Str) : DictInv { e with cls := c } :=
  dictInv_of_dict_eq (e := e) (e' := { e with cls := c }) rfl rfl h

/-- `_handleClassAttr` -/
theorem dictInv_handleClassAttr {e : El} (h : DictInv e) : DictInv (handleClassAttr e) := by
  unfold handleClassAttr
  simp only
  -- first the class key
  have h1 : DictInv { e with dict := if e.cls.isEmpty then adel classK e.dict else aset classK (Slot.cls e.className) e.dict } := by
    split
    · exact dictInv_delKey h classK_ne_styleK
    · refine ⟨nodup_aset _ _ h.nodup, ?_, ?_⟩
      · intro p hp
        rcases mem_aset hp with hp | hp
        · subst hp; exact ⟨validName_classK, lower_classK, rfl⟩
        · exact h.slots p hp
      · show ahas styleK (aset classK _ e.dict) = _
        rw [ahas_aset_ne styleK_ne_classK]; exact h.style
  -- then the style key: the same update as `ensureStyle`
  have h2 := dictInv_ensureStyle h1 e.sty
  unfold ensureStyle at h2
  split
  · next hm => simp only [hm, if_true] at h2; exact h2
  · next hm => simp only [hm] at h2; exact h2

/-! #### the writers -/

theorem dictInv_setClassName (v : Option Str) {e : El} (h : DictInv e) : DictInv (setClassName v e) :=
  dictInv_cls h _

theorem dictInv_assignStyle (v : Option Str) {e : El} (h : DictInv e) : DictInv (assignStyle v e) :=
  dictInv_ensureStyle h _

theorem dictInv_assignStyleFrom (m : AL Str) {e : El} (h : DictInv e) : DictInv (assignStyleFrom m e) := by
  unfold assignStyleFrom
  exact dictInv_assignStyle _ h

theorem dictInv_styleDotSet (n : Str) (v : Option Str) {e : El} (h : DictInv e) : DictInv (styleDotSet n v e) :=
  dictInv_ensureStyle h _

theorem dictInv_setProperty (n : Str) (v : Option Str) {e : El} (h : DictInv e) : DictInv (setProperty n v e) :=
  dictInv_ensureStyle h _

theorem dictInv_setStyles : ∀ (l : List (Str × Option Str)) {e : El}, DictInv e → DictInv (setStyles l e)
  | [], _, h => h
  | p :: l, e, h => by
    unfold setStyles
    simp only [List.foldl_cons]
    have := dictInv_setStyles l (dictInv_styleDotSet p.1 p.2 h)
    unfold setStyles at this
    exact this

theorem dictInv_mapSet (T : Tables) (k : Str) (v : Option Str) {e : El} (h : DictInv e) : DictInv (mapSet T k v e).2 := by
  unfold mapSet
  simp only
  split
  · exact h
  · next hv =>
    split
    · dsimp only
      exact dictInv_assignStyleFrom (styleToDict (v.getD [])) h
    · next hs =>
      split
      · exact dictInv_setClassName v h
      · next hc =>
        have hv' : validName (lower k) = true := by
          cases hvn : validName (lower k) with
          | true => rfl
          | false => rw [hvn] at hv; exact absurd rfl hv
        exact dictInv_setVal (k := lower k) h (if T.binStr.contains (lower k) then some (boolString v) else v) hv'
          (lower_idem k) hc hs

theorem dictInv_mapDel (k : Str) {e : El} (h : DictInv e) : DictInv (mapDel k e) := by
  unfold mapDel
  simp only
  split
  · exact dictInv_assignStyle (some []) h
  · next hs =>
    split
    · exact dictInv_setClassName (some []) h
    · exact dictInv_delKey h hs

theorem dictInv_setAttribute (T : Tables) (n : Str) (v : Option Str) {e : El} (h : DictInv e) :
    DictInv (setAttribute T n v e).2 := by
  unfold setAttribute
  split
  · exact h
  · exact dictInv_mapSet T n v h

theorem dictInv_setAttributes (T : Tables) : ∀ (l : List (Str × Option Str)) {e : El}, DictInv e →
    DictInv (setAttributes T l e).2
  | [], _, h => h
  | (n, v) :: r, e, h => by
    unfold setAttributes
    have h1 := dictInv_setAttribute T n v h
    split
    · next e' heq => rw [heq] at h1; exact dictInv_setAttributes T r h1
    · next o e' _ heq => rw [heq] at h1; exact h1

theorem dictInv_dotSet (T : Tables) (n : Str) (v : DotVal) {e : El} (h : DictInv e) : DictInv (dotSet T n v e).2 := by
  unfold dotSet
  split
  · exact dictInv_setClassName _ h
  · split
    · exact h
    · next L _ =>
      split
      · exact h
      · split
        · have h1 := dictInv_setAttribute T L.attr (some v.boolString) h
          split
          · next e' heq =>
            rw [heq] at h1
            dsimp only
            rcases getAttribute_snd T L.attr PyVal.none e' with hg | hg <;> rw [hg]
            · exact h1
            · exact dictInv_handleClassAttr h1
          · next r hne => exact h1
        · split
          · split
            · exact dictInv_setAttribute _ _ _ h
            · exact dictInv_mapDel _ h
          · exact dictInv_setAttribute _ _ _ h

theorem dictInv_step (T : Tables) (op : Op) {e : El} (h : DictInv e) : DictInv (step T e op).2 := by
  cases op <;> dsimp only [step]
  case setAttr n v => exact dictInv_setAttribute T n v h
  case setAttrs l => exact dictInv_setAttributes T l h
  case rmAttr n => exact dictInv_mapDel _ h
  case mapSet n v => exact dictInv_mapSet T n v h
  case mapDel n => exact dictInv_mapDel n h
  case dot n v => exact dictInv_dotSet T n v h
  case addClass s => exact dictInv_cls h _
  case rmClass s => exact dictInv_cls h _
  case className v => exact dictInv_setClassName v h
  case styDot n v => exact dictInv_styleDotSet n v h
  case styProp n v => exact dictInv_setProperty n v h
  case setStyle n v => exact dictInv_styleDotSet n v h
  case setStyles l => exact dictInv_setStyles l h
  case styAssign v => exact dictInv_assignStyle v h
  case styCopy src => exact dictInv_assignStyleFrom _ h
  case stySelf => exact dictInv_ensureStyle_self h
  case sync => exact dictInv_handleClassAttr h

theorem dictInv_run (T : Tables) : ∀ (ops : List Op) {e : El}, DictInv e → DictInv (run T e ops)
  | [], _, h => h
  | op :: ops, e, h => by
    unfold run
    simp only [List.foldl_cons]
    exact dictInv_run T ops (dictInv_step T op h)

theorem dictInv_empty (tag : Str) (sc : Bool) : DictInv (El.empty tag sc) :=
  ⟨by simp [El.empty, akeys], by intro p hp; simp [El.empty] at hp, by simp [El.empty, ahas, aget]⟩

theorem dictInv_initStep (T : Tables) (p : Str × Option Str) {e : El} (h : DictInv e) : DictInv (initStep T e p) := by
  unfold initStep
  simp only
  split
  · exact dictInv_mapSet _ _ _ h
  · exact h

theorem dictInv_foldl_initStep (T : Tables) : ∀ (l : List (Str × Option Str)) {e : El}, DictInv e →
    DictInv (l.foldl (initStep T) e)
  | [], _, h => h
  | p :: l, e, h => by
    simp only [List.foldl_cons]
    exact dictInv_foldl_initStep T l (dictInv_initStep T p h)

theorem dictInv_mk (T : Tables) (tag : Str) (sc : Bool) (attrs : List (Str × Option Str)) : DictInv (mk T tag sc attrs) :=
  dictInv_foldl_initStep T attrs (dictInv_empty tag sc)

end AHP.Attrs
