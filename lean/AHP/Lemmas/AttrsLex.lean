/-
  AHP.Lemmas.AttrsLex — C08d at STRING level: the rendered start tag of an element of the attribute-store model
  (`AHP.Attrs.startTag`, a string), followed by its end tag, is read by the strict lexer of C01
  (`lexStrict`, Model/Lexer.lean — the model of the stdlib tokenizer that the correspondence check ties to the real
  one) as ONE start tag (ONE self-closing tag) whose attribute list is `AHP.Attrs.readBack (startTagItems e)`.

  So `readBack` — which C08d / C09d / C10c use as "the attributes obtained by re-parsing the start tag" — is PROVED to
  be what the tokenizer model reads from the string, not defined to be.

  Side condition: C01's `ValueOK` on every listed value (every `&` is followed by a character that cannot start a
  reference, or ends the value).  It is weaker than the `'&' ∉ s` under which C08d–C10c identify the read-back value
  with the written one: `valueOK_of_no_amp`, and `unescQ_escQ_ok` extends `unescQ (escQ s) = s` to `ValueOK s`.
  Outside `ValueOK` (`a&amp;b`, `x&#65;`) the tokenizer resolves the reference — C01's domain, not a defect here.
-/
import AHP.Lemmas.AttrStoresRender
import AHP.Lemmas.LexRoundTrip
import AHP.Lemmas.AttrsWriteRead
namespace AHP.AttrStores
open AHP

/-! #### `ValueOK` and the structural un-escaping of the attribute-store model -/

theorem valueOK_of_no_amp : ∀ {s : Str}, '&' ∉ s → ValueOK s
  | [], _ => trivial
  | [_], _ => trivial
  | c :: d :: r, h => by
    refine ⟨fun hc => absurd (by simp [hc]) h, valueOK_of_no_amp (fun m => h (List.mem_cons_of_mem _ m))⟩

theorem valueOK_tail {c : Char} {r : Str} (h : ValueOK (c :: r)) : ValueOK r := by
  cases r with
  | nil => trivial
  | cons d r' => exact h.2

theorem unescQ_amp_of_ne {e : Char} (h : e ≠ 'q') (r : Str) :
    Attrs.unescQ ('&' :: e :: r) = '&' :: Attrs.unescQ (e :: r) := by
  rw [Attrs.unescQ]
  intro r' _ h2
  exact h (List.cons.inj h2).1

theorem unescQ_amp_nil : Attrs.unescQ ['&'] = ['&'] := by decide

theorem replaceQuote_head_ne_q (d : Char) (r : Str) (hd : isAlpha d = false) :
    ∃ e r', Attrs.replaceQuote (d :: r) = e :: r' ∧ e ≠ 'q' := by
  unfold Attrs.replaceQuote
  split
  · exact ⟨'&', _, rfl, by decide⟩
  · refine ⟨d, _, rfl, ?_⟩
    intro e
    rw [e] at hd
    revert hd
    decide

/-- `&quot;` written by `escapeQuotes` reads back as `"` and nothing else changes — for every value C01 admits -/
theorem unescQ_escQ_ok : ∀ {v : Str}, ValueOK v → Attrs.unescQ (Attrs.escQ v) = v
  | [], _ => by decide
  | c :: r, h => by
    have ih := unescQ_escQ_ok (valueOK_tail h)
    unfold Attrs.escQ at ih ⊢
    by_cases hq : c = '"'
    · subst hq
      have : Attrs.replaceQuote ('"' :: r) = '&' :: 'q' :: 'u' :: 'o' :: 't' :: ';' :: Attrs.replaceQuote r := by
        simp [Attrs.replaceQuote]
      rw [this, Attrs.unescQ, ih]
    · have he : Attrs.replaceQuote (c :: r) = c :: Attrs.replaceQuote r := by simp [Attrs.replaceQuote, hq]
      rw [he]
      by_cases ha : c = '&'
      · subst ha
        cases r with
        | nil => decide
        | cons d r' =>
          have hd := (h.1 rfl).1
          obtain ⟨e, r'', her, hne⟩ := replaceQuote_head_ne_q d r' hd
          rw [her, unescQ_amp_of_ne hne, ← her, ih]
      · rw [Attrs.unescQ_cons_of_ne ha, ih]

/-! #### names the store accepts are names the lexer reads -/

theorem nameChar_attrCh (c : Char) (h : Attrs.nameChar c = true) : isAttrCh c = true := by
  have key : ∀ n : Nat, n < 128 → Attrs.nameChar (Char.ofNat n) = true → isAttrCh (Char.ofNat n) = true := by decide
  have hlt : c.toNat < 128 := by
    simp only [Attrs.nameChar, Attrs.isAlpha, Attrs.isDigit, Bool.or_eq_true, Bool.and_eq_true, decide_eq_true_eq] at h
    rcases h with ((h | h) | h) | h
    · rcases h with h | h
      · have : c.toNat ≤ 'z'.toNat := h.2
        have e : 'z'.toNat = 122 := by decide
        omega
      · have : c.toNat ≤ 'Z'.toNat := h.2
        have e : 'Z'.toNat = 90 := by decide
        omega
    · have : c.toNat ≤ '9'.toNat := h.2
      have e : '9'.toNat = 57 := by decide
      omega
    · subst h; decide
    · subst h; decide
  have := key c.toNat hlt
  rw [Char.ofNat_toNat] at this
  exact this h

theorem nameOK_of_valid {k : Str} (hv : Attrs.validName k = true) (hl : lower k = k) : NameOK k := by
  cases k with
  | nil => simp [Attrs.validName] at hv
  | cons c r =>
    refine ⟨by simp, ?_, hl⟩
    have hall : (c :: r).all Attrs.nameChar = true := by
      simp only [Attrs.validName, Bool.and_eq_true] at hv
      exact hv.2
    intro x hx
    exact nameChar_attrCh x (List.all_eq_true.mp hall x hx)

/-! #### one rendered attribute -/

/-- what the tokenizer reads back for a listed entry: nothing for a value-less attribute and for a boolean attribute
    with an empty value (both render as the bare name), else the value -/
def lexedVal (k : Str) (v : Option Str) : Option Str :=
  match v with
  | none => none
  | some x => if x.isEmpty && binaryAttrs.contains k then none else some x

theorem renderAttr_lexedVal (k : Str) (v : Option Str) : renderAttr (k, lexedVal k v) = renderAttr (k, v) := by
  cases v with
  | none => rfl
  | some x =>
    unfold lexedVal
    simp only
    cases hb : (x.isEmpty && binaryAttrs.contains k) with
    | true =>
      simp only [if_true, renderAttr, hb]
    | false => simp

theorem attrOK_lexedVal {k : Str} {v : Option Str} (hk : NameOK k) (hv : ∀ s, v = some s → ValueOK s) :
    AttrOK (k, lexedVal k v) := by
  cases v with
  | none => exact hk
  | some x =>
    unfold lexedVal
    simp only
    cases hb : (x.isEmpty && binaryAttrs.contains k) with
    | true => exact hk
    | false =>
      refine ⟨hk, hv x rfl, ?_⟩
      intro h
      rw [h.1, h.2] at hb
      cases hb

/-- `readBack` of one rendered slot is what the tokenizer reads -/
theorem readBackVal_slot {T : Attrs.Tables} (hT : BinaryOK T) (e : Attrs.El) (k : Str) (s : Attrs.Slot)
    (hv : ∀ x, slotStr e.sty s = some x → ValueOK x) :
    Attrs.readBackVal T k (Attrs.slotVal e s) = lexedVal k (slotStr e.sty s) := by
  have key : ∀ (x : Str) (pv : Attrs.PyVal), pv ≠ .none → pv.tostrOpt = some x →
      (if pv.falsy then ([] : Str) else x) = x → ValueOK x →
      Attrs.readBackVal T k pv = lexedVal k (some x) := by
    intro x pv hn hs hf hok
    have hr : Attrs.renderItem T (k, pv) =
        (let s := if pv.falsy then [] else (pv.tostrOpt).getD []
         if !s.isEmpty || !T.binary.contains k then Attrs.RItem.quoted k (Attrs.escQ s) else .bare k) := by
      cases pv with
      | none => exact absurd rfl hn
      | str _ => rfl
      | bool _ => rfl
      | style _ => rfl
    unfold Attrs.readBackVal lexedVal
    rw [hr, hs, hT]
    simp only [Option.getD_some, hf]
    cases hx : x.isEmpty <;> cases hb : binaryAttrs.contains k <;> simp [unescQ_escQ_ok hok]
  cases s with
  | val v =>
    cases v with
    | none => rfl
    | some x => exact key x (.str x) (by simp) rfl (falsy_str x) (hv x rfl)
  | cls x => exact key x (.str x) (by simp) rfl (falsy_str x) (hv x rfl)
  | sty => exact key (Attrs.asStr e.sty) (.style (Attrs.asStr e.sty)) (by simp) rfl rfl (hv _ rfl)

/-! #### the whole start tag -/

theorem viewList_eq_attrsList (e : Attrs.El) : Attrs.viewList e = (Attrs.attrsList e).1 := rfl

/-- the attribute list read back from the rendered items = the listing, each value as the tokenizer reads it -/
theorem readBack_eq_lexed {T : Attrs.Tables} (hT : BinaryOK T) (e : Attrs.El)
    (hv : ∀ p ∈ Attrs.viewList e, ∀ s, p.2 = some s → ValueOK s) :
    Attrs.readBack (Attrs.startTagItems T e).1 = (Attrs.viewList e).map (fun p => (p.1, lexedVal p.1 p.2)) := by
  rw [Attrs.startTagItems_fst, Attrs.readBack_map, viewList_eq_attrsList, attrsList_eq_map, Attrs.items_fst,
      List.map_map, List.map_map]
  apply List.map_congr_left
  intro p hp
  simp only [Function.comp]
  congr 1
  apply readBackVal_slot hT
  intro x hx
  apply hv (p.1, slotStr (Attrs.handleClassAttr e).sty p.2) ?_ x hx
  rw [viewList_eq_attrsList, attrsList_eq_map]
  exact List.mem_map.mpr ⟨p, hp, rfl⟩

theorem attrsStr_eq_renderAttrs' (as : List Attr) : attrsStr (as.map renderAttr) = renderAttrs as := (renderAttrs_eq as).symm

/-- the rendered start tag is the serialiser's rendering of the token whose attributes are `readBack …` -/
theorem startTag_eq_renderTok {T : Attrs.Tables} (hT : BinaryOK T) (e : Attrs.El)
    (hv : ∀ p ∈ Attrs.viewList e, ∀ s, p.2 = some s → ValueOK s) :
    (Attrs.startTag T e).1 =
      renderTok (if e.sc then Token.startend e.tag (Attrs.readBack (Attrs.startTagItems T e).1)
                 else Token.start e.tag (Attrs.readBack (Attrs.startTagItems T e).1)) := by
  have e1 : (Attrs.startTag T e).1 = Attrs.renderStart e.tag e.sc (Attrs.startTagItems T e).1 := rfl
  have hmap : (Attrs.readBack (Attrs.startTagItems T e).1).map renderAttr = (Attrs.attrsList e).1.map renderAttr := by
    rw [readBack_eq_lexed hT e hv, viewList_eq_attrsList, List.map_map]
    apply List.map_congr_left
    intro p _
    exact renderAttr_lexedVal p.1 p.2
  rw [e1, renderStart_eq, startTagItems_render hT, ← hmap, attrsStr_eq_renderAttrs']
  cases e.sc <;> simp [renderTok]

/-- every attribute of the token is well formed for the lexer -/
theorem readBack_attrOK {T : Attrs.Tables} (hT : BinaryOK T) {e : Attrs.El} (h : Attrs.DictInv e)
    (hv : ∀ p ∈ Attrs.viewList e, ∀ s, p.2 = some s → ValueOK s) :
    ∀ a ∈ Attrs.readBack (Attrs.startTagItems T e).1, AttrOK a := by
  rw [readBack_eq_lexed hT e hv]
  intro a ha
  obtain ⟨p, hp, rfl⟩ := List.mem_map.mp ha
  have hk : p.1 ∈ Attrs.akeys (Attrs.handleClassAttr e).dict := by
    rw [← Attrs.akeys_viewList]
    exact List.mem_map.mpr ⟨p, hp, rfl⟩
  obtain ⟨q, hq, hqe⟩ := List.mem_map.mp hk
  have hs := (Attrs.dictInv_handleClassAttr h).slots q hq
  have hs1 : Attrs.validName p.1 = true := hqe ▸ hs.1
  have hs2 : lower p.1 = p.1 := hqe ▸ hs.2.1
  exact attrOK_lexedVal (nameOK_of_valid hs1 hs2) (hv p hp)

/-- **C08d at string level.**  The strict lexer reads the rendered start tag (with the end tag the serialiser puts
    after it: none for a self-closing element) as one tag token carrying exactly `readBack (startTagItems e)`. -/
theorem lexStrict_startTag {T : Attrs.Tables} (hT : BinaryOK T) {e : Attrs.El} (h : Attrs.DictInv e)
    (htag : TagNameOK e.tag) (hv : ∀ p ∈ Attrs.viewList e, ∀ s, p.2 = some s → ValueOK s) :
    lexStrict ((Attrs.startTag T e).1 ++ endTag e.tag e.sc) =
      some (if e.sc then [Token.startend e.tag (Attrs.readBack (Attrs.startTagItems T e).1)]
            else [Token.start e.tag (Attrs.readBack (Attrs.startTagItems T e).1), Token.end_ e.tag]) := by
  have hA := readBack_attrOK hT h hv
  rw [startTag_eq_renderTok hT e hv]
  cases hsc : e.sc with
  | true =>
    simp only [if_true, endTag, List.append_nil]
    have hl : ListOK [Token.startend e.tag (Attrs.readBack (Attrs.startTagItems T e).1)] :=
      .cons ⟨htag, hA⟩ trivial .nil
    have := lexStrict_renderToks _ hl
    simpa [renderToks] using this
  | false =>
    simp only [Bool.false_eq_true, if_false, endTag]
    have hr : '<' :: '/' :: e.tag ++ ['>'] = renderTok (Token.end_ e.tag) := rfl
    rw [hr]
    by_cases hraw : isRawText e.tag = true
    · have hl : ListOK [Token.start e.tag (Attrs.readBack (Attrs.startTagItems T e).1), Token.end_ e.tag] :=
        .rawEmpty hraw hA .nil
      have := lexStrict_renderToks _ hl
      simpa [renderToks] using this
    · have hraw' : isRawText e.tag = false := by simpa using hraw
      have hl : ListOK [Token.start e.tag (Attrs.readBack (Attrs.startTagItems T e).1), Token.end_ e.tag] :=
        .cons ⟨htag, hraw', hA⟩ trivial (.cons htag trivial .nil)
      have := lexStrict_renderToks _ hl
      simpa [renderToks] using this

end AHP.AttrStores
