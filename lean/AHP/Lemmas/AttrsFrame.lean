/-
  AHP.Lemmas.AttrsFrame — frame lemmas: operations that do not address `class` leave `_classNames` alone, operations
  that do not address `style` leave the style map alone (the interleavings of C09 / C10 with other attribute edits).
-/
import AHP.Lemmas.AttrsStyleInv
import AHP.Lemmas.AttrsClass
namespace AHP.Attrs
open AHP

theorem mapDel_cls_ne {k : Str} (e : El) (h : lower k ≠ classK) : (mapDel k e).cls = e.cls := by
  unfold mapDel
  simp only
  split
  · exact assignStyle_cls _ _
  · rfl

theorem setAttribute_cls_ne (T : Tables) {k : Str} (v : Option Str) (e : El) (h : lower k ≠ classK) :
    (setAttribute T k v e).2.cls = e.cls := by
  unfold setAttribute
  split
  · rfl
  · exact mapSet_cls_ne T v e h

theorem setAttributes_cls_ne (T : Tables) : ∀ (l : List (Str × Option Str)) (e : El),
    (∀ p ∈ l, lower p.1 ≠ classK) → (setAttributes T l e).2.cls = e.cls
  | [], _, _ => rfl
  | (n, v) :: r, e, h => by
    unfold setAttributes
    have h1 := setAttribute_cls_ne T v e (h (n, v) (by simp))
    split
    · next e' heq =>
      rw [heq] at h1
      rw [setAttributes_cls_ne T r e' (fun p hp => h p (List.mem_cons_of_mem _ hp))]
      exact h1
    · next o e' _ heq => rw [heq] at h1; exact h1

theorem dotSet_cls_ne (T : Tables) {n : Str} (v : DotVal) (e : El) (hn : n ≠ classNameK)
    (hl : ∀ L, aget n T.links = some L → lower L.attr ≠ classK) : (dotSet T n v e).2.cls = e.cls := by
  unfold dotSet
  rw [if_neg hn]
  split
  · rfl
  · next L heq =>
    have hk := hl L heq
    split
    · rfl
    · split
      · have h1 := setAttribute_cls_ne T (some v.boolString) e hk
        split
        · next e' heq2 =>
          rw [heq2] at h1
          dsimp only
          rw [getAttribute_cls]
          exact h1
        · next r hne => exact h1
      · split
        · split
          · exact setAttribute_cls_ne T _ e hk
          · unfold removeAttribute
            exact mapDel_cls_ne e (by rw [lower_idem]; exact hk)
        · exact setAttribute_cls_ne T _ e hk

/-- the operation does not address the `class` attribute -/
def KeepsClass (T : Tables) : Op → Prop
  | .setAttr n _ => lower n ≠ classK
  | .setAttrs l => ∀ p ∈ l, lower p.1 ≠ classK
  | .rmAttr n => lower n ≠ classK
  | .mapSet n _ => lower n ≠ classK
  | .mapDel n => lower n ≠ classK
  | .dot n _ => n ≠ classNameK ∧ ∀ L, aget n T.links = some L → lower L.attr ≠ classK
  | .addClass _ => False
  | .rmClass _ => False
  | .className _ => False
  | _ => True

theorem step_cls_frame (T : Tables) (op : Op) (h : KeepsClass T op) (e : El) : (step T e op).2.cls = e.cls := by
  cases op <;> dsimp only [step]
  case setAttr n v => exact setAttribute_cls_ne T v e h
  case setAttrs l => exact setAttributes_cls_ne T l e h
  case rmAttr n => unfold removeAttribute; exact mapDel_cls_ne e (by rw [lower_idem]; exact h)
  case mapSet n v => exact mapSet_cls_ne T v e h
  case mapDel n => exact mapDel_cls_ne e h
  case dot n v => exact dotSet_cls_ne T v e h.1 h.2
  case addClass s => exact absurd h id
  case rmClass s => exact absurd h id
  case className v => exact absurd h id
  case styDot n v => exact styleDotSet_cls n v e
  case styProp n v => exact setProperty_cls n v e
  case setStyle n v => exact styleDotSet_cls n v e
  case setStyles l => exact setStyles_cls l e
  case styAssign v => exact assignStyle_cls v e
  case styCopy src => unfold assignStyleFrom; exact assignStyle_cls _ e
  case stySelf => exact ensureStyle_cls e
  case sync => rfl

/-! #### the style map -/

theorem mapDel_sty_ne {k : Str} (e : El) (h : lower k ≠ styleK) : (mapDel k e).sty = e.sty := by
  rw [mapDel_sty, if_neg h]

theorem setAttribute_sty_ne (T : Tables) {k : Str} (v : Option Str) (e : El) (h : lower k ≠ styleK) :
    (setAttribute T k v e).2.sty = e.sty := by
  unfold setAttribute
  split
  · rfl
  · exact mapSet_sty_ne T v e h

theorem setAttributes_sty_ne (T : Tables) : ∀ (l : List (Str × Option Str)) (e : El),
    (∀ p ∈ l, lower p.1 ≠ styleK) → (setAttributes T l e).2.sty = e.sty
  | [], _, _ => rfl
  | (n, v) :: r, e, h => by
    unfold setAttributes
    have h1 := setAttribute_sty_ne T v e (h (n, v) (by simp))
    split
    · next e' heq =>
      rw [heq] at h1
      rw [setAttributes_sty_ne T r e' (fun p hp => h p (List.mem_cons_of_mem _ hp))]
      exact h1
    · next o e' _ heq => rw [heq] at h1; exact h1

theorem dotSet_sty_ne (T : Tables) {n : Str} (v : DotVal) (e : El)
    (hl : ∀ L, aget n T.links = some L → lower L.attr ≠ styleK) : (dotSet T n v e).2.sty = e.sty := by
  unfold dotSet
  split
  · rfl
  · split
    · rfl
    · next L heq =>
      have hk := hl L heq
      split
      · rfl
      · split
        · have h1 := setAttribute_sty_ne T (some v.boolString) e hk
          split
          · next e' heq2 =>
            rw [heq2] at h1
            dsimp only
            rw [getAttribute_sty]
            exact h1
          · next r hne => exact h1
        · split
          · split
            · exact setAttribute_sty_ne T _ e hk
            · unfold removeAttribute
              exact mapDel_sty_ne e (by rw [lower_idem]; exact hk)
          · exact setAttribute_sty_ne T _ e hk

/-- the operation does not address the `style` attribute -/
def KeepsStyle (T : Tables) : Op → Prop
  | .setAttr n _ => lower n ≠ styleK
  | .setAttrs l => ∀ p ∈ l, lower p.1 ≠ styleK
  | .rmAttr n => lower n ≠ styleK
  | .mapSet n _ => lower n ≠ styleK
  | .mapDel n => lower n ≠ styleK
  | .dot n _ => ∀ L, aget n T.links = some L → lower L.attr ≠ styleK
  | .addClass _ => True
  | .rmClass _ => True
  | .className _ => True
  | .stySelf => True
  | .sync => True
  | _ => False

theorem step_sty_frame (T : Tables) (op : Op) (h : KeepsStyle T op) (e : El) : (step T e op).2.sty = e.sty := by
  cases op <;> dsimp only [step]
  case setAttr n v => exact setAttribute_sty_ne T v e h
  case setAttrs l => exact setAttributes_sty_ne T l e h
  case rmAttr n => unfold removeAttribute; exact mapDel_sty_ne e (by rw [lower_idem]; exact h)
  case mapSet n v => exact mapSet_sty_ne T v e h
  case mapDel n => exact mapDel_sty_ne e h
  case dot n v => exact dotSet_sty_ne T v e h
  case addClass s => rfl
  case rmClass s => rfl
  case className v => rfl
  case styDot n v => exact absurd h id
  case styProp n v => exact absurd h id
  case setStyle n v => exact absurd h id
  case setStyles l => exact absurd h id
  case styAssign v => exact absurd h id
  case styCopy src => exact absurd h id
  case stySelf => exact ensureStyle_sty e
  case sync => rfl

end AHP.Attrs
