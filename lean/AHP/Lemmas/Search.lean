/-
  Specification functions and helper lemmas for C06 (searches) — used by AHP/Props/C06.lean and C07.

  Specification side (independent of the scans in AHP/Model/Search.lean):
    `Node.preorder`   the document order
    `Node.desc`       the strict descendants of an element, in document order
    `fil p xs`        the elements of `xs` satisfying `p`, order kept
    `dedupN seen xs`  first occurrences (by uid) of `xs` not in `seen`, order kept
-/
import AHP.Model.Search
import AHP.Lemmas.Coll
namespace AHP.G3
mutual
def Node.preorder : Node → List Node
  | .mk e ks => .mk e ks :: preorderL ks
def preorderL : List Node → List Node
  | [] => []
  | k :: ks => k.preorder ++ preorderL ks
end

def Node.desc (n : Node) : List Node := preorderL n.kids

def fil (p : Elem → Bool) (xs : List Node) : List Node := xs.filter (fun n => p n.elem)

/-- The uids of a list of elements. -/
abbrev uidsOf (xs : List Node) : List Nat := xs.map Node.uid

/-- "ids are distinct" below (and including) an element. -/
def Node.Distinct (n : Node) : Prop := (uidsOf n.preorder).Nodup

theorem Node.preorder_eq (n : Node) : n.preorder = n :: n.desc := by
  cases n with
  | mk e ks => simp [Node.preorder, Node.desc, Node.kids]

theorem preorderL_eq_flatMap (ks : List Node) : preorderL ks = ks.flatMap Node.preorder := by
  induction ks with
  | nil => rfl
  | cons k ks ih => simp [preorderL, ih]

theorem fil_append (p : Elem → Bool) (xs ys : List Node) : fil p (xs ++ ys) = fil p xs ++ fil p ys := by
  simp [fil]

theorem fil_cons (p : Elem → Bool) (x : Node) (xs : List Node) :
    fil p (x :: xs) = (if p x.elem then [x] else []) ++ fil p xs := by
  by_cases h : p x.elem <;> simp [fil, h]

theorem fil_sublist (p : Elem → Bool) (xs : List Node) : (fil p xs).Sublist xs := List.filter_sublist

theorem fil_congr {p q : Elem → Bool} {xs : List Node} (h : ∀ n ∈ xs, p n.elem = q n.elem) : fil p xs = fil q xs :=
  List.filter_congr h

theorem uids_nodup_of_sublist {xs ys : List Node} (h : xs.Sublist ys) (hn : (uidsOf ys).Nodup) :
    (uidsOf xs).Nodup := (h.map Node.uid).nodup hn

theorem Node.Distinct.desc {n : Node} (h : n.Distinct) : (uidsOf n.desc).Nodup := by
  unfold Node.Distinct at h
  rw [Node.preorder_eq] at h
  exact (List.nodup_cons.mp h).2

theorem distinct_of_mem_preorderL {ks : List Node} (h : (uidsOf (preorderL ks)).Nodup) :
    ∀ k ∈ ks, k.Distinct := by
  induction ks with
  | nil => intro k hk; cases hk
  | cons k ks ih =>
    intro x hx
    simp only [preorderL, uidsOf, List.map_append] at h
    have h' := List.nodup_append.mp h
    rcases List.mem_cons.mp hx with rfl | hx
    · exact h'.1
    · exact ih h'.2.1 x hx

mutual
theorem preorder_sublist_of_mem : ∀ (n r : Node), r ∈ n.preorder → r.preorder.Sublist n.preorder
  | .mk e ks, r, hr => by
    simp only [Node.preorder, List.mem_cons] at hr
    rcases hr with rfl | hr
    · exact List.Sublist.refl _
    · simp only [Node.preorder]
      exact (preorderL_sublist_of_mem ks r hr).cons _
theorem preorderL_sublist_of_mem :
    ∀ (ks : List Node) (r : Node), r ∈ preorderL ks → r.preorder.Sublist (preorderL ks)
  | [], r, hr => by simp [preorderL] at hr
  | k :: ks, r, hr => by
    simp only [preorderL, List.mem_append] at hr ⊢
    rcases hr with hr | hr
    · exact (preorder_sublist_of_mem k r hr).trans (List.sublist_append_left _ _)
    · exact (preorderL_sublist_of_mem ks r hr).trans (List.sublist_append_right _ _)
end

/-! ### first occurrences by uid -/

def dedupN : List Nat → List Node → List Node
  | _, [] => []
  | seen, x :: xs => if x.uid ∈ seen then dedupN seen xs else x :: dedupN (x.uid :: seen) xs

theorem uidsOf_dedupN (seen : List Nat) (xs : List Node) :
    uidsOf (dedupN seen xs) = firstOcc seen (uidsOf xs) := by
  induction xs generalizing seen with
  | nil => rfl
  | cons x xs ih =>
    by_cases h : x.uid ∈ seen
    · simp only [dedupN, h, if_true, uidsOf, List.map_cons, firstOcc]
      exact ih seen
    · simp only [dedupN, h, if_false, uidsOf, List.map_cons, firstOcc]
      congr 1
      exact ih _

theorem dedupN_sublist (seen : List Nat) (xs : List Node) : (dedupN seen xs).Sublist xs := by
  induction xs generalizing seen with
  | nil => simp [dedupN]
  | cons x xs ih =>
    unfold dedupN
    split
    · exact (ih _).cons _
    · exact (ih _).cons_cons _

theorem dedupN_congr {s₁ s₂ : List Nat} (h : ∀ y, y ∈ s₁ ↔ y ∈ s₂) (xs : List Node) :
    dedupN s₁ xs = dedupN s₂ xs := by
  induction xs generalizing s₁ s₂ with
  | nil => rfl
  | cons x xs ih =>
    unfold dedupN
    by_cases hx : x.uid ∈ s₁
    · have hx2 : x.uid ∈ s₂ := (h _).mp hx
      simp only [hx, hx2, if_true]
      exact ih h
    · have hx2 : x.uid ∉ s₂ := fun c => hx ((h _).mpr c)
      simp only [hx, hx2, if_false]
      congr 1
      apply ih
      intro y
      simp only [List.mem_cons, h y]

theorem dedupN_of_nodup {seen : List Nat} {xs : List Node} (hn : (uidsOf xs).Nodup)
    (hd : ∀ x ∈ xs, x.uid ∉ seen) : dedupN seen xs = xs := by
  induction xs generalizing seen with
  | nil => rfl
  | cons x xs ih =>
    unfold dedupN
    have hx : x.uid ∉ seen := hd x List.mem_cons_self
    simp only [hx, if_false]
    congr 1
    simp only [uidsOf, List.map_cons] at hn
    have hn' := List.nodup_cons.mp hn
    apply ih hn'.2
    intro y hy hmem
    rcases List.mem_cons.mp hmem with e | hm
    · exact hn'.1 (e ▸ List.mem_map_of_mem hy)
    · exact hd y (List.mem_cons_of_mem _ hy) hm

theorem mem_dedupN_uid {seen : List Nat} {xs : List Node} {u : Nat} :
    u ∈ uidsOf (dedupN seen xs) ↔ u ∈ uidsOf xs ∧ u ∉ seen := by
  rw [uidsOf_dedupN]; exact mem_firstOcc

theorem nodup_dedupN (seen : List Nat) (xs : List Node) : (uidsOf (dedupN seen xs)).Nodup := by
  rw [uidsOf_dedupN]; exact nodup_firstOcc _ _

/-! ### TagCollection with payload refines `Coll` -/
namespace TC

def Inv (c : TC) : Prop := Coll.Inv c.toColl

theorem inv_empty : Inv empty := Coll.inv_empty

theorem toColl_append (c : TC) (x : Node) : (c.append x).toColl = c.toColl.append x.uid := by
  simp [append, toColl, Coll.append]

theorem hasTag_toColl (c : TC) (x : Node) : c.hasTag x = c.toColl.hasTag x.uid := rfl

theorem toColl_iadd (c : TC) (xs : List Node) : (c.iadd xs).toColl = c.toColl.iadd (uidsOf xs) := by
  induction xs generalizing c with
  | nil => rfl
  | cons x xs ih =>
    simp only [iadd, List.foldl_cons, uidsOf, List.map_cons, Coll.iadd]
    have := ih (if c.hasTag x then c else c.append x)
    simp only [iadd, Coll.iadd, uidsOf] at this
    rw [this]
    congr 1
    by_cases h : c.hasTag x
    · have h' : c.toColl.hasTag x.uid = true := by rw [← hasTag_toColl]; exact h
      simp [h, h']
    · have h' : c.toColl.hasTag x.uid = false := by rw [← hasTag_toColl]; simpa using h
      simp [h, h', toColl_append]

theorem toColl_ofList (xs : List Node) : (ofList xs).toColl = Coll.ofList (uidsOf xs) := by
  simp only [ofList, Coll.ofList]
  exact toColl_iadd empty xs

theorem iadd_append (c : TC) (xs ys : List Node) : c.iadd (xs ++ ys) = (c.iadd xs).iadd ys := by
  simp [iadd, List.foldl_append]

theorem hasTag_iff {c : TC} (h : Inv c) (x : Node) : c.hasTag x = true ↔ x.uid ∈ c.ids := by
  rw [hasTag_toColl]; exact Coll.hasTag_iff h x.uid

/-- `+=`: old items, then the operands that are new (by uid), first occurrence wins. -/
theorem iadd_spec {c : TC} (h : Inv c) (xs : List Node) :
    Inv (c.iadd xs) ∧ (c.iadd xs).items = c.items ++ dedupN c.ids xs := by
  induction xs generalizing c with
  | nil => simp [iadd, dedupN, h]
  | cons x xs ih =>
    simp only [iadd, List.foldl_cons]
    by_cases hx : x.uid ∈ c.ids
    · have ht : c.hasTag x = true := (hasTag_iff h x).mpr hx
      simp only [ht, if_true]
      have := ih h
      simp only [iadd] at this
      refine ⟨this.1, ?_⟩
      rw [this.2]
      simp [dedupN, hx]
    · have hf : c.hasTag x = false := by
        cases hc : c.hasTag x
        · rfl
        · exact absurd ((hasTag_iff h x).mp hc) hx
      simp only [hf, Bool.false_eq_true, if_false]
      have h' : Inv (c.append x) := by
        unfold Inv; rw [toColl_append]; exact Coll.append_inv h hx
      have := ih h'
      simp only [iadd] at this
      refine ⟨this.1, ?_⟩
      rw [this.2]
      simp only [dedupN, hx, if_false, append, List.append_assoc, List.cons_append, List.nil_append]
      congr 2
      apply dedupN_congr
      intro y
      simp only [ids, List.map_append, List.map_cons, List.map_nil, List.mem_append, List.mem_cons,
        List.mem_nil_iff, or_false]
      exact Or.comm

theorem ofList_spec (xs : List Node) : Inv (ofList xs) ∧ (ofList xs).items = dedupN [] xs := by
  have := iadd_spec inv_empty xs
  simpa [ofList, empty, ids] using this

/-- A list whose uids are distinct is unchanged by the `TagCollection` constructor. -/
theorem ofList_items_of_nodup {xs : List Node} (h : (uidsOf xs).Nodup) : (ofList xs).items = xs := by
  rw [(ofList_spec xs).2]
  exact dedupN_of_nodup h (by simp)

theorem ids_nodup {c : TC} (h : Inv c) : c.ids.Nodup := h.nodup

theorem append_inv {c : TC} (h : Inv c) {x : Node} (hx : x.uid ∉ c.ids) : Inv (c.append x) := by
  unfold Inv; rw [toColl_append]; exact Coll.append_inv h hx

end TC

/-! ### the recursive scans against the specification -/

mutual
theorem descScan_items (p : Elem → Bool) :
    ∀ n : Node, n.Distinct → (descScan p n).items = fil p n.desc
  | .mk e ks, h => by
    have hk : (uidsOf (preorderL ks)).Nodup := Node.Distinct.desc h
    simp only [descScan, Node.desc, Node.kids]
    rw [descScanL_eq p ks hk]
    exact TC.ofList_items_of_nodup (uids_nodup_of_sublist (fil_sublist _ _) hk)
theorem descScanL_eq (p : Elem → Bool) :
    ∀ ks : List Node, (uidsOf (preorderL ks)).Nodup → descScanL p ks = fil p (preorderL ks)
  | [], _ => rfl
  | k :: ks, h => by
    have h' : (uidsOf k.preorder ++ uidsOf (preorderL ks)).Nodup := by
      simpa [preorderL, uidsOf] using h
    have h2 := List.nodup_append.mp h'
    simp only [descScanL, preorderL]
    rw [descScan_items p k h2.1, descScanL_eq p ks h2.2.1, fil_append, Node.preorder_eq, fil_cons]
end

/-- The parser forms: the root's own test when `isFromRoot`, then the strict descendants. -/
theorem scanP_items (rp p : Elem → Bool) (isRoot : Bool) {n : Node} (h : n.Distinct) :
    (scanP rp p isRoot n).items = (if isRoot && rp n.elem then [n] else []) ++ fil p n.desc := by
  have hk := Node.Distinct.desc h
  simp only [scanP]
  rw [show descScanL p n.kids = fil p n.desc from descScanL_eq p n.kids hk]
  apply TC.ofList_items_of_nodup
  have hs : ((if isRoot && rp n.elem then [n] else []) ++ fil p n.desc).Sublist n.preorder := by
    rw [Node.preorder_eq]
    split
    · exact (fil_sublist p n.desc).cons_cons n
    · exact (fil_sublist p n.desc).cons n
  exact uids_nodup_of_sublist hs h

theorem scanP_root (p : Elem → Bool) {n : Node} (h : n.Distinct) :
    (scanP p p true n).items = fil p n.preorder := by
  rw [scanP_items p p true h, Node.preorder_eq, fil_cons]; simp

mutual
theorem descFirst_eq (p : Elem → Bool) : ∀ n : Node, descFirst p n = (fil p n.desc).head?
  | .mk e ks => by
    simp only [descFirst, Node.desc, Node.kids]
    exact descFirstL_eq p ks
theorem descFirstL_eq (p : Elem → Bool) : ∀ ks : List Node, descFirstL p ks = (fil p (preorderL ks)).head?
  | [] => rfl
  | k :: ks => by
    simp only [descFirstL, preorderL]
    rw [fil_append, Node.preorder_eq, fil_cons, descFirst_eq p k, descFirstL_eq p ks]
    by_cases hk : p k.elem
    · simp [hk]
    · simp only [hk, Bool.false_eq_true, if_false, List.nil_append]
      cases hd : fil p k.desc with
      | nil => simp
      | cons a as => simp
end

theorem firstP_eq (rp p : Elem → Bool) (isRoot : Bool) (n : Node) :
    firstP rp p isRoot n = ((if isRoot && rp n.elem then [n] else []) ++ fil p n.desc).head? := by
  simp only [firstP]
  split <;> simp [descFirst_eq]

/-! ### `_subset` and the collection forms -/

mutual
theorem subset_eq (cmp : Elem → Bool) : ∀ (n : Node) (ret : TC), subset cmp ret n = ret.iadd (fil cmp n.preorder)
  | .mk e ks, ret => by
    simp only [subset, Node.preorder, fil_cons, Node.elem]
    rw [subsetL_eq cmp ks]
    by_cases hc : cmp e
    · by_cases ht : ret.hasTag (.mk e ks) <;> simp [hc, ht, TC.iadd]
    · simp [hc]
theorem subsetL_eq (cmp : Elem → Bool) :
    ∀ (ks : List Node) (ret : TC), subsetL cmp ret ks = ret.iadd (fil cmp (preorderL ks))
  | [], ret => by simp [subsetL, preorderL, fil, TC.iadd]
  | k :: ks, ret => by
    simp only [subsetL, preorderL, fil_append]
    rw [subset_eq cmp k ret, subsetL_eq cmp ks, TC.iadd_append]
end

theorem collScan_eq (cmp : Elem → Bool) (ms : List Node) :
    collScan cmp ms = TC.ofList (fil cmp (ms.flatMap Node.preorder)) := by
  have key : ∀ (ms : List Node) (ret : TC),
      ms.foldl (subset cmp) ret = ret.iadd (fil cmp (ms.flatMap Node.preorder)) := by
    intro ms
    induction ms with
    | nil => intro ret; simp [fil, TC.iadd]
    | cons m ms ih =>
      intro ret
      simp only [List.foldl_cons, List.flatMap_cons, fil_append]
      rw [ih, subset_eq, TC.iadd_append]
  exact key ms TC.empty

theorem collFirst_eq (mp p : Elem → Bool) (ms : List Node) :
    collFirst mp p ms =
      (ms.flatMap (fun m => (if mp m.elem then [m] else []) ++ fil p m.desc)).head? := by
  induction ms with
  | nil => rfl
  | cons m ms ih =>
    simp only [collFirst, List.flatMap_cons]
    by_cases hm : mp m.elem
    · simp [hm]
    · simp only [hm, Bool.false_eq_true, if_false, List.nil_append, descFirst_eq, ih]
      cases hd : fil p m.desc with
      | nil => simp
      | cons a as => simp

/-! ### getAllChildNodes / getAllNodes -/

theorem TC.iadd_items_of_fresh {c : TC} (h : TC.Inv c) {xs : List Node}
    (hn : (c.ids ++ uidsOf xs).Nodup) : TC.Inv (c.iadd xs) ∧ (c.iadd xs).items = c.items ++ xs := by
  have hs := TC.iadd_spec h xs
  refine ⟨hs.1, ?_⟩
  rw [hs.2]
  congr 1
  have hh := List.nodup_append.mp hn
  apply dedupN_of_nodup hh.2.1
  intro x hx hmem
  exact hh.2.2 _ hmem _ (List.mem_map_of_mem hx) rfl

mutual
theorem allChildNodes_spec : ∀ n : Node, n.Distinct → TC.Inv (allChildNodes n) ∧ (allChildNodes n).items = n.desc
  | .mk e ks, h => by
    have hk : (uidsOf (preorderL ks)).Nodup := Node.Distinct.desc h
    have := allChildNodesL_spec ks TC.empty TC.inv_empty (by simpa [TC.empty, TC.ids] using hk)
    simpa [allChildNodes, Node.desc, Node.kids, TC.empty] using this
theorem allChildNodesL_spec : ∀ (ks : List Node) (ret : TC), TC.Inv ret →
    (ret.ids ++ uidsOf (preorderL ks)).Nodup →
    TC.Inv (allChildNodesL ret ks) ∧ (allChildNodesL ret ks).items = ret.items ++ preorderL ks
  | [], ret, hi, _ => by simp [allChildNodesL, preorderL, hi]
  | k :: ks, ret, hi, hn => by
    simp only [preorderL, uidsOf, List.map_append] at hn
    rw [Node.preorder_eq, List.map_cons] at hn
    -- hn : (ret.ids ++ (k.uid :: uids k.desc ++ uids (preorderL ks))).Nodup
    have hn1 := List.nodup_append.mp hn
    have hkd : k.Distinct := by
      unfold Node.Distinct
      rw [Node.preorder_eq]
      have := (List.nodup_append.mp hn1.2.1).1
      simpa [uidsOf] using this
    have hkfresh : k.uid ∉ ret.ids := fun hm => hn1.2.2 _ hm _ (by simp) rfl
    have hia := TC.append_inv hi hkfresh
    have hac := allChildNodes_spec k hkd
    have hids : (ret.append k).ids = ret.ids ++ [k.uid] := by simp [TC.append, TC.ids]
    have hfresh2 : ((ret.append k).ids ++ uidsOf (allChildNodes k).items).Nodup := by
      rw [hids, hac.2]
      have : (ret.ids ++ (k.uid :: uidsOf k.desc)).Nodup := by
        have hsub : (ret.ids ++ (k.uid :: uidsOf k.desc)).Sublist
            (ret.ids ++ (k.uid :: (List.map Node.uid k.desc ++ List.map Node.uid (preorderL ks)))) := by
          apply List.Sublist.append_left
          exact (List.sublist_append_left _ _).cons_cons _
        exact hsub.nodup (by simpa using hn)
      simpa [List.append_assoc] using this
    have h2 := TC.iadd_items_of_fresh hia hfresh2
    have hitems : ((ret.append k).iadd (allChildNodes k).items).items = ret.items ++ k.preorder := by
      rw [h2.2, hac.2, Node.preorder_eq]; simp [TC.append]
    have hn3 : (((ret.append k).iadd (allChildNodes k).items).ids ++ uidsOf (preorderL ks)).Nodup := by
      simp only [TC.ids, hitems, List.map_append]
      rw [Node.preorder_eq]
      have hn' := hn
      simp only [TC.ids] at hn'
      simpa [uidsOf, List.append_assoc] using hn'
    have h3 := allChildNodesL_spec ks _ h2.1 hn3
    simp only [allChildNodesL]
    refine ⟨h3.1, ?_⟩
    rw [h3.2, hitems]
    simp [preorderL, List.append_assoc]
end

theorem elemAllNodes_spec {n : Node} (h : n.Distinct) :
    TC.Inv (elemAllNodes n) ∧ (elemAllNodes n).items = n.preorder := by
  have hac := allChildNodes_spec n h
  have h1 : (TC.ofList [n]).items = [n] := TC.ofList_items_of_nodup (by simp [uidsOf])
  have hfresh : ((TC.ofList [n]).ids ++ uidsOf (allChildNodes n).items).Nodup := by
    simp only [TC.ids, h1, hac.2]
    have := h
    unfold Node.Distinct at this
    rw [Node.preorder_eq] at this
    simpa [uidsOf] using this
  have := TC.iadd_items_of_fresh (TC.ofList_spec [n]).1 hfresh
  refine ⟨this.1, ?_⟩
  simp only [elemAllNodes]
  rw [this.2, h1, hac.2, Node.preorder_eq]
  rfl

/-- `parser.getAllNodes` for a document with a real (non-wrapper) root. -/
theorem parserAllNodes_spec {root : Node} (h : root.Distinct) (hw : root.elem.tag ≠ wrapperTag) :
    TC.Inv (parserAllNodes root) ∧ (parserAllNodes root).items = root.preorder := by
  have hac := allChildNodes_spec root h
  have hia : TC.Inv (TC.empty.append root) := TC.append_inv TC.inv_empty (by simp [TC.empty, TC.ids])
  have hfresh : ((TC.empty.append root).ids ++ uidsOf (allChildNodes root).items).Nodup := by
    simp only [TC.ids, TC.append, TC.empty, hac.2]
    have := h
    unfold Node.Distinct at this
    rw [Node.preorder_eq] at this
    simpa [uidsOf] using this
  have := TC.iadd_items_of_fresh hia hfresh
  simp only [parserAllNodes, rootNodes, hw, if_false, List.foldl_cons, List.foldl_nil]
  refine ⟨this.1, ?_⟩
  rw [this.2, hac.2, Node.preorder_eq]
  simp [TC.append, TC.empty]

/-- `parser.getAllNodes` for a document with several roots (the invisible wrapper is skipped). -/
theorem parserAllNodes_wrapper {root : Node} (h : root.Distinct) (hw : root.elem.tag = wrapperTag) :
    TC.Inv (parserAllNodes root) ∧ (parserAllNodes root).items = root.desc := by
  have key : ∀ (ks : List Node) (ret : TC),
      ks.foldl (fun ret r => (ret.append r).iadd (allChildNodes r).items) ret = allChildNodesL ret ks := by
    intro ks
    induction ks with
    | nil => intro ret; rfl
    | cons k ks ih => intro ret; simp only [List.foldl_cons, allChildNodesL, ih]
  have hEq : parserAllNodes root = allChildNodes root := by
    cases root with
    | mk e ks =>
      simp only [parserAllNodes, rootNodes, Node.elem] at hw ⊢
      simp only [hw, if_true, Node.kids, key, allChildNodes]
  rw [hEq]
  exact allChildNodes_spec root h

/-- `TagCollection.getAllNodes`: members and descendants, first occurrence wins. -/
theorem collAllNodes_eq {ms : List Node} (h : ∀ m ∈ ms, m.Distinct) :
    collAllNodes ms = TC.ofList (ms.flatMap Node.preorder) := by
  have key : ∀ (ms : List Node) (ret : TC), (∀ m ∈ ms, m.Distinct) →
      ms.foldl (fun ret t => (if ret.hasTag t then ret else ret.append t).iadd (allChildNodes t).items) ret
        = ret.iadd (ms.flatMap Node.preorder) := by
    intro ms
    induction ms with
    | nil => intro ret _; simp [TC.iadd]
    | cons m ms ih =>
      intro ret hd
      simp only [List.foldl_cons, List.flatMap_cons]
      rw [ih _ (fun x hx => hd x (List.mem_cons_of_mem _ hx)), TC.iadd_append]
      congr 1
      rw [(allChildNodes_spec m (hd m List.mem_cons_self)).2, Node.preorder_eq]
      simp [TC.iadd]
  exact key ms TC.empty h

/-! ### scopes of the parser forms, shared by C06 and C07 -/

/-- The scope of a parser-level search after `_handleRootArg`. -/
def parserScope (root : Node) : Option Node → List Node
  | none => root.preorder
  | some r => if r.uid == root.uid then root.preorder else r.desc

/-- The element `_handleRootArg` hands to the scan. -/
def scanRoot (root : Node) (arg : Option Node) : Node := (handleRootArg root arg).1

theorem handleRootArg_cases (root : Node) (arg : Option Node) :
    (handleRootArg root arg = (root, true) ∧ parserScope root arg = root.preorder) ∨
    (∃ r, arg = some r ∧ handleRootArg root arg = (r, false) ∧ parserScope root arg = r.desc) := by
  cases arg with
  | none => exact Or.inl ⟨rfl, rfl⟩
  | some r =>
    by_cases h : (r.uid == root.uid) = true
    · exact Or.inl ⟨by simp [handleRootArg, h], by simp [parserScope, h]⟩
    · exact Or.inr ⟨r, rfl, by simp [handleRootArg, h], by simp [parserScope, h]⟩

/-- Every element of a document with distinct ids has distinct ids below it (so `root=` arguments taken
    from the document satisfy the hypothesis of the parser theorems). -/
theorem distinct_of_mem {root : Node} (h : root.Distinct) : ∀ r ∈ root.preorder, r.Distinct := by
  intro r hr
  exact uids_nodup_of_sublist (preorder_sublist_of_mem root r hr) h

/-- Parser forms whose root test reads the dot-access value (`root.name`, `root.id`): same answer for
    non-empty searched values. -/
theorem pDot_eq_pAttr (a q : Str) (hq : q ≠ []) (e : Elem) : pDot a q e = pAttr a q e := by
  simp only [pDot, pAttr, Elem.attrOr]
  cases h : e.attr a with
  | none =>
    simp only [Option.getD_none]
    simpa using hq
  | some v => simp

/-- The parser/element forms compute "first name by the scan, the other names by a filter over the
    result": that is "all names". -/
theorem first_then_rest (c : Str) (rest : List Str) (xs : List Node) :
    (if rest.isEmpty then fil (pClass c) xs else (fil (pClass c) xs).filter (fun n => pAllClasses rest n.elem))
      = fil (pAllClasses (c :: rest)) xs := by
  have : (fil (pClass c) xs).filter (fun n => pAllClasses rest n.elem) = fil (pAllClasses (c :: rest)) xs := by
    simp only [fil, List.filter_filter]
    apply List.filter_congr
    intro n _
    simp [pAllClasses, pClass, Bool.and_comm]
  split
  · rename_i hr
    have : rest = [] := by simpa using hr
    subst this
    apply fil_congr
    intro n _
    simp [pAllClasses, pClass]
  · exact this


end AHP.G3