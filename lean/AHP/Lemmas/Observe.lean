/-
  AHP.Lemmas.Observe — lemmas for C16: synchronising any set of attribute stores changes no public view.
-/
import AHP.Model.Observe
import AHP.Lemmas.Pickle
namespace AHP.Pk
open AHP

mutual
/-- every attribute store in the tree has unique keys (an invariant of `dset`/`ddel`, hence of every store the
    constructor and the mutators build) -/
def CleanT : DN → Prop
  | .text _ => True
  | .el _ _ _ a _ blocks _ _ _ _ => (dkeys a.dict).Nodup ∧ CleanTL blocks
def CleanTL : List DN → Prop
  | [] => True
  | b :: bs => CleanT b ∧ CleanTL bs
end

theorem blockShape_matSelL (sel : Nat → Bool) (bs : List DN) : blockShape (matSelL sel bs) = blockShape bs := by
  induction bs with
  | nil => rfl
  | cons b bs ih => cases b <;> simp [matSelL, matSel, blockShape, ih]

theorem attrsList_sel (c : Bool) (a : Attrs) (h : (dkeys a.dict).Nodup) :
    Attrs.attrsList (if c then Attrs.handle a else a) = Attrs.attrsList a := by
  cases c
  · rfl
  · exact Attrs.attrsList_handle a h

theorem startTag_sel (c : Bool) (n : Str) (a : Attrs) (sc : Bool) (h : (dkeys a.dict).Nodup) :
    Attrs.startTag n (if c then Attrs.handle a else a) sc = Attrs.startTag n a sc := by
  cases c
  · rfl
  · exact Attrs.startTag_handle n a sc h

theorem nodup_sel (c : Bool) (a : Attrs) (h : (dkeys a.dict).Nodup) : (dkeys (if c then Attrs.handle a else a).dict).Nodup := by
  cases c
  · exact h
  · exact Attrs.nodup_handle a h

mutual
theorem snapEls_matSel (sel : Nat → Bool) (t : DN) (h : CleanT t) : snapEls (matSel sel t) = snapEls t := by
  match t, h with
  | .text s, _ => simp [matSel]
  | .el o u n a sc blocks ch tx p ow, h =>
    simp only [CleanT] at h
    simp only [matSel, snapEls]
    rw [attrsList_sel _ a h.1, blockShape_matSelL, snapElsL_matSelL sel blocks h.2]
theorem snapElsL_matSelL (sel : Nat → Bool) (bs : List DN) (h : CleanTL bs) : snapElsL (matSelL sel bs) = snapElsL bs := by
  match bs, h with
  | [], _ => simp [matSelL]
  | b :: bs, h =>
    simp only [CleanTL] at h
    simp only [matSelL, snapElsL]
    rw [snapEls_matSel sel b h.1, snapElsL_matSelL sel bs h.2]
end

mutual
theorem html_matSel (sel : Nat → Bool) (t : DN) (h : CleanT t) : DN.html (matSel sel t) = DN.html t := by
  match t, h with
  | .text s, _ => simp [matSel]
  | .el o u n a sc blocks ch tx p ow, h =>
    simp only [CleanT] at h
    simp only [matSel, DN.html]
    rw [startTag_sel _ n a sc h.1, htmlL_matSelL sel blocks h.2]
theorem htmlL_matSelL (sel : Nat → Bool) (bs : List DN) (h : CleanTL bs) : DN.htmlL (matSelL sel bs) = DN.htmlL bs := by
  match bs, h with
  | [], _ => simp [matSelL]
  | b :: bs, h =>
    simp only [CleanTL] at h
    simp only [matSelL, DN.htmlL]
    rw [html_matSel sel b h.1, htmlL_matSelL sel bs h.2]
end

theorem inner_matSel (sel : Nat → Bool) (t : DN) (h : CleanT t) : DN.inner (matSel sel t) = DN.inner t := by
  cases t with
  | text s => simp [matSel]
  | el o u n a sc blocks ch tx p ow =>
    simp only [CleanT] at h
    simp only [matSel, DN.inner]
    rw [htmlL_matSelL sel blocks h.2]

mutual
theorem clean_matSel (sel : Nat → Bool) (t : DN) (h : CleanT t) : CleanT (matSel sel t) := by
  match t, h with
  | .text s, _ => simp [matSel, CleanT]
  | .el o u n a sc blocks ch tx p ow, h =>
    simp only [CleanT] at h
    simp only [matSel, CleanT]
    exact ⟨nodup_sel _ a h.1, cleanL_matSelL sel blocks h.2⟩
theorem cleanL_matSelL (sel : Nat → Bool) (bs : List DN) (h : CleanTL bs) : CleanTL (matSelL sel bs) := by
  match bs, h with
  | [], _ => simp [matSelL, CleanTL]
  | b :: bs, h =>
    simp only [CleanTL] at h
    simp only [matSelL, CleanTL]
    exact ⟨clean_matSel sel b h.1, cleanL_matSelL sel bs h.2⟩
end

mutual
/-- `materialise` (what pickling does to the original) is the synchronisation of every element -/
theorem materialise_eq (t : DN) : materialise t = matSel (fun _ => true) t := by
  match t with
  | .text s => simp [materialise, matSel]
  | .el o u n a sc blocks ch tx p ow =>
    simp only [materialise, matSel, if_true]
    rw [materialiseL_eq]
theorem materialiseL_eq (bs : List DN) : materialiseL bs = matSelL (fun _ => true) bs := by
  match bs with
  | [] => simp [materialiseL, matSelL]
  | b :: bs =>
    simp only [materialiseL, matSelL]
    rw [materialise_eq, materialiseL_eq]
end

/-! ### holders -/

def CleanH : Holder → Prop
  | .tree t => CleanT t
  | .parser p => match p.root with
    | some r => CleanT r
    | none => True

theorem parserHtml_matSel (p : Parser) (r : DN) (hr : p.root = some r) (sel : Nat → Bool) (h : CleanT r) :
    Parser.html { p with root := some (matSel sel r) } = Parser.html p := by
  unfold Parser.html
  simp only [hr]
  cases r with
  | text s => simp [matSel]
  | el o u n a sc blocks ch tx pp ow =>
    have h1 := html_matSel sel (.el o u n a sc blocks ch tx pp ow) h
    have h2 := inner_matSel sel (.el o u n a sc blocks ch tx pp ow) h
    simp only [matSel] at h1 h2 ⊢
    rw [h1, h2]

/-- synchronising any set of elements of a holder's document changes nothing its snapshot shows -/
theorem snapHolder_setRoot_matSel (h : Holder) (r : DN) (hr : h.root = some r) (hc : CleanT r) (sel : Nat → Bool) :
    snapHolder (h.setRoot (matSel sel r)) = snapHolder h := by
  cases h with
  | tree t =>
    simp only [Holder.root, Option.some.injEq] at hr
    subst hr
    simp only [Holder.setRoot, snapHolder]
    rw [html_matSel sel t hc, snapEls_matSel sel t hc]
  | parser p =>
    simp only [Holder.root] at hr
    simp only [Holder.setRoot, snapHolder]
    rw [parserHtml_matSel p r hr sel hc]
    simp only [hr, snapEls_matSel sel r hc]

theorem clean_setRoot_matSel (h : Holder) (r : DN) (hr : h.root = some r) (hc : CleanT r) (sel : Nat → Bool) :
    CleanH (h.setRoot (matSel sel r)) := by
  cases h with
  | tree t => simp only [Holder.setRoot, CleanH]; exact clean_matSel sel r hc
  | parser p => simp only [Holder.setRoot, CleanH]; exact clean_matSel sel r hc

theorem cleanT_of_cleanH (h : Holder) (r : DN) (hr : h.root = some r) (hc : CleanH h) : CleanT r := by
  cases h with
  | tree t => simp only [Holder.root, Option.some.injEq] at hr; subst hr; exact hc
  | parser p => simp only [Holder.root] at hr; simp only [CleanH, hr] at hc; exact hc

theorem snapHolder_matFoot (f : Foot) (h : Holder) (hc : CleanH h) : snapHolder (matFoot f h) = snapHolder h := by
  unfold matFoot
  cases hr : h.root with
  | none => rfl
  | some r => exact snapHolder_setRoot_matSel h r hr (cleanT_of_cleanH h r hr hc) _

theorem clean_matFoot (f : Foot) (h : Holder) (hc : CleanH h) : CleanH (matFoot f h) := by
  unfold matFoot
  cases hr : h.root with
  | none => exact hc
  | some r => exact clean_setRoot_matSel h r hr (cleanT_of_cleanH h r hr hc) _

/-- pickling: the whole document synchronised, everything else of the parser as it was -/
theorem pickle_as_matSel (h : Holder) :
    (obsHolder .pickle h).1 = match h.root with
      | some r => h.setRoot (matSel (fun _ => true) r)
      | none => h := by
  cases h with
  | tree t => simp [obsHolder, Holder.root, Holder.setRoot, materialise_eq]
  | parser p =>
    cases hr : p.root with
    | none =>
      simp only [obsHolder, Holder.root, Parser.afterGetstate, hr, Option.map_none]
      cases p; simp_all
    | some r => simp [obsHolder, Holder.root, Holder.setRoot, Parser.afterGetstate, hr, materialise_eq]

/-- One observer on one holder: the snapshot of the holder is unchanged … -/
theorem snapHolder_obs (o : Obs) (h : Holder) (hc : CleanH h) : snapHolder (obsHolder o h).1 = snapHolder h := by
  cases o with
  | pickle =>
    rw [pickle_as_matSel]
    cases hr : h.root with
    | none => rfl
    | some r => exact snapHolder_setRoot_matSel h r hr (cleanT_of_cleanH h r hr hc) _
  | read f => exact snapHolder_matFoot f h hc
  | docHtml => exact snapHolder_matFoot _ h hc
  | outer t => exact snapHolder_matFoot _ h hc
  | inner t => exact snapHolder_matFoot _ h hc
  | startTag t => exact snapHolder_matFoot _ h hc
  | attrsList t => exact snapHolder_matFoot _ h hc
  | clone t => exact snapHolder_matFoot _ h hc

/-- … and the holder stays clean, so the argument can be repeated. -/
theorem clean_obs (o : Obs) (h : Holder) (hc : CleanH h) : CleanH (obsHolder o h).1 := by
  cases o with
  | pickle =>
    rw [pickle_as_matSel]
    cases hr : h.root with
    | none => exact hc
    | some r => exact clean_setRoot_matSel h r hr (cleanT_of_cleanH h r hr hc) _
  | read f => exact clean_matFoot f h hc
  | docHtml => exact clean_matFoot _ h hc
  | outer t => exact clean_matFoot _ h hc
  | inner t => exact clean_matFoot _ h hc
  | startTag t => exact clean_matFoot _ h hc
  | attrsList t => exact clean_matFoot _ h hc
  | clone t => exact clean_matFoot _ h hc

end AHP.Pk
