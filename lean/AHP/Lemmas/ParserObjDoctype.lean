/-
  The doctype field of the parser object: `handle_decl` / `unknown_decl` folded over the token sequence (`stepD`)
  against the independent reading `Spec.doctypeRead` (Spec/Attrs.lean): the last doctype declaration when it is
  non-empty, otherwise the first non-empty unknown declaration behind it.
-/
import AHP.Spec.Attrs
import AHP.Lemmas.IntakeStableSpec
import AHP.Lemmas.Builder
namespace AHP
open AHP.AttrStores

abbrev doctypeG := Spec.doctypeOfParts

theorem doctypeRead_eq (ts : List Token) :
    Spec.doctypeRead ts = doctypeG (Spec.lastDecl ts) (Spec.unknownsAfterLastDecl ts) := rfl

theorem lastDecl_snoc (ts : List Token) (t : Token) :
    Spec.lastDecl (ts ++ [t]) = match t with | .decl d => some d | _ => Spec.lastDecl ts := by
  cases t <;> simp [Spec.lastDecl, List.foldl_append]

theorem unknowns_snoc (ts : List Token) (t : Token) :
    Spec.unknownsAfterLastDecl (ts ++ [t]) = match t with
      | .decl _ => []
      | .unknownDecl u => Spec.unknownsAfterLastDecl ts ++ [u]
      | _ => Spec.unknownsAfterLastDecl ts := by
  cases t <;> simp [Spec.unknownsAfterLastDecl, List.foldl_append]

theorem doctypeG_decl (d : Str) : doctypeG (some d) [] = some d := by
  cases d <;> simp [doctypeG, Spec.doctypeOfParts]

theorem doctypeG_unknown (base : Option Str) (us : List Str) (u : Str) :
    stepD (doctypeG base us) (.unknownDecl u) = doctypeG base (us ++ [u]) := by
  -- a non-empty declaration stays
  have key : ∀ b : Option Str, (∀ c d, b ≠ some (c :: d)) →
      stepD (doctypeG b us) (.unknownDecl u) = doctypeG b (us ++ [u]) := by
    intro b hb
    have hfalsy : b = none ∨ b = some [] := by
      cases b with
      | none => exact Or.inl rfl
      | some s =>
        cases s with
        | nil => exact Or.inr rfl
        | cons c d => exact absurd rfl (hb c d)
    have hG : ∀ vs : List Str, doctypeG b vs =
        match vs.find? (fun u => !u.isEmpty) with
        | some u => some u
        | none => if vs.isEmpty then b else some [] := by
      intro vs
      rcases hfalsy with e | e <;> subst e <;> rfl
    rw [hG us, hG (us ++ [u]), List.find?_append]
    cases hf : us.find? (fun u => !u.isEmpty) with
    | some u0 =>
      have hne : (!u0.isEmpty) = true := by
        have := List.find?_some hf; simpa using this
      have hne' : u0.isEmpty = false := by simpa using hne
      simp [stepD, hne']
    | none =>
      simp only [Option.none_or, List.find?_cons, List.find?_nil]
      have hstep : ∀ x : Option Str, (x = none ∨ x = some []) → stepD x (.unknownDecl u) = some u := by
        intro x hx
        rcases hx with e | e <;> subst e <;> simp [stepD]
      have hcur : (if us.isEmpty = true then b else some []) = none ∨ (if us.isEmpty = true then b else some []) = some [] := by
        split
        · exact hfalsy
        · exact Or.inr rfl
      rw [hstep _ hcur]
      by_cases hu : u.isEmpty = true
      · have : u = [] := by simpa using hu
        subst this
        simp
      · simp [hu]
  cases base with
  | none => exact key none (by simp)
  | some s =>
    cases s with
    | nil => exact key (some []) (by simp)
    | cons c d =>
      have h1 : doctypeG (some (c :: d)) us = some (c :: d) := rfl
      have h2 : doctypeG (some (c :: d)) (us ++ [u]) = some (c :: d) := rfl
      rw [h1, h2]
      simp [stepD]

/-- **C02 (doctype clause).** The doctype the handlers leave after ANY token sequence is the independent reading:
    the last doctype declaration when it is non-empty; otherwise the first non-empty unknown declaration behind it
    (behind the start of the input when there is no declaration); `none` when there is neither. -/
theorem doctype_fold_eq_read (ts : List Token) : ts.foldl stepD none = Spec.doctypeRead ts := by
  rw [doctypeRead_eq]
  induction ts using snoc_induction with
  | h0 => rfl
  | hs ts t ih =>
    rw [List.foldl_append, List.foldl_cons, List.foldl_nil, ih, lastDecl_snoc, unknowns_snoc]
    cases t with
    | decl d => simp only [stepD]; exact (doctypeG_decl d).symm
    | unknownDecl u => exact doctypeG_unknown _ _ u
    | comment c => rfl
    | pi c => rfl
    | start n a => rfl
    | startend n a => rfl
    | end_ n => rfl
    | data c => rfl
    | entity c => rfl
    | charref c => rfl

/-- the common case: there is a non-empty doctype declaration — the LAST one is reported, whatever else the input has -/
theorem doctype_last_decl (pre post : List Token) (c : Char) (d : Str)
    (hpost : ∀ t ∈ post, ∀ x, t ≠ .decl x) :
    (pre ++ .decl (c :: d) :: post).foldl stepD none = some (c :: d) := by
  rw [doctype_fold_eq_read, doctypeRead_eq]
  have hl : Spec.lastDecl (pre ++ .decl (c :: d) :: post) = some (c :: d) := by
    induction post using snoc_induction with
    | h0 =>
      have := lastDecl_snoc pre (.decl (c :: d))
      simpa using this
    | hs post t ih =>
      have hpost' : ∀ t ∈ post, ∀ x, t ≠ .decl x := fun t' ht' => hpost t' (by simp [ht'])
      have ht : ∀ x, t ≠ .decl x := hpost t (by simp)
      have e : pre ++ Token.decl (c :: d) :: (post ++ [t]) = (pre ++ Token.decl (c :: d) :: post) ++ [t] := by simp
      rw [e, lastDecl_snoc]
      cases t with
      | decl x => exact absurd rfl (ht x)
      | _ => exact ih hpost'
  rw [hl]
  simp [doctypeG, Spec.doctypeOfParts]

/-- no doctype declaration: the FIRST non-empty unknown declaration is reported -/
theorem doctype_first_unknown (pre post : List Token) (c : Char) (u : Str)
    (hpre : ∀ t ∈ pre, (∀ x, t ≠ .decl x) ∧ (∀ x, t = .unknownDecl x → x = []))
    (hpost : ∀ t ∈ post, ∀ x, t ≠ .decl x) :
    (pre ++ .unknownDecl (c :: u) :: post).foldl stepD none = some (c :: u) := by
  have hnd : ∀ (ts : List Token) (x : Option Str), (∀ t ∈ ts, ∀ y, t ≠ .decl y) →
      ts.foldl stepD (some (c :: u)) = some (c :: u) := by
    intro ts _ h
    induction ts using snoc_induction with
    | h0 => rfl
    | hs ts t ih =>
      rw [List.foldl_append, ih (fun t' ht' => h t' (by simp [ht']))]
      have ht := h t (by simp)
      cases t <;> simp [stepD]
      · exact absurd rfl (ht _)
  have hpre' : pre.foldl stepD none = none ∨ pre.foldl stepD none = some [] := by
    induction pre using snoc_induction with
    | h0 => exact Or.inl rfl
    | hs pre t ih =>
      have ih' := ih (fun t' ht' => hpre t' (by simp [ht']))
      have ht := hpre t (by simp)
      rw [List.foldl_append]
      cases t with
      | decl x => exact absurd rfl (ht.1 x)
      | unknownDecl x =>
        have : x = [] := ht.2 x rfl
        subst this
        rcases ih' with e | e <;> rw [e] <;> simp [stepD]
      | _ => simpa [stepD] using ih'
  rw [List.foldl_append, List.foldl_cons]
  have : stepD (pre.foldl stepD none) (.unknownDecl (c :: u)) = some (c :: u) := by
    rcases hpre' with e | e <;> rw [e] <;> simp [stepD]
  rw [this]
  exact hnd post none hpost

/-- neither: no doctype -/
theorem doctype_none (ts : List Token) (h : ∀ t ∈ ts, (∀ x, t ≠ .decl x) ∧ (∀ x, t ≠ .unknownDecl x)) :
    ts.foldl stepD none = none := by
  induction ts using snoc_induction with
  | h0 => rfl
  | hs ts t ih =>
    rw [List.foldl_append, ih (fun t' ht' => h t' (by simp [ht']))]
    have ht := h t (by simp)
    cases t <;> simp [stepD]
    · exact absurd rfl (ht.1 _)
    · exact absurd rfl (ht.2 _)

end AHP
