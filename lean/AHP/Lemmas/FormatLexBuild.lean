/-
  AHP.Lemmas.FormatLexBuild — the plain parser of the formatter model (`Fmt.Plain`) rebuilds a strict tree from its
  token sequence (`plain_fnode` / `plain_fforest` / `plain_root`), and the canonical skeleton `cskel` (`skel` with
  empty data blocks dropped and adjacent data blocks joined) does not see what `expand` and `mergeL` do
  (`cskel_expand…`, `cskel_merge…`).
-/
import AHP.Lemmas.FormatLexOK
namespace AHP.Fmt
open AHP

/-! ### what the plain builder needs of a tree -/

mutual
def FNode.Buildable : FNode → Prop
  | .tok t => isTextLike t = true ∧ (∀ d, t = .data d → d ≠ [])
  | .elem n st sc kids =>
      lower n = n ∧ (Fmt.isVoid n = true → sc = true) ∧ (sc = true → kids = []) ∧ mkStore st.items {} = st ∧
      BuildableL kids
def BuildableL : List FNode → Prop
  | [] => True
  | k :: ks => k.Buildable ∧ BuildableL ks
end

theorem tokOK_data_ne (d : Str) (h1 : TokOK (.data d)) : d ≠ [] := by
  rcases h1 with h | h | h
  · rw [h]; simp
  · rw [h]; simp
  · exact h.1

mutual
theorem strict_buildable : ∀ u : FNode, u.Strict → u.Buildable
  | .tok t, h => by
    simp only [FNode.Strict] at h
    refine ⟨h.2.2, ?_⟩
    intro d e; subst e
    exact tokOK_data_ne d h.1
  | .elem n st sc kids, h => by
    simp only [FNode.Strict] at h
    obtain ⟨hn, hv, hsc, _, hstable, hk⟩ := h
    refine ⟨hn.2.2, hv, hsc, hstable, ?_⟩
    by_cases hr : isRawText n = true
    · simp only [hr, if_true] at hk
      obtain ⟨raw, hraw, _⟩ := hk
      exact rawText_buildable kids raw hraw
    · simp only [hr] at hk
      exact strictL_buildable kids hk
theorem strictL_buildable : ∀ ks : List FNode, StrictL ks → BuildableL ks
  | [], _ => trivial
  | k :: ks, h => by
    simp only [StrictL] at h
    exact ⟨strict_buildable k h.1, strictL_buildable ks h.2⟩
theorem rawText_buildable : ∀ (ks : List FNode) (raw : Str), rawText ks = some raw → BuildableL ks
  | [], _, _ => trivial
  | k :: ks, raw, h => by
    obtain ⟨s, r', rfl, hs, hr', _⟩ := rawText_cons k ks raw h
    refine ⟨⟨rfl, ?_⟩, rawText_buildable ks r' hr'⟩
    intro d e
    cases e
    exact hs
end

/-! ### the plain builder on the token sequence of a tree -/

theorem plain_step_tok (f : Frame) (fs : List Frame) (cl : Option Node) (dt : Option Str) (lv ip : Int) (t : Token)
    (h : (FNode.tok t).Buildable) :
    Plain.step ⟨f :: fs, cl, dt, lv, ip⟩ (Tok.ofToken t)
      = .ok ⟨{ f with rev := (FNode.tok t).toNode :: f.rev } :: fs, cl, dt, lv, ip⟩ := by
  simp only [FNode.Buildable] at h
  cases t with
  | data d =>
    have hne : d.isEmpty = false := by
      have := h.2 d rfl
      cases d <;> simp_all
    simp [Tok.ofToken, Plain.step, Plain.handleData, hne, appendText, FNode.toNode, isVerb, renderTok]
  | entity e =>
    simp [Tok.ofToken, Plain.step, handleVerbatim, appendText, FNode.toNode, isVerb, renderTok]
  | charref e =>
    simp [Tok.ofToken, Plain.step, handleVerbatim, appendText, FNode.toNode, isVerb, renderTok]
  | comment e =>
    simp [Tok.ofToken, Plain.step, handleVerbatim, appendText, FNode.toNode, isVerb, renderTok, str]
  | decl d => simp [isTextLike] at h
  | unknownDecl d => simp [isTextLike] at h
  | pi d => simp [isTextLike] at h
  | start n a => simp [isTextLike] at h
  | startend n a => simp [isTextLike] at h
  | end_ n => simp [isTextLike] at h

theorem plain_run_cons_ok (t : Tok) (ts : List Tok) (s s' : St) (h : Plain.step s t = .ok s') :
    Plain.run (t :: ts) s = Plain.run ts s' := by
  simp [Plain.run, h]

/-- closing the innermost open element when its own end tag arrives -/
theorem plain_end_top (g : Frame) (f : Frame) (fs : List Frame) (cl : Option Node) (dt : Option Str) (lv ip : Int) :
    Plain.step ⟨g :: f :: fs, cl, dt, lv, ip⟩ (.end_ g.name)
      = .ok ⟨{ f with rev := g.close :: f.rev } :: fs, cl, dt, lv, ip⟩ := by
  simp [Plain.step, Plain.handleEnd, Plain.endLoop, Plain.pop, attach]

theorem plain_end_root (g : Frame) (cl : Option Node) (dt : Option Str) (lv ip : Int) :
    Plain.step ⟨[g], cl, dt, lv, ip⟩ (.end_ g.name) = .ok ⟨[], some g.close, dt, lv, ip⟩ := by
  simp [Plain.step, Plain.handleEnd, Plain.endLoop, Plain.pop, attach]

mutual
theorem plain_fnode (u : FNode) (h : u.Buildable) (f : Frame) (fs : List Frame) (cl : Option Node) (dt : Option Str)
    (lv ip : Int) (rest : List Tok) :
    Plain.run (u.toks.map Tok.ofToken ++ rest) ⟨f :: fs, cl, dt, lv, ip⟩
      = Plain.run rest ⟨{ f with rev := u.toNode :: f.rev } :: fs, cl, dt, lv, ip⟩ := by
  match u, h with
  | .tok t, h =>
    simp only [FNode.toks, List.map_cons, List.map_nil, List.cons_append, List.nil_append]
    exact plain_run_cons_ok _ _ _ _ (plain_step_tok f fs cl dt lv ip t h)
  | .elem n st sc kids, h =>
    simp only [FNode.Buildable] at h
    obtain ⟨hl, hv, hsc, hstable, hk⟩ := h
    unfold FNode.toks
    cases hs : sc with
    | true =>
      have : kids = [] := hsc hs
      subst this
      simp only [if_true, List.map_cons, List.map_nil, List.cons_append, List.nil_append]
      apply plain_run_cons_ok
      simp [Tok.ofToken, Plain.step, Plain.handleStart, hl, hstable, St.noRoot, attach, FNode.toNode, toNodeL]
    | false =>
      have hnv : Fmt.isVoid n = false := by
        cases hvv : Fmt.isVoid n with
        | false => rfl
        | true => have := hv hvv; simp_all
      simp only [Bool.false_eq_true, if_false, List.map_cons, List.map_append, List.map_nil, List.cons_append,
        List.append_assoc, List.nil_append]
      have hstart : Plain.step ⟨f :: fs, cl, dt, lv, ip⟩ (Tok.ofToken (.start n st.items))
          = .ok ⟨⟨.normal, n, st, [], []⟩ :: f :: fs, cl, dt, lv, ip⟩ := by
        simp [Tok.ofToken, Plain.step, Plain.handleStart, hl, hnv, hstable, St.noRoot]
      rw [plain_run_cons_ok _ _ _ _ hstart]
      rw [plain_fforest kids hk ⟨.normal, n, st, [], []⟩ (f :: fs) cl dt lv ip]
      simp only [List.append_nil]
      have hend := plain_end_top ⟨.normal, n, st, [], (toNodeL kids).reverse⟩ f fs cl dt lv ip
      rw [plain_run_cons_ok _ _ _ _ (by simpa [Tok.ofToken] using hend)]
      simp [Frame.close, FNode.toNode]
theorem plain_fforest (ks : List FNode) (h : BuildableL ks) (f : Frame) (fs : List Frame) (cl : Option Node)
    (dt : Option Str) (lv ip : Int) (rest : List Tok) :
    Plain.run ((ftoksL ks).map Tok.ofToken ++ rest) ⟨f :: fs, cl, dt, lv, ip⟩
      = Plain.run rest ⟨{ f with rev := (toNodeL ks).reverse ++ f.rev } :: fs, cl, dt, lv, ip⟩ := by
  match ks, h with
  | [], _ => simp [ftoksL, toNodeL]
  | k :: ks, h =>
    simp only [BuildableL] at h
    simp only [ftoksL, List.map_append, List.append_assoc]
    rw [plain_fnode k h.1 f fs cl dt lv ip, plain_fforest ks h.2]
    simp [toNodeL]
end

/-- the root element, from a state in which nothing was parsed yet -/
theorem plain_root (n : Str) (st : AStore) (sc : Bool) (kids : List FNode) (h : (FNode.elem n st sc kids).Buildable)
    (dt : Option Str) (lv ip : Int) (rest : List Tok) :
    Plain.run ((FNode.elem n st sc kids).toks.map Tok.ofToken ++ rest) ⟨[], none, dt, lv, ip⟩
      = Plain.run rest ⟨[], some (FNode.elem n st sc kids).toNode, dt, lv, ip⟩ := by
  simp only [FNode.Buildable] at h
  obtain ⟨hl, hv, hsc, hstable, hk⟩ := h
  unfold FNode.toks
  cases hs : sc with
  | true =>
    have : kids = [] := hsc hs
    subst this
    simp only [if_true, List.map_cons, List.map_nil, List.cons_append, List.nil_append]
    apply plain_run_cons_ok
    simp [Tok.ofToken, Plain.step, Plain.handleStart, hl, hstable, St.noRoot, attach, FNode.toNode, toNodeL]
  | false =>
    have hnv : Fmt.isVoid n = false := by
      cases hvv : Fmt.isVoid n with
      | false => rfl
      | true => have := hv hvv; simp_all
    simp only [Bool.false_eq_true, if_false, List.map_cons, List.map_append, List.map_nil, List.cons_append,
      List.append_assoc, List.nil_append]
    have hstart : Plain.step ⟨[], none, dt, lv, ip⟩ (Tok.ofToken (.start n st.items))
        = .ok ⟨[⟨.normal, n, st, [], []⟩], none, dt, lv, ip⟩ := by
      simp [Tok.ofToken, Plain.step, Plain.handleStart, hl, hnv, hstable, St.noRoot]
    rw [plain_run_cons_ok _ _ _ _ hstart]
    rw [plain_fforest kids hk ⟨.normal, n, st, [], []⟩ [] none dt lv ip]
    simp only [List.append_nil]
    have hend := plain_end_root ⟨.normal, n, st, [], (toNodeL kids).reverse⟩ none dt lv ip
    rw [plain_run_cons_ok _ _ _ _ (by simpa [Tok.ofToken] using hend)]
    simp [Frame.close, FNode.toNode]

/-! ### the canonical skeleton -/

/-- put a data text in front of a canonical block list: nothing for the empty text, glued to a leading data block -/
def pushText (e : Str) (r : List Node) : List Node :=
  if e.isEmpty then r else
    match r with
    | .text false e' :: r' => .text false (e ++ e') :: r'
    | _ => .text false e :: r

mutual
/-- empty data blocks dropped, adjacent data blocks joined, at every level -/
def canon : Node → Node
  | .text v s => .text v s
  | .elem k n st sc ind kids => .elem k n st sc ind (canonL kids)
def canonL : List Node → List Node
  | [] => []
  | .text false s :: xs => pushText s (canonL xs)
  | .text true s :: xs => .text true s :: canonL xs
  | .elem k n st sc ind kids :: xs => .elem k n st sc ind (canonL kids) :: canonL xs
end

/-- **the document modulo formatting and text segmentation**: `skel` (element class and `_indent` forgotten, data
    blocks with all white space removed, references and comments verbatim), then data blocks that became empty
    dropped and adjacent data blocks joined.  A function of `skel`: trees with equal `skel` have equal `cskel`. -/
def cskel (t : Node) : Node := canon (skel t)

def canonCons : Node → List Node → List Node
  | .text false s, r => pushText s r
  | y, r => y :: r

theorem canonL_cons (x : Node) (xs : List Node) : canonL (x :: xs) = canonCons (canon x) (canonL xs) := by
  cases x with
  | text v s => cases v <;> simp [canonL, canon, canonCons]
  | elem k n st sc ind kids => simp [canonL, canon, canonCons]

theorem pushText_nil (r : List Node) : pushText [] r = r := by simp [pushText]

theorem pushText_pushText (a b : Str) (r : List Node) : pushText a (pushText b r) = pushText (a ++ b) r := by
  by_cases ha : a.isEmpty = true
  · have : a = [] := by simpa using ha
    subst this; simp [pushText_nil]
  · by_cases hb : b.isEmpty = true
    · have : b = [] := by simpa using hb
      subst this; simp [pushText_nil]
    · have hab : (a ++ b).isEmpty = false := by cases a <;> simp_all
      cases r with
      | nil => simp [pushText, ha, hb, hab]
      | cons x r' =>
        cases x with
        | elem k n st sc ind kids => simp [pushText, ha, hb, hab]
        | text v e' => cases v <;> simp [pushText, ha, hb, hab]

theorem skelL_append (xs ys : List Node) : skelL (xs ++ ys) = skelL xs ++ skelL ys := by
  induction xs with
  | nil => rfl
  | cons x xs ih => simp [skelL, ih]

/-- shorthand: the canonical skeleton of the blocks of a tree in lexical form -/
def cskL (ks : List FNode) : List Node := canonL (skelL (toNodeL ks))

theorem cskL_cons (k : FNode) (ks : List FNode) : cskL (k :: ks) = canonCons (canon (skel k.toNode)) (cskL ks) := by
  simp only [cskL, toNodeL, skelL, canonL_cons]

theorem cskL_cons_congr (k : FNode) (xs ys : List FNode) (h : cskL xs = cskL ys) : cskL (k :: xs) = cskL (k :: ys) := by
  rw [cskL_cons, cskL_cons, h]

theorem cskL_data (s : Str) (ks : List FNode) : cskL (.tok (.data s) :: ks) = pushText (eraseWS s) (cskL ks) := by
  rw [cskL_cons]
  simp [FNode.toNode, isVerb, renderTok, skel, canon, canonCons]

theorem cskL_dataTok (s : Str) (ks : List FNode) : cskL (dataTok s ++ ks) = pushText (eraseWS s) (cskL ks) := by
  unfold dataTok
  by_cases h : s.isEmpty = true
  · have : s = [] := by simpa using h
    subst this
    simp [eraseWS, pushText_nil]
  · simp only [h, Bool.false_eq_true, if_false, List.cons_append, List.nil_append]
    exact cskL_data s ks

theorem eraseWS_ws (s : Str) (h : WsStr s) : eraseWS s = [] := by
  unfold eraseWS
  rw [List.filter_eq_nil_iff]
  intro c hc
  simp [wsStr_pyWs s h c hc]

theorem eraseWS_dataRule (c : Ctx) (p s : Str) : eraseWS (dataRule c p s) = eraseWS s := by
  unfold dataRule
  split
  · exact eraseWS_squeeze s
  · rfl

/-- a trailing blank data block does not show -/
theorem cskL_append_blank (ks : List FNode) (e : Str) (he : eraseWS e = []) : cskL (ks ++ dataTok e) = cskL ks := by
  induction ks with
  | nil =>
    have := cskL_dataTok e []
    simp only [List.append_nil] at this
    rw [List.nil_append, this, he, pushText_nil]
  | cons k ks ih =>
    rw [List.cons_append]
    exact cskL_cons_congr k _ _ ih

/-! #### `mergeL` -/

theorem cskL_pushTok (t : Token) (r : List FNode) : cskL (pushTok t r) = cskL (.tok t :: r) := by
  unfold pushTok
  split
  · rename_i a b r'
    rw [cskL_data, cskL_data, cskL_data, pushText_pushText, eraseWS_append]
  · rfl

mutual
theorem cskel_merge : ∀ u : FNode, cskel (merge u).toNode = cskel u.toNode
  | .tok t => by simp [merge]
  | .elem n st sc kids => by
    have ih := cskL_mergeL kids
    simp only [cskL] at ih
    simp only [merge, FNode.toNode, cskel, skel, canon, ih]
theorem cskL_mergeL : ∀ ks : List FNode, cskL (mergeL ks) = cskL ks
  | [] => by simp [mergeL]
  | .tok t :: ks => by
    simp only [mergeL]
    rw [cskL_pushTok]
    exact cskL_cons_congr _ _ _ (cskL_mergeL ks)
  | .elem n st sc kids :: ks => by
    have h1 := cskel_merge (.elem n st sc kids)
    simp only [merge, cskel] at h1
    simp only [mergeL]
    rw [cskL_cons, cskL_cons, h1, cskL_mergeL ks]
end

/-! #### `expand` -/

mutual
theorem cskL_expand (cfg : Cfg) (hi : IndentWS cfg) (c : Ctx) (p : Str) :
    ∀ (u : FNode), u.Buildable → ∀ zs : List FNode, cskL (expand cfg c p u ++ zs) = cskL (u :: zs)
  | .tok t, h, zs => by
    simp only [FNode.Buildable] at h
    simp only [expand]
    cases t with
    | data s =>
      simp only [expandTok]
      rw [cskL_dataTok, cskL_data, eraseWS_dataRule]
    | entity e => rfl
    | charref e => rfl
    | comment e => rfl
    | decl d => simp [isTextLike] at h
    | unknownDecl d => simp [isTextLike] at h
    | pi d => simp [isTextLike] at h
    | start n a => simp [isTextLike] at h
    | startend n a => simp [isTextLike] at h
    | end_ n => simp [isTextLike] at h
  | .elem n st sc kids, h, zs => by
    simp only [FNode.Buildable] at h
    obtain ⟨_, _, hsc, _, hk⟩ := h
    have hind := indentAt_ws cfg hi c
    simp only [expand, List.append_assoc]
    rw [cskL_dataTok, eraseWS_ws _ hind, pushText_nil]
    simp only [List.cons_append, List.nil_append]
    rw [cskL_cons, cskL_cons]
    have hnode : canon (skel (FNode.elem n st sc (if sc = true then [] else
          expandL cfg (c.push n) n kids
            ++ dataTok (endInd n (indentAt cfg c) (decorateL cfg (c.push n) n (toNodeL kids))))).toNode)
        = canon (skel (FNode.elem n st sc kids).toNode) := by
      simp only [FNode.toNode, skel, canon]
      congr 1
      cases sc with
      | true =>
        have : kids = [] := hsc rfl
        subst this
        rfl
      | false =>
        simp only [Bool.false_eq_true, if_false]
        have he := endInd_ws n (indentAt cfg c) (decorateL cfg (c.push n) n (toNodeL kids)) hind
        have h1 := cskL_expandL cfg hi (c.push n) n kids hk
          (dataTok (endInd n (indentAt cfg c) (decorateL cfg (c.push n) n (toNodeL kids))))
        have h2 := cskL_append_blank kids _ (eraseWS_ws _ he)
        simp only [cskL] at h1 h2
        rw [h1, h2]
    rw [hnode]
theorem cskL_expandL (cfg : Cfg) (hi : IndentWS cfg) (c : Ctx) (p : Str) :
    ∀ (ks : List FNode), BuildableL ks → ∀ zs : List FNode, cskL (expandL cfg c p ks ++ zs) = cskL (ks ++ zs)
  | [], _, zs => by simp [expandL]
  | k :: ks, h, zs => by
    simp only [BuildableL] at h
    simp only [expandL, List.append_assoc, List.cons_append]
    rw [cskL_expand cfg hi c p k h.1]
    exact cskL_cons_congr k _ _ (cskL_expandL cfg hi c p ks h.2 zs)
end

end AHP.Fmt
