/-
  AHP.Lemmas.FormatLexPrettyLayout — C12a read off the OUTPUT TEXT of the pretty classes.

  Token side (independent of the formatter model): `Scan y unit st before toks` walks a token list with the stack `st`
  of open element names (start tag pushes, end tag pops — depth and "below pre/code" are recomputed from the tokens
  alone) and the text `before` rendered so far, and demands at every tag (`LayoutAt`):
    * start tag / self-closing tag, nothing of pre/code open: `before` ends with a line break followed by exactly
      `depth` copies of the indent unit (`indText unit depth <:+ before`);
    * end tag `</n>`: `n` is the innermost open element (the output is balanced), and if `n` is not pre/code and no
      pre/code encloses it, `before` ends with a line break and `depth-of-the-element` copies of the unit;
  and that nothing is left open at the end.  `scan_split` reads `Scan` position-wise: for every split
  `toks = pre ++ t :: post` the demand holds at `t` with the stack `tagStack st pre` and the text rendered from `pre`.

  Tree side: `LaidL` says the same of a block list (`prev` = the data block directly before); `laid_MX` / `laid_gK`:
  what `mergeL ∘ expandL` produces is laid out (every element child is preceded by a data block ending with its
  `_indent`; the last block of every element other than pre/code ends with the element's own `_indent` — for
  script/style because `getEndTag` writes the indent unless the content already ends with it).  `scanL_laid`
  transfers it to the token list; `pretty_layout_core` is the document-level statement through `lexStrict`.
-/
import AHP.Lemmas.FormatLexPretty
namespace AHP.Fmt
open AHP

/-! ### the layout law on a token list -/

/-- a line break followed by `d` copies of the indent unit -/
def indText (unit : Str) (d : Nat) : Str := '\n' :: rep d unit

/-- no pre/code element among the open ones -/
def noPre (st : List Str) : Bool := st.all (fun n => !isPre n)

/-- the open-element stack after a token: a start tag pushes, an end tag pops -/
def stAfter (st : List Str) : Token → List Str
  | .start n _ => n :: st
  | .end_ _ => st.tail
  | _ => st

/-- the open elements after a token list (innermost first) -/
def tagStack : List Str → List Token → List Str
  | st, [] => st
  | st, t :: ts => tagStack (stAfter st t) ts

/-- what the layout law demands of the text `before` a tag, given the elements open at that point -/
def LayoutAt (unit : Str) (st : List Str) (before : Str) : Token → Prop
  | .start _ _ => noPre st = true → indText unit st.length <:+ before
  | .startend _ _ => noPre st = true → indText unit st.length <:+ before
  | .end_ n => st.head? = some n ∧ (isPre n = false → noPre st.tail = true → indText unit (st.length - 1) <:+ before)
  | _ => True

/-- the law at every tag of a token list, and nothing left open at the end -/
def Scan (y : TagStyle) (unit : Str) : List Str → Str → List Token → Prop
  | st, _, [] => st = []
  | st, acc, t :: ts => LayoutAt unit st acc t ∧ Scan y unit (stAfter st t) (acc ++ renderTokY y t) ts

/-- `Scan`, position by position -/
theorem scan_split (y : TagStyle) (unit : Str) : ∀ (pre : List Token) (st : List Str) (acc : Str) (t : Token)
    (post : List Token), Scan y unit st acc (pre ++ t :: post) →
      LayoutAt unit (tagStack st pre) (acc ++ renderToksY y pre) t
  | [], st, acc, t, post, h => by
    simp only [List.nil_append, Scan] at h
    simpa [tagStack, renderToksY] using h.1
  | p :: pre, st, acc, t, post, h => by
    simp only [List.cons_append, Scan] at h
    have := scan_split y unit pre _ _ t post h.2
    simpa [tagStack, renderToksY, List.append_assoc] using this

theorem scan_balanced (y : TagStyle) (unit : Str) : ∀ (ts : List Token) (st : List Str) (acc : Str),
    Scan y unit st acc ts → tagStack st ts = []
  | [], st, acc, h => by simpa [Scan, tagStack] using h
  | t :: ts, st, acc, h => by
    simp only [Scan] at h
    simpa [tagStack] using scan_balanced y unit ts _ _ h.2

/-- the text after the last line break -/
def lastLine (s : Str) : Str := (s.reverse.takeWhile (· ≠ '\n')).reverse

theorem takeWhile_stop (p : Char → Bool) : ∀ (l : Str) (c : Char) (r : Str), (∀ x ∈ l, p x = true) → p c = false →
    (l ++ c :: r).takeWhile p = l
  | [], c, r, _, hc => by simp [hc]
  | x :: l, c, r, hl, hc => by
    simp only [List.cons_append, List.takeWhile, hl x (by simp)]
    rw [takeWhile_stop p l c r (fun y hy => hl y (by simp [hy])) hc]

/-- when the indent unit contains no line break, "ends with a line break and `d` units" says that the last line of
    the text is exactly `d` units -/
theorem lastLine_indText (unit : Str) (hu : ∀ c ∈ unit, c ≠ '\n') (d : Nat) (before : Str)
    (h : indText unit d <:+ before) : lastLine before = rep d unit ∧ '\n' ∈ before := by
  obtain ⟨x, rfl⟩ := h
  have hrep : ∀ c ∈ rep d unit, c ≠ '\n' := by
    induction d with
    | zero => intro c hc; simp [rep] at hc
    | succ k ih =>
      intro c hc
      simp only [rep, List.mem_append] at hc
      rcases hc with hc | hc
      · exact hu c hc
      · exact ih c hc
  refine ⟨?_, by simp [indText]⟩
  unfold lastLine indText
  rw [List.reverse_append, List.reverse_cons, List.append_assoc]
  simp only [List.singleton_append]
  rw [takeWhile_stop _ _ '\n' _ (by
    intro c hc
    have := hrep c (by simpa using hc)
    simpa using this) (by simp)]
  simp

/-! ### the same law on a block list -/

def dataOf : Token → Str
  | .data s => s
  | _ => []

/-- the last block is a data block that ends with `e` -/
def EndsData (e : Str) (l : List FNode) : Prop := ∃ front x, l = front ++ [.tok (.data (x ++ e))]

mutual
/-- an element is laid out inside: self-closing, or pre/code (nothing is claimed), or its blocks are laid out one
    level deeper and the last one is a data block ending with the element's own indentation -/
def LaidN (unit : Str) (d : Nat) : FNode → Prop
  | .tok _ => True
  | .elem m _ sc kk => sc = true ∨ isPre m = true ∨ (LaidL unit (d + 1) [] kk ∧ EndsData (indText unit d) kk)
/-- a block list at depth `d` outside pre/code is laid out: every element is directly preceded by a data block
    (`prev` for the first block) that ends with a line break and `d` units, and is laid out inside -/
def LaidL (unit : Str) (d : Nat) : Str → List FNode → Prop
  | _, [] => True
  | _, .tok t :: ks => LaidL unit d (dataOf t) ks
  | prev, .elem m st sc kk :: ks => indText unit d <:+ prev ∧ LaidN unit d (.elem m st sc kk) ∧ LaidL unit d [] ks
end

/-! ### what `mergeL ∘ expandL` produces is laid out -/

theorem laidL_dataTok (unit : Str) (d : Nat) (prev x : Str) : LaidL unit d prev (dataTok x) := by
  unfold dataTok
  split <;> simp [LaidL]

theorem laidL_dataTok_tok (unit : Str) (d : Nat) (prev a : Str) (t : Token) (r : List FNode)
    (h : LaidL unit d (dataOf t) r) : LaidL unit d prev (dataTok a ++ .tok t :: r) := by
  unfold dataTok
  split <;> simpa [LaidL] using h

theorem endsData_cons (e : Str) (k : FNode) (l : List FNode) (h : EndsData e l) : EndsData e (k :: l) := by
  obtain ⟨front, x, rfl⟩ := h
  exact ⟨k :: front, x, rfl⟩

theorem endsData_dataTok (e x : Str) (he : e ≠ []) : EndsData e (dataTok (x ++ e)) := by
  rw [dataTok_ne _ (by simp [he])]
  exact ⟨[], x, rfl⟩

theorem endsData_pushData (e a : Str) (l : List FNode) (h : EndsData e l) : EndsData e (pushData a l) := by
  obtain ⟨front, x, rfl⟩ := h
  cases front with
  | nil =>
    simp only [List.nil_append]
    rw [pushData_data]
    exact ⟨[], a ++ x, by simp⟩
  | cons k f =>
    cases k with
    | elem n st sc kids =>
      rw [List.cons_append, pushData_elem]
      exact ⟨dataTok a ++ .elem n st sc kids :: f, x, by simp⟩
    | tok t =>
      by_cases hd : isData t = true
      · cases t with
        | data b =>
          rw [List.cons_append, pushData_data]
          exact ⟨.tok (.data (a ++ b)) :: f, x, rfl⟩
        | _ => simp [isData] at hd
      · rw [List.cons_append, pushData_tok a t (by simpa using hd)]
        exact ⟨dataTok a ++ .tok t :: f, x, by simp⟩

/-- whatever the blocks are, the merged expansion followed by the (non-empty) text `e` ends with a data block that
    ends with `e` -/
theorem endsData_MX (cfg : Cfg) (c : Ctx) (p e : Str) (he : e ≠ []) :
    ∀ (ks : List FNode) (a : Str), EndsData e (pushData a (MX cfg c p e ks))
  | [], a => by
    rw [MX_nil, pushData_dataTok]
    exact endsData_dataTok e a he
  | .tok t :: ks, a => by
    by_cases hd : isData t = true
    · cases t with
      | data s =>
        unfold MX
        rw [mx_data, pushData_pushData]
        exact endsData_MX cfg c p e he ks _
      | _ => simp [isData] at hd
    · apply endsData_pushData
      rw [MX_tok cfg c p e t (by simpa using hd)]
      apply endsData_cons
      have := endsData_MX cfg c p e he ks []
      rwa [pushData_nil] at this
  | .elem m st sc kk :: ks, a => by
    apply endsData_pushData
    rw [MX_elem]
    apply endsData_pushData
    apply endsData_cons
    have := endsData_MX cfg c p e he ks []
    rwa [pushData_nil] at this

theorem indText_ne (unit : Str) (d : Nat) : indText unit d ≠ [] := by simp [indText]

theorem push_level (c : Ctx) (m : Str) (h : m ≠ wrapper) : (c.push m).level = c.level + 1 := by
  simp [Ctx.push, h]

mutual
theorem laid_gK (cfg : Cfg) (hm : cfg.mini = false) :
    ∀ u : FNode, u.Strict → u.NoWrapper → ∀ c : Ctx, c.inPre = 0 →
      (match u with
       | .tok _ => True
       | .elem m st sc kk => LaidN cfg.indent c.level (.elem m st sc (gK cfg c m sc kk)))
  | .tok _, _, _, _, _ => trivial
  | .elem m st sc kk, hs, hnw, c, hc => by
    simp only [LaidN]
    cases sc with
    | true => exact Or.inl rfl
    | false =>
      by_cases hpre : isPre m = true
      · exact Or.inr (Or.inl hpre)
      · refine Or.inr (Or.inr ?_)
        have hnpre : isPre m = false := by simpa using hpre
        have hI := indentAt_pretty cfg hm c hc
        have hne : indentAt cfg c ≠ [] := by rw [hI]; simp
        have hmw : m ≠ wrapper := by
          have h1 := hnw
          have h2 := hs
          simp only [FNode.NoWrapper] at h1
          simp only [FNode.Strict] at h2
          rw [← h2.1.2.2]; exact h1.1
        by_cases hr : isRawText m = true
        · have hk := hs
          simp only [FNode.Strict, hr, if_true] at hk
          obtain ⟨raw, hraw, _⟩ := hk.2.2.2.2.2
          obtain ⟨raw1, e1, x, hx⟩ := gK_raw1 cfg c m hr hne kk raw hraw
          rw [e1]
          refine ⟨by simp [LaidL], [], x, ?_⟩
          rw [← hx, hI]
          rfl
        · have hp : isPreserve m = false := by
            cases h : isPreserve m with
            | false => rfl
            | true =>
              rcases preserve_cases m h with h' | h'
              · rw [h'] at hnpre; cases hnpre
              · exact absurd h' hr
          have hk := hs
          simp only [FNode.Strict, hr] at hk
          have hkk : StrictL kk := hk.2.2.2.2.2
          simp only [FNode.NoWrapper] at hnw
          have hg : gK cfg c m false kk = MX cfg (c.push m) m (indentAt cfg c) kk := by
            simp only [gK, MX, Bool.false_eq_true, if_false, endInd_normal m _ _ hp]
          rw [hg]
          constructor
          · have := laid_MX cfg hm kk hkk hnw.2 (c.push m) m (indentAt cfg c) (push_inPre_zero c m hc hnpre) [] []
            rw [pushData_nil, push_level c m hmw] at this
            exact this
          · have := endsData_MX cfg (c.push m) m (indentAt cfg c) hne kk []
            rw [pushData_nil] at this
            have hI' : indText cfg.indent c.level = indentAt cfg c := hI.symm
            rw [hI']
            exact this
theorem laid_MX (cfg : Cfg) (hm : cfg.mini = false) :
    ∀ ks : List FNode, StrictL ks → NoWrapperL ks → ∀ (c : Ctx) (p e : Str), c.inPre = 0 →
      ∀ a prev : Str, LaidL cfg.indent c.level prev (pushData a (MX cfg c p e ks))
  | [], _, _, c, p, e, _, a, prev => by
    rw [MX_nil, pushData_dataTok]
    exact laidL_dataTok _ _ _ _
  | .tok t :: ks, hs, hnw, c, p, e, hc, a, prev => by
    simp only [StrictL] at hs
    simp only [NoWrapperL] at hnw
    by_cases hd : isData t = true
    · cases t with
      | data s =>
        unfold MX
        rw [mx_data, pushData_pushData]
        exact laid_MX cfg hm ks hs.2 hnw.2 c p e hc _ prev
      | _ => simp [isData] at hd
    · have hd' : isData t = false := by simpa using hd
      rw [MX_tok cfg c p e t hd', pushData_tok a t hd']
      apply laidL_dataTok_tok
      have := laid_MX cfg hm ks hs.2 hnw.2 c p e hc [] (dataOf t)
      rwa [pushData_nil] at this
  | .elem m st sc kk :: ks, hs, hnw, c, p, e, hc, a, prev => by
    simp only [StrictL] at hs
    simp only [NoWrapperL] at hnw
    have hI := indentAt_pretty cfg hm c hc
    have hne : indentAt cfg c ≠ [] := by rw [hI]; simp
    rw [MX_elem, pushData_pushData, pushData_elem, dataTok_ne _ (by simp [hne])]
    simp only [List.cons_append, List.nil_append, LaidL, dataOf]
    refine ⟨?_, ?_, ?_⟩
    · rw [hI]; exact List.suffix_append _ _
    · exact laid_gK cfg hm (.elem m st sc kk) hs.1 hnw.1 c hc
    · have := laid_MX cfg hm ks hs.2 hnw.2 c p e hc [] []
      rwa [pushData_nil] at this
end

/-! ### from blocks to tokens -/

theorem layoutAt_textLike (unit : Str) (st : List Str) (acc : Str) (t : Token) (h : isTextLike t = true) :
    LayoutAt unit st acc t ∧ stAfter st t = st := by
  cases t <;> first | exact ⟨trivial, rfl⟩ | simp [isTextLike] at h

theorem noPre_cons (m : Str) (st : List Str) : noPre (m :: st) = (!isPre m && noPre st) := by
  simp [noPre]

theorem render_elem_open (y : TagStyle) (m : Str) (st : AStore) (kk : List FNode) :
    renderToksY y (FNode.elem m st false kk).toks
      = renderTokY y (.start m st.items) ++ renderToksY y (ftoksL kk) ++ renderTokY y (.end_ m) := by
  simp [FNode.toks, renderToksY, renderToksY_append]

mutual
/-- below pre/code the law demands nothing but balance -/
theorem scanN_pre (y : TagStyle) (unit : Str) : ∀ u : FNode, u.TextLike → ∀ (st : List Str) (acc : Str)
    (rest : List Token), noPre st = false → Scan y unit st (acc ++ renderToksY y u.toks) rest →
      Scan y unit st acc (u.toks ++ rest)
  | .tok t, h, st, acc, rest, _, hr => by
    simp only [FNode.TextLike] at h
    obtain ⟨h1, h2⟩ := layoutAt_textLike unit st acc t h
    simp only [FNode.toks, List.cons_append, List.nil_append, Scan, h2]
    refine ⟨h1, ?_⟩
    simpa [FNode.toks, renderToksY] using hr
  | .elem m sto sc kk, h, st, acc, rest, hp, hr => by
    simp only [FNode.TextLike] at h
    cases sc with
    | true =>
      simp only [FNode.toks, if_true, List.cons_append, List.nil_append, Scan, LayoutAt, stAfter]
      refine ⟨fun hh => (by rw [hp] at hh; cases hh), ?_⟩
      simpa [FNode.toks, renderToksY] using hr
    | false =>
      rw [render_elem_open] at hr
      simp only [FNode.toks, Bool.false_eq_true, if_false, List.cons_append, List.append_assoc, Scan, LayoutAt,
        stAfter]
      refine ⟨fun hh => (by rw [hp] at hh; cases hh), ?_⟩
      have hp' : noPre (m :: st) = false := by rw [noPre_cons, hp]; simp
      apply scanL_pre y unit kk h (m :: st) _ _ hp'
      simp only [List.nil_append, Scan, LayoutAt, stAfter, List.head?_cons, List.tail_cons,
        true_and]
      refine ⟨fun _ hh => (by rw [hp] at hh; cases hh), ?_⟩
      simpa [List.append_assoc] using hr
theorem scanL_pre (y : TagStyle) (unit : Str) : ∀ ks : List FNode, TextLikeL ks → ∀ (st : List Str) (acc : Str)
    (rest : List Token), noPre st = false → Scan y unit st (acc ++ renderToksY y (ftoksL ks)) rest →
      Scan y unit st acc (ftoksL ks ++ rest)
  | [], _, st, acc, rest, _, hr => by simpa [ftoksL, renderToksY] using hr
  | k :: ks, h, st, acc, rest, hp, hr => by
    simp only [TextLikeL] at h
    simp only [ftoksL, List.append_assoc]
    apply scanN_pre y unit k h.1 st acc _ hp
    apply scanL_pre y unit ks h.2 st _ rest hp
    simpa [ftoksL, renderToksY_append, List.append_assoc] using hr
end

theorem render_endsData (y : TagStyle) (e : Str) (kk : List FNode) (h : EndsData e kk) :
    e <:+ renderToksY y (ftoksL kk) := by
  obtain ⟨front, x, rfl⟩ := h
  rw [ftoksL_append, renderToksY_append]
  simp only [ftoksL, FNode.toks, renderToksY, renderTokY, renderTok, List.append_nil]
  exact ⟨renderToksY y (ftoksL front) ++ x, by simp⟩

theorem suffix_append_left {e s : Str} (a : Str) (h : e <:+ s) : e <:+ a ++ s := by
  obtain ⟨x, rfl⟩ := h
  exact ⟨a ++ x, by simp⟩

mutual
/-- a laid-out element obeys the law on its tokens -/
theorem scanN_laid (y : TagStyle) (unit : Str) : ∀ u : FNode, u.TextLike → ∀ (d : Nat) (st : List Str) (acc : Str)
    (rest : List Token), LaidN unit d u → st.length = d → noPre st = true →
      (∀ m sto sc kk, u = .elem m sto sc kk → indText unit d <:+ acc) →
      Scan y unit st (acc ++ renderToksY y u.toks) rest → Scan y unit st acc (u.toks ++ rest)
  | .tok t, h, d, st, acc, rest, _, _, _, _, hr => by
    simp only [FNode.TextLike] at h
    obtain ⟨h1, h2⟩ := layoutAt_textLike unit st acc t h
    simp only [FNode.toks, List.cons_append, List.nil_append, Scan, h2]
    refine ⟨h1, ?_⟩
    simpa [FNode.toks, renderToksY] using hr
  | .elem m sto sc kk, h, d, st, acc, rest, hl, hd, hp, hacc, hr => by
    simp only [FNode.TextLike] at h
    have hind := hacc m sto sc kk rfl
    cases sc with
    | true =>
      simp only [FNode.toks, if_true, List.cons_append, List.nil_append, Scan, LayoutAt, stAfter]
      refine ⟨fun _ => (by rw [hd]; exact hind), ?_⟩
      simpa [FNode.toks, renderToksY] using hr
    | false =>
      rw [render_elem_open] at hr
      simp only [FNode.toks, Bool.false_eq_true, if_false, List.cons_append, List.append_assoc, Scan, LayoutAt,
        stAfter]
      refine ⟨fun _ => (by rw [hd]; exact hind), ?_⟩
      simp only [LaidN, Bool.false_eq_true, false_or] at hl
      rcases hl with hpre | ⟨hkk, hend⟩
      · -- pre/code: nothing demanded inside, nothing of its end tag
        have hp' : noPre (m :: st) = false := by rw [noPre_cons, hpre]; simp
        apply scanL_pre y unit kk h (m :: st) _ _ hp'
        simp only [List.nil_append, Scan, LayoutAt, stAfter, List.head?_cons, List.tail_cons,
          true_and]
        refine ⟨fun hh => (by rw [hpre] at hh; cases hh), ?_⟩
        simpa [List.append_assoc] using hr
      · by_cases hpre : isPre m = true
        · have hp' : noPre (m :: st) = false := by rw [noPre_cons, hpre]; simp
          apply scanL_pre y unit kk h (m :: st) _ _ hp'
          simp only [List.nil_append, Scan, LayoutAt, stAfter, List.head?_cons, List.tail_cons,
            true_and]
          refine ⟨fun hh => (by rw [hpre] at hh; cases hh), ?_⟩
          simpa [List.append_assoc] using hr
        · have hnpre : isPre m = false := by simpa using hpre
          have hp' : noPre (m :: st) = true := by rw [noPre_cons, hnpre, hp]; rfl
          apply scanL_laid y unit kk h (d + 1) [] (m :: st) _ _ hkk (by simp [hd]) hp' List.nil_suffix
          simp only [List.nil_append, Scan, LayoutAt, stAfter, List.head?_cons, List.tail_cons,
            true_and, List.length_cons, Nat.add_sub_cancel]
          refine ⟨fun _ _ => ?_, ?_⟩
          · rw [hd]
            exact suffix_append_left _ (render_endsData y _ kk hend)
          · simpa [List.append_assoc] using hr
/-- a laid-out block list obeys the law on its tokens -/
theorem scanL_laid (y : TagStyle) (unit : Str) : ∀ ks : List FNode, TextLikeL ks → ∀ (d : Nat) (prev : Str)
    (st : List Str) (acc : Str) (rest : List Token), LaidL unit d prev ks → st.length = d → noPre st = true →
      prev <:+ acc → Scan y unit st (acc ++ renderToksY y (ftoksL ks)) rest → Scan y unit st acc (ftoksL ks ++ rest)
  | [], _, d, prev, st, acc, rest, _, _, _, _, hr => by simpa [ftoksL, renderToksY] using hr
  | .tok t :: ks, h, d, prev, st, acc, rest, hl, hd, hp, _, hr => by
    simp only [TextLikeL] at h
    simp only [LaidL] at hl
    simp only [ftoksL, List.append_assoc]
    apply scanN_laid y unit (.tok t) h.1 d st acc _ trivial hd hp (by intro m sto sc kk e; cases e)
    have hsuf : dataOf t <:+ acc ++ renderToksY y (FNode.tok t).toks := by
      cases t <;> simp [dataOf, FNode.toks, renderToksY, renderTokY, renderTok]
    apply scanL_laid y unit ks h.2 d (dataOf t) st _ rest hl hd hp hsuf
    simpa [ftoksL, renderToksY_append, List.append_assoc] using hr
  | .elem m sto sc kk :: ks, h, d, prev, st, acc, rest, hl, hd, hp, hprev, hr => by
    simp only [TextLikeL] at h
    simp only [LaidL] at hl
    simp only [ftoksL, List.append_assoc]
    apply scanN_laid y unit (.elem m sto sc kk) h.1 d st acc _ hl.2.1 hd hp
      (fun _ _ _ _ _ => hl.1.trans hprev)
    apply scanL_laid y unit ks h.2 d [] st _ rest hl.2.2 hd hp List.nil_suffix
    simpa [ftoksL, renderToksY_append, List.append_assoc] using hr
end

/-! ### the document -/

/-- **C12a on the output text, token form.**  Pretty class, a token sequence the plain parser builds into the strict
    single-root document `u`: the output text is the rendering of the tokens the strict lexer reads back from it, and
    those tokens obey the layout law (`Scan`), with depth and pre/code-ness recomputed from the tokens alone.  `ps` is
    the plain parser's final state: elements still open at the end of the input are allowed (the serialiser closes
    them). -/
theorem pretty_layout_core_open (cfg : Cfg) (hm : cfg.mini = false) (hi : IndentWS cfg) (dt : Option Str) (hdt : DtOK dt)
    (n : Str) (st : AStore) (sc : Bool) (kids : List FNode) (hs : (FNode.elem n st sc kids).Strict)
    (hnw : (FNode.elem n st sc kids).NoWrapper) (toks : List Tok) (hnws : NoWrapperStart toks) (ps : St)
    (hp : Plain.feed toks = .ok ps) (hroot : ps.root = some (FNode.elem n st sc kids).toNode) (hd : ps.doctype = dt) :
    ∃ out toks2, format cfg toks = .ok out ∧ lexStrict out = some toks2 ∧
      out = renderToksY (styleOf cfg.kind) toks2 ∧ Scan (styleOf cfg.kind) cfg.indent [] [] toks2 := by
  obtain ⟨f1, l1, _, _, s1, _⟩ := pass_step_open cfg hi dt hdt n st sc kids hs hnw toks hnws ps hp hroot hd
  refine ⟨_, _, f1, l1, rfl, ?_⟩
  have hI := indentAt_pretty cfg hm ⟨0, 0⟩ rfl
  have hblocks : Scan (styleOf cfg.kind) cfg.indent [] (renderToksY (styleOf cfg.kind) (dtToks dt))
      (ftoksL (outBlocks cfg dt (.elem n st sc kids)) ++ []) := by
    have htl := strictL_textLike _ (strict_outBlocks cfg hi dt _ hs)
    apply scanL_laid _ _ _ htl 0 [] [] _ [] ?_ rfl rfl List.nil_suffix
    · simp [Scan]
    · rw [outBlocks_eq, outRoot_eq_gK, dataTok_ne _ (by rw [hI]; simp)]
      simp only [List.cons_append, List.nil_append, LaidL, dataOf, and_true]
      refine ⟨?_, laid_gK cfg hm _ hs hnw ⟨0, 0⟩ rfl⟩
      rw [hI]
      exact List.suffix_append _ _
  rw [List.append_nil] at hblocks
  unfold outToks
  cases dt with
  | none => simpa [dtToks, renderToksY] using hblocks
  | some d =>
    by_cases hd : d.isEmpty = true
    · simpa [dtToks, hd, renderToksY] using hblocks
    · simp only [dtToks, hd, Bool.false_eq_true, if_false, List.cons_append, List.nil_append, Scan, LayoutAt,
        stAfter, true_and]
      simpa [dtToks, hd, renderToksY] using hblocks

/-- `pretty_layout_core_open` for a token sequence that leaves nothing open -/
theorem pretty_layout_core (cfg : Cfg) (hm : cfg.mini = false) (hi : IndentWS cfg) (dt : Option Str) (hdt : DtOK dt)
    (n : Str) (st : AStore) (sc : Bool) (kids : List FNode) (hs : (FNode.elem n st sc kids).Strict)
    (hnw : (FNode.elem n st sc kids).NoWrapper) (toks : List Tok) (hnws : NoWrapperStart toks)
    (hp : Plain.feed toks = .ok ⟨[], some (FNode.elem n st sc kids).toNode, dt, 0, 0⟩) :
    ∃ out toks2, format cfg toks = .ok out ∧ lexStrict out = some toks2 ∧
      out = renderToksY (styleOf cfg.kind) toks2 ∧ Scan (styleOf cfg.kind) cfg.indent [] [] toks2 :=
  pretty_layout_core_open cfg hm hi dt hdt n st sc kids hs hnw toks hnws _ hp rfl rfl

end AHP.Fmt
