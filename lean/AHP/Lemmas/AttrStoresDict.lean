/-
  AttrStores, part 2 — the insertion-ordered dicts and the style parsers of the four models.

  `dictSet`/`dictDel` of Model/Token.lean are the reference.  `Attrs.aset/adel` and `Pk.dset` are the same
  functions; `Pk.ddel` (removes the first entry only) and `Fmt.dictSet` (rewrites every entry with the key)
  are the same functions on dicts whose keys are pairwise distinct — which is what a Python dict is.
-/
import AHP.Lemmas.AttrStoresStr
import AHP.Lemmas.AttrsStyle
namespace AHP.AttrStores
open AHP

def keys {β : Type} (d : List (Str × β)) : List Str := d.map (·.1)

/-! ### the unconditional equalities -/

theorem aset_eq {β : Type} (k : Str) (v : β) : ∀ d : List (Str × β), Attrs.aset k v d = dictSet d k v
  | [] => rfl
  | (k', v') :: r => by
    by_cases h : k' = k
    · subst h; simp [Attrs.aset, dictSet]
    · simp [Attrs.aset, dictSet, h, aset_eq k v r]

theorem dset_eq {β : Type} (k : Str) (v : β) : ∀ d : List (Str × β), Pk.dset k v d = dictSet d k v
  | [] => rfl
  | (k', v') :: r => by
    by_cases h : k' = k
    · simp [Pk.dset, dictSet, h]
    · simp [Pk.dset, dictSet, h, dset_eq k v r]

theorem adel_eq {β : Type} (k : Str) (d : List (Str × β)) : Attrs.adel k d = dictDel d k := rfl

theorem fdel_eq {β : Type} (k : Str) (d : List (Str × β)) : Fmt.dictDel d k = dictDel d k := rfl

theorem akeys_eq {β : Type} (d : List (Str × β)) : Attrs.akeys d = keys d := rfl

/-! ### keys -/

theorem mem_keys_dictSet {β : Type} {k x : Str} (v : β) {d : List (Str × β)} :
    x ∈ keys (dictSet d k v) ↔ x = k ∨ x ∈ keys d := by
  rw [← aset_eq, ← akeys_eq, ← akeys_eq]; exact Attrs.mem_akeys_aset v

theorem nodup_dictSet {β : Type} (k : Str) (v : β) {d : List (Str × β)} (h : (keys d).Nodup) :
    (keys (dictSet d k v)).Nodup := by
  rw [← aset_eq, ← akeys_eq]; exact Attrs.nodup_aset k v h

theorem nodup_dictDel {β : Type} (k : Str) {d : List (Str × β)} (h : (keys d).Nodup) :
    (keys (dictDel d k)).Nodup := by
  rw [← adel_eq, ← akeys_eq]; exact Attrs.nodup_adel k h

theorem mem_keys_dictDel {β : Type} {k x : Str} {d : List (Str × β)} :
    x ∈ keys (dictDel d k) ↔ x ∈ keys d ∧ x ≠ k := by
  rw [← adel_eq, ← akeys_eq, ← akeys_eq]; exact Attrs.mem_akeys_adel

theorem dictDel_cons_same {β : Type} (k : Str) (v : β) (r : List (Str × β)) :
    dictDel ((k, v) :: r) k = dictDel r k := Attrs.adel_cons_same k v r

theorem dictDel_cons_ne {β : Type} {k k0 : Str} (h : k0 ≠ k) (v : β) (r : List (Str × β)) :
    dictDel ((k0, v) :: r) k = (k0, v) :: dictDel r k := Attrs.adel_cons_ne h v r

theorem dictDel_of_not_mem {β : Type} {k : Str} : ∀ {d : List (Str × β)}, k ∉ keys d → dictDel d k = d
  | [], _ => rfl
  | (k', v') :: r, h => by
    have hk : k' ≠ k := fun e => h (by simp [keys, e])
    have hr : k ∉ keys r := fun m => h (by simp only [keys, List.map_cons, List.mem_cons]; exact Or.inr m)
    rw [dictDel_cons_ne hk, dictDel_of_not_mem hr]

/-! ### the equalities that need distinct keys -/

theorem ddel_eq {β : Type} (k : Str) : ∀ {d : List (Str × β)}, (keys d).Nodup → Pk.ddel k d = dictDel d k
  | [], _ => rfl
  | (k', v') :: r, h => by
    have hn : k' ∉ keys r ∧ (keys r).Nodup := by simpa [keys] using h
    by_cases hk : k' = k
    · subst hk
      rw [dictDel_cons_same, dictDel_of_not_mem hn.1]
      simp [Pk.ddel]
    · rw [dictDel_cons_ne hk, ← ddel_eq k hn.2]
      simp [Pk.ddel, hk]

theorem map_id_of_not_mem {β : Type} {k : Str} (v : β) : ∀ {d : List (Str × β)}, k ∉ keys d →
    d.map (fun p => if p.1 = k then (k, v) else p) = d
  | [], _ => rfl
  | (k', v') :: r, h => by
    have hk : k' ≠ k := fun e => h (by simp [keys, e])
    have hr : k ∉ keys r := fun m => h (by simp only [keys, List.map_cons, List.mem_cons]; exact Or.inr m)
    simp [hk, map_id_of_not_mem v hr]

theorem any_key_iff {β : Type} {k : Str} {d : List (Str × β)} :
    d.any (fun p => decide (p.1 = k)) = true ↔ k ∈ keys d := by
  simp only [List.any_eq_true, decide_eq_true_eq, keys, List.mem_map]

theorem dictSet_of_not_mem {β : Type} {k : Str} (v : β) : ∀ {d : List (Str × β)}, k ∉ keys d →
    dictSet d k v = d ++ [(k, v)]
  | [], _ => rfl
  | (k', v') :: r, h => by
    have hk : k' ≠ k := fun e => h (by simp [keys, e])
    have hr : k ∉ keys r := fun m => h (by simp only [keys, List.map_cons, List.mem_cons]; exact Or.inr m)
    simp [dictSet, hk, dictSet_of_not_mem v hr]

theorem fset_eq {β : Type} (k : Str) (v : β) : ∀ {d : List (Str × β)}, (keys d).Nodup →
    Fmt.dictSet d k v = dictSet d k v
  | [], _ => rfl
  | (k', v') :: r, h => by
    have hn : k' ∉ keys r ∧ (keys r).Nodup := by simpa [keys] using h
    by_cases hk : k' = k
    · subst hk
      simp [Fmt.dictSet, dictSet, map_id_of_not_mem v hn.1]
    · have ih := fset_eq k v hn.2
      by_cases hm : k ∈ keys r
      · have ha : r.any (fun p => decide (p.1 = k)) = true := any_key_iff.mpr hm
        simp only [Fmt.dictSet, ha, if_true] at ih
        simp [Fmt.dictSet, dictSet, hk, ha, ih]
      · have ha : r.any (fun p => decide (p.1 = k)) = false := by
          cases hb : r.any (fun p => decide (p.1 = k)) with
          | false => rfl
          | true => exact absurd (any_key_iff.mp hb) hm
        simp [Fmt.dictSet, dictSet, hk, ha, dictSet_of_not_mem v hm]

/-! ### mapping the values of a dict -/

theorem map_dictSet {β γ : Type} (g : Str → β → γ) (k : Str) (v : β) : ∀ d : List (Str × β),
    (dictSet d k v).map (fun p => (p.1, g p.1 p.2)) = dictSet (d.map (fun p => (p.1, g p.1 p.2))) k (g k v)
  | [] => rfl
  | (k', v') :: r => by
    by_cases h : k' = k
    · simp [dictSet, h]
    · simp [dictSet, h, map_dictSet g k v r]

theorem map_dictDel {β γ : Type} (g : Str → β → γ) (k : Str) (d : List (Str × β)) :
    (dictDel d k).map (fun p => (p.1, g p.1 p.2)) = dictDel (d.map (fun p => (p.1, g p.1 p.2))) k := by
  unfold dictDel
  rw [List.filter_map]
  rfl

theorem keys_map {β γ : Type} (g : Str → β → γ) (d : List (Str × β)) :
    keys (d.map (fun p => (p.1, g p.1 p.2))) = keys d := by
  simp [keys, Function.comp_def]

/-- Overwriting the value under `k` makes two dicts equal that differ only in the value under `k`. -/
theorem dictSet_forget {β : Type} (f : β → β) (k : Str) (v : β) : ∀ {d : List (Str × β)}, (keys d).Nodup →
    dictSet (d.map (fun p => (p.1, if p.1 = k then f p.2 else p.2))) k v = dictSet d k v
  | [], _ => rfl
  | (k', v') :: r, h => by
    have hn : k' ∉ keys r ∧ (keys r).Nodup := by simpa [keys] using h
    by_cases hk : k' = k
    · subst hk
      have : r.map (fun p => (p.1, if p.1 = k' then f p.2 else p.2)) = r := by
        have h2 : ∀ p ∈ r, (p.1, if p.1 = k' then f p.2 else p.2) = p := by
          intro p hp
          have : p.1 ≠ k' := fun e => hn.1 (by rw [← e]; exact List.mem_map_of_mem hp)
          simp [this]
        calc r.map _ = r.map id := List.map_congr_left h2
          _ = r := List.map_id r
      simp [dictSet, this]
    · simp [dictSet, hk, dictSet_forget f k v hn.2]

theorem dictDel_forget {β : Type} (f : β → β) (k : Str) (d : List (Str × β)) :
    dictDel (d.map (fun p => (p.1, if p.1 = k then f p.2 else p.2))) k = dictDel d k := by
  induction d with
  | nil => rfl
  | cons p r ih =>
    obtain ⟨k', v'⟩ := p
    by_cases hk : k' = k
    · subst hk
      simp only [List.map_cons, if_true]
      rw [dictDel_cons_same, dictDel_cons_same, ih]
    · simp only [List.map_cons, hk, if_false]
      rw [dictDel_cons_ne hk, dictDel_cons_ne hk, ih]

/-! ### style text ↔ style map -/

theorem splitColon_eq : ∀ s : Str, Pk.splitColon s = Attrs.findColon s
  | [] => rfl
  | c :: r => by
    by_cases hc : c = ':'
    · simp [Pk.splitColon, Attrs.findColon, hc]
    · simp only [Pk.splitColon, Attrs.findColon, hc, if_false, splitColon_eq r]
      cases Attrs.findColon r with
      | none => rfl
      | some p => rfl

theorem findColon_index : ∀ s : Str,
    Attrs.findColon s = (indexOf? ':' s).map (fun i => (s.take i, s.drop (i + 1)))
  | [] => rfl
  | c :: r => by
    by_cases hc : c = ':'
    · simp [Attrs.findColon, indexOf?, hc]
    · simp only [Attrs.findColon, indexOf?, hc, if_false, findColon_index r]
      cases indexOf? ':' r <;> simp

theorem findColon_while : ∀ s : Str,
    Attrs.findColon s =
      if s.contains ':' then some (s.takeWhile (· ≠ ':'), (s.dropWhile (· ≠ ':')).drop 1) else none
  | [] => by simp [Attrs.findColon]
  | c :: r => by
    by_cases hc : c = ':'
    · subst hc; simp [Attrs.findColon]
    · have hc' : ¬ (':' = c) := fun e => hc e.symm
      simp only [Attrs.findColon, hc, if_false, findColon_while r]
      by_cases hm : ':' ∈ r
      · simp [hm, hc]
      · simp [hm, hc']

theorem styleStep_attrs (d : List (Str × Str)) (item : Str) :
    Attrs.styleItem d item =
      (match indexOf? ':' item with
       | none => d
       | some i => dictSet d (lower (strip (item.take i))) (strip (item.drop (i + 1)))) := by
  unfold Attrs.styleItem
  rw [findColon_index]
  cases indexOf? ':' item <;> simp [aset_eq]

theorem styleToDict_attrs (s : Str) : Attrs.styleToDict s = styleToDict s := by
  unfold Attrs.styleToDict styleToDict
  congr 1
  funext d item
  exact styleStep_attrs d item

theorem styleToDict_pk (s : Str) : Pk.styleToDict s = styleToDict s := by
  rw [← styleToDict_attrs]
  unfold Pk.styleToDict Attrs.styleToDict
  congr 1
  funext d item
  unfold Attrs.styleItem
  rw [splitColon_eq]
  cases Attrs.findColon item with
  | none => rfl
  | some p => simp [dset_eq, aset_eq]

theorem styleStr_attrs (m : List (Str × Str)) : Attrs.asStr m = styleStr m := rfl
theorem styleStr_pk (m : List (Str × Str)) : Pk.styleStr m = styleStr m := rfl
theorem styleStr_fmt (m : List (Str × Str)) : Fmt.styleStr m = styleStr m := rfl

theorem nodup_styleToDict (s : Str) : (keys (styleToDict s)).Nodup := by
  rw [← styleToDict_attrs, ← akeys_eq]; exact (Attrs.styRT_styleToDict s).1

/-- Parsing the rendering of a parsed style gives the same map: the copy `tag.style = StyleAttribute(…)`
    makes through the string form changes nothing. -/
theorem styleToDict_idem (s : Str) : styleToDict (styleStr (styleToDict s)) = styleToDict s := by
  have := Attrs.styleToDict_render_idem s
  rwa [styleStr_attrs, styleToDict_attrs, styleToDict_attrs] at this

/-! ### the formatter's style parser (written with `pyStrip` = `strip`) -/

def fmtStep (d : List (Str × Str)) (item : Str) : List (Str × Str) :=
  if item.contains ':' then
    Fmt.dictSet d (lower (Fmt.pyStrip (item.takeWhile (· ≠ ':')))) (Fmt.pyStrip ((item.dropWhile (· ≠ ':')).drop 1))
  else d

theorem fmt_styleToDict_eq (v : Str) : Fmt.styleToDict v = (splitChar ';' (Fmt.pyStrip v)).foldl fmtStep [] := rfl

theorem mem_takeWhile {p : Char → Bool} {x : Char} : ∀ {s : Str}, x ∈ s.takeWhile p → x ∈ s
  | [], h => by simp at h
  | c :: r, h => by
    rw [List.takeWhile_cons] at h
    split at h
    · rcases List.mem_cons.mp h with e | m
      · exact e ▸ List.mem_cons_self ..
      · exact List.mem_cons_of_mem _ (mem_takeWhile m)
    · simp at h

theorem fmtStep_eq {d : List (Str × Str)} (item : Str) (hd : (keys d).Nodup) :
    fmtStep d item = Attrs.styleItem d item := by
  unfold fmtStep Attrs.styleItem
  rw [findColon_while]
  by_cases hm : ':' ∈ item
  · simp only [List.contains_eq_mem, hm, decide_true, if_true]
    rw [pyStrip_eq, pyStrip_eq, fset_eq _ _ hd, aset_eq]
  · simp [hm]

theorem nodup_styleItem {d : List (Str × Str)} (hd : (keys d).Nodup) (item : Str) :
    (keys (Attrs.styleItem d item)).Nodup := by
  unfold Attrs.styleItem
  cases Attrs.findColon item with
  | none => exact hd
  | some p => simp only; rw [aset_eq]; exact nodup_dictSet _ _ hd

theorem foldl_fmtStep_eq : ∀ (items : List Str) {d : List (Str × Str)}, (keys d).Nodup →
    items.foldl fmtStep d = items.foldl Attrs.styleItem d
  | [], _, _ => rfl
  | it :: r, d, hd => by
    simp only [List.foldl_cons]
    rw [fmtStep_eq it hd]
    exact foldl_fmtStep_eq r (nodup_styleItem hd it)

/-- (4) = (1) on every string. -/
theorem styleToDict_fmt (v : Str) : Fmt.styleToDict v = styleToDict v := by
  rw [fmt_styleToDict_eq, pyStrip_eq, ← styleToDict_attrs]
  unfold Attrs.styleToDict
  exact foldl_fmtStep_eq _ (by simp [keys])

/-! #### white space and `lower` -/

theorem pyWs_lowerChar (c : Char) : Fmt.pyWs (lowerChar c) = Fmt.pyWs c := by
  unfold lowerChar
  split
  · next h =>
    have h1 : ∀ n : Nat, n < 91 → 65 ≤ n →
        Fmt.pyWs (Char.ofNat (n + 32)) = false ∧ Fmt.pyWs (Char.ofNat n) = false := by decide
    have ha : 65 ≤ c.toNat := h.1
    have hz : c.toNat ≤ 90 := h.2
    have := h1 c.toNat (by omega) ha
    rw [this.1]
    have hc : Char.ofNat c.toNat = c := Char.ofNat_toNat c
    rw [hc] at this
    exact this.2.symm
  · rfl

theorem mem_dictSet {β : Type} {k : Str} {v : β} {p : Str × β} {d : List (Str × β)}
    (h : p ∈ dictSet d k v) : p = (k, v) ∨ p ∈ d := by
  rw [← aset_eq] at h; exact Attrs.mem_aset h

/-- the formatter's `styleToDict(str(styleToDict(v)))` is model (1)'s `styleToDict v`. -/
theorem styleToDict_fmt_twice (v : Str) :
    Fmt.styleToDict (Fmt.styleStr (Fmt.styleToDict v)) = styleToDict v := by
  rw [styleToDict_fmt, styleStr_fmt, styleToDict_fmt, styleToDict_idem]

end AHP.AttrStores
