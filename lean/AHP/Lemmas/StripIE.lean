/-
  Lemmas about the model of `utils.stripIEConditionals` (AHP/Model/StripIE.lean): item-sequence matching in
  front of a character no item accepts, `findall` / `replace` on texts without the conditional's opener, and
  the single-conditional case.  The property theorems are in Props/C02.lean.
-/
import AHP.Model.StripIE
namespace AHP

/-- decidable: somewhere in the text stands `<!--` ws* `[` ws* `if` (ws = blank, tab, CR, LF) — the part of
    `IE_CONDITIONAL_PATTERN` in front of `.*-->` -/
def hasIEMarker (s : Str) : Bool := occurs ieOpenerPat s

/-- decidable: `-->` occurs in the text -/
def hasArrow : Str → Bool
  | [] => false
  | c :: cs => arrow.isPrefixOf (c :: cs) || hasArrow cs

/-! ### `dropWhile` / `takeWhile` in front of a character outside the class -/

theorem dropWhile_append_stop (p : Char → Bool) (e : Char) (b : Str) (he : p e = false) :
    ∀ x : Str, (x ++ e :: b).dropWhile p = x.dropWhile p ++ e :: b := by
  intro x
  induction x with
  | nil => simp [he]
  | cons c cs ih =>
    by_cases hc : p c = true
    · simp [hc, ih]
    · simp [hc]

theorem takeWhile_append_stop2 (p : Char → Bool) (e : Char) (b : Str) (he : p e = false) :
    ∀ x : Str, (x ++ e :: b).takeWhile p = x.takeWhile p := by
  intro x
  induction x with
  | nil => simp [he]
  | cons c cs ih =>
    by_cases hc : p c = true
    · simp [hc, ih]
    · simp [hc]

theorem dropWhile_all_nil (p : Char → Bool) : ∀ w : Str, (∀ c ∈ w, p c = true) → w.dropWhile p = [] := by
  intro w
  induction w with
  | nil => intro _; rfl
  | cons c cs ih =>
    intro h
    have hc := h c List.mem_cons_self
    simp only [List.dropWhile_cons, hc, if_true]
    exact ih (fun x hx => h x (List.mem_cons_of_mem _ hx))

theorem takeWhile_all_self (p : Char → Bool) : ∀ w : Str, (∀ c ∈ w, p c = true) → w.takeWhile p = w := by
  intro w
  induction w with
  | nil => intro _; rfl
  | cons c cs ih =>
    intro h
    have hc := h c List.mem_cons_self
    simp only [List.takeWhile_cons, hc, if_true]
    rw [ih (fun x hx => h x (List.mem_cons_of_mem _ hx))]

theorem takeWhile_append_all (p : Char → Bool) (y : Str) :
    ∀ w : Str, (∀ c ∈ w, p c = true) → (w ++ y).takeWhile p = w ++ y.takeWhile p := by
  intro w
  induction w with
  | nil => intro _; rfl
  | cons c cs ih =>
    intro h
    have hc := h c List.mem_cons_self
    simp only [List.cons_append, List.takeWhile_cons, hc, if_true]
    rw [ih (fun x hx => h x (List.mem_cons_of_mem _ hx))]

/-! ### matching an item sequence -/

theorem matchItems_nil (s : Str) : matchItems [] s = some ([], s) := by
  cases s <;> rfl

theorem matchItems_one_nil (cs : List Char) (ps : List PItem) : matchItems (.one cs :: ps) [] = none := rfl

theorem matchItems_one_cons (cs : List Char) (ps : List PItem) (x : Char) (s : Str) :
    matchItems (.one cs :: ps) (x :: s) =
      if cs.contains x then
        match matchItems ps s with
        | some (m, r) => some (x :: m, r)
        | none => none
      else none := rfl

theorem matchItems_star (cs : List Char) (ps : List PItem) (s : Str) :
    matchItems (.star cs :: ps) s =
      match matchItems ps (s.dropWhile cs.contains) with
      | some (m, r) => some (s.takeWhile cs.contains ++ m, r)
      | none => none := by
  cases s <;> rfl

theorem matchItems_one_isSome (cs : List Char) (ps : List PItem) (x : Char) (s : Str) :
    (matchItems (.one cs :: ps) (x :: s)).isSome = (cs.contains x && (matchItems ps s).isSome) := by
  rw [matchItems_one_cons]
  cases hc : cs.contains x
  · simp
  · cases hm : matchItems ps s with
    | none => simp
    | some mr => obtain ⟨m, r⟩ := mr; simp

/-- in front of a character that no item of the sequence accepts, the sequence matches as it does on the text
    before that character (what follows plays no part) -/
theorem matchItems_stop (e : Char) (b : Str) : ∀ (ps : List PItem), (∀ it ∈ ps, it.cls.contains e = false) →
    ∀ x : Str, matchItems ps (x ++ e :: b) = (matchItems ps x).map (fun mr => (mr.1, mr.2 ++ e :: b)) := by
  intro ps
  induction ps with
  | nil => intro _ x; simp [matchItems_nil]
  | cons it ps ih =>
    intro he x
    have he' : ∀ it ∈ ps, it.cls.contains e = false := fun i hi => he i (List.mem_cons_of_mem _ hi)
    have hit := he it List.mem_cons_self
    cases it with
    | one cs =>
      simp only [PItem.cls] at hit
      cases x with
      | nil =>
        rw [List.nil_append, matchItems_one_cons, matchItems_one_nil, hit]
        rfl
      | cons y x' =>
        rw [List.cons_append, matchItems_one_cons, matchItems_one_cons, ih he' x']
        cases hc : cs.contains y
        · simp
        · cases hm : matchItems ps x' with
          | none => simp
          | some mr => obtain ⟨m, r⟩ := mr; simp
    | star cs =>
      simp only [PItem.cls] at hit
      rw [matchItems_star, matchItems_star, dropWhile_append_stop _ e b hit, takeWhile_append_stop2 _ e b hit,
        ih he' (x.dropWhile cs.contains)]
      cases hm : matchItems ps (x.dropWhile cs.contains) with
      | none => simp
      | some mr => obtain ⟨m, r⟩ := mr; simp

theorem matchItems_stop_isSome (e : Char) (b : Str) (ps : List PItem) (he : ∀ it ∈ ps, it.cls.contains e = false)
    (x : Str) : (matchItems ps (x ++ e :: b)).isSome = (matchItems ps x).isSome := by
  rw [matchItems_stop e b ps he x]
  cases matchItems ps x <;> rfl

/-- a starred class in front of text that starts outside the class takes exactly the run of class characters -/
theorem matchItems_star_run (cs : List Char) (ps : List PItem) (w : Str) (e : Char) (b : Str)
    (hw : ∀ c ∈ w, cs.contains c = true) (he : cs.contains e = false) :
    matchItems (.star cs :: ps) (w ++ e :: b) = (matchItems ps (e :: b)).map (fun mr => (w ++ mr.1, mr.2)) := by
  rw [matchItems_star, dropWhile_append_stop _ e b he, takeWhile_append_stop2 _ e b he,
    dropWhile_all_nil _ w hw, takeWhile_all_self _ w hw]
  simp only [List.nil_append]
  cases hm : matchItems ps (e :: b) with
  | none => rfl
  | some mr => obtain ⟨m, r⟩ := mr; rfl

/-! ### occurrences -/

theorem occurs_nil_one (cs : List Char) (ps : List PItem) : occurs (.one cs :: ps) [] = false := rfl

theorem occurs_cons (ps : List PItem) (c : Char) (s : Str) :
    occurs ps (c :: s) = ((matchItems ps (c :: s)).isSome || occurs ps s) := rfl

/-- occurrences of a sequence `[c₀] tl` in `x ++ e :: b`, where no item of `tl` accepts `e`: those in `x` and
    those in `e :: b` — none reaches across -/
theorem occurs_append_stop (cs0 : List Char) (tl : List PItem) (e : Char) (b : Str)
    (he : ∀ it ∈ tl, it.cls.contains e = false) :
    ∀ x : Str, occurs (.one cs0 :: tl) (x ++ e :: b) = (occurs (.one cs0 :: tl) x || occurs (.one cs0 :: tl) (e :: b)) := by
  intro x
  induction x with
  | nil => simp [occurs_nil_one]
  | cons c x' ih =>
    rw [List.cons_append, occurs_cons, occurs_cons, ih, matchItems_one_isSome, matchItems_one_isSome,
      matchItems_stop_isSome e b tl he x', Bool.or_assoc]

theorem occurs_cons_not_first (cs0 : List Char) (tl : List PItem) (e : Char) (b : Str) (he : cs0.contains e = false) :
    occurs (.one cs0 :: tl) (e :: b) = occurs (.one cs0 :: tl) b := by
  rw [occurs_cons, matchItems_one_isSome, he]
  simp

/-- the same with a character that no item at all accepts: the text falls apart there -/
theorem occurs_split (cs0 : List Char) (tl : List PItem) (e : Char) (b : Str)
    (he0 : cs0.contains e = false) (he : ∀ it ∈ tl, it.cls.contains e = false) (x : Str) :
    occurs (.one cs0 :: tl) (x ++ e :: b) = (occurs (.one cs0 :: tl) x || occurs (.one cs0 :: tl) b) := by
  rw [occurs_append_stop cs0 tl e b he x, occurs_cons_not_first cs0 tl e b he0]

theorem occurs_false_of_not_mem_first (cs0 : List Char) (tl : List PItem) :
    ∀ s : Str, (∀ c ∈ s, cs0.contains c = false) → occurs (.one cs0 :: tl) s = false := by
  intro s
  induction s with
  | nil => intro _; rfl
  | cons c cs ih =>
    intro h
    rw [occurs_cons, matchItems_one_isSome, h c List.mem_cons_self, ih (fun x hx => h x (List.mem_cons_of_mem _ hx))]
    rfl

/-! ### the conditional's opener -/

/-- the characters the items after the first `<` of the opener accept -/
def ieTail : List PItem := .one ['!'] :: .one ['-'] :: .one ['-'] :: ieCondPat

theorem ieOpenerPat_eq : ieOpenerPat = .one ['<'] :: ieTail := rfl

/-- a character outside `! - [ i f` and the white space class stops every item after the first -/
def IEStop (e : Char) : Prop := ∀ it ∈ ieTail, it.cls.contains e = false

instance (e : Char) : Decidable (IEStop e) := by unfold IEStop; exact inferInstance

theorem ieStop_lt : IEStop '<' := by decide
theorem ieStop_gt : IEStop '>' := by decide
theorem ieStop_amp : IEStop '&' := by decide
theorem ieStop_semi : IEStop ';' := by decide
theorem ieStop_quote : IEStop '"' := by decide

theorem hasIEMarker_cons (c : Char) (s : Str) :
    hasIEMarker (c :: s) = ((matchItems ieOpenerPat (c :: s)).isSome || hasIEMarker s) := rfl

theorem hasIEMarker_append_stop (e : Char) (he : IEStop e) (x b : Str) :
    hasIEMarker (x ++ e :: b) = (hasIEMarker x || hasIEMarker (e :: b)) :=
  occurs_append_stop ['<'] ieTail e b he x

theorem hasIEMarker_split (e : Char) (he : IEStop e) (hlt : e ≠ '<') (x b : Str) :
    hasIEMarker (x ++ e :: b) = (hasIEMarker x || hasIEMarker b) := by
  apply occurs_split ['<'] ieTail e b _ he x
  simp [hlt]

theorem hasIEMarker_no_lt (s : Str) (h : '<' ∉ s) : hasIEMarker s = false := by
  apply occurs_false_of_not_mem_first
  intro c hc
  have : c ≠ '<' := fun e => h (e ▸ hc)
  simp [this]

/-- `<` followed by something else than `!` opens no conditional -/
theorem ieOpener_not_bang (c : Char) (r : Str) (hc : c ≠ '!') : (matchItems ieOpenerPat ('<' :: c :: r)).isSome = false := by
  rw [ieOpenerPat_eq, matchItems_one_isSome]
  unfold ieTail
  rw [matchItems_one_isSome]
  simp [hc]

/-- explicit reading of the opener: `<!--`, white space, `[`, white space, `if` -/
def IsIEOpener (op : Str) : Prop :=
  ∃ w1 w2 : Str, (∀ c ∈ w1, reWs.contains c = true) ∧ (∀ c ∈ w2, reWs.contains c = true) ∧
    op = "<!--".toList ++ w1 ++ '[' :: w2 ++ "if".toList

theorem matchItems_opener (op r : Str) (h : IsIEOpener op) : matchItems ieOpenerPat (op ++ r) = some (op, r) := by
  obtain ⟨w1, w2, h1, h2, rfl⟩ := h
  have e1 : "<!--".toList ++ w1 ++ '[' :: w2 ++ "if".toList ++ r
      = '<' :: '!' :: '-' :: '-' :: (w1 ++ '[' :: (w2 ++ 'i' :: 'f' :: r)) := by simp
  rw [e1]
  unfold ieOpenerPat ieCondPat
  rw [matchItems_one_cons, matchItems_one_cons, matchItems_one_cons, matchItems_one_cons,
    matchItems_star_run reWs _ w1 '[' _ h1 (by decide), matchItems_one_cons,
    matchItems_star_run reWs _ w2 'i' _ h2 (by decide), matchItems_one_cons, matchItems_one_cons, matchItems_nil]
  simp

theorem isIEOpener_head (op : Str) (h : IsIEOpener op) : ∃ r, op = '<' :: r := by
  obtain ⟨w1, w2, _, _, rfl⟩ := h
  exact ⟨_, rfl⟩

/-! ### the declarative reading of an item sequence (regular-expression semantics of the prefix)

  `Matches ps m`: the text `m` is matched by the item sequence in *some* way (each `one` takes a character of its
  class, each `star` any run of characters of its class).  A backtracking matcher finds a match at a position
  iff there is `m` with `Matches ps m` in front of the text there.  For sequences in which every star is
  followed by a `one` of a disjoint class (`Det`; the three patterns of `utils.py` are of this kind) the greedy
  `matchItems` finds it, and it is the only one. -/

inductive Matches : List PItem → Str → Prop
  | nil : Matches [] []
  | one (cs : List Char) (ps : List PItem) (c : Char) (m : Str) :
      cs.contains c = true → Matches ps m → Matches (.one cs :: ps) (c :: m)
  | star (cs : List Char) (ps : List PItem) (w m : Str) :
      (∀ c ∈ w, cs.contains c = true) → Matches ps m → Matches (.star cs :: ps) (w ++ m)

/-- every star is followed by a single-character item whose class is disjoint from the star's -/
def Det : List PItem → Prop
  | [] => True
  | .one _ :: ps => Det ps
  | .star cs :: .one cs' :: ps => (∀ c ∈ cs', cs.contains c = false) ∧ Det (.one cs' :: ps)
  | .star _ :: _ => False

theorem mem_takeWhile_imp (p : Char → Bool) : ∀ (l : Str) (x : Char), x ∈ l.takeWhile p → p x = true := by
  intro l
  induction l with
  | nil => intro x hx; simp at hx
  | cons c cs ih =>
    intro x hx
    by_cases hc : p c = true
    · simp only [List.takeWhile_cons, hc, if_true] at hx
      rcases List.mem_cons.mp hx with e | e
      · rw [e]; exact hc
      · exact ih x e
    · simp [hc] at hx

/-- what `matchItems` returns is a match in the declarative sense, and the text splits accordingly -/
theorem matchItems_sound : ∀ (ps : List PItem) (z m r : Str), matchItems ps z = some (m, r) → Matches ps m ∧ z = m ++ r := by
  intro ps
  induction ps with
  | nil =>
    intro z m r h
    rw [matchItems_nil] at h
    simp at h
    obtain ⟨rfl, rfl⟩ := h
    exact ⟨Matches.nil, rfl⟩
  | cons it ps ih =>
    intro z m r h
    cases it with
    | one cs =>
      cases z with
      | nil => rw [matchItems_one_nil] at h; exact absurd h (by simp)
      | cons x z' =>
        rw [matchItems_one_cons] at h
        cases hc : cs.contains x with
        | false => rw [hc] at h; simp at h
        | true =>
          rw [hc] at h
          cases hm : matchItems ps z' with
          | none => rw [hm] at h; simp at h
          | some mr =>
            obtain ⟨m', r'⟩ := mr
            rw [hm] at h
            simp at h
            obtain ⟨rfl, rfl⟩ := h
            obtain ⟨h1, h2⟩ := ih z' m' r' hm
            exact ⟨Matches.one cs ps x m' hc h1, by rw [h2]; rfl⟩
    | star cs =>
      rw [matchItems_star] at h
      cases hm : matchItems ps (z.dropWhile cs.contains) with
      | none => rw [hm] at h; simp at h
      | some mr =>
        obtain ⟨m', r'⟩ := mr
        rw [hm] at h
        simp at h
        obtain ⟨rfl, rfl⟩ := h
        obtain ⟨h1, h2⟩ := ih _ m' r' hm
        refine ⟨Matches.star cs ps _ m' (fun c hc => mem_takeWhile_imp _ z c hc) h1, ?_⟩
        rw [List.append_assoc, ← h2, List.takeWhile_append_dropWhile]

/-- for a `Det` sequence every declarative match is the one `matchItems` finds, whatever follows it -/
theorem matchItems_complete : ∀ (ps : List PItem) (m : Str), Matches ps m → Det ps →
    ∀ r : Str, matchItems ps (m ++ r) = some (m, r) := by
  intro ps m hm
  induction hm with
  | nil => intro _ r; rw [List.nil_append, matchItems_nil]
  | one cs ps c m hc _ ih =>
    intro hd r
    rw [List.cons_append, matchItems_one_cons, hc, ih hd r]
    rfl
  | star cs ps w m hw hm ih =>
    intro hd r
    cases hm with
    | nil => exact absurd hd (by simp [Det])
    | star cs' ps' w' m' _ _ => exact absurd hd (by simp [Det])
    | one cs' ps' c m' hc hm' =>
      have hdis : cs.contains c = false := hd.1 c (List.contains_iff_mem.mp hc)
      have := ih hd.2 r
      rw [List.append_assoc, List.cons_append, matchItems_star_run cs _ w c (m' ++ r) hw hdis]
      rw [List.cons_append] at this
      rw [this]
      rfl

/-- **greedy = declarative** for the deterministic sequences -/
theorem matchItems_iff (ps : List PItem) (hd : Det ps) (z m r : Str) :
    matchItems ps z = some (m, r) ↔ Matches ps m ∧ z = m ++ r :=
  ⟨matchItems_sound ps z m r, fun ⟨h1, h2⟩ => by rw [h2]; exact matchItems_complete ps m h1 hd r⟩

/-- a text has at most one prefix matched by a deterministic sequence -/
theorem matches_unique (ps : List PItem) (hd : Det ps) (m₁ r₁ m₂ r₂ : Str) (h₁ : Matches ps m₁) (h₂ : Matches ps m₂)
    (he : m₁ ++ r₁ = m₂ ++ r₂) : m₁ = m₂ ∧ r₁ = r₂ := by
  have a := matchItems_complete ps m₁ h₁ hd r₁
  have b := matchItems_complete ps m₂ h₂ hd r₂
  rw [he, b] at a
  simp at a
  exact ⟨a.1.symm, a.2.symm⟩

theorem det_ieOpenerPat : Det ieOpenerPat := ⟨by decide, by decide, trivial⟩
theorem det_endHtmlPat : Det endHtmlPat := ⟨by decide, by decide, trivial⟩
theorem det_startHtmlPat : Det startHtmlPat := ⟨by decide, by decide, trivial⟩

/-- the declarative matches of the opener pattern are the explicit openers -/
theorem matches_opener_iff (op : Str) : Matches ieOpenerPat op ↔ IsIEOpener op := by
  constructor
  · intro h
    have := matchItems_complete ieOpenerPat op h det_ieOpenerPat []
    rw [List.append_nil] at this
    unfold ieOpenerPat ieCondPat at h
    cases h with
    | one _ _ c1 m1 hc1 h =>
    cases h with
    | one _ _ c2 m2 hc2 h =>
    cases h with
    | one _ _ c3 m3 hc3 h =>
    cases h with
    | one _ _ c4 m4 hc4 h =>
    cases h with
    | star _ _ w1 m5 hw1 h =>
    cases h with
    | one _ _ c5 m6 hc5 h =>
    cases h with
    | star _ _ w2 m7 hw2 h =>
    cases h with
    | one _ _ c6 m8 hc6 h =>
    cases h with
    | one _ _ c7 m9 hc7 h =>
    cases h
    simp at hc1 hc2 hc3 hc4 hc5 hc6 hc7
    subst hc1 hc2 hc3 hc4 hc5 hc6 hc7
    exact ⟨w1, w2, hw1, hw2, by simp⟩
  · intro h
    have := matchItems_opener op [] h
    rw [List.append_nil] at this
    exact (matchItems_sound _ _ _ _ this).1

/-- `hasIEMarker`, explicitly: an opener stands somewhere in the text -/
theorem occurs_iff (ps : List PItem) (s : Str) :
    occurs ps s = true ↔ ∃ a m r, s = a ++ m ++ r ∧ matchItems ps (m ++ r) = some (m, r) := by
  induction s with
  | nil =>
    constructor
    · intro h
      unfold occurs at h
      cases hm : matchItems ps [] with
      | none => rw [hm] at h; simp at h
      | some mr =>
        obtain ⟨m, r⟩ := mr
        obtain ⟨_, h2⟩ := matchItems_sound ps [] m r hm
        exact ⟨[], m, r, by simpa using h2, by rw [← h2]; exact hm⟩
    · rintro ⟨a, m, r, h1, h2⟩
      have : a = [] ∧ m = [] ∧ r = [] := by
        have := congrArg List.length h1
        simp at this
        exact ⟨List.eq_nil_of_length_eq_zero (by omega), List.eq_nil_of_length_eq_zero (by omega),
          List.eq_nil_of_length_eq_zero (by omega)⟩
      obtain ⟨rfl, rfl, rfl⟩ := this
      unfold occurs
      rw [List.append_nil] at h2
      rw [h2]; rfl
  | cons c cs ih =>
    rw [occurs_cons, Bool.or_eq_true]
    constructor
    · rintro (h | h)
      · cases hm : matchItems ps (c :: cs) with
        | none => rw [hm] at h; simp at h
        | some mr =>
          obtain ⟨m, r⟩ := mr
          obtain ⟨_, h2⟩ := matchItems_sound ps _ m r hm
          exact ⟨[], m, r, by simpa using h2, by rw [← h2]; exact hm⟩
      · obtain ⟨a, m, r, h1, h2⟩ := ih.mp h
        exact ⟨c :: a, m, r, by rw [h1]; simp, h2⟩
    · rintro ⟨a, m, r, h1, h2⟩
      cases a with
      | nil =>
        left
        rw [List.nil_append] at h1
        rw [h1, h2]; rfl
      | cons a0 a' =>
        right
        simp at h1
        exact ih.mpr ⟨a', m, r, by rw [h1.2]; simp, h2⟩

theorem hasIEMarker_iff (s : Str) : hasIEMarker s = true ↔ ∃ a op b, IsIEOpener op ∧ s = a ++ op ++ b := by
  unfold hasIEMarker
  rw [occurs_iff]
  constructor
  · rintro ⟨a, m, r, h1, h2⟩
    exact ⟨a, m, r, (matches_opener_iff m).mp (matchItems_sound _ _ _ _ h2).1, h1⟩
  · rintro ⟨a, op, b, hop, h1⟩
    exact ⟨a, op, b, h1, matchItems_opener op b hop⟩

/-! ### greedy `.*-->` -/

theorem throughLastArrow_none_iff (l : Str) : throughLastArrow l = none ↔ hasArrow l = false := by
  induction l with
  | nil => simp [throughLastArrow, hasArrow]
  | cons c cs ih =>
    unfold throughLastArrow hasArrow
    cases ht : throughLastArrow cs with
    | some ab =>
      obtain ⟨a, b⟩ := ab
      have : hasArrow cs = true := by
        cases hh : hasArrow cs with
        | true => rfl
        | false => rw [ih.mpr hh] at ht; exact absurd ht (by simp)
      simp [this]
    | none =>
      have : hasArrow cs = false := ih.mp ht
      by_cases hp : arrow.isPrefixOf (c :: cs) = true
      · simp [hp]
      · simp [hp, this]

/-- the match of `.*-->` on a line ends at an arrow after which no further arrow stands -/
theorem throughLastArrow_append (l : Str) (h : hasArrow l = false) :
    ∀ x : Str, throughLastArrow (x ++ arrow ++ l) = some (x ++ arrow, l) := by
  have hl : throughLastArrow l = none := (throughLastArrow_none_iff l).mpr h
  have h1 : throughLastArrow ('>' :: l) = none := by
    unfold throughLastArrow; rw [hl]; simp [arrow, List.isPrefixOf]
  have h2 : throughLastArrow ('-' :: '>' :: l) = none := by
    unfold throughLastArrow; rw [h1]; simp [arrow, List.isPrefixOf]
  intro x
  induction x with
  | nil =>
    show throughLastArrow ('-' :: '-' :: '>' :: l) = _
    unfold throughLastArrow; rw [h2]; simp [arrow, List.isPrefixOf]
  | cons c cs ih =>
    show throughLastArrow (c :: (cs ++ arrow ++ l)) = _
    unfold throughLastArrow
    rw [ih]
    rfl

/-! ### `findall` and `replace` on texts without the opener -/

theorem ieMatchAt_none (s : Str) (h : (matchItems ieOpenerPat s).isSome = false) : ieMatchAt s = none := by
  unfold ieMatchAt
  cases hm : matchItems ieOpenerPat s with
  | none => rfl
  | some mr => rw [hm] at h; simp at h

theorem ieFindAllAux_zero_cons (c : Char) (cs : Str) :
    ieFindAllAux 0 (c :: cs) =
      match ieMatchAt (c :: cs) with
      | some m => m :: ieFindAllAux (m.length - 1) cs
      | none => ieFindAllAux 0 cs := rfl

theorem removeAux_zero_cons (m : Str) (c : Char) (cs : Str) :
    removeAux m 0 (c :: cs) =
      if m.isPrefixOf (c :: cs) then removeAux m (m.length - 1) cs else c :: removeAux m 0 cs := rfl

theorem ieFindAllAux_nil (s : Str) (h : hasIEMarker s = false) : ∀ k, ieFindAllAux k s = [] := by
  induction s with
  | nil => intro k; cases k <;> rfl
  | cons c cs ih =>
    rw [hasIEMarker_cons, Bool.or_eq_false_iff] at h
    intro k
    cases k with
    | succ k => exact ih h.2 k
    | zero =>
      rw [ieFindAllAux_zero_cons, ieMatchAt_none _ h.1]
      exact ih h.2 0

theorem ieFindAllAux_skip (y : Str) : ∀ x : Str, ieFindAllAux x.length (x ++ y) = ieFindAllAux 0 y := by
  intro x
  induction x with
  | nil => rfl
  | cons c cs ih => exact ih

theorem removeAux_skip (m y : Str) : ∀ x : Str, removeAux m x.length (x ++ y) = removeAux m 0 y := by
  intro x
  induction x with
  | nil => rfl
  | cons c cs ih => exact ih

/-- a text that starts with a whole opener is matched by the opener pattern -/
theorem opener_of_isPrefixOf (op t z : Str) (hop : IsIEOpener op) (h : (op ++ t).isPrefixOf z = true) :
    (matchItems ieOpenerPat z).isSome = true := by
  obtain ⟨u, hu⟩ := List.isPrefixOf_iff_prefix.mp h
  rw [← hu, List.append_assoc, matchItems_opener op (t ++ u) hop]
  rfl

theorem removeAux_id (op t : Str) (hop : IsIEOpener op) :
    ∀ z : Str, hasIEMarker z = false → removeAux (op ++ t) 0 z = z := by
  intro z
  induction z with
  | nil => intro _; rfl
  | cons c cs ih =>
    intro h
    rw [hasIEMarker_cons, Bool.or_eq_false_iff] at h
    rw [removeAux_zero_cons]
    have : (op ++ t).isPrefixOf (c :: cs) = false := by
      cases hp : (op ++ t).isPrefixOf (c :: cs) with
      | false => rfl
      | true => rw [opener_of_isPrefixOf op t _ hop hp] at h; exact absurd h.1 (by simp)
    rw [this, ih h.2]
    rfl

/-- in front of a `<`, a text without the opener stays without it: no opener starts inside `pre` -/
theorem no_opener_in_pre (c : Char) (pre' y : Str) (h : hasIEMarker (c :: pre') = false) :
    (matchItems ieOpenerPat (c :: (pre' ++ '<' :: y))).isSome = false := by
  rw [hasIEMarker_cons, Bool.or_eq_false_iff] at h
  rw [ieOpenerPat_eq, matchItems_one_isSome, matchItems_stop_isSome '<' y ieTail ieStop_lt pre',
    ← matchItems_one_isSome, ← ieOpenerPat_eq]
  exact h.1

theorem ieFindAllAux_pre (y : Str) : ∀ pre : Str, hasIEMarker pre = false →
    ieFindAllAux 0 (pre ++ '<' :: y) = ieFindAllAux 0 ('<' :: y) := by
  intro pre
  induction pre with
  | nil => intro _; rfl
  | cons c pre' ih =>
    intro h
    have h0 := no_opener_in_pre c pre' y h
    rw [hasIEMarker_cons, Bool.or_eq_false_iff] at h
    show ieFindAllAux 0 (c :: (pre' ++ '<' :: y)) = _
    rw [ieFindAllAux_zero_cons, ieMatchAt_none _ h0]
    exact ih h.2

theorem removeAux_pre (op t y : Str) (hop : IsIEOpener op) : ∀ pre : Str, hasIEMarker pre = false →
    removeAux (op ++ t) 0 (pre ++ '<' :: y) = pre ++ removeAux (op ++ t) 0 ('<' :: y) := by
  intro pre
  induction pre with
  | nil => intro _; rfl
  | cons c pre' ih =>
    intro h
    have h0 := no_opener_in_pre c pre' y h
    rw [hasIEMarker_cons, Bool.or_eq_false_iff] at h
    show removeAux (op ++ t) 0 (c :: (pre' ++ '<' :: y)) = _
    rw [removeAux_zero_cons]
    have : (op ++ t).isPrefixOf (c :: (pre' ++ '<' :: y)) = false := by
      cases hp : (op ++ t).isPrefixOf (c :: (pre' ++ '<' :: y)) with
      | false => rfl
      | true =>
        have := opener_of_isPrefixOf op t _ hop hp
        rw [h0] at this
        exact absurd this (by simp)
    rw [this, ih h.2]
    rfl

/-- **no opener, nothing to strip** -/
theorem stripIE_of_no_marker (s : Str) (h : hasIEMarker s = false) : stripIE s = s := by
  unfold stripIE ieFindAll
  rw [ieFindAllAux_nil s h 0]
  rfl

/-! ### one conditional on one line -/

/-- `IE_CONDITIONAL_PATTERN` matches `op body -->` at the start of `op body --> post` when `body` stays on the
    line and no further `-->` stands on the rest of that line -/
theorem ieMatchAt_cond (op body post : Str) (hop : IsIEOpener op) (hbody : '\n' ∉ body)
    (hline : hasArrow (post.takeWhile (· ≠ '\n')) = false) :
    ieMatchAt (op ++ body ++ arrow ++ post) = some (op ++ body ++ arrow) := by
  unfold ieMatchAt
  have e : op ++ body ++ arrow ++ post = op ++ (body ++ arrow ++ post) := by simp
  rw [e, matchItems_opener op _ hop]
  simp only
  have hall : ∀ c ∈ body ++ arrow, (fun c : Char => decide (c ≠ '\n')) c = true := by
    intro c hc
    rcases List.mem_append.mp hc with h | h
    · have : c ≠ '\n' := fun e => hbody (e ▸ h)
      simp [this]
    · simp only [arrow, List.mem_cons, List.not_mem_nil, or_false] at h
      rcases h with rfl | rfl | rfl <;> decide
  have e2 : body ++ arrow ++ post = (body ++ arrow) ++ post := rfl
  rw [e2, takeWhile_append_all _ post (body ++ arrow) hall, throughLastArrow_append _ hline body]
  simp

/-! ### the explicit reading of one match of `IE_CONDITIONAL_PATTERN` -/

theorem hasArrow_tail2 (c d : Char) (t : Str) (h : hasArrow (c :: d :: t) = false) : hasArrow t = false := by
  unfold hasArrow at h
  rw [Bool.or_eq_false_iff] at h
  have h2 := h.2
  unfold hasArrow at h2
  rw [Bool.or_eq_false_iff] at h2
  exact h2.2

theorem throughLastArrow_some : ∀ (l a b : Str), throughLastArrow l = some (a, b) →
    ∃ body, a = body ++ arrow ∧ l = a ++ b ∧ hasArrow b = false := by
  intro l
  induction l with
  | nil => intro a b h; simp [throughLastArrow] at h
  | cons c cs ih =>
    intro a b h
    unfold throughLastArrow at h
    cases ht : throughLastArrow cs with
    | some ab =>
      obtain ⟨a', b'⟩ := ab
      rw [ht] at h
      simp at h
      obtain ⟨rfl, rfl⟩ := h
      obtain ⟨body, h1, h2, h3⟩ := ih a' b' ht
      exact ⟨c :: body, by rw [h1]; rfl, by rw [h2]; rfl, h3⟩
    | none =>
      rw [ht] at h
      simp only at h
      by_cases hp : arrow.isPrefixOf (c :: cs) = true
      · rw [if_pos hp] at h
        simp at h
        obtain ⟨rfl, rfl⟩ := h
        obtain ⟨t, ht2⟩ := List.isPrefixOf_iff_prefix.mp hp
        have hcs : cs = '-' :: '>' :: t := by
          simp [arrow] at ht2
          exact ht2.2.symm
        refine ⟨[], rfl, ?_, ?_⟩
        · rw [hcs]; simp [arrow] at ht2 ⊢; exact ht2.1.symm
        · rw [hcs]
          simp only [List.drop_succ_cons, List.drop_zero]
          have := (throughLastArrow_none_iff cs).mp ht
          rw [hcs] at this
          exact hasArrow_tail2 _ _ _ this
      · rw [if_neg hp] at h
        exact absurd h (by simp)

theorem takeWhile_dropWhile_nil (p : Char → Bool) : ∀ l : Str, (l.dropWhile p).takeWhile p = [] := by
  intro l
  induction l with
  | nil => rfl
  | cons c cs ih =>
    by_cases hc : p c = true
    · simp only [List.dropWhile_cons, hc, if_true]; exact ih
    · simp [hc]

/-- **one match, explicitly**: `IE_CONDITIONAL_PATTERN.match(z)` gives `m` iff `m` is an opener, a body that
    stays on the line, and `-->`, in front of a rest whose first line has no further `-->` -/
theorem ieMatchAt_iff (z m : Str) : ieMatchAt z = some m ↔
    ∃ op body rest, IsIEOpener op ∧ '\n' ∉ body ∧ m = op ++ body ++ arrow ∧ z = m ++ rest ∧
      hasArrow (rest.takeWhile (· ≠ '\n')) = false := by
  constructor
  · intro h
    unfold ieMatchAt at h
    cases hm : matchItems ieOpenerPat z with
    | none => rw [hm] at h; simp at h
    | some opr =>
      obtain ⟨op, r⟩ := opr
      rw [hm] at h
      simp only at h
      obtain ⟨hop, hz⟩ := matchItems_sound _ _ _ _ hm
      cases ht : throughLastArrow (r.takeWhile (· ≠ '\n')) with
      | none => rw [ht] at h; simp at h
      | some ab =>
        obtain ⟨a, b⟩ := ab
        rw [ht] at h
        simp at h
        obtain ⟨body, ha, hl, hb⟩ := throughLastArrow_some _ a b ht
        have hall : ∀ c ∈ a ++ b, (fun c : Char => decide (c ≠ '\n')) c = true := by
          intro c hc
          rw [← hl] at hc
          exact mem_takeWhile_imp _ r c hc
        refine ⟨op, body, b ++ r.dropWhile (· ≠ '\n'), (matches_opener_iff op).mp hop, ?_, ?_, ?_, ?_⟩
        · intro hn
          have := hall '\n' (by rw [ha]; simp [hn])
          simp at this
        · rw [← h, ha]; simp
        · rw [hz, ← h]
          have : r = a ++ b ++ r.dropWhile (· ≠ '\n') := by
            rw [← hl, List.takeWhile_append_dropWhile]
          conv => lhs; rw [this]
          simp
        · rw [takeWhile_append_all _ _ b (fun c hc => hall c (List.mem_append_right _ hc)),
            takeWhile_dropWhile_nil, List.append_nil]
          exact hb
  · rintro ⟨op, body, rest, hop, hbody, rfl, rfl, hline⟩
    exact ieMatchAt_cond op body rest hop hbody hline

theorem ieFindAll_single (pre op body post : Str) (hop : IsIEOpener op) (hbody : '\n' ∉ body)
    (hpre : hasIEMarker pre = false) (hpost : hasIEMarker post = false)
    (hline : hasArrow (post.takeWhile (· ≠ '\n')) = false) :
    ieFindAll (pre ++ (op ++ body ++ arrow) ++ post) = [op ++ body ++ arrow] := by
  obtain ⟨op', rfl⟩ := isIEOpener_head op hop
  unfold ieFindAll
  have e : pre ++ ('<' :: op' ++ body ++ arrow) ++ post = pre ++ '<' :: (op' ++ body ++ arrow ++ post) := by simp
  rw [e, ieFindAllAux_pre _ pre hpre, ieFindAllAux_zero_cons]
  have e2 : '<' :: (op' ++ body ++ arrow ++ post) = ('<' :: op') ++ body ++ arrow ++ post := by simp
  rw [e2, ieMatchAt_cond ('<' :: op') body post hop hbody hline]
  simp only
  have e3 : op' ++ body ++ arrow ++ post = (op' ++ body ++ arrow) ++ post := rfl
  have e4 : ('<' :: op' ++ body ++ arrow).length - 1 = (op' ++ body ++ arrow).length := by simp
  rw [e4]
  have := ieFindAllAux_skip post (op' ++ body ++ arrow)
  simp only [List.cons_append, List.append_assoc] at this ⊢
  rw [this, ieFindAllAux_nil post hpost 0]

theorem removeAll_single (pre op body post : Str) (hop : IsIEOpener op)
    (hpre : hasIEMarker pre = false) (hpost : hasIEMarker post = false) :
    removeAll (op ++ body ++ arrow) (pre ++ (op ++ body ++ arrow) ++ post) = pre ++ post := by
  obtain ⟨op', rfl⟩ := isIEOpener_head op hop
  unfold removeAll
  have hne : ('<' :: op' ++ body ++ arrow).isEmpty = false := rfl
  rw [hne]
  simp only [Bool.false_eq_true, if_false]
  have ec : '<' :: op' ++ body ++ arrow = ('<' :: op') ++ (body ++ arrow) := by simp
  have e : pre ++ ('<' :: op' ++ body ++ arrow) ++ post = pre ++ '<' :: (op' ++ body ++ arrow ++ post) := by simp
  rw [e, ec, removeAux_pre ('<' :: op') (body ++ arrow) _ hop pre hpre]
  congr 1
  rw [removeAux_zero_cons]
  have hp : (('<' :: op') ++ (body ++ arrow)).isPrefixOf ('<' :: (op' ++ body ++ arrow ++ post)) = true := by
    apply List.isPrefixOf_iff_prefix.mpr
    exact ⟨post, by simp⟩
  rw [hp]
  simp only [if_true]
  have e4 : (('<' :: op') ++ (body ++ arrow)).length - 1 = (op' ++ body ++ arrow).length := by simp
  rw [e4]
  have := removeAux_skip (('<' :: op') ++ (body ++ arrow)) post (op' ++ body ++ arrow)
  simp only [List.cons_append, List.append_assoc] at this ⊢
  rw [this]
  have := removeAux_id ('<' :: op') (body ++ arrow) hop post hpost
  simpa using this

/-! ### exactly one match, in general -/

/-- a string of the shape of a match: opener, body on one line, `-->` -/
def MatchShaped (m : Str) : Prop := ∃ op body, IsIEOpener op ∧ '\n' ∉ body ∧ m = op ++ body ++ arrow

theorem matchShaped_of_match (z m : Str) (h : ieMatchAt z = some m) : MatchShaped m := by
  obtain ⟨op, body, _, hop, hb, hm, _, _⟩ := (ieMatchAt_iff z m).mp h
  exact ⟨op, body, hop, hb, hm⟩

theorem hasArrow_append_right (y : Str) (h : hasArrow y = true) : ∀ x : Str, hasArrow (x ++ y) = true := by
  intro x
  induction x with
  | nil => exact h
  | cons c cs ih => rw [List.cons_append, hasArrow, ih, Bool.or_true]

/-- wherever a match-shaped string stands, the pattern matches (possibly more than that string) -/
theorem ieMatchAt_isSome_of_shaped (m t : Str) (h : MatchShaped m) : (ieMatchAt (m ++ t)).isSome = true := by
  obtain ⟨op, body, hop, hbody, rfl⟩ := h
  unfold ieMatchAt
  have e : op ++ body ++ arrow ++ t = op ++ (body ++ arrow ++ t) := by simp
  rw [e, matchItems_opener op _ hop]
  simp only
  have hall : ∀ c ∈ body ++ arrow, (fun c : Char => decide (c ≠ '\n')) c = true := by
    intro c hc
    rcases List.mem_append.mp hc with h | h
    · have : c ≠ '\n' := fun e => hbody (e ▸ h)
      simp [this]
    · simp only [arrow, List.mem_cons, List.not_mem_nil, or_false] at h
      rcases h with rfl | rfl | rfl <;> decide
  have e2 : body ++ arrow ++ t = (body ++ arrow) ++ t := rfl
  rw [e2, takeWhile_append_all _ t (body ++ arrow) hall]
  have hA : hasArrow (body ++ arrow ++ t.takeWhile (· ≠ '\n')) = true := by
    rw [List.append_assoc]
    apply hasArrow_append_right
    simp [hasArrow, arrow, List.isPrefixOf]
  cases ht : throughLastArrow (body ++ arrow ++ t.takeWhile (· ≠ '\n')) with
  | none => rw [(throughLastArrow_none_iff _).mp ht] at hA; exact absurd hA (by simp)
  | some ab => rfl

theorem ieMatchAt_ne_nil (z m : Str) (h : ieMatchAt z = some m) : m ≠ [] := by
  obtain ⟨op, body, hop, _, rfl⟩ := matchShaped_of_match z m h
  obtain ⟨r, rfl⟩ := isIEOpener_head op hop
  simp

/-- no match starts at any position of the text -/
def NoMatchIn (s : Str) : Prop := ∀ y x, s = y ++ x → ieMatchAt x = none

/-- no match starts at a position inside `pre` when `tail` follows it -/
def NoMatchBefore (pre tail : Str) : Prop := ∀ y x, pre = y ++ x → x ≠ [] → ieMatchAt (x ++ tail) = none

theorem noMatchIn_of_findAll_nil : ∀ s : Str, ieFindAllAux 0 s = [] → NoMatchIn s := by
  intro s
  induction s with
  | nil =>
    intro _ y x h
    have : x = [] := by
      have := congrArg List.length h
      simp at this
      exact List.eq_nil_of_length_eq_zero (by omega)
    rw [this]; rfl
  | cons c cs ih =>
    intro h y x hyx
    rw [ieFindAllAux_zero_cons] at h
    cases hm : ieMatchAt (c :: cs) with
    | some m => rw [hm] at h; simp at h
    | none =>
      rw [hm] at h
      cases y with
      | nil => rw [List.nil_append] at hyx; rw [← hyx]; exact hm
      | cons y0 y' =>
        simp at hyx
        exact ih h y' x hyx.2

/-- `findall` found `m` first: the text splits around it, no match starts before it, the pattern gives exactly
    `m` there, and the search goes on behind it -/
theorem findAll_cons_split : ∀ (s m : Str) (ms : List Str), ieFindAllAux 0 s = m :: ms →
    ∃ pre post, s = pre ++ m ++ post ∧ NoMatchBefore pre (m ++ post) ∧ ieMatchAt (m ++ post) = some m ∧
      ms = ieFindAllAux 0 post := by
  intro s
  induction s with
  | nil => intro m ms h; simp [ieFindAllAux] at h
  | cons c cs ih =>
    intro m ms h
    rw [ieFindAllAux_zero_cons] at h
    cases hm : ieMatchAt (c :: cs) with
    | some m' =>
      rw [hm] at h
      simp at h
      obtain ⟨rfl, hms⟩ := h
      obtain ⟨_, _, rest, _, _, _, hz, _⟩ := (ieMatchAt_iff _ _).mp hm
      have hne := ieMatchAt_ne_nil _ _ hm
      obtain ⟨m0, m1, rfl⟩ := List.exists_cons_of_ne_nil hne
      rw [List.cons_append] at hz
      simp at hz
      obtain ⟨rfl, rfl⟩ := hz
      refine ⟨[], rest, by simp, ?_, by simpa using hm, ?_⟩
      · intro y x hyx hx
        have : x = [] := by
          have := congrArg List.length hyx
          simp at this
          exact List.eq_nil_of_length_eq_zero (by omega)
        exact absurd this hx
      · rw [← hms]
        have := ieFindAllAux_skip rest m1
        simpa using this
    | none =>
      rw [hm] at h
      obtain ⟨pre, post, hs, hpre, hat, hms⟩ := ih m ms h
      refine ⟨c :: pre, post, by rw [hs]; simp, ?_, hat, hms⟩
      intro y x hyx hx
      cases y with
      | nil =>
        rw [List.nil_append] at hyx
        rw [← hyx]
        have : (c :: pre) ++ (m ++ post) = c :: cs := by rw [hs]; simp
        rw [this]; exact hm
      | cons y0 y' =>
        simp at hyx
        exact hpre y' x hyx.2 hx

theorem removeAux_noMatch (m : Str) (hm : MatchShaped m) : ∀ z : Str, NoMatchIn z → removeAux m 0 z = z := by
  intro z
  induction z with
  | nil => intro _; rfl
  | cons c cs ih =>
    intro h
    rw [removeAux_zero_cons]
    have hp : m.isPrefixOf (c :: cs) = false := by
      cases hp : m.isPrefixOf (c :: cs) with
      | false => rfl
      | true =>
        obtain ⟨t, ht⟩ := List.isPrefixOf_iff_prefix.mp hp
        have h1 := ieMatchAt_isSome_of_shaped m t hm
        rw [ht, h [] (c :: cs) rfl] at h1
        exact absurd h1 (by simp)
    rw [hp]
    simp only [Bool.false_eq_true, if_false]
    rw [ih (fun y x hyx => h (c :: y) x (by rw [hyx]; rfl))]

theorem removeAux_before (m tail : Str) (hm : MatchShaped m) : ∀ pre : Str, NoMatchBefore pre tail →
    removeAux m 0 (pre ++ tail) = pre ++ removeAux m 0 tail := by
  intro pre
  induction pre with
  | nil => intro _; rfl
  | cons c pre' ih =>
    intro h
    show removeAux m 0 (c :: (pre' ++ tail)) = _
    rw [removeAux_zero_cons]
    have hp : m.isPrefixOf (c :: (pre' ++ tail)) = false := by
      cases hp : m.isPrefixOf (c :: (pre' ++ tail)) with
      | false => rfl
      | true =>
        obtain ⟨t, ht⟩ := List.isPrefixOf_iff_prefix.mp hp
        have h1 := ieMatchAt_isSome_of_shaped m t hm
        have h2 := h [] (c :: pre') rfl (by simp)
        rw [List.cons_append] at h2
        rw [ht, h2] at h1
        exact absurd h1 (by simp)
    rw [hp]
    simp only [Bool.false_eq_true, if_false]
    rw [ih (fun y x hyx hx => h (c :: y) x (by rw [hyx]; rfl) hx)]
    rfl

/-- **`findall` finds exactly one match ⇒ that occurrence is cut out** (and nothing else happens before the
    html-tag rule) -/
theorem stripIE_of_single_match (s m : Str) (h : ieFindAll s = [m]) :
    ∃ pre post, s = pre ++ m ++ post ∧ NoMatchBefore pre (m ++ post) ∧ ieMatchAt (m ++ post) = some m ∧
      NoMatchIn post ∧ stripIE s = addHtmlIfMissing (pre ++ post) := by
  obtain ⟨pre, post, hs, hpre, hat, hms⟩ := findAll_cons_split s m [] h
  have hpost := noMatchIn_of_findAll_nil post hms.symm
  refine ⟨pre, post, hs, hpre, hat, hpost, ?_⟩
  have hshape := matchShaped_of_match _ _ hat
  have hne := ieMatchAt_ne_nil _ _ hat
  unfold stripIE
  rw [h]
  simp only [List.isEmpty_cons, Bool.false_eq_true, if_false, List.foldl_cons, List.foldl_nil]
  congr 1
  unfold removeAll
  have : m.isEmpty = false := by cases m with
    | nil => exact absurd rfl hne
    | cons _ _ => rfl
  rw [this]
  simp only [Bool.false_eq_true, if_false]
  rw [hs, List.append_assoc, removeAux_before m _ hshape pre hpre]
  congr 1
  obtain ⟨m0, m1, rfl⟩ := List.exists_cons_of_ne_nil hne
  rw [List.cons_append, removeAux_zero_cons]
  have hp : (m0 :: m1).isPrefixOf (m0 :: (m1 ++ post)) = true :=
    List.isPrefixOf_iff_prefix.mpr ⟨post, by simp⟩
  rw [hp]
  simp only [if_true]
  have := removeAux_skip (m0 :: m1) post m1
  simp only [List.length_cons, Nat.add_sub_cancel] at this ⊢
  rw [this, removeAux_noMatch _ hshape post hpost]

end AHP
