/-
  Lemmas about the model of `utils.stripIEConditionals` (AHP/Model/StripIE.lean): item-sequence matching in
  front of a character no item accepts, `findall` / `replace` on texts without the conditional's opener, and
  the single-conditional case.  The property theorems are in Props/C02.lean.
-/
import AHP.Model.StripIE
namespace AHP

/-- decidable: somewhere in the text stands `<!--` ws* `[` ws* `if` (ws = blank, tab, CR, LF) — the part of
    `IE_CONDITIONAL_PATTERN` in front of `.*-->` -/
def hasIEMarker (s : Str) : Bool := occurs ieOpenerPat s

/-- decidable: `-->` occurs in the text -/
def hasArrow : Str → Bool
  | [] => false
  | c :: cs => arrow.isPrefixOf (c :: cs) || hasArrow cs

/-! ### `dropWhile` / `takeWhile` in front of a character outside the class -/

theorem dropWhile_append_stop (p : Char → Bool) (e : Char) (b : Str) (he : p e = false) :
    ∀ x : Str, (x ++ e :: b).dropWhile p = x.dropWhile p ++ e :: b := by
  intro x
  induction x with
  | nil => simp [he]
  | cons c cs ih =>
    by_cases hc : p c = true
    · simp [hc, ih]
    · simp [hc]

theorem takeWhile_append_stop2 (p : Char → Bool) (e : Char) (b : Str) (he : p e = false) :
    ∀ x : Str, (x ++ e :: b).takeWhile p = x.takeWhile p := by
  intro x
  induction x with
  | nil => simp [he]
  | cons c cs ih =>
    by_cases hc : p c = true
    · simp [hc, ih]
    · simp [hc]

theorem dropWhile_all_nil (p : Char → Bool) : ∀ w : Str, (∀ c ∈ w, p c = true) → w.dropWhile p = [] := by
  intro w
  induction w with
  | nil => intro _; rfl
  | cons c cs ih =>
    intro h
    have hc := h c List.mem_cons_self
    simp only [List.dropWhile_cons, hc, if_true]
    exact ih (fun x hx => h x (List.mem_cons_of_mem _ hx))

theorem takeWhile_all_self (p : Char → Bool) : ∀ w : Str, (∀ c ∈ w, p c = true) → w.takeWhile p = w := by
  intro w
  induction w with
  | nil => intro _; rfl
  | cons c cs ih =>
    intro h
    have hc := h c List.mem_cons_self
    simp only [List.takeWhile_cons, hc, if_true]
    rw [ih (fun x hx => h x (List.mem_cons_of_mem _ hx))]

theorem takeWhile_append_all (p : Char → Bool) (y : Str) :
    ∀ w : Str, (∀ c ∈ w, p c = true) → (w ++ y).takeWhile p = w ++ y.takeWhile p := by
  intro w
  induction w with
  | nil => intro _; rfl
  | cons c cs ih =>
    intro h
    have hc := h c List.mem_cons_self
    simp only [List.cons_append, List.takeWhile_cons, hc, if_true]
    rw [ih (fun x hx => h x (List.mem_cons_of_mem _ hx))]

/-! ### matching an item sequence -/

theorem matchItems_nil (s : Str) : matchItems [] s = some ([], s) := by
  cases s <;> rfl

theorem matchItems_one_nil (cs : List Char) (ps : List PItem) : matchItems (.one cs :: ps) [] = none := rfl

theorem matchItems_one_cons (cs : List Char) (ps : List PItem) (x : Char) (s : Str) :
    matchItems (.one cs :: ps) (x :: s) =
      if cs.contains x then
        match matchItems ps s with
        | some (m, r) => some (x :: m, r)
        | none => none
      else none := rfl

theorem matchItems_star (cs : List Char) (ps : List PItem) (s : Str) :
    matchItems (.star cs :: ps) s =
      match matchItems ps (s.dropWhile cs.contains) with
      | some (m, r) => some (s.takeWhile cs.contains ++ m, r)
      | none => none := by
  cases s <;> rfl

theorem matchItems_one_isSome (cs : List Char) (ps : List PItem) (x : Char) (s : Str) :
    (matchItems (.one cs :: ps) (x :: s)).isSome = (cs.contains x && (matchItems ps s).isSome) := by
  rw [matchItems_one_cons]
  cases hc : cs.contains x
  · simp
  · cases hm : matchItems ps s with
    | none => simp
    | some mr => obtain ⟨m, r⟩ := mr; simp

/-- in front of a character that no item of the sequence accepts, the sequence matches as it does on the text
    before that character (what follows plays no part) -/
theorem matchItems_stop (e : Char) (b : Str) : ∀ (ps : List PItem), (∀ it ∈ ps, it.cls.contains e = false) →
    ∀ x : Str, matchItems ps (x ++ e :: b) = (matchItems ps x).map (fun mr => (mr.1, mr.2 ++ e :: b)) := by
  intro ps
  induction ps with
  | nil => intro _ x; simp [matchItems_nil]
  | cons it ps ih =>
    intro he x
    have he' : ∀ it ∈ ps, it.cls.contains e = false := fun i hi => he i (List.mem_cons_of_mem _ hi)
    have hit := he it List.mem_cons_self
    cases it with
    | one cs =>
      simp only [PItem.cls] at hit
      cases x with
      | nil =>
        rw [List.nil_append, matchItems_one_cons, matchItems_one_nil, hit]
        rfl
      | cons y x' =>
        rw [List.cons_append, matchItems_one_cons, matchItems_one_cons, ih he' x']
        cases hc : cs.contains y
        · simp
        · cases hm : matchItems ps x' with
          | none => simp
          | some mr => obtain ⟨m, r⟩ := mr; simp
    | star cs =>
      simp only [PItem.cls] at hit
      rw [matchItems_star, matchItems_star, dropWhile_append_stop _ e b hit, takeWhile_append_stop2 _ e b hit,
        ih he' (x.dropWhile cs.contains)]
      cases hm : matchItems ps (x.dropWhile cs.contains) with
      | none => simp
      | some mr => obtain ⟨m, r⟩ := mr; simp

theorem matchItems_stop_isSome (e : Char) (b : Str) (ps : List PItem) (he : ∀ it ∈ ps, it.cls.contains e = false)
    (x : Str) : (matchItems ps (x ++ e :: b)).isSome = (matchItems ps x).isSome := by
  rw [matchItems_stop e b ps he x]
  cases matchItems ps x <;> rfl

/-- a starred class in front of text that starts outside the class takes exactly the run of class characters -/
theorem matchItems_star_run (cs : List Char) (ps : List PItem) (w : Str) (e : Char) (b : Str)
    (hw : ∀ c ∈ w, cs.contains c = true) (he : cs.contains e = false) :
    matchItems (.star cs :: ps) (w ++ e :: b) = (matchItems ps (e :: b)).map (fun mr => (w ++ mr.1, mr.2)) := by
  rw [matchItems_star, dropWhile_append_stop _ e b he, takeWhile_append_stop2 _ e b he,
    dropWhile_all_nil _ w hw, takeWhile_all_self _ w hw]
  simp only [List.nil_append]
  cases hm : matchItems ps (e :: b) with
  | none => rfl
  | some mr => obtain ⟨m, r⟩ := mr; rfl

/-! ### occurrences -/

theorem occurs_nil_one (cs : List Char) (ps : List PItem) : occurs (.one cs :: ps) [] = false := rfl

theorem occurs_cons (ps : List PItem) (c : Char) (s : Str) :
    occurs ps (c :: s) = ((matchItems ps (c :: s)).isSome || occurs ps s) := rfl

/-- occurrences of a sequence `[c₀] tl` in `x ++ e :: b`, where no item of `tl` accepts `e`: those in `x` and
    those in `e :: b` — none reaches across -/
theorem occurs_append_stop (cs0 : List Char) (tl : List PItem) (e : Char) (b : Str)
    (he : ∀ it ∈ tl, it.cls.contains e = false) :
    ∀ x : Str, occurs (.one cs0 :: tl) (x ++ e :: b) = (occurs (.one cs0 :: tl) x || occurs (.one cs0 :: tl) (e :: b)) := by
  intro x
  induction x with
  | nil => simp [occurs_nil_one]
  | cons c x' ih =>
    rw [List.cons_append, occurs_cons, occurs_cons, ih, matchItems_one_isSome, matchItems_one_isSome,
      matchItems_stop_isSome e b tl he x', Bool.or_assoc]

theorem occurs_cons_not_first (cs0 : List Char) (tl : List PItem) (e : Char) (b : Str) (he : cs0.contains e = false) :
    occurs (.one cs0 :: tl) (e :: b) = occurs (.one cs0 :: tl) b := by
  rw [occurs_cons, matchItems_one_isSome, he]
  simp

/-- the same with a character that no item at all accepts: the text falls apart there -/
theorem occurs_split (cs0 : List Char) (tl : List PItem) (e : Char) (b : Str)
    (he0 : cs0.contains e = false) (he : ∀ it ∈ tl, it.cls.contains e = false) (x : Str) :
    occurs (.one cs0 :: tl) (x ++ e :: b) = (occurs (.one cs0 :: tl) x || occurs (.one cs0 :: tl) b) := by
  rw [occurs_append_stop cs0 tl e b he x, occurs_cons_not_first cs0 tl e b he0]

theorem occurs_false_of_not_mem_first (cs0 : List Char) (tl : List PItem) :
    ∀ s : Str, (∀ c ∈ s, cs0.contains c = false) → occurs (.one cs0 :: tl) s = false := by
  intro s
  induction s with
  | nil => intro _; rfl
  | cons c cs ih =>
    intro h
    rw [occurs_cons, matchItems_one_isSome, h c List.mem_cons_self, ih (fun x hx => h x (List.mem_cons_of_mem _ hx))]
    rfl

/-! ### the conditional's opener -/

/-- the characters the items after the first `<` of the opener accept -/
def ieTail : List PItem := .one ['!'] :: .one ['-'] :: .one ['-'] :: ieCondPat

theorem ieOpenerPat_eq : ieOpenerPat = .one ['<'] :: ieTail := rfl

/-- a character outside `! - [ i f` and the white space class stops every item after the first -/
def IEStop (e : Char) : Prop := ∀ it ∈ ieTail, it.cls.contains e = false

instance (e : Char) : Decidable (IEStop e) := by unfold IEStop; exact inferInstance

theorem ieStop_lt : IEStop '<' := by decide
theorem ieStop_gt : IEStop '>' := by decide
theorem ieStop_amp : IEStop '&' := by decide
theorem ieStop_semi : IEStop ';' := by decide
theorem ieStop_quote : IEStop '"' := by decide

theorem hasIEMarker_cons (c : Char) (s : Str) :
    hasIEMarker (c :: s) = ((matchItems ieOpenerPat (c :: s)).isSome || hasIEMarker s) := rfl

theorem hasIEMarker_append_stop (e : Char) (he : IEStop e) (x b : Str) :
    hasIEMarker (x ++ e :: b) = (hasIEMarker x || hasIEMarker (e :: b)) :=
  occurs_append_stop ['<'] ieTail e b he x

theorem hasIEMarker_split (e : Char) (he : IEStop e) (hlt : e ≠ '<') (x b : Str) :
    hasIEMarker (x ++ e :: b) = (hasIEMarker x || hasIEMarker b) := by
  apply occurs_split ['<'] ieTail e b _ he x
  simp [hlt]

theorem hasIEMarker_no_lt (s : Str) (h : '<' ∉ s) : hasIEMarker s = false := by
  apply occurs_false_of_not_mem_first
  intro c hc
  have : c ≠ '<' := fun e => h (e ▸ hc)
  simp [this]

/-- `<` followed by something else than `!` opens no conditional -/
theorem ieOpener_not_bang (c : Char) (r : Str) (hc : c ≠ '!') : (matchItems ieOpenerPat ('<' :: c :: r)).isSome = false := by
  rw [ieOpenerPat_eq, matchItems_one_isSome]
  unfold ieTail
  rw [matchItems_one_isSome]
  simp [hc]

/-- explicit reading of the opener: `<!--`, white space, `[`, white space, `if` -/
def IsIEOpener (op : Str) : Prop :=
  ∃ w1 w2 : Str, (∀ c ∈ w1, reWs.contains c = true) ∧ (∀ c ∈ w2, reWs.contains c = true) ∧
    op = "<!--".toList ++ w1 ++ '[' :: w2 ++ "if".toList

theorem matchItems_opener (op r : Str) (h : IsIEOpener op) : matchItems ieOpenerPat (op ++ r) = some (op, r) := by
  obtain ⟨w1, w2, h1, h2, rfl⟩ := h
  have e1 : "<!--".toList ++ w1 ++ '[' :: w2 ++ "if".toList ++ r
      = '<' :: '!' :: '-' :: '-' :: (w1 ++ '[' :: (w2 ++ 'i' :: 'f' :: r)) := by simp
  rw [e1]
  unfold ieOpenerPat ieCondPat
  rw [matchItems_one_cons, matchItems_one_cons, matchItems_one_cons, matchItems_one_cons,
    matchItems_star_run reWs _ w1 '[' _ h1 (by decide), matchItems_one_cons,
    matchItems_star_run reWs _ w2 'i' _ h2 (by decide), matchItems_one_cons, matchItems_one_cons, matchItems_nil]
  simp

theorem isIEOpener_head (op : Str) (h : IsIEOpener op) : ∃ r, op = '<' :: r := by
  obtain ⟨w1, w2, _, _, rfl⟩ := h
  exact ⟨_, rfl⟩

/-! ### greedy `.*-->` -/

theorem throughLastArrow_none_iff (l : Str) : throughLastArrow l = none ↔ hasArrow l = false := by
  induction l with
  | nil => simp [throughLastArrow, hasArrow]
  | cons c cs ih =>
    unfold throughLastArrow hasArrow
    cases ht : throughLastArrow cs with
    | some ab =>
      obtain ⟨a, b⟩ := ab
      have : hasArrow cs = true := by
        cases hh : hasArrow cs with
        | true => rfl
        | false => rw [ih.mpr hh] at ht; exact absurd ht (by simp)
      simp [this]
    | none =>
      have : hasArrow cs = false := ih.mp ht
      by_cases hp : arrow.isPrefixOf (c :: cs) = true
      · simp [hp]
      · simp [hp, this]

/-- the match of `.*-->` on a line ends at an arrow after which no further arrow stands -/
theorem throughLastArrow_append (l : Str) (h : hasArrow l = false) :
    ∀ x : Str, throughLastArrow (x ++ arrow ++ l) = some (x ++ arrow, l) := by
  have hl : throughLastArrow l = none := (throughLastArrow_none_iff l).mpr h
  have h1 : throughLastArrow ('>' :: l) = none := by
    unfold throughLastArrow; rw [hl]; simp [arrow, List.isPrefixOf]
  have h2 : throughLastArrow ('-' :: '>' :: l) = none := by
    unfold throughLastArrow; rw [h1]; simp [arrow, List.isPrefixOf]
  intro x
  induction x with
  | nil =>
    show throughLastArrow ('-' :: '-' :: '>' :: l) = _
    unfold throughLastArrow; rw [h2]; simp [arrow, List.isPrefixOf]
  | cons c cs ih =>
    show throughLastArrow (c :: (cs ++ arrow ++ l)) = _
    unfold throughLastArrow
    rw [ih]
    rfl

/-! ### `findall` and `replace` on texts without the opener -/

theorem ieMatchAt_none (s : Str) (h : (matchItems ieOpenerPat s).isSome = false) : ieMatchAt s = none := by
  unfold ieMatchAt
  cases hm : matchItems ieOpenerPat s with
  | none => rfl
  | some mr => rw [hm] at h; simp at h

theorem ieFindAllAux_zero_cons (c : Char) (cs : Str) :
    ieFindAllAux 0 (c :: cs) =
      match ieMatchAt (c :: cs) with
      | some m => m :: ieFindAllAux (m.length - 1) cs
      | none => ieFindAllAux 0 cs := rfl

theorem removeAux_zero_cons (m : Str) (c : Char) (cs : Str) :
    removeAux m 0 (c :: cs) =
      if m.isPrefixOf (c :: cs) then removeAux m (m.length - 1) cs else c :: removeAux m 0 cs := rfl

theorem ieFindAllAux_nil (s : Str) (h : hasIEMarker s = false) : ∀ k, ieFindAllAux k s = [] := by
  induction s with
  | nil => intro k; cases k <;> rfl
  | cons c cs ih =>
    rw [hasIEMarker_cons, Bool.or_eq_false_iff] at h
    intro k
    cases k with
    | succ k => exact ih h.2 k
    | zero =>
      rw [ieFindAllAux_zero_cons, ieMatchAt_none _ h.1]
      exact ih h.2 0

theorem ieFindAllAux_skip (y : Str) : ∀ x : Str, ieFindAllAux x.length (x ++ y) = ieFindAllAux 0 y := by
  intro x
  induction x with
  | nil => rfl
  | cons c cs ih => exact ih

theorem removeAux_skip (m y : Str) : ∀ x : Str, removeAux m x.length (x ++ y) = removeAux m 0 y := by
  intro x
  induction x with
  | nil => rfl
  | cons c cs ih => exact ih

/-- a text that starts with a whole opener is matched by the opener pattern -/
theorem opener_of_isPrefixOf (op t z : Str) (hop : IsIEOpener op) (h : (op ++ t).isPrefixOf z = true) :
    (matchItems ieOpenerPat z).isSome = true := by
  obtain ⟨u, hu⟩ := List.isPrefixOf_iff_prefix.mp h
  rw [← hu, List.append_assoc, matchItems_opener op (t ++ u) hop]
  rfl

theorem removeAux_id (op t : Str) (hop : IsIEOpener op) :
    ∀ z : Str, hasIEMarker z = false → removeAux (op ++ t) 0 z = z := by
  intro z
  induction z with
  | nil => intro _; rfl
  | cons c cs ih =>
    intro h
    rw [hasIEMarker_cons, Bool.or_eq_false_iff] at h
    rw [removeAux_zero_cons]
    have : (op ++ t).isPrefixOf (c :: cs) = false := by
      cases hp : (op ++ t).isPrefixOf (c :: cs) with
      | false => rfl
      | true => rw [opener_of_isPrefixOf op t _ hop hp] at h; exact absurd h.1 (by simp)
    rw [this, ih h.2]
    rfl

/-- in front of a `<`, a text without the opener stays without it: no opener starts inside `pre` -/
theorem no_opener_in_pre (c : Char) (pre' y : Str) (h : hasIEMarker (c :: pre') = false) :
    (matchItems ieOpenerPat (c :: (pre' ++ '<' :: y))).isSome = false := by
  rw [hasIEMarker_cons, Bool.or_eq_false_iff] at h
  rw [ieOpenerPat_eq, matchItems_one_isSome, matchItems_stop_isSome '<' y ieTail ieStop_lt pre',
    ← matchItems_one_isSome, ← ieOpenerPat_eq]
  exact h.1

theorem ieFindAllAux_pre (y : Str) : ∀ pre : Str, hasIEMarker pre = false →
    ieFindAllAux 0 (pre ++ '<' :: y) = ieFindAllAux 0 ('<' :: y) := by
  intro pre
  induction pre with
  | nil => intro _; rfl
  | cons c pre' ih =>
    intro h
    have h0 := no_opener_in_pre c pre' y h
    rw [hasIEMarker_cons, Bool.or_eq_false_iff] at h
    show ieFindAllAux 0 (c :: (pre' ++ '<' :: y)) = _
    rw [ieFindAllAux_zero_cons, ieMatchAt_none _ h0]
    exact ih h.2

theorem removeAux_pre (op t y : Str) (hop : IsIEOpener op) : ∀ pre : Str, hasIEMarker pre = false →
    removeAux (op ++ t) 0 (pre ++ '<' :: y) = pre ++ removeAux (op ++ t) 0 ('<' :: y) := by
  intro pre
  induction pre with
  | nil => intro _; rfl
  | cons c pre' ih =>
    intro h
    have h0 := no_opener_in_pre c pre' y h
    rw [hasIEMarker_cons, Bool.or_eq_false_iff] at h
    show removeAux (op ++ t) 0 (c :: (pre' ++ '<' :: y)) = _
    rw [removeAux_zero_cons]
    have : (op ++ t).isPrefixOf (c :: (pre' ++ '<' :: y)) = false := by
      cases hp : (op ++ t).isPrefixOf (c :: (pre' ++ '<' :: y)) with
      | false => rfl
      | true =>
        have := opener_of_isPrefixOf op t _ hop hp
        rw [h0] at this
        exact absurd this (by simp)
    rw [this, ih h.2]
    rfl

/-- **no opener, nothing to strip** -/
theorem stripIE_of_no_marker (s : Str) (h : hasIEMarker s = false) : stripIE s = s := by
  unfold stripIE ieFindAll
  rw [ieFindAllAux_nil s h 0]
  rfl

/-! ### one conditional on one line -/

/-- `IE_CONDITIONAL_PATTERN` matches `op body -->` at the start of `op body --> post` when `body` stays on the
    line and no further `-->` stands on the rest of that line -/
theorem ieMatchAt_cond (op body post : Str) (hop : IsIEOpener op) (hbody : '\n' ∉ body)
    (hline : hasArrow (post.takeWhile (· ≠ '\n')) = false) :
    ieMatchAt (op ++ body ++ arrow ++ post) = some (op ++ body ++ arrow) := by
  unfold ieMatchAt
  have e : op ++ body ++ arrow ++ post = op ++ (body ++ arrow ++ post) := by simp
  rw [e, matchItems_opener op _ hop]
  simp only
  have hall : ∀ c ∈ body ++ arrow, (fun c : Char => decide (c ≠ '\n')) c = true := by
    intro c hc
    rcases List.mem_append.mp hc with h | h
    · have : c ≠ '\n' := fun e => hbody (e ▸ h)
      simp [this]
    · simp only [arrow, List.mem_cons, List.not_mem_nil, or_false] at h
      rcases h with rfl | rfl | rfl <;> decide
  have e2 : body ++ arrow ++ post = (body ++ arrow) ++ post := rfl
  rw [e2, takeWhile_append_all _ post (body ++ arrow) hall, throughLastArrow_append _ hline body]
  simp

theorem ieFindAll_single (pre op body post : Str) (hop : IsIEOpener op) (hbody : '\n' ∉ body)
    (hpre : hasIEMarker pre = false) (hpost : hasIEMarker post = false)
    (hline : hasArrow (post.takeWhile (· ≠ '\n')) = false) :
    ieFindAll (pre ++ (op ++ body ++ arrow) ++ post) = [op ++ body ++ arrow] := by
  obtain ⟨op', rfl⟩ := isIEOpener_head op hop
  unfold ieFindAll
  have e : pre ++ ('<' :: op' ++ body ++ arrow) ++ post = pre ++ '<' :: (op' ++ body ++ arrow ++ post) := by simp
  rw [e, ieFindAllAux_pre _ pre hpre, ieFindAllAux_zero_cons]
  have e2 : '<' :: (op' ++ body ++ arrow ++ post) = ('<' :: op') ++ body ++ arrow ++ post := by simp
  rw [e2, ieMatchAt_cond ('<' :: op') body post hop hbody hline]
  simp only
  have e3 : op' ++ body ++ arrow ++ post = (op' ++ body ++ arrow) ++ post := rfl
  have e4 : ('<' :: op' ++ body ++ arrow).length - 1 = (op' ++ body ++ arrow).length := by simp
  rw [e4]
  have := ieFindAllAux_skip post (op' ++ body ++ arrow)
  simp only [List.cons_append, List.append_assoc] at this ⊢
  rw [this, ieFindAllAux_nil post hpost 0]

theorem removeAll_single (pre op body post : Str) (hop : IsIEOpener op)
    (hpre : hasIEMarker pre = false) (hpost : hasIEMarker post = false) :
    removeAll (op ++ body ++ arrow) (pre ++ (op ++ body ++ arrow) ++ post) = pre ++ post := by
  obtain ⟨op', rfl⟩ := isIEOpener_head op hop
  unfold removeAll
  have hne : ('<' :: op' ++ body ++ arrow).isEmpty = false := rfl
  rw [hne]
  simp only [Bool.false_eq_true, if_false]
  have ec : '<' :: op' ++ body ++ arrow = ('<' :: op') ++ (body ++ arrow) := by simp
  have e : pre ++ ('<' :: op' ++ body ++ arrow) ++ post = pre ++ '<' :: (op' ++ body ++ arrow ++ post) := by simp
  rw [e, ec, removeAux_pre ('<' :: op') (body ++ arrow) _ hop pre hpre]
  congr 1
  rw [removeAux_zero_cons]
  have hp : (('<' :: op') ++ (body ++ arrow)).isPrefixOf ('<' :: (op' ++ body ++ arrow ++ post)) = true := by
    apply List.isPrefixOf_iff_prefix.mpr
    exact ⟨post, by simp⟩
  rw [hp]
  simp only [if_true]
  have e4 : (('<' :: op') ++ (body ++ arrow)).length - 1 = (op' ++ body ++ arrow).length := by simp
  rw [e4]
  have := removeAux_skip (('<' :: op') ++ (body ++ arrow)) post (op' ++ body ++ arrow)
  simp only [List.cons_append, List.append_assoc] at this ⊢
  rw [this]
  have := removeAux_id ('<' :: op') (body ++ arrow) hop post hpost
  simpa using this

end AHP
